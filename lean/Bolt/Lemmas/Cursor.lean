/-
Definitions and helper lemmas for the cursor theorems (C05).
-/
import Bolt.Model.Cursor
namespace Bolt.Cur

mutual
/-- every branch node has at least one child (what the code guarantees: a branch that
    loses its last child is removed by rebalance; mid-transaction deletes only touch leaves) -/
def BranchesNonEmpty : Tree → Prop
  | .leaf _ => True
  | .branch kids => kids ≠ [] ∧ BranchesNonEmptyKids kids
def BranchesNonEmptyKids : List (Bytes × Tree) → Prop
  | [] => True
  | (_, c) :: r => BranchesNonEmpty c ∧ BranchesNonEmptyKids r
end

def geLo (lo : Option Bytes) (k : Bytes) : Prop := match lo with | none => True | some l => Bytes.lt k l = false
def ltHi (hi : Option Bytes) (k : Bytes) : Prop := match hi with | none => True | some h => Bytes.lt k h = true

mutual
/-- B+tree ordering with bounds: leaf keys strictly ascending and within `[lo, hi)`;
    child `i` of a branch holds keys in `[sep_i, sep_{i+1})` — except that the first child
    inherits the node's own lower bound (a branch key may be smaller than its child's
    first key after deletes, and seeks below the first separator descend into child 0).
    Every separator is below the node's upper bound and every NON-first separator is at
    least the node's lower bound (separators are keys that were routed into this node).
    [Strengthened: the original definition lacked the two separator-range conjuncts, which
    made `seek_spec` false — see REPORT.md; the original text is kept below.] -/
def ST (lo hi : Option Bytes) : Tree → Prop
  | .leaf items => List.Pairwise (fun a b => Bytes.lt a.key b.key = true) items ∧
                   ∀ it ∈ items, geLo lo it.key ∧ ltHi hi it.key
  | .branch kids => KidsST true lo hi kids
def KidsST (isFirst : Bool) (lo hi : Option Bytes) : List (Bytes × Tree) → Prop
  | [] => True
  | (s, c) :: r =>
    (isFirst = true ∨ geLo lo s) ∧ ltHi hi s ∧
    match r with
    | [] => ST (if isFirst then lo else some s) hi c
    | (s', _) :: _ => Bytes.lt s s' = true ∧ ST (if isFirst then lo else some s) (some s') c ∧ KidsST false lo hi r
end
/- original (too weak) definition of `KidsST`:
def KidsST (isFirst : Bool) (lo hi : Option Bytes) : List (Bytes × Tree) → Prop
  | [] => True
  | (s, c) :: r =>
    match r with
    | [] => ST (if isFirst then lo else some s) hi c
    | (s', _) :: _ => Bytes.lt s s' = true ∧ ST (if isFirst then lo else some s) (some s') c ∧ KidsST false lo hi r
-/

def SearchTree (t : Tree) : Prop := ST none none t

mutual
def NoEmptyLeaf : Tree → Prop
  | .leaf items => items ≠ []
  | .branch kids => NoEmptyLeafKids kids
def NoEmptyLeafKids : List (Bytes × Tree) → Prop
  | [] => True
  | (_, c) :: r => NoEmptyLeaf c ∧ NoEmptyLeafKids r
end

/-- no empty leaf except possibly the root itself (an empty bucket) -/
def NoEmptyLeafBelowRoot : Tree → Prop
  | .leaf _ => True
  | .branch kids => NoEmptyLeafKids kids

/-- frames bottom (root) first form a root-to-node path with in-range indices -/
def ValidPath : Tree → List Frame → Prop
  | _, [] => True
  | t, [f] => f.node = t ∧ -1 ≤ f.index ∧ f.index ≤ f.node.count
  | t, f :: g :: r => f.node = t ∧ 0 ≤ f.index ∧ f.node.child f.index = some g.node ∧ ValidPath g.node (g :: r)

/-- a cursor stack (top first) that the cursor code can be in for tree `t` -/
def ValidStack (t : Tree) (st : Stack) : Prop := ValidPath t st.reverse

/-! ## `Bytes.lt` is a strict total order -/

theorem blt_irrefl : ∀ (a : Bytes), Bytes.lt a a = false
  | [] => rfl
  | x :: a => by simp [Bytes.lt, UInt8.lt_irrefl, blt_irrefl a]

theorem blt_trans : ∀ {a b c : Bytes}, Bytes.lt a b = true → Bytes.lt b c = true → Bytes.lt a c = true
  | [], [], _, h, _ => by simp [Bytes.lt] at h
  | [], _ :: _, [], _, h => by simp [Bytes.lt] at h
  | [], _ :: _, _ :: _, _, _ => by simp [Bytes.lt]
  | _ :: _, [], _, h, _ => by simp [Bytes.lt] at h
  | _ :: _, _ :: _, [], _, h => by simp [Bytes.lt] at h
  | x :: a, y :: b, z :: c, h1, h2 => by
    simp only [Bytes.lt] at h1 h2 ⊢
    have ih := @blt_trans a b c
    simp only [UInt8.lt_iff_toNat_lt] at h1 h2 ⊢
    split at h1
    · split at h2
      · rw [if_pos (by omega)]
      · split at h2
        · simp at h2
        · rw [if_pos (by omega)]
    · split at h1
      · simp at h1
      · split at h2
        · rw [if_pos (by omega)]
        · split at h2
          · simp at h2
          · rw [if_neg (by omega), if_neg (by omega)]; exact ih h1 h2

theorem blt_total : ∀ {a b : Bytes}, Bytes.lt a b = false → Bytes.lt b a = false → a = b
  | [], [], _, _ => rfl
  | [], _ :: _, h, _ => by simp [Bytes.lt] at h
  | _ :: _, [], _, h => by simp [Bytes.lt] at h
  | x :: a, y :: b, h1, h2 => by
    simp only [Bytes.lt] at h1 h2
    simp only [UInt8.lt_iff_toNat_lt] at h1 h2
    split at h1
    · simp at h1
    · split at h1
      · split at h2
        · simp at h2
        · omega
      · rw [if_neg (by omega), if_neg (by omega)] at h2
        have : x = y := UInt8.toNat_inj.mp (by omega)
        rw [this, blt_total h1 h2]

theorem blt_asymm {a b : Bytes} (h : Bytes.lt a b = true) : Bytes.lt b a = false := by
  cases h' : Bytes.lt b a with
  | false => rfl
  | true => have := blt_trans h h'; rw [blt_irrefl] at this; cases this

/-- `a < b`, `c ≤ b`... : a < b → ¬ (c < b) → a < c -/
theorem blt_of_lt_of_le {a b c : Bytes} (h1 : Bytes.lt a b = true) (h2 : Bytes.lt c b = false) : Bytes.lt a c = true := by
  cases h : Bytes.lt a c with
  | true => rfl
  | false =>
    cases h' : Bytes.lt c a with
    | true => rw [blt_trans h' h1] at h2; cases h2
    | false => have := blt_total h h'; subst this; rw [h1] at h2; cases h2

/-- `a ≤ b` and `b < c` give `a < c` -/
theorem blt_of_le_of_lt {a b c : Bytes} (h1 : Bytes.lt b a = false) (h2 : Bytes.lt b c = true) : Bytes.lt a c = true := by
  cases h : Bytes.lt a c with
  | true => rfl
  | false =>
    cases h' : Bytes.lt c a with
    | true => rw [blt_trans h2 h'] at h1; cases h1
    | false => have := blt_total h h'; subst this; rw [h2] at h1; cases h1

/-- `a ≤ b` and `b ≤ c` give `a ≤ c` -/
theorem ble_trans {a b c : Bytes} (h1 : Bytes.lt b a = false) (h2 : Bytes.lt c b = false) : Bytes.lt c a = false := by
  cases h : Bytes.lt c a with
  | false => rfl
  | true => rw [blt_of_lt_of_le h h1] at h2; cases h2

/-! ## induction principle for the nested inductive `Tree` -/

theorem Tree.induct {P : Tree → Prop} {Q : List (Bytes × Tree) → Prop}
    (hleaf : ∀ items, P (.leaf items)) (hbranch : ∀ kids, Q kids → P (.branch kids))
    (hnil : Q []) (hcons : ∀ s c r, P c → Q r → Q ((s, c) :: r)) : ∀ t, P t := by
  intro t
  exact Tree.rec (motive_1 := P) (motive_2 := Q) (motive_3 := fun p => P p.2)
    hleaf hbranch hnil (fun p r hp hr => hcons p.1 p.2 r hp hr) (fun _ _ h => h) t

theorem Tree.induct_kids {P : Tree → Prop} {Q : List (Bytes × Tree) → Prop}
    (hleaf : ∀ items, P (.leaf items)) (hbranch : ∀ kids, Q kids → P (.branch kids))
    (hnil : Q []) (hcons : ∀ s c r, P c → Q r → Q ((s, c) :: r)) : ∀ kids, Q kids := by
  intro kids
  induction kids with
  | nil => exact hnil
  | cons p r ih => exact hcons p.1 p.2 r (Tree.induct hleaf hbranch hnil hcons p.2) ih

/-! ## lists of children -/

theorem flattenKids_append (a b : List (Bytes × Tree)) :
    flattenKids (a ++ b) = flattenKids a ++ flattenKids b := by
  induction a with
  | nil => simp [flattenKids]
  | cons p a ih => obtain ⟨s, c⟩ := p; simp [flattenKids, ih]

theorem sizeKids_append (a b : List (Bytes × Tree)) :
    sizeKids (a ++ b) = sizeKids a + sizeKids b := by
  induction a with
  | nil => simp [sizeKids]
  | cons p a ih => obtain ⟨s, c⟩ := p; simp [sizeKids, ih]; omega

theorem kids_split (kids : List (Bytes × Tree)) (i : Nat) (h : i < kids.length) :
    kids = kids.take i ++ kids[i] :: kids.drop (i + 1) := by
  rw [List.getElem_cons_drop, List.take_append_drop]

theorem flattenKids_split (kids : List (Bytes × Tree)) (i : Nat) (h : i < kids.length) :
    flattenKids (kids.take i) ++ (flatten kids[i].2 ++ flattenKids (kids.drop (i + 1))) = flattenKids kids := by
  conv => rhs; rw [kids_split kids i h]
  rw [flattenKids_append]
  rfl

theorem sizeKids_split (kids : List (Bytes × Tree)) (i : Nat) (h : i < kids.length) :
    sizeKids (kids.take i) + (size kids[i].2 + sizeKids (kids.drop (i + 1))) = sizeKids kids := by
  conv => rhs; rw [kids_split kids i h]
  rw [sizeKids_append]
  rfl

theorem mem_flattenKids {x : Item} {kids : List (Bytes × Tree)} :
    x ∈ flattenKids kids ↔ ∃ p ∈ kids, x ∈ flatten p.2 := by
  induction kids with
  | nil => simp [flattenKids]
  | cons p r ih => obtain ⟨s, c⟩ := p; simp [flattenKids, ih]

theorem depth_le_depthKids {kids : List (Bytes × Tree)} {p : Bytes × Tree} (h : p ∈ kids) :
    depth p.2 ≤ depthKids kids := by
  induction kids with
  | nil => cases h
  | cons q r ih =>
    obtain ⟨s, c⟩ := q
    simp only [depthKids]
    rcases List.mem_cons.mp h with h | h
    · subst h; exact Nat.le_max_left _ _
    · exact Nat.le_trans (ih h) (Nat.le_max_right _ _)

theorem bne_of_mem {kids : List (Bytes × Tree)} (hk : BranchesNonEmptyKids kids) {p : Bytes × Tree}
    (h : p ∈ kids) : BranchesNonEmpty p.2 := by
  induction kids with
  | nil => cases h
  | cons q r ih =>
    obtain ⟨s, c⟩ := q
    simp only [BranchesNonEmptyKids] at hk
    rcases List.mem_cons.mp h with h | h
    · subst h; exact hk.1
    · exact ih hk.2 h

theorem nel_of_mem {kids : List (Bytes × Tree)} (hk : NoEmptyLeafKids kids) {p : Bytes × Tree}
    (h : p ∈ kids) : NoEmptyLeaf p.2 := by
  induction kids with
  | nil => cases h
  | cons q r ih =>
    obtain ⟨s, c⟩ := q
    simp only [NoEmptyLeafKids] at hk
    rcases List.mem_cons.mp h with h | h
    · subst h; exact hk.1
    · exact ih hk.2 h

theorem depth_pos (t : Tree) : 1 ≤ depth t := by
  cases t <;> simp [depth]

theorem size_pos (t : Tree) : 1 ≤ size t := by
  cases t <;> simp [size]

/-- what `child i = some c` means -/
theorem child_some {n : Tree} {i : Int} {c : Tree} (h : n.child i = some c) :
    ∃ kids, n = .branch kids ∧ 0 ≤ i ∧ ∃ hlt : i.toNat < kids.length, kids[i.toNat].2 = c := by
  cases n with
  | leaf items => simp [Tree.child] at h
  | branch kids =>
    simp only [Tree.child] at h
    split at h
    · cases h
    · rename_i hi
      refine ⟨kids, rfl, by omega, ?_⟩
      cases hk : kids[i.toNat]? with
      | none => rw [hk] at h; cases h
      | some p =>
        rw [hk] at h
        obtain ⟨hlt, hp⟩ := List.getElem?_eq_some_iff.mp hk
        refine ⟨hlt, ?_⟩
        rw [hp]; simpa using h

theorem child_of_lt {kids : List (Bytes × Tree)} {i : Int} (h0 : 0 ≤ i) (h : i.toNat < kids.length) :
    (Tree.branch kids).child i = some kids[i.toNat].2 := by
  simp only [Tree.child]
  rw [if_neg (by omega)]
  simp [List.getElem?_eq_getElem h]

/-- a non-empty-leaf subtree with non-empty branches holds at least one key -/
theorem flatten_ne_nil : ∀ t, BranchesNonEmpty t → NoEmptyLeaf t → flatten t ≠ [] := by
  refine Tree.induct (Q := fun kids => BranchesNonEmptyKids kids → NoEmptyLeafKids kids → kids ≠ [] → flattenKids kids ≠ [])
    ?_ ?_ ?_ ?_
  · intro items _ h; simpa [flatten, NoEmptyLeaf] using h
  · intro kids ih hb hn
    simp only [BranchesNonEmpty] at hb
    simp only [NoEmptyLeaf] at hn
    simpa [flatten] using ih hb.2 hn hb.1
  · intro _ _ h; exact absurd rfl h
  · intro s c r ihc _ hb hn _
    simp only [BranchesNonEmptyKids] at hb
    simp only [NoEmptyLeafKids] at hn
    simp only [flattenKids]
    intro h
    exact ihc hb.1 hn.1 (List.append_eq_nil_iff.mp h).1

/-! ## a stack as a position in `flatten t` -/

def InRange (f : Frame) : Prop := 0 ≤ f.index ∧ f.index < f.node.count

/-- keys strictly right of the frame's index, inside the frame's node -/
def rightOf (f : Frame) : List Item :=
  match f.node with
  | .leaf items => items.drop (f.index + 1).toNat
  | .branch kids => flattenKids (kids.drop (f.index + 1).toNat)
/-- keys at or right of the frame's index -/
def fromTop (f : Frame) : List Item :=
  match f.node with
  | .leaf items => items.drop f.index.toNat
  | .branch kids => flattenKids (kids.drop f.index.toNat)
/-- keys strictly left of the frame's index -/
def leftOf (f : Frame) : List Item :=
  match f.node with
  | .leaf items => items.take f.index.toNat
  | .branch kids => flattenKids (kids.take f.index.toNat)
/-- keys at or left of the frame's index -/
def uptoTop (f : Frame) : List Item :=
  match f.node with
  | .leaf items => items.take (f.index + 1).toNat
  | .branch kids => flattenKids (kids.take (f.index + 1).toNat)

def sizeRight (f : Frame) : Nat :=
  match f.node with
  | .leaf _ => 0
  | .branch kids => sizeKids (kids.drop (f.index + 1).toNat)
def sizeFromTop (f : Frame) : Nat :=
  match f.node with
  | .leaf _ => 0
  | .branch kids => sizeKids (kids.drop f.index.toNat)
def sizeLeft (f : Frame) : Nat :=
  match f.node with
  | .leaf _ => 0
  | .branch kids => sizeKids (kids.take f.index.toNat)
def sizeUptoTop (f : Frame) : Nat :=
  match f.node with
  | .leaf _ => 0
  | .branch kids => sizeKids (kids.take (f.index + 1).toNat)

/-- everything strictly right of the cursor -/
def after : Stack → List Item
  | [] => []
  | f :: r => rightOf f ++ after r
/-- everything strictly left of the cursor -/
def before : Stack → List Item
  | [] => []
  | f :: r => before r ++ leftOf f
/-- the element under the cursor and everything right of it -/
def frm : Stack → List Item
  | [] => []
  | f :: r => fromTop f ++ after r
/-- the element under the cursor and everything left of it -/
def upto : Stack → List Item
  | [] => []
  | f :: r => before r ++ uptoTop f

def sizeAfter : Stack → Nat
  | [] => 0
  | f :: r => sizeRight f + sizeAfter r
def sizeBefore : Stack → Nat
  | [] => 0
  | f :: r => sizeBefore r + sizeLeft f
def sizeFrm : Stack → Nat
  | [] => 0
  | f :: r => sizeFromTop f + sizeAfter r
def sizeUpto : Stack → Nat
  | [] => 0
  | f :: r => sizeBefore r + sizeUptoTop f

/-- `rest` is the chain of ancestors of node `n` (parent first) up to the root `t` -/
def Anc (t : Tree) : Tree → Stack → Prop
  | n, [] => n = t
  | n, g :: rest => 0 ≤ g.index ∧ g.node.child g.index = some n ∧ Anc t g.node rest

/-- `ValidStack`, top first -/
def VS (t : Tree) : Stack → Prop
  | [] => True
  | f :: rest => -1 ≤ f.index ∧ f.index ≤ f.node.count ∧ Anc t f.node rest

/-! ### `ValidStack` (bottom-first, via `reverse`) is `VS` -/

theorem validPath_snoc2 : ∀ (l : List Frame) (t : Tree) (g f : Frame),
    ValidPath t (l ++ [g, f]) ↔
      ValidPath t (l ++ [g]) ∧ 0 ≤ g.index ∧ g.node.child g.index = some f.node ∧
        -1 ≤ f.index ∧ f.index ≤ f.node.count
  | [], t, g, f => by
    simp only [List.nil_append, ValidPath]
    constructor
    · rintro ⟨h1, h2, h3, _, h4, h5⟩
      obtain ⟨kids, hk, _, hlt, _⟩ := child_some h3
      refine ⟨⟨h1, by omega, ?_⟩, h2, h3, h4, h5⟩
      rw [hk]; simp only [Tree.count]; omega
    · rintro ⟨⟨h1, _, _⟩, h2, h3, h4, h5⟩
      exact ⟨h1, h2, h3, trivial, h4, h5⟩
  | [h], t, g, f => by
    have ih := validPath_snoc2 [] g.node g f
    simp only [List.nil_append] at ih
    simp only [List.cons_append, List.nil_append, ValidPath]
    simp only [ValidPath] at ih
    constructor
    · rintro ⟨a, b, c, d⟩
      have := ih.mp d
      exact ⟨⟨a, b, c, this.1⟩, this.2⟩
    · rintro ⟨⟨a, b, c, d⟩, e⟩
      exact ⟨a, b, c, ih.mpr ⟨d, e⟩⟩
  | h :: h' :: l, t, g, f => by
    have ih := validPath_snoc2 (h' :: l) h'.node g f
    simp only [List.cons_append, ValidPath] at ih ⊢
    constructor
    · rintro ⟨a, b, c, d⟩
      have := ih.mp d
      exact ⟨⟨a, b, c, this.1⟩, this.2⟩
    · rintro ⟨⟨a, b, c, d⟩, e⟩
      exact ⟨a, b, c, ih.mpr ⟨d, e⟩⟩

theorem validStack_cons2 (t : Tree) (f g : Frame) (rest : Stack) :
    ValidStack t (f :: g :: rest) ↔
      ValidStack t (g :: rest) ∧ 0 ≤ g.index ∧ g.node.child g.index = some f.node ∧
        -1 ≤ f.index ∧ f.index ≤ f.node.count := by
  simp only [ValidStack, List.reverse_cons, List.append_assoc, List.cons_append, List.nil_append]
  exact validPath_snoc2 rest.reverse t g f

theorem validStack_iff_VS (t : Tree) : ∀ (st : Stack), ValidStack t st ↔ VS t st
  | [] => by simp [ValidStack, ValidPath, VS]
  | [f] => by
    simp only [ValidStack, List.reverse_cons, List.reverse_nil, List.nil_append, ValidPath, VS, Anc]
    constructor
    · rintro ⟨a, b, c⟩; exact ⟨b, c, a⟩
    · rintro ⟨b, c, a⟩; exact ⟨a, b, c⟩
  | f :: g :: rest => by
    rw [validStack_cons2, validStack_iff_VS t (g :: rest)]
    simp only [VS, Anc]
    constructor
    · rintro ⟨⟨_, _, a⟩, b, c, d, e⟩; exact ⟨d, e, b, c, a⟩
    · rintro ⟨d, e, b, c, a⟩
      obtain ⟨kids, hk, _, hlt, _⟩ := child_some c
      refine ⟨⟨by omega, ?_, a⟩, b, c, d, e⟩
      rw [hk]; simp only [Tree.count]; omega


/-! ### one frame and its child -/

theorem leftOf_append_fromTop (f : Frame) : leftOf f ++ fromTop f = flatten f.node := by
  obtain ⟨node, i⟩ := f
  cases node with
  | leaf items => simp [leftOf, fromTop, flatten]
  | branch kids => simp only [leftOf, fromTop, flatten]; rw [← flattenKids_append, List.take_append_drop]

theorem uptoTop_append_rightOf (f : Frame) : uptoTop f ++ rightOf f = flatten f.node := by
  obtain ⟨node, i⟩ := f
  cases node with
  | leaf items => simp [uptoTop, rightOf, flatten]
  | branch kids => simp only [uptoTop, rightOf, flatten]; rw [← flattenKids_append, List.take_append_drop]

theorem sizeKids_drop_succ_le (kids : List (Bytes × Tree)) (n : Nat) :
    sizeKids (kids.drop (n + 1)) ≤ sizeKids (kids.drop n) := by
  by_cases h : n < kids.length
  · rw [List.drop_eq_getElem_cons h]
    generalize kids[n] = p
    obtain ⟨s, c⟩ := p
    simp only [sizeKids]; omega
  · rw [List.drop_eq_nil_iff.mpr (by omega), List.drop_eq_nil_iff.mpr (by omega)]
    exact Nat.le_refl _

theorem sizeKids_take_le_succ (kids : List (Bytes × Tree)) (n : Nat) :
    sizeKids (kids.take n) ≤ sizeKids (kids.take (n + 1)) := by
  rw [List.take_add_one, sizeKids_append]; omega

theorem sizeRight_le_sizeFromTop (f : Frame) : sizeRight f ≤ sizeFromTop f := by
  obtain ⟨node, i⟩ := f
  cases node with
  | leaf items => simp [sizeRight, sizeFromTop]
  | branch kids =>
    simp only [sizeRight, sizeFromTop]
    by_cases h : 0 ≤ i
    · have : (i + 1).toNat = i.toNat + 1 := by omega
      rw [this]; exact sizeKids_drop_succ_le _ _
    · have h1 : (i + 1).toNat = 0 := by omega
      have h2 : i.toNat = 0 := by omega
      rw [h1, h2]; exact Nat.le_refl _

theorem sizeLeft_le_sizeUptoTop (f : Frame) : sizeLeft f ≤ sizeUptoTop f := by
  obtain ⟨node, i⟩ := f
  cases node with
  | leaf items => simp [sizeLeft, sizeUptoTop]
  | branch kids =>
    simp only [sizeLeft, sizeUptoTop]
    by_cases h : 0 ≤ i
    · have : (i + 1).toNat = i.toNat + 1 := by omega
      rw [this]; exact sizeKids_take_le_succ _ _
    · have h1 : (i + 1).toNat = 0 := by omega
      have h2 : i.toNat = 0 := by omega
      rw [h1, h2]; exact Nat.le_refl _

theorem sizeRight_lt_size (f : Frame) : sizeRight f < size f.node := by
  obtain ⟨node, i⟩ := f
  cases node with
  | leaf items => simp [sizeRight, size]
  | branch kids =>
    simp only [sizeRight, size]
    have := sizeKids_append (kids.take (i + 1).toNat) (kids.drop (i + 1).toNat)
    rw [List.take_append_drop] at this
    omega

theorem sizeLeft_lt_size (f : Frame) : sizeLeft f < size f.node := by
  obtain ⟨node, i⟩ := f
  cases node with
  | leaf items => simp [sizeLeft, size]
  | branch kids =>
    simp only [sizeLeft, size]
    have := sizeKids_append (kids.take i.toNat) (kids.drop i.toNat)
    rw [List.take_append_drop] at this
    omega

section child
variable {g : Frame} {n : Tree} (h : g.node.child g.index = some n)
include h

theorem child_inRange : InRange g := by
  obtain ⟨kids, hk, h0, hlt, _⟩ := child_some h
  refine ⟨h0, ?_⟩
  rw [hk]; simp only [Tree.count]; omega

theorem child_bne (hb : BranchesNonEmpty g.node) : BranchesNonEmpty n := by
  obtain ⟨kids, hk, h0, hlt, hc⟩ := child_some h
  rw [hk] at hb
  simp only [BranchesNonEmpty] at hb
  rw [← hc]
  exact bne_of_mem hb.2 (List.getElem_mem hlt)

theorem child_nelbr (hb : NoEmptyLeafBelowRoot g.node) : NoEmptyLeaf n := by
  obtain ⟨kids, hk, h0, hlt, hc⟩ := child_some h
  rw [hk] at hb
  simp only [NoEmptyLeafBelowRoot] at hb
  rw [← hc]
  exact nel_of_mem hb (List.getElem_mem hlt)

theorem child_depth : depth n < depth g.node := by
  obtain ⟨kids, hk, h0, hlt, hc⟩ := child_some h
  rw [hk, ← hc]
  simp only [depth]
  have := depth_le_depthKids (List.getElem_mem hlt)
  omega

theorem child_flatten : leftOf g ++ (flatten n ++ rightOf g) = flatten g.node := by
  obtain ⟨kids, hk, h0, hlt, hc⟩ := child_some h
  obtain ⟨node, i⟩ := g
  simp only at hk h0 hlt hc
  subst hk
  have : (i + 1).toNat = i.toNat + 1 := by omega
  simp only [leftOf, rightOf, flatten, this, ← hc]
  exact flattenKids_split kids i.toNat hlt

theorem child_size : sizeLeft g + (size n + sizeRight g) + 1 = size g.node := by
  obtain ⟨kids, hk, h0, hlt, hc⟩ := child_some h
  obtain ⟨node, i⟩ := g
  simp only at hk h0 hlt hc
  subst hk
  have : (i + 1).toNat = i.toNat + 1 := by omega
  simp only [sizeLeft, sizeRight, size, this, ← hc]
  have := sizeKids_split kids i.toNat hlt
  omega

end child

theorem nel_nelbr {n : Tree} (h : NoEmptyLeaf n) : NoEmptyLeafBelowRoot n := by
  cases n with
  | leaf items => trivial
  | branch kids => simpa [NoEmptyLeaf, NoEmptyLeafBelowRoot] using h

/-! ### facts along the ancestor chain -/

theorem Anc_bne {t : Tree} (hb : BranchesNonEmpty t) : ∀ {rest : Stack} {n : Tree}, Anc t n rest → BranchesNonEmpty n
  | [], n, h => by simp only [Anc] at h; rw [h]; exact hb
  | g :: rest, n, h => by
    simp only [Anc] at h
    exact child_bne h.2.1 (Anc_bne hb h.2.2)

theorem Anc_nelbr {t : Tree} (hb : NoEmptyLeafBelowRoot t) : ∀ {rest : Stack} {n : Tree}, Anc t n rest → NoEmptyLeafBelowRoot n
  | [], n, h => by simp only [Anc] at h; rw [h]; exact hb
  | g :: rest, n, h => by
    simp only [Anc] at h
    exact nel_nelbr (child_nelbr h.2.1 (Anc_nelbr hb h.2.2))

theorem Anc_depth {t : Tree} : ∀ {rest : Stack} {n : Tree}, Anc t n rest → depth n ≤ depth t
  | [], n, h => by simp only [Anc] at h; rw [h]; exact Nat.le_refl _
  | g :: rest, n, h => by
    simp only [Anc] at h
    have := child_depth h.2.1
    have := Anc_depth h.2.2
    omega

theorem Anc_flatten {t : Tree} : ∀ {rest : Stack} {n : Tree}, Anc t n rest →
    before rest ++ (flatten n ++ after rest) = flatten t
  | [], n, h => by simp only [Anc] at h; simp [before, after, h]
  | g :: rest, n, h => by
    simp only [Anc] at h
    have h1 := child_flatten h.2.1
    have h2 := Anc_flatten h.2.2
    simp only [before, after]
    rw [← h2, ← h1]
    simp [List.append_assoc]

theorem Anc_size {t : Tree} : ∀ {rest : Stack} {n : Tree}, Anc t n rest →
    sizeBefore rest + (size n + sizeAfter rest) ≤ size t
  | [], n, h => by simp only [Anc] at h; simp [sizeBefore, sizeAfter, h]
  | g :: rest, n, h => by
    simp only [Anc] at h
    have h1 := child_size h.2.1
    have h2 := Anc_size h.2.2
    simp only [sizeBefore, sizeAfter]
    omega

theorem Anc_VS {t n : Tree} {g : Frame} {rest : Stack} (h : Anc t n (g :: rest)) : VS t (g :: rest) := by
  simp only [Anc] at h
  have := child_inRange h.2.1
  exact ⟨by have := this.1; omega, by have := this.2; omega, h.2.2⟩

theorem VS_flatten_frm {t : Tree} {st : Stack} (h : VS t st) (hne : st ≠ []) : before st ++ frm st = flatten t := by
  cases st with
  | nil => exact absurd rfl hne
  | cons f rest =>
    simp only [VS] at h
    simp only [before, frm]
    rw [← Anc_flatten h.2.2, ← leftOf_append_fromTop f]
    simp [List.append_assoc]

theorem VS_flatten_upto {t : Tree} {st : Stack} (h : VS t st) (hne : st ≠ []) : upto st ++ after st = flatten t := by
  cases st with
  | nil => exact absurd rfl hne
  | cons f rest =>
    simp only [VS] at h
    simp only [upto, after]
    rw [← Anc_flatten h.2.2, ← uptoTop_append_rightOf f]
    simp [List.append_assoc]

theorem VS_sizeAfter_lt {t : Tree} {st : Stack} (h : VS t st) : sizeAfter st < size t := by
  cases st with
  | nil => exact size_pos t
  | cons f rest =>
    simp only [VS] at h
    have := Anc_size h.2.2
    have := sizeRight_lt_size f
    simp only [sizeAfter]; omega

theorem VS_sizeBefore_lt {t : Tree} {st : Stack} (h : VS t st) : sizeBefore st < size t := by
  cases st with
  | nil => exact size_pos t
  | cons f rest =>
    simp only [VS] at h
    have := Anc_size h.2.2
    have := sizeLeft_lt_size f
    simp only [sizeBefore]; omega


theorem VS_tail {t : Tree} {f : Frame} {rest : Stack} (h : VS t (f :: rest)) : VS t rest := by
  cases rest with
  | nil => trivial
  | cons g rest => exact Anc_VS h.2.2

/-! ### descending: `goToFirst` / `goToLast` -/

section child2
variable {g : Frame} {n : Tree} (h : g.node.child g.index = some n)
include h

theorem fromTop_child : fromTop g = flatten n ++ rightOf g ∧ sizeFromTop g = size n + sizeRight g := by
  obtain ⟨kids, hk, h0, hlt, hc⟩ := child_some h
  obtain ⟨node, i⟩ := g
  simp only at hk h0 hlt hc
  subst hk
  have : (i + 1).toNat = i.toNat + 1 := by omega
  simp only [fromTop, rightOf, sizeFromTop, sizeRight, this, ← hc]
  rw [List.drop_eq_getElem_cons hlt]
  generalize kids[i.toNat] = p
  obtain ⟨s, c⟩ := p
  simp [flattenKids, sizeKids]

theorem uptoTop_child : uptoTop g = leftOf g ++ flatten n ∧ sizeUptoTop g = sizeLeft g + size n := by
  obtain ⟨kids, hk, h0, hlt, hc⟩ := child_some h
  obtain ⟨node, i⟩ := g
  simp only at hk h0 hlt hc
  subst hk
  have : (i + 1).toNat = i.toNat + 1 := by omega
  simp only [uptoTop, leftOf, sizeUptoTop, sizeLeft, this, ← hc]
  rw [List.take_add_one, List.getElem?_eq_getElem hlt, flattenKids_append, sizeKids_append]
  generalize kids[i.toNat] = p
  obtain ⟨s, c⟩ := p
  simp [flattenKids, sizeKids]

end child2

theorem fromTop_zero (c : Tree) : fromTop ⟨c, 0⟩ = flatten c ∧ sizeFromTop ⟨c, 0⟩ + 1 = size c := by
  cases c with
  | leaf items => simp [fromTop, flatten, sizeFromTop, size]
  | branch kids => simp [fromTop, flatten, sizeFromTop, size]; omega

theorem uptoTop_last (c : Tree) : uptoTop ⟨c, (c.count : Int) - 1⟩ = flatten c ∧ sizeUptoTop ⟨c, (c.count : Int) - 1⟩ + 1 = size c := by
  cases c with
  | leaf items => simp [uptoTop, flatten, sizeUptoTop, size, Tree.count]
  | branch kids => simp [uptoTop, flatten, sizeUptoTop, size, Tree.count]; omega

theorem sizeAfter_le_sizeFrm (st : Stack) : sizeAfter st ≤ sizeFrm st := by
  cases st with
  | nil => exact Nat.le_refl _
  | cons f rest => simp only [sizeAfter, sizeFrm]; have := sizeRight_le_sizeFromTop f; omega

theorem sizeBefore_le_sizeUpto (st : Stack) : sizeBefore st ≤ sizeUpto st := by
  cases st with
  | nil => exact Nat.le_refl _
  | cons f rest => simp only [sizeBefore, sizeUpto]; have := sizeLeft_le_sizeUptoTop f; omega

theorem frm_push {f : Frame} {rest : Stack} {c : Tree} (h : f.node.child f.index = some c) :
    frm (⟨c, 0⟩ :: f :: rest) = frm (f :: rest) ∧ sizeFrm (⟨c, 0⟩ :: f :: rest) + 1 = sizeFrm (f :: rest) := by
  simp only [frm, after, sizeFrm, sizeAfter]
  rw [(fromTop_child h).1, (fromTop_child h).2, (fromTop_zero c).1]
  have := (fromTop_zero c).2
  constructor
  · simp [List.append_assoc]
  · omega

theorem upto_push {f : Frame} {rest : Stack} {c : Tree} (h : f.node.child f.index = some c) :
    upto (⟨c, (c.count : Int) - 1⟩ :: f :: rest) = upto (f :: rest) ∧
      sizeUpto (⟨c, (c.count : Int) - 1⟩ :: f :: rest) + 1 = sizeUpto (f :: rest) := by
  simp only [upto, before, sizeUpto, sizeBefore]
  rw [(uptoTop_child h).1, (uptoTop_child h).2, (uptoTop_last c).1]
  have := (uptoTop_last c).2
  constructor
  · simp [List.append_assoc]
  · omega

theorem goToFirst_frm : ∀ (d : Nat) (st : Stack),
    frm (goToFirst d st) = frm st ∧ sizeAfter (goToFirst d st) ≤ sizeFrm st
  | 0, st => ⟨rfl, sizeAfter_le_sizeFrm st⟩
  | d+1, [] => ⟨rfl, Nat.le_refl _⟩
  | d+1, f :: rest => by
    simp only [goToFirst]
    split
    · exact ⟨rfl, sizeAfter_le_sizeFrm _⟩
    · split
      · exact ⟨rfl, sizeAfter_le_sizeFrm _⟩
      · rename_i c hc
        have ih := goToFirst_frm d (⟨c, 0⟩ :: f :: rest)
        have hp := frm_push (rest := rest) hc
        exact ⟨ih.1.trans hp.1, by omega⟩

theorem goToLast_upto : ∀ (d : Nat) (st : Stack),
    upto (goToLast d st) = upto st ∧ sizeBefore (goToLast d st) ≤ sizeUpto st
  | 0, st => ⟨rfl, sizeBefore_le_sizeUpto st⟩
  | d+1, [] => ⟨rfl, Nat.le_refl _⟩
  | d+1, f :: rest => by
    simp only [goToLast]
    split
    · exact ⟨rfl, sizeBefore_le_sizeUpto _⟩
    · split
      · exact ⟨rfl, sizeBefore_le_sizeUpto _⟩
      · rename_i c hc
        have ih := goToLast_upto d (⟨c, (c.count : Int) - 1⟩ :: f :: rest)
        have hp := upto_push (rest := rest) hc
        exact ⟨ih.1.trans hp.1, by omega⟩

theorem inRange_child {f : Frame} (hr : InRange f) (hl : f.node.isLeaf = false) :
    ∃ c, f.node.child f.index = some c := by
  obtain ⟨node, i⟩ := f
  cases node with
  | leaf items => simp [Tree.isLeaf] at hl
  | branch kids =>
    have h0 : 0 ≤ i := hr.1
    have h1 : i < (kids.length : Int) := hr.2
    exact ⟨_, child_of_lt h0 (by omega)⟩

/-- a descent from an in-range branch frame strictly shrinks the measure -/
theorem goToFirst_size_lt {d : Nat} {f : Frame} {rest : Stack} (hl : f.node.isLeaf = false) (hr : InRange f) :
    sizeAfter (goToFirst (d + 1) (f :: rest)) < sizeFrm (f :: rest) := by
  obtain ⟨c, hc⟩ := inRange_child hr hl
  simp only [goToFirst, hl, Bool.false_eq_true, if_false, hc]
  have ih := goToFirst_frm d (⟨c, 0⟩ :: f :: rest)
  have hp := frm_push (rest := rest) hc
  omega

theorem goToLast_size_lt {d : Nat} {f : Frame} {rest : Stack} (hl : f.node.isLeaf = false) (hr : InRange f) :
    sizeBefore (goToLast (d + 1) (f :: rest)) < sizeUpto (f :: rest) := by
  obtain ⟨c, hc⟩ := inRange_child hr hl
  simp only [goToLast, hl, Bool.false_eq_true, if_false, hc]
  have ih := goToLast_upto d (⟨c, (c.count : Int) - 1⟩ :: f :: rest)
  have hp := upto_push (rest := rest) hc
  omega

theorem goToFirst_VS {t : Tree} : ∀ (d : Nat) (st : Stack), VS t st → VS t (goToFirst d st)
  | 0, st, h => h
  | d+1, [], h => h
  | d+1, f :: rest, h => by
    simp only [goToFirst]
    split
    · exact h
    · split
      · exact h
      · rename_i c hc
        apply goToFirst_VS d
        have hr := child_inRange hc
        refine ⟨?_, ?_, hr.1, hc, h.2.2⟩
        · show (-1 : Int) ≤ 0; omega
        · show (0 : Int) ≤ (c.count : Int); omega

theorem goToLast_VS {t : Tree} : ∀ (d : Nat) (st : Stack), VS t st → VS t (goToLast d st)
  | 0, st, h => h
  | d+1, [], h => h
  | d+1, f :: rest, h => by
    simp only [goToLast]
    split
    · exact h
    · split
      · exact h
      · rename_i c hc
        apply goToLast_VS d
        have hr := child_inRange hc
        refine ⟨?_, ?_, hr.1, hc, h.2.2⟩
        · show (-1 : Int) ≤ (c.count : Int) - 1; omega
        · show (c.count : Int) - 1 ≤ (c.count : Int); omega

/-- the top frame is a leaf positioned on its first element (index 0 if the leaf is empty) -/
def Settled : Stack → Prop
  | [] => False
  | f :: _ => f.node.isLeaf = true ∧ 0 ≤ f.index ∧ (f.index < f.node.count ∨ f.node.count = 0)

/-- the top frame is a leaf positioned on its last element (index -1 if the leaf is empty) -/
def SettledBack : Stack → Prop
  | [] => False
  | f :: _ => f.node.isLeaf = true ∧ f.index < f.node.count ∧ (0 ≤ f.index ∨ f.node.count = 0)

theorem bne_count {n : Tree} (hb : BranchesNonEmpty n) (hl : n.isLeaf = false) : 0 < n.count := by
  cases n with
  | leaf items => simp [Tree.isLeaf] at hl
  | branch kids =>
    simp only [BranchesNonEmpty] at hb
    simp only [Tree.count]
    exact List.length_pos_iff.mpr hb.1

theorem goToFirst_settled : ∀ (d : Nat) (f : Frame) (rest : Stack), depth f.node ≤ d → BranchesNonEmpty f.node →
    0 ≤ f.index → (f.index < f.node.count ∨ f.node.count = 0) → Settled (goToFirst d (f :: rest))
  | 0, f, rest, hd, _, _, _ => by have := depth_pos f.node; omega
  | d+1, f, rest, hd, hb, h0, h1 => by
    simp only [goToFirst]
    split
    · rename_i hl; exact ⟨hl, h0, h1⟩
    · rename_i hl
      have hl : f.node.isLeaf = false := by simpa using hl
      have hcnt := bne_count hb hl
      have hr : InRange f := ⟨h0, by omega⟩
      obtain ⟨c, hc⟩ := inRange_child hr hl
      simp only [hc]
      have hcb := child_bne hc hb
      have hcd := child_depth hc
      apply goToFirst_settled d
      · show depth c ≤ d; omega
      · exact hcb
      · exact Int.le_refl 0
      · show (0 : Int) < (c.count : Int) ∨ c.count = 0; omega

theorem goToLast_settled : ∀ (d : Nat) (f : Frame) (rest : Stack), depth f.node ≤ d → BranchesNonEmpty f.node →
    f.index < f.node.count → (0 ≤ f.index ∨ f.node.count = 0) → SettledBack (goToLast d (f :: rest))
  | 0, f, rest, hd, _, _, _ => by have := depth_pos f.node; omega
  | d+1, f, rest, hd, hb, h0, h1 => by
    simp only [goToLast]
    split
    · rename_i hl; exact ⟨hl, h0, h1⟩
    · rename_i hl
      have hl : f.node.isLeaf = false := by simpa using hl
      have hcnt := bne_count hb hl
      have hr : InRange f := ⟨by omega, h0⟩
      obtain ⟨c, hc⟩ := inRange_child hr hl
      simp only [hc]
      have hcb := child_bne hc hb
      have hcd := child_depth hc
      apply goToLast_settled d
      · show depth c ≤ d; omega
      · exact hcb
      · show (c.count : Int) - 1 < (c.count : Int); omega
      · show (0 : Int) ≤ (c.count : Int) - 1 ∨ c.count = 0; omega


/-! ### moving sideways: `advance` / `retreat` -/

theorem rightOf_nil {f : Frame} (h : ¬ f.index < (f.node.count : Int) - 1) : rightOf f = [] ∧ sizeRight f = 0 := by
  obtain ⟨node, i⟩ := f
  cases node with
  | leaf items =>
    have h : ¬ i < (items.length : Int) - 1 := h
    simp only [rightOf, sizeRight, and_true]
    exact List.drop_eq_nil_iff.mpr (by omega)
  | branch kids =>
    have h : ¬ i < (kids.length : Int) - 1 := h
    simp only [rightOf, sizeRight]
    rw [List.drop_eq_nil_iff.mpr (by omega)]
    exact ⟨rfl, rfl⟩

theorem leftOf_nil {f : Frame} (h : ¬ f.index > 0) : leftOf f = [] ∧ sizeLeft f = 0 := by
  obtain ⟨node, i⟩ := f
  have h : ¬ i > 0 := h
  have h0 : i.toNat = 0 := by omega
  cases node with
  | leaf items => simp [leftOf, sizeLeft, h0]
  | branch kids => simp [leftOf, sizeLeft, h0, flattenKids, sizeKids]

theorem fromTop_incr (f : Frame) :
    fromTop { f with index := f.index + 1 } = rightOf f ∧ sizeFromTop { f with index := f.index + 1 } = sizeRight f := by
  obtain ⟨node, i⟩ := f
  cases node <;> exact ⟨rfl, rfl⟩

theorem uptoTop_decr (f : Frame) :
    uptoTop { f with index := f.index - 1 } = leftOf f ∧ sizeUptoTop { f with index := f.index - 1 } = sizeLeft f := by
  obtain ⟨node, i⟩ := f
  have : i - 1 + 1 = i := by omega
  cases node <;> simp [uptoTop, leftOf, sizeUptoTop, sizeLeft, this]

theorem advance_frm : ∀ {st st1 : Stack}, advance st = some st1 →
    frm st1 = after st ∧ sizeFrm st1 = sizeAfter st
  | [], _, h => by simp [advance] at h
  | f :: rest, st1, h => by
    simp only [advance] at h
    split at h
    · cases h
      simp only [frm, after, sizeFrm, sizeAfter, (fromTop_incr f).1, (fromTop_incr f).2, and_self]
    · rename_i hlt
      have ih := advance_frm h
      simp only [after, sizeAfter, (rightOf_nil hlt).1, (rightOf_nil hlt).2, List.nil_append, Nat.zero_add]
      exact ih

theorem retreat_upto : ∀ {st st1 : Stack}, retreat st = some st1 →
    upto st1 = before st ∧ sizeUpto st1 = sizeBefore st
  | [], _, h => by simp [retreat] at h
  | f :: rest, st1, h => by
    simp only [retreat] at h
    split at h
    · cases h
      simp only [upto, before, sizeUpto, sizeBefore, (uptoTop_decr f).1, (uptoTop_decr f).2, and_self]
    · rename_i hlt
      have ih := retreat_upto h
      simp only [before, sizeBefore, (leftOf_nil hlt).1, (leftOf_nil hlt).2, List.append_nil, Nat.add_zero]
      exact ih

theorem advance_none : ∀ {st : Stack}, advance st = none → after st = []
  | [], _ => rfl
  | f :: rest, h => by
    simp only [advance] at h
    split at h
    · cases h
    · rename_i hlt
      simp only [after, (rightOf_nil hlt).1, List.nil_append]
      exact advance_none h

theorem retreat_none : ∀ {st : Stack}, retreat st = none → before st = []
  | [], _ => rfl
  | f :: rest, h => by
    simp only [retreat] at h
    split at h
    · cases h
    · rename_i hlt
      simp only [before, (leftOf_nil hlt).1, List.append_nil]
      exact retreat_none h

theorem advance_VS {t : Tree} : ∀ {st st1 : Stack}, VS t st → advance st = some st1 →
    VS t st1 ∧ ∃ f' r, st1 = f' :: r ∧ InRange f'
  | [], _, _, h => by simp [advance] at h
  | f :: rest, st1, hv, h => by
    simp only [advance] at h
    split at h
    · rename_i hlt
      cases h
      have h1 := hv.1
      refine ⟨⟨?_, ?_, hv.2.2⟩, _, _, rfl, ?_, ?_⟩
      · show -1 ≤ f.index + 1; omega
      · show f.index + 1 ≤ f.node.count; omega
      · show 0 ≤ f.index + 1; omega
      · show f.index + 1 < f.node.count; omega
    · exact advance_VS (VS_tail hv) h

theorem retreat_VS {t : Tree} : ∀ {st st1 : Stack}, VS t st → retreat st = some st1 →
    VS t st1 ∧ ∃ f' r, st1 = f' :: r ∧ InRange f'
  | [], _, _, h => by simp [retreat] at h
  | f :: rest, st1, hv, h => by
    simp only [retreat] at h
    split at h
    · rename_i hlt
      cases h
      have h1 := hv.2.1
      refine ⟨⟨?_, ?_, hv.2.2⟩, _, _, rfl, ?_, ?_⟩
      · show -1 ≤ f.index - 1; omega
      · show f.index - 1 ≤ f.node.count; omega
      · show 0 ≤ f.index - 1; omega
      · show f.index - 1 < f.node.count; omega
    · exact retreat_VS (VS_tail hv) h

theorem topCount_pos_of_inRange {f : Frame} {r : Stack} (h : InRange f) : topCount (f :: r) ≠ 0 := by
  have h0 := h.1
  have h1 := h.2
  show f.node.count ≠ 0
  omega

/-- one iteration of the `next` loop that lands on an empty page strictly shrinks the measure -/
theorem next_step_measure {t : Tree} {d : Nat} {st st1 : Stack} (hv : VS t st) (h : advance st = some st1)
    (h0 : topCount (goToFirst d st1) = 0) : sizeAfter (goToFirst d st1) < sizeAfter st := by
  obtain ⟨_, f', r, rfl, hr⟩ := advance_VS hv h
  rw [← (advance_frm h).2]
  cases d with
  | zero => exact absurd h0 (topCount_pos_of_inRange hr)
  | succ d =>
    cases hl : f'.node.isLeaf with
    | true =>
      have : goToFirst (d + 1) (f' :: r) = f' :: r := by simp [goToFirst, hl]
      rw [this] at h0
      exact absurd h0 (topCount_pos_of_inRange hr)
    | false => exact goToFirst_size_lt hl hr

theorem stepBack_step_measure {t : Tree} {d : Nat} {st st1 : Stack} (hv : VS t st) (h : retreat st = some st1)
    (h0 : topCount (goToLast d st1) = 0) : sizeBefore (goToLast d st1) < sizeBefore st := by
  obtain ⟨_, f', r, rfl, hr⟩ := retreat_VS hv h
  rw [← (retreat_upto h).2]
  cases d with
  | zero => exact absurd h0 (topCount_pos_of_inRange hr)
  | succ d =>
    cases hl : f'.node.isLeaf with
    | true =>
      have : goToLast (d + 1) (f' :: r) = f' :: r := by simp [goToLast, hl]
      rw [this] at h0
      exact absurd h0 (topCount_pos_of_inRange hr)
    | false => exact goToLast_size_lt hl hr

/-- the `next` loop needs at most `sizeAfter st + 1` iterations -/
theorem next_fuel_succ {t : Tree} (d : Nat) : ∀ (fuel : Nat) (st : Stack), VS t st → sizeAfter st < fuel →
    next d (fuel + 1) st = next d fuel st
  | 0, _, _, h => by omega
  | fuel+1, st, hv, hf => by
    rw [next, next]
    cases h : advance st with
    | none => rfl
    | some st1 =>
      simp only []
      split
      · rename_i h0
        have hm := next_step_measure (d := d) hv h h0
        exact next_fuel_succ d fuel _ (goToFirst_VS d _ (advance_VS hv h).1) (by omega)
      · rfl

theorem stepBack_fuel_succ {t : Tree} (d : Nat) : ∀ (fuel : Nat) (st : Stack), VS t st → sizeBefore st < fuel →
    stepBack d (fuel + 1) st = stepBack d fuel st
  | 0, _, _, h => by omega
  | fuel+1, st, hv, hf => by
    rw [stepBack, stepBack]
    cases h : retreat st with
    | none => rfl
    | some st1 =>
      simp only []
      split
      · rename_i h0
        have hm := stepBack_step_measure (d := d) hv h h0
        exact stepBack_fuel_succ d fuel _ (goToLast_VS d _ (retreat_VS hv h).1) (by omega)
      · rfl

theorem VS_root (t : Tree) (i : Int) (h0 : -1 ≤ i) (h1 : i ≤ t.count) : VS t [⟨t, i⟩] := ⟨h0, h1, rfl⟩

theorem first_fuel_succ (d fuel : Nat) (t : Tree) (hf : size t ≤ fuel) :
    first d (fuel + 1) t = first d fuel t := by
  have hv : VS t (goToFirst d [⟨t, 0⟩]) :=
    goToFirst_VS d _ (VS_root t 0 (by omega) (by omega))
  simp only [first]
  rw [next_fuel_succ d fuel _ hv (by have := VS_sizeAfter_lt hv; omega)]

/-! ### results of the forward operations -/

/-- top frame is a leaf with the index on an element -/
def LeafIn : Stack → Prop
  | [] => False
  | f :: _ => f.node.isLeaf = true ∧ InRange f

/-- top frame is a leaf with `0 ≤ index ≤ count` -/
def LeafAt : Stack → Prop
  | [] => False
  | f :: _ => f.node.isLeaf = true ∧ 0 ≤ f.index ∧ f.index ≤ f.node.count

theorem LeafIn.leafAt {st : Stack} (h : LeafIn st) : LeafAt st := by
  cases st with
  | nil => exact h
  | cons f r => exact ⟨h.1, h.2.1, by have := h.2.2; omega⟩

theorem leafIn_elem {st : Stack} (h : LeafIn st) :
    ∃ x, keyValue st = some x ∧ frm st = x :: after st ∧ upto st = before st ++ [x] := by
  cases st with
  | nil => exact absurd h (by simp [LeafIn])
  | cons f r =>
    obtain ⟨node, i⟩ := f
    cases node with
    | branch kids => have := h.1; simp [Tree.isLeaf] at this
    | leaf items =>
      have h0 : 0 ≤ i := h.2.1
      have h1 : i < (items.length : Int) := h.2.2
      have hlt : i.toNat < items.length := by omega
      have hs : (i + 1).toNat = i.toNat + 1 := by omega
      refine ⟨items[i.toNat], ?_, ?_, ?_⟩
      · simp only [keyValue]
        rw [if_neg (by omega)]
        exact List.getElem?_eq_getElem hlt
      · simp only [frm, after, fromTop, rightOf, hs]
        rw [List.drop_eq_getElem_cons hlt]; rfl
      · simp only [upto, before, uptoTop, leftOf, hs]
        rw [List.take_add_one, List.getElem?_eq_getElem hlt]; simp

theorem settled_leafIn {st : Stack} (h : Settled st) (h0 : topCount st ≠ 0) : LeafIn st := by
  cases st with
  | nil => exact h
  | cons f r =>
    have h0 : f.node.count ≠ 0 := h0
    exact ⟨h.1, h.2.1, by have := h.2.2; omega⟩

theorem settledBack_leafIn {st : Stack} (h : SettledBack st) (h0 : topCount st ≠ 0) : LeafIn st := by
  cases st with
  | nil => exact h
  | cons f r =>
    have h0 : f.node.count ≠ 0 := h0
    exact ⟨h.1, by have := h.2.2; omega, h.2.1⟩

theorem emptyTop_eq {st : Stack} (hl : match st with | [] => False | f :: _ => f.node.isLeaf = true)
    (h0 : topCount st = 0) : frm st = after st ∧ upto st = before st := by
  cases st with
  | nil => exact ⟨rfl, rfl⟩
  | cons f r =>
    obtain ⟨node, i⟩ := f
    cases node with
    | branch kids => simp [Tree.isLeaf] at hl
    | leaf items =>
      have h0 : items.length = 0 := h0
      have : items = [] := List.length_eq_zero_iff.mp h0
      subst this
      simp [frm, after, upto, before, fromTop, rightOf, uptoTop, leftOf]

theorem settled_empty {st : Stack} (h : Settled st) (h0 : topCount st = 0) : frm st = after st := by
  cases st with
  | nil => exact absurd h (by simp [Settled])
  | cons f r => exact (emptyTop_eq (st := f :: r) h.1 h0).1

theorem settledBack_empty {st : Stack} (h : SettledBack st) (h0 : topCount st = 0) : upto st = before st := by
  cases st with
  | nil => exact absurd h (by simp [SettledBack])
  | cons f r => exact (emptyTop_eq (st := f :: r) h.1 h0).2

theorem settled_leafAt {t : Tree} {st : Stack} (h : Settled st) (hv : VS t st) : LeafAt st := by
  cases st with
  | nil => exact h
  | cons f r => exact ⟨h.1, h.2.1, hv.2.1⟩

/-- what `first`, `seek` and a successful `next` establish: the cursor sits on the head of
    the suffix `L` of `flatten t` (or `L` is empty and the cursor is past the end) -/
inductive SettleRes (t : Tree) (L : List Item) : Stack × Option Item → Prop
  | found (st' : Stack) (x : Item) (xs : List Item) : VS t st' → L = x :: xs → frm st' = L →
      LeafIn st' → SettleRes t L (st', some x)
  | none (st' : Stack) : VS t st' → L = [] → frm st' = [] → after st' = [] → LeafAt st' →
      SettleRes t L (st', none)

/-- the tail of `next`/`first`: skip empty pages -/
def settle (d fuel : Nat) (st : Stack) : Stack × Option Item :=
  if topCount st = 0 then next d fuel st else (st, keyValue st)

theorem next_succ (d fuel : Nat) (st : Stack) :
    next d (fuel + 1) st = match advance st with
      | none => (st, none)
      | some st1 => settle d fuel (goToFirst d st1) := by
  rw [next]; rfl

theorem first_eq (d fuel : Nat) (t : Tree) : first d fuel t = settle d fuel (goToFirst d [⟨t, 0⟩]) := by
  simp only [first, settle]

theorem advance_settled {t : Tree} {d : Nat} {st st1 : Stack} (hb : BranchesNonEmpty t) (hd : depth t ≤ d)
    (hv : VS t st) (h : advance st = some st1) :
    VS t (goToFirst d st1) ∧ Settled (goToFirst d st1) ∧ frm (goToFirst d st1) = after st := by
  obtain ⟨hv1, f', r, rfl, hr⟩ := advance_VS hv h
  refine ⟨goToFirst_VS d _ hv1, ?_, ((goToFirst_frm d _).1).trans (advance_frm h).1⟩
  have hanc := hv1.2.2
  exact goToFirst_settled d f' r (Nat.le_trans (Anc_depth hanc) hd) (Anc_bne hb hanc) hr.1 (Or.inl hr.2)

theorem settle_spec {t : Tree} {d : Nat} (hb : BranchesNonEmpty t) (hd : depth t ≤ d) :
    ∀ (fuel : Nat) (st : Stack), VS t st → Settled st → (topCount st = 0 → sizeAfter st < fuel) →
      SettleRes t (frm st) (settle d fuel st)
  | fuel, st, hv, hs, hf => by
    unfold settle
    split
    · rename_i h0
      have hfa := settled_empty hs h0
      cases fuel with
      | zero => have := hf h0; omega
      | succ fuel =>
        rw [next_succ]
        cases h : advance st with
        | none =>
          have ha := advance_none h
          exact SettleRes.none st hv (by rw [hfa, ha]) (by rw [hfa, ha]) ha (settled_leafAt hs hv)
        | some st1 =>
          obtain ⟨hv2, hs2, hf2⟩ := advance_settled hb hd hv h
          have ih := settle_spec hb hd fuel (goToFirst d st1) hv2 hs2 (fun h2 => by
            have := next_step_measure hv h h2
            have := hf h0
            omega)
          rw [hf2, ← hfa] at ih
          exact ih
    · rename_i h0
      have hin := settled_leafIn hs h0
      obtain ⟨x, hk, hfx, _⟩ := leafIn_elem hin
      rw [hk]
      exact SettleRes.found st x (after st) hv hfx rfl hin

/-- `next`: either nothing to the right (stack untouched), or settled on the head of `after st` -/
theorem next_spec {t : Tree} {d : Nat} (hb : BranchesNonEmpty t) (hd : depth t ≤ d)
    (fuel : Nat) (st : Stack) (hv : VS t st) (hf : sizeAfter st < fuel) :
    (advance st = none ∧ after st = [] ∧ next d fuel st = (st, none)) ∨
      SettleRes t (after st) (next d fuel st) := by
  cases fuel with
  | zero => omega
  | succ fuel =>
    rw [next_succ]
    cases h : advance st with
    | none => exact Or.inl ⟨rfl, advance_none h, rfl⟩
    | some st1 =>
      right
      obtain ⟨hv2, hs2, hf2⟩ := advance_settled hb hd hv h
      have := settle_spec hb hd fuel (goToFirst d st1) hv2 hs2 (fun h2 => by
        have := next_step_measure hv h h2
        omega)
      rw [hf2] at this
      exact this

theorem first_spec {t : Tree} {d fuel : Nat} (hb : BranchesNonEmpty t) (hd : depth t ≤ d) (hf : size t ≤ fuel) :
    SettleRes t (flatten t) (first d fuel t) := by
  rw [first_eq]
  have hv0 : VS t [⟨t, 0⟩] := VS_root t 0 (by omega) (by omega)
  have hv : VS t (goToFirst d [⟨t, 0⟩]) := goToFirst_VS d _ hv0
  have hs : Settled (goToFirst d [⟨t, 0⟩]) := by
    apply goToFirst_settled d ⟨t, 0⟩ [] hd hb (Int.le_refl 0)
    show (0 : Int) < (t.count : Int) ∨ t.count = 0
    omega
  have := settle_spec hb hd fuel _ hv hs (fun _ => by have := VS_sizeAfter_lt hv; omega)
  rw [(goToFirst_frm d _).1] at this
  have h2 : frm [⟨t, 0⟩] = flatten t := by
    simp only [frm, after, (fromTop_zero t).1, List.append_nil]
  rw [h2] at this
  exact this

/-- a `found` result: the returned element is the head of `L`, the rest is still to the right -/
theorem SettleRes.after_eq {t : Tree} {L : List Item} {st' : Stack} {x : Item} (h : SettleRes t L (st', some x)) :
    VS t st' ∧ LeafIn st' ∧ frm st' = L ∧ L = x :: after st' := by
  cases h with
  | found _ _ xs hv hL hf hin =>
    obtain ⟨y, _, hy, _⟩ := leafIn_elem hin
    refine ⟨hv, hin, hf, ?_⟩
    rw [← hf, hy]
    rw [hf, hL] at hy
    cases hy; rfl

theorem SettleRes.none_eq {t : Tree} {L : List Item} {st' : Stack} (h : SettleRes t L (st', Option.none)) :
    VS t st' ∧ LeafAt st' ∧ L = [] ∧ frm st' = [] ∧ after st' = [] := by
  cases h with
  | none _ hv hL hf ha hl => exact ⟨hv, hl, hL, hf, ha⟩

/-! ### results of the backward operations -/

/-- what a successful `stepBack` establishes: the cursor sits on the last element of the
    prefix `L` of `flatten t`; `none` iff `L` is empty -/
inductive BackRes (t : Tree) (L : List Item) : Option Stack → Prop
  | found (st' : Stack) (x : Item) (xs : List Item) : VS t st' → L = xs ++ [x] → upto st' = L →
      LeafIn st' → BackRes t L (some st')
  | none : L = [] → BackRes t L none

def settleBack (d fuel : Nat) (st : Stack) : Option Stack :=
  if topCount st = 0 then stepBack d fuel st else some st

theorem stepBack_succ (d fuel : Nat) (st : Stack) :
    stepBack d (fuel + 1) st = match retreat st with
      | none => none
      | some st1 => settleBack d fuel (goToLast d st1) := by
  rw [stepBack]; rfl

theorem retreat_settled {t : Tree} {d : Nat} {st st1 : Stack} (hb : BranchesNonEmpty t) (hd : depth t ≤ d)
    (hv : VS t st) (h : retreat st = some st1) :
    VS t (goToLast d st1) ∧ SettledBack (goToLast d st1) ∧ upto (goToLast d st1) = before st := by
  obtain ⟨hv1, f', r, rfl, hr⟩ := retreat_VS hv h
  refine ⟨goToLast_VS d _ hv1, ?_, ((goToLast_upto d _).1).trans (retreat_upto h).1⟩
  have hanc := hv1.2.2
  exact goToLast_settled d f' r (Nat.le_trans (Anc_depth hanc) hd) (Anc_bne hb hanc) hr.2 (Or.inl hr.1)

theorem settleBack_spec {t : Tree} {d : Nat} (hb : BranchesNonEmpty t) (hd : depth t ≤ d) :
    ∀ (fuel : Nat) (st : Stack), VS t st → SettledBack st → (topCount st = 0 → sizeBefore st < fuel) →
      BackRes t (upto st) (settleBack d fuel st)
  | fuel, st, hv, hs, hf => by
    unfold settleBack
    split
    · rename_i h0
      have hfa := settledBack_empty hs h0
      cases fuel with
      | zero => have := hf h0; omega
      | succ fuel =>
        rw [stepBack_succ]
        cases h : retreat st with
        | none =>
          have ha := retreat_none h
          exact BackRes.none (by rw [hfa, ha])
        | some st1 =>
          obtain ⟨hv2, hs2, hf2⟩ := retreat_settled hb hd hv h
          have ih := settleBack_spec hb hd fuel (goToLast d st1) hv2 hs2 (fun h2 => by
            have := stepBack_step_measure hv h h2
            have := hf h0
            omega)
          rw [hf2, ← hfa] at ih
          exact ih
    · rename_i h0
      have hin := settledBack_leafIn hs h0
      obtain ⟨x, _, _, hux⟩ := leafIn_elem hin
      exact BackRes.found st x (before st) hv hux rfl hin

theorem stepBack_spec {t : Tree} {d : Nat} (hb : BranchesNonEmpty t) (hd : depth t ≤ d)
    (fuel : Nat) (st : Stack) (hv : VS t st) (hf : sizeBefore st < fuel) :
    BackRes t (before st) (stepBack d fuel st) := by
  cases fuel with
  | zero => omega
  | succ fuel =>
    rw [stepBack_succ]
    cases h : retreat st with
    | none => exact BackRes.none (retreat_none h)
    | some st1 =>
      obtain ⟨hv2, hs2, hf2⟩ := retreat_settled hb hd hv h
      have := settleBack_spec hb hd fuel (goToLast d st1) hv2 hs2 (fun h2 => by
        have := stepBack_step_measure hv h h2
        omega)
      rw [hf2] at this
      exact this

/-- `prev`/`Last` results; `fst` is where `first` leaves the stack -/
inductive PrevRes (t : Tree) (L : List Item) (fst : Stack) : Stack × Option Item → Prop
  | found (st' : Stack) (x : Item) (xs : List Item) : VS t st' → L = xs ++ [x] → upto st' = L →
      LeafIn st' → PrevRes t L fst (st', some x)
  | none : L = [] → PrevRes t L fst (fst, Option.none)

theorem PrevRes.found_eq {t : Tree} {L : List Item} {fst st' : Stack} {x : Item}
    (h : PrevRes t L fst (st', some x)) :
    VS t st' ∧ LeafIn st' ∧ upto st' = L ∧ L = before st' ++ [x] := by
  cases h with
  | found _ _ xs hv hL hf hin =>
    obtain ⟨y, _, _, hy⟩ := leafIn_elem hin
    refine ⟨hv, hin, hf, ?_⟩
    rw [← hf, hy]
    rw [hf, hL] at hy
    have := List.append_inj' hy (by simp)
    rw [(List.singleton_inj.mp this.2)]

theorem PrevRes.none_eq {t : Tree} {L : List Item} {fst st' : Stack}
    (h : PrevRes t L fst (st', Option.none)) : L = [] ∧ st' = fst := by
  cases h with
  | none hL => exact ⟨hL, rfl⟩

theorem prev_spec {t : Tree} {d : Nat} (hb : BranchesNonEmpty t) (hd : depth t ≤ d)
    (fuel : Nat) (st : Stack) (hv : VS t st) (hne : st ≠ []) (hf : size t ≤ fuel) :
    PrevRes t (before st) (first d fuel t).1 (prev d fuel t st) := by
  have hs := stepBack_spec hb hd fuel st hv (by have := VS_sizeBefore_lt hv; omega)
  simp only [prev]
  generalize stepBack d fuel st = r at hs
  cases hs with
  | found st' x xs hv' hL hu hin =>
    obtain ⟨y, hk, _, hy⟩ := leafIn_elem hin
    simp only [hk]
    rw [hu, hL] at hy
    have := List.append_inj' hy (by simp)
    rw [← (List.singleton_inj.mp this.2)]
    exact PrevRes.found st' x xs hv' hL hu hin
  | none hL =>
    have : st.isEmpty = false := by cases st with
      | nil => exact absurd rfl hne
      | cons _ _ => rfl
    simp only [this, Bool.false_eq_true, if_false]
    exact PrevRes.none hL

theorem last_spec {t : Tree} {d fuel : Nat} (hb : BranchesNonEmpty t) (hd : depth t ≤ d) (hf : size t ≤ fuel) :
    PrevRes t (flatten t) (first d fuel t).1 (last d fuel t) := by
  have hv0 : VS t [⟨t, (t.count : Int) - 1⟩] := VS_root t _ (by omega) (by omega)
  have hv : VS t (goToLast d [⟨t, (t.count : Int) - 1⟩]) := goToLast_VS d _ hv0
  have hs : SettledBack (goToLast d [⟨t, (t.count : Int) - 1⟩]) := by
    apply goToLast_settled d ⟨t, (t.count : Int) - 1⟩ [] hd hb
    · show (t.count : Int) - 1 < (t.count : Int); omega
    · show (0 : Int) ≤ (t.count : Int) - 1 ∨ t.count = 0; omega
  have hu : upto (goToLast d [⟨t, (t.count : Int) - 1⟩]) = flatten t := by
    rw [(goToLast_upto d _).1]
    simp only [upto, before, (uptoTop_last t).1, List.nil_append]
  simp only [last]
  split
  · rename_i h0
    have hne : goToLast d [⟨t, (t.count : Int) - 1⟩] ≠ [] := by
      intro h; rw [h] at hs; exact hs
    have := prev_spec hb hd fuel _ hv hne hf
    rw [← settledBack_empty hs h0, hu] at this
    exact this
  · rename_i h0
    have hin := settledBack_leafIn hs h0
    obtain ⟨x, hk, _, hux⟩ := leafIn_elem hin
    rw [hk]
    exact PrevRes.found _ x _ hv (by rw [← hu, hux]) hu hin

/-! ### search-tree bounds -/

theorem geLo_trans {lo : Option Bytes} {s x : Bytes} (h1 : geLo lo s) (h2 : Bytes.lt x s = false) : geLo lo x := by
  cases lo with
  | none => trivial
  | some l => exact ble_trans (a := l) (b := s) (c := x) h1 h2

theorem ltHi_trans {hi : Option Bytes} {s x : Bytes} (h1 : ltHi hi s) (h2 : Bytes.lt x s = true) : ltHi hi x := by
  cases hi with
  | none => trivial
  | some h => exact blt_trans h2 h1

theorem kidsST_single {b : Bool} {lo hi : Option Bytes} {s : Bytes} {c : Tree} :
    KidsST b lo hi [(s, c)] ↔
      (b = true ∨ geLo lo s) ∧ ltHi hi s ∧ ST (if b then lo else some s) hi c := by
  rw [KidsST]

theorem kidsST_cons2 {b : Bool} {lo hi : Option Bytes} {s s' : Bytes} {c c' : Tree} {r' : List (Bytes × Tree)} :
    KidsST b lo hi ((s, c) :: (s', c') :: r') ↔
      (b = true ∨ geLo lo s) ∧ ltHi hi s ∧ Bytes.lt s s' = true ∧
        ST (if b then lo else some s) (some s') c ∧ KidsST false lo hi ((s', c') :: r') := by
  rw [KidsST]

/-- every key of a search-tree-ordered subtree lies within its bounds -/
theorem ST_bounds : ∀ (t : Tree) (lo hi : Option Bytes), ST lo hi t →
    ∀ x ∈ flatten t, geLo lo x.key ∧ ltHi hi x.key := by
  refine Tree.induct
    (Q := fun kids => ∀ (b : Bool) (lo hi : Option Bytes), KidsST b lo hi kids →
      ∀ x ∈ flattenKids kids, geLo lo x.key ∧ ltHi hi x.key) ?_ ?_ ?_ ?_
  · intro items lo hi h x hx
    simp only [ST] at h
    exact h.2 x hx
  · intro kids ih lo hi h x hx
    simp only [ST] at h
    exact ih true lo hi h x hx
  · intro b lo hi _ x hx
    simp [flattenKids] at hx
  · intro s c r ihc ihr b lo hi h x hx
    simp only [flattenKids, List.mem_append] at hx
    cases r with
    | nil =>
      rw [kidsST_single] at h
      obtain ⟨hlo, hhi, hst⟩ := h
      rcases hx with hx | hx
      · have := ihc _ _ hst x hx
        refine ⟨?_, this.2⟩
        cases b with
        | true => simpa using this.1
        | false =>
          have h1 : geLo lo s := by simpa using hlo
          have h2 : Bytes.lt x.key s = false := by simpa [geLo] using this.1
          exact geLo_trans h1 h2
      · simp [flattenKids] at hx
    | cons q r' =>
      obtain ⟨s', c'⟩ := q
      rw [kidsST_cons2] at h
      obtain ⟨hlo, hhi, hss, hst, hrest⟩ := h
      rcases hx with hx | hx
      · have := ihc _ _ hst x hx
        have hs' : ltHi hi s' := by
          cases r' with
          | nil => exact (kidsST_single.mp hrest).2.1
          | cons q'' r'' => obtain ⟨s'', c''⟩ := q''; exact (kidsST_cons2.mp hrest).2.1
        have h3 : Bytes.lt x.key s' = true := by simpa [ltHi] using this.2
        refine ⟨?_, ltHi_trans hs' h3⟩
        cases b with
        | true => simpa using this.1
        | false =>
          have h1 : geLo lo s := by simpa using hlo
          have h2 : Bytes.lt x.key s = false := by simpa [geLo] using this.1
          exact geLo_trans h1 h2
      · exact ihr false lo hi hrest x hx

/-- relation between an earlier child `p` and a later child `q` of a branch -/
def KidRel (p q : Bytes × Tree) : Prop :=
  Bytes.lt p.1 q.1 = true ∧ (∀ x ∈ flatten p.2, Bytes.lt x.key q.1 = true) ∧
    (∀ y ∈ flatten q.2, Bytes.lt y.key q.1 = false)

theorem kidsST_nonfirst_ge : ∀ (kids : List (Bytes × Tree)) (lo hi : Option Bytes), KidsST false lo hi kids →
    ∀ q ∈ kids, ∀ y ∈ flatten q.2, Bytes.lt y.key q.1 = false
  | [], _, _, _, q, hq => by cases hq
  | (s, c) :: r, lo, hi, h, q, hq => by
    rcases List.mem_cons.mp hq with rfl | hq
    · intro y hy
      cases r with
      | nil =>
        rw [kidsST_single] at h
        have := (ST_bounds c _ _ h.2.2 y hy).1
        simpa [geLo] using this
      | cons q' r' =>
        obtain ⟨s', c'⟩ := q'
        rw [kidsST_cons2] at h
        have := (ST_bounds c _ _ h.2.2.2.1 y hy).1
        simpa [geLo] using this
    · cases r with
      | nil => cases hq
      | cons q' r' =>
        obtain ⟨s', c'⟩ := q'
        rw [kidsST_cons2] at h
        exact kidsST_nonfirst_ge _ lo hi h.2.2.2.2 q hq

theorem kidsST_pairwise : ∀ (kids : List (Bytes × Tree)) (b : Bool) (lo hi : Option Bytes), KidsST b lo hi kids →
    List.Pairwise KidRel kids
  | [], _, _, _, _ => List.Pairwise.nil
  | [(s, c)], _, _, _, _ => List.pairwise_singleton _ _
  | (s, c) :: (s', c') :: r', b, lo, hi, h => by
    rw [kidsST_cons2] at h
    obtain ⟨_, _, hss, hst, hrest⟩ := h
    have ih := kidsST_pairwise ((s', c') :: r') false lo hi hrest
    have hge := kidsST_nonfirst_ge ((s', c') :: r') lo hi hrest
    have hlt : ∀ x ∈ flatten c, Bytes.lt x.key s' = true := fun x hx => by
      have := (ST_bounds c _ _ hst x hx).2
      simpa [ltHi] using this
    refine List.Pairwise.cons ?_ ih
    intro q hq
    rcases List.mem_cons.mp hq with rfl | hq'
    · exact ⟨hss, hlt, hge _ (List.mem_cons_self)⟩
    · have hr := (List.pairwise_cons.mp ih).1 q hq'
      exact ⟨blt_trans hss hr.1, fun x hx => blt_trans (hlt x hx) hr.1, hge q hq⟩

theorem kidsST_sub : ∀ (kids : List (Bytes × Tree)) (b : Bool) (lo hi : Option Bytes), KidsST b lo hi kids →
    ∀ p ∈ kids, ∃ lo' hi', ST lo' hi' p.2
  | [], _, _, _, _, p, hp => by cases hp
  | [(s, c)], b, lo, hi, h, p, hp => by
    rw [kidsST_single] at h
    rcases List.mem_cons.mp hp with rfl | hp
    · exact ⟨_, _, h.2.2⟩
    · cases hp
  | (s, c) :: (s', c') :: r', b, lo, hi, h, p, hp => by
    rw [kidsST_cons2] at h
    obtain ⟨_, _, hss, hst, hrest⟩ := h
    rcases List.mem_cons.mp hp with rfl | hp
    · exact ⟨_, _, hst⟩
    · exact kidsST_sub ((s', c') :: r') false lo hi hrest p hp

/-! ### `lowerBound` on a sorted key list -/

theorem lowerBound_cons (a : Bytes) (r : List Bytes) (k : Bytes) :
    lowerBound (a :: r) k = if Bytes.lt a k = true then lowerBound r k + 1 else 0 := by
  simp only [lowerBound, List.takeWhile_cons]
  split <;> simp

theorem lowerBound_le : ∀ (keys : List Bytes) (k : Bytes), lowerBound keys k ≤ keys.length
  | [], _ => Nat.le_refl _
  | a :: r, k => by
    rw [lowerBound_cons]
    have := lowerBound_le r k
    split <;> simp <;> omega

theorem lowerBound_take : ∀ (keys : List Bytes) (k : Bytes), ∀ x ∈ keys.take (lowerBound keys k), Bytes.lt x k = true
  | [], _, x, hx => by simp at hx
  | a :: r, k, x, hx => by
    rw [lowerBound_cons] at hx
    split at hx
    · rename_i h
      simp only [List.take_succ_cons, List.mem_cons] at hx
      rcases hx with rfl | hx
      · exact h
      · exact lowerBound_take r k x hx
    · simp at hx

theorem lowerBound_drop : ∀ (keys : List Bytes) (k : Bytes), List.Pairwise (fun a b => Bytes.lt a b = true) keys →
    ∀ x ∈ keys.drop (lowerBound keys k), Bytes.lt x k = false
  | [], _, _, x, hx => by simp at hx
  | a :: r, k, hp, x, hx => by
    rw [lowerBound_cons] at hx
    split at hx
    · simp only [List.drop_succ_cons] at hx
      exact lowerBound_drop r k (List.pairwise_cons.mp hp).2 x hx
    · rename_i h
      have h : Bytes.lt a k = false := by simpa using h
      simp only [List.drop_zero, List.mem_cons] at hx
      rcases hx with rfl | hx
      · exact h
      · have hax := (List.pairwise_cons.mp hp).1 x hx
        cases hxk : Bytes.lt x k with
        | false => rfl
        | true => rw [blt_trans hax hxk] at h; cases h


/-! ### `search` lands on the lower bound -/

def LtK (k : Bytes) (L : List Item) : Prop := ∀ x ∈ L, Bytes.lt x.key k = true
def GeK (k : Bytes) (L : List Item) : Prop := ∀ x ∈ L, Bytes.lt x.key k = false

theorem LtK_append {k : Bytes} {a b : List Item} : LtK k (a ++ b) ↔ LtK k a ∧ LtK k b := by
  simp only [LtK, List.mem_append]
  constructor
  · intro h; exact ⟨fun x hx => h x (Or.inl hx), fun x hx => h x (Or.inr hx)⟩
  · rintro ⟨h1, h2⟩ x (hx | hx)
    · exact h1 x hx
    · exact h2 x hx

theorem GeK_append {k : Bytes} {a b : List Item} : GeK k (a ++ b) ↔ GeK k a ∧ GeK k b := by
  simp only [GeK, List.mem_append]
  constructor
  · intro h; exact ⟨fun x hx => h x (Or.inl hx), fun x hx => h x (Or.inr hx)⟩
  · rintro ⟨h1, h2⟩ x (hx | hx)
    · exact h1 x hx
    · exact h2 x hx

theorem pairwise_split {α : Type} {R : α → α → Prop} {l : List α} (h : List.Pairwise R l) (j : Nat) (hj : j < l.length) :
    (∀ a ∈ l.take j, R a l[j]) ∧ (∀ b ∈ l.drop (j + 1), R l[j] b) := by
  have hs : l = l.take j ++ l[j] :: l.drop (j + 1) := by
    rw [List.getElem_cons_drop, List.take_append_drop]
  rw [hs] at h
  obtain ⟨_, h2, h3⟩ := List.pairwise_append.mp h
  exact ⟨fun a ha => h3 a ha _ List.mem_cons_self, (List.pairwise_cons.mp h2).1⟩

/-- the child picked by `searchNode/searchPage`: everything left of it is `< k`, everything
    right of it is `≥ k` -/
theorem branch_pick {kids : List (Bytes × Tree)} {k : Bytes} (hne : kids ≠ []) (hp : List.Pairwise KidRel kids)
    (idx : Nat)
    (hidx : (idx = lowerBound (kids.map (·.1)) k ∧
              (lowerBound (kids.map (·.1)) k = 0 ∨ ∃ p, kids[lowerBound (kids.map (·.1)) k]? = some p ∧ p.1 = k)) ∨
            idx + 1 = lowerBound (kids.map (·.1)) k) :
    idx < kids.length ∧ LtK k (flattenKids (kids.take idx)) ∧ GeK k (flattenKids (kids.drop (idx + 1))) := by
  have hlen : 0 < kids.length := List.length_pos_iff.mpr hne
  have hle := lowerBound_le (kids.map (·.1)) k
  simp only [List.length_map] at hle
  have hsorted : List.Pairwise (fun a b => Bytes.lt a b = true) (kids.map (·.1)) := by
    rw [List.pairwise_map]
    exact hp.imp (fun h => h.1)
  have hT : ∀ p ∈ kids.take (lowerBound (kids.map (·.1)) k), Bytes.lt p.1 k = true := fun p hp' => by
    apply lowerBound_take (kids.map (·.1)) k
    rw [← List.map_take]
    exact List.mem_map_of_mem hp'
  have hD : ∀ p ∈ kids.drop (lowerBound (kids.map (·.1)) k), Bytes.lt p.1 k = false := fun p hp' => by
    apply lowerBound_drop (kids.map (·.1)) k hsorted
    rw [← List.map_drop]
    exact List.mem_map_of_mem hp'
  generalize lowerBound (kids.map (·.1)) k = i at hidx hle hT hD
  -- everything right of `idx`, as soon as those children's separators are ≥ k
  have right : ∀ (j : Nat) (hj : j < kids.length), (∀ q ∈ kids.drop (j + 1), Bytes.lt q.1 k = false) →
      GeK k (flattenKids (kids.drop (j + 1))) := by
    intro j hj hq y hy
    obtain ⟨q, hqm, hyq⟩ := mem_flattenKids.mp hy
    have hr := (pairwise_split hp j hj).2 q hqm
    exact ble_trans (hq q hqm) (hr.2.2 y hyq)
  rcases hidx with ⟨rfl, h0 | ⟨p, hpi, hpk⟩⟩ | hidx
  · -- idx = i = 0
    subst h0
    refine ⟨hlen, ?_, right 0 hlen (fun q hq => hD q (List.mem_of_mem_drop hq))⟩
    intro x hx; simp [flattenKids] at hx
  · -- exact match at idx = i
    obtain ⟨hlt, hpe⟩ := List.getElem?_eq_some_iff.mp hpi
    refine ⟨hlt, ?_, ?_⟩
    · intro x hx
      obtain ⟨q, hqm, hxq⟩ := mem_flattenKids.mp hx
      have hr := (pairwise_split hp idx hlt).1 q hqm
      rw [hpe] at hr
      have := hr.2.1 x hxq
      rwa [hpk] at this
    · apply right idx hlt
      intro q hq
      apply hD
      have : kids.drop (idx + 1) = (kids.drop idx).drop 1 := by rw [List.drop_drop]
      rw [this] at hq
      exact List.mem_of_mem_drop hq
  · -- idx = i - 1
    subst hidx
    have hlt : idx < kids.length := by omega
    refine ⟨hlt, ?_, right idx hlt hD⟩
    intro x hx
    obtain ⟨q, hqm, hxq⟩ := mem_flattenKids.mp hx
    have hr := (pairwise_split hp idx hlt).1 q hqm
    have hk : Bytes.lt kids[idx].1 k = true :=
      hT _ (List.mem_take_iff_getElem.mpr ⟨idx, by omega, rfl⟩)
    exact blt_trans (hr.2.1 x hxq) hk

theorem search_branch (k : Bytes) (fuel : Nat) (kids : List (Bytes × Tree)) (st : Stack) :
    search k (fuel + 1) (.branch kids) st =
      let i := lowerBound (kids.map (·.1)) k
      let exact := (kids[i]?).any (fun p => p.1 == k)
      let idx := if !exact ∧ i > 0 then i - 1 else i
      match kids[idx]? with
      | none => { node := .branch kids, index := idx } :: st
      | some c => search k fuel c.2 ({ node := .branch kids, index := idx } :: st) := by
  rw [search]; rfl

theorem search_spec {t : Tree} {k : Bytes} : ∀ (fuel : Nat) (n : Tree) (acc : Stack), depth n ≤ fuel →
    BranchesNonEmpty n → (∃ lo hi, ST lo hi n) → Anc t n acc → LtK k (before acc) → GeK k (after acc) →
    VS t (search k fuel n acc) ∧ LeafAt (search k fuel n acc) ∧
      LtK k (before (search k fuel n acc)) ∧ GeK k (frm (search k fuel n acc))
  | 0, n, _, hd, _, _, _, _, _ => by have := depth_pos n; omega
  | fuel+1, .leaf items, acc, hd, hb, ⟨lo, hi, hst⟩, hanc, hbef, haft => by
    rw [search]
    simp only [ST] at hst
    have hle := lowerBound_le (items.map (·.key)) k
    simp only [List.length_map] at hle
    have hsorted : List.Pairwise (fun a b => Bytes.lt a b = true) (items.map (·.key)) := by
      rw [List.pairwise_map]; exact hst.1
    refine ⟨⟨?_, ?_, hanc⟩, ⟨rfl, ?_, ?_⟩, ?_, ?_⟩
    · show (-1 : Int) ≤ ((lowerBound (items.map (·.key)) k : Nat) : Int); omega
    · show ((lowerBound (items.map (·.key)) k : Nat) : Int) ≤ (items.length : Int); omega
    · show (0 : Int) ≤ ((lowerBound (items.map (·.key)) k : Nat) : Int); omega
    · show ((lowerBound (items.map (·.key)) k : Nat) : Int) ≤ (items.length : Int); omega
    · simp only [before, leftOf, Int.toNat_natCast]
      rw [LtK_append]
      refine ⟨hbef, fun x hx => ?_⟩
      apply lowerBound_take (items.map (·.key)) k
      rw [← List.map_take]
      exact List.mem_map_of_mem hx
    · simp only [frm, fromTop, Int.toNat_natCast]
      rw [GeK_append]
      refine ⟨fun x hx => ?_, haft⟩
      apply lowerBound_drop (items.map (·.key)) k hsorted
      rw [← List.map_drop]
      exact List.mem_map_of_mem hx
  | fuel+1, .branch kids, acc, hd, hb, ⟨lo, hi, hst⟩, hanc, hbef, haft => by
    rw [search_branch]
    simp only [ST] at hst
    simp only [BranchesNonEmpty] at hb
    have hpw := kidsST_pairwise kids true lo hi hst
    have hpick := branch_pick (k := k) hb.1 hpw
      (if (!(kids[lowerBound (kids.map (·.1)) k]?).any (fun p => p.1 == k)) = true ∧ lowerBound (kids.map (·.1)) k > 0
        then lowerBound (kids.map (·.1)) k - 1 else lowerBound (kids.map (·.1)) k)
      (by
        split
        · rename_i h; right; omega
        · rename_i h
          left
          refine ⟨rfl, ?_⟩
          by_cases h0 : lowerBound (kids.map (·.1)) k = 0
          · exact Or.inl h0
          · right
            have hex : (kids[lowerBound (kids.map (·.1)) k]?).any (fun p => p.1 == k) = true := by
              cases hx : (kids[lowerBound (kids.map (·.1)) k]?).any (fun p => p.1 == k) with
              | true => rfl
              | false => exact absurd ⟨by simp [hx], by omega⟩ h
            obtain ⟨p, hp1, hp2⟩ := (Option.any_eq_true _ _).mp hex
            exact ⟨p, hp1, by simpa using hp2⟩)
    simp only []
    generalize (if (!(kids[lowerBound (kids.map (·.1)) k]?).any (fun p => p.1 == k)) = true ∧ lowerBound (kids.map (·.1)) k > 0
        then lowerBound (kids.map (·.1)) k - 1 else lowerBound (kids.map (·.1)) k) = idx at hpick ⊢
    obtain ⟨hlt, hL, hG⟩ := hpick
    rw [List.getElem?_eq_getElem hlt]
    simp only []
    have hmem : kids[idx] ∈ kids := List.getElem_mem hlt
    have hchild : (Tree.branch kids).child (idx : Int) = some kids[idx].2 := by
      have := child_of_lt (kids := kids) (i := (idx : Int)) (by omega) (by simpa using hlt)
      simpa using this
    apply search_spec fuel kids[idx].2 _
    · have := depth_le_depthKids hmem
      simp only [depth] at hd
      omega
    · exact bne_of_mem hb.2 hmem
    · exact kidsST_sub kids true lo hi hst _ hmem
    · exact ⟨by show (0 : Int) ≤ (idx : Int); omega, hchild, hanc⟩
    · simp only [before, leftOf, Int.toNat_natCast]
      rw [LtK_append]; exact ⟨hbef, hL⟩
    · have : ((idx : Int) + 1).toNat = idx + 1 := by omega
      simp only [after, rightOf, this]
      rw [GeK_append]; exact ⟨hG, haft⟩


theorem leafAt_end {f : Frame} {r : Stack} (hl : LeafAt (f :: r)) (h : f.index ≥ f.node.count) :
    frm (f :: r) = after (f :: r) := by
  obtain ⟨node, i⟩ := f
  cases node with
  | branch kids => have := hl.1; simp [Tree.isLeaf] at this
  | leaf items =>
    have h : i ≥ (items.length : Int) := h
    simp only [frm, after, fromTop, rightOf]
    rw [List.drop_eq_nil_iff.mpr (by omega), List.drop_eq_nil_iff.mpr (by omega)]

theorem leafAt_ne_nil {st : Stack} (h : LeafAt st) : st ≠ [] := by
  intro h'; rw [h'] at h; exact h

theorem leafIn_ne_nil {st : Stack} (h : LeafIn st) : st ≠ [] := leafAt_ne_nil h.leafAt

/-- `Seek`: the stack built by `search` splits `flatten t` at the lower bound of `k`, and the
    cursor is then settled on the head of the right part -/
theorem seek_res {t : Tree} {d fuel : Nat} (k : Bytes) (hb : BranchesNonEmpty t) (hs : SearchTree t)
    (hd : depth t ≤ d) (hf : size t ≤ fuel) :
    ∃ st, LtK k (before st) ∧ GeK k (frm st) ∧ before st ++ frm st = flatten t ∧
      SettleRes t (frm st) (seek d fuel t k) := by
  obtain ⟨hv, hl, hL, hG⟩ := search_spec (t := t) (k := k) d t [] hd hb ⟨none, none, hs⟩ rfl
    (fun x hx => by simp [before] at hx) (fun x hx => by simp [after] at hx)
  refine ⟨search k d t [], hL, hG, VS_flatten_frm hv (leafAt_ne_nil hl), ?_⟩
  simp only [seek]
  generalize search k d t [] = st at hv hl hL hG
  cases st with
  | nil => exact absurd hl (by simp [LeafAt])
  | cons f r =>
    simp only []
    split
    · rename_i hge
      have heq := leafAt_end hl hge
      rcases next_spec hb hd fuel (f :: r) hv (by have := VS_sizeAfter_lt hv; omega) with ⟨_, ha, hn⟩ | hres
      · rw [hn]
        exact SettleRes.none _ hv (by rw [heq, ha]) (by rw [heq, ha]) ha hl
      · rw [heq]; exact hres
    · rename_i hge
      have hin : LeafIn (f :: r) := ⟨hl.1, hl.2.1, by omega⟩
      obtain ⟨x, hk, hfx, _⟩ := leafIn_elem hin
      rw [hk]
      exact SettleRes.found _ x _ hv hfx rfl hin

theorem SettleRes.head {t : Tree} {L : List Item} {r : Stack × Option Item} (h : SettleRes t L r) :
    r.2 = L.head? := by
  cases h with
  | found _ _ _ _ hL _ _ => rw [hL]; rfl
  | none _ _ hL _ _ _ => rw [hL]; rfl

theorem find_lowerBound {k : Bytes} {A B : List Item} (hA : LtK k A) (hB : GeK k B) :
    (A ++ B).find? (fun it => !Bytes.lt it.key k) = B.head? := by
  rw [List.find?_append]
  have : A.find? (fun it => !Bytes.lt it.key k) = none := by
    rw [List.find?_eq_none]
    intro x hx
    simp [hA x hx]
  rw [this, Option.none_or]
  cases B with
  | nil => rfl
  | cons b B' =>
    have := hB b List.mem_cons_self
    simp [this]

theorem seek_find {t : Tree} {d fuel : Nat} (k : Bytes) (hb : BranchesNonEmpty t) (hs : SearchTree t)
    (hd : depth t ≤ d) (hf : size t ≤ fuel) :
    (seek d fuel t k).2 = (flatten t).find? (fun it => !Bytes.lt it.key k) := by
  obtain ⟨st, hL, hG, hfl, hres⟩ := seek_res k hb hs hd hf
  rw [hres.head, ← hfl, find_lowerBound hL hG]

/-! ### refinement of the sorted-list-with-position specification -/

/-- stack `st` denotes position `pos` of `flatten t` (`length` = past the end) -/
def Rep (t : Tree) (st : Stack) : Option Nat → Prop
  | none => st = []
  | some i => VS t st ∧ LeafAt st ∧ (before st).length = i ∧ (frm st ≠ [] → LeafIn st)

/-- the abstraction relation between a cursor stack and the specification state -/
def RepC (t : Tree) (st : Stack) (c : CurSpec) : Prop :=
  c.keys = (flatten t).map Item.view ∧ Rep t st c.pos

theorem rep_of_settle {t : Tree} {L A : List Item} {r : Stack × Option Item} (h : SettleRes t L r)
    (hA : A ++ L = flatten t) : Rep t r.1 (some A.length) ∧ r.2 = (flatten t)[A.length]? := by
  cases h with
  | found st' x xs hv hL hf hin =>
    have hfl := VS_flatten_frm hv (leafIn_ne_nil hin)
    rw [hf, ← hA] at hfl
    have hb : before st' = A := List.append_cancel_right hfl
    refine ⟨⟨hv, hin.leafAt, by rw [hb], fun _ => hin⟩, ?_⟩
    rw [← hA, hL]
    simp
  | none st' hv hL hf ha hl =>
    have hfl := VS_flatten_frm hv (leafAt_ne_nil hl)
    rw [hf, ← hA, hL] at hfl
    have hb : before st' = A := by simpa using hfl
    refine ⟨⟨hv, hl, by rw [hb], fun h => absurd hf h⟩, ?_⟩
    rw [← hA, hL]
    simp

theorem flattenKids_eq_nil {l : List (Bytes × Tree)} (h : flattenKids l = [])
    (hne : ∀ p ∈ l, flatten p.2 ≠ []) : l = [] := by
  cases l with
  | nil => rfl
  | cons p r =>
    obtain ⟨s, c⟩ := p
    simp only [flattenKids, List.append_eq_nil_iff] at h
    exact absurd h.1 (hne (s, c) List.mem_cons_self)

theorem rightOf_eq_nil {f : Frame} (hb : BranchesNonEmpty f.node) (hn : NoEmptyLeafBelowRoot f.node)
    (hi : -1 ≤ f.index) (h : rightOf f = []) : ¬ f.index < (f.node.count : Int) - 1 := by
  obtain ⟨node, i⟩ := f
  cases node with
  | leaf items =>
    simp only [rightOf] at h
    have := List.drop_eq_nil_iff.mp h
    show ¬ i < (items.length : Int) - 1
    have hi : -1 ≤ i := hi
    omega
  | branch kids =>
    simp only [rightOf] at h
    simp only [BranchesNonEmpty] at hb
    simp only [NoEmptyLeafBelowRoot] at hn
    have hnil := flattenKids_eq_nil h (fun p hp =>
      flatten_ne_nil p.2 (bne_of_mem hb.2 (List.mem_of_mem_drop hp)) (nel_of_mem hn (List.mem_of_mem_drop hp)))
    have := List.drop_eq_nil_iff.mp hnil
    show ¬ i < (kids.length : Int) - 1
    have hi : -1 ≤ i := hi
    omega

theorem VS_all {t : Tree} (hb : BranchesNonEmpty t) (hn : NoEmptyLeafBelowRoot t) : ∀ {st : Stack}, VS t st →
    ∀ f ∈ st, BranchesNonEmpty f.node ∧ NoEmptyLeafBelowRoot f.node ∧ -1 ≤ f.index
  | [], _, f, hf => by cases hf
  | g :: rest, hv, f, hf => by
    rcases List.mem_cons.mp hf with rfl | hf
    · exact ⟨Anc_bne hb hv.2.2, Anc_nelbr hn hv.2.2, hv.1⟩
    · exact VS_all hb hn (VS_tail hv) f hf

theorem advance_none_of_after_nil : ∀ {st : Stack},
    (∀ f ∈ st, BranchesNonEmpty f.node ∧ NoEmptyLeafBelowRoot f.node ∧ -1 ≤ f.index) → after st = [] →
    advance st = none
  | [], _, _ => rfl
  | f :: rest, hall, h => by
    simp only [after, List.append_eq_nil_iff] at h
    obtain ⟨hb, hn, hi⟩ := hall f List.mem_cons_self
    simp only [advance]
    rw [if_neg (rightOf_eq_nil hb hn hi h.1)]
    exact advance_none_of_after_nil (fun g hg => hall g (List.mem_cons_of_mem _ hg)) h.2

theorem next_of_advance_none {d fuel : Nat} {st : Stack} (h : advance st = none) : next d fuel st = (st, none) := by
  cases fuel with
  | zero => rfl
  | succ fuel => rw [next_succ, h]

theorem frm_ne_nil_of_after {st : Stack} (hl : LeafAt st) (h : after st ≠ []) : frm st ≠ [] := by
  cases st with
  | nil => exact absurd hl (by simp [LeafAt])
  | cons f r =>
    obtain ⟨node, i⟩ := f
    cases node with
    | branch kids => have := hl.1; simp [Tree.isLeaf] at this
    | leaf items =>
      have h0 : 0 ≤ i := hl.2.1
      simp only [frm, after, fromTop, rightOf] at h ⊢
      intro hf
      simp only [List.append_eq_nil_iff] at hf
      apply h
      rw [hf.2, List.append_nil]
      have := List.drop_eq_nil_iff.mp hf.1
      exact List.drop_eq_nil_iff.mpr (by omega)

theorem takeWhile_lowerBound {k : Bytes} : ∀ {A B : List Item}, LtK k A → GeK k B →
    (A ++ B).takeWhile (fun x => Bytes.lt x.key k) = A
  | [], [], _, _ => rfl
  | [], b :: B, _, hB => by
    have := hB b List.mem_cons_self
    simp [this]
  | a :: A, B, hA, hB => by
    have h1 := hA a List.mem_cons_self
    have ih := takeWhile_lowerBound (A := A) (B := B) (fun x hx => hA x (List.mem_cons_of_mem _ hx)) hB
    simp only [List.cons_append, List.takeWhile_cons, h1, if_true, ih]

section ops
variable {t : Tree} {d fuel : Nat} (hb : BranchesNonEmpty t) (hd : depth t ≤ d) (hf : size t ≤ fuel)
include hb hd hf

theorem first_refines {c : CurSpec} (hk : c.keys = (flatten t).map Item.view) :
    RepC t (first d fuel t).1 c.first.1 ∧ (first d fuel t).2.map Item.view = c.first.2 := by
  have := rep_of_settle (A := []) (first_spec (fuel := fuel) hb hd hf) rfl
  refine ⟨⟨hk, this.1⟩, ?_⟩
  rw [this.2]
  simp [CurSpec.first, CurSpec.at, hk]

theorem seek_refines (hs : SearchTree t) {c : CurSpec} (k : Bytes) (hk : c.keys = (flatten t).map Item.view) :
    RepC t (seek d fuel t k).1 (c.seek k).1 ∧ (seek d fuel t k).2.map Item.view = (c.seek k).2 := by
  obtain ⟨st, hL, hG, hfl, hres⟩ := seek_res (d := d) (fuel := fuel) k hb hs hd hf
  have := rep_of_settle hres hfl
  have hi : (c.keys.takeWhile (fun p => Bytes.lt p.1 k)).length = (before st).length := by
    rw [hk, ← hfl, List.takeWhile_map]
    have : ((fun p : Bytes × Option Bytes => Bytes.lt p.1 k) ∘ Item.view) = (fun x : Item => Bytes.lt x.key k) := rfl
    rw [this, takeWhile_lowerBound hL hG, List.length_map]
  refine ⟨⟨hk, ?_⟩, ?_⟩
  · simp only [CurSpec.seek, hi]; exact this.1
  · rw [this.2]
    simp only [CurSpec.seek, CurSpec.at, hi]
    rw [hk, List.getElem?_map]

theorem prev_refines {c : CurSpec} {st : Stack} (h : RepC t st c) :
    RepC t (prev d fuel t st).1 c.prev.1 ∧ (prev d fuel t st).2.map Item.view = c.prev.2 := by
  obtain ⟨hk, hrep⟩ := h
  cases hp : c.pos with
  | none =>
    rw [hp] at hrep
    have hst : st = [] := hrep
    subst hst
    have h1 : prev d fuel t [] = ([], none) := by
      cases fuel <;> simp [prev, stepBack, retreat]
    rw [h1]
    simp only [CurSpec.prev, hp]
    exact ⟨⟨hk, by rw [hp]; rfl⟩, rfl⟩
  | some i =>
    rw [hp] at hrep
    obtain ⟨hv, hl, hlen, hin⟩ := hrep
    have hres := prev_spec hb hd fuel st hv (leafAt_ne_nil hl) hf
    have hfl := VS_flatten_frm hv (leafAt_ne_nil hl)
    generalize prev d fuel t st = r at hres
    obtain ⟨st', kv⟩ := r
    cases kv with
    | none =>
      obtain ⟨hL, rfl⟩ := hres.none_eq
      have hi0 : i = 0 := by rw [← hlen, hL]; rfl
      have hfst := (rep_of_settle (A := []) (first_spec (fuel := fuel) hb hd hf) rfl).1
      simp only [CurSpec.prev, hp, hi0, Nat.lt_irrefl, if_false]
      exact ⟨⟨hk, hfst⟩, rfl⟩
    | some x =>
      obtain ⟨hv', hin', hu, hL⟩ := hres.found_eq
      have hipos : 0 < i := by rw [← hlen, hL]; simp
      have hbl : (before st').length = i - 1 := by rw [← hlen, hL]; simp
      simp only [CurSpec.prev, hp, hipos, if_true]
      refine ⟨⟨hk, hv', hin'.leafAt, hbl, fun _ => hin'⟩, ?_⟩
      simp only [CurSpec.at, hk, List.getElem?_map, Option.map_some]
      rw [← hfl, hL, ← hbl]
      simp

theorem last_refines {c : CurSpec} (hk : c.keys = (flatten t).map Item.view) :
    RepC t (last d fuel t).1 c.last.1 ∧ (last d fuel t).2.map Item.view = c.last.2 := by
  have hres := last_spec (fuel := fuel) hb hd hf
  generalize last d fuel t = r at hres
  obtain ⟨st', kv⟩ := r
  cases kv with
  | none =>
    obtain ⟨hL, rfl⟩ := hres.none_eq
    have hfst := (rep_of_settle (A := []) (first_spec (fuel := fuel) hb hd hf) rfl).1
    have hke : c.keys.isEmpty = true := by rw [hk, hL]; rfl
    simp only [CurSpec.last, hke, if_true]
    exact ⟨⟨hk, hfst⟩, rfl⟩
  | some x =>
    obtain ⟨hv', hin', hu, hL⟩ := hres.found_eq
    have hke : c.keys.isEmpty = false := by rw [hk, hL]; simp
    have hlen : c.keys.length - 1 = (before st').length := by rw [hk, hL]; simp
    simp only [CurSpec.last, hke, Bool.false_eq_true, if_false, hlen]
    refine ⟨⟨hk, hv', hin'.leafAt, rfl, fun _ => hin'⟩, ?_⟩
    simp only [CurSpec.at, hk, List.getElem?_map, Option.map_some]
    rw [hL]
    simp

theorem next_refines (hn : NoEmptyLeafBelowRoot t) {c : CurSpec} {st : Stack} (h : RepC t st c) :
    RepC t (next d fuel st).1 c.next.1 ∧ (next d fuel st).2.map Item.view = c.next.2 := by
  obtain ⟨hk, hrep⟩ := h
  cases hp : c.pos with
  | none =>
    rw [hp] at hrep
    have hst : st = [] := hrep
    subst hst
    rw [next_of_advance_none (by rfl)]
    simp only [CurSpec.next, hp]
    exact ⟨⟨hk, by rw [hp]; rfl⟩, rfl⟩
  | some i =>
    rw [hp] at hrep
    obtain ⟨hv, hl, hlen, hin⟩ := hrep
    have hfl := VS_flatten_frm hv (leafAt_ne_nil hl)
    have hfu := VS_flatten_upto hv (leafAt_ne_nil hl)
    have hklen : c.keys.length = (flatten t).length := by rw [hk, List.length_map]
    cases ha : after st with
    | nil =>
      have hadv := advance_none_of_after_nil (VS_all hb hn hv) ha
      rw [next_of_advance_none hadv]
      have hle : ¬ i + 1 < c.keys.length := by
        rw [hklen, ← hfl, List.length_append, hlen]
        by_cases hfe : frm st = []
        · rw [hfe]; simp
        · obtain ⟨x, _, hx, _⟩ := leafIn_elem (hin hfe)
          rw [hx, ha]; simp
      simp only [CurSpec.next, hp, hle, if_false]
      exact ⟨⟨hk, by rw [hp]; exact ⟨hv, hl, hlen, hin⟩⟩, rfl⟩
    | cons y ys =>
      have hfne : frm st ≠ [] := frm_ne_nil_of_after hl (by rw [ha]; simp)
      obtain ⟨x, _, _, hux⟩ := leafIn_elem (hin hfne)
      have hul : (upto st).length = i + 1 := by rw [hux]; simp [hlen]
      rcases next_spec hb hd fuel st hv (by have := VS_sizeAfter_lt hv; omega) with ⟨_, ha', _⟩ | hres
      · rw [ha] at ha'; cases ha'
      · have := rep_of_settle hres hfu
        rw [hul] at this
        have hlt : i + 1 < c.keys.length := by
          rw [hklen, ← hfu, List.length_append, hul, ha]; simp
        simp only [CurSpec.next, hp, hlt, if_true]
        refine ⟨⟨hk, this.1⟩, ?_⟩
        rw [this.2]
        simp only [CurSpec.at, hk, List.getElem?_map]

end ops

end Bolt.Cur
