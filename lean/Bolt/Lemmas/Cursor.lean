/-
Definitions and helper lemmas for the cursor theorems (C05).
-/
import Bolt.Model.Cursor
namespace Bolt.Cur

mutual
/-- every branch node has at least one child (what the code guarantees: a branch that
    loses its last child is removed by rebalance; mid-transaction deletes only touch leaves) -/
def BranchesNonEmpty : Tree → Prop
  | .leaf _ => True
  | .branch kids => kids ≠ [] ∧ BranchesNonEmptyKids kids
def BranchesNonEmptyKids : List (Bytes × Tree) → Prop
  | [] => True
  | (_, c) :: r => BranchesNonEmpty c ∧ BranchesNonEmptyKids r
end

def geLo (lo : Option Bytes) (k : Bytes) : Prop := match lo with | none => True | some l => Bytes.lt k l = false
def ltHi (hi : Option Bytes) (k : Bytes) : Prop := match hi with | none => True | some h => Bytes.lt k h = true

mutual
/-- B+tree ordering with bounds: leaf keys strictly ascending and within `[lo, hi)`;
    child `i` of a branch holds keys in `[sep_i, sep_{i+1})` — except that the first child
    inherits the node's own lower bound (a branch key may be smaller than its child's
    first key after deletes, and seeks below the first separator descend into child 0). -/
def ST (lo hi : Option Bytes) : Tree → Prop
  | .leaf items => List.Pairwise (fun a b => Bytes.lt a.key b.key = true) items ∧
                   ∀ it ∈ items, geLo lo it.key ∧ ltHi hi it.key
  | .branch kids => KidsST true lo hi kids
def KidsST (isFirst : Bool) (lo hi : Option Bytes) : List (Bytes × Tree) → Prop
  | [] => True
  | (s, c) :: r =>
    match r with
    | [] => ST (if isFirst then lo else some s) hi c
    | (s', _) :: _ => Bytes.lt s s' = true ∧ ST (if isFirst then lo else some s) (some s') c ∧ KidsST false lo hi r
end

def SearchTree (t : Tree) : Prop := ST none none t

mutual
def NoEmptyLeaf : Tree → Prop
  | .leaf items => items ≠ []
  | .branch kids => NoEmptyLeafKids kids
def NoEmptyLeafKids : List (Bytes × Tree) → Prop
  | [] => True
  | (_, c) :: r => NoEmptyLeaf c ∧ NoEmptyLeafKids r
end

/-- no empty leaf except possibly the root itself (an empty bucket) -/
def NoEmptyLeafBelowRoot : Tree → Prop
  | .leaf _ => True
  | .branch kids => NoEmptyLeafKids kids

/-- frames bottom (root) first form a root-to-node path with in-range indices -/
def ValidPath : Tree → List Frame → Prop
  | _, [] => True
  | t, [f] => f.node = t ∧ -1 ≤ f.index ∧ f.index ≤ f.node.count
  | t, f :: g :: r => f.node = t ∧ 0 ≤ f.index ∧ f.node.child f.index = some g.node ∧ ValidPath g.node (g :: r)

/-- a cursor stack (top first) that the cursor code can be in for tree `t` -/
def ValidStack (t : Tree) (st : Stack) : Prop := ValidPath t st.reverse

end Bolt.Cur
