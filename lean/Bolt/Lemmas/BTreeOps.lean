/-
Helper lemmas for `Bolt.Props.C04TreeOps`: Put/Delete inside a write transaction keep the
in-transaction invariant and implement the sorted-list specification.
-/
import Bolt.Model.BTreeInv
import Bolt.Lemmas.NestedMap
set_option linter.unusedSimpArgs false
namespace Bolt.BTree.OpsL
open Bolt Bolt.BTree Bolt.Node

/-! ### order facts -/

theorem le_lt_trans {a b c : Bytes} (h1 : Bytes.lt b a = false) (h2 : Bytes.lt b c = true) :
    Bytes.lt a c = true := by
  by_cases hab : a = b
  · subst hab; exact h2
  · exact Bytes.lt_trans (Bytes.lt_total h1 (fun h => hab h.symm)) h2

theorem lt_le_trans {a b c : Bytes} (h1 : Bytes.lt a b = true) (h2 : Bytes.lt c b = false) :
    Bytes.lt a c = true := by
  by_cases hbc : b = c
  · subst hbc; exact h1
  · exact Bytes.lt_trans h1 (Bytes.lt_total h2 (fun h => hbc h.symm))

theorem le_trans {a b c : Bytes} (h1 : Bytes.lt b a = false) (h2 : Bytes.lt c b = false) :
    Bytes.lt c a = false := by
  cases h : Bytes.lt c a with
  | false => rfl
  | true =>
    have := lt_le_trans h h1
    rw [this] at h2; exact h2

theorem lt_irrefl' {a : Bytes} (h : Bytes.lt a a = true) : False := by
  rw [Bytes.lt_irrefl] at h; exact Bool.noConfusion h

/-! ### `sortedKeys` as `Pairwise` -/

theorem sortedKeys_cons_cons (a b : Bytes) (r : List Bytes) :
    sortedKeys (a :: b :: r) = (Bytes.lt a b && sortedKeys (b :: r)) := by
  rw [sortedKeys]

theorem sortedKeys_iff : ∀ l : List Bytes,
    sortedKeys l = true ↔ l.Pairwise (fun a b => Bytes.lt a b = true)
  | [] => by simp [sortedKeys]
  | [_] => by simp [sortedKeys]
  | a :: b :: r => by
    rw [sortedKeys_cons_cons, Bool.and_eq_true, sortedKeys_iff (b :: r)]
    constructor
    · intro ⟨h1, h2⟩
      refine List.pairwise_cons.mpr ⟨?_, h2⟩
      intro x hx
      rcases List.mem_cons.mp hx with rfl | hx
      · exact h1
      · exact Bytes.lt_trans h1 ((List.pairwise_cons.mp h2).1 x hx)
    · intro h
      have := List.pairwise_cons.mp h
      exact ⟨this.1 _ (List.mem_cons_self ..), this.2⟩

/-- strictly ascending keys -/
def SortedI (l : List Item) : Prop := l.Pairwise (fun a b => Bytes.lt a.key b.key = true)

theorem sortedKeys_items (l : List Item) : sortedKeys (l.map (·.key)) = true ↔ SortedI l := by
  rw [sortedKeys_iff, List.pairwise_map]; exact Iff.rfl

/-- strictly ascending separators -/
def SortedK (l : List (Bytes × N)) : Prop := l.Pairwise (fun a b => Bytes.lt a.1 b.1 = true)

theorem sortedKeys_kids (l : List (Bytes × N)) : sortedKeys (l.map (·.1)) = true ↔ SortedK l := by
  rw [sortedKeys_iff, List.pairwise_map]; exact Iff.rfl

/-! ### the specification on lists -/

theorem insSorted_cons (it x : Item) (r : List Item) :
    insSorted it (x :: r) =
      if it.key == x.key then it :: r
      else if Bytes.lt it.key x.key then it :: x :: r
      else x :: insSorted it r := by
  rw [insSorted]

theorem insSorted_find_same (it : Item) : ∀ l : List Item,
    (insSorted it l).find? (fun i => i.key == it.key) = some it
  | [] => by simp [insSorted]
  | x :: r => by
    rw [insSorted_cons]
    by_cases h1 : it.key = x.key
    · simp [h1]
    · by_cases h2 : Bytes.lt it.key x.key = true
      · simp [h1, h2]
      · have h1' : ¬ x.key = it.key := fun h => h1 h.symm
        simp [h1, h2, h1', insSorted_find_same it r]

theorem insSorted_find_other (it : Item) (k' : Bytes) (hne : k' ≠ it.key) : ∀ l : List Item,
    (insSorted it l).find? (fun i => i.key == k') = l.find? (fun i => i.key == k')
  | [] => by
    have : ¬ it.key = k' := fun h => hne h.symm
    simp [insSorted, this]
  | x :: r => by
    have hk : ¬ it.key = k' := fun h => hne h.symm
    rw [insSorted_cons]
    by_cases h1 : it.key = x.key
    · have : ¬ x.key = k' := fun h => hk (h1.trans h)
      simp [h1, this]
    · by_cases h2 : Bytes.lt it.key x.key = true
      · simp [h1, h2, hk]
      · simp [h1, h2, List.find?_cons, insSorted_find_other it k' hne r]

theorem insSorted_mem (it : Item) : ∀ (l : List Item) (y : Item), y ∈ insSorted it l → y = it ∨ y ∈ l
  | [], y, h => by simp [insSorted] at h; exact Or.inl h
  | x :: r, y, h => by
    rw [insSorted_cons] at h
    by_cases h1 : it.key = x.key
    · simp [h1] at h
      rcases h with h | h
      · exact Or.inl h
      · exact Or.inr (List.mem_cons_of_mem _ h)
    · by_cases h2 : Bytes.lt it.key x.key = true
      · simp [h1, h2] at h
        rcases h with h | h | h
        · exact Or.inl h
        · exact Or.inr (by simp [h])
        · exact Or.inr (List.mem_cons_of_mem _ h)
      · simp [h1, h2] at h
        rcases h with h | h
        · exact Or.inr (by simp [h])
        · rcases insSorted_mem it r y h with h | h
          · exact Or.inl h
          · exact Or.inr (List.mem_cons_of_mem _ h)

theorem insSorted_sorted (it : Item) : ∀ l : List Item, SortedI l → SortedI (insSorted it l)
  | [], _ => by simp [insSorted, SortedI]
  | x :: r, hs => by
    have hs' := List.pairwise_cons.mp hs
    rw [insSorted_cons]
    by_cases h1 : it.key = x.key
    · simp only [h1, beq_self_eq_true, if_true]
      refine List.pairwise_cons.mpr ⟨?_, hs'.2⟩
      intro y hy; rw [h1]; exact hs'.1 y hy
    · by_cases h2 : Bytes.lt it.key x.key = true
      · simp only [beq_iff_eq, h1, if_false, h2, if_true]
        refine List.pairwise_cons.mpr ⟨?_, hs⟩
        intro y hy
        rcases List.mem_cons.mp hy with rfl | hy
        · exact h2
        · exact Bytes.lt_trans h2 (hs'.1 y hy)
      · simp only [beq_iff_eq, h1, if_false, h2]
        refine List.pairwise_cons.mpr ⟨?_, insSorted_sorted it r hs'.2⟩
        intro y hy
        rcases insSorted_mem it r y hy with rfl | hy
        · exact Bytes.lt_total (by simpa using h2) h1
        · exact hs'.1 y hy

theorem insSorted_length (it : Item) : ∀ l : List Item, (insSorted it l).length ≤ l.length + 1
  | [] => by simp [insSorted]
  | x :: r => by
    rw [insSorted_cons]
    have := insSorted_length it r
    split
    · simp
    · split <;> simp <;> omega

/-! ### leaf level: `lowerBound` on the items -/

theorem lowerBound_cons_lt {a : Bytes} {k : Bytes} (r : List Bytes) (h : Bytes.lt a k = true) :
    lowerBound (a :: r) k = lowerBound r k + 1 := by
  simp [lowerBound, List.takeWhile_cons, h]

theorem lowerBound_cons_ge {a : Bytes} {k : Bytes} (r : List Bytes) (h : ¬ Bytes.lt a k = true) :
    lowerBound (a :: r) k = 0 := by
  simp [lowerBound, List.takeWhile_cons, h]

theorem find_cons_eq {x : Item} {k : Bytes} (r : List Item) (h : x.key = k) :
    (x :: r).find? (fun i => i.key == k) = some x := by
  simp [List.find?_cons, h]

theorem find_cons_ne {x : Item} {k : Bytes} (r : List Item) (h : ¬ x.key = k) :
    (x :: r).find? (fun i => i.key == k) = r.find? (fun i => i.key == k) := by
  simp [List.find?_cons, h]

theorem filter_cons_eq {x : Item} {k : Bytes} (r : List Item) (h : x.key = k) :
    (x :: r).filter (fun i => !(i.key == k)) = r.filter (fun i => !(i.key == k)) := by
  simp [List.filter_cons, h]

theorem filter_cons_ne {x : Item} {k : Bytes} (r : List Item) (h : ¬ x.key = k) :
    (x :: r).filter (fun i => !(i.key == k)) = x :: r.filter (fun i => !(i.key == k)) := by
  simp [List.filter_cons, h]

/-- the items `leafPut` produces -/
def putItems (it : Item) (items : List Item) : List Item :=
  if (items[lowerBound (items.map (·.key)) it.key]?.map (·.key)) = some it.key
  then items.set (lowerBound (items.map (·.key)) it.key) it
  else items.take (lowerBound (items.map (·.key)) it.key) ++ it ::
    items.drop (lowerBound (items.map (·.key)) it.key)

theorem putItems_eq (it : Item) : ∀ items : List Item, putItems it items = insSorted it items
  | [] => by simp [putItems, lowerBound, insSorted]
  | x :: r => by
    have ih := putItems_eq it r
    unfold putItems at ih ⊢
    rw [insSorted_cons, List.map_cons]
    by_cases h : Bytes.lt x.key it.key = true
    · have h1 : ¬ it.key = x.key := fun e => Bytes.lt_ne h e.symm
      have h2 : ¬ Bytes.lt it.key x.key = true := by rw [Bytes.lt_asymm h]; exact Bool.noConfusion
      have h1' : (it.key == x.key) = false := by simpa using h1
      rw [lowerBound_cons_lt _ h, h1', if_neg h2, ← ih]
      simp only [List.getElem?_cons_succ, List.set_cons_succ, List.take_succ_cons,
        List.drop_succ_cons, List.cons_append]
      split <;> simp
    · rw [lowerBound_cons_ge _ h]
      simp only [List.getElem?_cons_zero, Option.map_some, Option.some.injEq,
        List.set_cons_zero, List.take_zero, List.drop_zero, List.nil_append]
      by_cases h1 : x.key = it.key
      · simp [h1]
      · have h1' : ¬ it.key = x.key := fun e => h1 e.symm
        have : Bytes.lt it.key x.key = true := Bytes.lt_total (by simpa using h) h1
        simp [h1, h1', this]

theorem leafPut_eq (k v : Bytes) (h : Hd) (items : List Item) :
    leafPut k v (.leaf h items) = some (.leaf h (insSorted { key := k, val := v, flags := 0 } items)) := by
  rw [← putItems_eq]
  unfold leafPut putItems
  simp only
  split <;> rfl

/-- the items `leafDel` produces -/
def delItems (k : Bytes) (items : List Item) : List Item :=
  if (items[lowerBound (items.map (·.key)) k]?.map (·.key)) = some k
  then items.eraseIdx (lowerBound (items.map (·.key)) k) else items

theorem filter_gt (k : Bytes) (r : List Item) (h : ∀ y ∈ r, Bytes.lt k y.key = true) :
    r.filter (fun i => !(i.key == k)) = r := by
  apply List.filter_eq_self.mpr
  intro y hy
  have := Bytes.lt_ne (h y hy)
  simp only [Bool.not_eq_true', beq_eq_false_iff_ne, ne_eq]
  exact fun e => this e.symm

theorem delItems_eq (k : Bytes) : ∀ items : List Item, SortedI items →
    delItems k items = items.filter (fun i => !(i.key == k))
  | [], _ => by simp [delItems, lowerBound]
  | x :: r, hs => by
    have hs' := List.pairwise_cons.mp hs
    have ih := delItems_eq k r hs'.2
    unfold delItems at ih ⊢
    rw [List.map_cons]
    by_cases h : Bytes.lt x.key k = true
    · have h1 : ¬ x.key = k := Bytes.lt_ne h
      rw [lowerBound_cons_lt _ h, filter_cons_ne _ h1, ← ih]
      simp only [List.getElem?_cons_succ, List.eraseIdx_cons_succ]
      split <;> rfl
    · rw [lowerBound_cons_ge _ h]
      simp only [List.getElem?_cons_zero, Option.map_some, Option.some.injEq,
        List.eraseIdx_cons_zero]
      by_cases h1 : x.key = k
      · have : ∀ y ∈ r, Bytes.lt k y.key = true := fun y hy => h1 ▸ hs'.1 y hy
        rw [if_pos h1, filter_cons_eq _ h1, filter_gt k r this]
      · have hk : Bytes.lt k x.key = true := Bytes.lt_total (by simpa using h) h1
        have : ∀ y ∈ r, Bytes.lt k y.key = true := fun y hy => Bytes.lt_trans hk (hs'.1 y hy)
        rw [if_neg h1, filter_cons_ne _ h1, filter_gt k r this]

theorem find_gt (k : Bytes) (r : List Item) (h : ∀ y ∈ r, Bytes.lt k y.key = true) :
    r.find? (fun i => i.key == k) = none := by
  apply List.find?_eq_none.mpr
  intro y hy
  have := Bytes.lt_ne (h y hy)
  simp only [beq_iff_eq]
  exact fun e => this e.symm

theorem find_lt (k : Bytes) (r : List Item) (h : ∀ y ∈ r, Bytes.lt y.key k = true) :
    r.find? (fun i => i.key == k) = none := by
  apply List.find?_eq_none.mpr
  intro y hy
  have := Bytes.lt_ne (h y hy)
  simp only [beq_iff_eq]
  exact this

theorem find_items (k : Bytes) : ∀ items : List Item, SortedI items →
    items.find? (fun i => i.key == k) =
      (items[lowerBound (items.map (·.key)) k]?).filter (fun i => i.key == k)
  | [], _ => by simp [lowerBound]
  | x :: r, hs => by
    have hs' := List.pairwise_cons.mp hs
    have ih := find_items k r hs'.2
    rw [List.map_cons]
    by_cases h : Bytes.lt x.key k = true
    · have h1 : ¬ x.key = k := Bytes.lt_ne h
      rw [lowerBound_cons_lt _ h, find_cons_ne _ h1, List.getElem?_cons_succ]
      exact ih
    · rw [lowerBound_cons_ge _ h, List.getElem?_cons_zero]
      by_cases h1 : x.key = k
      · rw [find_cons_eq _ h1]
        simp [Option.filter, h1]
      · have hk : Bytes.lt k x.key = true := Bytes.lt_total (by simpa using h) h1
        have : ∀ y ∈ r, Bytes.lt k y.key = true := fun y hy => Bytes.lt_trans hk (hs'.1 y hy)
        rw [find_cons_ne _ h1, find_gt k r this]
        simp [Option.filter, h1]

/-! ### the invariant, clause by clause -/

/-- `k` may be stored below a node with bounds `[lo, hi)` -/
def InR (lo hi : Option Bytes) (k : Bytes) : Prop := geLo lo k = true ∧ ltHi hi k = true

/-- the separator a parent holds for child `c` -/
def sepOf (c : N) : Bytes := if c.hd.mat then c.hd.key else c.firstKey

def HdOK (pmat : Bool) (h : Hd) : Prop := (h.unb = true → h.mat = true) ∧ (h.mat = true → pmat = true)

theorem inTxN_leaf (root pmat : Bool) (lo hi : Option Bytes) (h : Hd) (items : List Item) :
    inTxN root pmat lo hi (.leaf h items) = true ↔
      HdOK pmat h ∧ (root = true ∨ items ≠ [] ∨ (h.mat = true ∧ h.unb = true)) ∧ SortedI items ∧
      ∀ x ∈ items, x.key ≠ [] ∧ InR lo hi x.key := by
  rw [inTxN, ← sortedKeys_items]
  simp only [Bool.and_eq_true, Bool.or_eq_true, Bool.not_eq_true', List.all_eq_true, HdOK, InR,
    List.isEmpty_eq_false_iff, ne_eq, List.isEmpty_iff]
  constructor
  · rintro ⟨⟨⟨⟨h1, h2⟩, h3⟩, h4⟩, h5⟩
    refine ⟨⟨?_, ?_⟩, ?_, h4, ?_⟩
    · intro hu; rcases h1 with h1 | h1
      · rw [hu] at h1; exact Bool.noConfusion h1
      · exact h1
    · intro hm; rcases h2 with h2 | h2
      · rw [hm] at h2; exact Bool.noConfusion h2
      · exact h2
    · rcases h3 with (h3 | h3) | h3
      · exact Or.inl h3
      · exact Or.inr (Or.inl h3)
      · exact Or.inr (Or.inr h3)
    · intro x hx; have := h5 x hx; exact ⟨this.1.1, this.1.2, this.2⟩
  · rintro ⟨⟨h1, h2⟩, h3, h4, h5⟩
    refine ⟨⟨⟨⟨?_, ?_⟩, ?_⟩, h4⟩, ?_⟩
    · cases hu : h.unb with
      | false => exact Or.inl rfl
      | true => exact Or.inr (h1 hu)
    · cases hm : h.mat with
      | false => exact Or.inl rfl
      | true => exact Or.inr (h2 hm)
    · rcases h3 with h3 | h3 | h3
      · exact Or.inl (Or.inl h3)
      · exact Or.inl (Or.inr h3)
      · exact Or.inr h3
    · intro x hx; have := h5 x hx; exact ⟨⟨this.1, this.2.1⟩, this.2.2⟩

theorem inTxN_branch (root pmat : Bool) (lo hi : Option Bytes) (h : Hd) (kids : List (Bytes × N)) :
    inTxN root pmat lo hi (.branch h kids) = true ↔
      HdOK pmat h ∧ 2 ≤ kids.length ∧ SortedK kids ∧ (∀ p ∈ kids, p.1 ≠ [] ∧ InR lo hi p.1) ∧
      inTxKids h.mat lo hi kids ((kids.head?.map (fun p => depth p.2)).getD 0) = true := by
  rw [inTxN, ← sortedKeys_kids]
  simp only [Bool.and_eq_true, Bool.or_eq_true, Bool.not_eq_true', List.all_eq_true, HdOK, InR,
    List.isEmpty_eq_false_iff, ne_eq, decide_eq_true_eq]
  constructor
  · rintro ⟨⟨⟨⟨⟨h1, h2⟩, h3⟩, h4⟩, h5⟩, h6⟩
    refine ⟨⟨?_, ?_⟩, h3, h4, ?_, h6⟩
    · intro hu; rcases h1 with h1 | h1
      · rw [hu] at h1; exact Bool.noConfusion h1
      · exact h1
    · intro hm; rcases h2 with h2 | h2
      · rw [hm] at h2; exact Bool.noConfusion h2
      · exact h2
    · intro x hx; have := h5 x hx; exact ⟨this.1.1, this.1.2, this.2⟩
  · rintro ⟨⟨h1, h2⟩, h3, h4, h5, h6⟩
    refine ⟨⟨⟨⟨⟨?_, ?_⟩, h3⟩, h4⟩, ?_⟩, h6⟩
    · cases hu : h.unb with
      | false => exact Or.inl rfl
      | true => exact Or.inr (h1 hu)
    · cases hm : h.mat with
      | false => exact Or.inl rfl
      | true => exact Or.inr (h2 hm)
    · intro x hx; have := h5 x hx; exact ⟨⟨this.1, this.2.1⟩, this.2.2⟩

theorem inTxKids_nil (pmat : Bool) (lo hi : Option Bytes) (d : Nat) : inTxKids pmat lo hi [] d = true := by
  rw [inTxKids]

theorem inTxKids_cons (pmat : Bool) (lo hi : Option Bytes) (s : Bytes) (c : N) (r : List (Bytes × N)) (d : Nat) :
    inTxKids pmat lo hi ((s, c) :: r) d = true ↔
      s = sepOf c ∧ depth c = d ∧
      inTxN false pmat lo ((r.head?.map (·.1)).orElse (fun _ => hi)) c = true ∧
      inTxKids pmat (r.head?.map (·.1)) hi r d = true := by
  rw [inTxKids]
  simp only [Bool.and_eq_true, beq_iff_eq, sepOf, and_assoc]

/-! ### bounds -/

theorem geLo_none (k : Bytes) : geLo none k = true := rfl
theorem ltHi_none (k : Bytes) : ltHi none k = true := rfl
theorem geLo_some (l k : Bytes) : geLo (some l) k = true ↔ Bytes.lt k l = false := by
  simp [geLo]
theorem ltHi_some (h k : Bytes) : ltHi (some h) k = true ↔ Bytes.lt k h = true := by
  simp [ltHi]

theorem geLo_of_le {lo : Option Bytes} {s x : Bytes} (h1 : geLo lo s = true) (h2 : Bytes.lt x s = false) :
    geLo lo x = true := by
  cases lo with
  | none => rfl
  | some l => rw [geLo_some] at h1 ⊢; exact le_trans h1 h2

theorem ltHi_of_lt {hi : Option Bytes} {s x : Bytes} (h1 : ltHi hi s = true) (h2 : Bytes.lt x s = true) :
    ltHi hi x = true := by
  cases hi with
  | none => rfl
  | some l => rw [ltHi_some] at h1 ⊢; exact Bytes.lt_trans h2 h1

/-! ### flatten / depth / pgids equations -/

theorem flatten_leaf (h : Hd) (items : List Item) : flatten (.leaf h items) = items := by rw [flatten]
theorem flatten_branch (h : Hd) (kids : List (Bytes × N)) : flatten (.branch h kids) = flattenKids kids := by
  rw [flatten]
theorem flattenKids_nil : flattenKids [] = [] := by rw [flattenKids]
theorem flattenKids_cons (s : Bytes) (c : N) (r : List (Bytes × N)) :
    flattenKids ((s, c) :: r) = flatten c ++ flattenKids r := by rw [flattenKids]

theorem depth_leaf (h : Hd) (items : List Item) : depth (.leaf h items) = 1 := by rw [depth]
theorem depth_branch (h : Hd) (kids : List (Bytes × N)) : depth (.branch h kids) = 1 + depthKids kids := by
  rw [depth]
theorem depthKids_nil : depthKids [] = 0 := by rw [depthKids]
theorem depthKids_cons (s : Bytes) (c : N) (r : List (Bytes × N)) :
    depthKids ((s, c) :: r) = max (depth c) (depthKids r) := by rw [depthKids]

theorem pgids_leaf (h : Hd) (items : List Item) : pgids (.leaf h items) = [h.pgid] := by rw [pgids]
theorem pgids_branch (h : Hd) (kids : List (Bytes × N)) : pgids (.branch h kids) = h.pgid :: pgidsKids kids := by
  rw [pgids]
theorem pgidsKids_nil : pgidsKids [] = [] := by rw [pgidsKids]
theorem pgidsKids_cons (s : Bytes) (c : N) (r : List (Bytes × N)) :
    pgidsKids ((s, c) :: r) = pgids c ++ pgidsKids r := by rw [pgidsKids]

theorem mem_flattenKids : ∀ (kids : List (Bytes × N)) (x : Item),
    x ∈ flattenKids kids ↔ ∃ p ∈ kids, x ∈ flatten p.2
  | [], x => by simp [flattenKids_nil]
  | (s, c) :: r, x => by
    rw [flattenKids_cons, List.mem_append, mem_flattenKids r x]
    simp

/-! ### every key below a node lies within the node's bounds -/

mutual
theorem inTxN_range : ∀ (n : N) (root pmat : Bool) (lo hi : Option Bytes),
    inTxN root pmat lo hi n = true → ∀ x ∈ flatten n, x.key ≠ [] ∧ InR lo hi x.key
  | .leaf h items, root, pmat, lo, hi, hn, x, hx => by
    rw [flatten_leaf] at hx
    exact ((inTxN_leaf ..).mp hn).2.2.2 x hx
  | .branch h kids, root, pmat, lo, hi, hn, x, hx => by
    rw [flatten_branch] at hx
    obtain ⟨_, _, _, hr, hk⟩ := (inTxN_branch ..).mp hn
    obtain ⟨h1, h2, h3⟩ := inTxKids_range kids h.mat lo hi _ hk x hx
    refine ⟨h1, ?_, ?_⟩
    · rcases h2 with h2 | ⟨p, hp, h2⟩
      · exact h2
      · exact geLo_of_le (hr p hp).2.1 h2
    · rcases h3 with h3 | ⟨p, hp, h3⟩
      · exact h3
      · exact ltHi_of_lt (hr p hp).2.2 h3
theorem inTxKids_range : ∀ (kids : List (Bytes × N)) (pmat : Bool) (lo hi : Option Bytes) (d : Nat),
    inTxKids pmat lo hi kids d = true → ∀ x ∈ flattenKids kids, x.key ≠ [] ∧
      (geLo lo x.key = true ∨ ∃ p ∈ kids, Bytes.lt x.key p.1 = false) ∧
      (ltHi hi x.key = true ∨ ∃ p ∈ kids, Bytes.lt x.key p.1 = true)
  | [], _, _, _, _, _, x, hx => by rw [flattenKids_nil] at hx; cases hx
  | (s, c) :: r, pmat, lo, hi, d, hk, x, hx => by
    obtain ⟨_, _, hc, hr⟩ := (inTxKids_cons ..).mp hk
    rw [flattenKids_cons, List.mem_append] at hx
    rcases hx with hx | hx
    · obtain ⟨h1, h2, h3⟩ := inTxN_range c _ _ _ _ hc x hx
      refine ⟨h1, Or.inl h2, ?_⟩
      cases r with
      | nil => exact Or.inl h3
      | cons q r' =>
        simp only [List.head?_cons, Option.map_some, Option.orElse_some] at h3
        exact Or.inr ⟨q, by simp, (ltHi_some ..).mp h3⟩
    · obtain ⟨h1, h2, h3⟩ := inTxKids_range r _ _ _ _ hr x hx
      refine ⟨h1, Or.inr ?_, ?_⟩
      · rcases h2 with h2 | ⟨p, hp, h2⟩
        · cases r with
          | nil => rw [flattenKids_nil] at hx; cases hx
          | cons q r' =>
            simp only [List.head?_cons, Option.map_some] at h2
            exact ⟨q, by simp, (geLo_some ..).mp h2⟩
        · exact ⟨p, List.mem_cons_of_mem _ hp, h2⟩
      · rcases h3 with h3 | ⟨p, hp, h3⟩
        · exact Or.inl h3
        · exact Or.inr ⟨p, List.mem_cons_of_mem _ hp, h3⟩
end

/-! ### the parent-materialised flag only matters upwards -/

theorem HdOK_true {pmat : Bool} {h : Hd} (hh : HdOK pmat h) : HdOK true h := ⟨hh.1, fun _ => rfl⟩

theorem inTxN_pmat {root pmat : Bool} {lo hi : Option Bytes} : ∀ {n : N},
    inTxN root pmat lo hi n = true → inTxN root true lo hi n = true
  | .leaf h items, hn => by
    rw [inTxN_leaf] at hn ⊢; exact ⟨HdOK_true hn.1, hn.2⟩
  | .branch h kids, hn => by
    rw [inTxN_branch] at hn ⊢; exact ⟨HdOK_true hn.1, hn.2⟩

theorem inTxKids_pmat {pmat : Bool} {hi : Option Bytes} {d : Nat} : ∀ {kids : List (Bytes × N)} {lo : Option Bytes},
    inTxKids pmat lo hi kids d = true → inTxKids true lo hi kids d = true
  | [], _, _ => inTxKids_nil ..
  | (s, c) :: r, lo, hk => by
    rw [inTxKids_cons] at hk ⊢
    exact ⟨hk.1, hk.2.1, inTxN_pmat hk.2.2.1, inTxKids_pmat hk.2.2.2⟩

/-! ### `materialize` -/

/-- the header `node.read` gives a page -/
def mhd (h : Hd) (fk : Bytes) : Hd :=
  if h.mat then h else { pgid := h.pgid, mat := true, unb := false, key := fk }

theorem materialize_leaf (h : Hd) (items : List Item) :
    materialize (.leaf h items) = .leaf (mhd h (N.leaf h items).firstKey) items := by
  unfold materialize mhd
  simp only [N.hd]
  by_cases hm : h.mat = true <;> simp [N.setHd, hm]

theorem materialize_branch (h : Hd) (kids : List (Bytes × N)) :
    materialize (.branch h kids) = .branch (mhd h (N.branch h kids).firstKey) kids := by
  unfold materialize mhd
  simp only [N.hd]
  by_cases hm : h.mat = true <;> simp [N.setHd, hm]

theorem mhd_mat (h : Hd) (fk : Bytes) : (mhd h fk).mat = true := by
  unfold mhd; split <;> simp [*]

theorem mhd_pgid (h : Hd) (fk : Bytes) : (mhd h fk).pgid = h.pgid := by
  unfold mhd; split <;> simp

theorem mhd_key (h : Hd) (fk : Bytes) : (mhd h fk).key = if h.mat then h.key else fk := by
  unfold mhd; split <;> simp [*]

theorem mhd_unb (h : Hd) (fk : Bytes) (hu : (mhd h fk).unb = true) : h.mat = true ∧ h.unb = true := by
  unfold mhd at hu; split at hu
  · exact ⟨by assumption, hu⟩
  · simp at hu

theorem mhd_ok (h : Hd) (fk : Bytes) : HdOK true (mhd h fk) := ⟨fun _ => mhd_mat h fk, fun _ => rfl⟩

theorem sepOf_leaf (h : Hd) (items : List Item) :
    sepOf (.leaf h items) = if h.mat then h.key else (N.leaf h items).firstKey := rfl

theorem sepOf_branch (h : Hd) (kids : List (Bytes × N)) :
    sepOf (.branch h kids) = if h.mat then h.key else (N.branch h kids).firstKey := rfl

/-! ### one child of a branch -/

theorem inTxKids_get : ∀ (kids : List (Bytes × N)) (pmat : Bool) (lo hi : Option Bytes) (d i : Nat)
    (s : Bytes) (c : N), inTxKids pmat lo hi kids d = true → kids[i]? = some (s, c) →
    s = sepOf c ∧ depth c = d ∧
      inTxN false pmat (if i = 0 then lo else some s)
        ((kids[i+1]?.map (·.1)).orElse (fun _ => hi)) c = true
  | [], _, _, _, _, _, _, _, _, h => by simp at h
  | (s0, c0) :: r, pmat, lo, hi, d, 0, s, c, hk, h => by
    simp only [List.getElem?_cons_zero, Option.some.injEq, Prod.mk.injEq] at h
    obtain ⟨rfl, rfl⟩ := h
    rw [inTxKids_cons] at hk
    refine ⟨hk.1, hk.2.1, ?_⟩
    simpa [List.head?_eq_getElem?] using hk.2.2.1
  | (s0, c0) :: r, pmat, lo, hi, d, i+1, s, c, hk, h => by
    rw [List.getElem?_cons_succ] at h
    rw [inTxKids_cons] at hk
    have ih := inTxKids_get r pmat _ hi d i s c hk.2.2.2 h
    refine ⟨ih.1, ih.2.1, ?_⟩
    have h3 := ih.2.2
    simp only [List.getElem?_cons_succ, Nat.add_one_ne_zero, if_false]
    cases i with
    | zero =>
      simp only [List.head?_eq_getElem?, h, Option.map_some, if_true] at h3
      exact h3
    | succ j =>
      simp only [Nat.add_one_ne_zero, if_false] at h3
      exact h3

theorem head_set_fst (r : List (Bytes × N)) (i : Nat) (s : Bytes) (c c' : N) (h : r[i]? = some (s, c)) :
    (r.set i (s, c')).head?.map (·.1) = r.head?.map (·.1) := by
  cases r with
  | nil => simp
  | cons q r' =>
    cases i with
    | zero =>
      simp only [List.getElem?_cons_zero, Option.some.injEq] at h
      subst h; simp
    | succ j => simp

theorem getElem?_set_fst (r : List (Bytes × N)) (i j : Nat) (s : Bytes) (c c' : N) (h : r[i]? = some (s, c)) :
    (r.set i (s, c'))[j]?.map (·.1) = r[j]?.map (·.1) := by
  by_cases hij : i = j
  · subst hij
    have hi : i < r.length := by
      rcases Nat.lt_or_ge i r.length with h' | h'
      · exact h'
      · rw [List.getElem?_eq_none h'] at h; cases h
    rw [List.getElem?_set_self hi, h]; rfl
  · rw [List.getElem?_set_ne hij]

theorem inTxKids_set : ∀ (kids : List (Bytes × N)) (pmat : Bool) (lo hi : Option Bytes) (d i : Nat)
    (s : Bytes) (c c' : N), inTxKids pmat lo hi kids d = true → kids[i]? = some (s, c) →
    s = sepOf c' → depth c' = d →
    inTxN false true (if i = 0 then lo else some s)
        ((kids[i+1]?.map (·.1)).orElse (fun _ => hi)) c' = true →
    inTxKids true lo hi (kids.set i (s, c')) d = true
  | [], _, _, _, _, _, _, _, _, _, h, _, _, _ => by simp at h
  | (s0, c0) :: r, pmat, lo, hi, d, 0, s, c, c', hk, h, h1, h2, h3 => by
    simp only [List.getElem?_cons_zero, Option.some.injEq, Prod.mk.injEq] at h
    obtain ⟨rfl, rfl⟩ := h
    rw [inTxKids_cons] at hk
    rw [List.set_cons_zero, inTxKids_cons]
    refine ⟨h1, h2, ?_, inTxKids_pmat hk.2.2.2⟩
    simpa [List.head?_eq_getElem?] using h3
  | (s0, c0) :: r, pmat, lo, hi, d, i+1, s, c, c', hk, h, h1, h2, h3 => by
    rw [List.getElem?_cons_succ] at h
    rw [inTxKids_cons] at hk
    rw [List.set_cons_succ, inTxKids_cons, head_set_fst r i s c c' h]
    refine ⟨hk.1, hk.2.1, inTxN_pmat hk.2.2.1, ?_⟩
    apply inTxKids_set r pmat _ hi d i s c c' hk.2.2.2 h h1 h2
    simp only [List.getElem?_cons_succ, Nat.add_one_ne_zero, if_false] at h3
    cases i with
    | zero =>
      simp only [List.head?_eq_getElem?, h, Option.map_some, if_true]
      exact h3
    | succ j =>
      simp only [Nat.add_one_ne_zero, if_false]
      exact h3

/-! ### `lowerBound` and `branchIdx` on ascending keys -/

theorem lowerBound_le_length (k : Bytes) : ∀ keys : List Bytes, lowerBound keys k ≤ keys.length
  | [] => by simp [lowerBound]
  | a :: r => by
    have := lowerBound_le_length k r
    by_cases ha : Bytes.lt a k = true
    · rw [lowerBound_cons_lt _ ha, List.length_cons]; omega
    · rw [lowerBound_cons_ge _ ha]; omega

theorem lowerBound_lt (k : Bytes) : ∀ (keys : List Bytes) (j : Nat) (s : Bytes),
    keys[j]? = some s → j < lowerBound keys k → Bytes.lt s k = true
  | [], _, _, h, _ => by simp at h
  | a :: r, j, s, h, hj => by
    by_cases ha : Bytes.lt a k = true
    · rw [lowerBound_cons_lt _ ha] at hj
      cases j with
      | zero => simp at h; subst h; exact ha
      | succ j =>
        rw [List.getElem?_cons_succ] at h
        exact lowerBound_lt k r j s h (by omega)
    · rw [lowerBound_cons_ge _ ha] at hj; omega

theorem lowerBound_ge (k : Bytes) : ∀ (keys : List Bytes) (j : Nat) (s : Bytes),
    keys.Pairwise (fun a b => Bytes.lt a b = true) →
    keys[j]? = some s → lowerBound keys k ≤ j → Bytes.lt s k = false
  | [], _, _, _, h, _ => by simp at h
  | a :: r, j, s, hs, h, hj => by
    have hs' := List.pairwise_cons.mp hs
    by_cases ha : Bytes.lt a k = true
    · rw [lowerBound_cons_lt _ ha] at hj
      cases j with
      | zero => omega
      | succ j =>
        rw [List.getElem?_cons_succ] at h
        exact lowerBound_ge k r j s hs'.2 h (by omega)
    · have ha' : Bytes.lt a k = false := by simpa using ha
      cases j with
      | zero => simp at h; subst h; exact ha'
      | succ j =>
        rw [List.getElem?_cons_succ] at h
        have : Bytes.lt a s = true := hs'.1 s (List.mem_of_getElem? h)
        cases hsk : Bytes.lt s k with
        | false => rfl
        | true => rw [Bytes.lt_trans this hsk] at ha'; exact Bool.noConfusion ha'

theorem pairwise_getElem? {keys : List Bytes} (hs : keys.Pairwise (fun a b => Bytes.lt a b = true))
    {a b : Nat} {x y : Bytes} (ha : keys[a]? = some x) (hb : keys[b]? = some y) (hab : a < b) :
    Bytes.lt x y = true := by
  obtain ⟨ha1, ha2⟩ := List.getElem?_eq_some_iff.mp ha
  obtain ⟨hb1, hb2⟩ := List.getElem?_eq_some_iff.mp hb
  have := (List.pairwise_iff_getElem.mp hs) a b ha1 hb1 hab
  rw [ha2, hb2] at this; exact this

theorem branchIdx_spec (keys : List Bytes) (k : Bytes)
    (hs : keys.Pairwise (fun a b => Bytes.lt a b = true)) (hne : keys ≠ []) :
    ∃ s, keys[branchIdx keys k]? = some s ∧ (branchIdx keys k ≠ 0 → Bytes.lt k s = false) ∧
      (∀ s', keys[branchIdx keys k + 1]? = some s' → Bytes.lt k s' = true) := by
  have hlen : 0 < keys.length := List.length_pos_iff.mpr hne
  have hle := lowerBound_le_length k keys
  unfold branchIdx
  simp only
  by_cases h1 : keys[lowerBound keys k]? = some k
  · rw [if_neg (by simp [h1])]
    refine ⟨k, h1, fun _ => Bytes.lt_irrefl k, fun s' hs' => ?_⟩
    exact pairwise_getElem? hs h1 hs' (by omega)
  · by_cases h2 : lowerBound keys k > 0
    · rw [if_pos ⟨h1, h2⟩]
      have hlt : lowerBound keys k - 1 < keys.length := by omega
      refine ⟨keys[lowerBound keys k - 1], List.getElem?_eq_getElem hlt, fun _ => ?_, fun s' hs' => ?_⟩
      · exact Bytes.lt_asymm (lowerBound_lt k keys _ _ (List.getElem?_eq_getElem hlt) (by omega))
      · have e : lowerBound keys k - 1 + 1 = lowerBound keys k := by omega
        rw [e] at hs'
        have := lowerBound_ge k keys _ s' hs hs' (Nat.le_refl _)
        exact Bytes.lt_total this (fun e => h1 (e ▸ hs'))
    · rw [if_neg (by intro h; exact h2 h.2)]
      have h0 : lowerBound keys k = 0 := by omega
      rw [h0] at h1 ⊢
      refine ⟨keys[0], List.getElem?_eq_getElem hlen, fun h => absurd rfl h, fun s' hs' => ?_⟩
      have g0 := lowerBound_ge k keys 0 _ hs (List.getElem?_eq_getElem hlen) (by omega)
      have g1 := lowerBound_ge k keys 1 s' hs hs' (by omega)
      have l01 := pairwise_getElem? hs (List.getElem?_eq_getElem hlen) hs' (by omega)
      apply Bytes.lt_total g1
      intro e; subst e
      rw [l01] at g0; exact Bool.noConfusion g0

/-! ### the items of a branch around one child -/

theorem flattenKids_append : ∀ (a b : List (Bytes × N)),
    flattenKids (a ++ b) = flattenKids a ++ flattenKids b
  | [], b => by simp [flattenKids_nil]
  | (s, c) :: a, b => by
    rw [List.cons_append, flattenKids_cons, flattenKids_cons, flattenKids_append a b, List.append_assoc]

theorem kids_split {kids : List (Bytes × N)} {i : Nat} {p : Bytes × N} (h : kids[i]? = some p) :
    kids = kids.take i ++ p :: kids.drop (i+1) := by
  obtain ⟨h1, h2⟩ := List.getElem?_eq_some_iff.mp h
  rw [← h2, List.getElem_cons_drop, List.take_append_drop]

theorem kids_set_split {kids : List (Bytes × N)} {i : Nat} {p : Bytes × N} (q : Bytes × N)
    (h : kids[i]? = some p) : kids.set i q = kids.take i ++ q :: kids.drop (i+1) := by
  obtain ⟨h1, h2⟩ := List.getElem?_eq_some_iff.mp h
  rw [List.set_eq_take_append_cons_drop, if_pos h1]

theorem flattenKids_split {kids : List (Bytes × N)} {i : Nat} {s : Bytes} {c : N}
    (h : kids[i]? = some (s, c)) :
    flattenKids kids = flattenKids (kids.take i) ++ flatten c ++ flattenKids (kids.drop (i+1)) := by
  conv => lhs; rw [kids_split h]
  rw [flattenKids_append, flattenKids_cons, List.append_assoc]

theorem flattenKids_set {kids : List (Bytes × N)} {i : Nat} {s : Bytes} {c : N} (c' : N)
    (h : kids[i]? = some (s, c)) :
    flattenKids (kids.set i (s, c')) =
      flattenKids (kids.take i) ++ flatten c' ++ flattenKids (kids.drop (i+1)) := by
  rw [kids_set_split (s, c') h, flattenKids_append, flattenKids_cons, List.append_assoc]

theorem sortedK_getElem? {kids : List (Bytes × N)} (hs : SortedK kids)
    {a b : Nat} {p q : Bytes × N} (ha : kids[a]? = some p) (hb : kids[b]? = some q) (hab : a < b) :
    Bytes.lt p.1 q.1 = true := by
  obtain ⟨ha1, ha2⟩ := List.getElem?_eq_some_iff.mp ha
  obtain ⟨hb1, hb2⟩ := List.getElem?_eq_some_iff.mp hb
  have := (List.pairwise_iff_getElem.mp hs) a b ha1 hb1 hab
  rw [ha2, hb2] at this; exact this

theorem sortedK_le {kids : List (Bytes × N)} (hs : SortedK kids)
    {a b : Nat} {p q : Bytes × N} (ha : kids[a]? = some p) (hb : kids[b]? = some q) (hab : a ≤ b) :
    Bytes.lt q.1 p.1 = false := by
  rcases Nat.lt_or_eq_of_le hab with h | h
  · exact Bytes.lt_asymm (sortedK_getElem? hs ha hb h)
  · subst h; rw [ha] at hb; cases hb; exact Bytes.lt_irrefl _

/-- everything left of child `i` is below its separator -/
theorem before_lt {kids : List (Bytes × N)} {pmat : Bool} {lo hi : Option Bytes} {d i : Nat}
    {s : Bytes} {c : N} (hk : inTxKids pmat lo hi kids d = true) (hs : SortedK kids)
    (h : kids[i]? = some (s, c)) : ∀ x ∈ flattenKids (kids.take i), Bytes.lt x.key s = true := by
  intro x hx
  obtain ⟨p, hp, hxp⟩ := (mem_flattenKids _ _).mp hx
  obtain ⟨j, hj, rfl⟩ := List.mem_take_iff_getElem.mp hp
  have hj' : j < i ∧ j < kids.length := by omega
  have hi' : i < kids.length := (List.getElem?_eq_some_iff.mp h).1
  have hget : kids[j]? = some (kids[j].1, kids[j].2) := List.getElem?_eq_getElem hj'.2
  have hj1 : j + 1 < kids.length := by omega
  have hnext : kids[j+1]? = some kids[j+1] := List.getElem?_eq_getElem hj1
  have hc := (inTxKids_get kids pmat lo hi d j _ _ hk hget).2.2
  rw [hnext] at hc
  simp only [Option.map_some, Option.orElse_some] at hc
  have hr := (inTxN_range _ _ _ _ _ hc x hxp).2.2
  rw [ltHi_some] at hr
  exact lt_le_trans hr (sortedK_le hs hnext h (by omega))

/-- everything right of child `i` is at least the next separator -/
theorem after_ge {kids : List (Bytes × N)} {pmat : Bool} {lo hi : Option Bytes} {d i : Nat}
    {q : Bytes × N} (hk : inTxKids pmat lo hi kids d = true) (hs : SortedK kids)
    (h : kids[i+1]? = some q) : ∀ x ∈ flattenKids (kids.drop (i+1)), Bytes.lt x.key q.1 = false := by
  intro x hx
  obtain ⟨p, hp, hxp⟩ := (mem_flattenKids _ _).mp hx
  obtain ⟨j, hj, hpj⟩ := List.mem_drop_iff_getElem.mp hp
  have hm : i + 1 + j < kids.length := by omega
  have hget : kids[i+1+j]? = some (p.1, p.2) := by rw [List.getElem?_eq_getElem hm, hpj]
  have hc := (inTxKids_get kids pmat lo hi d _ _ _ hk hget).2.2
  rw [if_neg (by omega)] at hc
  have hr := (inTxN_range _ _ _ _ _ hc x hxp).2.1
  rw [geLo_some] at hr
  exact le_trans (sortedK_le hs h hget (by omega)) hr

theorem depth_pos : ∀ n : N, 1 ≤ depth n
  | .leaf _ _ => by rw [depth_leaf]; omega
  | .branch _ _ => by rw [depth_branch]; omega

theorem depth_le_depthKids : ∀ (kids : List (Bytes × N)) (i : Nat) (s : Bytes) (c : N),
    kids[i]? = some (s, c) → depth c ≤ depthKids kids
  | [], _, _, _, h => by simp at h
  | (s0, c0) :: r, 0, s, c, h => by
    simp only [List.getElem?_cons_zero, Option.some.injEq, Prod.mk.injEq] at h
    rw [depthKids_cons, h.2]; exact Nat.le_max_left ..
  | (s0, c0) :: r, i+1, s, c, h => by
    rw [List.getElem?_cons_succ] at h
    have := depth_le_depthKids r i s c h
    rw [depthKids_cons]; exact Nat.le_trans this (Nat.le_max_right ..)

theorem depthKids_set : ∀ (kids : List (Bytes × N)) (i : Nat) (s : Bytes) (c c' : N),
    kids[i]? = some (s, c) → depth c' = depth c → depthKids (kids.set i (s, c')) = depthKids kids
  | [], _, _, _, _, h, _ => by simp at h
  | (s0, c0) :: r, 0, s, c, c', h, hd => by
    simp only [List.getElem?_cons_zero, Option.some.injEq, Prod.mk.injEq] at h
    rw [List.set_cons_zero, depthKids_cons, depthKids_cons, hd, h.2]
  | (s0, c0) :: r, i+1, s, c, c', h, hd => by
    rw [List.getElem?_cons_succ] at h
    rw [List.set_cons_succ, depthKids_cons, depthKids_cons, depthKids_set r i s c c' h hd]

theorem pgidsKids_set : ∀ (kids : List (Bytes × N)) (i : Nat) (s : Bytes) (c c' : N),
    kids[i]? = some (s, c) → pgids c' = pgids c → pgidsKids (kids.set i (s, c')) = pgidsKids kids
  | [], _, _, _, _, h, _ => by simp at h
  | (s0, c0) :: r, 0, s, c, c', h, hd => by
    simp only [List.getElem?_cons_zero, Option.some.injEq, Prod.mk.injEq] at h
    rw [List.set_cons_zero, pgidsKids_cons, pgidsKids_cons, hd, h.2]
  | (s0, c0) :: r, i+1, s, c, c', h, hd => by
    rw [List.getElem?_cons_succ] at h
    rw [List.set_cons_succ, pgidsKids_cons, pgidsKids_cons, pgidsKids_set r i s c c' h hd]

/-- the depth all children share, as the invariant records it -/
theorem head_depth_set (kids : List (Bytes × N)) (i : Nat) (s : Bytes) (c c' : N)
    (h : kids[i]? = some (s, c)) (hd : depth c' = depth c) :
    ((kids.set i (s, c')).head?.map (fun p => depth p.2)).getD 0 =
      (kids.head?.map (fun p => depth p.2)).getD 0 := by
  cases kids with
  | nil => simp
  | cons q r =>
    cases i with
    | zero =>
      simp only [List.getElem?_cons_zero, Option.some.injEq] at h
      subst h; simp [hd]
    | succ j => simp

/-- the child `Cursor.seek` descends into: its bounds contain `k`, everything to its left is
    smaller than `k`, everything to its right is larger -/
theorem branch_step {root pmat : Bool} {lo hi : Option Bytes} {h : Hd} {kids : List (Bytes × N)}
    {k : Bytes} (hn : inTxN root pmat lo hi (.branch h kids) = true) (hk : InR lo hi k)
    (i : Nat) (hi' : i = branchIdx (kids.map (·.1)) k) :
    ∃ s c, kids[i]? = some (s, c) ∧
      inTxN false h.mat (if i = 0 then lo else some s)
        ((kids[i+1]?.map (·.1)).orElse (fun _ => hi)) c = true ∧
      InR (if i = 0 then lo else some s) ((kids[i+1]?.map (·.1)).orElse (fun _ => hi)) k ∧
      s = sepOf c ∧ depth c = (kids.head?.map (fun p => depth p.2)).getD 0 ∧
      (∀ x ∈ flattenKids (kids.take i), Bytes.lt x.key k = true) ∧
      (∀ x ∈ flattenKids (kids.drop (i+1)), Bytes.lt k x.key = true) := by
  obtain ⟨_, hlen, hs, hr, hkids⟩ := (inTxN_branch ..).mp hn
  have hne : kids.map (·.1) ≠ [] := by
    intro e; rw [List.map_eq_nil_iff] at e; rw [e] at hlen; simp at hlen
  obtain ⟨s, h1, h2, h3⟩ := branchIdx_spec (kids.map (·.1)) k ((sortedKeys_iff _).mp ((sortedKeys_kids _).mpr hs)) hne
  rw [← hi', List.getElem?_map] at h1 h3
  rw [← hi'] at h2
  obtain ⟨⟨s', c⟩, hget, hs'⟩ := Option.map_eq_some_iff.mp h1
  simp only at hs'; subst hs'
  have hg := inTxKids_get kids h.mat lo hi _ i s' c hkids hget
  refine ⟨s', c, hget, hg.2.2, ⟨?_, ?_⟩, hg.1, hg.2.1, ?_, ?_⟩
  · by_cases h0 : i = 0
    · rw [if_pos h0]; exact hk.1
    · rw [if_neg h0, geLo_some]; exact h2 h0
  · cases hq : kids[i+1]? with
    | none => simp only [Option.map_none, Option.orElse_none]; exact hk.2
    | some q =>
      simp only [Option.map_some, Option.orElse_some, ltHi_some]
      exact h3 q.1 (by rw [hq]; rfl)
  · intro x hx
    by_cases h0 : i = 0
    · subst h0; rw [List.take_zero, flattenKids_nil] at hx; cases hx
    · exact lt_le_trans (before_lt hkids hs hget x hx) (h2 h0)
  · intro x hx
    cases hq : kids[i+1]? with
    | none =>
      have : kids.length ≤ i + 1 := by
        rcases Nat.lt_or_ge (i+1) kids.length with h' | h'
        · rw [List.getElem?_eq_getElem h'] at hq; cases hq
        · exact h'
      rw [List.drop_of_length_le this, flattenKids_nil] at hx; cases hx
    | some q =>
      exact lt_le_trans (h3 q.1 (by rw [hq]; rfl)) (after_ge hkids hs hq x hx)

/-! ### descending one level -/

theorem searchPath_leaf (k : Bytes) (fuel : Nat) (h : Hd) (items : List Item) :
    searchPath k (fuel+1) (.leaf h items) = [] := by rw [searchPath]

theorem searchPath_branch (k : Bytes) (fuel : Nat) (h : Hd) (kids : List (Bytes × N)) (s : Bytes) (c : N)
    (hg : kids[branchIdx (kids.map (·.1)) k]? = some (s, c)) :
    searchPath k (fuel+1) (.branch h kids) = branchIdx (kids.map (·.1)) k :: searchPath k fuel c := by
  rw [searchPath]; simp only [hg]

theorem modifyAt_nil (f : N → Option N) (n : N) : modifyAt f [] n = f (materialize n) := by rw [modifyAt]

theorem modifyAt_branch (f : N → Option N) (i : Nat) (rest : List Nat) (h : Hd) (kids : List (Bytes × N))
    (s : Bytes) (c : N) (hg : kids[i]? = some (s, c)) :
    modifyAt f (i :: rest) (.branch h kids) =
      (modifyAt f rest c).map
        (fun c' => .branch (mhd h (N.branch h kids).firstKey) (kids.set i (s, c'))) := by
  rw [modifyAt, materialize_branch]; simp only [hg]

/-- what the leaf operation `f` has to do for the list operation `g` -/
def LeafOK (k : Bytes) (f : N → Option N) (g : List Item → List Item) : Prop :=
  ∀ (root : Bool) (lo hi : Option Bytes) (h : Hd) (items : List Item), h.mat = true →
    inTxN root true lo hi (.leaf h items) = true → InR lo hi k →
    ∃ h', f (.leaf h items) = some (.leaf h' (g items)) ∧ h'.mat = true ∧ h'.key = h.key ∧
      h'.pgid = h.pgid ∧ inTxN root true lo hi (.leaf h' (g items)) = true

/-- `g` only looks at the part of a sorted list around `k` -/
def Loc (k : Bytes) (g : List Item → List Item) : Prop :=
  ∀ A B C : List Item, (∀ x ∈ A, Bytes.lt x.key k = true) → (∀ x ∈ C, Bytes.lt k x.key = true) →
    g (A ++ B ++ C) = A ++ g B ++ C

theorem modify_ok (k : Bytes) (f : N → Option N) (g : List Item → List Item)
    (hf : LeafOK k f g) (hg : Loc k g) : ∀ (fuel : Nat) (n : N) (root pmat : Bool) (lo hi : Option Bytes),
    depth n ≤ fuel → inTxN root pmat lo hi n = true → InR lo hi k →
    ∃ n', modifyAt f (searchPath k fuel n) n = some n' ∧ inTxN root true lo hi n' = true ∧
      sepOf n' = sepOf n ∧ depth n' = depth n ∧ flatten n' = g (flatten n)
  | 0, n, _, _, _, _, hd, _, _ => by have := depth_pos n; omega
  | fuel+1, .leaf h items, root, pmat, lo, hi, hd, hn, hk => by
    rw [searchPath_leaf, modifyAt_nil, materialize_leaf]
    have hn' : inTxN root true lo hi (.leaf (mhd h (N.leaf h items).firstKey) items) = true := by
      rw [inTxN_leaf] at hn ⊢
      refine ⟨mhd_ok .., ?_, hn.2.2⟩
      rcases hn.2.1 with h1 | h1 | h1
      · exact Or.inl h1
      · exact Or.inr (Or.inl h1)
      · refine Or.inr (Or.inr ?_)
        unfold mhd; rw [if_pos h1.1]; exact h1
    obtain ⟨h', e, hm, hkey, _, hin⟩ := hf root lo hi _ items (mhd_mat ..) hn' hk
    refine ⟨_, e, hin, ?_, ?_, ?_⟩
    · rw [sepOf_leaf, sepOf_leaf, if_pos hm, hkey, mhd_key]
    · rw [depth_leaf, depth_leaf]
    · rw [flatten_leaf, flatten_leaf]
  | fuel+1, .branch h kids, root, pmat, lo, hi, hd, hn, hk => by
    obtain ⟨s, c, hget, hc, hkc, hsep, hdc, hA, hC⟩ := branch_step hn hk _ rfl
    have hdc' : depth c ≤ fuel := by
      have := depth_le_depthKids kids _ s c hget
      rw [depth_branch] at hd; omega
    obtain ⟨c', e, hin, hs', hd', hfl⟩ := modify_ok k f g hf hg fuel c false h.mat _ _ hdc' hc hkc
    rw [searchPath_branch k fuel h kids s c hget, modifyAt_branch f _ _ h kids s c hget, e]
    refine ⟨_, rfl, ?_, ?_, ?_, ?_⟩
    · obtain ⟨_, hlen, hs, hr, hkids⟩ := (inTxN_branch ..).mp hn
      rw [inTxN_branch]
      refine ⟨mhd_ok .., by rw [List.length_set]; exact hlen, ?_, ?_, ?_⟩
      · rw [← sortedKeys_kids] at hs ⊢
        have : (kids.set (branchIdx (kids.map (·.1)) k) (s, c')).map (·.1) = kids.map (·.1) := by
          apply List.ext_getElem?; intro j
          rw [List.getElem?_map, List.getElem?_map]
          exact getElem?_set_fst kids _ j s c c' hget
        rw [this]; exact hs
      · intro p hp
        rcases List.mem_or_eq_of_mem_set hp with hp | hp
        · exact hr p hp
        · subst hp; exact hr (s, c) (List.mem_of_getElem? hget)
      · rw [mhd_mat, head_depth_set kids _ s c c' hget hd']
        apply inTxKids_set kids h.mat lo hi _ _ s c c' hkids hget
        · rw [hs']; exact hsep
        · rw [hd']; exact hdc
        · exact hin
    · rw [sepOf_branch, sepOf_branch, mhd_mat, if_pos rfl, mhd_key]
    · rw [depth_branch, depth_branch, depthKids_set kids _ s c c' hget hd']
    · rw [flatten_branch, flatten_branch, flattenKids_set c' hget, flattenKids_split hget, hfl]
      exact (hg _ _ _ hA hC).symm

/-! ### the list operations are local -/

theorem insSorted_lt_append (it : Item) : ∀ (A X : List Item), (∀ x ∈ A, Bytes.lt x.key it.key = true) →
    insSorted it (A ++ X) = A ++ insSorted it X
  | [], X, _ => rfl
  | a :: A, X, h => by
    have ha := h a (List.mem_cons_self ..)
    have h1 : (it.key == a.key) = false := by
      simp only [beq_eq_false_iff_ne, ne_eq]; exact fun e => Bytes.lt_ne ha e.symm
    have h2 : ¬ Bytes.lt it.key a.key = true := by rw [Bytes.lt_asymm ha]; exact Bool.noConfusion
    rw [List.cons_append, insSorted_cons, h1, if_neg h2,
      insSorted_lt_append it A X (fun x hx => h x (List.mem_cons_of_mem _ hx))]
    simp

theorem insSorted_gt (it : Item) : ∀ (C : List Item), (∀ x ∈ C, Bytes.lt it.key x.key = true) →
    insSorted it C = it :: C
  | [], _ => by simp [insSorted]
  | c :: C, h => by
    have hc := h c (List.mem_cons_self ..)
    have h1 : (it.key == c.key) = false := by
      simp only [beq_eq_false_iff_ne, ne_eq]; exact Bytes.lt_ne hc
    rw [insSorted_cons, h1, if_pos hc]; simp

theorem insSorted_append_gt (it : Item) : ∀ (B C : List Item), (∀ x ∈ C, Bytes.lt it.key x.key = true) →
    insSorted it (B ++ C) = insSorted it B ++ C
  | [], C, h => by rw [List.nil_append, insSorted_gt it C h]; simp [insSorted]
  | b :: B, C, h => by
    rw [List.cons_append, insSorted_cons, insSorted_cons, insSorted_append_gt it B C h]
    split
    · rfl
    · split <;> rfl

theorem loc_insSorted (it : Item) : Loc it.key (insSorted it) := by
  intro A B C hA hC
  rw [List.append_assoc, insSorted_lt_append it A _ hA, insSorted_append_gt it B C hC, List.append_assoc]

theorem filter_lt (k : Bytes) (r : List Item) (h : ∀ y ∈ r, Bytes.lt y.key k = true) :
    r.filter (fun i => !(i.key == k)) = r := by
  apply List.filter_eq_self.mpr
  intro y hy
  have := Bytes.lt_ne (h y hy)
  simp only [Bool.not_eq_true', beq_eq_false_iff_ne, ne_eq]
  exact this

theorem loc_filter (k : Bytes) : Loc k (fun l => l.filter (fun i => !(i.key == k))) := by
  intro A B C hA hC
  simp only [List.filter_append, filter_lt k A hA, filter_gt k C hC]

theorem find_loc (k : Bytes) (A B C : List Item) (hA : ∀ x ∈ A, Bytes.lt x.key k = true)
    (hC : ∀ x ∈ C, Bytes.lt k x.key = true) :
    (A ++ B ++ C).find? (fun i => i.key == k) = B.find? (fun i => i.key == k) := by
  rw [List.append_assoc, List.find?_append, find_lt k A hA, Option.none_or, List.find?_append,
    find_gt k C hC, Option.or_none]

/-! ### the leaf operations -/

theorem leafOK_put (k v : Bytes) (hk : k ≠ []) :
    LeafOK k (leafPut k v) (insSorted { key := k, val := v, flags := 0 }) := by
  intro root lo hi h items hm hn hr
  refine ⟨h, leafPut_eq k v h items, hm, rfl, rfl, ?_⟩
  rw [inTxN_leaf] at hn ⊢
  obtain ⟨h1, _, h3, h4⟩ := hn
  refine ⟨h1, Or.inr (Or.inl ?_), insSorted_sorted _ items h3, ?_⟩
  · intro e
    have := insSorted_find_same { key := k, val := v, flags := 0 } items
    rw [e] at this; simp at this
  · intro x hx
    rcases insSorted_mem _ items x hx with rfl | hx
    · exact ⟨hk, hr⟩
    · exact h4 x hx

theorem leafDel_eq (k : Bytes) (h : Hd) (items : List Item) (hs : SortedI items) :
    ∃ h', leafDel k (.leaf h items) = some (.leaf h' (items.filter (fun i => !(i.key == k)))) ∧
      ((h' = h ∧ items.filter (fun i => !(i.key == k)) = items) ∨ h' = { h with unb := true }) := by
  have hd := delItems_eq k items hs
  unfold delItems at hd
  unfold leafDel
  simp only
  by_cases hc : (items[lowerBound (items.map (·.key)) k]?.map (·.key)) = some k
  · rw [if_pos hc] at hd ⊢
    rw [← hd]; exact ⟨_, rfl, Or.inr rfl⟩
  · rw [if_neg hc] at hd ⊢
    rw [← hd]; exact ⟨_, rfl, Or.inl ⟨rfl, rfl⟩⟩

theorem leafOK_del (k : Bytes) : LeafOK k (leafDel k) (fun l => l.filter (fun i => !(i.key == k))) := by
  intro root lo hi h items hm hn hr
  have hn0 := hn
  rw [inTxN_leaf] at hn
  obtain ⟨h1, h2, h3, h4⟩ := hn
  obtain ⟨h', e, hh⟩ := leafDel_eq k h items h3
  rcases hh with ⟨rfl, hfil⟩ | rfl
  · refine ⟨h', e, hm, rfl, rfl, ?_⟩
    simp only [hfil]; exact hn0
  · refine ⟨_, e, hm, rfl, rfl, ?_⟩
    rw [inTxN_leaf]
    refine ⟨⟨fun _ => hm, fun _ => rfl⟩, Or.inr (Or.inr ⟨hm, rfl⟩), List.Pairwise.filter _ h3, ?_⟩
    exact fun x hx => h4 x (List.mem_filter.mp hx).1

/-! ### `seek` finds the only place the key can be -/

theorem seekItem_leaf (k : Bytes) (fuel : Nat) (h : Hd) (items : List Item) :
    seekItem k (fuel+1) (.leaf h items) = items[lowerBound (items.map (·.key)) k]? := by
  unfold seekItem; rw [searchPath_leaf]; rfl

theorem seekItem_branch (k : Bytes) (fuel : Nat) (h : Hd) (kids : List (Bytes × N)) (s : Bytes) (c : N)
    (hg : kids[branchIdx (kids.map (·.1)) k]? = some (s, c)) :
    seekItem k (fuel+1) (.branch h kids) = seekItem k fuel c := by
  unfold seekItem; rw [searchPath_branch k fuel h kids s c hg, nodeAt, hg]; rfl

theorem seek_find (k : Bytes) : ∀ (fuel : Nat) (n : N) (root pmat : Bool) (lo hi : Option Bytes),
    depth n ≤ fuel → inTxN root pmat lo hi n = true → InR lo hi k →
    (flatten n).find? (fun i => i.key == k) = (seekItem k fuel n).filter (fun i => i.key == k)
  | 0, n, _, _, _, _, hd, _, _ => by have := depth_pos n; omega
  | fuel+1, .leaf h items, root, pmat, lo, hi, hd, hn, hk => by
    rw [seekItem_leaf, flatten_leaf]
    exact find_items k items ((inTxN_leaf ..).mp hn).2.2.1
  | fuel+1, .branch h kids, root, pmat, lo, hi, hd, hn, hk => by
    obtain ⟨s, c, hget, hc, hkc, _, _, hA, hC⟩ := branch_step hn hk _ rfl
    have hdc' : depth c ≤ fuel := by
      have := depth_le_depthKids kids _ s c hget
      rw [depth_branch] at hd; omega
    rw [seekItem_branch k fuel h kids s c hget, flatten_branch, flattenKids_split hget,
      find_loc k _ _ _ hA hC]
    exact seek_find k fuel c false h.mat _ _ hdc' hc hkc

theorem filter_of_find_none (k : Bytes) (l : List Item) (h : l.find? (fun i => i.key == k) = none) :
    l.filter (fun i => !(i.key == k)) = l := by
  apply List.filter_eq_self.mpr
  intro y hy
  have := List.find?_eq_none.mp h y hy
  simpa using this

/-! ### `Put` and `Delete` -/

theorem inR_none (k : Bytes) : InR none none k := ⟨rfl, rfl⟩

theorem putT_ok (fuel : Nat) (t : N) (k v : Bytes) (hi : InTx t) (hk : k ≠ []) (hf : depth t ≤ fuel) :
    ∃ t', putT fuel t k v = some t' ∧ InTx t' ∧ depth t' = depth t ∧
      flatten t' = specPut (flatten t) k v := by
  have hseek := seek_find k fuel t true true none none hf hi (inR_none k)
  have hmod := modify_ok k (leafPut k v) (insSorted { key := k, val := v, flags := 0 })
    (leafOK_put k v hk) (loc_insSorted { key := k, val := v, flags := 0 }) fuel t true true none none hf hi
    (inR_none k)
  obtain ⟨t', e, hin, _, hd, hfl⟩ := hmod
  unfold putT specPut isBucketAt
  rw [hseek]
  cases hs : seekItem k fuel t with
  | none =>
    simp only [Option.filter_none, Option.any_none, Bool.false_eq_true, if_false]
    exact ⟨t', e, hin, hd, hfl⟩
  | some it =>
    simp only
    by_cases hc : it.key = k ∧ it.flags % 2 = 1
    · rw [if_pos hc]
      refine ⟨t, rfl, hi, rfl, ?_⟩
      simp [Option.filter, hc.1, hc.2]
    · rw [if_neg hc]
      refine ⟨t', e, hin, hd, ?_⟩
      rw [hfl]
      by_cases h1 : it.key = k
      · have : ¬ it.flags % 2 = 1 := fun h2 => hc ⟨h1, h2⟩
        simp [Option.filter, h1, this]
      · simp [Option.filter, h1]

theorem delT_ok (fuel : Nat) (t : N) (k : Bytes) (hi : InTx t) (hf : depth t ≤ fuel) :
    ∃ t', delT fuel t k = some t' ∧ InTx t' ∧ depth t' = depth t ∧
      flatten t' = specDel (flatten t) k := by
  have hseek := seek_find k fuel t true true none none hf hi (inR_none k)
  have hmod := modify_ok k (leafDel k) (fun l => l.filter (fun i => !(i.key == k)))
    (leafOK_del k) (loc_filter k) fuel t true true none none hf hi (inR_none k)
  obtain ⟨t', e, hin, _, hd, hfl⟩ := hmod
  unfold delT specDel isBucketAt
  rw [hseek]
  cases hs : seekItem k fuel t with
  | none =>
    simp only [Option.filter_none, Option.any_none, Bool.false_eq_true, if_false]
    refine ⟨t, rfl, hi, rfl, ?_⟩
    rw [hs] at hseek
    exact (filter_of_find_none k _ hseek).symm
  | some it =>
    simp only
    rw [hs] at hseek
    by_cases hc : it.key = k ∧ it.flags % 2 = 0
    · rw [if_pos hc]
      refine ⟨t', e, hin, hd, ?_⟩
      rw [hfl]
      have : ¬ it.flags % 2 = 1 := by omega
      simp [Option.filter, hc.1, this]
    · rw [if_neg hc]
      refine ⟨t, rfl, hi, rfl, ?_⟩
      by_cases h1 : it.key = k
      · have : it.flags % 2 = 1 := by
          have : ¬ it.flags % 2 = 0 := fun h2 => hc ⟨h1, h2⟩
          omega
        simp [Option.filter, h1, this]
      · have : (flatten t).find? (fun i => i.key == k) = none := by
          rw [hseek]; simp [Option.filter, h1]
        simp [Option.filter, h1, filter_of_find_none k _ this]

theorem applyOp_ok (fuel : Nat) (t : N) (o : Op) (hi : InTx t) (hk : o.ok) (hf : depth t ≤ fuel) :
    ∃ t', applyOp fuel t o = some t' ∧ InTx t' ∧ depth t' = depth t ∧
      flatten t' = specOp (flatten t) o := by
  cases o with
  | put k v => exact putT_ok fuel t k v hi hk hf
  | del k => exact delT_ok fuel t k hi hf

theorem applyOps_ok (fuel : Nat) : ∀ (ops : List Op) (t : N), InTx t → (∀ o ∈ ops, o.ok) → depth t ≤ fuel →
    ∃ t1, applyOps fuel t ops = some t1 ∧ InTx t1 ∧ depth t1 = depth t ∧
      flatten t1 = specOps (flatten t) ops
  | [], t, hi, _, _ => ⟨t, rfl, hi, rfl, rfl⟩
  | o :: os, t, hi, hk, hf => by
    obtain ⟨t', e, hin, hd, hfl⟩ := applyOp_ok fuel t o hi (hk o (List.mem_cons_self ..)) hf
    obtain ⟨t1, e1, hin1, hd1, hfl1⟩ := applyOps_ok fuel os t' hin
      (fun o' ho' => hk o' (List.mem_cons_of_mem _ ho')) (by omega)
    refine ⟨t1, ?_, hin1, by omega, ?_⟩
    · rw [applyOps, e]; exact e1
    · rw [hfl1, hfl]; rfl

/-! ### page ids -/

theorem materialize_pgids : ∀ n : N, pgids (materialize n) = pgids n
  | .leaf h items => by rw [materialize_leaf, pgids_leaf, pgids_leaf, mhd_pgid]
  | .branch h kids => by rw [materialize_branch, pgids_branch, pgids_branch, mhd_pgid]

theorem modifyAt_pgids (f : N → Option N) (hf : ∀ n n', f n = some n' → pgids n' = pgids n) :
    ∀ (path : List Nat) (n n' : N), modifyAt f path n = some n' → pgids n' = pgids n
  | [], n, n', h => by
    rw [modifyAt_nil] at h
    rw [hf _ _ h, materialize_pgids]
  | i :: rest, .leaf hd items, n', h => by
    rw [modifyAt, materialize_leaf] at h; cases h
  | i :: rest, .branch hd kids, n', h => by
    cases hg : kids[i]? with
    | none =>
      rw [modifyAt, materialize_branch] at h; simp only [hg] at h; cases h
    | some p =>
      obtain ⟨s, c⟩ := p
      rw [modifyAt_branch f i rest hd kids s c hg] at h
      obtain ⟨c', hc', rfl⟩ := Option.map_eq_some_iff.mp h
      have := modifyAt_pgids f hf rest c c' hc'
      rw [pgids_branch, pgids_branch, mhd_pgid, pgidsKids_set kids i s c c' hg this]

theorem leafPut_pgids (k v : Bytes) : ∀ n n', leafPut k v n = some n' → pgids n' = pgids n
  | .leaf h items, n', e => by
    rw [leafPut_eq] at e; cases e; rw [pgids_leaf, pgids_leaf]
  | .branch _ _, n', e => by simp [leafPut] at e

theorem leafDel_pgids (k : Bytes) : ∀ n n', leafDel k n = some n' → pgids n' = pgids n
  | .leaf h items, n', e => by
    unfold leafDel at e
    simp only at e
    split at e <;> (cases e; first | rfl | simp only [pgids_leaf])
  | .branch _ _, n', e => by simp [leafDel] at e

theorem putT_pgids (fuel : Nat) (t t' : N) (k v : Bytes) (h : putT fuel t k v = some t') :
    pgids t' = pgids t := by
  unfold putT at h
  split at h
  · split at h
    · cases h; rfl
    · exact modifyAt_pgids _ (leafPut_pgids k v) _ _ _ h
  · exact modifyAt_pgids _ (leafPut_pgids k v) _ _ _ h

theorem delT_pgids (fuel : Nat) (t t' : N) (k : Bytes) (h : delT fuel t k = some t') :
    pgids t' = pgids t := by
  unfold delT at h
  split at h
  · split at h
    · exact modifyAt_pgids _ (leafDel_pgids k) _ _ _ h
    · cases h; rfl
  · cases h; rfl

theorem applyOps_pgids (fuel : Nat) : ∀ (ops : List Op) (t t1 : N), applyOps fuel t ops = some t1 →
    pgids t1 = pgids t
  | [], t, t1, h => by rw [applyOps] at h; cases h; rfl
  | o :: os, t, t1, h => by
    rw [applyOps] at h
    obtain ⟨t', e1, e2⟩ := Option.bind_eq_some_iff.mp h
    rw [applyOps_pgids fuel os t' t1 e2]
    cases o with
    | put k v => exact putT_pgids fuel t t' k v e1
    | del k => exact delT_pgids fuel t t' k e1

/-! ### a committed tree -/

theorem committedN_leaf (root : Bool) (h : Hd) (items : List Item) :
    committedN root (.leaf h items) = true ↔
      h.mat = false ∧ h.unb = false ∧ (root = true ∨ items ≠ []) ∧ SortedI items ∧
      ∀ x ∈ items, x.key ≠ [] := by
  rw [committedN, ← sortedKeys_items]
  simp only [Bool.and_eq_true, Bool.or_eq_true, Bool.not_eq_true', List.all_eq_true,
    List.isEmpty_eq_false_iff, ne_eq, List.isEmpty_iff, and_assoc]

theorem committedN_branch (root : Bool) (h : Hd) (kids : List (Bytes × N)) :
    committedN root (.branch h kids) = true ↔
      h.mat = false ∧ h.unb = false ∧ 2 ≤ kids.length ∧ SortedK kids ∧
      committedKids kids ((kids.head?.map (fun p => depth p.2)).getD 0) = true := by
  rw [committedN, ← sortedKeys_kids]
  simp only [Bool.and_eq_true, Bool.not_eq_true', decide_eq_true_eq, and_assoc]

theorem committedKids_cons (s : Bytes) (c : N) (r : List (Bytes × N)) (d : Nat) :
    committedKids ((s, c) :: r) d = true ↔
      s = c.firstKey ∧ depth c = d ∧ committedN false c = true ∧ committedKids r d = true := by
  rw [committedKids]
  simp only [Bool.and_eq_true, beq_iff_eq, and_assoc]

theorem committedN_hd : ∀ (root : Bool) (n : N), committedN root n = true → n.hd.mat = false
  | _, .leaf _ _, hc => ((committedN_leaf ..).mp hc).1
  | _, .branch _ _, hc => ((committedN_branch ..).mp hc).1

mutual
/-- a committed non-root node is not empty and its first key is the first key below it -/
theorem committedN_head : ∀ n : N, committedN false n = true →
    ∃ x rest, flatten n = x :: rest ∧ x.key = n.firstKey
  | .leaf h items, hc => by
    obtain ⟨_, _, h3, _, _⟩ := (committedN_leaf ..).mp hc
    cases items with
    | nil => rcases h3 with h3 | h3 <;> simp at h3
    | cons x rest => exact ⟨x, rest, flatten_leaf .., rfl⟩
  | .branch h kids, hc => by
    obtain ⟨_, _, h3, _, h5⟩ := (committedN_branch ..).mp hc
    obtain ⟨x, rest, e1, e2⟩ := committedKids_head kids _ (by intro e; rw [e] at h3; simp at h3) h5
    exact ⟨x, rest, by rw [flatten_branch, e1], e2⟩
theorem committedKids_head : ∀ (kids : List (Bytes × N)) (d : Nat), kids ≠ [] → committedKids kids d = true →
    ∃ x rest, flattenKids kids = x :: rest ∧ x.key = (kids.head?.map (·.1)).getD []
  | [], _, h, _ => absurd rfl h
  | (s, c) :: r, d, _, hc => by
    obtain ⟨h1, _, h3, _⟩ := (committedKids_cons ..).mp hc
    obtain ⟨x, rest, e1, e2⟩ := committedN_head c h3
    exact ⟨x, rest ++ flattenKids r, by rw [flattenKids_cons, e1]; rfl, by rw [e2, h1]; rfl⟩
end

mutual
theorem committedN_keys : ∀ (n : N) (root : Bool), committedN root n = true → ∀ x ∈ flatten n, x.key ≠ []
  | .leaf h items, root, hc, x, hx => by
    rw [flatten_leaf] at hx
    exact ((committedN_leaf ..).mp hc).2.2.2.2 x hx
  | .branch h kids, root, hc, x, hx => by
    rw [flatten_branch] at hx
    exact committedKids_keys kids _ ((committedN_branch ..).mp hc).2.2.2.2 x hx
theorem committedKids_keys : ∀ (kids : List (Bytes × N)) (d : Nat), committedKids kids d = true →
    ∀ x ∈ flattenKids kids, x.key ≠ []
  | [], _, _, x, hx => by rw [flattenKids_nil] at hx; cases hx
  | (s, c) :: r, d, hc, x, hx => by
    obtain ⟨_, _, h3, h4⟩ := (committedKids_cons ..).mp hc
    rw [flattenKids_cons, List.mem_append] at hx
    rcases hx with hx | hx
    · exact committedN_keys c false h3 x hx
    · exact committedKids_keys r d h4 x hx
end

/-- every separator of a committed branch is a key stored below it -/
theorem committedKids_sep : ∀ (kids : List (Bytes × N)) (d : Nat), committedKids kids d = true →
    ∀ p ∈ kids, ∃ x ∈ flattenKids kids, x.key = p.1
  | [], _, _, p, hp => by cases hp
  | (s, c) :: r, d, hc, p, hp => by
    obtain ⟨h1, _, h3, h4⟩ := (committedKids_cons ..).mp hc
    rw [flattenKids_cons]
    rcases List.mem_cons.mp hp with rfl | hp
    · obtain ⟨x, rest, e1, e2⟩ := committedN_head c h3
      exact ⟨x, by rw [e1]; simp, by rw [e2, h1]⟩
    · obtain ⟨x, hx, e⟩ := committedKids_sep r d h4 p hp
      exact ⟨x, List.mem_append_right _ hx, e⟩

mutual
theorem committedN_inTx : ∀ (n : N) (root pmat : Bool) (lo hi : Option Bytes),
    committedN root n = true → SortedI (flatten n) → (∀ x ∈ flatten n, InR lo hi x.key) →
    inTxN root pmat lo hi n = true
  | .leaf h items, root, pmat, lo, hi, hc, hs, hr => by
    obtain ⟨h1, h2, h3, h4, h5⟩ := (committedN_leaf ..).mp hc
    rw [flatten_leaf] at hs hr
    rw [inTxN_leaf]
    refine ⟨⟨?_, ?_⟩, ?_, hs, fun x hx => ⟨h5 x hx, hr x hx⟩⟩
    · intro hu; rw [h2] at hu; cases hu
    · intro hm; rw [h1] at hm; cases hm
    · rcases h3 with h3 | h3
      · exact Or.inl h3
      · exact Or.inr (Or.inl h3)
  | .branch h kids, root, pmat, lo, hi, hc, hs, hr => by
    obtain ⟨h1, h2, h3, h4, h5⟩ := (committedN_branch ..).mp hc
    rw [flatten_branch] at hs hr
    rw [inTxN_branch]
    refine ⟨⟨?_, ?_⟩, h3, h4, ?_, ?_⟩
    · intro hu; rw [h2] at hu; cases hu
    · intro hm; rw [h1] at hm; cases hm
    · intro p hp
      obtain ⟨x, hx, e⟩ := committedKids_sep kids _ h5 p hp
      rw [← e]
      exact ⟨committedKids_keys kids _ h5 x hx, hr x hx⟩
    · rw [h1]
      exact committedKids_inTx kids _ lo hi h5 hs hr
theorem committedKids_inTx : ∀ (kids : List (Bytes × N)) (d : Nat) (lo hi : Option Bytes),
    committedKids kids d = true → SortedI (flattenKids kids) → (∀ x ∈ flattenKids kids, InR lo hi x.key) →
    inTxKids false lo hi kids d = true
  | [], _, _, _, _, _, _ => inTxKids_nil ..
  | (s, c) :: r, d, lo, hi, hc, hs, hr => by
    obtain ⟨h1, h2, h3, h4⟩ := (committedKids_cons ..).mp hc
    rw [flattenKids_cons] at hs hr
    obtain ⟨hs1, hs2, hs3⟩ := List.pairwise_append.mp hs
    rw [inTxKids_cons]
    refine ⟨?_, h2, ?_, ?_⟩
    · unfold sepOf; rw [committedN_hd false c h3]; exact h1
    · apply committedN_inTx c false false lo _ h3 hs1
      intro x hx
      refine ⟨(hr x (List.mem_append_left _ hx)).1, ?_⟩
      cases r with
      | nil => exact (hr x (List.mem_append_left _ hx)).2
      | cons q r' =>
        obtain ⟨y, rest, e1, e2⟩ := committedKids_head (q :: r') d (by simp) h4
        simp only [List.head?_cons, Option.map_some, Option.getD_some] at e2
        simp only [List.head?_cons, Option.map_some, Option.orElse_some, ltHi_some]
        rw [← e2]
        exact hs3 x hx y (by rw [e1]; simp)
    · apply committedKids_inTx r d _ hi h4 hs2
      intro x hx
      refine ⟨?_, (hr x (List.mem_append_right _ hx)).2⟩
      cases r with
      | nil => rw [flattenKids_nil] at hx; cases hx
      | cons q r' =>
        obtain ⟨y, rest, e1, e2⟩ := committedKids_head (q :: r') d (by simp) h4
        simp only [List.head?_cons, Option.map_some, Option.getD_some] at e2
        simp only [List.head?_cons, Option.map_some, geLo_some]
        rw [← e2]
        rw [e1] at hx hs2
        rcases List.mem_cons.mp hx with rfl | hx
        · exact Bytes.lt_irrefl _
        · exact Bytes.lt_asymm ((List.pairwise_cons.mp hs2).1 x hx)
end

theorem committed_inTx (t : N) (h : Committed t) : InTx t :=
  committedN_inTx t true true none none h.1 ((sortedKeys_items _).mp h.2) (fun x _ => inR_none x.key)

/-! ### nothing to do: nothing is rewritten -/

theorem findMat_page (pg fuel : Nat) (t : N) (h : t.hd.mat = false) : findMat pg fuel t = none := by
  cases fuel with
  | zero => rw [findMat]
  | succ f => rw [findMat.eq_def]; simp [h]

theorem rebalanceAll_page (th fuel : Nat) (t : N) (h : t.hd.mat = false) :
    ∀ order : List Nat, rebalanceAll th fuel t order = some t
  | [] => by rw [rebalanceAll]
  | pg :: rest => by
    rw [rebalanceAll, findMat_page pg fuel t h]
    exact rebalanceAll_page th fuel t h rest

theorem commit_nil (ps sth rth fuel : Nat) (t : N) (order : List Nat) (h : t.hd.mat = false) :
    commit ps sth rth fuel t [] order = some t := by
  unfold commit
  rw [applyOps, Option.bind_some, rebalanceAll_page rth fuel t h order, Option.bind_some]
  unfold spillRoot
  simp [h]

/-! ### the specification keeps a sorted list sorted and grows by at most one item per call -/

theorem specOp_sorted (l : List Item) (o : Op) (h : SortedI l) : SortedI (specOp l o) := by
  cases o with
  | put k v =>
    simp only [specOp, specPut]
    split
    · exact h
    · exact insSorted_sorted _ l h
  | del k =>
    simp only [specOp, specDel]
    split
    · exact h
    · exact List.Pairwise.filter _ h

theorem specOps_sorted : ∀ (ops : List Op) (l : List Item), SortedI l → SortedI (specOps l ops)
  | [], _, h => h
  | o :: os, l, h => by
    unfold specOps; rw [List.foldl_cons]
    exact specOps_sorted os _ (specOp_sorted l o h)

theorem specOp_length (l : List Item) (o : Op) : (specOp l o).length ≤ l.length + 1 := by
  cases o with
  | put k v =>
    simp only [specOp, specPut]
    split
    · omega
    · exact insSorted_length _ l
  | del k =>
    simp only [specOp, specDel]
    split
    · omega
    · exact Nat.le_trans (List.length_filter_le ..) (Nat.le_succ _)

theorem specOps_length : ∀ (ops : List Op) (l : List Item), (specOps l ops).length ≤ l.length + ops.length
  | [], _ => Nat.le_refl _
  | o :: os, l => by
    unfold specOps; rw [List.foldl_cons]
    have h1 := specOps_length os (specOp l o)
    have h2 := specOp_length l o
    unfold specOps at h1
    rw [List.length_cons]; omega

end Bolt.BTree.OpsL
