import Bolt.Model.Encode
import Bolt.Model.BTreeInv
import Bolt.Lemmas.Encode
namespace Bolt.FormatTreeL
open Bolt Bolt.BTree

end Bolt.FormatTreeL
