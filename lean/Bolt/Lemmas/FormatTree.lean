/-
Helper lemmas for `Bolt.Props.C12Tree`: the independent reader of `Model/Format.lean` on a page
image that sits at an arbitrary offset of a larger file (locality + shift of `File.read`), the
single-node steps of `decodeTree`, and the twins `bytesLt`/`keysAscending` of the tree order.
-/
import Bolt.Model.Encode
import Bolt.Model.BTreeInv
import Bolt.Lemmas.Encode
import Bolt.Lemmas.BTreeOps
namespace Bolt.FormatTreeL
open Bolt Bolt.BTree Bolt.Enc

/-! ### locality + shift -/

/-- `f` read from `base` on looks like `g` read from 0 on, for `span` bytes -/
def Agree (f g : File) (base span : Nat) : Prop := ∀ j, j < span → f.get (base + j) = g.get j

theorem read_at {f g : File} {base span : Nat} (h : Agree f g base span) {a b : Nat} (n : Nat)
    (ha : a = base + b) (hb : b + n ≤ span) : f.read a n = g.read b n := by
  subst ha
  unfold File.read
  apply List.map_congr_left
  intro j hj
  have := List.mem_range.mp hj
  rw [Nat.add_assoc]
  exact h (b + j) (by omega)

theorem u16_at {f g : File} {base span : Nat} (h : Agree f g base span) {a b : Nat}
    (ha : a = base + b) (hb : b + 2 ≤ span) : f.u16 a = g.u16 b := by
  unfold File.u16; rw [read_at h 2 ha hb]

theorem u32_at {f g : File} {base span : Nat} (h : Agree f g base span) {a b : Nat}
    (ha : a = base + b) (hb : b + 4 ≤ span) : f.u32 a = g.u32 b := by
  unfold File.u32; rw [read_at h 4 ha hb]

theorem u64_at {f g : File} {base span : Nat} (h : Agree f g base span) {a b : Nat}
    (ha : a = base + b) (hb : b + 8 ≤ span) : f.u64 a = g.u64 b := by
  unfold File.u64; rw [read_at h 8 ha hb]

/-- the page header only reads the 16 bytes at `base` -/
theorem pageHdrAt_at {f g : File} {base span : Nat} (h : Agree f g base span) (hs : 16 ≤ span) :
    pageHdrAt f base = pageHdrAt g 0 := by
  unfold pageHdrAt
  rw [u64_at h (a := base) (b := 0) (by omega) (by omega),
      u16_at h (a := base + 8) (b := 0 + 8) (by omega) (by omega),
      u16_at h (a := base + 10) (b := 0 + 10) (by omega) (by omega),
      u32_at h (a := base + 12) (b := 0 + 12) (by omega) (by omega)]

theorem leafElemAt_eq (f : File) (base limit i : Nat) :
    leafElemAt f base limit i =
      if base + 16 + 16 * i + 16 > limit then none else
      if base + 16 + 16 * i + f.u32 (base + 16 + 16 * i + 4) + f.u32 (base + 16 + 16 * i + 8) +
          f.u32 (base + 16 + 16 * i + 12) > limit then none else
      some { flags := f.u32 (base + 16 + 16 * i),
             key := f.read (base + 16 + 16 * i + f.u32 (base + 16 + 16 * i + 4))
                      (f.u32 (base + 16 + 16 * i + 8)),
             val := f.read (base + 16 + 16 * i + f.u32 (base + 16 + 16 * i + 4) +
                      f.u32 (base + 16 + 16 * i + 8)) (f.u32 (base + 16 + 16 * i + 12)) } := rfl

theorem branchElemAt_eq (f : File) (base limit i : Nat) :
    branchElemAt f base limit i =
      if base + 16 + 16 * i + 16 > limit then none else
      if base + 16 + 16 * i + f.u32 (base + 16 + 16 * i) + f.u32 (base + 16 + 16 * i + 4) > limit
        then none else
      some { key := f.read (base + 16 + 16 * i + f.u32 (base + 16 + 16 * i))
                      (f.u32 (base + 16 + 16 * i + 4)),
             pgid := f.u64 (base + 16 + 16 * i + 8) } := rfl

/-- a leaf element is read from `[base, limit)` only -/
theorem leafElemAt_at {f g : File} {base span : Nat} (h : Agree f g base span) (i : Nat) :
    leafElemAt f base (base + span) i = leafElemAt g 0 span i := by
  rw [leafElemAt_eq, leafElemAt_eq]
  simp only [Nat.zero_add]
  by_cases h1 : 16 + 16 * i + 16 > span
  · rw [if_pos (by omega), if_pos h1]
  · rw [if_neg (by omega), if_neg h1]
    rw [u32_at h (a := base + 16 + 16 * i) (b := 16 + 16 * i) (by omega) (by omega),
        u32_at h (a := base + 16 + 16 * i + 4) (b := 16 + 16 * i + 4) (by omega) (by omega),
        u32_at h (a := base + 16 + 16 * i + 8) (b := 16 + 16 * i + 8) (by omega) (by omega),
        u32_at h (a := base + 16 + 16 * i + 12) (b := 16 + 16 * i + 12) (by omega) (by omega)]
    generalize g.u32 (16 + 16 * i + 4) = pos
    generalize g.u32 (16 + 16 * i + 8) = ks
    generalize g.u32 (16 + 16 * i + 12) = vs
    by_cases h2 : 16 + 16 * i + pos + ks + vs > span
    · rw [if_pos (by omega), if_pos h2]
    · rw [if_neg (by omega), if_neg h2]
      rw [read_at h (a := base + 16 + 16 * i + pos) (b := 16 + 16 * i + pos) ks (by omega) (by omega),
          read_at h (a := base + 16 + 16 * i + pos + ks) (b := 16 + 16 * i + pos + ks) vs
            (by omega) (by omega)]

theorem branchElemAt_at {f g : File} {base span : Nat} (h : Agree f g base span) (i : Nat) :
    branchElemAt f base (base + span) i = branchElemAt g 0 span i := by
  rw [branchElemAt_eq, branchElemAt_eq]
  simp only [Nat.zero_add]
  by_cases h1 : 16 + 16 * i + 16 > span
  · rw [if_pos (by omega), if_pos h1]
  · rw [if_neg (by omega), if_neg h1]
    rw [u32_at h (a := base + 16 + 16 * i) (b := 16 + 16 * i) (by omega) (by omega),
        u32_at h (a := base + 16 + 16 * i + 4) (b := 16 + 16 * i + 4) (by omega) (by omega),
        u64_at h (a := base + 16 + 16 * i + 8) (b := 16 + 16 * i + 8) (by omega) (by omega)]
    generalize g.u32 (16 + 16 * i) = pos
    generalize g.u32 (16 + 16 * i + 4) = ks
    by_cases h2 : 16 + 16 * i + pos + ks > span
    · rw [if_pos (by omega), if_pos h2]
    · rw [if_neg (by omega), if_neg h2]
      rw [read_at h (a := base + 16 + 16 * i + pos) (b := 16 + 16 * i + pos) ks (by omega) (by omega)]

theorem leafElems_at {f g : File} {base span : Nat} (h : Agree f g base span) (count : Nat) :
    leafElems f base (base + span) count = leafElems g 0 span count := by
  unfold leafElems
  rw [funext (leafElemAt_at h)]

theorem branchElems_at {f g : File} {base span : Nat} (h : Agree f g base span) (count : Nat) :
    branchElems f base (base + span) count = branchElems g 0 span count := by
  unfold branchElems
  rw [funext (branchElemAt_at h)]

/-- a file that holds `img` at `base` agrees, over any span, with `img` padded by the file's own
    bytes -/
theorem agree_of_holds (f : File) (base span : Nat) (img : Bytes)
    (hold : ∀ i, i < img.length → f.get (base + i) = img.getD i 0) :
    Agree f (fileOf (img ++ f.read (base + img.length) (span - img.length))) base span := by
  intro j hj
  by_cases hji : j < img.length
  · rw [hold j hji]
    simp [fileOf, List.getD_eq_getElem?_getD, List.getElem?_append_left hji]
  · have hj' : j = img.length + (j - img.length) := by omega
    have hlt : j - img.length < (f.read (base + img.length) (span - img.length)).length := by
      rw [File.read_length]; omega
    conv => rhs; rw [hj']
    rw [fileOf_get_append _ _ _ hlt]
    simp only [File.read, List.getElem_map, List.getElem_range]
    congr 1
    omega

/-! ### the reader's order checks are the tree's order -/

theorem bytesLt_eq : ∀ a b : Bytes, bytesLt a b = Bytes.lt a b
  | [], [] => rfl
  | [], _ :: _ => rfl
  | _ :: _, [] => rfl
  | a :: as, b :: bs => by
    rw [bytesLt, Bytes.lt, bytesLt_eq as bs]

theorem keysAscending_eq : ∀ l : List Bytes, keysAscending l = sortedKeys l
  | [] => rfl
  | [_] => rfl
  | a :: b :: r => by
    rw [keysAscending, sortedKeys, bytesLt_eq, keysAscending_eq (b :: r)]

/-! ### plain leaf items -/

theorem decodeLeafItems_plain (f : File) (ps hwm fuel : Nat) : ∀ (es : List LeafElem) (ph : Phys),
    (∀ e ∈ es, e.flags % 2 = 0) →
    decodeLeafItems f ps hwm fuel es ph = (es.map (fun e => (e.key, SVal.val e.val)), ph)
  | [], ph, _ => by rw [decodeLeafItems]; rfl
  | e :: rest, ph, h => by
    have h0 : ¬ (e.flags % 2 = 1) := by
      have := h e (List.mem_cons_self ..); omega
    rw [decodeLeafItems]
    simp only [if_neg h0]
    rw [decodeLeafItems_plain f ps hwm fuel rest ph (fun x hx => h x (List.mem_cons_of_mem _ hx))]
    rfl

/-! ### single pages at an arbitrary offset -/

theorem leafData_mem_le : ∀ (es : List LeafElem) (e : LeafElem), e ∈ es →
    e.key.length + e.val.length ≤ (leafData es).length
  | x :: r, e, he => by
    simp only [leafData, List.length_append]
    rcases List.mem_cons.mp he with rfl | he
    · omega
    · have := leafData_mem_le r e he; omega

theorem branchData_mem_le : ∀ (es : List BranchElem) (e : BranchElem), e ∈ es →
    e.key.length ≤ (branchData es).length
  | x :: r, e, he => by
    simp only [branchData, List.length_append]
    rcases List.mem_cons.mp he with rfl | he
    · omega
    · have := branchData_mem_le r e he; omega

theorem leafPage_length (id ov : Nat) (es : List LeafElem) :
    (leafPage id ov es).length = 16 + 16 * es.length + (leafData es).length := by
  simp [leafPage, leafElemHeaders_length]; omega

theorem branchPage_length (id ov : Nat) (es : List BranchElem) :
    (branchPage id ov es).length = 16 + 16 * es.length + (branchData es).length := by
  simp [branchPage, branchElemHeaders_length]; omega

/-- header and elements of a leaf page image held at `base` -/
theorem leaf_at (f : File) (base span id ov : Nat) (es : List LeafElem)
    (hold : ∀ i, i < (leafPage id ov es).length → f.get (base + i) = (leafPage id ov es).getD i 0)
    (hid : id < 2^64) (hov : ov < 2^32) (hn : es.length < 0xFFFF) (hspan : span < 2^32)
    (hsz : (leafPage id ov es).length ≤ span) (hfl : ∀ e ∈ es, e.flags < 2^32) :
    pageHdrAt f base = { id := id, flags := V2.leafPageFlag, count := es.length, overflow := ov } ∧
    leafElems f base (base + span) es.length = some es := by
  have hag := agree_of_holds f base span _ hold
  rw [leafPage_length] at hsz
  constructor
  · rw [pageHdrAt_at hag (by omega)]
    have : leafPage id ov es ++ f.read (base + (leafPage id ov es).length) (span - (leafPage id ov es).length)
        = header id V2.leafPageFlag es.length ov ++ (leafElemHeaders 0 (16 + 16 * es.length) es ++
            (leafData es ++ f.read (base + (leafPage id ov es).length) (span - (leafPage id ov es).length))) := by
      simp [leafPage]
    rw [this]
    exact pageHdrAt_header id V2.leafPageFlag es.length ov _ hid (by decide) (by omega) hov
  · rw [leafElems_at hag]
    apply leafElems_leafPage
    refine ⟨hn, ?_, hsz, hspan⟩
    intro e he
    have := leafData_mem_le es e he
    exact ⟨hfl e he, by omega, by omega⟩

theorem branch_at (f : File) (base span id ov : Nat) (es : List BranchElem)
    (hold : ∀ i, i < (branchPage id ov es).length → f.get (base + i) = (branchPage id ov es).getD i 0)
    (hid : id < 2^64) (hov : ov < 2^32) (hn : es.length < 0xFFFF) (hspan : span < 2^32)
    (hsz : (branchPage id ov es).length ≤ span) (hpg : ∀ e ∈ es, e.pgid < 2^64) :
    pageHdrAt f base = { id := id, flags := V2.branchPageFlag, count := es.length, overflow := ov } ∧
    branchElems f base (base + span) es.length = some es := by
  have hag := agree_of_holds f base span _ hold
  rw [branchPage_length] at hsz
  constructor
  · rw [pageHdrAt_at hag (by omega)]
    have : branchPage id ov es ++ f.read (base + (branchPage id ov es).length) (span - (branchPage id ov es).length)
        = header id V2.branchPageFlag es.length ov ++ (branchElemHeaders 0 (16 + 16 * es.length) es ++
            (branchData es ++ f.read (base + (branchPage id ov es).length) (span - (branchPage id ov es).length))) := by
      simp [branchPage]
    rw [this]
    exact pageHdrAt_header id V2.branchPageFlag es.length ov _ hid (by decide) (by omega) hov
  · rw [branchElems_at hag]
    apply branchElems_branchPage
    refine ⟨hn, ?_, hsz, hspan⟩
    intro e he
    have := branchData_mem_le es e he
    exact ⟨by omega, hpg e he⟩


/-! ### one step of `decodeTree` -/

theorem span_lt (ov ps : Nat) (hps : 0 < ps) (h : (ov + 1) * ps < 2^32) : ov < 2^32 := by
  have : ov + 1 ≤ (ov + 1) * ps := Nat.le_mul_of_pos_right _ hps
  omega

/-- the reader on a plain leaf page held at its page offset -/
theorem decodeTree_leaf (f : File) (ps hwm fuel pg ov : Nat) (ph : Phys) (es : List LeafElem)
    (hps : 0 < ps)
    (hold : ∀ i, i < (leafPage pg ov es).length → f.get (pg * ps + i) = (leafPage pg ov es).getD i 0)
    (h2 : 2 ≤ pg) (hhwm : pg + ov < hwm) (hw : hwm < 2^64) (hn : es.length < 0xFFFF)
    (hspan : (ov + 1) * ps < 2^32) (hsz : (leafPage pg ov es).length ≤ (ov + 1) * ps)
    (hfl : ∀ e ∈ es, e.flags % 2 = 0 ∧ e.flags < 2^32)
    (hsorted : sortedKeys (es.map (·.key)) = true) (hne : ∀ e ∈ es, e.key ≠ []) :
    decodeTree f ps hwm (fuel + 1) pg ph =
      (es.map (fun e => (e.key, SVal.val e.val)),
       { pages := ph.pages ++ [(pg, ov, V2.leafPageFlag)], errors := ph.errors }) := by
  obtain ⟨hh, he⟩ := leaf_at f (pg * ps) ((ov + 1) * ps) pg ov es hold (by omega)
    (span_lt ov ps hps hspan) hn hspan hsz (fun e h => (hfl e h).2)
  rw [decodeTree]
  have hany : es.any (fun e => e.key.isEmpty) = false := by
    rw [List.any_eq_false]
    intro e h
    simp only [List.isEmpty_iff]
    exact hne e h
  simp only [hh, he, keysAscending_eq, hsorted, hany]
  rw [if_neg (show ¬ (pg < 2 ∨ pg ≥ hwm) by omega)]
  simp only [ne_eq, not_true_eq_false, if_false, if_true]
  rw [if_neg (show ¬ (pg + ov ≥ hwm) by omega)]
  rw [decodeLeafItems_plain _ _ _ _ _ _ (fun e h => (hfl e h).1)]
  rfl


/-- the reader on a branch page held at its page offset: it goes on with the children -/
theorem decodeTree_branch (f : File) (ps hwm fuel pg ov : Nat) (ph : Phys) (es : List BranchElem)
    (hps : 0 < ps)
    (hold : ∀ i, i < (branchPage pg ov es).length → f.get (pg * ps + i) = (branchPage pg ov es).getD i 0)
    (h2 : 2 ≤ pg) (hhwm : pg + ov < hwm) (hw : hwm < 2^64) (hn : es.length < 0xFFFF)
    (hspan : (ov + 1) * ps < 2^32) (hsz : (branchPage pg ov es).length ≤ (ov + 1) * ps)
    (hpg : ∀ e ∈ es, e.pgid < 2^64)
    (hsorted : sortedKeys (es.map (·.key)) = true) (hne : es ≠ []) :
    decodeTree f ps hwm (fuel + 1) pg ph =
      decodeKids f ps hwm fuel es
        { pages := ph.pages ++ [(pg, ov, V2.branchPageFlag)], errors := ph.errors } := by
  obtain ⟨hh, he⟩ := branch_at f (pg * ps) ((ov + 1) * ps) pg ov es hold (by omega)
    (span_lt ov ps hps hspan) hn hspan hsz hpg
  rw [decodeTree]
  have hemp : es.isEmpty = false := by
    cases es with
    | nil => exact absurd rfl hne
    | cons _ _ => rfl
  have hfl : ¬ (V2.branchPageFlag = V2.leafPageFlag) := by decide
  simp only [hh, he, keysAscending_eq, hsorted, hemp, hfl]
  rw [if_neg (show ¬ (pg < 2 ∨ pg ≥ hwm) by omega)]
  simp only [ne_eq, not_true_eq_false, if_false, if_true]
  rw [if_neg (show ¬ (pg + ov ≥ hwm) by omega)]
  rfl

theorem decodeKids_nil (f : File) (ps hwm fuel : Nat) (ph : Phys) :
    decodeKids f ps hwm fuel [] ph = ([], ph) := by
  rw [decodeKids]

/-- one child decoded without error: first key not below the separator, every key below the next
    separator -/
theorem decodeKids_cons (f : File) (ps hwm fuel : Nat) (e : BranchElem) (rest : List BranchElem)
    (ph ph1 : Phys) (a : List (Bytes × SVal))
    (h : decodeTree f ps hwm fuel e.pgid ph = (a, ph1))
    (hfirst : ∀ kv ∈ a.head?, Bytes.lt kv.1 e.key = false)
    (hnext : ∀ nxt ∈ rest.head?, ∀ kv ∈ a, Bytes.lt kv.1 nxt.key = true) :
    decodeKids f ps hwm fuel (e :: rest) ph =
      (a ++ (decodeKids f ps hwm fuel rest ph1).1, (decodeKids f ps hwm fuel rest ph1).2) := by
  rw [decodeKids, h]
  have hany : ∀ nxt ∈ rest.head?, a.any (fun kv => !Bytes.lt kv.1 nxt.key) = false := by
    intro nxt hn
    rw [List.any_eq_false]
    intro kv hkv
    rw [hnext nxt hn kv hkv]; decide
  cases rest with
  | nil =>
    cases a with
    | nil => rfl
    | cons kv tl =>
      obtain ⟨k, v⟩ := kv
      have := hfirst (k, v) (by simp)
      simp only [bytesLt_eq, this, Bool.false_eq_true, if_false]
  | cons nxt tl =>
    have h2 := hany nxt (by simp)
    cases a with
    | nil => simp only [bytesLt_eq, h2, Bool.false_eq_true, if_false]
    | cons kv tl =>
      obtain ⟨k, v⟩ := kv
      have := hfirst (k, v) (by simp)
      simp only [bytesLt_eq, h2, this, Bool.false_eq_true, if_false]

end Bolt.FormatTreeL
