/-
Helper lemmas for C12: reading back what the writers of `Model/Encode.lean` produce.
-/
import Bolt.Model.Encode
import Bolt.Lemmas.File
namespace Bolt.Enc
open Bolt

/-! ### reading a slice of a byte list -/

theorem fileOf_get_append (a b : Bytes) (j : Nat) (hj : j < b.length) :
    (fileOf (a ++ b)).get (a.length + j) = b[j] := by
  simp [fileOf, List.getD_eq_getElem?_getD, hj]

/-- the central lemma: the bytes at offset `a.length` of `a ++ b ++ c` are `b` -/
theorem read_fileOf_append (a b c : Bytes) :
    (fileOf (a ++ (b ++ c))).read a.length b.length = b := by
  apply List.ext_getElem
  · simp
  · intro i h1 h2
    simp only [File.read, List.getElem_map, List.getElem_range]
    rw [fileOf_get_append a (b ++ c) i (by simp; omega)]
    simp [List.getElem_append_left, h2]

/-- usable form: give the decomposition explicitly -/
theorem read_of_split {bs : Bytes} {off n : Nat} (a b c : Bytes)
    (h : bs = a ++ (b ++ c)) (hoff : off = a.length) (hn : n = b.length) :
    (fileOf bs).read off n = b := by
  subst h hoff hn
  exact read_fileOf_append a b c

theorem u16_of_split {bs : Bytes} {off : Nat} (a c : Bytes) (v : Nat)
    (h : bs = a ++ (putLE 2 v ++ c)) (hoff : off = a.length) (hv : v < 2^16) :
    (fileOf bs).u16 off = v := by
  unfold File.u16
  rw [read_of_split a (putLE 2 v) c h hoff (by simp)]
  exact getLE_putLE_of_lt (by simpa using hv)

theorem u32_of_split {bs : Bytes} {off : Nat} (a c : Bytes) (v : Nat)
    (h : bs = a ++ (putLE 4 v ++ c)) (hoff : off = a.length) (hv : v < 2^32) :
    (fileOf bs).u32 off = v := by
  unfold File.u32
  rw [read_of_split a (putLE 4 v) c h hoff (by simp)]
  exact getLE_putLE_of_lt (by simpa using hv)

theorem u64_of_split {bs : Bytes} {off : Nat} (a c : Bytes) (v : Nat)
    (h : bs = a ++ (putLE 8 v ++ c)) (hoff : off = a.length) (hv : v < 2^64) :
    (fileOf bs).u64 off = v := by
  unfold File.u64
  rw [read_of_split a (putLE 8 v) c h hoff (by simp)]
  exact getLE_putLE_of_lt (by simpa using hv)

/-! ### `allSome` over a range -/

theorem allSome_map_range {α : Type} (l : List α) (g : Nat → Option α)
    (h : ∀ i (hi : i < l.length), g i = some l[i]) :
    allSome ((List.range l.length).map g) = some l := by
  induction l generalizing g with
  | nil => simp [allSome]
  | cons x l ih =>
    rw [List.length_cons, List.range_succ_eq_map, List.map_cons, List.map_map]
    have h0 := h 0 (by simp)
    simp only [List.getElem_cons_zero] at h0
    rw [h0]
    simp only [allSome]
    rw [ih (g ∘ Nat.succ) (fun i hi => by
      have := h (i+1) (by simp; omega)
      simpa using this)]
    rfl

theorem map_range_eq {α : Type} (l : List α) (g : Nat → α)
    (h : ∀ i (hi : i < l.length), g i = l[i]) :
    (List.range l.length).map g = l := by
  apply List.ext_getElem
  · simp
  · intro i h1 h2
    simp [h i h2]

/-! ### the page header -/

@[simp] theorem header_length (id flags count overflow : Nat) :
    (header id flags count overflow).length = 16 := by
  simp [header]

theorem pageHdrAt_header (id flags count overflow : Nat) (rest : Bytes)
    (h1 : id < 2^64) (h2 : flags < 2^16) (h3 : count < 2^16) (h4 : overflow < 2^32) :
    pageHdrAt (fileOf (header id flags count overflow ++ rest)) 0 =
      { id := id, flags := flags, count := count, overflow := overflow } := by
  unfold pageHdrAt
  rw [u64_of_split [] (putLE 2 flags ++ putLE 2 count ++ putLE 4 overflow ++ rest) id
        (by simp [header]) (by simp) h1,
      u16_of_split (putLE 8 id) (putLE 2 count ++ putLE 4 overflow ++ rest) flags
        (by simp [header]) (by simp) h2,
      u16_of_split (putLE 8 id ++ putLE 2 flags) (putLE 4 overflow ++ rest) count
        (by simp [header]) (by simp) h3,
      u32_of_split (putLE 8 id ++ putLE 2 flags ++ putLE 2 count) rest overflow
        (by simp [header]) (by simp) h4]

/-! ### leaf element tables -/

theorem leafElemHeaders_length (i d : Nat) (es : List LeafElem) :
    (leafElemHeaders i d es).length = 16 * es.length := by
  induction es generalizing i d with
  | nil => simp [leafElemHeaders]
  | cons e es ih => simp [leafElemHeaders, ih]; omega

theorem leafData_append (a b : List LeafElem) : leafData (a ++ b) = leafData a ++ leafData b := by
  induction a with
  | nil => simp [leafData]
  | cons e a ih => simp [leafData, ih]

theorem leafElemHeaders_append (i d : Nat) (a b : List LeafElem) :
    leafElemHeaders i d (a ++ b) =
      leafElemHeaders i d a ++ leafElemHeaders (i + a.length) (d + (leafData a).length) b := by
  induction a generalizing i d with
  | nil => simp [leafElemHeaders, leafData]
  | cons e a ih =>
    simp only [List.cons_append, leafElemHeaders, ih, leafData, List.length_cons,
      List.length_append, List.append_assoc]
    have e1 : i + 1 + a.length = i + (a.length + 1) := by omega
    have e2 : d + e.key.length + e.val.length + (leafData a).length =
        d + (e.key.length + (e.val.length + (leafData a).length)) := by omega
    rw [e1, e2]

/-- one leaf element, abstractly: 16 + 16*i bytes, then its header, then `B`, then key and value -/
theorem leafElemAt_layout (A B C : Bytes) (e : LeafElem) (i pos span : Nat)
    (hA : A.length = 16 + 16 * i)
    (hfl : e.flags < 2^32) (hk : e.key.length < 2^32) (hv : e.val.length < 2^32)
    (hpos : pos < 2^32) (hB : pos = 16 + B.length)
    (hspan : 16 + 16 * i + pos + e.key.length + e.val.length ≤ span) :
    leafElemAt (fileOf (A ++ (putLE 4 e.flags ++ (putLE 4 pos ++ (putLE 4 e.key.length ++
      (putLE 4 e.val.length ++ (B ++ (e.key ++ (e.val ++ C)))))))))
      0 span i = some e := by
  unfold leafElemAt
  simp only [V2.pageHeaderSize, V2.elemSize, Nat.zero_add]
  rw [u32_of_split A _ e.flags rfl hA.symm hfl,
      u32_of_split (A ++ putLE 4 e.flags)
        (putLE 4 e.key.length ++ (putLE 4 e.val.length ++ (B ++ (e.key ++ (e.val ++ C))))) pos
        (by simp) (by simp; omega) hpos,
      u32_of_split (A ++ putLE 4 e.flags ++ putLE 4 pos)
        (putLE 4 e.val.length ++ (B ++ (e.key ++ (e.val ++ C)))) e.key.length (by simp)
        (by simp; omega) hk,
      u32_of_split (A ++ putLE 4 e.flags ++ putLE 4 pos ++ putLE 4 e.key.length)
        (B ++ (e.key ++ (e.val ++ C))) e.val.length
        (by simp) (by simp; omega) hv]
  rw [if_neg (by omega), if_neg (by omega)]
  rw [read_of_split (A ++ putLE 4 e.flags ++ putLE 4 pos ++ putLE 4 e.key.length ++
        putLE 4 e.val.length ++ B) e.key (e.val ++ C) (by simp) (by simp; omega) rfl,
      read_of_split (A ++ putLE 4 e.flags ++ putLE 4 pos ++ putLE 4 e.key.length ++
        putLE 4 e.val.length ++ B ++ e.key) e.val C (by simp) (by simp; omega) rfl]

/-- element `pre.length` of a written leaf page -/
theorem leafElemAt_leafPage (id overflow : Nat) (pre suf : List LeafElem) (e : LeafElem)
    (span : Nat) (pad : Bytes) (hok : LeafOK (pre ++ e :: suf) span) :
    leafElemAt (fileOf (leafPage id overflow (pre ++ e :: suf) ++ pad)) 0 span pre.length
      = some e := by
  obtain ⟨_, hel, hsp, hlt⟩ := hok
  obtain ⟨hfl, hk, hv⟩ := hel e (by simp)
  simp only [leafData_append, leafData, List.length_append, List.length_cons] at hsp
  have key := leafElemAt_layout
    (header id V2.leafPageFlag (pre ++ e :: suf).length overflow ++
      leafElemHeaders 0 (16 + 16 * (pre ++ e :: suf).length) pre)
    (leafElemHeaders (0 + pre.length + 1)
        (16 + 16 * (pre ++ e :: suf).length + (leafData pre).length + e.key.length + e.val.length) suf
      ++ leafData pre)
    (leafData suf ++ pad) e pre.length
    (16 + 16 * (pre ++ e :: suf).length + (leafData pre).length - (16 + 16 * (0 + pre.length))) span
    (by simp [leafElemHeaders_length]) hfl hk hv
    (by simp only [List.length_append, List.length_cons]; omega)
    (by simp only [List.length_append, List.length_cons, leafElemHeaders_length]; omega)
    (by simp only [List.length_append, List.length_cons]; omega)
  rw [← key]
  congr 2
  simp [leafPage, leafElemHeaders_append, leafElemHeaders, leafData_append, leafData]

theorem split_at {α : Type} (l : List α) (i : Nat) (hi : i < l.length) :
    l = l.take i ++ l[i] :: l.drop (i+1) := by
  simp

theorem leafElems_leafPage (id overflow : Nat) (es : List LeafElem) (span : Nat) (pad : Bytes)
    (hok : LeafOK es span) :
    leafElems (fileOf (leafPage id overflow es ++ pad)) 0 span es.length = some es := by
  unfold leafElems
  apply allSome_map_range
  intro i hi
  have hes := split_at es i hi
  have := leafElemAt_leafPage id overflow (es.take i) (es.drop (i+1)) es[i] span pad
    (by rw [← hes]; exact hok)
  rw [← hes, List.length_take, Nat.min_eq_left (Nat.le_of_lt hi)] at this
  exact this

/-! ### branch element tables -/

theorem branchElemHeaders_length (i d : Nat) (es : List BranchElem) :
    (branchElemHeaders i d es).length = 16 * es.length := by
  induction es generalizing i d with
  | nil => simp [branchElemHeaders]
  | cons e es ih => simp [branchElemHeaders, ih]; omega

theorem branchData_append (a b : List BranchElem) :
    branchData (a ++ b) = branchData a ++ branchData b := by
  induction a with
  | nil => simp [branchData]
  | cons e a ih => simp [branchData, ih]

theorem branchElemHeaders_append (i d : Nat) (a b : List BranchElem) :
    branchElemHeaders i d (a ++ b) =
      branchElemHeaders i d a ++ branchElemHeaders (i + a.length) (d + (branchData a).length) b := by
  induction a generalizing i d with
  | nil => simp [branchElemHeaders, branchData]
  | cons e a ih =>
    simp only [List.cons_append, branchElemHeaders, ih, branchData, List.length_cons,
      List.length_append, List.append_assoc]
    have e1 : i + 1 + a.length = i + (a.length + 1) := by omega
    have e2 : d + e.key.length + (branchData a).length =
        d + (e.key.length + (branchData a).length) := by omega
    rw [e1, e2]

theorem branchElemAt_layout (A B C : Bytes) (e : BranchElem) (i pos span : Nat)
    (hA : A.length = 16 + 16 * i)
    (hk : e.key.length < 2^32) (hpg : e.pgid < 2^64)
    (hpos : pos < 2^32) (hB : pos = 16 + B.length)
    (hspan : 16 + 16 * i + pos + e.key.length ≤ span) :
    branchElemAt (fileOf (A ++ (putLE 4 pos ++ (putLE 4 e.key.length ++
      (putLE 8 e.pgid ++ (B ++ (e.key ++ C)))))))
      0 span i = some e := by
  unfold branchElemAt
  simp only [V2.pageHeaderSize, V2.elemSize, Nat.zero_add]
  rw [u32_of_split A _ pos rfl hA.symm hpos,
      u32_of_split (A ++ putLE 4 pos)
        (putLE 8 e.pgid ++ (B ++ (e.key ++ C))) e.key.length
        (by simp) (by simp; omega) hk,
      u64_of_split (A ++ putLE 4 pos ++ putLE 4 e.key.length)
        (B ++ (e.key ++ C)) e.pgid (by simp)
        (by simp; omega) hpg]
  rw [if_neg (by omega), if_neg (by omega)]
  rw [read_of_split (A ++ putLE 4 pos ++ putLE 4 e.key.length ++ putLE 8 e.pgid ++ B) e.key C
        (by simp) (by simp; omega) rfl]

theorem branchElemAt_branchPage (id overflow : Nat) (pre suf : List BranchElem) (e : BranchElem)
    (span : Nat) (pad : Bytes) (hok : BranchOK (pre ++ e :: suf) span) :
    branchElemAt (fileOf (branchPage id overflow (pre ++ e :: suf) ++ pad)) 0 span pre.length
      = some e := by
  obtain ⟨_, hel, hsp, hlt⟩ := hok
  obtain ⟨hk, hpg⟩ := hel e (by simp)
  simp only [branchData_append, branchData, List.length_append, List.length_cons] at hsp
  have key := branchElemAt_layout
    (header id V2.branchPageFlag (pre ++ e :: suf).length overflow ++
      branchElemHeaders 0 (16 + 16 * (pre ++ e :: suf).length) pre)
    (branchElemHeaders (0 + pre.length + 1)
        (16 + 16 * (pre ++ e :: suf).length + (branchData pre).length + e.key.length) suf
      ++ branchData pre)
    (branchData suf ++ pad) e pre.length
    (16 + 16 * (pre ++ e :: suf).length + (branchData pre).length - (16 + 16 * (0 + pre.length))) span
    (by simp [branchElemHeaders_length]) hk hpg
    (by simp only [List.length_append, List.length_cons]; omega)
    (by simp only [List.length_append, List.length_cons, branchElemHeaders_length]; omega)
    (by simp only [List.length_append, List.length_cons]; omega)
  rw [← key]
  congr 2
  simp [branchPage, branchElemHeaders_append, branchElemHeaders, branchData_append, branchData]

theorem branchElems_branchPage (id overflow : Nat) (es : List BranchElem) (span : Nat) (pad : Bytes)
    (hok : BranchOK es span) :
    branchElems (fileOf (branchPage id overflow es ++ pad)) 0 span es.length = some es := by
  unfold branchElems
  apply allSome_map_range
  intro i hi
  have hes := split_at es i hi
  have := branchElemAt_branchPage id overflow (es.take i) (es.drop (i+1)) es[i] span pad
    (by rw [← hes]; exact hok)
  rw [← hes, List.length_take, Nat.min_eq_left (Nat.le_of_lt hi)] at this
  exact this

/-! ### freelist pages -/

theorem flatMap_putLE_length (ids : List Nat) : (ids.flatMap (putLE 8)).length = 8 * ids.length := by
  induction ids with
  | nil => simp
  | cons q ids ih => simp [List.flatMap_cons, ih]; omega

theorem u64_flatMap (A pad : Bytes) (ids : List Nat) (i off : Nat) (hi : i < ids.length)
    (hq : ∀ q ∈ ids, q < 2^64) (hoff : off = A.length + 8 * i) :
    (fileOf (A ++ (ids.flatMap (putLE 8) ++ pad))).u64 off = ids[i] := by
  have hes := split_at ids i hi
  have hfm : ids.flatMap (putLE 8) = (ids.take i).flatMap (putLE 8) ++
      (putLE 8 ids[i] ++ (ids.drop (i+1)).flatMap (putLE 8)) := by
    conv => lhs; rw [hes]
    rw [List.flatMap_append, List.flatMap_cons]
  refine u64_of_split (A ++ (ids.take i).flatMap (putLE 8))
    ((ids.drop (i+1)).flatMap (putLE 8) ++ pad) ids[i] ?_ ?_ (hq _ (List.getElem_mem hi))
  · rw [hfm]; simp
  · rw [List.length_append, flatMap_putLE_length, List.length_take, Nat.min_eq_left (Nat.le_of_lt hi)]
    exact hoff

theorem ok_map_range_eq (ids : List Nat) (ov : Nat) (g : Nat → Nat)
    (hg : ∀ i (hi : i < ids.length), g i = ids[i]) :
    (Except.ok ((List.range ids.length).map g, ov) : Except String (List Nat × Nat)) =
      .ok (ids, ov) := by
  rw [map_range_eq ids g hg]

theorem decodeFreelist_freelistPage (id overflow : Nat) (ids : List Nat) (ps : Nat) (pad : Bytes)
    (hid : id < 2^64) (hov : overflow < 2^32) (hids : ∀ q ∈ ids, q < 2^64) (hlen : ids.length < 2^64)
    (hfit : 16 + 8 * (ids.length + 1) ≤ (overflow + 1) * ps) :
    decodeFreelist (fileOf (freelistPage id overflow ids ++ pad)) ps 0 = .ok (ids, overflow) := by
  unfold decodeFreelist
  by_cases hl : ids.length < 0xFFFF
  · have hp : freelistPage id overflow ids ++ pad =
        header id V2.freelistPageFlag ids.length overflow ++ (ids.flatMap (putLE 8) ++ pad) := by
      simp [freelistPage, hl]
    rw [hp]; simp only [Nat.zero_mul, Nat.zero_add]
    rw [pageHdrAt_header id V2.freelistPageFlag ids.length overflow _ hid (by decide) (by omega) hov]
    have hne : ids.length ≠ 0xFFFF := by omega
    simp only [ne_eq, not_true_eq_false, if_false, hne]
    rw [if_neg (by omega)]
    apply ok_map_range_eq
    intro i hi
    exact u64_flatMap _ _ _ _ _ hi hids (by simp)
  · have hp : freelistPage id overflow ids ++ pad =
        header id V2.freelistPageFlag 0xFFFF overflow ++
          (putLE 8 ids.length ++ (ids.flatMap (putLE 8) ++ pad)) := by
      simp [freelistPage, hl]
    rw [hp]; simp only [Nat.zero_mul, Nat.zero_add]
    rw [pageHdrAt_header id V2.freelistPageFlag 0xFFFF overflow _ hid (by decide) (by decide) hov]
    have hc : (fileOf (header id V2.freelistPageFlag 0xFFFF overflow ++
          (putLE 8 ids.length ++ (ids.flatMap (putLE 8) ++ pad)))).u64 16 = ids.length :=
      u64_of_split _ _ _ rfl (by simp) hlen
    simp only [ne_eq, not_true_eq_false, if_false, if_true, hc]
    rw [if_neg (by omega)]
    apply ok_map_range_eq
    intro i hi
    have := u64_flatMap (header id V2.freelistPageFlag 0xFFFF overflow ++ putLE 8 ids.length) pad
      ids i (16 + 8 * (1 + i)) hi hids (by simp; omega)
    rw [List.append_assoc] at this
    exact this

/-! ### meta pages -/

/-- the 56 checksummed bytes -/
def metaBody (m : Meta) : Bytes :=
  putLE 4 m.magic ++ putLE 4 m.version ++ putLE 4 m.pageSize ++ putLE 4 m.flags ++
  putLE 8 m.root ++ putLE 8 m.seq ++ putLE 8 m.freelist ++ putLE 8 m.pgid ++ putLE 8 m.txid

theorem metaBody_length (m : Meta) : (metaBody m).length = 56 := by simp [metaBody]

theorem encodeMeta_eq (m : Meta) :
    encodeMeta m = metaBody m ++ putLE 8 (fnv1a64 (metaBody m)).toNat := by
  have : (encodeMetaRaw m).take V2.metaChecksumLen = metaBody m := by
    have : encodeMetaRaw m = metaBody m ++ putLE 8 m.checksum := rfl
    rw [this]
    exact List.take_left' (metaBody_length m)
  simp only [encodeMeta, this]

theorem read_of_prefix {bs : Bytes} {n : Nat} (b c : Bytes)
    (h : bs = b ++ c) (hn : n = b.length) : (fileOf bs).read 0 n = b :=
  read_of_split [] b c (by rw [h, List.nil_append]) rfl hn

theorem u32_of_prefix {bs : Bytes} (c : Bytes) (v : Nat)
    (h : bs = putLE 4 v ++ c) (hv : v < 2^32) : (fileOf bs).u32 0 = v :=
  u32_of_split [] c v (by rw [h, List.nil_append]) rfl hv

theorem metaSum_encodeMeta (m : Meta) (rest : Bytes) :
    metaSum (fileOf (encodeMeta m ++ rest)) 0 = (fnv1a64 (metaBody m)).toNat := by
  unfold metaSum
  rw [read_of_prefix (metaBody m) (putLE 8 (fnv1a64 (metaBody m)).toNat ++ rest)
    (by rw [encodeMeta_eq, List.append_assoc]) (by rw [metaBody_length]; rfl)]

theorem metaAt_encodeMeta (m : Meta) (rest : Bytes)
    (hm : m.magic < 2^32) (hv : m.version < 2^32) (hps : m.pageSize < 2^32) (hf : m.flags < 2^32)
    (hr : m.root < 2^64) (hs : m.seq < 2^64) (hfl : m.freelist < 2^64) (hp : m.pgid < 2^64)
    (ht : m.txid < 2^64) :
    metaAt (fileOf (encodeMeta m ++ rest)) 0 =
      { m with checksum := (fnv1a64 (metaBody m)).toNat } := by
  have hsum : (fnv1a64 (metaBody m)).toNat < 2^64 := (fnv1a64 (metaBody m)).isLt
  generalize hS : putLE 8 (fnv1a64 (metaBody m)).toNat ++ rest = S
  have hb : encodeMeta m ++ rest = metaBody m ++ S := by rw [encodeMeta_eq, List.append_assoc, hS]
  unfold metaAt
  rw [hb]
  rw [u32_of_prefix (putLE 4 m.version ++ putLE 4 m.pageSize ++ putLE 4 m.flags ++
        putLE 8 m.root ++ putLE 8 m.seq ++ putLE 8 m.freelist ++ putLE 8 m.pgid ++ putLE 8 m.txid ++ S)
        m.magic (by simp [metaBody]) hm,
      u32_of_split (putLE 4 m.magic) (putLE 4 m.pageSize ++ putLE 4 m.flags ++
        putLE 8 m.root ++ putLE 8 m.seq ++ putLE 8 m.freelist ++ putLE 8 m.pgid ++ putLE 8 m.txid ++ S)
        m.version (by simp [metaBody]) (by simp) hv,
      u32_of_split (putLE 4 m.magic ++ putLE 4 m.version) (putLE 4 m.flags ++
        putLE 8 m.root ++ putLE 8 m.seq ++ putLE 8 m.freelist ++ putLE 8 m.pgid ++ putLE 8 m.txid ++ S)
        m.pageSize (by simp [metaBody]) (by simp) hps,
      u32_of_split (putLE 4 m.magic ++ putLE 4 m.version ++ putLE 4 m.pageSize)
        (putLE 8 m.root ++ putLE 8 m.seq ++ putLE 8 m.freelist ++ putLE 8 m.pgid ++ putLE 8 m.txid ++ S)
        m.flags (by simp [metaBody]) (by simp) hf,
      u64_of_split (putLE 4 m.magic ++ putLE 4 m.version ++ putLE 4 m.pageSize ++ putLE 4 m.flags)
        (putLE 8 m.seq ++ putLE 8 m.freelist ++ putLE 8 m.pgid ++ putLE 8 m.txid ++ S)
        m.root (by simp [metaBody]) (by simp) hr,
      u64_of_split (putLE 4 m.magic ++ putLE 4 m.version ++ putLE 4 m.pageSize ++ putLE 4 m.flags ++
        putLE 8 m.root) (putLE 8 m.freelist ++ putLE 8 m.pgid ++ putLE 8 m.txid ++ S)
        m.seq (by simp [metaBody]) (by simp) hs,
      u64_of_split (putLE 4 m.magic ++ putLE 4 m.version ++ putLE 4 m.pageSize ++ putLE 4 m.flags ++
        putLE 8 m.root ++ putLE 8 m.seq) (putLE 8 m.pgid ++ putLE 8 m.txid ++ S)
        m.freelist (by simp [metaBody]) (by simp) hfl,
      u64_of_split (putLE 4 m.magic ++ putLE 4 m.version ++ putLE 4 m.pageSize ++ putLE 4 m.flags ++
        putLE 8 m.root ++ putLE 8 m.seq ++ putLE 8 m.freelist) (putLE 8 m.txid ++ S)
        m.pgid (by simp [metaBody]) (by simp) hp,
      u64_of_split (putLE 4 m.magic ++ putLE 4 m.version ++ putLE 4 m.pageSize ++ putLE 4 m.flags ++
        putLE 8 m.root ++ putLE 8 m.seq ++ putLE 8 m.freelist ++ putLE 8 m.pgid) S
        m.txid (by simp [metaBody]) (by simp) ht]
  subst hS
  rw [u64_of_split (metaBody m) rest (fnv1a64 (metaBody m)).toNat rfl
        (by simp [metaBody_length]) hsum]

theorem metaValid_encodeMeta (m : Meta) (rest : Bytes)
    (hm : m.magic = V2.magic) (hv : m.version = V2.version) (hps : m.pageSize < 2^32)
    (hf : m.flags < 2^32) (hr : m.root < 2^64) (hs : m.seq < 2^64) (hfl : m.freelist < 2^64)
    (hp : m.pgid < 2^64) (ht : m.txid < 2^64) :
    metaValid (fileOf (encodeMeta m ++ rest)) 0 = true := by
  have h := metaAt_encodeMeta m rest (by rw [hm]; decide) (by rw [hv]; decide) hps hf hr hs hfl hp ht
  have h1 := congrArg Meta.magic h
  have h2 := congrArg Meta.version h
  have h3 := congrArg Meta.checksum h
  simp only [metaAt] at h1 h2 h3
  unfold metaValid
  rw [h1, h2, h3, metaSum_encodeMeta, hm, hv]
  simp

end Bolt.Enc
