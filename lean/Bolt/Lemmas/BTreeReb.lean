import Bolt.Model.BTreeInv
namespace Bolt.BTree.RebL
open Bolt Bolt.BTree

end Bolt.BTree.RebL
