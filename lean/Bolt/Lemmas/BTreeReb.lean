import Bolt.Model.BTreeInv
import Bolt.Lemmas.NestedMap
import Bolt.Lemmas.Node
namespace Bolt.BTree.RebL
open Bolt Bolt.BTree Bolt.Node

/-! ### the invariant of the rebalance phase

`inTxN` lets the FIRST child of a node inherit the node's lower bound `lo`: its keys may lie
below its own separator.  That is what `Put` needs on the leftmost spine (`lo = none`), but
for a node with `lo = some l` a merge moves this first child into the MIDDLE of the left
sibling's inodes, where its keys must be `≥` its own separator.  `Bolt.BTree.rebN`
(in `BTreeInv.lean`) is `inTxN` with that one change: below a bounded node every child (also
the first) starts at its own separator.  `rbN` is the same predicate with the lower bound of
the children passed as a flag, which is more convenient when lists of children are cut and
glued (`rebN_eq_rbN` below). -/

mutual
def rbN : Bool → Bool → Option Bytes → Option Bytes → N → Bool
  | root, pmat, lo, hi, .leaf h items =>
    (!h.unb || h.mat) && (!h.mat || pmat) &&
    (root || !items.isEmpty || (h.mat && h.unb)) &&
    sortedKeys (items.map (·.key)) &&
    items.all (fun i => !i.key.isEmpty && geLo lo i.key && ltHi hi i.key)
  | _, pmat, lo, hi, .branch h kids =>
    (!h.unb || h.mat) && (!h.mat || pmat) &&
    decide (2 ≤ kids.length) && sortedKeys (kids.map (·.1)) &&
    kids.all (fun p => !p.1.isEmpty && geLo lo p.1 && ltHi hi p.1) &&
    rbKids h.mat lo.isSome hi kids ((kids.head?.map (fun p => depth p.2)).getD 0)
/-- `bd`: the node is bounded below (`lo.isSome`); then the first child starts at its own
    separator like every other child, otherwise (leftmost spine) it is unbounded below -/
def rbKids : Bool → Bool → Option Bytes → List (Bytes × N) → Nat → Bool
  | _, _, _, [], _ => true
  | pmat, bd, hi, (s, c) :: r, d =>
    (s == (if c.hd.mat then c.hd.key else c.firstKey)) && (depth c == d) &&
    rbN false pmat (if bd then some s else none) ((r.head?.map (·.1)).orElse (fun _ => hi)) c &&
    rbKids pmat true hi r d
end

mutual
/-- separators were not touched since the tree was read: the first separator of a bounded
    node is its lower bound.  True of committed trees, kept by `Put`/`Delete`. -/
def tightN : Option Bytes → N → Bool
  | _, .leaf _ _ => true
  | lo, .branch _ kids =>
    (match lo with | none => true | some l => kids.head?.map (·.1) == some l) && tightKids lo kids
def tightKids : Option Bytes → List (Bytes × N) → Bool
  | _, [] => true
  | lo, (_, c) :: r => tightN lo c && tightKids (r.head?.map (·.1)) r
end

mutual
/-- page ids of the nodes with `unbalanced` set -/
def unbPgids : N → List Nat
  | .leaf h _ => if h.unb then [h.pgid] else []
  | .branch h kids => (if h.unb then [h.pgid] else []) ++ unbPgidsKids kids
def unbPgidsKids : List (Bytes × N) → List Nat
  | [] => []
  | (_, c) :: r => unbPgids c ++ unbPgidsKids r
end

/-! ### Prop-level view of the invariant -/

/-- the key under which a child is filed in its parent -/
def ckey (c : N) : Bytes := if c.hd.mat then c.hd.key else c.firstKey

def Srt (l : List Bytes) : Prop := l.Pairwise (fun a b => Bytes.lt a b = true)

theorem sortedKeys_iff : ∀ l : List Bytes, sortedKeys l = true ↔ Srt l
  | [] => by simp [sortedKeys, Srt]
  | [a] => by simp [sortedKeys, Srt]
  | a :: b :: r => by
    have ih := sortedKeys_iff (b :: r)
    simp only [sortedKeys, Bool.and_eq_true, ih, Srt, List.pairwise_cons]
    constructor
    · rintro ⟨h1, h2, h3⟩
      refine ⟨?_, h2, h3⟩
      intro x hx
      rcases List.mem_cons.mp hx with rfl | hx
      · exact h1
      · exact Bytes.lt_trans h1 (h2 x hx)
    · rintro ⟨h1, h2, h3⟩
      exact ⟨h1 b (List.mem_cons_self ..), h2, h3⟩

structure FlagsOk (pmat : Bool) (h : Hd) : Prop where
  um : h.unb = true → h.mat = true
  mp : h.mat = true → pmat = true

def Bnd (lo hi : Option Bytes) (k : Bytes) : Prop := k ≠ [] ∧ geLo lo k = true ∧ ltHi hi k = true

structure LeafOk (root pmat : Bool) (lo hi : Option Bytes) (h : Hd) (items : List Item) : Prop where
  fl : FlagsOk pmat h
  ne : root = true ∨ items ≠ [] ∨ (h.mat = true ∧ h.unb = true)
  srt : Srt (items.map (·.key))
  bnd : ∀ i ∈ items, Bnd lo hi i.key

structure BranchOk (mk : Nat) (pmat : Bool) (lo hi : Option Bytes) (h : Hd) (kids : List (Bytes × N)) : Prop where
  fl : FlagsOk pmat h
  len : mk ≤ kids.length
  srt : Srt (kids.map (·.1))
  bnd : ∀ p ∈ kids, Bnd lo hi p.1
  kids : ∃ d, rbKids h.mat lo.isSome hi kids d = true

theorem flagsOk_iff (pmat : Bool) (h : Hd) :
    ((!h.unb || h.mat) = true ∧ (!h.mat || pmat) = true) ↔ FlagsOk pmat h := by
  constructor
  · intro hh
    simp only [Bool.or_eq_true, Bool.not_eq_true'] at hh
    exact ⟨fun hu => by rcases hh.1 with h1 | h1 <;> simp_all, fun hm => by rcases hh.2 with h1 | h1 <;> simp_all⟩
  · rintro ⟨h1, h2⟩
    cases hu : h.unb <;> cases hm : h.mat <;> cases pmat <;> simp_all

theorem bnd_iff (lo hi : Option Bytes) (k : Bytes) :
    (((!k.isEmpty) = true ∧ geLo lo k = true) ∧ ltHi hi k = true) ↔ Bnd lo hi k := by
  unfold Bnd
  cases k <;> simp

theorem rbN_leaf (root pmat : Bool) (lo hi : Option Bytes) (h : Hd) (items : List Item) :
    rbN root pmat lo hi (.leaf h items) = true ↔ LeafOk root pmat lo hi h items := by
  rw [rbN]
  simp only [Bool.and_eq_true, flagsOk_iff, sortedKeys_iff, List.all_eq_true, bnd_iff]
  constructor
  · rintro ⟨⟨⟨h1, h2⟩, h3⟩, h4⟩
    refine ⟨h1, ?_, h3, h4⟩
    cases root <;> cases items <;> simp_all
  · rintro ⟨h1, h2, h3, h4⟩
    refine ⟨⟨⟨h1, ?_⟩, h3⟩, h4⟩
    cases root <;> cases items <;> simp_all

theorem rbKids_cons (pmat bd : Bool) (hi : Option Bytes) (s : Bytes) (c : N) (r : List (Bytes × N)) (d : Nat) :
    rbKids pmat bd hi ((s, c) :: r) d = true ↔
      s = ckey c ∧ depth c = d ∧
      rbN false pmat (if bd then some s else none) ((r.head?.map (·.1)).orElse (fun _ => hi)) c = true ∧
      rbKids pmat true hi r d = true := by
  rw [rbKids]
  simp only [Bool.and_eq_true, beq_iff_eq, ckey, and_assoc]

theorem rbKids_nil (pmat bd : Bool) (hi : Option Bytes) (d : Nat) : rbKids pmat bd hi [] d = true := by
  rw [rbKids]

theorem rbN_branch (root pmat : Bool) (lo hi : Option Bytes) (h : Hd) (kids : List (Bytes × N)) :
    rbN root pmat lo hi (.branch h kids) = true ↔ BranchOk 2 pmat lo hi h kids := by
  rw [rbN]
  simp only [Bool.and_eq_true, flagsOk_iff, sortedKeys_iff, List.all_eq_true, bnd_iff, decide_eq_true_eq]
  constructor
  · rintro ⟨⟨⟨⟨h1, h2⟩, h3⟩, h4⟩, h5⟩
    exact ⟨h1, h2, h3, h4, _, h5⟩
  · rintro ⟨h1, h2, h3, h4, d, h5⟩
    refine ⟨⟨⟨⟨h1, h2⟩, h3⟩, h4⟩, ?_⟩
    cases kids with
    | nil => simp at h2
    | cons x r =>
      obtain ⟨s, c⟩ := x
      have := ((rbKids_cons ..).mp h5).2.1
      simpa [this] using h5


/-! ### bounds -/

theorem ltHi_none (k : Bytes) : ltHi none k = true := rfl
theorem geLo_none (k : Bytes) : geLo none k = true := rfl
theorem ltHi_some (h k : Bytes) : ltHi (some h) k = Bytes.lt k h := rfl
theorem geLo_some (l k : Bytes) : geLo (some l) k = !Bytes.lt k l := rfl

/-- `a ≤ b` in byte order -/
def Ble (a b : Bytes) : Prop := Bytes.lt b a = false

theorem lt_of_lt_of_ble {a b c : Bytes} (h1 : Bytes.lt a b = true) (h2 : Ble b c) : Bytes.lt a c = true := by
  by_cases hbc : b = c
  · subst hbc; exact h1
  · exact Bytes.lt_trans h1 (Bytes.lt_total h2 (fun h => hbc h.symm))

theorem lt_of_ble_of_lt {a b c : Bytes} (h1 : Ble a b) (h2 : Bytes.lt b c = true) : Bytes.lt a c = true := by
  by_cases hab : a = b
  · subst hab; exact h2
  · exact Bytes.lt_trans (Bytes.lt_total h1 (fun h => hab h.symm)) h2

theorem ble_of_lt {a b : Bytes} (h : Bytes.lt a b = true) : Ble a b := Bytes.lt_asymm h

theorem ble_refl (a : Bytes) : Ble a a := Bytes.lt_irrefl a

theorem ble_trans {a b c : Bytes} (h1 : Ble a b) (h2 : Ble b c) : Ble a c := by
  unfold Ble
  cases h : Bytes.lt c a with
  | false => rfl
  | true =>
    have := lt_of_lt_of_ble h h1
    have := lt_of_lt_of_ble this h2
    rw [Bytes.lt_irrefl] at this; exact this.symm

def HiLe (hi hi' : Option Bytes) : Prop := ∀ k, ltHi hi k = true → ltHi hi' k = true

theorem HiLe.refl (hi : Option Bytes) : HiLe hi hi := fun _ h => h
theorem HiLe.none (hi : Option Bytes) : HiLe hi none := fun _ _ => rfl
theorem HiLe.of_ble {a b : Bytes} (h : Ble a b) : HiLe (some a) (some b) := fun _ hk => lt_of_lt_of_ble hk h
theorem HiLe.of_ltHi {a : Bytes} {hi : Option Bytes} (h : ltHi hi a = true) : HiLe (some a) hi := by
  intro k hk
  cases hi with
  | none => rfl
  | some b => exact Bytes.lt_trans hk h

theorem Bnd.hi {lo hi hi' : Option Bytes} {k : Bytes} (hh : HiLe hi hi') (h : Bnd lo hi k) : Bnd lo hi' k :=
  ⟨h.1, h.2.1, hh _ h.2.2⟩

theorem Bnd.lo_none {lo hi : Option Bytes} {k : Bytes} (h : Bnd lo hi k) : Bnd none hi k :=
  ⟨h.1, rfl, h.2.2⟩

/-! ### monotonicity of the invariant in its parameters -/

theorem FlagsOk.pmat_true {pmat : Bool} {h : Hd} (hf : FlagsOk pmat h) : FlagsOk true h := ⟨hf.um, fun _ => rfl⟩

mutual
theorem rbN_hi : ∀ (n : N) (root pmat : Bool) (lo hi hi' : Option Bytes), HiLe hi hi' →
    rbN root pmat lo hi n = true → rbN root pmat lo hi' n = true
  | .leaf h items, root, pmat, lo, hi, hi', hh, hn => by
    rw [rbN_leaf] at hn ⊢
    exact ⟨hn.fl, hn.ne, hn.srt, fun i hi => (hn.bnd i hi).hi hh⟩
  | .branch h kids, root, pmat, lo, hi, hi', hh, hn => by
    rw [rbN_branch] at hn ⊢
    obtain ⟨d, hd⟩ := hn.kids
    exact ⟨hn.fl, hn.len, hn.srt, fun i hi => (hn.bnd i hi).hi hh, d, rbKids_hi kids _ _ _ _ _ hh hd⟩
theorem rbKids_hi : ∀ (kids : List (Bytes × N)) (pmat bd : Bool) (hi hi' : Option Bytes) (d : Nat), HiLe hi hi' →
    rbKids pmat bd hi kids d = true → rbKids pmat bd hi' kids d = true
  | [], _, _, _, _, _, _, _ => rbKids_nil ..
  | (s, c) :: r, pmat, bd, hi, hi', d, hh, hk => by
    rw [rbKids_cons] at hk ⊢
    refine ⟨hk.1, hk.2.1, ?_, rbKids_hi r _ _ _ _ _ hh hk.2.2.2⟩
    cases r with
    | nil => exact rbN_hi c _ _ _ _ _ hh hk.2.2.1
    | cons x r' => exact hk.2.2.1
end

mutual
theorem rbN_lo_none : ∀ (n : N) (root pmat : Bool) (l : Bytes) (hi : Option Bytes),
    rbN root pmat (some l) hi n = true → rbN root pmat none hi n = true
  | .leaf h items, root, pmat, l, hi, hn => by
    rw [rbN_leaf] at hn ⊢
    exact ⟨hn.fl, hn.ne, hn.srt, fun i hi => (hn.bnd i hi).lo_none⟩
  | .branch h kids, root, pmat, l, hi, hn => by
    rw [rbN_branch] at hn ⊢
    obtain ⟨d, hd⟩ := hn.kids
    exact ⟨hn.fl, hn.len, hn.srt, fun i hi => (hn.bnd i hi).lo_none, d, rbKids_bd_false kids _ _ _ hd⟩
theorem rbKids_bd_false : ∀ (kids : List (Bytes × N)) (pmat : Bool) (hi : Option Bytes) (d : Nat),
    rbKids pmat true hi kids d = true → rbKids pmat false hi kids d = true
  | [], _, _, _, _ => rbKids_nil ..
  | (s, c) :: r, pmat, hi, d, hk => by
    rw [rbKids_cons] at hk ⊢
    exact ⟨hk.1, hk.2.1, rbN_lo_none c _ _ _ _ hk.2.2.1, hk.2.2.2⟩
end

theorem rbKids_bd (bd : Bool) {kids : List (Bytes × N)} {pmat : Bool} {hi : Option Bytes} {d : Nat}
    (h : rbKids pmat true hi kids d = true) : rbKids pmat bd hi kids d = true := by
  cases bd
  · exact rbKids_bd_false _ _ _ _ h
  · exact h

theorem rbN_pmat_true {n : N} {root pmat : Bool} {lo hi : Option Bytes}
    (h : rbN root pmat lo hi n = true) : rbN root true lo hi n = true := by
  cases n with
  | leaf hd items => rw [rbN_leaf] at h ⊢; exact ⟨h.fl.pmat_true, h.ne, h.srt, h.bnd⟩
  | branch hd kids => rw [rbN_branch] at h ⊢; exact ⟨h.fl.pmat_true, h.len, h.srt, h.bnd, h.kids⟩

theorem rbKids_pmat_true : ∀ {kids : List (Bytes × N)} {pmat bd : Bool} {hi : Option Bytes} {d : Nat},
    rbKids pmat bd hi kids d = true → rbKids true bd hi kids d = true
  | [], _, _, _, _, _ => rbKids_nil ..
  | (s, c) :: r, pmat, bd, hi, d, hk => by
    rw [rbKids_cons] at hk ⊢
    exact ⟨hk.1, hk.2.1, rbN_pmat_true hk.2.2.1, rbKids_pmat_true hk.2.2.2⟩

/-! ### lists of children -/

/-- upper bound of the last child of `r`'s left neighbour -/
def hiOf (r : List (Bytes × N)) (hi : Option Bytes) : Option Bytes := (r.head?.map (·.1)).orElse (fun _ => hi)

@[local simp] theorem hiOf_nil (hi : Option Bytes) : hiOf [] hi = hi := rfl
@[local simp] theorem hiOf_cons (s : Bytes) (c : N) (r : List (Bytes × N)) (hi : Option Bytes) : hiOf ((s, c) :: r) hi = some s := rfl

theorem hiOf_append (a b : List (Bytes × N)) (hi : Option Bytes) : hiOf (a ++ b) hi = hiOf a (hiOf b hi) := by
  cases a with
  | nil => rfl
  | cons x a' => rfl

theorem rbKids_cons' (pmat bd : Bool) (hi : Option Bytes) (s : Bytes) (c : N) (r : List (Bytes × N)) (d : Nat) :
    rbKids pmat bd hi ((s, c) :: r) d = true ↔
      s = ckey c ∧ depth c = d ∧
      rbN false pmat (if bd then some s else none) (hiOf r hi) c = true ∧
      rbKids pmat true hi r d = true := rbKids_cons ..

theorem rbKids_append : ∀ (a b : List (Bytes × N)) (pmat bd : Bool) (hi : Option Bytes) (d : Nat),
    rbKids pmat bd hi (a ++ b) d = true ↔
      rbKids pmat bd (hiOf b hi) a d = true ∧ rbKids pmat (bd || !a.isEmpty) hi b d = true
  | [], b, pmat, bd, hi, d => by simp [rbKids_nil]
  | (s, c) :: a', b, pmat, bd, hi, d => by
    rw [List.cons_append, rbKids_cons', rbKids_cons', rbKids_append a' b, hiOf_append]
    simp [and_assoc]

theorem rbKids_depth : ∀ {kids : List (Bytes × N)} {pmat bd : Bool} {hi : Option Bytes} {d : Nat},
    rbKids pmat bd hi kids d = true → ∀ p ∈ kids, depth p.2 = d
  | [], _, _, _, _, _ => by simp
  | (s, c) :: r, pmat, bd, hi, d, hk => by
    rw [rbKids_cons] at hk
    intro p hp
    rcases List.mem_cons.mp hp with rfl | hp
    · exact hk.2.1
    · exact rbKids_depth hk.2.2.2 p hp

theorem rbKids_ckey : ∀ {kids : List (Bytes × N)} {pmat bd : Bool} {hi : Option Bytes} {d : Nat},
    rbKids pmat bd hi kids d = true → ∀ p ∈ kids, p.1 = ckey p.2
  | [], _, _, _, _, _ => by simp
  | (s, c) :: r, pmat, bd, hi, d, hk => by
    rw [rbKids_cons] at hk
    intro p hp
    rcases List.mem_cons.mp hp with rfl | hp
    · exact hk.1
    · exact rbKids_ckey hk.2.2.2 p hp

theorem depthKids_eq : ∀ {kids : List (Bytes × N)} {d : Nat}, (∀ p ∈ kids, depth p.2 = d) → kids ≠ [] →
    depthKids kids = d
  | [], _, _, hne => absurd rfl hne
  | [(s, c)], d, h, _ => by
    have := h (s, c) (List.mem_cons_self ..)
    simp only [depthKids] at *
    omega
  | (s, c) :: x :: r, d, h, _ => by
    have h1 := h (s, c) (List.mem_cons_self ..)
    have h2 := depthKids_eq (kids := x :: r) (d := d) (fun p hp => h p (List.mem_cons_of_mem _ hp)) (by simp)
    obtain ⟨s', c'⟩ := x
    rw [depthKids, h2]
    simp only at h1
    omega

theorem flattenKids_append : ∀ (a b : List (Bytes × N)), flattenKids (a ++ b) = flattenKids a ++ flattenKids b
  | [], b => by simp [flattenKids]
  | (s, c) :: a', b => by simp [flattenKids, flattenKids_append a' b]

theorem flattenKids_cons (s : Bytes) (c : N) (r : List (Bytes × N)) : flattenKids ((s, c) :: r) = flatten c ++ flattenKids r := by
  rw [flattenKids]

theorem depth_pos : ∀ n : N, 1 ≤ depth n
  | .leaf _ _ => by simp [depth]
  | .branch _ _ => by simp [depth]

theorem depth_leaf (h : Hd) (items : List Item) : depth (.leaf h items) = 1 := by rw [depth]
theorem depth_branch (h : Hd) (kids : List (Bytes × N)) : depth (.branch h kids) = 1 + depthKids kids := by rw [depth]

/-! ### `lowerBound` finds a separator at its own index -/

theorem lowerBound_mid : ∀ (pre : List Bytes) (s : Bytes) (post : List Bytes), Srt (pre ++ s :: post) →
    lowerBound (pre ++ s :: post) s = pre.length
  | [], s, post, _ => by
    rw [List.nil_append, lowerBound_cons, Bytes.lt_irrefl]; simp
  | a :: pre, s, post, h => by
    have h' : Srt (pre ++ s :: post) := (List.pairwise_cons.mp h).2
    have ha : Bytes.lt a s = true := (List.pairwise_cons.mp h).1 s (by simp)
    rw [List.cons_append, lowerBound_cons, ha, lowerBound_mid pre s post h']; simp

/-! ### headers -/

/-- `node.unbalanced = false` -/
def clr (n : N) : N := n.setHd { n.hd with unb := false }

/-- the header after `Bucket.node()` -/
def mhd (n : N) : Hd := if n.hd.mat then n.hd else { pgid := n.hd.pgid, mat := true, unb := false, key := n.firstKey }

theorem materialize_eq (n : N) : materialize n = n.setHd (mhd n) := by
  unfold materialize mhd
  by_cases h : n.hd.mat = true
  · simp only [h, if_true]; cases n <;> rfl
  · simp only [h]; rfl

@[local simp] theorem setHd_hd (n : N) (h : Hd) : (n.setHd h).hd = h := by cases n <;> rfl
@[local simp] theorem flatten_setHd (n : N) (h : Hd) : flatten (n.setHd h) = flatten n := by
  cases n <;> simp [N.setHd, flatten]
@[local simp] theorem depth_setHd (n : N) (h : Hd) : depth (n.setHd h) = depth n := by
  cases n <;> simp [N.setHd, depth]
@[local simp] theorem count_setHd (n : N) (h : Hd) : (n.setHd h).count = n.count := by cases n <;> rfl
@[local simp] theorem isLeaf_setHd (n : N) (h : Hd) : (n.setHd h).isLeaf = n.isLeaf := by cases n <;> rfl
@[local simp] theorem firstKey_setHd (n : N) (h : Hd) : (n.setHd h).firstKey = n.firstKey := by cases n <;> rfl
@[local simp] theorem setHd_leaf (h h' : Hd) (items : List Item) : (N.leaf h items).setHd h' = .leaf h' items := rfl
@[local simp] theorem setHd_branch (h h' : Hd) (kids : List (Bytes × N)) : (N.branch h kids).setHd h' = .branch h' kids := rfl
@[local simp] theorem hd_leaf (h : Hd) (items : List Item) : (N.leaf h items).hd = h := rfl
@[local simp] theorem hd_branch (h : Hd) (kids : List (Bytes × N)) : (N.branch h kids).hd = h := rfl

theorem mhd_mat (n : N) : (mhd n).mat = true := by
  unfold mhd; by_cases h : n.hd.mat = true <;> simp [h]
theorem mhd_key (n : N) : (mhd n).key = ckey n := by
  unfold mhd ckey; by_cases h : n.hd.mat = true <;> simp [h]
theorem mhd_pgid (n : N) : (mhd n).pgid = n.hd.pgid := by
  unfold mhd; by_cases h : n.hd.mat = true <;> simp [h]
theorem mhd_flags {pmat : Bool} (n : N) (h : FlagsOk pmat n.hd) : FlagsOk true (mhd n) := by
  unfold mhd; by_cases hm : n.hd.mat = true
  · simp only [hm, if_true]; exact h.pmat_true
  · simp only [hm]; exact ⟨fun h => by simp at h, fun _ => rfl⟩

/-! ### `rebalChild` without indices -/

def childS (th : Nat) (h : Hd) (pre : List (Bytes × N)) (s : Bytes) (n0 : N) (post : List (Bytes × N)) :
    Option (N × Bool) :=
  if n0.hd.unb = false then some (.branch h (pre ++ (s, n0) :: post), false) else
  let n := clr n0
  if n.size > th ∧ n.count > n.minKeys then some (.branch h (pre ++ (s, n) :: post), false) else
  let keys := pre.map (·.1) ++ s :: post.map (·.1)
  if n.count = 0 then
    if lowerBound keys n.hd.key = pre.length ∧ s = n.hd.key then
      some (.branch { h with unb := true } (pre ++ post), true)
    else none
  else
    if pre.length + post.length = 0 then none else
    if lowerBound keys n.hd.key ≠ pre.length then none else
    match pre.getLast? with
    | none =>
      match post with
      | [] => none
      | (sr, r0) :: post' =>
        if lowerBound keys (materialize r0).hd.key = 1 ∧ sr = (materialize r0).hd.key then
          (appendInodes n (materialize r0)).map (fun m => (.branch { h with unb := true } ((s, m) :: post'), true))
        else none
    | some (sl, l0) =>
      if s = n.hd.key then
        (appendInodes (materialize l0) n).map (fun m =>
          (.branch { h with unb := true } (pre.dropLast ++ (sl, m) :: post), true))
      else none

theorem eraseIdx_mid {α} : ∀ (pre : List α) (a b : α) (post : List α),
    (pre ++ a :: b :: post).eraseIdx (pre.length + 1) = pre ++ a :: post
  | [], a, b, post => rfl
  | x :: pre, a, b, post => by simp [eraseIdx_mid pre a b post]

theorem drop_mid {α} : ∀ (pre : List α) (a b : α) (post : List α),
    (pre ++ a :: b :: post).drop (pre.length + 1 + 1) = post
  | [], a, b, post => rfl
  | x :: pre, a, b, post => by simp [drop_mid pre a b post]

theorem rebalChild_eq (th : Nat) (h : Hd) (pre : List (Bytes × N)) (s : Bytes) (n0 : N) (post : List (Bytes × N)) :
    rebalChild th h (pre ++ (s, n0) :: post) pre.length = childS th h pre s n0 post := by
  unfold rebalChild childS
  rcases List.eq_nil_or_concat pre with rfl | ⟨pre', x, rfl⟩
  · cases post <;> simp [clr]
  · obtain ⟨sl, l0⟩ := x
    have hlen : ¬ (pre'.length + (post.length + 1 + 1) ≤ 1) := by omega
    simp [clr, eraseIdx_mid, drop_mid, hlen]

/-! ### `rbN` is the shared `rebN` -/

mutual
theorem rebN_eq_rbN : ∀ (n : N) (root pmat : Bool) (lo hi : Option Bytes),
    rebN root pmat lo hi n = rbN root pmat lo hi n
  | .leaf h items, root, pmat, lo, hi => by rw [rebN, rbN]
  | .branch h kids, root, pmat, lo, hi => by rw [rebN, rbN, rebKids_eq_rbKids kids]
theorem rebKids_eq_rbKids : ∀ (kids : List (Bytes × N)) (pmat : Bool) (lo hi : Option Bytes) (d : Nat),
    rebKids pmat lo hi kids d = rbKids pmat lo.isSome hi kids d
  | [], _, _, _, _ => by rw [rebKids, rbKids]
  | (s, c) :: r, pmat, lo, hi, d => by
    rw [rebKids, rbKids, rebN_eq_rbN c, rebKids_eq_rbKids r]
    have h1 : lo.map (fun _ => s) = if lo.isSome = true then some s else none := by cases lo <;> rfl
    have h2 : rbKids pmat (r.head?.map (·.1)).isSome hi r d = rbKids pmat true hi r d := by
      cases r with
      | nil => rw [rbKids, rbKids]
      | cons x r' => rfl
    rw [h1, h2]
end

theorem inTxR_iff (t : N) : InTxR t ↔ rbN true true none none t = true := by
  unfold InTxR; rw [rebN_eq_rbN]

/-! ### the transient state of a node whose own `rebalance()` is pending -/

/-- the invariant of a node with the requirement on the number of children relaxed to `mk` -/
def Wk (mk : Nat) (root pmat : Bool) (lo hi : Option Bytes) : N → Prop
  | .leaf h items => LeafOk root pmat lo hi h items
  | .branch h kids => BranchOk mk pmat lo hi h kids

theorem rbN_iff_Wk {root pmat : Bool} {lo hi : Option Bytes} {n : N} :
    rbN root pmat lo hi n = true ↔ Wk 2 root pmat lo hi n := by
  cases n with
  | leaf h items => exact rbN_leaf ..
  | branch h kids => exact rbN_branch ..

/-- a node that lost a child in a merge below it: a branch may have a single child, but then
    it is flagged `unbalanced` (its `rebalance()` is the next call) -/
def W (root pmat : Bool) (lo hi : Option Bytes) (n : N) : Prop :=
  Wk 1 root pmat lo hi n ∧ (rbN root pmat lo hi n = true ∨ n.hd.unb = true)

theorem Wk.mono {mk mk' : Nat} {root pmat : Bool} {lo hi : Option Bytes} {n : N} (hle : mk' ≤ mk)
    (h : Wk mk root pmat lo hi n) : Wk mk' root pmat lo hi n := by
  cases n with
  | leaf hd items => exact h
  | branch hd kids => exact ⟨h.fl, Nat.le_trans hle h.len, h.srt, h.bnd, h.kids⟩

theorem W_of_rbN {root pmat : Bool} {lo hi : Option Bytes} {n : N} (h : rbN root pmat lo hi n = true) :
    W root pmat lo hi n := ⟨(rbN_iff_Wk.mp h).mono (by omega), Or.inl h⟩

theorem Bnd.widen_hi {lo hi : Option Bytes} {sep k : Bytes} (h1 : ltHi hi sep = true) (h : Bnd lo (some sep) k) :
    Bnd lo hi k := h.hi (HiLe.of_ltHi h1)

theorem geLo_of_ble {lo : Option Bytes} {a b : Bytes} (h : geLo lo a = true) (hab : Ble a b) : geLo lo b = true := by
  cases lo with
  | none => rfl
  | some l =>
    rw [geLo_some] at h ⊢
    cases hbl : Bytes.lt b l with
    | false => rfl
    | true =>
      have := lt_of_ble_of_lt hab hbl
      rw [this] at h; exact h

theorem Bnd.ble_sep {hi : Option Bytes} {sep k : Bytes} (h : Bnd (some sep) hi k) : Ble sep k := by
  have := h.2.1
  rw [geLo_some] at this
  unfold Ble
  cases hk : Bytes.lt k sep with
  | false => rfl
  | true => rw [hk] at this; exact absurd this (by decide)

theorem Bnd.lt_sep {lo : Option Bytes} {sep k : Bytes} (h : Bnd lo (some sep) k) : Bytes.lt k sep = true := h.2.2

theorem Bnd.widen_lo {lo hi : Option Bytes} {sep k : Bytes} (h2 : geLo lo sep = true) (h : Bnd (some sep) hi k) :
    Bnd lo hi k := ⟨h.1, geLo_of_ble h2 h.ble_sep, h.2.2⟩

theorem srt_append {a b : List Bytes} {sep : Bytes} (ha : Srt a) (hb : Srt b)
    (h1 : ∀ x ∈ a, Bytes.lt x sep = true) (h2 : ∀ y ∈ b, Ble sep y) : Srt (a ++ b) := by
  unfold Srt
  rw [List.pairwise_append]
  exact ⟨ha, hb, fun x hx y hy => lt_of_lt_of_ble (h1 x hx) (h2 y hy)⟩

theorem depthKids_pos : ∀ {kids : List (Bytes × N)}, kids ≠ [] → 1 ≤ depthKids kids
  | [], h => absurd rfl h
  | (s, c) :: r, _ => by
    rw [depthKids]
    have := depth_pos c
    omega

theorem depthKids_append : ∀ (a b : List (Bytes × N)), depthKids (a ++ b) = max (depthKids a) (depthKids b)
  | [], b => by simp [depthKids]
  | (s, c) :: a', b => by
    simp only [List.cons_append, depthKids, depthKids_append a' b]
    omega

theorem merge_ok {l r : N} {lo hi : Option Bytes} {sep : Bytes}
    (hl : Wk 1 true true lo (some sep) l) (hr : Wk 1 true true (some sep) hi r)
    (hm : l.hd.mat = true) (hd : depth l = depth r) (hne : l.count ≠ 0 ∨ r.count ≠ 0)
    (h1 : ltHi hi sep = true) (h2 : geLo lo sep = true) :
    ∃ m, appendInodes l r = some m ∧ m.hd = l.hd ∧ flatten m = flatten l ++ flatten r ∧
      depth m = depth l ∧ rbN false true lo hi m = true := by
  cases l with
  | leaf h a =>
    cases r with
    | leaf h' b =>
      refine ⟨.leaf h (a ++ b), rfl, rfl, by simp [flatten], by simp [depth], ?_⟩
      rw [rbN_leaf]
      have hl : LeafOk true true lo (some sep) h a := hl
      have hr : LeafOk true true (some sep) hi h' b := hr
      refine ⟨hl.fl, ?_, ?_, ?_⟩
      · right; left
        simp only [N.count] at hne
        cases a <;> cases b <;> simp_all
      · rw [List.map_append]
        refine srt_append (sep := sep) hl.srt hr.srt ?_ ?_
        · intro x hx
          obtain ⟨i, hi, rfl⟩ := List.mem_map.mp hx
          exact (hl.bnd i hi).lt_sep
        · intro y hy
          obtain ⟨i, hi, rfl⟩ := List.mem_map.mp hy
          exact (hr.bnd i hi).ble_sep
      · intro i hi
        rcases List.mem_append.mp hi with hi | hi
        · exact (hl.bnd i hi).widen_hi h1
        · exact (hr.bnd i hi).widen_lo h2
    | branch h' b =>
      have hr : BranchOk 1 true (some sep) hi h' b := hr
      have : b ≠ [] := by intro hb; have := hr.len; simp [hb] at this
      have := depthKids_pos this
      simp only [depth] at hd
      omega
  | branch h a =>
    cases r with
    | leaf h' b =>
      have hl : BranchOk 1 true lo (some sep) h a := hl
      have : a ≠ [] := by intro hb; have := hl.len; simp [hb] at this
      have := depthKids_pos this
      simp only [depth] at hd
      omega
    | branch h' b =>
      have hl : BranchOk 1 true lo (some sep) h a := hl
      have hr : BranchOk 1 true (some sep) hi h' b := hr
      have hane : a ≠ [] := by intro hb; have := hl.len; simp [hb] at this
      have hbne : b ≠ [] := by intro hb; have := hr.len; simp [hb] at this
      obtain ⟨da, hka⟩ := hl.kids
      obtain ⟨db, hkb⟩ := hr.kids
      have hda := depthKids_eq (rbKids_depth hka) hane
      have hdb := depthKids_eq (rbKids_depth hkb) hbne
      have hdd : da = db := by simp only [depth, hda, hdb] at hd; omega
      subst hdd
      refine ⟨.branch h (a ++ b), rfl, rfl, by simp [flatten, flattenKids_append], ?_, ?_⟩
      · simp only [depth, depthKids_append, hda, hdb]; omega
      · rw [rbN_branch]
        refine ⟨hl.fl, ?_, ?_, ?_, da, ?_⟩
        · have := hl.len; have := hr.len; simp only [List.length_append]; omega
        · rw [List.map_append]
          refine srt_append (sep := sep) hl.srt hr.srt ?_ ?_
          · intro x hx
            obtain ⟨i, hi, rfl⟩ := List.mem_map.mp hx
            exact (hl.bnd i hi).lt_sep
          · intro y hy
            obtain ⟨i, hi, rfl⟩ := List.mem_map.mp hy
            exact (hr.bnd i hi).ble_sep
        · intro i hi
          rcases List.mem_append.mp hi with hi | hi
          · exact (hl.bnd i hi).widen_hi h1
          · exact (hr.bnd i hi).widen_lo h2
        · rw [rbKids_append]
          simp only [hd_branch] at hm
          constructor
          · refine rbKids_hi _ _ _ _ _ _ ?_ hka
            cases b with
            | nil => exact absurd rfl hbne
            | cons x b' =>
              obtain ⟨sb, cb⟩ := x
              exact HiLe.of_ble (hr.bnd (sb, cb) (List.mem_cons_self ..)).ble_sep
          · have : (lo.isSome || !a.isEmpty) = true := by cases a <;> simp_all
            rw [this, hm]
            exact rbKids_pmat_true hkb

/-! ### what a `rebalance()` call keeps of a node as seen from its parent -/

structure Same (n n' : N) : Prop where
  fl : flatten n' = flatten n
  dp : depth n' = depth n
  pg : n'.hd.pgid = n.hd.pgid
  key : n'.hd.key = n.hd.key
  mat : n'.hd.mat = n.hd.mat
  page : n.hd.mat = false → n' = n

theorem Same.refl (n : N) : Same n n := ⟨rfl, rfl, rfl, rfl, rfl, fun _ => rfl⟩

theorem Same.ckey {n n' : N} (h : Same n n') : ckey n' = ckey n := by
  cases hm : n.hd.mat with
  | false => rw [h.page hm]
  | true => unfold RebL.ckey; rw [h.mat, hm, h.key]; simp

theorem BranchOk.bndk {mk : Nat} {pmat : Bool} {lo hi : Option Bytes} {h : Hd} {kids : List (Bytes × N)}
    (hb : BranchOk mk pmat lo hi h kids) : ∀ k ∈ kids.map (·.1), Bnd lo hi k := by
  intro k hk
  obtain ⟨p, hp, rfl⟩ := List.mem_map.mp hk
  exact hb.bnd p hp

theorem BranchOk.mk' {mk : Nat} {pmat : Bool} {lo hi : Option Bytes} {h : Hd} {kids : List (Bytes × N)}
    (fl : FlagsOk pmat h) (len : mk ≤ kids.length) (srt : Srt (kids.map (·.1)))
    (bndk : ∀ k ∈ kids.map (·.1), Bnd lo hi k) (hk : ∃ d, rbKids h.mat lo.isSome hi kids d = true) :
    BranchOk mk pmat lo hi h kids :=
  ⟨fl, len, srt, fun p hp => bndk p.1 (List.mem_map_of_mem hp), hk⟩

/-- the facts about the children of a well-formed branch around one child -/
structure Around (pmat : Bool) (lo hi : Option Bytes) (h : Hd) (pre : List (Bytes × N)) (s : Bytes) (c : N)
    (post : List (Bytes × N)) (d : Nat) : Prop where
  fl : FlagsOk pmat h
  srt : Srt (pre.map (·.1) ++ s :: post.map (·.1))
  bndk : ∀ k ∈ pre.map (·.1) ++ s :: post.map (·.1), Bnd lo hi k
  hpre : rbKids h.mat lo.isSome (some s) pre d = true
  hkey : s = ckey c
  hdep : depth c = d
  hc : rbN false h.mat (if (lo.isSome || !pre.isEmpty) = true then some s else none) (hiOf post hi) c = true
  hpost : rbKids h.mat true hi post d = true

theorem BranchOk.around {mk : Nat} {pmat : Bool} {lo hi : Option Bytes} {h : Hd} {pre post : List (Bytes × N)}
    {s : Bytes} {c : N} (hP : BranchOk mk pmat lo hi h (pre ++ (s, c) :: post)) :
    ∃ d, Around pmat lo hi h pre s c post d := by
  obtain ⟨d, hk⟩ := hP.kids
  rw [rbKids_append, rbKids_cons'] at hk
  refine ⟨d, hP.fl, by simpa using hP.srt, by simpa using hP.bndk, hk.1, hk.2.1, hk.2.2.1, hk.2.2.2.1, hk.2.2.2.2⟩

theorem Around.ltHi_next {pmat : Bool} {lo hi : Option Bytes} {h : Hd} {pre post : List (Bytes × N)}
    {s : Bytes} {c : N} {d : Nat} (ha : Around pmat lo hi h pre s c post d) : ltHi (hiOf post hi) s = true := by
  cases post with
  | nil => exact (ha.bndk s (by simp)).2.2
  | cons x post' =>
    obtain ⟨sr, r0⟩ := x
    have := ha.srt
    unfold Srt at this
    rw [List.pairwise_append] at this
    exact (List.pairwise_cons.mp this.2.1).1 sr (by simp)

/-- put a child back -/
theorem Around.kids {pmat : Bool} {lo hi : Option Bytes} {h : Hd} {pre post : List (Bytes × N)}
    {s : Bytes} {c c'' : N} {d : Nat} (ha : Around pmat lo hi h pre s c post d)
    (hkey : ckey c'' = s) (hdp : depth c'' = d)
    (hN : rbN false h.mat (if (lo.isSome || !pre.isEmpty) = true then some s else none) (hiOf post hi) c'' = true) :
    rbKids h.mat lo.isSome hi (pre ++ (s, c'') :: post) d = true := by
  rw [rbKids_append, rbKids_cons']
  exact ⟨ha.hpre, hkey.symm, hdp, hN, ha.hpost⟩

/-- drop a child -/
theorem Around.kids_erase {pmat : Bool} {lo hi : Option Bytes} {h : Hd} {pre post : List (Bytes × N)}
    {s : Bytes} {c : N} {d : Nat} (ha : Around pmat lo hi h pre s c post d) :
    rbKids h.mat lo.isSome hi (pre ++ post) d = true := by
  rw [rbKids_append]
  exact ⟨rbKids_hi _ _ _ _ _ _ (HiLe.of_ltHi ha.ltHi_next) ha.hpre, rbKids_bd _ ha.hpost⟩

theorem srt_sub {a b : List Bytes} (h : a.Sublist b) (hb : Srt b) : Srt a := List.Pairwise.sublist h hb

theorem parent_replace {mk : Nat} {pmat : Bool} {lo hi : Option Bytes} {h : Hd} {pre post : List (Bytes × N)}
    {s : Bytes} {c c'' : N} (hP : BranchOk mk pmat lo hi h (pre ++ (s, c) :: post))
    (hkey : ckey c'' = s) (hfl : flatten c'' = flatten c) (hdp : depth c'' = depth c)
    (hN : rbN false h.mat (if (lo.isSome || !pre.isEmpty) = true then some s else none) (hiOf post hi) c'' = true)
    (hpage : h.mat = false → c'' = c) :
    BranchOk mk pmat lo hi h (pre ++ (s, c'') :: post) ∧
      Same (.branch h (pre ++ (s, c) :: post)) (.branch h (pre ++ (s, c'') :: post)) := by
  obtain ⟨d, ha⟩ := hP.around
  constructor
  · refine BranchOk.mk' hP.fl (by simpa using hP.len) (by simpa using ha.srt) (by simpa using ha.bndk)
      ⟨d, ha.kids hkey (hdp.trans ha.hdep) hN⟩
  · refine ⟨?_, ?_, rfl, rfl, rfl, ?_⟩
    · simp [flatten, flattenKids_append, flattenKids_cons, hfl]
    · simp only [depth, depthKids_append, depthKids, hdp]
    · intro hm; rw [hpage hm]

theorem Wk.setHd_mat {mk : Nat} {root pmat : Bool} {lo hi : Option Bytes} {n : N}
    (h : Wk mk root pmat lo hi n) {h' : Hd} (hf : FlagsOk true h') (hm : h'.mat = true) :
    Wk mk true true lo hi (n.setHd h') := by
  cases n with
  | leaf hd items =>
    have h : LeafOk root pmat lo hi hd items := h
    exact (⟨hf, Or.inl rfl, h.srt, h.bnd⟩ : LeafOk true true lo hi h' items)
  | branch hd kids =>
    have h : BranchOk mk pmat lo hi hd kids := h
    obtain ⟨d, hk⟩ := h.kids
    exact (⟨hf, h.len, h.srt, h.bnd, d, by rw [hm]; exact rbKids_pmat_true hk⟩ : BranchOk mk true lo hi h' kids)

theorem Wk.clr {mk : Nat} {root pmat : Bool} {lo hi : Option Bytes} {n : N}
    (h : Wk mk root pmat lo hi n) (hm : n.hd.mat = true) : Wk mk true true lo hi (clr n) :=
  h.setHd_mat ⟨fun h => by simp at h, fun _ => rfl⟩ hm

theorem Wk.materialize {mk : Nat} {root pmat : Bool} {lo hi : Option Bytes} {n : N}
    (h : Wk mk root pmat lo hi n) : Wk mk true true lo hi (materialize n) := by
  rw [materialize_eq]
  refine h.setHd_mat (mhd_flags (pmat := pmat) n ?_) (mhd_mat n)
  cases n with
  | leaf hd items => exact (h : LeafOk ..).fl
  | branch hd kids => exact (h : BranchOk ..).fl

theorem parent_erase {pmat : Bool} {lo hi : Option Bytes} {h : Hd} {pre post : List (Bytes × N)}
    {s : Bytes} {c : N} (hP : BranchOk 2 pmat lo hi h (pre ++ (s, c) :: post))
    (hmat : h.mat = true) (hempty : flatten c = []) :
    W false pmat lo hi (.branch { h with unb := true } (pre ++ post)) ∧
      Same (.branch h (pre ++ (s, c) :: post)) (.branch { h with unb := true } (pre ++ post)) := by
  obtain ⟨d, ha⟩ := hP.around
  have hk := ha.kids_erase
  have hlen : 1 ≤ (pre ++ post).length := by have := hP.len; simp at this ⊢; omega
  have hne : pre ++ post ≠ [] := by intro h0; rw [h0] at hlen; simp at hlen
  refine ⟨⟨?_, Or.inr rfl⟩, ?_⟩
  · show BranchOk 1 pmat lo hi { h with unb := true } (pre ++ post)
    refine BranchOk.mk' ⟨fun _ => hmat, hP.fl.mp⟩ hlen ?_ ?_ ⟨d, hk⟩
    · refine srt_sub ?_ ha.srt
      simp only [List.map_append]
      exact List.Sublist.append_left (List.sublist_cons_self ..) _
    · intro k hk
      apply ha.bndk
      simp only [List.map_append, List.mem_append, List.mem_cons] at hk ⊢
      rcases hk with hk | hk
      · exact Or.inl hk
      · exact Or.inr (Or.inr hk)
  · refine ⟨?_, ?_, rfl, rfl, rfl, ?_⟩
    · simp [flatten, flattenKids_append, flattenKids_cons, hempty]
    · have h1 := depthKids_eq (rbKids_depth hk) hne
      have h2 := depthKids_eq (rbKids_depth (ha.kids ha.hkey.symm ha.hdep ha.hc)) (by simp)
      simp only [depth, h1, h2]
    · intro hm; simp only [hd_branch] at hm; rw [hmat] at hm; exact absurd hm (by decide)

theorem ckey_of_hd {m : N} {hd : Hd} (h : m.hd = hd) (hm : hd.mat = true) : ckey m = hd.key := by
  unfold ckey; rw [h, hm]; simp

theorem geLo_if_of_lt {b : Bool} {a s : Bytes} (h : Bytes.lt a s = true) :
    geLo (if b = true then some a else none) s = true := by
  cases b
  · rfl
  · simp only [if_true, geLo_some, Bytes.lt_asymm h]; rfl

theorem parent_merge_right {pmat : Bool} {lo hi : Option Bytes} {h : Hd} {post' : List (Bytes × N)}
    {s sr : Bytes} {c c' r0 : N} (hP : BranchOk 2 pmat lo hi h ((s, c) :: (sr, r0) :: post'))
    (hmat : h.mat = true) (hs : Same c c') (hcm : c'.hd.mat = true)
    (hW : Wk 1 true true (if lo.isSome = true then some s else none) (some sr) (clr c'))
    (hne : c'.count ≠ 0) :
    ∃ m, appendInodes (clr c') (materialize r0) = some m ∧
      W false pmat lo hi (.branch { h with unb := true } ((s, m) :: post')) ∧
      Same (.branch h ((s, c) :: (sr, r0) :: post')) (.branch { h with unb := true } ((s, m) :: post')) := by
  obtain ⟨d, ha⟩ := (show BranchOk 2 pmat lo hi h ([] ++ (s, c) :: (sr, r0) :: post') from hP).around
  obtain ⟨d', hb⟩ := (show BranchOk 2 pmat lo hi h ([(s, c)] ++ (sr, r0) :: post') from hP).around
  have hdd : d = d' := by
    have := ((rbKids_cons' ..).mp ha.hpost).2.1
    rw [← this, hb.hdep]
  subst hdd
  have hlt : Bytes.lt s sr = true := by
    have := ha.srt
    simp only [List.map_nil, List.nil_append, List.map_cons] at this
    exact (List.pairwise_cons.mp this).1 sr (by simp)
  have hrN : rbN false h.mat (some sr) (hiOf post' hi) r0 = true := by simpa using hb.hc
  have hcc : c.hd.mat = true := by rw [← hs.mat]; exact hcm
  obtain ⟨m, hm1, hm2, hm3, hm4, hm5⟩ := merge_ok (l := clr c') (r := materialize r0)
    (lo := if lo.isSome = true then some s else none) (hi := hiOf post' hi) (sep := sr)
    hW (rbN_iff_Wk.mp hrN |>.mono (by omega)).materialize (by simp [clr, hcm])
    (by rw [materialize_eq]; simp [clr, hs.dp, ha.hdep, hb.hdep]) (Or.inl (by simpa [clr] using hne))
    hb.ltHi_next (geLo_if_of_lt hlt)
  have hkm : ckey m = s := by
    rw [ckey_of_hd hm2 (by simp [clr, hcm]), ha.hkey]
    simp [clr, hs.key, ckey, hcc]
  have hdm : depth m = d := by rw [hm4]; simp [clr, hs.dp, ha.hdep]
  have hk : rbKids h.mat lo.isSome hi ((s, m) :: post') d = true := by
    rw [rbKids_cons']
    refine ⟨hkm.symm, hdm, ?_, hb.hpost⟩
    rw [hmat]; exact hm5
  refine ⟨m, hm1, ⟨?_, Or.inr rfl⟩, ?_⟩
  · show BranchOk 1 pmat lo hi { h with unb := true } ((s, m) :: post')
    refine BranchOk.mk' ⟨fun _ => hmat, hP.fl.mp⟩ (by simp) ?_ ?_ ⟨d, hk⟩
    · refine srt_sub ?_ ha.srt
      simp only [List.map_cons, List.map_nil, List.nil_append]
      exact List.Sublist.cons_cons _ (List.sublist_cons_self ..)
    · intro k hk
      apply ha.bndk
      simp only [List.map_cons, List.map_nil, List.nil_append, List.mem_cons] at hk ⊢
      rcases hk with hk | hk
      · exact Or.inl hk
      · exact Or.inr (Or.inr hk)
  · refine ⟨?_, ?_, rfl, rfl, rfl, ?_⟩
    · simp [flatten, flattenKids_cons, hm3, clr, materialize_eq, hs.fl]
    · have h1 := depthKids_eq (rbKids_depth hk) (by simp)
      have h2 := depthKids_eq (rbKids_depth (ha.kids ha.hkey.symm ha.hdep ha.hc)) (by simp)
      simp only [List.nil_append] at h2
      simp only [depth, h1, h2]
    · intro hm; simp only [hd_branch] at hm; rw [hmat] at hm; exact absurd hm (by decide)

theorem parent_merge_left {pmat : Bool} {lo hi : Option Bytes} {h : Hd} {pre' post : List (Bytes × N)}
    {s sl : Bytes} {c c' l0 : N} (hP : BranchOk 2 pmat lo hi h (pre' ++ (sl, l0) :: (s, c) :: post))
    (hmat : h.mat = true) (hs : Same c c') (hcm : c'.hd.mat = true)
    (hW : Wk 1 true true (some s) (hiOf post hi) (clr c'))
    (hne : c'.count ≠ 0) :
    ∃ m, appendInodes (materialize l0) (clr c') = some m ∧
      W false pmat lo hi (.branch { h with unb := true } (pre' ++ (sl, m) :: post)) ∧
      Same (.branch h (pre' ++ (sl, l0) :: (s, c) :: post))
        (.branch { h with unb := true } (pre' ++ (sl, m) :: post)) := by
  obtain ⟨d, ha⟩ := hP.around
  obtain ⟨d', hb⟩ := (show BranchOk 2 pmat lo hi h ((pre' ++ [(sl, l0)]) ++ (s, c) :: post) by simpa using hP).around
  have hdd : d = d' := by
    have := ((rbKids_cons' ..).mp ha.hpost).2.1
    rw [← this, hb.hdep]
  subst hdd
  have hlt : Bytes.lt sl s = true := by
    have := ha.srt
    unfold Srt at this
    rw [List.pairwise_append] at this
    exact (List.pairwise_cons.mp this.2.1).1 s (by simp)
  have hlN : rbN false h.mat (if (lo.isSome || !pre'.isEmpty) = true then some sl else none) (some s) l0 = true := by
    simpa using ha.hc
  have hcc : c.hd.mat = true := by rw [← hs.mat]; exact hcm
  obtain ⟨m, hm1, hm2, hm3, hm4, hm5⟩ := merge_ok (l := materialize l0) (r := clr c')
    (lo := if (lo.isSome || !pre'.isEmpty) = true then some sl else none) (hi := hiOf post hi) (sep := s)
    (rbN_iff_Wk.mp hlN |>.mono (by omega)).materialize hW (by rw [materialize_eq]; simp [mhd_mat])
    (by rw [materialize_eq]; simp [clr, hs.dp, ha.hdep, hb.hdep]) (Or.inr (by simpa [clr] using hne))
    hb.ltHi_next (geLo_if_of_lt hlt)
  have hkm : ckey m = sl := by
    rw [materialize_eq, setHd_hd] at hm2
    rw [ckey_of_hd hm2 (mhd_mat l0), mhd_key, ← ha.hkey]
  have hdm : depth m = d := by rw [hm4, materialize_eq]; simp [ha.hdep]
  have hk : rbKids h.mat lo.isSome hi (pre' ++ (sl, m) :: post) d = true := by
    rw [rbKids_append, rbKids_cons']
    refine ⟨ha.hpre, hkm.symm, hdm, ?_, hb.hpost⟩
    rw [hmat]; exact hm5
  refine ⟨m, hm1, ⟨?_, Or.inr rfl⟩, ?_⟩
  · show BranchOk 1 pmat lo hi { h with unb := true } (pre' ++ (sl, m) :: post)
    refine BranchOk.mk' ⟨fun _ => hmat, hP.fl.mp⟩ (by simp; omega) ?_ ?_ ⟨d, hk⟩
    · refine srt_sub ?_ ha.srt
      simp only [List.map_append, List.map_cons]
      exact List.Sublist.append_left (List.Sublist.cons_cons _ (List.sublist_cons_self ..)) _
    · intro k hk
      apply ha.bndk
      simp only [List.map_append, List.map_cons, List.mem_append, List.mem_cons] at hk ⊢
      rcases hk with hk | hk | hk
      · exact Or.inl hk
      · exact Or.inr (Or.inl hk)
      · exact Or.inr (Or.inr (Or.inr hk))
  · refine ⟨?_, ?_, rfl, rfl, rfl, ?_⟩
    · simp [flatten, flattenKids_append, flattenKids_cons, hm3, clr, materialize_eq, hs.fl]
    · have h1 := depthKids_eq (rbKids_depth hk) (by simp)
      have h2 := depthKids_eq (rbKids_depth (ha.kids ha.hkey.symm ha.hdep ha.hc)) (by simp)
      simp only [depth, h1, h2]
    · intro hm; simp only [hd_branch] at hm; rw [hmat] at hm; exact absurd hm (by decide)

theorem Wk.flags {mk : Nat} {root pmat : Bool} {lo hi : Option Bytes} {n : N}
    (h : Wk mk root pmat lo hi n) : FlagsOk pmat n.hd := by
  cases n with
  | leaf hd items => exact (h : LeafOk ..).fl
  | branch hd kids => exact (h : BranchOk ..).fl

theorem rbN_clr_of_big {root pmat : Bool} {lo hi : Option Bytes} {n : N}
    (h : Wk 1 root pmat lo hi n) (hb : (clr n).count > (clr n).minKeys) : rbN false pmat lo hi (clr n) = true := by
  cases n with
  | leaf hd items =>
    have h : LeafOk root pmat lo hi hd items := h
    simp only [clr, setHd_leaf, N.count, N.minKeys, N.isLeaf, if_true] at hb ⊢
    rw [rbN_leaf]
    refine ⟨⟨fun h => by simp at h, h.fl.mp⟩, Or.inr (Or.inl ?_), h.srt, h.bnd⟩
    intro h0; rw [h0] at hb; simp at hb
  | branch hd kids =>
    have h : BranchOk 1 pmat lo hi hd kids := h
    simp only [clr, setHd_branch, N.count, N.minKeys, N.isLeaf] at hb ⊢
    rw [rbN_branch]
    exact ⟨⟨fun h => by simp at h, h.fl.mp⟩, by simp at hb; omega, h.srt, h.bnd, h.kids⟩

theorem Wk.empty {root pmat : Bool} {lo hi : Option Bytes} {n : N}
    (h : Wk 1 root pmat lo hi n) (h0 : n.count = 0) : flatten n = [] := by
  cases n with
  | leaf hd items => simp only [N.count] at h0; simp [flatten, List.eq_nil_of_length_eq_zero h0]
  | branch hd kids =>
    have h : BranchOk 1 pmat lo hi hd kids := h
    have := h.len
    simp only [N.count] at h0; omega

theorem childS_ok (th : Nat) {h : Hd} {pre post : List (Bytes × N)} {s : Bytes} {c c' : N} {pmat : Bool}
    {lo hi : Option Bytes} (hP : BranchOk 2 pmat lo hi h (pre ++ (s, c) :: post)) (hs : Same c c')
    (hW : W false h.mat (if (lo.isSome || !pre.isEmpty) = true then some s else none) (hiOf post hi) c') :
    ∃ P' call, childS th h pre s c' post = some (P', call) ∧
      (if call = true then W false pmat lo hi P' else rbN false pmat lo hi P' = true) ∧
      Same (.branch h (pre ++ (s, c) :: post)) P' := by
  obtain ⟨d, ha⟩ := hP.around
  have hkey : ckey c' = s := hs.ckey.trans ha.hkey.symm
  have hcfl : FlagsOk h.mat c.hd := (rbN_iff_Wk.mp ha.hc).flags
  by_cases hu : c'.hd.unb = false
  · have hN := hW.2.resolve_right (by simp [hu])
    obtain ⟨h1, h2⟩ := parent_replace hP hkey hs.fl hs.dp hN (fun hm => hs.page (by
      cases hcm : c.hd.mat with
      | false => rfl
      | true => rw [hcfl.mp hcm] at hm; exact absurd hm (by decide)))
    refine ⟨_, false, by unfold childS; rw [if_pos hu], ?_, h2⟩
    simpa using (rbN_branch ..).mpr h1
  · have hu' : c'.hd.unb = true := by simpa using hu
    have hcm : c'.hd.mat = true := hW.1.flags.um hu'
    have hmat : h.mat = true := hW.1.flags.mp hcm
    have hck : c'.hd.key = s := by rw [← hkey]; simp [ckey, hcm]
    by_cases hbig : (clr c').size > th ∧ (clr c').count > (clr c').minKeys
    · have hN := rbN_clr_of_big hW.1 hbig.2
      obtain ⟨h1, h2⟩ := parent_replace (c'' := clr c') hP (by simpa [ckey, clr, hcm] using hck) (by simp [clr, hs.fl])
        (by simp [clr, hs.dp]) hN (fun hm => by rw [hmat] at hm; exact absurd hm (by decide))
      refine ⟨_, false, by unfold childS; rw [if_neg hu]; simp only [if_pos hbig], ?_, h2⟩
      simpa using (rbN_branch ..).mpr h1
    · have hlb : lowerBound (pre.map (·.1) ++ s :: post.map (·.1)) (clr c').hd.key = pre.length := by
        have : (clr c').hd.key = s := by simpa [clr] using hck
        rw [this, lowerBound_mid _ _ _ ha.srt, List.length_map]
      have hsk : s = (clr c').hd.key := by simpa [clr] using hck.symm
      by_cases h0 : (clr c').count = 0
      · have hemp : flatten c = [] := by rw [← hs.fl]; exact hW.1.empty (by simpa [clr] using h0)
        obtain ⟨h1, h2⟩ := parent_erase hP hmat hemp
        refine ⟨_, true, by unfold childS; rw [if_neg hu]; simp only [if_neg hbig, if_pos h0, if_pos (And.intro hlb hsk)], ?_, h2⟩
        simpa using h1
      · have hne : c'.count ≠ 0 := by simpa [clr] using h0
        rcases List.eq_nil_or_concat pre with rfl | ⟨pre', x, rfl⟩
        · cases post with
          | nil => have := hP.len; simp at this
          | cons x post' =>
            obtain ⟨sr, r0⟩ := x
            have hWk : Wk 1 true true (if lo.isSome = true then some s else none) (some sr) (clr c') := by
              simpa using hW.1.clr hcm
            obtain ⟨m, hm1, h1, h2⟩ := parent_merge_right hP hmat hs hcm hWk hne
            obtain ⟨d', hb⟩ := (show BranchOk 2 pmat lo hi h ([(s, c)] ++ (sr, r0) :: post') from hP).around
            have hkr : (materialize r0).hd.key = sr := by
              rw [materialize_eq, setHd_hd, mhd_key, ← hb.hkey]
            have hlb1 : lowerBound (s :: sr :: post'.map (·.1)) sr = 1 := by
              have := lowerBound_mid [s] sr (post'.map (·.1)) (by simpa using ha.srt)
              simpa using this
            refine ⟨_, true, ?_, by simpa using h1, h2⟩
            unfold childS
            rw [if_neg hu]
            simp only [if_neg hbig, if_neg h0]
            simp [hkr, hlb1, hm1]
            simpa using hlb
        · obtain ⟨sl, l0⟩ := x
          have hP' : BranchOk 2 pmat lo hi h (pre' ++ (sl, l0) :: (s, c) :: post) := by simpa using hP
          have hWk : Wk 1 true true (some s) (hiOf post hi) (clr c') := by
            simpa using hW.1.clr hcm
          obtain ⟨m, hm1, h1, h2⟩ := parent_merge_left hP' hmat hs hcm hWk hne
          refine ⟨_, true, ?_, by simpa using h1, by simpa using h2⟩
          unfold childS
          rw [if_neg hu]
          simp only [if_neg hbig, if_neg h0]
          simp [hm1]
          exact ⟨by simpa using hlb, hsk⟩

/-! ### the walk down and the calls on the way back up -/

theorem getElem?_split {α} : ∀ {l : List α} {p : Nat} {a : α}, l[p]? = some a →
    ∃ pre post, l = pre ++ a :: post ∧ pre.length = p
  | [], p, a, h => by simp at h
  | x :: l, 0, a, h => by
    simp only [List.getElem?_cons_zero, Option.some.injEq] at h
    exact ⟨[], l, by simp [h], rfl⟩
  | x :: l, p+1, a, h => by
    simp only [List.getElem?_cons_succ] at h
    obtain ⟨pre, post, h1, h2⟩ := getElem?_split h
    exact ⟨x :: pre, post, by simp [h1], by simp [h2]⟩

theorem getElem?_mid {α} (pre : List α) (a : α) (post : List α) : (pre ++ a :: post)[pre.length]? = some a := by
  simp

theorem set_mid {α} (pre : List α) (a b : α) (post : List α) : (pre ++ a :: post).set pre.length b = pre ++ b :: post := by
  simp

theorem rbN_root {root pmat : Bool} {lo hi : Option Bytes} {n : N} (h : rbN false pmat lo hi n = true) :
    rbN root pmat lo hi n = true := by
  cases n with
  | leaf hd items =>
    rw [rbN_leaf] at h ⊢
    exact ⟨h.fl, Or.inr (h.ne.resolve_left (by decide)), h.srt, h.bnd⟩
  | branch hd kids => rw [rbN_branch] at h ⊢; exact h

theorem W_root {root pmat : Bool} {lo hi : Option Bytes} {n : N} (h : W false pmat lo hi n) :
    W root pmat lo hi n := by
  refine ⟨?_, h.2.imp rbN_root id⟩
  cases n with
  | leaf hd items =>
    have h1 : LeafOk false pmat lo hi hd items := h.1
    exact (⟨h1.fl, Or.inr (h1.ne.resolve_left (by decide)), h1.srt, h1.bnd⟩ : LeafOk root pmat lo hi hd items)
  | branch hd kids => exact h.1

theorem rebalGo_ok (th : Nat) : ∀ (path : List Nat) (n x : N) (root pmat : Bool) (lo hi : Option Bytes),
    rbN root pmat lo hi n = true → nodeAt path n = some x →
    ∃ n' call, rebalGo th path n = some (n', call) ∧
      (if call = true then W root pmat lo hi n' else rbN root pmat lo hi n' = true) ∧ Same n n'
  | [], n, x, root, pmat, lo, hi, hn, _ => ⟨n, true, by rw [rebalGo], by simpa using W_of_rbN hn, Same.refl n⟩
  | p :: rest, .leaf h items, x, root, pmat, lo, hi, hn, hx => by simp [nodeAt] at hx
  | p :: rest, .branch h kids, x, root, pmat, lo, hi, hn, hx => by
    rw [nodeAt] at hx
    cases hk : kids[p]? with
    | none => rw [hk] at hx; simp at hx
    | some sc =>
      obtain ⟨s, c⟩ := sc
      rw [hk] at hx
      simp only [Option.bind_some] at hx
      obtain ⟨pre, post, rfl, rfl⟩ := getElem?_split hk
      have hP : BranchOk 2 pmat lo hi h (pre ++ (s, c) :: post) := (rbN_branch ..).mp hn
      obtain ⟨d, ha⟩ := hP.around
      obtain ⟨c', call, hgo, hinv, hs⟩ := rebalGo_ok th rest c x _ _ _ _ ha.hc hx
      rw [rebalGo]
      simp only [hk, hgo, set_mid]
      cases call with
      | true =>
        simp only [if_true] at hinv ⊢
        rw [rebalChild_eq]
        obtain ⟨P', call', h1, h2, h3⟩ := childS_ok th hP hs hinv
        refine ⟨P', call', h1, ?_, h3⟩
        cases call' with
        | true => simpa using W_root (by simpa using h2)
        | false => simpa using rbN_root (by simpa using h2)
      | false =>
        simp only [Bool.false_eq_true, if_false] at hinv ⊢
        have hcfl : FlagsOk h.mat c.hd := (rbN_iff_Wk.mp ha.hc).flags
        obtain ⟨h1, h2⟩ := parent_replace hP (hs.ckey.trans ha.hkey.symm) hs.fl hs.dp hinv (fun hm => hs.page (by
          cases hcm : c.hd.mat with
          | false => rfl
          | true => rw [hcfl.mp hcm] at hm; exact absurd hm (by decide)))
        exact ⟨_, false, rfl, by simpa using (rbN_branch ..).mpr h1, h2⟩

/-! ### the root -/

theorem rebalRoot_ok (th : Nat) {r : N} (hW : W true true none none r) :
    ∃ t', rebalRoot th r = some t' ∧ rbN true true none none t' = true ∧ flatten t' = flatten r ∧
      depth t' ≤ depth r := by
  by_cases hu : r.hd.unb = false
  · exact ⟨r, by simp [rebalRoot, hu], hW.2.resolve_right (by simp [hu]), rfl, Nat.le_refl _⟩
  · have hu' : r.hd.unb = true := by simpa using hu
    have hm : r.hd.mat = true := hW.1.flags.um hu'
    by_cases hbig : (clr r).size > th ∧ (clr r).count > (clr r).minKeys
    · refine ⟨clr r, ?_, rbN_root (rbN_clr_of_big hW.1 hbig.2), by simp [clr], by simp [clr]⟩
      unfold rebalRoot
      simp only [hu', Bool.not_true, Bool.false_eq_true, if_false]
      exact if_pos hbig
    · have hbig' := hbig
      unfold clr at hbig'
      cases r with
      | leaf hd items =>
        refine ⟨clr (.leaf hd items), ?_, ?_, by simp [clr, flatten], by simp [clr, depth]⟩
        · unfold rebalRoot
          simp only [hu', Bool.not_true, Bool.false_eq_true, if_false]
          rw [if_neg hbig']
          rfl
        · have h1 : LeafOk true true none none hd items := hW.1
          simp only [clr, setHd_leaf]
          rw [rbN_leaf]
          exact ⟨⟨fun h => by simp at h, fun _ => rfl⟩, Or.inl rfl, h1.srt, h1.bnd⟩
      | branch hd kids =>
        have h1 : BranchOk 1 true none none hd kids := hW.1
        simp only [hd_branch] at hu' hm
        match kids, h1 with
        | [], h1 => have := h1.len; simp at this
        | [(s, c)], h1 =>
          obtain ⟨d, ha⟩ := (show BranchOk 1 true none none hd ([] ++ (s, c) :: []) from h1).around
          have hc : rbN false hd.mat none none c = true := by simpa using ha.hc
          have hmc := (rbN_iff_Wk.mp hc).materialize
          have hres := hmc.setHd_mat (h' := { hd with unb := false }) ⟨fun h => by simp at h, fun _ => rfl⟩ hm
          refine ⟨(materialize c).setHd { hd with unb := false }, ?_, rbN_iff_Wk.mpr hres, ?_, ?_⟩
          · unfold rebalRoot
            rw [if_neg hbig']
            simp only [hd_branch, setHd_branch]
            cases materialize c <;> simp [hu']
          · simp [materialize_eq, flatten, flattenKids]
          · simp [materialize_eq, depth, depthKids]
        | x :: y :: r, h1 =>
          refine ⟨clr (.branch hd (x :: y :: r)), ?_, ?_, by simp [clr, flatten], by simp [clr, depth]⟩
          · unfold rebalRoot
            rw [if_neg hbig']
            simp [hu', clr]
          · simp only [clr, setHd_branch]
            rw [rbN_branch]
            exact ⟨⟨fun h => by simp at h, fun _ => rfl⟩, by simp, h1.srt, h1.bnd, h1.kids⟩

theorem rebalanceAt_ok (th : Nat) (t : N) (path : List Nat) (n : N) (hi : InTxR t)
    (hp : nodeAt path t = some n) :
    ∃ t', rebalanceAt th t path = some t' ∧ InTxR t' ∧ flatten t' = flatten t ∧ depth t' ≤ depth t := by
  rw [inTxR_iff] at hi
  obtain ⟨r, call, h1, h2, h3⟩ := rebalGo_ok th path t n _ _ _ _ hi hp
  unfold rebalanceAt
  rw [h1]
  cases call with
  | false =>
    exact ⟨r, rfl, (inTxR_iff r).mpr (by simpa using h2), h3.fl, Nat.le_of_eq h3.dp⟩
  | true =>
    obtain ⟨t', h4, h5, h6, h7⟩ := rebalRoot_ok th (r := r) (by simpa using h2)
    exact ⟨t', by simpa using h4, (inTxR_iff t').mpr h5, h6.trans h3.fl, by rw [← h3.dp]; exact h7⟩

/-! ### `findMat` -/

theorem findSome?_range_some {α} {f : Nat → Option α} {n : Nat} {a : α}
    (h : (List.range n).findSome? f = some a) : ∃ i, i < n ∧ f i = some a := by
  obtain ⟨i, hi, hf⟩ := List.exists_of_findSome?_eq_some h
  exact ⟨i, List.mem_range.mp hi, hf⟩

theorem findMat_nodeAt {pg : Nat} : ∀ {fuel : Nat} {t : N} {path : List Nat}, findMat pg fuel t = some path →
    ∃ n, nodeAt path t = some n ∧ n.hd.mat = true ∧ n.hd.pgid = pg
  | 0, t, path, h => by simp [findMat] at h
  | fuel+1, t, path, h => by
    unfold findMat at h
    by_cases h1 : t.hd.mat = true ∧ t.hd.pgid = pg
    · rw [if_pos h1] at h
      cases h
      exact ⟨t, rfl, h1.1, h1.2⟩
    · rw [if_neg h1] at h
      by_cases h2 : (!t.hd.mat) = true
      · rw [if_pos h2] at h; cases h
      · rw [if_neg h2] at h
        cases t with
        | leaf hd items => cases h
        | branch hd kids =>
          simp only at h
          obtain ⟨i, _, hf⟩ := findSome?_range_some h
          cases hk : kids[i]? with
          | none => rw [hk] at hf; cases hf
          | some sc =>
            obtain ⟨s, c⟩ := sc
            rw [hk] at hf
            simp only [Option.map_eq_some_iff] at hf
            obtain ⟨rest, hr, rfl⟩ := hf
            obtain ⟨n, hn⟩ := findMat_nodeAt hr
            exact ⟨n, by simp [nodeAt, hk, hn.1], hn.2⟩

/-! ### page ids and the set of unbalanced nodes -/

def pgidsBelow : N → List Nat
  | .leaf _ _ => []
  | .branch _ kids => pgidsKids kids

def unbBelow : N → List Nat
  | .leaf _ _ => []
  | .branch _ kids => unbPgidsKids kids

def unbHd (h : Hd) : List Nat := if h.unb then [h.pgid] else []

theorem pgids_eq (n : N) : pgids n = n.hd.pgid :: pgidsBelow n := by
  cases n <;> simp [pgids, pgidsBelow]

theorem unbPgids_eq (n : N) : unbPgids n = unbHd n.hd ++ unbBelow n := by
  cases n with
  | leaf h items => show _ = unbHd h ++ []; rw [List.append_nil]; rfl
  | branch h kids => rfl

theorem pgids_branch (h : Hd) (kids : List (Bytes × N)) : pgids (.branch h kids) = h.pgid :: pgidsKids kids := by
  rw [pgids]
theorem unbPgids_branch (h : Hd) (kids : List (Bytes × N)) :
    unbPgids (.branch h kids) = unbHd h ++ unbPgidsKids kids := by
  rw [unbPgids]; rfl

theorem pgidsKids_cons (s : Bytes) (c : N) (r : List (Bytes × N)) : pgidsKids ((s, c) :: r) = pgids c ++ pgidsKids r := by
  rw [pgidsKids]
theorem unbPgidsKids_cons (s : Bytes) (c : N) (r : List (Bytes × N)) :
    unbPgidsKids ((s, c) :: r) = unbPgids c ++ unbPgidsKids r := by
  rw [unbPgidsKids]

theorem pgidsKids_append : ∀ (a b : List (Bytes × N)), pgidsKids (a ++ b) = pgidsKids a ++ pgidsKids b
  | [], b => by simp [pgidsKids]
  | (s, c) :: a', b => by simp [pgidsKids, pgidsKids_append a' b]

theorem unbPgidsKids_append : ∀ (a b : List (Bytes × N)), unbPgidsKids (a ++ b) = unbPgidsKids a ++ unbPgidsKids b
  | [], b => by simp [unbPgidsKids]
  | (s, c) :: a', b => by simp [unbPgidsKids, unbPgidsKids_append a' b]

@[local simp] theorem pgidsBelow_setHd (n : N) (h : Hd) : pgidsBelow (n.setHd h) = pgidsBelow n := by cases n <;> rfl
@[local simp] theorem unbBelow_setHd (n : N) (h : Hd) : unbBelow (n.setHd h) = unbBelow n := by cases n <;> rfl

theorem unbHd_sub (h : Hd) : ∀ x ∈ unbHd h, x = h.pgid := by
  intro x hx; unfold unbHd at hx; split at hx <;> simp_all

mutual
theorem unb_sub_pgids : ∀ (n : N), ∀ x ∈ unbPgids n, x ∈ pgids n
  | .leaf h items => by
    intro x hx
    rw [unbPgids] at hx; rw [pgids]
    split at hx <;> simp_all
  | .branch h kids => by
    intro x hx
    rw [unbPgids_branch] at hx; rw [pgids_branch]
    rcases List.mem_append.mp hx with hx | hx
    · rw [unbHd_sub h x hx]; exact List.mem_cons_self ..
    · exact List.mem_cons_of_mem _ (unbKids_sub_pgidsKids kids x hx)
theorem unbKids_sub_pgidsKids : ∀ (kids : List (Bytes × N)), ∀ x ∈ unbPgidsKids kids, x ∈ pgidsKids kids
  | [] => by simp [unbPgidsKids]
  | (s, c) :: r => by
    intro x hx
    rw [unbPgidsKids_cons] at hx; rw [pgidsKids_cons]
    rcases List.mem_append.mp hx with hx | hx
    · exact List.mem_append_left _ (unb_sub_pgids c x hx)
    · exact List.mem_append_right _ (unbKids_sub_pgidsKids r x hx)
end

theorem unbBelow_sub (n : N) : ∀ x ∈ unbBelow n, x ∈ pgidsBelow n := by
  cases n with
  | leaf h items => simp [unbBelow]
  | branch h kids => exact unbKids_sub_pgidsKids kids

theorem pgids_clr (n : N) : pgids (clr n) = pgids n := by
  rw [pgids_eq, pgids_eq n]; simp [clr]

theorem unbPgids_clr (n : N) : unbPgids (clr n) = unbBelow n := by
  rw [unbPgids_eq]; simp [clr, unbHd]

theorem unbPgids_of_not_unb {n : N} (h : n.hd.unb = false) : unbPgids n = unbBelow n := by
  rw [unbPgids_eq]; simp [unbHd, h]

theorem pgids_materialize (n : N) : pgids (materialize n) = pgids n := by
  rw [materialize_eq, pgids_eq, pgids_eq n]; simp [mhd_pgid]

theorem unbBelow_materialize (n : N) : unbBelow (materialize n) = unbBelow n := by
  rw [materialize_eq]; simp

theorem unbPgids_materialize_sub (n : N) : ∀ x ∈ unbPgids (materialize n), x ∈ unbPgids n := by
  unfold materialize
  by_cases h : n.hd.mat = true
  · simp [h]
  · simp only [h]
    intro x hx
    rw [unbPgids_eq] at hx ⊢
    simp [unbHd] at hx
    exact List.mem_append_right _ hx

theorem appendInodes_pgids {l r m : N} (h : appendInodes l r = some m) :
    pgids m = pgids l ++ pgidsBelow r ∧ unbPgids m = unbPgids l ++ unbBelow r := by
  cases l with
  | leaf hl a =>
    cases r with
    | leaf hr b => simp [appendInodes] at h; subst h; simp [pgids, unbPgids, pgidsBelow, unbBelow]
    | branch hr b => simp [appendInodes] at h
  | branch hl a =>
    cases r with
    | leaf hr b => simp [appendInodes] at h
    | branch hr b =>
      simp [appendInodes] at h; subst h
      simp [pgids_branch, unbPgids_branch, pgidsBelow, unbBelow, pgidsKids_append, unbPgidsKids_append]

/-! ### one visit removes the visited node from the unbalanced set and adds nothing -/

theorem stepL {pg hp : Nat} {A C B HU AU CU BU A' C' B' HU' AU' CU' BU' : List Nat}
    (hnd : (hp :: (A ++ (C ++ B))).Nodup) (hpgC : pg ∈ C)
    (hHU : ∀ x ∈ HU, x = hp) (hAU : ∀ x ∈ AU, x ∈ A) (hBU : ∀ x ∈ BU, x ∈ B)
    (sA : A'.Sublist A) (sC : C'.Sublist C) (sB : B'.Sublist B)
    (uH : ∀ x ∈ HU', x ∈ HU) (uA : ∀ x ∈ AU', x ∈ AU) (uB : ∀ x ∈ BU', x ∈ BU)
    (uC : ∀ x ∈ CU', x ∈ CU) (nC : pg ∉ CU') :
    (hp :: (A' ++ (C' ++ B'))).Sublist (hp :: (A ++ (C ++ B))) ∧
      (∀ x ∈ HU' ++ (AU' ++ (CU' ++ BU')), x ∈ HU ++ (AU ++ (CU ++ BU))) ∧
      pg ∉ HU' ++ (AU' ++ (CU' ++ BU')) := by
  rw [List.nodup_cons, List.nodup_append] at hnd
  obtain ⟨h1, _, h2, h3⟩ := hnd
  rw [List.nodup_append] at h2
  refine ⟨List.Sublist.cons_cons _ (List.Sublist.append sA (List.Sublist.append sC sB)), ?_, ?_⟩
  · intro x hx
    simp only [List.mem_append] at hx ⊢
    rcases hx with hx | hx | hx | hx
    · exact Or.inl (uH x hx)
    · exact Or.inr (Or.inl (uA x hx))
    · exact Or.inr (Or.inr (Or.inl (uC x hx)))
    · exact Or.inr (Or.inr (Or.inr (uB x hx)))
  · intro hx
    simp only [List.mem_append] at hx
    rcases hx with hx | hx | hx | hx
    · have := hHU _ (uH _ hx)
      subst this
      exact h1 (List.mem_append_right _ (List.mem_append_left _ hpgC))
    · exact h3 _ (hAU _ (uA _ hx)) _ (List.mem_append_left _ hpgC) rfl
    · exact nC hx
    · exact h2.2.2 _ hpgC _ (hBU _ (uB _ hx)) rfl

structure Step (pg : Nat) (n n' : N) : Prop where
  sub : (pgids n').Sublist (pgids n)
  unb : ∀ x ∈ unbPgids n', x ∈ unbPgids n
  npg : pg ∉ unbPgids n'

theorem childS_inv {th : Nat} {h : Hd} {pre post : List (Bytes × N)} {s : Bytes} {n0 P' : N} {call : Bool}
    (hc : childS th h pre s n0 post = some (P', call)) :
    (n0.hd.unb = false ∧ P' = .branch h (pre ++ (s, n0) :: post) ∧ call = false) ∨
    (P' = .branch h (pre ++ (s, clr n0) :: post) ∧ call = false) ∨
    (P' = .branch { h with unb := true } (pre ++ post) ∧ call = true) ∨
    (∃ sr r0 post' m, pre = [] ∧ post = (sr, r0) :: post' ∧ appendInodes (clr n0) (materialize r0) = some m ∧
      P' = .branch { h with unb := true } ((s, m) :: post') ∧ call = true) ∨
    (∃ pre' sl l0 m, pre = pre' ++ [(sl, l0)] ∧ appendInodes (materialize l0) (clr n0) = some m ∧
      P' = .branch { h with unb := true } (pre' ++ (sl, m) :: post) ∧ call = true) := by
  unfold childS at hc
  by_cases hu : n0.hd.unb = false
  · rw [if_pos hu] at hc
    simp only [Option.some.injEq, Prod.mk.injEq] at hc
    exact Or.inl ⟨hu, hc.1.symm, hc.2.symm⟩
  · rw [if_neg hu] at hc
    simp only at hc
    by_cases hbig : (clr n0).size > th ∧ (clr n0).count > (clr n0).minKeys
    · rw [if_pos hbig] at hc
      simp only [Option.some.injEq, Prod.mk.injEq] at hc
      exact Or.inr (Or.inl ⟨hc.1.symm, hc.2.symm⟩)
    · rw [if_neg hbig] at hc
      by_cases h0 : (clr n0).count = 0
      · rw [if_pos h0] at hc
        split at hc
        · simp only [Option.some.injEq, Prod.mk.injEq] at hc
          exact Or.inr (Or.inr (Or.inl ⟨hc.1.symm, hc.2.symm⟩))
        · cases hc
      · rw [if_neg h0] at hc
        split at hc
        · cases hc
        · split at hc
          · cases hc
          · rcases List.eq_nil_or_concat pre with rfl | ⟨pre', x, rfl⟩
            · cases post with
              | nil => simp at hc
              | cons x post' =>
                obtain ⟨sr, r0⟩ := x
                simp only [List.getLast?_nil] at hc
                split at hc
                · simp only [Option.map_eq_some_iff, Prod.mk.injEq] at hc
                  obtain ⟨m, hm, h1, h2⟩ := hc
                  exact Or.inr (Or.inr (Or.inr (Or.inl ⟨sr, r0, post', m, rfl, rfl, hm, h1.symm, h2.symm⟩)))
                · cases hc
            · obtain ⟨sl, l0⟩ := x
              simp only [List.concat_eq_append, List.getLast?_append, List.getLast?_singleton,
                Option.some_or, List.dropLast_concat] at hc
              split at hc
              · simp only [Option.map_eq_some_iff, Prod.mk.injEq] at hc
                obtain ⟨m, hm, h1, h2⟩ := hc
                exact Or.inr (Or.inr (Or.inr (Or.inr ⟨pre', sl, l0, m, by simp, hm, h1.symm, h2.symm⟩)))
              · cases hc

theorem step_parent {pg : Nat} {h : Hd} {pre post : List (Bytes × N)} {s : Bytes} {c R : N}
    {A' C' B' HU' AU' CU' BU' : List Nat}
    (hnd : (pgids (.branch h (pre ++ (s, c) :: post))).Nodup) (hpg : pg ∈ pgids c)
    (eP' : pgids R = h.pgid :: (A' ++ (C' ++ B'))) (eU' : unbPgids R = HU' ++ (AU' ++ (CU' ++ BU')))
    (sA : A'.Sublist (pgidsKids pre)) (sC : C'.Sublist (pgids c)) (sB : B'.Sublist (pgidsKids post))
    (uH : ∀ x ∈ HU', x ∈ unbHd h) (uA : ∀ x ∈ AU', x ∈ unbPgidsKids pre)
    (uB : ∀ x ∈ BU', x ∈ unbPgidsKids post) (uC : ∀ x ∈ CU', x ∈ unbPgids c) (nC : pg ∉ CU') :
    Step pg (.branch h (pre ++ (s, c) :: post)) R := by
  have eP : pgids (.branch h (pre ++ (s, c) :: post)) = h.pgid :: (pgidsKids pre ++ (pgids c ++ pgidsKids post)) := by
    rw [pgids_branch, pgidsKids_append, pgidsKids_cons]
  have eU : unbPgids (.branch h (pre ++ (s, c) :: post)) =
      unbHd h ++ (unbPgidsKids pre ++ (unbPgids c ++ unbPgidsKids post)) := by
    rw [unbPgids_branch, unbPgidsKids_append, unbPgidsKids_cons]
  rw [eP] at hnd
  obtain ⟨r1, r2, r3⟩ := stepL hnd hpg (unbHd_sub h) (unbKids_sub_pgidsKids pre) (unbKids_sub_pgidsKids post)
    sA sC sB uH uA uB uC nC
  exact ⟨by rw [eP, eP']; exact r1, by rw [eU, eU']; exact r2, by rw [eU']; exact r3⟩

theorem sublist_below (n : N) : (pgidsBelow n).Sublist (pgids n) := by
  rw [pgids_eq]; exact List.sublist_cons_self ..

theorem unbBelow_sub_unb (n : N) : ∀ x ∈ unbBelow n, x ∈ unbPgids n := by
  intro x hx; rw [unbPgids_eq]; exact List.mem_append_right _ hx

theorem childS_step {pg th : Nat} {h : Hd} {pre post : List (Bytes × N)} {s : Bytes} {c c' P' : N} {call : Bool}
    (hnd : (pgids (.branch h (pre ++ (s, c) :: post))).Nodup) (hpg : pg ∈ pgids c)
    (hc : Step pg c (clr c')) (hch : childS th h pre s c' post = some (P', call)) :
    Step pg (.branch h (pre ++ (s, c) :: post)) (if call = true then clr P' else P') := by
  have hsub : (pgids c').Sublist (pgids c) := by have := hc.sub; rwa [pgids_clr] at this
  have hunb : ∀ x ∈ unbBelow c', x ∈ unbPgids c := by have := hc.unb; rwa [unbPgids_clr] at this
  have hnpg : pg ∉ unbBelow c' := by have := hc.npg; rwa [unbPgids_clr] at this
  rcases childS_inv hch with ⟨hu, rfl, rfl⟩ | ⟨rfl, rfl⟩ | ⟨rfl, rfl⟩ | ⟨sr, r0, post', m, rfl, rfl, hm, rfl, rfl⟩ |
    ⟨pre', sl, l0, m, rfl, hm, rfl, rfl⟩
  · simp only [Bool.false_eq_true, if_false]
    refine step_parent (A' := pgidsKids pre) (C' := pgids c') (B' := pgidsKids post)
      (HU' := unbHd h) (AU' := unbPgidsKids pre) (CU' := unbBelow c') (BU' := unbPgidsKids post) hnd hpg ?_ ?_
      (List.Sublist.refl _) hsub (List.Sublist.refl _) (fun _ h => h) (fun _ h => h) (fun _ h => h) hunb hnpg
    · rw [pgids_branch, pgidsKids_append, pgidsKids_cons]
    · rw [unbPgids_branch, unbPgidsKids_append, unbPgidsKids_cons, unbPgids_of_not_unb hu]
  · simp only [Bool.false_eq_true, if_false]
    refine step_parent (A' := pgidsKids pre) (C' := pgids c') (B' := pgidsKids post)
      (HU' := unbHd h) (AU' := unbPgidsKids pre) (CU' := unbBelow c') (BU' := unbPgidsKids post) hnd hpg ?_ ?_
      (List.Sublist.refl _) hsub (List.Sublist.refl _) (fun _ h => h) (fun _ h => h) (fun _ h => h) hunb hnpg
    · rw [pgids_branch, pgidsKids_append, pgidsKids_cons, pgids_clr]
    · rw [unbPgids_branch, unbPgidsKids_append, unbPgidsKids_cons, unbPgids_clr]
  · simp only [if_true]
    refine step_parent (A' := pgidsKids pre) (C' := []) (B' := pgidsKids post)
      (HU' := []) (AU' := unbPgidsKids pre) (CU' := []) (BU' := unbPgidsKids post) hnd hpg ?_ ?_
      (List.Sublist.refl _) (List.nil_sublist _) (List.Sublist.refl _) (by simp) (fun _ h => h) (fun _ h => h)
      (by simp) (by simp)
    · simp [clr, pgids_branch, pgidsKids_append]
    · simp [clr, unbPgids_branch, unbPgidsKids_append, unbHd]
  · simp only [if_true]
    obtain ⟨e1, e2⟩ := appendInodes_pgids hm
    refine step_parent (A' := []) (C' := pgids c') (B' := pgidsBelow r0 ++ pgidsKids post')
      (HU' := []) (AU' := []) (CU' := unbBelow c') (BU' := unbBelow r0 ++ unbPgidsKids post') hnd hpg ?_ ?_
      (List.Sublist.refl _) hsub ?_ (by simp) (by simp) ?_ hunb hnpg
    · simp [clr, pgids_branch, pgidsKids_cons, e1, materialize_eq]
      exact pgids_clr c'
    · simp [clr, unbPgids_branch, unbPgidsKids_cons, e2, unbHd, materialize_eq]
      exact unbPgids_clr c'
    · rw [pgidsKids_cons]
      exact List.Sublist.append (sublist_below r0) (List.Sublist.refl _)
    · intro x hx
      rw [unbPgidsKids_cons]
      rcases List.mem_append.mp hx with hx | hx
      · exact List.mem_append_left _ (unbBelow_sub_unb r0 x hx)
      · exact List.mem_append_right _ hx
  · simp only [if_true]
    obtain ⟨e1, e2⟩ := appendInodes_pgids hm
    refine step_parent (A' := pgidsKids (pre' ++ [(sl, l0)])) (C' := pgidsBelow c') (B' := pgidsKids post)
      (HU' := []) (AU' := unbPgidsKids pre' ++ unbPgids (materialize l0)) (CU' := unbBelow c')
      (BU' := unbPgidsKids post) hnd hpg ?_ ?_
      (List.Sublist.refl _) ((sublist_below c').trans hsub) (List.Sublist.refl _) (by simp) ?_ (fun _ h => h)
      hunb hnpg
    · simp [clr, pgids_branch, pgidsKids_append, e1, pgids_materialize, pgidsKids]
    · simp [clr, unbPgids_branch, unbPgidsKids_append, unbPgidsKids_cons, e2, unbHd]
    · intro x hx
      rw [unbPgidsKids_append, unbPgidsKids_cons]
      rcases List.mem_append.mp hx with hx | hx
      · exact List.mem_append_left _ hx
      · exact List.mem_append_right _ (List.mem_append_left _ (unbPgids_materialize_sub l0 x hx))

theorem nodeAt_pgid_mem : ∀ (path : List Nat) (n x : N), nodeAt path n = some x → x.hd.pgid ∈ pgids n
  | [], n, x, h => by
    simp only [nodeAt, Option.some.injEq] at h; subst h
    rw [pgids_eq]; exact List.mem_cons_self ..
  | p :: rest, .leaf hd items, x, h => by simp [nodeAt] at h
  | p :: rest, .branch hd kids, x, h => by
    rw [nodeAt] at h
    cases hk : kids[p]? with
    | none => rw [hk] at h; simp at h
    | some sc =>
      obtain ⟨s, c⟩ := sc
      rw [hk] at h
      simp only [Option.bind_some] at h
      obtain ⟨pre, post, rfl, rfl⟩ := getElem?_split hk
      have := nodeAt_pgid_mem rest c x h
      rw [pgids_branch, pgidsKids_append, pgidsKids_cons]
      exact List.mem_cons_of_mem _ (List.mem_append_right _ (List.mem_append_left _ this))

theorem rebalGo_step (th pg : Nat) : ∀ (path : List Nat) (n x n' : N) (call : Bool),
    nodeAt path n = some x → x.hd.pgid = pg → (pgids n).Nodup → rebalGo th path n = some (n', call) →
    Step pg n (if call = true then clr n' else n')
  | [], n, x, n', call, hx, hpg, hnd, hgo => by
    simp only [nodeAt, Option.some.injEq] at hx; subst hx
    simp only [rebalGo, Option.some.injEq, Prod.mk.injEq] at hgo
    obtain ⟨rfl, rfl⟩ := hgo
    simp only [if_true]
    refine ⟨by rw [pgids_clr]; exact List.Sublist.refl _, by rw [unbPgids_clr]; exact unbBelow_sub_unb n, ?_⟩
    rw [unbPgids_clr]
    intro hmem
    rw [pgids_eq, List.nodup_cons, hpg] at hnd
    exact hnd.1 (unbBelow_sub n _ hmem)
  | p :: rest, .leaf hd items, x, n', call, hx, _, _, _ => by simp [nodeAt] at hx
  | p :: rest, .branch hd kids, x, n', call, hx, hpg, hnd, hgo => by
    rw [nodeAt] at hx
    cases hk : kids[p]? with
    | none => rw [hk] at hx; simp at hx
    | some sc =>
      obtain ⟨s, c⟩ := sc
      rw [hk] at hx
      simp only [Option.bind_some] at hx
      obtain ⟨pre, post, rfl, rfl⟩ := getElem?_split hk
      have hpgc : pg ∈ pgids c := hpg ▸ nodeAt_pgid_mem rest c x hx
      have hndc : (pgids c).Nodup := by
        refine List.Nodup.sublist ?_ hnd
        rw [pgids_branch, pgidsKids_append, pgidsKids_cons]
        exact List.Sublist.cons _ ((List.sublist_append_left _ _).trans (List.sublist_append_right _ _))
      rw [rebalGo] at hgo
      simp only [hk] at hgo
      cases hr : rebalGo th rest c with
      | none => rw [hr] at hgo; simp at hgo
      | some res =>
        obtain ⟨c', call0⟩ := res
        rw [hr] at hgo
        simp only [set_mid] at hgo
        have ih := rebalGo_step th pg rest c x c' call0 hx hpg hndc hr
        cases call0 with
        | true =>
          simp only [if_true] at hgo ih
          rw [rebalChild_eq] at hgo
          exact childS_step hnd hpgc ih hgo
        | false =>
          simp only [Bool.false_eq_true, if_false, Option.some.injEq, Prod.mk.injEq] at hgo ih
          obtain ⟨rfl, rfl⟩ := hgo
          simp only [Bool.false_eq_true, if_false]
          refine step_parent (A' := pgidsKids pre) (C' := pgids c') (B' := pgidsKids post)
            (HU' := unbHd hd) (AU' := unbPgidsKids pre) (CU' := unbPgids c') (BU' := unbPgidsKids post) hnd hpgc ?_ ?_
            (List.Sublist.refl _) ih.sub (List.Sublist.refl _) (fun _ h => h) (fun _ h => h) (fun _ h => h)
            ih.unb ih.npg
          · rw [pgids_branch, pgidsKids_append, pgidsKids_cons]
          · rw [unbPgids_branch, unbPgidsKids_append, unbPgidsKids_cons]

theorem rebalRoot_step {th : Nat} {r t' : N} (h : rebalRoot th r = some t') :
    (pgids t').Sublist (pgids r) ∧ ∀ x ∈ unbPgids t', x ∈ unbBelow r := by
  unfold rebalRoot at h
  by_cases hu : r.hd.unb = false
  · simp only [hu, Bool.not_false, if_true, Option.some.injEq] at h
    subst h
    exact ⟨List.Sublist.refl _, by rw [unbPgids_of_not_unb hu]; exact fun _ h => h⟩
  · have hu' : r.hd.unb = true := by simpa using hu
    simp only [hu', Bool.not_true, Bool.false_eq_true, if_false] at h
    have hclr : (pgids (clr r)).Sublist (pgids r) ∧ ∀ x ∈ unbPgids (clr r), x ∈ unbBelow r :=
      ⟨by rw [pgids_clr]; exact List.Sublist.refl _, by rw [unbPgids_clr]; exact fun _ h => h⟩
    split at h
    · simp only [Option.some.injEq] at h; subst h; exact hclr
    · split at h
      · rename_i hd0 s c heq
        have hr : ∃ hd, r = .branch hd [(s, c)] ∧ hd0 = { hd with unb := false } := by
          cases r with
          | leaf hd items => simp [N.setHd] at heq
          | branch hd kids =>
            simp only [setHd_branch, N.branch.injEq] at heq
            exact ⟨hd, by rw [heq.2], heq.1.symm⟩
        obtain ⟨hd, rfl, rfl⟩ := hr
        have ht : t' = (materialize c).setHd { hd with unb := false } := by
          cases hm : materialize c <;> rw [hm] at h <;> simp at h <;> exact h.symm
        subst ht
        constructor
        · rw [pgids_eq, pgids_branch]
          simp only [setHd_hd, pgidsBelow_setHd, pgidsKids, List.append_nil]
          refine List.Sublist.cons_cons _ ?_
          have := sublist_below c
          rwa [materialize_eq, pgidsBelow_setHd]
        · intro x hx
          rw [unbPgids_eq] at hx
          simp only [setHd_hd, unbBelow_setHd, unbHd, Bool.false_eq_true, if_false, List.nil_append,
            unbBelow_materialize] at hx
          simp only [unbBelow, unbPgidsKids, List.append_nil]
          exact unbBelow_sub_unb c x hx
      · simp only [Option.some.injEq] at h; subst h; exact hclr

theorem rebalanceAt_step {th pg : Nat} {t t' x : N} {path : List Nat} (hx : nodeAt path t = some x)
    (hpg : x.hd.pgid = pg) (hnd : (pgids t).Nodup) (h : rebalanceAt th t path = some t') :
    (pgids t').Sublist (pgids t) ∧ (∀ y ∈ unbPgids t', y ∈ unbPgids t) ∧ pg ∉ unbPgids t' := by
  unfold rebalanceAt at h
  cases hr : rebalGo th path t with
  | none => rw [hr] at h; simp at h
  | some res =>
    obtain ⟨r, call⟩ := res
    rw [hr] at h
    have hs := rebalGo_step th pg path t x r call hx hpg hnd hr
    cases call with
    | false =>
      simp only [Bool.false_eq_true, if_false, Option.some.injEq] at h hs
      subst h
      exact ⟨hs.sub, hs.unb, hs.npg⟩
    | true =>
      simp only [if_true] at h hs
      obtain ⟨h1, h2⟩ := rebalRoot_step h
      have hsub := hs.sub
      rw [pgids_clr] at hsub
      have h3 : ∀ y ∈ unbPgids t', y ∈ unbPgids (clr r) := by rw [unbPgids_clr]; exact h2
      exact ⟨h1.trans hsub, fun y hy => hs.unb y (h3 y hy), fun hmem => hs.npg (h3 _ hmem)⟩

/-! ### the unbalanced nodes are in the node map -/

mutual
theorem anyUnb_of_nil : ∀ (n : N), unbPgids n = [] → anyUnb n = false
  | .leaf h items => by
    intro hn
    rw [unbPgids] at hn; rw [anyUnb]
    cases hu : h.unb <;> simp_all
  | .branch h kids => by
    intro hn
    rw [unbPgids_branch, List.append_eq_nil_iff] at hn
    rw [anyUnb, anyUnbKids_of_nil kids hn.2]
    have := hn.1
    unfold unbHd at this
    cases hu : h.unb <;> simp_all
theorem anyUnbKids_of_nil : ∀ (kids : List (Bytes × N)), unbPgidsKids kids = [] → anyUnbKids kids = false
  | [] => by intro _; rw [anyUnbKids]
  | (s, c) :: r => by
    intro hn
    rw [unbPgidsKids_cons, List.append_eq_nil_iff] at hn
    rw [anyUnbKids, anyUnb_of_nil c hn.1, anyUnbKids_of_nil r hn.2]; rfl
end

mutual
theorem unb_nil_of_page : ∀ (n : N) (root pmat : Bool) (lo hi : Option Bytes),
    rbN root pmat lo hi n = true → n.hd.mat = false → unbPgids n = []
  | .leaf h items, root, pmat, lo, hi, hn, hm => by
    rw [rbN_leaf] at hn
    simp only [hd_leaf] at hm
    rw [unbPgids]
    cases hu : h.unb with
    | false => simp
    | true => rw [hn.fl.um hu] at hm; cases hm
  | .branch h kids, root, pmat, lo, hi, hn, hm => by
    rw [rbN_branch] at hn
    simp only [hd_branch] at hm
    obtain ⟨d, hk⟩ := hn.kids
    rw [hm] at hk
    rw [unbPgids_branch, unbKids_nil_of_page kids _ _ _ hk]
    unfold unbHd
    cases hu : h.unb with
    | false => simp
    | true => rw [hn.fl.um hu] at hm; cases hm
theorem unbKids_nil_of_page : ∀ (kids : List (Bytes × N)) (bd : Bool) (hi : Option Bytes) (d : Nat),
    rbKids false bd hi kids d = true → unbPgidsKids kids = []
  | [], _, _, _, _ => by rw [unbPgidsKids]
  | (s, c) :: r, bd, hi, d, hk => by
    rw [rbKids_cons'] at hk
    have hcm : c.hd.mat = false := by
      cases hm : c.hd.mat with
      | false => rfl
      | true => exact absurd ((rbN_iff_Wk.mp hk.2.2.1).flags.mp hm) (by decide)
    rw [unbPgidsKids_cons, unb_nil_of_page c _ _ _ _ hk.2.2.1 hcm, unbKids_nil_of_page r _ _ _ hk.2.2.2]
    rfl
end

mutual
theorem unb_sub_mat : ∀ (n : N) (fuel : Nat) (root pmat : Bool) (lo hi : Option Bytes),
    rbN root pmat lo hi n = true → depth n ≤ fuel → ∀ x ∈ unbPgids n, x ∈ matPgids fuel n
  | .leaf h items, fuel, root, pmat, lo, hi, hn, hf => by
    intro x hx
    rw [rbN_leaf] at hn
    rw [unbPgids] at hx
    cases hu : h.unb with
    | false => simp [hu] at hx
    | true =>
      simp only [hu, if_true, List.mem_singleton] at hx
      rw [depth] at hf
      obtain ⟨f, rfl⟩ : ∃ f, fuel = f + 1 := ⟨fuel - 1, by omega⟩
      simp [matPgids, hn.fl.um hu, hx]
  | .branch h kids, fuel, root, pmat, lo, hi, hn, hf => by
    intro x hx
    cases hm : h.mat with
    | false => rw [unb_nil_of_page _ _ _ _ _ hn (by simpa using hm)] at hx; cases hx
    | true =>
      rw [rbN_branch] at hn
      obtain ⟨d, hk⟩ := hn.kids
      rw [depth] at hf
      obtain ⟨f, rfl⟩ : ∃ f, fuel = f + 1 := ⟨fuel - 1, by omega⟩
      have hne : kids ≠ [] := by intro h0; have := hn.len; simp [h0] at this
      have hdk := depthKids_eq (rbKids_depth hk) hne
      rw [unbPgids_branch] at hx
      simp only [matPgids, hd_branch, hm, Bool.not_true, Bool.false_eq_true, if_false, List.mem_cons]
      rcases List.mem_append.mp hx with hx | hx
      · exact Or.inl (unbHd_sub h x hx)
      · exact Or.inr (unbKids_sub_mat kids f _ _ _ _ hk (by omega) x hx)
theorem unbKids_sub_mat : ∀ (kids : List (Bytes × N)) (fuel : Nat) (pmat bd : Bool) (hi : Option Bytes) (d : Nat),
    rbKids pmat bd hi kids d = true → d ≤ fuel →
    ∀ x ∈ unbPgidsKids kids, x ∈ (kids.map (fun p => matPgids fuel p.2)).flatten
  | [], _, _, _, _, _, _, _ => by simp [unbPgidsKids]
  | (s, c) :: r, fuel, pmat, bd, hi, d, hk, hf => by
    intro x hx
    rw [rbKids_cons'] at hk
    rw [unbPgidsKids_cons] at hx
    simp only [List.map_cons, List.flatten_cons, List.mem_append]
    rcases List.mem_append.mp hx with hx | hx
    · exact Or.inl (unb_sub_mat c fuel _ _ _ _ hk.2.2.1 (by rw [hk.2.1]; exact hf) x hx)
    · exact Or.inr (unbKids_sub_mat r fuel _ _ _ _ hk.2.2.2 hf x hx)
end

theorem findMat_none {pg : Nat} : ∀ {fuel : Nat} {t : N}, findMat pg fuel t = none → pg ∉ matPgids fuel t
  | 0, t, _ => by simp [matPgids]
  | fuel+1, t, h => by
    unfold findMat at h
    unfold matPgids
    by_cases h1 : t.hd.mat = true ∧ t.hd.pgid = pg
    · rw [if_pos h1] at h; cases h
    · rw [if_neg h1] at h
      by_cases h2 : (!t.hd.mat) = true
      · rw [if_pos h2]; simp
      · rw [if_neg h2] at h ⊢
        have hm : t.hd.mat = true := by simpa using h2
        have hne : t.hd.pgid ≠ pg := fun h => h1 ⟨hm, h⟩
        cases t with
        | leaf hd items => simpa using fun h => hne h.symm
        | branch hd kids =>
          simp only [List.mem_cons, not_or]
          refine ⟨fun h => hne h.symm, ?_⟩
          simp only at h
          rw [List.findSome?_eq_none_iff] at h
          intro hmem
          simp only [List.mem_flatten, List.mem_map] at hmem
          obtain ⟨l, ⟨p, hp, rfl⟩, hx⟩ := hmem
          obtain ⟨i, hi, hget⟩ := List.getElem_of_mem hp
          have := h i (List.mem_range.mpr hi)
          rw [List.getElem?_eq_getElem hi, hget] at this
          obtain ⟨s, c⟩ := p
          simp only [Option.map_eq_none_iff] at this
          exact findMat_none this hx

theorem settles_aux (th fuel : Nat) : ∀ (order : List Nat) (t t' : N), InTxR t → (pgids t).Nodup →
    depth t ≤ fuel → (∀ x ∈ unbPgids t, x ∈ order) → rebalanceAll th fuel t order = some t' →
    unbPgids t' = []
  | [], t, t', _, _, _, hc, hr => by
    simp only [rebalanceAll, Option.some.injEq] at hr
    subst hr
    exact List.eq_nil_iff_forall_not_mem.mpr (fun x hx => by simpa using hc x hx)
  | pg :: rest, t, t', hi, hn, hf, hc, hr => by
    rw [rebalanceAll] at hr
    cases hfm : findMat pg fuel t with
    | none =>
      rw [hfm] at hr
      have hnm := findMat_none hfm
      have hnu : pg ∉ unbPgids t := fun h => hnm (unb_sub_mat t fuel _ _ _ _ ((inTxR_iff t).mp hi) hf pg h)
      refine settles_aux th fuel rest t t' hi hn hf (fun x hx => ?_) hr
      rcases List.mem_cons.mp (hc x hx) with rfl | h
      · exact absurd hx hnu
      · exact h
    | some path =>
      rw [hfm] at hr
      obtain ⟨n, hn1, _, hn3⟩ := findMat_nodeAt hfm
      obtain ⟨t1, h1, h2, _, h4⟩ := rebalanceAt_ok th t path n hi hn1
      simp only [h1] at hr
      obtain ⟨s1, s2, s3⟩ := rebalanceAt_step hn1 hn3 hn h1
      refine settles_aux th fuel rest t1 t' h2 (List.Nodup.sublist s1 hn) (Nat.le_trans h4 hf) (fun x hx => ?_) hr
      rcases List.mem_cons.mp (hc x (s2 x hx)) with rfl | h
      · exact absurd hx s3
      · exact h

theorem settles (th fuel : Nat) (t t' : N) (order : List Nat) (hi : InTxR t)
    (hn : (pgids t).Nodup) (hf : depth t ≤ fuel)
    (hc : ∀ pg ∈ matPgids fuel t, pg ∈ order)
    (hr : rebalanceAll th fuel t order = some t') : anyUnb t' = false :=
  anyUnb_of_nil t' (settles_aux th fuel order t t' hi hn hf
    (fun x hx => hc x (unb_sub_mat t fuel _ _ _ _ ((inTxR_iff t).mp hi) hf x hx)) hr)

/-! ### the rebalance-phase invariant implies the in-transaction invariant -/

theorem inTxN_leaf (root pmat : Bool) (lo hi : Option Bytes) (h : Hd) (items : List Item) :
    inTxN root pmat lo hi (.leaf h items) = true ↔ LeafOk root pmat lo hi h items := by
  rw [← rbN_leaf, inTxN, rbN]

theorem inTxKids_cons (pmat : Bool) (lo hi : Option Bytes) (s : Bytes) (c : N) (r : List (Bytes × N)) (d : Nat) :
    inTxKids pmat lo hi ((s, c) :: r) d = true ↔
      s = ckey c ∧ depth c = d ∧ inTxN false pmat lo (hiOf r hi) c = true ∧
      inTxKids pmat (r.head?.map (·.1)) hi r d = true := by
  rw [inTxKids]
  simp only [Bool.and_eq_true, beq_iff_eq, ckey, hiOf, and_assoc]

theorem inTxN_branch (root pmat : Bool) (lo hi : Option Bytes) (h : Hd) (kids : List (Bytes × N)) :
    inTxN root pmat lo hi (.branch h kids) = true ↔
      FlagsOk pmat h ∧ 2 ≤ kids.length ∧ Srt (kids.map (·.1)) ∧ (∀ p ∈ kids, Bnd lo hi p.1) ∧
      inTxKids h.mat lo hi kids ((kids.head?.map (fun p => depth p.2)).getD 0) = true := by
  rw [inTxN]
  simp only [Bool.and_eq_true, flagsOk_iff, sortedKeys_iff, List.all_eq_true, bnd_iff, decide_eq_true_eq]
  constructor
  · rintro ⟨⟨⟨⟨h1, h2⟩, h3⟩, h4⟩, h5⟩
    exact ⟨h1, h2, h3, h4, h5⟩
  · rintro ⟨h1, h2, h3, h4, h5⟩
    exact ⟨⟨⟨⟨h1, h2⟩, h3⟩, h4⟩, h5⟩

def LoLe (lo' lo : Option Bytes) : Prop := ∀ k, geLo lo k = true → geLo lo' k = true

theorem LoLe.refl (lo : Option Bytes) : LoLe lo lo := fun _ h => h

theorem Bnd.lo_le {lo lo' hi : Option Bytes} {k : Bytes} (hl : LoLe lo' lo) (h : Bnd lo hi k) : Bnd lo' hi k :=
  ⟨h.1, hl _ h.2.1, h.2.2⟩

mutual
theorem inTxN_of_rbN : ∀ (n : N) (root pmat : Bool) (lo lo' hi : Option Bytes), LoLe lo' lo →
    rbN root pmat lo hi n = true → inTxN root pmat lo' hi n = true
  | .leaf h items, root, pmat, lo, lo', hi, hl, hn => by
    rw [rbN_leaf] at hn
    rw [inTxN_leaf]
    exact ⟨hn.fl, hn.ne, hn.srt, fun i hi => (hn.bnd i hi).lo_le hl⟩
  | .branch h kids, root, pmat, lo, lo', hi, hl, hn => by
    rw [rbN_branch] at hn
    rw [inTxN_branch]
    obtain ⟨d, hk⟩ := hn.kids
    refine ⟨hn.fl, hn.len, hn.srt, fun p hp => (hn.bnd p hp).lo_le hl, ?_⟩
    have hd : (kids.head?.map (fun p => depth p.2)).getD 0 = d := by
      cases kids with
      | nil => have := hn.len; simp at this
      | cons x r => obtain ⟨s, c⟩ := x; simpa using ((rbKids_cons' ..).mp hk).2.1
    rw [hd]
    refine inTxKids_of_rbKids kids _ _ _ _ _ ?_ hk
    intro s c r he
    cases lo with
    | none => simpa using hl
    | some l =>
      simp only [Option.isSome_some, if_true]
      intro k hk
      have hs : geLo (some l) s = true := (hn.bnd (s, c) (by rw [he]; exact List.mem_cons_self ..)).2.1
      refine geLo_of_ble (hl _ hs) ?_
      rw [geLo_some] at hk
      unfold Ble
      cases hks : Bytes.lt k s with
      | false => rfl
      | true => rw [hks] at hk; exact absurd hk (by decide)
theorem inTxKids_of_rbKids : ∀ (kids : List (Bytes × N)) (pmat bd : Bool) (lo' hi : Option Bytes) (d : Nat),
    (∀ s c r, kids = (s, c) :: r → LoLe lo' (if bd = true then some s else none)) →
    rbKids pmat bd hi kids d = true → inTxKids pmat lo' hi kids d = true
  | [], _, _, _, _, _, _, _ => by rw [inTxKids]
  | (s, c) :: r, pmat, bd, lo', hi, d, hfirst, hk => by
    rw [rbKids_cons'] at hk
    rw [inTxKids_cons]
    refine ⟨hk.1, hk.2.1, inTxN_of_rbN c _ _ _ _ _ (hfirst s c r rfl) hk.2.2.1, ?_⟩
    refine inTxKids_of_rbKids r _ true _ _ _ ?_ hk.2.2.2
    intro s' c' r' he
    subst he
    exact LoLe.refl _
end

theorem inTx_of_inTxR (t : N) (h : InTxR t) : InTx t :=
  inTxN_of_rbN t _ _ _ _ _ (LoLe.refl _) ((inTxR_iff t).mp h)

/-! ### `Put`/`Delete` never touch a separator: from a committed tree they produce trees that
satisfy the rebalance-phase invariant -/

theorem tightN_leaf (lo : Option Bytes) (h : Hd) (items : List Item) : tightN lo (.leaf h items) = true := by
  unfold tightN; rfl

theorem tightN_branch (lo : Option Bytes) (h : Hd) (kids : List (Bytes × N)) :
    tightN lo (.branch h kids) = true ↔
      (∀ l, lo = some l → kids.head?.map (·.1) = some l) ∧ tightKids lo kids = true := by
  unfold tightN
  cases lo with
  | none => simp
  | some l => simp

theorem tightKids_cons (lo : Option Bytes) (s : Bytes) (c : N) (r : List (Bytes × N)) :
    tightKids lo ((s, c) :: r) = true ↔ tightN lo c = true ∧ tightKids (r.head?.map (·.1)) r = true := by
  rw [tightKids]; simp

mutual
theorem rbN_of_inTxN_tight : ∀ (n : N) (root pmat : Bool) (lo hi : Option Bytes),
    inTxN root pmat lo hi n = true → tightN lo n = true → rbN root pmat lo hi n = true
  | .leaf h items, root, pmat, lo, hi, hn, _ => by
    rw [inTxN_leaf] at hn; rw [rbN_leaf]; exact hn
  | .branch h kids, root, pmat, lo, hi, hn, ht => by
    rw [inTxN_branch] at hn
    rw [tightN_branch] at ht
    rw [rbN_branch]
    exact ⟨hn.1, hn.2.1, hn.2.2.1, hn.2.2.2.1, _, rbKids_of_inTxKids_tight kids _ _ _ _ hn.2.2.2.2 ht.2 ht.1⟩
theorem rbKids_of_inTxKids_tight : ∀ (kids : List (Bytes × N)) (pmat : Bool) (lo hi : Option Bytes) (d : Nat),
    inTxKids pmat lo hi kids d = true → tightKids lo kids = true →
    (∀ l, lo = some l → kids.head?.map (·.1) = some l) → rbKids pmat lo.isSome hi kids d = true
  | [], _, _, _, _, _, _, _ => rbKids_nil ..
  | (s, c) :: r, pmat, lo, hi, d, hk, ht, hh => by
    rw [inTxKids_cons] at hk
    rw [tightKids_cons] at ht
    rw [rbKids_cons']
    refine ⟨hk.1, hk.2.1, ?_, ?_⟩
    · have := rbN_of_inTxN_tight c _ _ _ _ hk.2.2.1 ht.1
      cases lo with
      | none => simpa using this
      | some l =>
        have hs := hh l rfl
        simp only [List.head?_cons, Option.map_some, Option.some.injEq] at hs
        subst hs
        simpa using this
    · have := rbKids_of_inTxKids_tight r _ _ _ _ hk.2.2.2 ht.2 (fun l h => h)
      cases r with
      | nil => exact rbKids_nil ..
      | cons x r' => simpa using this
end

theorem inTxR_of_inTx_tight (t : N) (h : InTx t) (ht : tightN none t = true) : InTxR t :=
  (inTxR_iff t).mpr (rbN_of_inTxN_tight t _ _ _ _ h ht)

mutual
theorem tight_of_committed : ∀ (n : N) (root : Bool) (lo : Option Bytes), committedN root n = true →
    (∀ l, lo = some l → n.firstKey = l) → tightN lo n = true
  | .leaf h items, _, lo, _, _ => tightN_leaf ..
  | .branch h kids, root, lo, hc, hf => by
    rw [committedN] at hc
    simp only [Bool.and_eq_true, decide_eq_true_eq] at hc
    rw [tightN_branch]
    have hh : ∀ l, lo = some l → kids.head?.map (·.1) = some l := by
      intro l hl
      have := hf l hl
      cases kids with
      | nil => have := hc.1.1.2; simp at this
      | cons x r => simpa [N.firstKey] using this
    exact ⟨hh, tightKids_of_committed kids lo _ hc.2 hh⟩
theorem tightKids_of_committed : ∀ (kids : List (Bytes × N)) (lo : Option Bytes) (d : Nat),
    committedKids kids d = true → (∀ l, lo = some l → kids.head?.map (·.1) = some l) → tightKids lo kids = true
  | [], _, _, _, _ => by rw [tightKids]
  | (s, c) :: r, lo, d, hc, hh => by
    rw [committedKids] at hc
    simp only [Bool.and_eq_true, beq_iff_eq] at hc
    rw [tightKids_cons]
    refine ⟨tight_of_committed c false lo hc.1.2 ?_, tightKids_of_committed r _ d hc.2 (fun l h => h)⟩
    intro l hl
    have := hh l hl
    simp only [List.head?_cons, Option.map_some, Option.some.injEq] at this
    rw [← hc.1.1.1, this]
end

theorem head_set_fst : ∀ (r : List (Bytes × N)) (i : Nat) (s : Bytes) (c c' : N), r[i]? = some (s, c) →
    (r.set i (s, c')).head?.map (·.1) = r.head?.map (·.1)
  | [], _, _, _, _, h => by simp at h
  | x :: r, 0, s, c, c', h => by
    simp only [List.getElem?_cons_zero, Option.some.injEq] at h; subst h; simp
  | x :: r, i+1, s, c, c', _ => by simp

theorem tightKids_set : ∀ (kids : List (Bytes × N)) (lo : Option Bytes) (i : Nat) (s : Bytes) (c c' : N),
    tightKids lo kids = true → kids[i]? = some (s, c) →
    (∀ lo_c, tightN lo_c c = true → tightN lo_c c' = true) → tightKids lo (kids.set i (s, c')) = true
  | [], _, _, _, _, _, _, h, _ => by simp at h
  | x :: r, lo, 0, s, c, c', ht, h, hc => by
    simp only [List.getElem?_cons_zero, Option.some.injEq] at h; subst h
    rw [List.set_cons_zero, tightKids_cons]
    rw [tightKids_cons] at ht
    exact ⟨hc _ ht.1, ht.2⟩
  | (s0, c0) :: r, lo, i+1, s, c, c', ht, h, hc => by
    simp only [List.getElem?_cons_succ] at h
    rw [List.set_cons_succ, tightKids_cons, head_set_fst r i s c c' h]
    rw [tightKids_cons] at ht
    exact ⟨ht.1, tightKids_set r _ i s c c' ht.2 h hc⟩

theorem modifyAt_tight {f : N → Option N} (hf : ∀ x x', f x = some x' → ∃ h items, x' = .leaf h items) :
    ∀ (path : List Nat) (n n' : N), modifyAt f path n = some n' → ∀ lo, tightN lo n = true → tightN lo n' = true
  | [], n, n', h, lo, _ => by
    rw [modifyAt] at h
    obtain ⟨hd, items, rfl⟩ := hf _ _ h
    exact tightN_leaf ..
  | i :: rest, .leaf hd items, n', h, lo, _ => by
    rw [modifyAt, materialize_eq] at h
    simp at h
  | i :: rest, .branch hd kids, n', h, lo, ht => by
    rw [modifyAt, materialize_eq] at h
    simp only [setHd_branch] at h
    cases hk : kids[i]? with
    | none => rw [hk] at h; simp at h
    | some sc =>
      obtain ⟨s, c⟩ := sc
      rw [hk] at h
      simp only [Option.map_eq_some_iff] at h
      obtain ⟨c', hc', rfl⟩ := h
      rw [tightN_branch] at ht ⊢
      refine ⟨?_, tightKids_set kids lo i s c c' ht.2 hk (fun lo_c => modifyAt_tight hf rest c c' hc' lo_c)⟩
      rw [head_set_fst kids i s c c' hk]
      exact ht.1

theorem leafPut_leaf (k v : Bytes) : ∀ x x', leafPut k v x = some x' → ∃ h items, x' = .leaf h items := by
  intro x x' h
  cases x with
  | leaf hd items =>
    simp only [leafPut] at h
    split at h <;> (simp only [Option.some.injEq] at h; exact ⟨_, _, h.symm⟩)
  | branch hd kids => simp [leafPut] at h

theorem leafDel_leaf (k : Bytes) : ∀ x x', leafDel k x = some x' → ∃ h items, x' = .leaf h items := by
  intro x x' h
  cases x with
  | leaf hd items =>
    simp only [leafDel] at h
    split at h <;> (simp only [Option.some.injEq] at h; exact ⟨_, _, h.symm⟩)
  | branch hd kids => simp [leafDel] at h

theorem applyOp_tight {fuel : Nat} {t t' : N} {o : Op} (h : applyOp fuel t o = some t')
    (ht : tightN none t = true) : tightN none t' = true := by
  cases o with
  | put k v =>
    simp only [applyOp, putT] at h
    split at h
    · split at h
      · simp only [Option.some.injEq] at h; subst h; exact ht
      · exact modifyAt_tight (leafPut_leaf k v) _ _ _ h _ ht
    · exact modifyAt_tight (leafPut_leaf k v) _ _ _ h _ ht
  | del k =>
    simp only [applyOp, delT] at h
    split at h
    · split at h
      · exact modifyAt_tight (leafDel_leaf k) _ _ _ h _ ht
      · simp only [Option.some.injEq] at h; subst h; exact ht
    · simp only [Option.some.injEq] at h; subst h; exact ht

theorem applyOps_tight {fuel : Nat} : ∀ (ops : List Op) (t t' : N), applyOps fuel t ops = some t' →
    tightN none t = true → tightN none t' = true
  | [], t, t', h, ht => by
    simp only [applyOps, Option.some.injEq] at h; subst h; exact ht
  | o :: os, t, t', h, ht => by
    rw [applyOps] at h
    cases ho : applyOp fuel t o with
    | none => rw [ho] at h; simp at h
    | some t1 =>
      rw [ho] at h
      simp only [Option.bind_some] at h
      exact applyOps_tight os t1 t' h (applyOp_tight ho ht)

/-! ### counterexample to the first version of `rebalanceAt_refines` (hypothesis `InTx t` only)

`cexX` is bounded below by its separator `[5]`; its first child is filed under `[7]` but holds
the key `[6]` — `inTxN` admits that (the first child inherits the bound `[5]`), no transaction
produces it.  Rebalancing `cexX` merges it into its left sibling: the child lands in the middle
of the merged inodes, the key `[6]` is now below its separator `[7]` (unreachable), and `InTx`
fails for the result.  `InTxR` rejects `cexT`. -/

def cexLeaf (pg : Nat) (mat : Bool) (key : Bytes) (ks : List Bytes) : N :=
  .leaf { pgid := pg, mat := mat, unb := false, key := key } (ks.map (fun k => { key := k, val := [], flags := 0 }))

def cexW : N := .branch { pgid := 2, mat := false, unb := false, key := [] }
  [([1], cexLeaf 4 false [] [[1]]), ([3], cexLeaf 5 false [] [[3]])]
def cexX : N := .branch { pgid := 3, mat := true, unb := true, key := [5] }
  [([7], cexLeaf 6 true [7] [[6], [7]]), ([9], cexLeaf 7 false [] [[9]])]
def cexT : N := .branch { pgid := 1, mat := true, unb := false, key := [] } [([1], cexW), ([5], cexX)]

example : InTx cexT ∧ ¬ InTxR cexT ∧
    ∃ t', rebalanceAt 1000 cexT [1] = some t' ∧ ¬ InTx t' := by
  refine ⟨by decide, by decide, _, rfl, by decide⟩

end Bolt.BTree.RebL
