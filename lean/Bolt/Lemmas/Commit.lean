import Bolt.Props.C01BktWrite
import Bolt.Props.C01Bytes
namespace Bolt.CommitL
open Bolt Bolt.BTree Bolt.Bkt Bolt.C12Bk Bolt.C12Tree Bolt.C01Tree Bolt.C01Bkt Bolt.C01BktWrite
open Bolt.Surgery

/-! ### the pages a commit writes lie above the two meta pages -/

theorem fitsG_two (ps hwm : Nat) : ∀ (c : N), FitsG ps hwm c → 2 ≤ c.hd.pgid
  | .leaf h items, hf => by rw [FitsG] at hf; exact hf.1
  | .branch h kids, hf => by rw [FitsG] at hf; exact hf.1

mutual
/-- every written node of a tree within the page range has a page id ≥ 2 -/
theorem newNodes_two (ps hwm : Nat) : ∀ (a b : N), FitsG ps hwm b → ∀ n ∈ newNodes a b, 2 ≤ n.hd.pgid
  | .leaf ha ia, b, hf, n, hn => by
    rw [newNodes] at hn
    split at hn
    · cases hn
    · rw [List.mem_singleton.mp hn]; exact fitsG_two ps hwm b hf
  | .branch ha ka, .branch hb kb, hf, n, hn => by
    rw [newNodes] at hn
    split at hn
    · cases hn
    · rcases List.mem_append.mp hn with hn | hn
      · have hf' := hf
        rw [FitsG] at hf'
        exact newNodesKids_two ps hwm ka kb hf'.2.2.2.2.2 n hn
      · rw [List.mem_singleton.mp hn]; exact fitsG_two ps hwm _ hf
  | .branch ha ka, .leaf hb ib, hf, n, hn => by
    rw [newNodes] at hn
    · split at hn
      · cases hn
      · rw [List.mem_singleton.mp hn]; exact fitsG_two ps hwm _ hf
    · intro _ _ h; cases h
theorem newNodesKids_two (ps hwm : Nat) : ∀ (ka kb : List (Bytes × N)), FitsGKids ps hwm kb →
    ∀ n ∈ newNodesKids ka kb, 2 ≤ n.hd.pgid
  | [], _, _, n, hn => by
    rw [newNodesKids] at hn
    · cases hn
    · simp
  | _ :: _, [], _, n, hn => by
    rw [newNodesKids] at hn
    · cases hn
    · simp
  | (_, c) :: r, (_, c') :: r', hf, n, hn => by
    rw [newNodesKids] at hn
    rw [FitsGKids] at hf
    rcases List.mem_append.mp hn with hn | hn
    · exact newNodes_two ps hwm c c' hf.1 n hn
    · exact newNodesKids_two ps hwm r r' hf.2 n hn
end

/-- every node a commit writes, over the whole bucket tree, has a page id ≥ 2 -/
theorem newNodesBk_two (ps hwm : Nat) : ∀ (F : Nat) (a b : Bk), RelabelBk F a b → SideOk ps hwm F b →
    ∀ n ∈ newNodesBk F a b, 2 ≤ n.hd.pgid
  | 0, a, b, hr, _, _, _ => by rw [relabelBk_zero] at hr; exact hr.elim
  | F+1, .mk ra sa ta oa, .mk rb sb tb ob, hr, hs, n, hn => by
    obtain ⟨_, h0, hnz, hlen, hz⟩ := (relabelBk_succ ..).mp hr
    rw [SideOk] at hs
    obtain ⟨_, s2, _, s4⟩ := hs
    simp only [Bk.root, Bk.opened] at s2 s4
    rw [newNodesBk] at hn
    rcases List.mem_append.mp hn with hn | hn
    · by_cases hra : ra = 0
      · rw [if_neg (fun h => h hra)] at hn; cases hn
      · rw [if_pos (show (Bk.mk ra sa ta oa).root ≠ 0 from hra)] at hn
        exact newNodes_two ps hwm _ _ (s2 (hnz hra).2.2) n hn
    · obtain ⟨pq, hpq, hn⟩ := List.mem_flatMap.mp hn
      have hq : pq.2 ∈ ob := (List.of_mem_zip hpq).2
      exact newNodesBk_two ps hwm F pq.1.2 pq.2.2 (hz pq hpq).2 (s4 pq.2 hq) n hn

/-! ### `writeAll` above the meta pages leaves them alone -/

theorem writeNode_size (ps : Nat) (f : File) (n : N) : f.size ≤ (writeNode ps f n).size := by
  unfold writeNode patch
  exact Nat.le_max_left _ _

theorem writeAll_size (ps : Nat) : ∀ (ns : List N) (f : File), f.size ≤ (writeAll ps f ns).size
  | [], _ => Nat.le_refl _
  | n :: r, f => Nat.le_trans (writeNode_size ps f n) (writeAll_size ps r (writeNode ps f n))

theorem writeAll_low (ps : Nat) (hps : 0 < ps) (ns : List N) (f : File)
    (h2 : ∀ n ∈ ns, 2 ≤ n.hd.pgid) : ∀ i, i < 2 * ps → (writeAll ps f ns).get i = f.get i := by
  intro i hi
  apply writeAll_get_out ps hps
  intro n hn hc
  have : 2 * ps ≤ n.hd.pgid * ps := Nat.mul_le_mul_right ps (h2 n hn)
  omega

/-! ### `metaPagesOk` is a function of the bytes below `2*ps` (and two lower bounds on the size) -/

theorem metaPagesOk_congr_low (f f' : File) (ps : Nat) (hm : ∀ i, i < 2 * ps → f'.get i = f.get i)
    (hsz : f.size ≤ f'.size) (h : metaPagesOk f ps = true) : metaPagesOk f' ps = true := by
  have ok := SurgeryL.pagesOk_of h
  have hps := ok.ps80
  have s0 := MetaWriteL.low_shift (off := 16) hm (by omega)
  have s1 := MetaWriteL.low_shift (off := ps + 16) hm (by omega)
  have v0 : metaValid f' 16 = true := (SurgeryL.metaValid_shift s0).trans ok.v0
  have v1 : metaValid f' (ps + 16) = true := (SurgeryL.metaValid_shift s1).trans ok.v1
  have a1 : f'.u32 24 = f.u32 24 := SurgeryL.u32_shift (fun j hj => hm _ (by omega))
  have a2 : f'.u32 (ps + 24) = f.u32 (ps + 24) := SurgeryL.u32_shift (fun j hj => hm _ (by omega))
  have a3 : f'.u64 0 = f.u64 0 := SurgeryL.u64_shift (fun j hj => hm _ (by omega))
  have a4 : f'.u64 ps = f.u64 ps := SurgeryL.u64_shift (fun j hj => hm _ (by omega))
  have a5 : f'.u32 12 = f.u32 12 := SurgeryL.u32_shift (fun j hj => hm _ (by omega))
  have a6 : f'.u32 (ps + 12) = f.u32 (ps + 12) := SurgeryL.u32_shift (fun j hj => hm _ (by omega))
  have a7 : f'.u64 56 = f.u64 56 := SurgeryL.u64_shift (fun j hj => hm _ (by omega))
  have b1 := ok.s4096
  have b2 := ok.s2
  simp only [metaPagesOk, Bool.and_eq_true, decide_eq_true_eq, beq_iff_eq, bne_iff_ne, ne_eq]
  refine ⟨⟨⟨⟨⟨⟨⟨⟨⟨⟨⟨by omega, by omega⟩, hps⟩, ?_⟩, ?_⟩, ?_⟩, ?_⟩, ?_⟩, ?_⟩, ?_⟩, v0⟩, v1⟩
  · rw [a1]; exact ok.ps0
  · rw [a2]; exact ok.ps1
  · rw [a3]; exact ok.id0
  · rw [a4]; exact ok.id1
  · rw [a5]; exact ok.ov0
  · rw [a6]; exact ok.ov1
  · rw [a7]; exact ok.hwm

/-- the page writes of a commit keep the two meta pages -/
theorem metaPagesOk_writeAll (f : File) (ps hwm F : Nat) (a b : Bk) (hps : 0 < ps)
    (hr : RelabelBk F a b) (hs : SideOk ps hwm F b) (h : metaPagesOk f ps = true) :
    metaPagesOk (writeAll ps f (newNodesBk F a b)) ps = true :=
  metaPagesOk_congr_low f _ ps
    (writeAll_low ps hps _ f (newNodesBk_two ps hwm F a b hr hs))
    (writeAll_size ps _ f) h

end Bolt.CommitL
