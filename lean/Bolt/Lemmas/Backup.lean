import Bolt.Model.Backup
import Bolt.Props.C02Tree
import Bolt.Lemmas.Encode
import Bolt.Lemmas.Surgery
namespace Bolt.BackupL
open Bolt Bolt.Backup Bolt.Enc Bolt.BTree Bolt.Bkt Bolt.C12Tree Bolt.C12Bk Bolt.C02Tree

/-! ### bytes of a list behind a prefix -/

theorem fileOf_get_right (a b : Bytes) (j : Nat) :
    (fileOf (a ++ b)).get (a.length + j) = (fileOf b).get j := by
  simp [fileOf, List.getD_eq_getElem?_getD, List.getElem?_append_right]

theorem fileOf_size (bs : Bytes) : (fileOf bs).size = bs.length := rfl

/-! ### lengths -/

theorem encodeMeta_length (m : Meta) : (encodeMeta m).length = 64 := by
  rw [encodeMeta_eq, List.length_append, metaBody_length, putLE_length]

theorem metaPage_length (ps id : Nat) (m : Meta) (h : 80 ≤ ps) : (metaPage ps id m).length = ps := by
  unfold metaPage
  rw [List.length_append, List.length_append, header_length, encodeMeta_length, List.length_replicate]
  omega

theorem two_pages_le (ps pgid : Nat) (h : 2 ≤ pgid) : 2 * ps ≤ pgid * ps :=
  Nat.mul_le_mul_right ps h

theorem backupBytes_length (f : File) (ps : Nat) (m : Meta) (h80 : 80 ≤ ps) (h2 : 2 ≤ m.pgid) :
    (backupBytes f ps m).length = m.pgid * ps := by
  unfold backupBytes
  rw [List.length_append, List.length_append, metaPage_length _ _ _ h80, metaPage_length _ _ _ h80,
    File.read_length]
  have := two_pages_le ps m.pgid h2
  omega

/-! ### a meta struct written somewhere in a byte list -/

theorem meta_of_split {bs : Bytes} {off : Nat} (a c : Bytes) (m : Meta)
    (h : bs = a ++ (encodeMeta m ++ c)) (hoff : off = a.length)
    (hm : m.magic = V2.magic) (hv : m.version = V2.version) (hps : m.pageSize < 2^32)
    (hf : m.flags < 2^32) (hr : m.root < 2^64) (hs : m.seq < 2^64) (hfl : m.freelist < 2^64)
    (hp : m.pgid < 2^64) (ht : m.txid < 2^64) :
    metaValid (fileOf bs) off = true ∧
    metaAt (fileOf bs) off = { m with checksum := metaSum (fileOf bs) off } := by
  subst h hoff
  have sh : ∀ j, j < 64 → (fileOf (a ++ (encodeMeta m ++ c))).get (a.length + j) =
      (fileOf (encodeMeta m ++ c)).get (0 + j) := by
    intro j _
    rw [Nat.zero_add]
    exact fileOf_get_right _ _ _
  rw [SurgeryL.metaValid_shift sh, SurgeryL.metaAt_shift sh, SurgeryL.metaSum_shift sh,
    metaSum_encodeMeta]
  exact ⟨metaValid_encodeMeta m c hm hv hps hf hr hs hfl hp ht,
    metaAt_encodeMeta m c (by rw [hm]; decide) (by rw [hv]; decide) hps hf hr hs hfl hp ht⟩

/-- the first meta struct of the copy -/
theorem backupBytes_split0 (f : File) (ps : Nat) (m : Meta) :
    backupBytes f ps m = Enc.header 0 V2.metaPageFlag 0 0 ++ (encodeMeta m ++
      (List.replicate (ps - 80) 0 ++ metaPage ps 1 (decTxid m) ++
        f.read (2 * ps) (m.pgid * ps - 2 * ps))) := by
  simp only [backupBytes, metaPage, List.append_assoc]

/-- the second meta struct of the copy -/
theorem backupBytes_split1 (f : File) (ps : Nat) (m : Meta) :
    backupBytes f ps m = (metaPage ps 0 m ++ Enc.header 1 V2.metaPageFlag 0 0) ++
      (encodeMeta (decTxid m) ++
        (List.replicate (ps - 80) 0 ++ f.read (2 * ps) (m.pgid * ps - 2 * ps))) := by
  simp only [backupBytes, metaPage, List.append_assoc]

theorem decTxid_txid (m : Meta) (h1 : 1 ≤ m.txid) (h : m.txid < 2^64) :
    (decTxid m).txid = m.txid - 1 := by
  show (m.txid + 2^64 - 1) % 2^64 = m.txid - 1
  have e : (2:Nat)^64 = 18446744073709551616 := by decide
  rw [e] at h ⊢
  omega

theorem decTxid_eq (m : Meta) (h1 : 1 ≤ m.txid) (h : m.txid < 2^64) :
    decTxid m = { m with txid := m.txid - 1 } := by
  have := decTxid_txid m h1 h
  unfold decTxid at this ⊢
  simp only at this
  rw [this]

/-- both meta structs of the copy -/
theorem backup_metas_aux (f : File) (ps : Nat) (m : Meta)
    (hm : m.magic = V2.magic) (hv : m.version = V2.version) (hps : m.pageSize < 2^32)
    (h80 : 80 ≤ ps)
    (hf : m.flags < 2^32) (hr : m.root < 2^64) (hs : m.seq < 2^64) (hfl : m.freelist < 2^64)
    (hp : m.pgid < 2^64) (ht1 : 1 ≤ m.txid) (ht : m.txid < 2^64) :
    metaValid (backupFile f ps m) 16 = true ∧ metaValid (backupFile f ps m) (ps + 16) = true ∧
    metaAt (backupFile f ps m) 16 = { m with checksum := metaSum (backupFile f ps m) 16 } ∧
    metaAt (backupFile f ps m) (ps + 16) =
      { m with txid := m.txid - 1, checksum := metaSum (backupFile f ps m) (ps + 16) } := by
  have a0 := meta_of_split (off := 16) _ _ m (backupBytes_split0 f ps m) (by rw [header_length])
    hm hv hps hf hr hs hfl hp ht
  have e := decTxid_eq m ht1 ht
  have a1 := meta_of_split (off := ps + 16) _ _ (decTxid m) (backupBytes_split1 f ps m)
    (by rw [List.length_append, metaPage_length _ _ _ h80, header_length])
    (by rw [e]; exact hm) (by rw [e]; exact hv) (by rw [e]; exact hps) (by rw [e]; exact hf)
    (by rw [e]; exact hr) (by rw [e]; exact hs) (by rw [e]; exact hfl) (by rw [e]; exact hp)
    (by rw [e]; show m.txid - 1 < 2^64; omega)
  refine ⟨a0.1, a1.1, a0.2, ?_⟩
  have := a1.2
  rw [e] at this
  exact this

/-! ### the data pages -/

theorem backup_data_aux (f : File) (ps : Nat) (m : Meta) (h80 : 80 ≤ ps) :
    ∀ i, 2 * ps ≤ i → i < m.pgid * ps → (backupFile f ps m).get i = f.get i := by
  intro i h1 h2
  have hl : (metaPage ps 0 m ++ metaPage ps 1 (decTxid m)).length = 2 * ps := by
    rw [List.length_append, metaPage_length _ _ _ h80, metaPage_length _ _ _ h80]; omega
  have hi : i = (metaPage ps 0 m ++ metaPage ps 1 (decTxid m)).length + (i - 2 * ps) := by
    rw [hl]; omega
  unfold backupFile backupBytes
  rw [hi, fileOf_get_right, ← hi]
  show (f.read (2 * ps) (m.pgid * ps - 2 * ps)).getD (i - 2 * ps) 0 = f.get i
  rw [SurgeryL.read_getD _ _ _ _ (by omega)]
  congr 1
  omega

/-! ### the pages of a bucket tree lie in `[2, hwm)` -/

mutual
theorem pages_range_node (ps hwm : Nat) : ∀ (t : N), FitsG ps hwm t →
    ∀ p ∈ pagesOf ps t, 2 ≤ p.1 ∧ p.1 + p.2.1 < hwm
  | .leaf h items, hf, p, hp => by
    rw [FitsG] at hf; rw [pagesOf] at hp
    have := List.mem_singleton.mp hp
    subst this
    exact ⟨hf.1, hf.2.1⟩
  | .branch h kids, hf, p, hp => by
    rw [FitsG] at hf; rw [pagesOf] at hp
    rcases List.mem_cons.mp hp with rfl | hp
    · exact ⟨hf.1, hf.2.1⟩
    · exact pages_range_kids ps hwm kids hf.2.2.2.2.2 p hp
theorem pages_range_kids (ps hwm : Nat) : ∀ (kids : List (Bytes × N)), FitsGKids ps hwm kids →
    ∀ p ∈ pagesOfKids ps kids, 2 ≤ p.1 ∧ p.1 + p.2.1 < hwm
  | [], _, p, hp => by rw [pagesOfKids] at hp; cases hp
  | (s, c) :: r, hf, p, hp => by
    rw [FitsGKids] at hf; rw [pagesOfKids] at hp
    rcases List.mem_append.mp hp with hp | hp
    · exact pages_range_node ps hwm c hf.1 p hp
    · exact pages_range_kids ps hwm r hf.2 p hp
end

theorem inPages_range (ps hwm : Nat) (t : N) (hf : FitsG ps hwm t) (i : Nat)
    (hi : inPages ps t i) : 2 * ps ≤ i ∧ i < hwm * ps := by
  obtain ⟨p, hp, h1, h2⟩ := hi
  obtain ⟨r1, r2⟩ := pages_range_node ps hwm t hf p hp
  have a : 2 * ps ≤ p.1 * ps := Nat.mul_le_mul_right ps r1
  have b : (p.1 + p.2.1 + 1) * ps ≤ hwm * ps := Nat.mul_le_mul_right ps (by omega)
  omega

theorem inBkPages_range (f : File) (ps hwm : Nat) : ∀ (fu : Nat) (b : Bk),
    LaidBk f ps hwm fu b → ∀ i, inBkPages ps fu b i → 2 * ps ≤ i ∧ i < hwm * ps := by
  intro fu
  induction fu with
  | zero => intro b hl; rw [LaidBk] at hl; exact hl.elim
  | succ fu ih =>
    intro b hl i hi
    rw [LaidBk] at hl
    rw [inBkPages] at hi
    obtain ⟨_, h2, _, h4⟩ := hl
    rcases hi with ⟨hr, hi⟩ | ⟨p, hp, hi⟩
    · exact inPages_range ps hwm _ (h2 hr).2.2 i hi
    · exact ih p.2 (h4 p hp) i hi

/-! ### projections of the reader's result -/

theorem decodeAt_mt (f : File) (ps moff : Nat) : (decodeAt f ps moff).mt = metaAt f moff := by
  simp only [decodeAt]

theorem decodeAt_content (f : File) (ps moff : Nat) :
    (decodeAt f ps moff).content = SVal.bkt (metaAt f moff).seq
      (decodeTree f ps (metaAt f moff).pgid 64 (metaAt f moff).root Phys.empty).1 := by
  simp only [decodeAt]

end Bolt.BackupL
