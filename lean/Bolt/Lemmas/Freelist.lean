/-
Helper definitions and lemmas for the freelist theorems (C09, C10).
-/
import Bolt.Model.Freelist
namespace Bolt.FL

/-- Hashmap spans: positive sizes, ids ≥ 2, sorted, disjoint and non-adjacent (maximal). -/
def SpansWF (spans : List (Pgid × Nat)) : Prop :=
  (∀ s ∈ spans, 0 < s.2 ∧ 2 ≤ s.1) ∧ spans.Pairwise (fun a b => a.1 + a.2 < b.1)

/-- The allocator invariant. -/
structure FLInv (f : FL) : Prop where
  array_sorted : f.kind = .array → f.ids.Pairwise (· < ·) ∧ ∀ q ∈ f.ids, 2 ≤ q
  spans_wf : f.kind = .hashmap → SpansWF f.spans
  disjoint : ∀ q, q ∈ f.freeIds → q ∉ f.pendingIds
  pending_nodup : f.pendingIds.Nodup
  pending_keys : (f.pending.map (·.1)).Nodup
  pending_ge2 : ∀ q ∈ f.pendingIds, 2 ≤ q

end Bolt.FL
