/-
Helper definitions and lemmas for the freelist theorems (C09, C10).
-/
import Bolt.Model.Freelist
namespace Bolt.FL

/-- Hashmap spans: positive sizes, ids ≥ 2, sorted, disjoint and non-adjacent (maximal). -/
def SpansWF (spans : List (Pgid × Nat)) : Prop :=
  (∀ s ∈ spans, 0 < s.2 ∧ 2 ≤ s.1) ∧ spans.Pairwise (fun a b => a.1 + a.2 < b.1)

/-- The allocator invariant. -/
structure FLInv (f : FL) : Prop where
  array_sorted : f.kind = .array → f.ids.Pairwise (· < ·) ∧ ∀ q ∈ f.ids, 2 ≤ q
  spans_wf : f.kind = .hashmap → SpansWF f.spans
  disjoint : ∀ q, q ∈ f.freeIds → q ∉ f.pendingIds
  pending_nodup : f.pendingIds.Nodup
  pending_keys : (f.pending.map (·.1)).Nodup
  pending_ge2 : ∀ q ∈ f.pendingIds, 2 ≤ q

/-- `omega` after unfolding the `Pgid`/`Txid` abbreviations (omega only sees literal `Nat`). -/
macro "fomega" : tactic => `(tactic| ((try simp only [Pgid, Txid] at *); omega))

/-! ### sorted lists: `insertSorted`, `sortNat`, `mergeSorted` -/

theorem sorted_lt_iff {l : List Nat} :
    l.Pairwise (· < ·) ↔ l.Pairwise (· ≤ ·) ∧ l.Nodup := by
  constructor
  · intro h
    exact ⟨h.imp (fun h => Nat.le_of_lt h), h.imp (fun h => Nat.ne_of_lt h)⟩
  · rintro ⟨h1, h2⟩
    exact (h1.and h2).imp (fun ⟨a, b⟩ => Nat.lt_of_le_of_ne a b)

theorem insertSorted_perm (x : Nat) (l : List Nat) : (insertSorted x l).Perm (x :: l) := by
  induction l with
  | nil => simp [insertSorted]
  | cons y ys ih =>
    simp only [insertSorted]
    split
    · exact List.Perm.refl _
    · exact (List.Perm.cons y ih).trans (List.Perm.swap x y ys)

theorem mem_insertSorted {x q : Nat} {l : List Nat} : q ∈ insertSorted x l ↔ q = x ∨ q ∈ l := by
  rw [(insertSorted_perm x l).mem_iff]; simp

theorem insertSorted_sorted {x : Nat} {l : List Nat} (h : l.Pairwise (· ≤ ·)) :
    (insertSorted x l).Pairwise (· ≤ ·) := by
  induction l with
  | nil => simp [insertSorted]
  | cons y ys ih =>
    simp only [insertSorted]
    split
    · rename_i hxy
      rw [List.pairwise_cons] at h ⊢
      refine ⟨?_, List.pairwise_cons.mpr h⟩
      intro a ha
      rcases List.mem_cons.mp ha with rfl | ha
      · exact hxy
      · exact Nat.le_trans hxy (h.1 a ha)
    · rename_i hxy
      rw [List.pairwise_cons] at h ⊢
      refine ⟨?_, ih h.2⟩
      intro a ha
      rcases mem_insertSorted.mp ha with rfl | ha
      · omega
      · exact h.1 a ha

theorem sortNat_perm (l : List Nat) : (sortNat l).Perm l := by
  induction l with
  | nil => exact List.Perm.refl _
  | cons x xs ih =>
    show (insertSorted x (sortNat xs)).Perm (x :: xs)
    exact (insertSorted_perm x _).trans (List.Perm.cons x ih)

theorem mem_sortNat {q : Nat} {l : List Nat} : q ∈ sortNat l ↔ q ∈ l := (sortNat_perm l).mem_iff

theorem length_sortNat (l : List Nat) : (sortNat l).length = l.length := (sortNat_perm l).length_eq

theorem sortNat_sorted (l : List Nat) : (sortNat l).Pairwise (· ≤ ·) := by
  induction l with
  | nil => exact List.Pairwise.nil
  | cons x xs ih => exact insertSorted_sorted ih

theorem sortNat_sorted_lt {l : List Nat} (h : l.Nodup) : (sortNat l).Pairwise (· < ·) :=
  sorted_lt_iff.mpr ⟨sortNat_sorted l, (sortNat_perm l).nodup_iff.mpr h⟩

theorem insertSorted_of_le {x : Nat} {l : List Nat} (h : ∀ y ∈ l, x ≤ y) :
    insertSorted x l = x :: l := by
  cases l with
  | nil => rfl
  | cons y ys => simp [insertSorted, h y (List.mem_cons_self)]

theorem sortNat_of_sorted {l : List Nat} (h : l.Pairwise (· ≤ ·)) : sortNat l = l := by
  induction l with
  | nil => rfl
  | cons x xs ih =>
    rw [List.pairwise_cons] at h
    show insertSorted x (sortNat xs) = x :: xs
    rw [ih h.2, insertSorted_of_le h.1]

@[simp] theorem sortNat_nil : sortNat [] = [] := rfl

@[simp] theorem mergeSorted_nil_right (a : List Nat) : mergeSorted a [] = a := by
  cases a <;> simp [mergeSorted]

@[simp] theorem mergeSorted_nil_left (b : List Nat) : mergeSorted [] b = b := by
  simp [mergeSorted]

theorem mergeSorted_perm (a b : List Nat) : (mergeSorted a b).Perm (a ++ b) := by
  fun_induction mergeSorted a b with
  | case1 b => simp
  | case2 a h => simp
  | case3 x a y b hxy ih =>
    exact List.Perm.cons x ih
  | case4 x a y b hxy ih =>
    refine (List.Perm.cons y ih).trans ?_
    exact (List.perm_middle (a := y) (l₁ := x :: a) (l₂ := b)).symm

theorem mem_mergeSorted {q : Nat} {a b : List Nat} : q ∈ mergeSorted a b ↔ q ∈ a ∨ q ∈ b := by
  rw [(mergeSorted_perm a b).mem_iff]; simp

theorem length_mergeSorted (a b : List Nat) : (mergeSorted a b).length = a.length + b.length := by
  rw [(mergeSorted_perm a b).length_eq]; simp

theorem mergeSorted_sorted {a b : List Nat} (ha : a.Pairwise (· ≤ ·)) (hb : b.Pairwise (· ≤ ·)) :
    (mergeSorted a b).Pairwise (· ≤ ·) := by
  fun_induction mergeSorted a b with
  | case1 b => exact hb
  | case2 a h => exact ha
  | case3 x a y b hxy ih =>
    rw [List.pairwise_cons] at ha ⊢
    refine ⟨?_, ih ha.2 hb⟩
    intro q hq
    rcases mem_mergeSorted.mp hq with hq | hq
    · exact ha.1 q hq
    · rw [List.pairwise_cons] at hb
      rcases List.mem_cons.mp hq with rfl | hq
      · exact hxy
      · exact Nat.le_trans hxy (hb.1 q hq)
  | case4 x a y b hxy ih =>
    rw [List.pairwise_cons] at hb ⊢
    refine ⟨?_, ih ha hb.2⟩
    intro q hq
    rcases mem_mergeSorted.mp hq with hq | hq
    · rw [List.pairwise_cons] at ha
      rcases List.mem_cons.mp hq with rfl | hq
      · omega
      · have := ha.1 q hq; omega
    · exact hb.1 q hq

theorem mergeSorted_sorted_lt {a b : List Nat} (ha : a.Pairwise (· < ·)) (hb : b.Pairwise (· < ·))
    (hd : ∀ q ∈ a, q ∉ b) : (mergeSorted a b).Pairwise (· < ·) := by
  rw [sorted_lt_iff] at ha hb ⊢
  refine ⟨mergeSorted_sorted ha.1 hb.1, ?_⟩
  rw [(mergeSorted_perm a b).nodup_iff, List.nodup_append]
  exact ⟨ha.2, hb.2, fun x hx y hy hxy => hd x hx (hxy ▸ hy)⟩

/-- Two strictly sorted lists with the same members are equal. -/
theorem sorted_ext {a b : List Nat} (ha : a.Pairwise (· < ·)) (hb : b.Pairwise (· < ·))
    (h : ∀ q, q ∈ a ↔ q ∈ b) : a = b := by
  induction a generalizing b with
  | nil =>
    cases b with
    | nil => rfl
    | cons y ys => exact absurd ((h y).mpr List.mem_cons_self) (by simp)
  | cons x xs ih =>
    cases b with
    | nil => exact absurd ((h x).mp List.mem_cons_self) (by simp)
    | cons y ys =>
      rw [List.pairwise_cons] at ha hb
      have hxy : x = y := by
        have h1 := (h x).mp List.mem_cons_self
        have h2 := (h y).mpr List.mem_cons_self
        rcases List.mem_cons.mp h1 with h1 | h1
        · exact h1
        · rcases List.mem_cons.mp h2 with h2 | h2
          · exact h2.symm
          · have := ha.1 y h2; have := hb.1 x h1; omega
      subst hxy
      congr 1
      apply ih ha.2 hb.2
      intro q
      constructor
      · intro hq
        have := (h q).mp (List.mem_cons_of_mem _ hq)
        rcases List.mem_cons.mp this with rfl | h3
        · have := ha.1 q hq; omega
        · exact h3
      · intro hq
        have := (h q).mpr (List.mem_cons_of_mem _ hq)
        rcases List.mem_cons.mp this with rfl | h3
        · have := hb.1 q hq; omega
        · exact h3

theorem isSorted_of_pairwise {l : List Nat} (h : l.Pairwise (· ≤ ·)) : isSorted l = true := by
  induction l with
  | nil => rfl
  | cons x xs ih =>
    cases xs with
    | nil => rfl
    | cons y ys =>
      rw [List.pairwise_cons] at h
      simp only [isSorted, Bool.and_eq_true, decide_eq_true_eq]
      exact ⟨h.1 y List.mem_cons_self, ih h.2⟩

/-! ### spans -/

theorem mem_expandSpan {q : Nat} {s : Pgid × Nat} : q ∈ expandSpan s ↔ s.1 ≤ q ∧ q < s.1 + s.2 := by
  simp only [expandSpan, List.mem_map, List.mem_range]
  constructor
  · rintro ⟨a, h1, rfl⟩; fomega
  · intro h; exact ⟨q - s.1, by fomega, by fomega⟩

theorem mem_spanIds {q : Nat} {spans : List (Pgid × Nat)} :
    q ∈ spanIds spans ↔ ∃ s ∈ spans, s.1 ≤ q ∧ q < s.1 + s.2 := by
  simp only [spanIds, List.mem_flatMap, mem_expandSpan]

theorem expandSpan_sorted (s : Pgid × Nat) : (expandSpan s).Pairwise (· < ·) := by
  simp only [expandSpan, List.pairwise_map]
  exact List.pairwise_lt_range.imp (fun h => by fomega)

theorem expandSpan_succ (a n : Nat) : expandSpan (a, n + 1) = expandSpan (a, n) ++ [a + n] := by
  simp [expandSpan, List.range_succ]

@[simp] theorem spanIds_nil : spanIds [] = [] := rfl

theorem spanIds_cons (s : Pgid × Nat) (ts : List (Pgid × Nat)) :
    spanIds (s :: ts) = expandSpan s ++ spanIds ts := by
  simp [spanIds]

theorem spanIds_sorted {spans : List (Pgid × Nat)} (h : SpansWF spans) :
    (spanIds spans).Pairwise (· < ·) := by
  unfold spanIds
  rw [List.pairwise_flatMap]
  refine ⟨fun a _ => expandSpan_sorted a, h.2.imp ?_⟩
  intro a b hab x hx y hy
  rw [mem_expandSpan] at hx hy
  fomega

/-- Distinct well-formed spans are separated by a gap. -/
theorem SpansWF.sep {spans : List (Pgid × Nat)} (h : SpansWF spans) {s t : Pgid × Nat}
    (hs : s ∈ spans) (ht : t ∈ spans) : s = t ∨ s.1 + s.2 < t.1 ∨ t.1 + t.2 < s.1 := by
  have hp := h.2
  clear h
  induction spans with
  | nil => cases hs
  | cons u us ih =>
    rw [List.pairwise_cons] at hp
    rcases List.mem_cons.mp hs with hs' | hs' <;> rcases List.mem_cons.mp ht with ht' | ht'
    · exact Or.inl (hs'.trans ht'.symm)
    · subst hs'; exact Or.inr (Or.inl (hp.1 t ht'))
    · subst ht'; exact Or.inr (Or.inr (hp.1 s hs'))
    · exact ih hs' ht' hp.2

theorem SpansWF.eq_of_start {spans : List (Pgid × Nat)} (h : SpansWF spans) {s t : Pgid × Nat}
    (hs : s ∈ spans) (ht : t ∈ spans) (he : s.1 = t.1) : s = t := by
  rcases h.sep hs ht with h1 | h1 | h1
  · exact h1
  · have := (h.1 s hs).1; fomega
  · have := (h.1 t ht).1; fomega

theorem SpansWF.ge2 {spans : List (Pgid × Nat)} (h : SpansWF spans) {q : Nat}
    (hq : q ∈ spanIds spans) : 2 ≤ q := by
  obtain ⟨s, hs, h1, _⟩ := mem_spanIds.mp hq
  have := (h.1 s hs).2; fomega

theorem SpansWF.filter {spans : List (Pgid × Nat)} (h : SpansWF spans) (p : Pgid × Nat → Bool) :
    SpansWF (spans.filter p) :=
  ⟨fun s hs => h.1 s (List.mem_filter.mp hs).1, h.2.filter p⟩

theorem SpansWF.nil : SpansWF [] := ⟨fun _ h => (by cases h), List.Pairwise.nil⟩

theorem mem_insertSpan {s t : Pgid × Nat} {ts : List (Pgid × Nat)} :
    t ∈ insertSpan s ts ↔ t = s ∨ t ∈ ts := by
  induction ts with
  | nil => simp [insertSpan]
  | cons u us ih =>
    simp only [insertSpan]
    split
    · simp
    · simp only [List.mem_cons, ih]
      constructor
      · rintro (h | h | h) <;> simp [h]
      · rintro (h | h | h) <;> simp [h]

theorem SpansWF.insertSpan {ts : List (Pgid × Nat)} (h : SpansWF ts) {s : Pgid × Nat}
    (hpos : 0 < s.2) (hge : 2 ≤ s.1)
    (hsep : ∀ t ∈ ts, t.1 + t.2 < s.1 ∨ s.1 + s.2 < t.1) : SpansWF (insertSpan s ts) := by
  refine ⟨?_, ?_⟩
  · intro t ht
    rcases mem_insertSpan.mp ht with rfl | ht
    · exact ⟨hpos, hge⟩
    · exact h.1 t ht
  · obtain ⟨hwf, hp⟩ := h
    induction ts with
    | nil => simp [Bolt.FL.insertSpan]
    | cons u us ih =>
      rw [List.pairwise_cons] at hp
      simp only [Bolt.FL.insertSpan]
      split
      · rename_i hle
        rw [List.pairwise_cons]
        refine ⟨?_, List.pairwise_cons.mpr hp⟩
        intro t ht
        have hu := hsep u List.mem_cons_self
        have hup := (hwf u List.mem_cons_self).1
        rcases List.mem_cons.mp ht with rfl | ht
        · fomega
        · have h1 := hp.1 t ht
          have h2 := hsep t (List.mem_cons_of_mem _ ht)
          have h3 := (hwf t (List.mem_cons_of_mem _ ht)).1
          fomega
      · rename_i hle
        rw [List.pairwise_cons]
        refine ⟨?_, ih (fun t ht => hsep t (List.mem_cons_of_mem _ ht))
                        (fun t ht => hwf t (List.mem_cons_of_mem _ ht)) hp.2⟩
        intro t ht
        rcases mem_insertSpan.mp ht with rfl | ht
        · have hu := hsep u List.mem_cons_self
          fomega
        · exact hp.1 t ht

theorem mem_spanIds_insertSpan {q : Nat} {s : Pgid × Nat} {ts : List (Pgid × Nat)} :
    q ∈ spanIds (insertSpan s ts) ↔ (s.1 ≤ q ∧ q < s.1 + s.2) ∨ q ∈ spanIds ts := by
  simp only [mem_spanIds, mem_insertSpan]
  constructor
  · rintro ⟨t, rfl | ht, h⟩
    · exact Or.inl h
    · exact Or.inr ⟨t, ht, h⟩
  · rintro (h | ⟨t, ht, h⟩)
    · exact ⟨s, Or.inl rfl, h⟩
    · exact ⟨t, Or.inr ht, h⟩

/-! ### `spansOfSorted` round trip -/

theorem spanIds_spansOfSorted_go (start size : Nat) (ys : List Nat)
    (hs : ys.Pairwise (· < ·)) (hge : ∀ y ∈ ys, start + size ≤ y) :
    spanIds (spansOfSorted.go start size ys) = expandSpan (start, size) ++ ys := by
  fun_induction spansOfSorted.go start size ys with
  | case1 start size => simp [spanIds_cons]
  | case2 start size ys ih =>
    rw [List.pairwise_cons] at hs
    rw [ih hs.2, expandSpan_succ]
    · simp
    · intro z hz
      have := hs.1 z hz
      fomega
  | case3 start size y ys hy ih =>
    rw [List.pairwise_cons] at hs
    rw [spanIds_cons, ih hs.2]
    · simp [expandSpan, List.range_succ]
    · intro z hz
      have := hs.1 z hz
      fomega

theorem spanIds_spansOfSorted {l : List Nat} (h : l.Pairwise (· < ·)) :
    spanIds (spansOfSorted l) = l := by
  cases l with
  | nil => rfl
  | cons x xs =>
    rw [List.pairwise_cons] at h
    simp only [spansOfSorted]
    rw [spanIds_spansOfSorted_go x 1 xs h.2]
    · simp [expandSpan, List.range_succ]
    · intro y hy
      have := h.1 y hy
      fomega

/-! ### frame lemmas -/

theorem freeIds_congr {f g : FL} (hk : g.kind = f.kind) (hi : g.ids = f.ids) (hs : g.spans = f.spans) :
    g.freeIds = f.freeIds := by
  simp only [FL.freeIds, hk, hi, hs]

theorem pendingIds_congr {f g : FL} (hp : g.pending = f.pending) : g.pendingIds = f.pendingIds := by
  simp only [FL.pendingIds, hp]

theorem FLInv.congr {f g : FL} (h : FLInv f) (hk : g.kind = f.kind) (hi : g.ids = f.ids)
    (hs : g.spans = f.spans) (hp : g.pending = f.pending) : FLInv g := by
  have h1 := freeIds_congr hk hi hs
  have h2 := pendingIds_congr hp
  exact ⟨by rw [hk, hi]; exact h.array_sorted, by rw [hk, hs]; exact h.spans_wf,
         by rw [h1, h2]; exact h.disjoint, by rw [h2]; exact h.pending_nodup,
         by rw [hp]; exact h.pending_keys, by rw [h2]; exact h.pending_ge2⟩

theorem FLInv.freeIds_sorted {f : FL} (h : FLInv f) : f.freeIds.Pairwise (· < ·) := by
  unfold FL.freeIds
  cases hk : f.kind with
  | array => exact (h.array_sorted hk).1
  | hashmap => exact spanIds_sorted (h.spans_wf hk)

theorem FLInv.freeIds_ge2 {f : FL} (h : FLInv f) {q : Nat} (hq : q ∈ f.freeIds) : 2 ≤ q := by
  unfold FL.freeIds at hq
  cases hk : f.kind with
  | array => rw [hk] at hq; exact (h.array_sorted hk).2 q hq
  | hashmap => rw [hk] at hq; exact (h.spans_wf hk).ge2 hq

/-! ### serialisation -/

theorem length_copyall (f : FL) : f.copyall.length = f.count := by
  simp [FL.copyall, FL.count, FL.freeCount, FL.pendingCount, length_mergeSorted, length_sortNat]

theorem mem_copyall {f : FL} {q : Nat} : q ∈ f.copyall ↔ q ∈ f.freeIds ∨ q ∈ f.pendingIds := by
  simp [FL.copyall, mem_mergeSorted, mem_sortNat]

theorem copyall_sorted {f : FL} (h : FLInv f) : f.copyall.Pairwise (· < ·) := by
  apply mergeSorted_sorted_lt h.freeIds_sorted (sortNat_sorted_lt h.pending_nodup)
  intro q hq hq'
  exact h.disjoint q hq (mem_sortNat.mp hq')

theorem init_freeIds {ids : List Nat} (hs : ids.Pairwise (· < ·)) (f : FL) :
    ∃ g, f.init ids = some g ∧ g.freeIds = ids ∧ g.pending = f.pending := by
  unfold FL.init
  cases hk : f.kind with
  | array => exact ⟨_, rfl, by simp [FL.freeIds], rfl⟩
  | hashmap =>
    have : isSorted ids = true := isSorted_of_pairwise (sorted_lt_iff.mp hs).1
    simp only [this, if_true]
    exact ⟨_, rfl, by simp [FL.freeIds, spanIds_spansOfSorted hs], rfl⟩

theorem pageIds_write (f : FL) : pageIds f.write.1 f.write.2 = f.copyall := by
  have hl := length_copyall f
  unfold FL.write
  simp only []
  split
  · rename_i h0
    have : f.copyall = [] := List.eq_nil_of_length_eq_zero (by omega)
    simp [pageIds, this]
  · split
    · rename_i h0 h1
      have hne : ¬ f.count = 0xFFFF := by omega
      simp only [pageIds, hne, if_false]
      rw [← hl]; exact List.take_length
    · simp only [pageIds, if_true]
      rw [← hl]; exact List.take_length

/-! ### pending bookkeeping -/

def pidsOf (pending : List (Txid × TxPending)) : List Pgid :=
  pending.flatMap (fun p => p.2.ids.map (·.1))

theorem pendingIds_eq (f : FL) : f.pendingIds = pidsOf f.pending := rfl

@[simp] theorem pidsOf_nil : pidsOf [] = [] := rfl

theorem pidsOf_cons (p : Txid × TxPending) (ps : List (Txid × TxPending)) :
    pidsOf (p :: ps) = p.2.ids.map (·.1) ++ pidsOf ps := by
  simp [pidsOf]

theorem pidsOf_append (a b : List (Txid × TxPending)) : pidsOf (a ++ b) = pidsOf a ++ pidsOf b := by
  simp [pidsOf]

theorem mem_pidsOf {q : Nat} {pending : List (Txid × TxPending)} :
    q ∈ pidsOf pending ↔ ∃ t txp a, (t, txp) ∈ pending ∧ (q, a) ∈ txp.ids := by
  simp only [pidsOf, List.mem_flatMap, List.mem_map]
  constructor
  · rintro ⟨⟨t, txp⟩, hp, ⟨q', a⟩, hx, rfl⟩
    exact ⟨t, txp, a, hp, hx⟩
  · rintro ⟨t, txp, a, hp, hx⟩
    exact ⟨(t, txp), hp, (q, a), hx, rfl⟩

theorem addPending_map_of_not_mem (pending : List (Txid × TxPending)) (txid : Txid)
    (new : List (Pgid × Txid)) (h : txid ∉ pending.map (·.1)) :
    pending.map (fun p => if p.1 = txid then (p.1, { p.2 with ids := p.2.ids ++ new }) else p) = pending := by
  induction pending with
  | nil => rfl
  | cons p ps ih =>
    simp only [List.map_cons, List.mem_cons, not_or] at h
    simp only [List.map_cons]
    rw [ih h.2, if_neg (fun e => h.1 e.symm)]

theorem addPending_keys (pending : List (Txid × TxPending)) (txid : Txid) (new : List (Pgid × Txid))
    (h : (pending.map (·.1)).Nodup) : ((addPending pending txid new).map (·.1)).Nodup := by
  unfold addPending
  split
  · have : (pending.map (fun p => if p.1 = txid then (p.1, ({ p.2 with ids := p.2.ids ++ new } : TxPending)) else p)).map (·.1)
        = pending.map (·.1) := by
      rw [List.map_map]; apply List.map_congr_left; intro p _; simp only [Function.comp]; split <;> rfl
    rw [this]; exact h
  · rename_i hnone
    rw [List.find?_eq_none] at hnone
    rw [List.map_append, List.nodup_append]
    refine ⟨h, by simp, ?_⟩
    intro a ha b hb
    simp only [List.map_cons, List.map_nil, List.mem_singleton] at hb
    subst hb
    obtain ⟨p, hp, rfl⟩ := List.mem_map.mp ha
    simpa using hnone p hp

theorem pidsOf_map_add (pending : List (Txid × TxPending)) (txid : Txid) (new : List (Pgid × Txid))
    (h : (pending.map (·.1)).Nodup) (hm : txid ∈ pending.map (·.1)) :
    (pidsOf (pending.map (fun p => if p.1 = txid then (p.1, { p.2 with ids := p.2.ids ++ new }) else p))).Perm
      (pidsOf pending ++ new.map (·.1)) := by
  induction pending with
  | nil => cases hm
  | cons p ps ih =>
    simp only [List.map_cons, List.nodup_cons] at h
    simp only [List.map_cons]
    by_cases hp : p.1 = txid
    · rw [if_pos hp, addPending_map_of_not_mem ps txid new (hp ▸ h.1)]
      simp only [pidsOf_cons, List.map_append, List.append_assoc]
      exact List.Perm.append_left _ List.perm_append_comm
    · rw [if_neg hp]
      simp only [pidsOf_cons, List.append_assoc]
      refine List.Perm.append_left _ (ih h.2 ?_)
      simp only [List.map_cons, List.mem_cons] at hm
      rcases hm with hm | hm
      · exact absurd hm.symm hp
      · exact hm

theorem addPending_perm (pending : List (Txid × TxPending)) (txid : Txid) (new : List (Pgid × Txid))
    (h : (pending.map (·.1)).Nodup) :
    (pidsOf (addPending pending txid new)).Perm (pidsOf pending ++ new.map (·.1)) := by
  unfold addPending
  split
  · rename_i p0 hsome
    apply pidsOf_map_add _ _ _ h
    have h2 := List.find?_some hsome
    simp only [decide_eq_true_eq] at h2
    exact List.mem_map.mpr ⟨p0, List.mem_of_find?_eq_some hsome, h2⟩
  · rw [pidsOf_append]
    simp [pidsOf]

theorem addPending_mem (pending : List (Txid × TxPending)) (txid : Txid) (new : List (Pgid × Txid)) :
    ∃ txp, (txid, txp) ∈ addPending pending txid new ∧ ∀ x ∈ new, x ∈ txp.ids := by
  unfold addPending
  split
  · rename_i p0 hsome
    have h1 := List.mem_of_find?_eq_some hsome
    have h2 := List.find?_some hsome
    simp only [decide_eq_true_eq] at h2
    refine ⟨{ p0.2 with ids := p0.2.ids ++ new }, ?_, fun x hx => List.mem_append_right _ hx⟩
    rw [List.mem_map]
    exact ⟨p0, h1, by rw [if_pos h2, h2]⟩
  · exact ⟨{ ids := new, lastReleaseBegin := 0 }, by simp, fun x hx => hx⟩

theorem addPending_filter (pending : List (Txid × TxPending)) (txid : Txid) (new : List (Pgid × Txid)) :
    (addPending pending txid new).filter (fun p => p.1 ≠ txid) = pending.filter (fun p => p.1 ≠ txid) := by
  unfold addPending
  split
  · rename_i x hsome
    clear hsome x
    induction pending with
    | nil => rfl
    | cons p ps ih =>
      by_cases hp : p.1 = txid
      · simpa [hp] using ih
      · simpa [hp] using ih
  · simp

/-! ### Free -/

theorem freed_eq_false {f : FL} {q : Nat} : f.freed q = false ↔ q ∉ f.freeIds ∧ q ∉ f.pendingIds := by
  simp [FL.freed]

theorem mem_expandSpan' {q a n : Nat} : q ∈ expandSpan (a, n) ↔ a ≤ q ∧ q < a + n := mem_expandSpan

theorem free_some {f : FL} {txid id ov : Nat} {g : FL} (h : f.free txid id ov = some g) :
    2 ≤ id ∧ (∀ q, id ≤ q → q ≤ id + ov → q ∉ f.freeIds ∧ q ∉ f.pendingIds) ∧
    g = { f with allocs := f.allocs.filter (fun a => a.1 ≠ id),
                 pending := addPending f.pending txid
                   ((expandSpan (id, ov + 1)).map (fun q => (q, (lookupAlloc f.allocs id).getD 0))) } := by
  unfold FL.free at h
  split at h
  · cases h
  · rename_i hid
    simp only [] at h
    split at h
    · cases h
    · rename_i hany
      refine ⟨by fomega, ?_, ?_⟩
      · intro q h1 h2
        rw [← freed_eq_false]
        rw [Bool.not_eq_true, List.any_eq_false] at hany
        have := hany q (by
          rw [List.mem_map]
          exact ⟨q - id, List.mem_range.mpr (by omega), (by show id + (q - id) = q; omega)⟩)
        simpa using this
      · simp only [Option.some.injEq] at h
        rw [← h]
        rfl

theorem free_inv {f : FL} (hinv : FLInv f) {txid id ov : Nat} {g : FL}
    (h : f.free txid id ov = some g) :
    FLInv g ∧ g.freeIds = f.freeIds ∧
    g.pendingIds.Perm (f.pendingIds ++ expandSpan (id, ov + 1)) := by
  obtain ⟨hid, hnf, rfl⟩ := free_some h
  have hperm := addPending_perm f.pending txid
      ((expandSpan (id, ov + 1)).map (fun q => (q, (lookupAlloc f.allocs id).getD 0))) hinv.pending_keys
  have hmap : ((expandSpan (id, ov + 1)).map (fun q => (q, (lookupAlloc f.allocs id).getD 0))).map (·.1)
      = expandSpan (id, ov + 1) := by
    simp [List.map_map, Function.comp_def]
  rw [hmap] at hperm
  refine ⟨⟨hinv.array_sorted, hinv.spans_wf, ?_, ?_, ?_, ?_⟩, rfl, hperm⟩
  · intro q hq hq'
    have hq' : q ∈ pidsOf _ := hq'
    rw [hperm.mem_iff, List.mem_append] at hq'
    rcases hq' with hq' | hq'
    · exact hinv.disjoint q hq hq'
    · rw [mem_expandSpan'] at hq'
      exact (hnf q hq'.1 (by omega)).1 hq
  · show (pidsOf _).Nodup
    rw [hperm.nodup_iff, List.nodup_append]
    refine ⟨hinv.pending_nodup, (sorted_lt_iff.mp (expandSpan_sorted _)).2, ?_⟩
    intro a ha b hb hab
    subst hab
    rw [mem_expandSpan'] at hb
    exact (hnf a hb.1 (by omega)).2 ha
  · exact addPending_keys _ _ _ hinv.pending_keys
  · intro q hq
    have hq : q ∈ pidsOf _ := hq
    rw [hperm.mem_iff, List.mem_append] at hq
    rcases hq with hq | hq
    · exact hinv.pending_ge2 q hq
    · rw [mem_expandSpan'] at hq
      fomega

/-! ### Allocate, hashmap backend -/

/-- Removing the first `n` ids of span `s` (what `hashMap.Allocate` does). -/
theorem hm_take_spec {spans : List (Pgid × Nat)} (hwf : SpansWF spans) {s : Pgid × Nat}
    (hs : s ∈ spans) {n : Nat} (hn : 0 < n) (hle : n ≤ s.2) :
    SpansWF (if s.2 > n then insertSpan (s.1 + n, s.2 - n) (spans.filter (fun t => t.1 ≠ s.1))
             else spans.filter (fun t => t.1 ≠ s.1)) ∧
    ∀ q, q ∈ spanIds (if s.2 > n then insertSpan (s.1 + n, s.2 - n) (spans.filter (fun t => t.1 ≠ s.1))
             else spans.filter (fun t => t.1 ≠ s.1)) ↔
         (q ∈ spanIds spans ∧ ¬ (s.1 ≤ q ∧ q < s.1 + n)) := by
  have hrestwf : SpansWF (spans.filter (fun t => t.1 ≠ s.1)) := hwf.filter _
  have hmemrest : ∀ t, t ∈ spans.filter (fun t => t.1 ≠ s.1) ↔ t ∈ spans ∧ t.1 ≠ s.1 := by
    intro t; simp [List.mem_filter]
  have hrest : ∀ q, q ∈ spanIds (spans.filter (fun t => t.1 ≠ s.1)) ↔
      (q ∈ spanIds spans ∧ ¬ (s.1 ≤ q ∧ q < s.1 + s.2)) := by
    intro q
    simp only [mem_spanIds, hmemrest]
    constructor
    · rintro ⟨t, ⟨ht, hne⟩, hq⟩
      refine ⟨⟨t, ht, hq⟩, ?_⟩
      rcases hwf.sep ht hs with h1 | h1 | h1
      · exact absurd (congrArg Prod.fst h1) hne
      · fomega
      · fomega
    · rintro ⟨⟨t, ht, hq⟩, hnot⟩
      refine ⟨t, ⟨ht, ?_⟩, hq⟩
      intro he
      have := hwf.eq_of_start ht hs he
      subst this
      exact hnot hq
  have hspos := (hwf.1 s hs)
  split
  · rename_i hgt
    refine ⟨hrestwf.insertSpan (by simp; omega) (by simp; fomega) ?_, ?_⟩
    · intro t ht
      rw [hmemrest] at ht
      rcases hwf.sep ht.1 hs with h1 | h1 | h1
      · exact absurd (congrArg Prod.fst h1) ht.2
      · left; simp; fomega
      · right; simp; fomega
    · intro q
      rw [mem_spanIds_insertSpan, hrest]
      simp only []
      constructor
      · rintro (h1 | h1)
        · refine ⟨mem_spanIds.mpr ⟨s, hs, ?_⟩, ?_⟩ <;> fomega
        · exact ⟨h1.1, by fomega⟩
      · rintro ⟨h1, h2⟩
        by_cases h3 : s.1 ≤ q ∧ q < s.1 + s.2
        · left; fomega
        · right; exact ⟨h1, h3⟩
  · rename_i hgt
    refine ⟨hrestwf, ?_⟩
    intro q
    rw [hrest]
    have : s.2 = n := by omega
    rw [this]

/-- A run of consecutive free ids lies inside one span (spans are maximal). -/
theorem run_in_span {spans : List (Pgid × Nat)} (hwf : SpansWF spans) (a n : Nat) (hn : 0 < n)
    (h : ∀ q, a ≤ q → q < a + n → q ∈ spanIds spans) :
    ∃ t ∈ spans, t.1 ≤ a ∧ a + n ≤ t.1 + t.2 := by
  induction n with
  | zero => omega
  | succ m ih =>
    by_cases hm : m = 0
    · subst hm
      obtain ⟨t, ht, h1, h2⟩ := mem_spanIds.mp (h a (by omega) (by omega))
      exact ⟨t, ht, h1, by fomega⟩
    · obtain ⟨t, ht, h1, h2⟩ := ih (by omega) (fun q h1 h2 => h q h1 (by omega))
      obtain ⟨t', ht', h3, h4⟩ := mem_spanIds.mp (h (a + m) (by omega) (by omega))
      rcases hwf.sep ht ht' with h5 | h5 | h5
      · subst h5
        exact ⟨t, ht, h1, by fomega⟩
      · fomega
      · fomega

theorem hm_allocate_some {f : FL} (hk : f.kind = .hashmap) {txid n c : Nat} {g : FL} {id : Nat}
    (h : f.allocate txid n c = some (g, id)) :
    (id = 0 ∧ g = f ∧ (n = 0 ∨ ∀ t ∈ f.spans, t.2 < n)) ∨
    (id ≠ 0 ∧ 0 < n ∧ ∃ s ∈ f.spans, s.1 = id ∧ n ≤ s.2 ∧
      g = { f with spans := (if s.2 > n then insertSpan (s.1 + n, s.2 - n) (f.spans.filter (fun t => t.1 ≠ s.1))
                             else f.spans.filter (fun t => t.1 ≠ s.1)),
                   allocs := setAlloc f.allocs id txid }) := by
  unfold FL.allocate at h
  rw [hk] at h
  simp only [] at h
  split at h
  · rename_i hn
    split at h
    · cases h; exact Or.inl ⟨rfl, rfl, Or.inl hn⟩
    · cases h
  · rename_i hn
    split at h
    · split at h
      · cases h
      · rename_i hc hfit
        cases h
        refine Or.inl ⟨rfl, rfl, Or.inr ?_⟩
        intro t ht
        simp only [hmHasFit, Bool.not_eq_true, List.any_eq_false, decide_eq_true_eq] at hfit
        have := hfit t ht
        omega
    · rename_i hc
      split at h
      · rename_i hlegal
        split at h
        · cases h
        · rename_i s hfind
          simp only [Option.some.injEq, Prod.mk.injEq] at h
          obtain ⟨hg, hid⟩ := h
          subst hid
          have hs := List.mem_of_find?_eq_some hfind
          have hs1 := List.find?_some hfind
          simp only [decide_eq_true_eq] at hs1
          refine Or.inr ⟨hc, by omega, s, hs, hs1, ?_, ?_⟩
          · simp only [hmChoiceLegal, hfind] at hlegal
            split at hlegal
            · simp at hlegal; omega
            · simpa using hlegal
          · rw [← hg, hs1, hk]
      · cases h

theorem freeIds_hashmap {f : FL} (hk : f.kind = .hashmap) : f.freeIds = spanIds f.spans := by
  simp [FL.freeIds, hk]

theorem freeIds_array {f : FL} (hk : f.kind = .array) : f.freeIds = f.ids := by
  simp [FL.freeIds, hk]

theorem hm_allocate_spec' {f : FL} (hk : f.kind = .hashmap) (hinv : FLInv f) {txid n c : Nat}
    {g : FL} {id : Nat} (h : f.allocate txid n c = some (g, id)) :
    FLInv g ∧ g.pending = f.pending ∧
      (id ≠ 0 → 0 < n ∧ 2 ≤ id ∧ (∀ q, id ≤ q → q < id + n → q ∈ f.freeIds) ∧
                (∀ q, q ∈ g.freeIds ↔ (q ∈ f.freeIds ∧ ¬ (id ≤ q ∧ q < id + n)))) ∧
      (id = 0 → g = f ∧ (n = 0 ∨ ∀ s, ¬ (∀ q, s ≤ q → q < s + n → q ∈ f.freeIds))) := by
  have hwf := hinv.spans_wf hk
  rcases hm_allocate_some hk h with ⟨hid, hg, hno⟩ | ⟨hid, hn, s, hs, hs1, hle, hg⟩
  · subst hg
    refine ⟨hinv, rfl, fun h => absurd hid h, fun _ => ⟨rfl, ?_⟩⟩
    rcases hno with h0 | hno
    · exact Or.inl h0
    · by_cases h0 : n = 0
      · exact Or.inl h0
      · right
        intro s hrun
        rw [freeIds_hashmap hk] at hrun
        obtain ⟨t, ht, h1, h2⟩ := run_in_span hwf s n (by omega) hrun
        have := hno t ht
        fomega
  · obtain ⟨hwf', hmem⟩ := hm_take_spec hwf hs hn hle
    have hgk : g.kind = .hashmap := by rw [hg]; exact hk
    have hgp : g.pending = f.pending := by rw [hg]
    have hgs : g.spans = (if s.2 > n then insertSpan (s.1 + n, s.2 - n) (f.spans.filter (fun t => t.1 ≠ s.1))
                             else f.spans.filter (fun t => t.1 ≠ s.1)) := by rw [hg]
    have hmem' : ∀ q, q ∈ g.freeIds ↔ (q ∈ f.freeIds ∧ ¬ (id ≤ q ∧ q < id + n)) := by
      intro q
      rw [freeIds_hashmap hgk, freeIds_hashmap hk, hgs, hmem q, hs1]
    refine ⟨⟨?_, ?_, ?_, ?_, ?_, ?_⟩, hgp, fun _ => ⟨hn, ?_, ?_, hmem'⟩, fun h0 => absurd h0 hid⟩
    · intro h; rw [hgk] at h; cases h
    · intro _; rw [hgs]; exact hwf'
    · intro q hq
      rw [pendingIds_congr hgp]
      exact hinv.disjoint q ((hmem' q).mp hq).1
    · rw [pendingIds_congr hgp]; exact hinv.pending_nodup
    · rw [hgp]; exact hinv.pending_keys
    · rw [pendingIds_congr hgp]; exact hinv.pending_ge2
    · have := (hwf.1 s hs).2; fomega
    · intro q h1 h2
      rw [freeIds_hashmap hk]
      exact mem_spanIds.mpr ⟨s, hs, by fomega, by fomega⟩

theorem hm_allocate_total' {f : FL} (hk : f.kind = .hashmap) (hinv : FLInv f) (txid n : Nat) :
    ∃ c g id, f.allocate txid n c = some (g, id) := by
  have hwf := hinv.spans_wf hk
  unfold FL.allocate
  rw [hk]
  simp only []
  by_cases hn : n = 0
  · exact ⟨0, f, 0, by simp [hn]⟩
  · by_cases hfit : hmHasFit f.spans n = true
    · -- pick an exact span if there is one, else any fitting span
      have hpick : ∃ s ∈ f.spans, (if f.spans.any (fun t => t.2 = n) then s.2 = n else s.2 ≥ n) := by
        by_cases hex : f.spans.any (fun t => t.2 = n) = true
        · obtain ⟨s, hs, h1⟩ := List.any_eq_true.mp hex
          exact ⟨s, hs, by simpa [hex] using h1⟩
        · obtain ⟨s, hs, h1⟩ := List.any_eq_true.mp hfit
          exact ⟨s, hs, by simpa [hex] using h1⟩
      obtain ⟨s, hs, hsz⟩ := hpick
      have hfind : f.spans.find? (fun t => t.1 = s.1) = some s := by
        cases hf : f.spans.find? (fun t => t.1 = s.1) with
        | none =>
          rw [List.find?_eq_none] at hf
          exact absurd (by simp) (hf s hs)
        | some t =>
          have h1 := List.mem_of_find?_eq_some hf
          have h2 := List.find?_some hf
          simp only [decide_eq_true_eq] at h2
          rw [hwf.eq_of_start h1 hs h2]
      have hc : s.1 ≠ 0 := by have := (hwf.1 s hs).2; fomega
      have hlegal : hmChoiceLegal f.spans n s.1 = true := by
        simp only [hmChoiceLegal, hfind]
        split
        · rename_i hex; simpa [hex] using hsz
        · rename_i hex; simpa [hex] using hsz
      refine ⟨s.1, ?_⟩
      simp only [hn, hc, hlegal, hfind, if_false, if_true]
      exact ⟨_, _, rfl⟩
    · refine ⟨0, f, 0, ?_⟩
      simp [hn, hfit]

/-! ### Allocate, array backend -/

/-- all of `s .. s+n-1` are in `l` -/
def RunIn (l : List Nat) (s n : Nat) : Prop := ∀ q, s ≤ q → q < s + n → q ∈ l

theorem arrayScan_spec {n : Nat} (hn : 0 < n) (rest : List Nat) :
    ∀ (initial previd i : Nat) (pre full : List Nat),
    full = pre ++ expandSpan (initial, previd - initial + 1) ++ rest →
    full.Pairwise (· < ·) → (∀ q ∈ full, 2 ≤ q) →
    initial ≤ previd → previd - initial + 1 < n →
    i = pre.length + (previd - initial + 1) →
    (∀ s, RunIn full s n → initial ≤ s) →
    match arrayScan n rest initial previd i with
    | .error _ => False
    | .ok none => ∀ s, ¬ RunIn full s n
    | .ok (some (a, j)) =>
        (∃ A C, full = A ++ expandSpan (a, n) ++ C ∧ j + 1 = A.length + n) ∧
        ∀ s, s < a → ¬ RunIn full s n := by
  induction rest with
  | nil =>
    intro initial previd i pre full hfull hsorted hge hip hlen hi hfirst
    simp only [arrayScan]
    intro s hrun
    have h1 := hfirst s hrun
    have h2 := hrun (s + n - 1) (by omega) (by omega)
    rw [hfull, List.append_nil, List.mem_append, mem_expandSpan'] at h2
    rcases h2 with h2 | h2
    · -- elements of pre are below initial
      rw [hfull, List.append_nil, List.pairwise_append] at hsorted
      have := hsorted.2.2 _ h2 initial (mem_expandSpan'.mpr ⟨by omega, by omega⟩)
      omega
    · omega
  | cons id rest' ih =>
    intro initial previd i pre full hfull hsorted hge hip hlen hi hfirst
    have hid2 : 2 ≤ id := hge id (by rw [hfull]; simp)
    have hprev2 : 2 ≤ previd := hge previd (by
      rw [hfull]; simp only [List.mem_append]; left; right
      exact mem_expandSpan'.mpr ⟨hip, by omega⟩)
    have hs' := hsorted
    rw [hfull, List.pairwise_append] at hs'
    obtain ⟨hs1, hs2, hs3⟩ := hs'
    rw [List.pairwise_append] at hs1
    obtain ⟨hs4, hs5, hs6⟩ := hs1
    rw [List.pairwise_cons] at hs2
    have hprevid : previd < id := hs3 previd (by
      simp only [List.mem_append]; right
      exact mem_expandSpan'.mpr ⟨hip, by omega⟩) id (by simp)
    -- every element of full is ≤ previd or ≥ id
    have hgap : ∀ q ∈ full, q ≤ previd ∨ id ≤ q := by
      intro q hq
      rw [hfull] at hq
      simp only [List.mem_append, List.mem_cons] at hq
      rcases hq with (hq | hq) | hq | hq
      · have := hs6 q hq initial (mem_expandSpan'.mpr ⟨by omega, by omega⟩); omega
      · rw [mem_expandSpan'] at hq; omega
      · omega
      · have := hs2.1 q hq; omega
    unfold arrayScan
    rw [if_neg (by fomega)]
    simp only []
    by_cases hadj : id = previd + 1
    · -- the run continues
      have hinit : (if previd = 0 ∨ id - previd ≠ 1 then id else initial) = initial := by
        rw [if_neg]; omega
      simp only [hinit]
      have hexp : expandSpan (initial, id - initial + 1) = expandSpan (initial, previd - initial + 1) ++ [id] := by
        have : id - initial + 1 = (previd - initial + 1) + 1 := by omega
        rw [this, expandSpan_succ]
        congr 2; omega
      by_cases hfound : id - initial + 1 = n
      · rw [if_pos hfound]
        dsimp only
        refine ⟨⟨pre, rest', ?_, by omega⟩, fun s hs hrun => by have := hfirst s hrun; fomega⟩
        rw [← hfound, hexp, hfull]; simp
      · rw [if_neg hfound]
        apply ih initial id (i + 1) pre full
        · rw [hexp, hfull]; simp
        · exact hsorted
        · exact hge
        · omega
        · omega
        · omega
        · exact hfirst
    · -- a new run starts at id
      have hinit : (if previd = 0 ∨ id - previd ≠ 1 then id else initial) = id := by
        rw [if_pos]; omega
      simp only [hinit]
      have hB : ∀ s, RunIn full s n → id ≤ s := by
        intro s hrun
        have h1 := hfirst s hrun
        by_cases hsp : s ≤ previd
        · have h2 := hgap _ (hrun (previd + 1) (by omega) (by omega))
          omega
        · have h2 := hgap _ (hrun s (by omega) (by omega))
          omega
      have hexp : expandSpan (id, id - id + 1) = [id] := by
        simp [expandSpan]
      by_cases hfound : id - id + 1 = n
      · rw [if_pos hfound]
        dsimp only
        refine ⟨⟨pre ++ expandSpan (initial, previd - initial + 1), rest', ?_, ?_⟩,
                fun s hs hrun => by have := hB s hrun; fomega⟩
        · rw [← hfound, hexp, hfull]; simp
        · simp [expandSpan] at hi ⊢; omega
      · rw [if_neg hfound]
        apply ih id id (i + 1) (pre ++ expandSpan (initial, previd - initial + 1)) full
        · rw [hexp, hfull]; simp
        · exact hsorted
        · exact hge
        · omega
        · omega
        · simp [expandSpan] at hi ⊢; omega
        · exact hB

theorem arrayScan_zero (l : List Nat) (hge : ∀ q ∈ l, 2 ≤ q) :
    ∀ initial previd i, arrayScan 0 l initial previd i = .ok none := by
  induction l with
  | nil => intro _ _ _; rfl
  | cons id rest ih =>
    intro initial previd i
    have := hge id (by simp)
    unfold arrayScan
    rw [if_neg (by fomega)]
    simp only []
    rw [if_neg (Nat.succ_ne_zero _)]
    exact ih (fun q hq => hge q (List.mem_cons_of_mem _ hq)) _ _ _

theorem arrayScan_top (n : Nat) (ids : List Nat) (hs : ids.Pairwise (· < ·)) (hge : ∀ q ∈ ids, 2 ≤ q) :
    match arrayScan n ids 0 0 0 with
    | .error _ => False
    | .ok none => n = 0 ∨ ∀ s, ¬ RunIn ids s n
    | .ok (some (a, j)) =>
        0 < n ∧ (∃ A C, ids = A ++ expandSpan (a, n) ++ C ∧ j + 1 = A.length + n) ∧
        ∀ s, s < a → ¬ RunIn ids s n := by
  by_cases hn : n = 0
  · subst hn
    rw [arrayScan_zero ids hge]
    exact Or.inl rfl
  · cases ids with
    | nil =>
      simp only [arrayScan]
      right
      intro s hrun
      have := hrun s (by omega) (by omega)
      cases this
    | cons id rest =>
      have hid2 : 2 ≤ id := hge id (by simp)
      have hs' := hs
      rw [List.pairwise_cons] at hs'
      have hB : ∀ s, RunIn (id :: rest) s n → id ≤ s := by
        intro s hrun
        have := hrun s (by omega) (by omega)
        rcases List.mem_cons.mp this with h | h
        · omega
        · have := hs'.1 s h; omega
      unfold arrayScan
      rw [if_neg (by fomega)]
      simp only [true_or, if_true]
      by_cases hfound : id - id + 1 = n
      · rw [if_pos hfound]
        dsimp only
        refine ⟨by omega, ⟨[], rest, ?_, by simp; omega⟩, fun s hs hrun => by have := hB s hrun; fomega⟩
        rw [← hfound]; simp [expandSpan]
      · rw [if_neg hfound]
        have := arrayScan_spec (n := n) (by omega) rest id id (0 + 1) [] (id :: rest)
          (by simp [expandSpan]) hs hge (by omega) (by omega) (by simp) hB
        revert this
        split
        · exact fun h => h
        · intro h; exact Or.inr h
        · intro h; exact ⟨by omega, h⟩

theorem length_expandSpan (s : Pgid × Nat) : (expandSpan s).length = s.2 := by
  simp [expandSpan]

theorem array_allocate_spec' {f : FL} (hk : f.kind = .array) (hinv : FLInv f) (txid n c : Nat) :
    ∃ g id, f.allocate txid n c = some (g, id) ∧ FLInv g ∧ g.pending = f.pending ∧
      (id ≠ 0 → 0 < n ∧ 2 ≤ id ∧ RunIn f.freeIds id n ∧
                (∀ q, q ∈ g.freeIds ↔ (q ∈ f.freeIds ∧ ¬ (id ≤ q ∧ q < id + n))) ∧
                (∀ s, s < id → ¬ RunIn f.freeIds s n)) ∧
      (id = 0 → g = f ∧ (n = 0 ∨ ∀ s, ¬ RunIn f.freeIds s n)) := by
  obtain ⟨hsorted, hge⟩ := hinv.array_sorted hk
  have hfree := freeIds_array hk
  unfold FL.allocate
  rw [hk]
  simp only []
  split
  · rename_i hempty
    refine ⟨f, 0, rfl, hinv, rfl, fun h => absurd rfl h, fun _ => ⟨rfl, ?_⟩⟩
    by_cases hn : n = 0
    · exact Or.inl hn
    · right
      intro s hrun
      have := hrun s (by omega) (by omega)
      rw [hfree, List.isEmpty_iff.mp hempty] at this
      cases this
  · have htop := arrayScan_top n f.ids hsorted hge
    split
    · rename_i herr; rw [herr] at htop; exact htop.elim
    · rename_i hnone
      rw [hnone] at htop
      dsimp only at htop
      rw [← hfree] at htop
      exact ⟨f, 0, rfl, hinv, rfl, fun h => absurd rfl h, fun _ => ⟨rfl, htop⟩⟩
    · rename_i a j hsome
      rw [hsome] at htop
      dsimp only at htop
      obtain ⟨hn, ⟨A, C, hids, hj⟩, hfirst⟩ := htop
      have htake : f.ids.take (j + 1 - n) = A := by
        have : j + 1 - n = A.length := by omega
        rw [this, hids, List.append_assoc, List.take_left]
      have hdrop : f.ids.drop (j + 1) = C := by
        have : j + 1 = (A ++ expandSpan (a, n)).length := by
          rw [List.length_append, length_expandSpan]; omega
        rw [this, hids, List.drop_left]
      rw [htake, hdrop]
      have hs' := hsorted
      rw [hids, List.pairwise_append] at hs'
      obtain ⟨hs1, hs2, hs3⟩ := hs'
      rw [List.pairwise_append] at hs1
      obtain ⟨hs4, hs5, hs6⟩ := hs1
      have hmem : ∀ q, q ∈ A ++ C ↔ (q ∈ f.ids ∧ ¬ (a ≤ q ∧ q < a + n)) := by
        intro q
        rw [hids]
        simp only [List.mem_append, mem_expandSpan']
        constructor
        · rintro (h | h)
          · refine ⟨Or.inl (Or.inl h), fun hq => ?_⟩
            have := hs6 q h q (mem_expandSpan'.mpr hq); fomega
          · refine ⟨Or.inr h, fun hq => ?_⟩
            have := hs3 q (List.mem_append_right _ (mem_expandSpan'.mpr hq)) q h; fomega
        · rintro ⟨(h | h) | h, hq⟩
          · exact Or.inl h
          · exact absurd h hq
          · exact Or.inr h
      have ha2 : 2 ≤ a := hge a (by
        rw [hids]; simp only [List.mem_append]; left; right
        exact mem_expandSpan'.mpr ⟨by omega, by omega⟩)
      refine ⟨_, a, rfl, ⟨?_, ?_, ?_, hinv.pending_nodup, hinv.pending_keys, hinv.pending_ge2⟩, rfl,
              fun _ => ⟨hn, ha2, ?_, ?_, ?_⟩, fun h0 => by fomega⟩
      · intro _
        refine ⟨?_, fun q hq => hge q ((hmem q).mp hq).1⟩
        rw [List.pairwise_append]
        exact ⟨hs4, hs2, fun x hx y hy => hs3 x (List.mem_append_left _ hx) y hy⟩
      · intro h; cases h
      · intro q hq
        have hq : q ∈ A ++ C := by simpa [FL.freeIds, hk] using hq
        have := ((hmem q).mp hq).1
        rw [← hfree] at this
        exact hinv.disjoint q this
      · intro q h1 h2
        rw [hfree, hids]
        simp only [List.mem_append]; left; right
        exact mem_expandSpan'.mpr ⟨h1, h2⟩
      · intro q
        rw [hfree, ← hmem q]
        simp [FL.freeIds]
      · rw [hfree]; exact hfirst

/-! ### Rollback -/

theorem free_frame {f g : FL} {txid id ov : Nat} (h : f.free txid id ov = some g) :
    g.kind = f.kind ∧ g.ids = f.ids ∧ g.spans = f.spans ∧
    g.pending.filter (fun p => p.1 ≠ txid) = f.pending.filter (fun p => p.1 ≠ txid) := by
  obtain ⟨_, _, rfl⟩ := free_some h
  exact ⟨rfl, rfl, rfl, addPending_filter _ _ _⟩

theorem foldlM_free_frame (txid : Nat) (frees : List (Nat × Nat)) :
    ∀ (f g : FL), frees.foldlM (fun (s : FL) (x : Nat × Nat) => s.free txid x.1 x.2) f = some g →
    g.kind = f.kind ∧ g.ids = f.ids ∧ g.spans = f.spans ∧
    g.pending.filter (fun p => p.1 ≠ txid) = f.pending.filter (fun p => p.1 ≠ txid) := by
  induction frees with
  | nil =>
    intro f g h
    simp only [List.foldlM_nil, pure, Option.some.injEq] at h
    subst h
    exact ⟨rfl, rfl, rfl, rfl⟩
  | cons x xs ih =>
    intro f g h
    rw [List.foldlM_cons] at h
    cases hf : f.free txid x.1 x.2 with
    | none => rw [hf] at h; cases h
    | some f1 =>
      rw [hf] at h
      obtain ⟨h1, h2, h3, h4⟩ := free_frame hf
      obtain ⟨h5, h6, h7, h8⟩ := ih f1 g h
      exact ⟨h5.trans h1, h6.trans h2, h7.trans h3, h8.trans h4⟩

theorem rollback_frame' {f g : FL} {txid : Nat} (h : f.rollback txid = some g) :
    g.kind = f.kind ∧ g.ids = f.ids ∧ g.spans = f.spans ∧
    g.pending = f.pending.filter (fun p => p.1 ≠ txid) := by
  unfold FL.rollback at h
  split at h
  · rename_i hnone
    cases h
    refine ⟨rfl, rfl, rfl, ?_⟩
    rw [List.find?_eq_none] at hnone
    symm
    rw [List.filter_eq_self]
    intro p hp
    simpa using hnone p hp
  · split at h
    · cases h
    · cases h
      exact ⟨rfl, rfl, rfl, rfl⟩

/-! ### hashmap `mergeSpans` -/

theorem merge_core {spans spans2 : List (Pgid × Nat)} {ns nz : Nat}
    (h2wf : SpansWF spans2) (hnz : 0 < nz) (hns : 2 ≤ ns)
    (hsub : ∀ t ∈ spans2, t ∈ spans)
    (hsep : ∀ t ∈ spans2, t.1 + t.2 < ns ∨ ns + nz < t.1)
    (hcov : ∀ t ∈ spans, t ∈ spans2 ∨ (ns ≤ t.1 ∧ t.1 + t.2 ≤ ns + nz)) :
    SpansWF (insertSpan (ns, nz) spans2) ∧
    ∀ q, q ∈ spanIds (insertSpan (ns, nz) spans2) ↔ ((ns ≤ q ∧ q < ns + nz) ∨ q ∈ spanIds spans) := by
  refine ⟨h2wf.insertSpan hnz hns hsep, ?_⟩
  intro q
  rw [mem_spanIds_insertSpan]
  simp only [mem_spanIds]
  constructor
  · rintro (h | ⟨t, ht, h⟩)
    · exact Or.inl h
    · exact Or.inr ⟨t, hsub t ht, h⟩
  · rintro (h | ⟨t, ht, h⟩)
    · exact Or.inl h
    · rcases hcov t ht with h1 | h1
      · exact Or.inr ⟨t, h1, h⟩
      · left; fomega

theorem mergeWithExisting_spec {spans : List (Pgid × Nat)} (hwf : SpansWF spans) {a b : Nat}
    (ha : 2 ≤ a) (hab : a ≤ b) (hd : ∀ q, a ≤ q → q ≤ b → q ∉ spanIds spans) :
    SpansWF (mergeWithExisting spans a b) ∧
    ∀ q, q ∈ spanIds (mergeWithExisting spans a b) ↔ (q ∈ spanIds spans ∨ (a ≤ q ∧ q ≤ b)) := by
  have hdis : ∀ t ∈ spans, t.1 + t.2 ≤ a ∨ b < t.1 := by
    intro t ht
    by_cases h : t.1 + t.2 ≤ a ∨ b < t.1
    · exact h
    · exfalso
      by_cases h2 : a ≤ t.1
      · exact hd t.1 h2 (by fomega) (mem_spanIds.mpr ⟨t, ht, by fomega, by have := (hwf.1 t ht).1; fomega⟩)
      · exact hd a (by omega) hab (mem_spanIds.mpr ⟨t, ht, by fomega, by fomega⟩)
  have hpos : ∀ t ∈ spans, 0 < t.2 := fun t ht => (hwf.1 t ht).1
  cases hprev : spans.find? (fun s => s.1 + s.2 = a) with
  | none =>
    have hnp : ∀ t ∈ spans, t.1 + t.2 ≠ a := by
      intro t ht; simpa using (List.find?_eq_none.mp hprev) t ht
    cases hnext : spans.find? (fun s => s.1 = b + 1) with
    | none =>
      have hnn : ∀ t ∈ spans, t.1 ≠ b + 1 := by
        intro t ht; simpa using (List.find?_eq_none.mp hnext) t ht
      simp only [mergeWithExisting, hprev, hnext]
      obtain ⟨h1, h2⟩ := merge_core (spans := spans) (spans2 := spans) (ns := a) (nz := b - a + 1 + 0 + 0)
        hwf (by omega) ha (fun t ht => ht)
        (by intro t ht; have := hdis t ht; have := hnp t ht; have := hnn t ht; fomega)
        (fun t ht => Or.inl ht)
      refine ⟨h1, fun q => ?_⟩
      rw [h2 q]
      constructor
      · rintro (h | h)
        · exact Or.inr (by fomega)
        · exact Or.inl h
      · rintro (h | h)
        · exact Or.inr h
        · exact Or.inl (by fomega)
    | some nx =>
      have hnx := List.mem_of_find?_eq_some hnext
      have hnx1 : nx.1 = b + 1 := by simpa using List.find?_some hnext
      simp only [mergeWithExisting, hprev, hnext]
      have hmem2 : ∀ t, t ∈ spans.filter (fun s => s.1 ≠ nx.1) ↔ t ∈ spans ∧ t.1 ≠ nx.1 := by
        intro t; simp [List.mem_filter]
      obtain ⟨h1, h2⟩ := merge_core (spans := spans) (spans2 := spans.filter (fun s => s.1 ≠ nx.1))
        (ns := a) (nz := b - a + 1 + 0 + nx.2)
        (hwf.filter _) (by omega) ha (fun t ht => ((hmem2 t).mp ht).1)
        (by
          intro t ht
          rw [hmem2] at ht
          have := hdis t ht.1; have := hnp t ht.1; have := hpos t ht.1
          rcases hwf.sep ht.1 hnx with h | h | h
          · exact absurd (congrArg Prod.fst h) ht.2
          · fomega
          · fomega)
        (by
          intro t ht
          by_cases h : t.1 = nx.1
          · have := hwf.eq_of_start ht hnx h
            subst this
            right; fomega
          · exact Or.inl ((hmem2 t).mpr ⟨ht, h⟩))
      refine ⟨h1, fun q => ?_⟩
      rw [h2 q]
      constructor
      · rintro (h | h)
        · by_cases hq : q ≤ b
          · exact Or.inr ⟨h.1, hq⟩
          · exact Or.inl (mem_spanIds.mpr ⟨nx, hnx, by fomega, by fomega⟩)
        · exact Or.inl h
      · rintro (h | h)
        · exact Or.inr h
        · exact Or.inl (by fomega)
  | some p =>
    have hp := List.mem_of_find?_eq_some hprev
    have hp1 : p.1 + p.2 = a := by simpa using List.find?_some hprev
    have hmem1 : ∀ t, t ∈ spans.filter (fun s => s.1 ≠ p.1) ↔ t ∈ spans ∧ t.1 ≠ p.1 := by
      intro t; simp [List.mem_filter]
    have hp2 := (hwf.1 p hp).2
    cases hnext : spans.find? (fun s => s.1 = b + 1) with
    | none =>
      have hnn : ∀ t ∈ spans, t.1 ≠ b + 1 := by
        intro t ht; simpa using (List.find?_eq_none.mp hnext) t ht
      simp only [mergeWithExisting, hprev, hnext]
      obtain ⟨h1, h2⟩ := merge_core (spans := spans) (spans2 := spans.filter (fun s => s.1 ≠ p.1))
        (ns := p.1) (nz := b - a + 1 + p.2 + 0)
        (hwf.filter _) (by omega) hp2 (fun t ht => ((hmem1 t).mp ht).1)
        (by
          intro t ht
          rw [hmem1] at ht
          have := hdis t ht.1; have := hnn t ht.1; have := hpos t ht.1
          rcases hwf.sep ht.1 hp with h | h | h
          · exact absurd (congrArg Prod.fst h) ht.2
          · fomega
          · fomega)
        (by
          intro t ht
          by_cases h : t.1 = p.1
          · have := hwf.eq_of_start ht hp h
            subst this
            right; fomega
          · exact Or.inl ((hmem1 t).mpr ⟨ht, h⟩))
      refine ⟨h1, fun q => ?_⟩
      rw [h2 q]
      constructor
      · rintro (h | h)
        · by_cases hq : a ≤ q
          · exact Or.inr ⟨hq, by fomega⟩
          · exact Or.inl (mem_spanIds.mpr ⟨p, hp, by fomega, by fomega⟩)
        · exact Or.inl h
      · rintro (h | h)
        · exact Or.inr h
        · exact Or.inl (by fomega)
    | some nx =>
      have hnx := List.mem_of_find?_eq_some hnext
      have hnx1 : nx.1 = b + 1 := by simpa using List.find?_some hnext
      simp only [mergeWithExisting, hprev, hnext]
      have hmem2 : ∀ t, t ∈ (spans.filter (fun s => s.1 ≠ p.1)).filter (fun s => s.1 ≠ nx.1) ↔
          t ∈ spans ∧ t.1 ≠ p.1 ∧ t.1 ≠ nx.1 := by
        intro t; simp [List.mem_filter]; intro _; exact And.comm
      obtain ⟨h1, h2⟩ := merge_core (spans := spans)
        (spans2 := (spans.filter (fun s => s.1 ≠ p.1)).filter (fun s => s.1 ≠ nx.1))
        (ns := p.1) (nz := b - a + 1 + p.2 + nx.2)
        ((hwf.filter _).filter _) (by omega) hp2 (fun t ht => ((hmem2 t).mp ht).1)
        (by
          intro t ht
          rw [hmem2] at ht
          have := hdis t ht.1; have := hpos t ht.1
          rcases hwf.sep ht.1 hp with h | h | h
          · exact absurd (congrArg Prod.fst h) ht.2.1
          · fomega
          · rcases hwf.sep ht.1 hnx with h' | h' | h'
            · exact absurd (congrArg Prod.fst h') ht.2.2
            · fomega
            · fomega)
        (by
          intro t ht
          by_cases h : t.1 = p.1
          · have := hwf.eq_of_start ht hp h
            subst this
            right; fomega
          · by_cases h' : t.1 = nx.1
            · have := hwf.eq_of_start ht hnx h'
              subst this
              right; fomega
            · exact Or.inl ((hmem2 t).mpr ⟨ht, h, h'⟩))
      refine ⟨h1, fun q => ?_⟩
      rw [h2 q]
      constructor
      · rintro (h | h)
        · by_cases hq : a ≤ q
          · by_cases hq' : q ≤ b
            · exact Or.inr ⟨hq, hq'⟩
            · exact Or.inl (mem_spanIds.mpr ⟨nx, hnx, by fomega, by fomega⟩)
          · exact Or.inl (mem_spanIds.mpr ⟨p, hp, by fomega, by fomega⟩)
        · exact Or.inl h
      · rintro (h | h)
        · exact Or.inr h
        · exact Or.inl (by fomega)

theorem hm_fold_go (ys : List Nat) : ∀ (spans : List (Pgid × Nat)) (start stop : Nat),
    SpansWF spans → 2 ≤ start → start ≤ stop → ys.Pairwise (· < ·) → (∀ y ∈ ys, stop < y) →
    (∀ q, (start ≤ q ∧ q ≤ stop) ∨ q ∈ ys → q ∉ spanIds spans) →
    SpansWF ((runsOfSorted.go start stop ys).foldl (fun sp r => mergeWithExisting sp r.1 r.2) spans) ∧
    ∀ q, q ∈ spanIds ((runsOfSorted.go start stop ys).foldl (fun sp r => mergeWithExisting sp r.1 r.2) spans) ↔
      (q ∈ spanIds spans ∨ (start ≤ q ∧ q ≤ stop) ∨ q ∈ ys) := by
  induction ys with
  | nil =>
    intro spans start stop hwf h2 hle _ _ hd
    simp only [runsOfSorted.go, List.foldl_cons, List.foldl_nil]
    obtain ⟨h1, h3⟩ := mergeWithExisting_spec hwf h2 hle (fun q ha hb => hd q (Or.inl ⟨ha, hb⟩))
    refine ⟨h1, fun q => ?_⟩
    rw [h3 q]; simp
  | cons y ys ih =>
    intro spans start stop hwf h2 hle hs hgt hd
    rw [List.pairwise_cons] at hs
    have hy := hgt y (by simp)
    unfold runsOfSorted.go
    by_cases hadj : y = stop + 1
    · rw [if_pos hadj]
      obtain ⟨h1, h3⟩ := ih spans start y hwf h2 (by fomega) hs.2 hs.1 (by
        intro q hq
        apply hd q
        rcases hq with hq | hq
        · by_cases h : q ≤ stop
          · exact Or.inl ⟨hq.1, h⟩
          · right; rw [List.mem_cons]; left; fomega
        · right; exact List.mem_cons_of_mem _ hq)
      refine ⟨h1, fun q => ?_⟩
      rw [h3 q, List.mem_cons]
      constructor
      · rintro (h | h | h)
        · exact Or.inl h
        · by_cases h' : q ≤ stop
          · exact Or.inr (Or.inl ⟨h.1, h'⟩)
          · exact Or.inr (Or.inr (Or.inl (by fomega)))
        · exact Or.inr (Or.inr (Or.inr h))
      · rintro (h | h | h | h)
        · exact Or.inl h
        · exact Or.inr (Or.inl (by fomega))
        · exact Or.inr (Or.inl (by fomega))
        · exact Or.inr (Or.inr h)
    · rw [if_neg hadj]
      simp only [List.foldl_cons]
      obtain ⟨h1, h3⟩ := mergeWithExisting_spec hwf h2 hle (fun q ha hb => hd q (Or.inl ⟨ha, hb⟩))
      obtain ⟨h4, h5⟩ := ih (mergeWithExisting spans start stop) y y h1 (by fomega) (Nat.le_refl _)
        hs.2 hs.1 (by
        intro q hq
        rw [h3 q]
        intro hq'
        rcases hq' with hq' | hq'
        · refine hd q ?_ hq'
          right
          rcases hq with hq | hq
          · rw [List.mem_cons]; left; fomega
          · exact List.mem_cons_of_mem _ hq
        · rcases hq with hq | hq
          · fomega
          · have := hs.1 q hq; fomega)
      refine ⟨h4, fun q => ?_⟩
      rw [h5 q, h3 q, List.mem_cons]
      constructor
      · rintro ((h | h) | h | h)
        · exact Or.inl h
        · exact Or.inr (Or.inl h)
        · exact Or.inr (Or.inr (Or.inl (by fomega)))
        · exact Or.inr (Or.inr (Or.inr h))
      · rintro (h | h | h | h)
        · exact Or.inl (Or.inl h)
        · exact Or.inl (Or.inr h)
        · exact Or.inr (Or.inl (by fomega))
        · exact Or.inr (Or.inr h)

theorem hmMergeSpans_spec {spans : List (Pgid × Nat)} (hwf : SpansWF spans) {ids : List Nat}
    (hnd : ids.Nodup) (hge : ∀ q ∈ ids, 2 ≤ q) (hd : ∀ q ∈ ids, q ∉ spanIds spans) :
    SpansWF (hmMergeSpans spans ids) ∧
    ∀ q, q ∈ spanIds (hmMergeSpans spans ids) ↔ (q ∈ spanIds spans ∨ q ∈ ids) := by
  unfold hmMergeSpans
  have hs := sortNat_sorted_lt hnd
  have hmem : ∀ q, q ∈ sortNat ids ↔ q ∈ ids := fun q => mem_sortNat
  revert hs hmem
  cases sortNat ids with
  | nil =>
    intro _ hmem
    simp only [runsOfSorted, List.foldl_nil]
    exact ⟨hwf, fun q => by rw [← hmem q]; simp⟩
  | cons x xs =>
    intro hs hmem
    rw [List.pairwise_cons] at hs
    simp only [runsOfSorted]
    obtain ⟨h1, h2⟩ := hm_fold_go xs spans x x hwf (hge x ((hmem x).mp (by simp))) (Nat.le_refl _)
      hs.2 hs.1 (by
        intro q hq
        apply hd q
        rw [← hmem q, List.mem_cons]
        rcases hq with hq | hq
        · left; fomega
        · right; exact hq)
    refine ⟨h1, fun q => ?_⟩
    rw [h2 q, ← hmem q, List.mem_cons]
    constructor
    · rintro (h | h | h)
      · exact Or.inl h
      · exact Or.inr (Or.inl (by fomega))
      · exact Or.inr (Or.inr h)
    · rintro (h | h | h)
      · exact Or.inl h
      · exact Or.inr (Or.inl (by fomega))
      · exact Or.inr (Or.inr h)

theorem mergeSpans_pending (f : FL) (ids : List Pgid) : (f.mergeSpans ids).pending = f.pending := by
  unfold FL.mergeSpans; split
  · rfl
  · split <;> rfl

theorem mergeSpans_readers (f : FL) (ids : List Pgid) : (f.mergeSpans ids).readers = f.readers := by
  unfold FL.mergeSpans; split
  · rfl
  · split <;> rfl

theorem mergeSpans_kind (f : FL) (ids : List Pgid) : (f.mergeSpans ids).kind = f.kind := by
  unfold FL.mergeSpans; split
  · rfl
  · split <;> rfl

/-- `mergeSpans` on fresh ids: both backends compute the union and stay well-formed. -/
theorem mergeSpans_spec {f : FL}
    (harr : f.kind = .array → f.ids.Pairwise (· < ·) ∧ ∀ q ∈ f.ids, 2 ≤ q)
    (hwf : f.kind = .hashmap → SpansWF f.spans)
    {ids : List Pgid} (hnd : ids.Nodup) (hge : ∀ q ∈ ids, 2 ≤ q) (hd : ∀ q ∈ ids, q ∉ f.freeIds) :
    (f.kind = .array → (f.mergeSpans ids).ids.Pairwise (· < ·) ∧ ∀ q ∈ (f.mergeSpans ids).ids, 2 ≤ q) ∧
    (f.kind = .hashmap → SpansWF (f.mergeSpans ids).spans) ∧
    ∀ q, q ∈ (f.mergeSpans ids).freeIds ↔ (q ∈ f.freeIds ∨ q ∈ ids) := by
  cases hk : f.kind with
  | array =>
    obtain ⟨hs, hg2⟩ := harr hk
    have hfree := freeIds_array hk
    have hm : f.mergeSpans ids = { f with ids := mergeSorted f.ids (sortNat ids) } := by
      unfold FL.mergeSpans; rw [hk]
    have hfree' : (f.mergeSpans ids).freeIds = mergeSorted f.ids (sortNat ids) := by
      rw [hm]; simp [FL.freeIds, hk]
    refine ⟨fun _ => ⟨?_, ?_⟩, fun h => (by cases h), fun q => ?_⟩
    · rw [hm]
      apply mergeSorted_sorted_lt hs (sortNat_sorted_lt hnd)
      intro q hq hq'
      rw [mem_sortNat] at hq'
      exact hd q hq' (hfree ▸ hq)
    · rw [hm]
      intro q hq
      rcases mem_mergeSorted.mp hq with h | h
      · exact hg2 q h
      · exact hge q (mem_sortNat.mp h)
    · rw [hfree', hfree, mem_mergeSorted, mem_sortNat]
  | hashmap =>
    have hw := hwf hk
    have hfree := freeIds_hashmap hk
    refine ⟨fun h => (by cases h), fun _ => ?_, fun q => ?_⟩
    · unfold FL.mergeSpans; rw [hk]
      simp only []
      split
      · exact hw
      · exact (hmMergeSpans_spec hw hnd hge (fun q hq => hfree ▸ hd q hq)).1
    · have hk' := mergeSpans_kind f ids
      rw [hk] at hk'
      rw [freeIds_hashmap hk', hfree]
      unfold FL.mergeSpans; rw [hk]
      simp only []
      split
      · rename_i hemp
        rw [List.isEmpty_iff.mp hemp]; simp
      · exact (hmMergeSpans_spec hw hnd hge (fun q hq => hfree ▸ hd q hq)).2 q

/-- Moving ids from pending to free keeps the invariant. -/
theorem FLInv.move {f : FL} (hinv : FLInv f) (pending' : List (Txid × TxPending)) (moved : List Pgid)
    (hperm : f.pendingIds.Perm (moved ++ pidsOf pending'))
    (hkeys : (pending'.map (·.1)).Nodup) :
    FLInv (({ f with pending := pending' } : FL).mergeSpans moved) ∧
    (({ f with pending := pending' } : FL).mergeSpans moved).pending = pending' ∧
    ∀ q, q ∈ (({ f with pending := pending' } : FL).mergeSpans moved).freeIds ↔ (q ∈ f.freeIds ∨ q ∈ moved) := by
  have hnd : (moved ++ pidsOf pending').Nodup := hperm.nodup_iff.mp hinv.pending_nodup
  rw [List.nodup_append] at hnd
  obtain ⟨hnd1, hnd2, hnd3⟩ := hnd
  have hsub : ∀ q ∈ moved, q ∈ f.pendingIds := fun q hq => hperm.mem_iff.mpr (List.mem_append_left _ hq)
  have hsub' : ∀ q ∈ pidsOf pending', q ∈ f.pendingIds := fun q hq => hperm.mem_iff.mpr (List.mem_append_right _ hq)
  have hf' : ({ f with pending := pending' } : FL).freeIds = f.freeIds := rfl
  obtain ⟨h1, h2, h3⟩ := mergeSpans_spec (f := { f with pending := pending' }) hinv.array_sorted hinv.spans_wf
    hnd1 (fun q hq => hinv.pending_ge2 q (hsub q hq))
    (fun q hq hq' => hinv.disjoint q hq' (hsub q hq))
  have hp := mergeSpans_pending ({ f with pending := pending' } : FL) moved
  have hk := mergeSpans_kind ({ f with pending := pending' } : FL) moved
  have hpi : (({ f with pending := pending' } : FL).mergeSpans moved).pendingIds = pidsOf pending' := by
    rw [pendingIds_eq, hp]
  refine ⟨⟨?_, ?_, ?_, ?_, ?_, ?_⟩, hp, h3⟩
  · intro h; rw [hk] at h; exact h1 h
  · intro h; rw [hk] at h; exact h2 h
  · intro q hq
    rw [hpi]
    intro hq'
    rcases (h3 q).mp hq with h | h
    · exact hinv.disjoint q h (hsub' q hq')
    · exact hnd3 q h q hq' rfl
  · rw [hpi]; exact hnd2
  · rw [hp]; exact hkeys
  · rw [hpi]; intro q hq; exact hinv.pending_ge2 q (hsub' q hq)

theorem mergeSpans_freeIds_eq {f : FL} (hinv : FLInv f) {ids : List Nat}
    (hnd : ids.Nodup) (hdisj : ∀ q ∈ ids, q ∉ f.freeIds) (hge : ∀ q ∈ ids, 2 ≤ q) :
    (f.mergeSpans ids).freeIds = mergeSorted f.freeIds (sortNat ids) := by
  obtain ⟨h1, h2, h3⟩ := mergeSpans_spec hinv.array_sorted hinv.spans_wf hnd hge hdisj
  have hk' := mergeSpans_kind f ids
  apply sorted_ext
  · cases hk : f.kind with
    | array => rw [hk] at hk'; rw [freeIds_array hk']; exact (h1 hk).1
    | hashmap => rw [hk] at hk'; rw [freeIds_hashmap hk']; exact spanIds_sorted (h2 hk)
  · apply mergeSorted_sorted_lt hinv.freeIds_sorted (sortNat_sorted_lt hnd)
    intro q hq hq'
    exact hdisj q (mem_sortNat.mp hq') hq
  · intro q
    rw [h3 q, mem_mergeSorted, mem_sortNat]

/-! ### Release -/

/-- `g` is reachable from `f` by moving pending ids to the free set; every moved id has a
    provenance `(t, a)` in `f.pending` satisfying `P t a`. -/
def Rel (P : Txid → Txid → Prop) (f g : FL) : Prop :=
  FLInv g ∧
  (∀ q, (q ∈ g.freeIds ∨ q ∈ g.pendingIds) ↔ (q ∈ f.freeIds ∨ q ∈ f.pendingIds)) ∧
  (∀ q ∈ g.freeIds, q ∈ f.freeIds ∨ ∃ t txp a, (t, txp) ∈ f.pending ∧ (q, a) ∈ txp.ids ∧ P t a) ∧
  (∀ t txp', (t, txp') ∈ g.pending → ∃ txp, (t, txp) ∈ f.pending ∧ ∀ x ∈ txp'.ids, x ∈ txp.ids)

theorem Rel.refl {P : Txid → Txid → Prop} {f : FL} (h : FLInv f) : Rel P f f :=
  ⟨h, fun _ => Iff.rfl, fun _ hq => Or.inl hq, fun _ txp' hp => ⟨txp', hp, fun _ hx => hx⟩⟩

theorem Rel.trans {P : Txid → Txid → Prop} {f g h : FL} (h1 : Rel P f g) (h2 : Rel P g h) : Rel P f h := by
  obtain ⟨_, a2, a3, a4⟩ := h1
  obtain ⟨b1, b2, b3, b4⟩ := h2
  refine ⟨b1, fun q => (b2 q).trans (a2 q), ?_, ?_⟩
  · intro q hq
    rcases b3 q hq with hq' | ⟨t, txp', a, hp, hx, hP⟩
    · exact a3 q hq'
    · obtain ⟨txp, hp', hsub⟩ := a4 t txp' hp
      exact Or.inr ⟨t, txp, a, hp', hsub _ hx, hP⟩
  · intro t txp'' hp
    obtain ⟨txp', hp', hsub'⟩ := b4 t txp'' hp
    obtain ⟨txp, hp'', hsub''⟩ := a4 t txp' hp'
    exact ⟨txp, hp'', fun x hx => hsub'' x (hsub' x hx)⟩

theorem move_rel {P : Txid → Txid → Prop} {f : FL} (hinv : FLInv f)
    (pending' : List (Txid × TxPending)) (moved : List Pgid)
    (hperm : f.pendingIds.Perm (moved ++ pidsOf pending'))
    (hkeys : (pending'.map (·.1)).Nodup)
    (hprov : ∀ q ∈ moved, ∃ t txp a, (t, txp) ∈ f.pending ∧ (q, a) ∈ txp.ids ∧ P t a)
    (hsub : ∀ t txp', (t, txp') ∈ pending' → ∃ txp, (t, txp) ∈ f.pending ∧ ∀ x ∈ txp'.ids, x ∈ txp.ids) :
    Rel P f (({ f with pending := pending' } : FL).mergeSpans moved) := by
  obtain ⟨h1, h2, h3⟩ := hinv.move pending' moved hperm hkeys
  refine ⟨h1, ?_, ?_, ?_⟩
  · intro q
    rw [h3 q, pendingIds_eq, h2, hperm.mem_iff, List.mem_append]
    constructor
    · rintro ((h | h) | h)
      · exact Or.inl h
      · exact Or.inr (Or.inl h)
      · exact Or.inr (Or.inr h)
    · rintro (h | h | h)
      · exact Or.inl (Or.inl h)
      · exact Or.inl (Or.inr h)
      · exact Or.inr h
  · intro q hq
    rcases (h3 q).mp hq with h | h
    · exact Or.inl h
    · exact Or.inr (hprov q h)
  · intro t txp' hp
    rw [h2] at hp
    exact hsub t txp' hp

theorem pidsOf_filter_perm (p q : Txid × TxPending → Bool) (hpq : ∀ x, q x = !p x)
    (l : List (Txid × TxPending)) :
    (pidsOf l).Perm (pidsOf (l.filter p) ++ pidsOf (l.filter q)) := by
  rw [List.perm_iff_count]
  intro a
  induction l with
  | nil => simp
  | cons x xs ih =>
    simp only [List.count_append] at ih
    cases hp : p x
    · have hq : q x = true := by rw [hpq, hp]; rfl
      simp only [List.filter_cons, hp, hq, if_true, pidsOf_cons, List.count_append]
      simp at ih ⊢
      omega
    · have hq : q x = false := by rw [hpq, hp]; rfl
      simp only [List.filter_cons, hp, hq, if_true, pidsOf_cons, List.count_append]
      simp at ih ⊢
      omega

theorem release_rel {P : Txid → Txid → Prop} {f : FL} (hinv : FLInv f) (txid : Txid)
    (hP : ∀ t a, t ≤ txid → P t a) : Rel P f (f.release txid) := by
  unfold FL.release
  apply move_rel hinv
  · exact pidsOf_filter_perm _ _ (by intro x; simp only [decide_not]) f.pending
  · exact (List.Sublist.map _ List.filter_sublist).nodup hinv.pending_keys
  · intro q hq
    change q ∈ pidsOf _ at hq
    obtain ⟨t, txp, a, hp, hx⟩ := mem_pidsOf.mp hq
    rw [List.mem_filter] at hp
    exact ⟨t, txp, a, hp.1, hx, hP t a (by simpa using hp.2)⟩
  · intro t txp' hp
    rw [List.mem_filter] at hp
    exact ⟨txp', hp.1, fun _ hx => hx⟩

def rrHit (b e : Txid) (p : Txid × TxPending) : Bool := b ≤ p.1 ∧ p.1 ≤ e ∧ p.2.lastReleaseBegin ≠ b
def rrSel (b e : Txid) (q : Pgid × Txid) : Bool := b ≤ q.2 ∧ q.2 ≤ e

def rrMoved (b e : Txid) (pending : List (Txid × TxPending)) : List Pgid :=
  (pending.filter (rrHit b e)).flatMap (fun p => (p.2.ids.filter (rrSel b e)).map (·.1))

def rrPending (b e : Txid) (pending : List (Txid × TxPending)) : List (Txid × TxPending) :=
  pending.filterMap (fun p =>
      if rrHit b e p then
        let rest := p.2.ids.filter (fun q => !rrSel b e q)
        if rest.isEmpty then none else some (p.1, { ids := rest, lastReleaseBegin := b })
      else some p)

theorem releaseRange_eq (f : FL) (b e : Txid) (h : ¬ b > e) :
    f.releaseRange b e =
      ({ f with pending := rrPending b e f.pending } : FL).mergeSpans (rrMoved b e f.pending) := by
  unfold FL.releaseRange
  rw [if_neg h]
  rfl

theorem rrMoved_cons (b e : Txid) (p : Txid × TxPending) (ps : List (Txid × TxPending)) :
    rrMoved b e (p :: ps) =
      (if rrHit b e p then (p.2.ids.filter (rrSel b e)).map (·.1) else []) ++ rrMoved b e ps := by
  unfold rrMoved
  by_cases h : rrHit b e p = true
  · simp [h]
  · simp [h]

theorem pidsOf_rrPending_cons (b e : Txid) (p : Txid × TxPending) (ps : List (Txid × TxPending)) :
    pidsOf (rrPending b e (p :: ps)) =
      (if rrHit b e p then (p.2.ids.filter (fun q => !rrSel b e q)).map (·.1) else p.2.ids.map (·.1))
        ++ pidsOf (rrPending b e ps) := by
  unfold rrPending
  rw [List.filterMap_cons]
  by_cases h : rrHit b e p = true
  · simp only [h, if_true]
    by_cases h2 : (p.2.ids.filter (fun q => !rrSel b e q)).isEmpty = true
    · simp only [h2, if_true]
      rw [List.isEmpty_iff.mp h2]; simp
    · simp only [h2]
      exact pidsOf_cons _ _
  · simp only [h]
    exact pidsOf_cons _ _

theorem rr_perm (b e : Txid) (pending : List (Txid × TxPending)) :
    (pidsOf pending).Perm (rrMoved b e pending ++ pidsOf (rrPending b e pending)) := by
  rw [List.perm_iff_count]
  intro a
  induction pending with
  | nil => simp [rrMoved, rrPending]
  | cons p ps ih =>
    rw [rrMoved_cons, pidsOf_rrPending_cons, pidsOf_cons]
    simp only [List.count_append] at ih ⊢
    by_cases h : rrHit b e p = true
    · simp only [h, if_true]
      have := ((List.filter_append_perm (rrSel b e) p.2.ids).map (·.1)).count_eq a
      simp only [List.map_append, List.count_append] at this
      omega
    · simp only [h]
      simp
      omega

theorem rr_keys (b e : Txid) (pending : List (Txid × TxPending)) :
    ((rrPending b e pending).map (·.1)).Sublist (pending.map (·.1)) := by
  induction pending with
  | nil => simp [rrPending]
  | cons p ps ih =>
    unfold rrPending at ih ⊢
    rw [List.filterMap_cons]
    split
    · rename_i hnone
      exact ih.trans (by simp)
    · rename_i x hsome
      have : x.1 = p.1 := by
        split at hsome
        · simp only [] at hsome
          split at hsome
          · cases hsome
          · cases hsome; rfl
        · cases hsome; rfl
      simp only [List.map_cons, this]
      exact ih.cons_cons _

theorem rr_sub (b e : Txid) (pending : List (Txid × TxPending)) :
    ∀ t txp', (t, txp') ∈ rrPending b e pending →
      ∃ txp, (t, txp) ∈ pending ∧ ∀ x ∈ txp'.ids, x ∈ txp.ids := by
  intro t txp' h
  unfold rrPending at h
  rw [List.mem_filterMap] at h
  obtain ⟨p, hp, hsome⟩ := h
  split at hsome
  · simp only [] at hsome
    split at hsome
    · cases hsome
    · cases hsome
      exact ⟨p.2, hp, fun x hx => (List.mem_filter.mp hx).1⟩
  · cases hsome
    exact ⟨txp', hp, fun x hx => hx⟩

theorem rr_prov (b e : Txid) (pending : List (Txid × TxPending)) :
    ∀ q ∈ rrMoved b e pending, ∃ t txp a, (t, txp) ∈ pending ∧ (q, a) ∈ txp.ids ∧
      b ≤ t ∧ t ≤ e ∧ b ≤ a ∧ a ≤ e := by
  intro q hq
  unfold rrMoved at hq
  rw [List.mem_flatMap] at hq
  obtain ⟨p, hp, hq⟩ := hq
  rw [List.mem_filter] at hp
  rw [List.mem_map] at hq
  obtain ⟨x, hx, rfl⟩ := hq
  rw [List.mem_filter] at hx
  have h1 := hp.2
  have h2 := hx.2
  simp only [rrHit, rrSel, decide_eq_true_eq] at h1 h2
  exact ⟨p.1, p.2, x.2, hp.1, hx.1, h1.1, h1.2.1, h2.1, h2.2⟩

theorem releaseRange_rel {P : Txid → Txid → Prop} {f : FL} (hinv : FLInv f) (b e : Txid)
    (hP : ∀ t a, b ≤ t → t ≤ e → b ≤ a → a ≤ e → P t a) : Rel P f (f.releaseRange b e) := by
  by_cases h : b > e
  · unfold FL.releaseRange
    rw [if_pos h]
    exact Rel.refl hinv
  · rw [releaseRange_eq f b e h]
    apply move_rel hinv
    · exact rr_perm b e f.pending
    · exact (rr_keys b e f.pending).nodup hinv.pending_keys
    · intro q hq
      obtain ⟨t, txp, a, h1, h2, h3, h4, h5, h6⟩ := rr_prov b e f.pending q hq
      exact ⟨t, txp, a, h1, h2, hP t a h3 h4 h5 h6⟩
    · exact rr_sub b e f.pending

/-! ### `ReleasePendingPages` -/

def rpStep (acc : FL × Txid) (tid : Txid) : FL × Txid :=
  ((if tid > 0 then acc.1.releaseRange acc.2 (tid - 1) else acc.1), inc64 tid)

def rpTail (l : List Txid) (g : FL) (m : Txid) : FL :=
  (l.foldl rpStep (g, m)).1.releaseRange (l.foldl rpStep (g, m)).2 maxU64

def rpMin (rs : List Txid) : Txid := match rs with | [] => maxU64 | r :: _ => r

def rpFirst (f : FL) : FL :=
  if rpMin (sortNat f.readers) > 0
  then ({ f with readers := sortNat f.readers } : FL).release (rpMin (sortNat f.readers) - 1)
  else { f with readers := sortNat f.readers }

theorem releasePending_eq (f : FL) :
    f.releasePending = rpTail (sortNat f.readers) (rpFirst f) (rpMin (sortNat f.readers)) := rfl

theorem rpTail_nil (g : FL) (m : Txid) : rpTail [] g m = g.releaseRange m maxU64 := rfl

theorem rpTail_cons (tid : Txid) (l : List Txid) (g : FL) (m : Txid) :
    rpTail (tid :: l) g m =
      rpTail l (if tid > 0 then g.releaseRange m (tid - 1) else g) (inc64 tid) := rfl

theorem rpTail_rel {P : Txid → Txid → Prop} (J : Txid → List Txid → Prop)
    (hstep : ∀ m tid l, J m (tid :: l) →
      (tid > 0 → ∀ t a, m ≤ t → t ≤ tid - 1 → m ≤ a → a ≤ tid - 1 → P t a) ∧ J (inc64 tid) l)
    (hfinal : ∀ m, J m [] → ∀ t a, m ≤ t → t ≤ maxU64 → m ≤ a → a ≤ maxU64 → P t a) :
    ∀ (l : List Txid) (g : FL) (m : Txid), FLInv g → J m l → Rel P g (rpTail l g m) := by
  intro l
  induction l with
  | nil =>
    intro g m hinv hJ
    rw [rpTail_nil]
    exact releaseRange_rel hinv m maxU64 (hfinal m hJ)
  | cons tid l ih =>
    intro g m hinv hJ
    rw [rpTail_cons]
    obtain ⟨h1, h2⟩ := hstep m tid l hJ
    have hrel : Rel P g (if tid > 0 then g.releaseRange m (tid - 1) else g) := by
      split
      · rename_i hpos
        exact releaseRange_rel hinv m (tid - 1) (h1 hpos)
      · exact Rel.refl hinv
    exact hrel.trans (ih _ _ hrel.1 h2)

theorem release_pending (f : FL) (txid : Txid) :
    (f.release txid).pending = f.pending.filter (fun p => ¬ p.1 ≤ txid) := by
  unfold FL.release
  exact mergeSpans_pending _ _

theorem FLInv.setReaders {f : FL} (h : FLInv f) (rs : List Txid) : FLInv { f with readers := rs } :=
  h.congr rfl rfl rfl rfl

theorem Rel.of_setReaders {P : Txid → Txid → Prop} {f g : FL} {rs : List Txid}
    (h : Rel P { f with readers := rs } g) : Rel P f g := h

theorem rpFirst_rel {P : Txid → Txid → Prop} {f : FL} (hinv : FLInv f)
    (hP : 0 < rpMin (sortNat f.readers) → ∀ t a, t ≤ rpMin (sortNat f.readers) - 1 → P t a) :
    Rel P f (rpFirst f) := by
  unfold rpFirst
  split
  · rename_i hpos
    exact Rel.of_setReaders (release_rel (hinv.setReaders _) _ (hP hpos))
  · exact Rel.of_setReaders (Rel.refl (hinv.setReaders _))

theorem rpMin_le {l : List Txid} (hs : l.Pairwise (· ≤ ·)) : ∀ r ∈ l, rpMin l ≤ r := by
  cases l with
  | nil => intro r hr; cases hr
  | cons x xs =>
    intro r hr
    rw [List.pairwise_cons] at hs
    simp only [rpMin]
    rcases List.mem_cons.mp hr with h | h
    · fomega
    · exact hs.1 r h

/-- `ReleasePendingPages` with an arbitrary provenance predicate that every range satisfies. -/
theorem releasePending_rel_true {f : FL} (hinv : FLInv f) :
    Rel (fun _ _ => True) f f.releasePending := by
  rw [releasePending_eq]
  have h1 : Rel (fun _ _ => True) f (rpFirst f) := rpFirst_rel hinv (fun _ _ _ _ => trivial)
  refine h1.trans (rpTail_rel (fun _ _ => True) ?_ ?_ _ _ _ h1.1 trivial)
  · intro _ _ _ _; exact ⟨fun _ _ _ _ _ _ _ => trivial, trivial⟩
  · intro _ _ _ _ _ _ _ _; trivial

theorem releasePending_rel_safe {f : FL} (hinv : FLInv f) (hr : ∀ r ∈ f.readers, r < maxU64) :
    Rel (fun t a => ∀ r ∈ f.readers, ¬ (a ≤ r ∧ r < t)) f f.releasePending := by
  rw [releasePending_eq]
  have hsorted := sortNat_sorted f.readers
  have hmin := rpMin_le hsorted
  have h1 : Rel (fun t a => ∀ r ∈ f.readers, ¬ (a ≤ r ∧ r < t)) f (rpFirst f) := by
    apply rpFirst_rel hinv
    intro hpos t a ht r hr' hc
    have := hmin r (mem_sortNat.mpr hr')
    fomega
  refine h1.trans (rpTail_rel
    (fun m l => (∀ r ∈ f.readers, r < m ∨ r ∈ l) ∧ (∀ r ∈ l, m ≤ r + 1 ∧ r < maxU64) ∧ l.Pairwise (· ≤ ·))
    ?_ ?_ _ _ _ h1.1 ?_)
  · rintro m tid l ⟨hJ1, hJ2, hJ3⟩
    rw [List.pairwise_cons] at hJ3
    have htid := hJ2 tid (by simp)
    have hinc : inc64 tid = tid + 1 := by
      unfold inc64; rw [if_neg (by fomega)]
    refine ⟨?_, ?_, ?_, hJ3.2⟩
    · intro hpos t a h1 h2 h3 h4 r hr' hc
      rcases hJ1 r hr' with h | h
      · fomega
      · rcases List.mem_cons.mp h with h | h
        · fomega
        · have := hJ3.1 r h; fomega
    · intro r hr'
      rw [hinc]
      rcases hJ1 r hr' with h | h
      · left; fomega
      · rcases List.mem_cons.mp h with h | h
        · left; fomega
        · right; exact h
    · intro r hr'
      rw [hinc]
      have := hJ3.1 r hr'
      exact ⟨by fomega, (hJ2 r (List.mem_cons_of_mem _ hr')).2⟩
  · rintro m ⟨hJ1, _, _⟩ t a h1 h2 h3 h4 r hr' hc
    rcases hJ1 r hr' with h | h
    · fomega
    · cases h
  · refine ⟨fun r hr' => Or.inr (mem_sortNat.mpr hr'), ?_, hsorted⟩
    intro r hr'
    have := hmin r hr'
    exact ⟨by fomega, hr r (mem_sortNat.mp hr')⟩

theorem rpTail_rel_true (l : List Txid) (g : FL) (m : Txid) (hinv : FLInv g) :
    Rel (fun _ _ => True) g (rpTail l g m) :=
  rpTail_rel (fun _ _ => True)
    (fun _ _ _ _ => ⟨fun _ _ _ _ _ _ _ => trivial, trivial⟩)
    (fun _ _ _ _ _ _ _ _ => trivial) l g m hinv trivial

theorem releasePending_live {f : FL} (hinv : FLInv f) (hnr : f.readers = [])
    (ht : ∀ p ∈ f.pending, p.1 < maxU64) :
    (f.releasePending).pending = [] ∧
    ∀ q, q ∈ (f.releasePending).freeIds ↔ (q ∈ f.freeIds ∨ q ∈ f.pendingIds) := by
  have hrel := releasePending_rel_true hinv
  have hfirst : Rel (fun _ _ => True) f (rpFirst f) := rpFirst_rel hinv (fun _ _ _ _ => trivial)
  have htail := rpTail_rel_true (sortNat f.readers) (rpFirst f) (rpMin (sortNat f.readers)) hfirst.1
  rw [← releasePending_eq] at htail
  have hp1 : (rpFirst f).pending = [] := by
    have hmin : rpMin (sortNat f.readers) = maxU64 := by rw [hnr]; rfl
    unfold rpFirst
    split
    · rw [release_pending, List.filter_eq_nil_iff]
      intro p hp
      have := ht p hp
      simp only [decide_eq_true_eq, Decidable.not_not]
      fomega
    · rename_i hneg
      exact absurd (by rw [hmin]; decide) hneg
  have hp2 : (f.releasePending).pending = [] := by
    rw [List.eq_nil_iff_forall_not_mem]
    intro p hp
    obtain ⟨txp, h, _⟩ := htail.2.2.2 p.1 p.2 hp
    rw [hp1] at h
    cases h
  refine ⟨hp2, fun q => ?_⟩
  rw [← hrel.2.1 q, pendingIds_eq, hp2]
  simp

theorem releasePending_below_min {f : FL} (hinv : FLInv f) (m : Nat)
    (hm : ∀ r ∈ f.readers, m ≤ r) (hr : f.readers ≠ []) :
    ∀ p ∈ (f.releasePending).pending, m ≤ p.1 := by
  have hfirst : Rel (fun _ _ => True) f (rpFirst f) := rpFirst_rel hinv (fun _ _ _ _ => trivial)
  have htail := rpTail_rel_true (sortNat f.readers) (rpFirst f) (rpMin (sortNat f.readers)) hfirst.1
  rw [← releasePending_eq] at htail
  -- the oldest reader is a reader
  have hmin : rpMin (sortNat f.readers) ∈ f.readers := by
    cases hs : sortNat f.readers with
    | nil =>
      have := length_sortNat f.readers
      rw [hs] at this
      exact absurd (List.eq_nil_of_length_eq_zero this.symm) hr
    | cons x xs =>
      simp only [rpMin]
      exact mem_sortNat.mp (hs ▸ List.mem_cons_self)
  have hmm := hm _ hmin
  have hp1 : ∀ p ∈ (rpFirst f).pending, m ≤ p.1 := by
    unfold rpFirst
    split
    · rename_i hpos
      rw [release_pending]
      intro p hp
      rw [List.mem_filter] at hp
      have := hp.2
      simp only [decide_eq_true_eq] at this
      fomega
    · intro p _
      fomega
  intro p hp
  obtain ⟨txp, h, _⟩ := htail.2.2.2 p.1 p.2 hp
  exact hp1 (p.1, txp) h

end Bolt.FL
