import Bolt.Lemmas.BktTx
namespace Bolt.Bkt.BktRootL
open Bolt Bolt.BTree Bolt.Bkt

end Bolt.Bkt.BktRootL
