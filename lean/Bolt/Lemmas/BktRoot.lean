/-
Helper lemmas for `Bolt.Props.C04BktRoot` (the transaction's root bucket as the modelled top
bucket): `commitRoot` is `commitBk` without the inline branch, so its correctness is assembled
from the same pieces (`BktCommitL.rebalanceBk_ok`, `spillBk_ok`, `full_ok`); a whole transaction
is a fold of per-call steps keeping an invariant.
-/
import Bolt.Lemmas.BktTx
namespace Bolt.Bkt.BktRootL
open Bolt Bolt.BTree Bolt.Bkt Bolt.Bkt.BktCommitL

/-- `commitRoot` = `Bucket.rebalance` then `Bucket.spill`, never inline (cf. `BktCommitL.commit_ok`) -/
theorem commitRoot_ok (ps sth rth fu : Nat) (orig cur : Bk) (order : List Nat)
    (hw : WF fu orig cur) (hf : fuelOk' fu fu cur = true)
    (hc : ∀ pg ∈ allMat fu fu cur, pg ∈ order) :
    ∃ cur' fu', commitRoot ps sth rth fu order cur = some cur' ∧
      absTop fu orig cur' = absTop fu orig cur ∧
      fu ≤ fu' ∧ origShapeOk fu' (full orig fu [] cur') = true ∧
      absTop fu' (full orig fu [] cur') (full orig fu [] cur') = absTop fu orig cur := by
  obtain ⟨ho, hcur⟩ := hw
  obtain ⟨b1, e1, hmid, habs1⟩ := rebalanceBk_ok orig rth fu order fu [] cur (Nat.le_refl _) hcur hf hc
  obtain ⟨b2, had, e2, hout, h2⟩ := spillBk_ok orig ps sth fu fu [] b1 hmid
  have habs : absBk orig fu [] b2 = absBk orig fu [] cur := h2.trans habs1
  have e : commitRoot ps sth rth fu order cur = some b2 := by
    unfold commitRoot
    rw [e1, Option.bind_some, e2]; rfl
  obtain ⟨F, hF⟩ := full_ok orig fu ho fu [] b2 (by simp) hout
  obtain ⟨hs, ha⟩ := hF (max F fu) (by omega)
  refine ⟨b2, max F fu, e, ?_, by omega, hs, ?_⟩
  · unfold absTop; rw [habs]
  · unfold absTop; rw [ha, habs]

/-- a fold of steps, each keeping an invariant and following a reference step whenever its
    precondition holds, keeps the invariant and follows the fold of the reference steps -/
theorem foldl_refines {α σ τ : Type} (step : σ → α → σ) (spec : τ → α → τ) (abs : σ → τ)
    (Inv : σ → Prop) (Pre : σ → α → Prop) (Ok : σ → List α → Prop)
    (hnext : ∀ s a l, Ok s (a :: l) → Pre s a ∧ Ok (step s a) l)
    (hstep : ∀ s a, Inv s → Pre s a → Inv (step s a) ∧ abs (step s a) = spec (abs s) a) :
    ∀ (l : List α) (s : σ), Inv s → Ok s l →
      Inv (l.foldl step s) ∧ abs (l.foldl step s) = l.foldl spec (abs s)
  | [], _, hi, _ => ⟨hi, rfl⟩
  | a :: l, s, hi, hok => by
    obtain ⟨hp, hrest⟩ := hnext s a l hok
    obtain ⟨hi', ha⟩ := hstep s a hi hp
    obtain ⟨hi'', ha'⟩ := foldl_refines step spec abs Inv Pre Ok hnext hstep l (step s a) hi' hrest
    refine ⟨hi'', ?_⟩
    simp only [List.foldl_cons]
    rw [ha', ha]

end Bolt.Bkt.BktRootL
