/-
Helper lemmas for `Bolt.Props.C01BktWrite` (the page writes of a commit establish `LaidBk`):
copy-on-write at bucket level.  `CowBk` is the invariant of the transaction's state ("every
frozen node — a node inside an unmaterialised subtree — of an opened bucket's tree is a node of
the tree the bucket had when the transaction began, and a nested bucket whose element lies on a
frozen leaf and whose own root node is not materialised is still what it was"); it is carried
through `Bucket.rebalance` (`rebalanceBk_cow`), `Bucket.spill` (`spillBk_cow`, giving `KeptC`)
and `full` (`full_kept`, giving `KeptF`, the form the write-side theorem consumes).
-/
import Bolt.Props.C01Bkt
namespace Bolt.BktWriteL
open Bolt Bolt.BTree Bolt.Bkt Bolt.C12Bk Bolt.C12Tree Bolt.C01Tree Bolt.C01Bkt
open Bolt.BTree.CowL Bolt.Bkt.BktCommitL

/-! ### A. trees: `realizeN`, `Relabel`, `newNodes`, `sub` -/

mutual
theorem subtrees_sub : ∀ n : N, C06Tree.subtrees n = sub n
  | .leaf h items => by rw [C06Tree.subtrees, sub_leaf]
  | .branch h kids => by rw [C06Tree.subtrees, sub_branch, subtreesKids_sub kids]
theorem subtreesKids_sub : ∀ kids : List (Bytes × N), C06Tree.subtreesKids kids = subKids kids
  | [] => by rw [C06Tree.subtreesKids, subKids_nil]
  | (s, c) :: r => by rw [C06Tree.subtreesKids, subKids_cons, subtrees_sub c, subtreesKids_sub r]
end

mutual
theorem sub_realize (s : Bytes → Option Bk) : ∀ n : N, sub (realizeN s n) = (sub n).map (realizeN s)
  | .leaf h items => by rw [realizeN_leaf, sub_leaf, sub_leaf, List.map_singleton, realizeN_leaf]
  | .branch h kids => by
    rw [realizeN_branch, sub_branch, sub_branch, List.map_cons, realizeN_branch, subKids_realize s kids]
theorem subKids_realize (s : Bytes → Option Bk) : ∀ kids : List (Bytes × N),
    subKids (realizeKids s kids) = (subKids kids).map (realizeN s)
  | [] => by rw [realizeKids, subKids_nil]; rfl
  | (k, c) :: r => by
    rw [realizeKids_cons, subKids_cons, subKids_cons, List.map_append, sub_realize s c, subKids_realize s r]
end

mutual
theorem relabel_realize (s : Bytes → Option Bk) : ∀ (a b : N), Relabel a b →
    Relabel (realizeN s a) (realizeN s b)
  | .leaf ha ia, b, h => by
    rw [Relabel] at h
    rw [realizeN_leaf, Relabel]
    by_cases h0 : ha.pgid ≠ 0
    · rw [if_pos h0] at h ⊢; subst h; rw [realizeN_leaf]
    · rw [if_neg h0] at h ⊢
      obtain ⟨pg, hpg, rfl⟩ := h
      rw [realizeN_leaf]; exact ⟨pg, hpg, rfl⟩
  | .branch ha ka, b, h => by
    rw [Relabel] at h
    rw [realizeN_branch, Relabel]
    by_cases h0 : ha.pgid ≠ 0
    · rw [if_pos h0] at h ⊢; subst h; rw [realizeN_branch]
    · rw [if_neg h0] at h ⊢
      obtain ⟨pg, kb, hpg, rfl, hk⟩ := h
      rw [realizeN_branch]
      exact ⟨pg, realizeKids s kb, hpg, rfl, relabelKids_realize s ka kb hk⟩
theorem relabelKids_realize (s : Bytes → Option Bk) : ∀ (ka kb : List (Bytes × N)), RelabelKids ka kb →
    RelabelKids (realizeKids s ka) (realizeKids s kb)
  | [], kb, h => by
    rw [RelabelKids] at h; subst h
    rw [realizeKids, RelabelKids]
  | (k, c) :: r, kb, h => by
    rw [RelabelKids] at h
    obtain ⟨c', r', rfl, hc, hr⟩ := h
    rw [realizeKids_cons, realizeKids_cons, RelabelKids]
    exact ⟨_, _, rfl, relabel_realize s c c' hc, relabelKids_realize s r r' hr⟩
end

mutual
/-- which nodes are new is read off the headers of the first tree -/
theorem newNodes_realize (s : Bytes → Option Bk) : ∀ (a b : N), newNodes (realizeN s a) b = newNodes a b
  | .leaf ha ia, b => by rw [realizeN_leaf, newNodes, newNodes]
  | .branch ha ka, .leaf hb ib => by
    rw [realizeN_branch, newNodes, newNodes] <;> (intro _ _ h; cases h)
  | .branch ha ka, .branch hb kb => by
    rw [realizeN_branch, newNodes, newNodes, newNodesKids_realize s ka kb]
theorem newNodesKids_realize (s : Bytes → Option Bk) : ∀ (ka kb : List (Bytes × N)),
    newNodesKids (realizeKids s ka) kb = newNodesKids ka kb
  | [], kb => by rw [realizeKids]
  | (k, c) :: r, [] => by rw [realizeKids_cons, newNodesKids, newNodesKids] <;> simp
  | (k, c) :: r, (k', c') :: r' => by
    rw [realizeKids_cons, newNodesKids, newNodesKids, newNodes_realize s c c', newNodesKids_realize s r r']
end

mutual
theorem realizeN_congr (s s' : Bytes → Option Bk) : ∀ n : N,
    (∀ e ∈ flatten n, realItem s e = realItem s' e) → realizeN s n = realizeN s' n
  | .leaf h items, hh => by
    rw [realizeN_leaf, realizeN_leaf]
    congr 1
    apply List.map_congr_left
    intro e he
    exact hh e (by rw [OpsL.flatten_leaf]; exact he)
  | .branch h kids, hh => by
    rw [realizeN_branch, realizeN_branch,
      realizeKids_congr s s' kids (by rw [OpsL.flatten_branch] at hh; exact hh)]
theorem realizeKids_congr (s s' : Bytes → Option Bk) : ∀ kids : List (Bytes × N),
    (∀ e ∈ flattenKids kids, realItem s e = realItem s' e) → realizeKids s kids = realizeKids s' kids
  | [], _ => by rw [realizeKids, realizeKids]
  | (k, c) :: r, hh => by
    rw [OpsL.flattenKids_cons] at hh
    rw [realizeKids_cons, realizeKids_cons,
      realizeN_congr s s' c (fun e he => hh e (List.mem_append_left _ he)),
      realizeKids_congr s s' r (fun e he => hh e (List.mem_append_right _ he))]
end

mutual
/-- the elements below a node of a tree are elements of the tree -/
theorem sub_flatten : ∀ (n x : N), x ∈ sub n → ∀ e ∈ flatten x, e ∈ flatten n
  | .leaf h items, x, hx, e, he => by
    rw [sub_leaf, List.mem_singleton] at hx; subst hx; exact he
  | .branch h kids, x, hx, e, he => by
    rw [sub_branch] at hx
    rcases List.mem_cons.mp hx with rfl | hx
    · exact he
    · rw [OpsL.flatten_branch]; exact subKids_flatten kids x hx e he
theorem subKids_flatten : ∀ (kids : List (Bytes × N)) (x : N), x ∈ subKids kids →
    ∀ e ∈ flatten x, e ∈ flattenKids kids
  | [], x, hx, _, _ => by rw [subKids_nil] at hx; cases hx
  | (k, c) :: r, x, hx, e, he => by
    rw [subKids_cons] at hx
    rw [OpsL.flattenKids_cons]
    rcases List.mem_append.mp hx with hx | hx
    · exact List.mem_append_left _ (sub_flatten c x hx e he)
    · exact List.mem_append_right _ (subKids_flatten r x hx e he)
end

theorem fz_flatten (n x : N) (hx : x ∈ fz n) : ∀ e ∈ flatten x, e ∈ flatten n :=
  sub_flatten n x (fz_sub n x hx)


/-! ### B. trees: the root header through `rebalance`; the rewritten element is on no frozen node -/

theorem findMat_unmat (pg fuel : Nat) (t : N) (h : t.hd.mat = false) : findMat pg fuel t = none := by
  cases fuel with
  | zero => rfl
  | succ f => unfold findMat; simp [h]

/-- a tree whose root node is not in the node map has no node in it: `rebalance` does nothing -/
theorem rebalanceAll_unmat (th fuel : Nat) : ∀ (order : List Nat) (t : N), t.hd.mat = false →
    rebalanceAll th fuel t order = some t
  | [], t, _ => by rw [rebalanceAll]
  | pg :: rest, t, h => by
    rw [rebalanceAll, findMat_unmat pg fuel t h]
    exact rebalanceAll_unmat th fuel rest t h

theorem rebalRoot_mat {th : Nat} {r t' : N} (hm : r.hd.mat = true) (h : rebalRoot th r = some t') :
    t'.hd.mat = true := by
  unfold rebalRoot at h
  by_cases hu : r.hd.unb = false
  · simp only [hu, Bool.not_false, if_true, Option.some.injEq] at h
    subst h; exact hm
  · have hu' : r.hd.unb = true := by simpa using hu
    simp only [hu', Bool.not_true, Bool.false_eq_true, if_false] at h
    have hclr : (r.setHd { r.hd with unb := false }).hd.mat = true := by rw [setHd_hd]; exact hm
    split at h
    · simp only [Option.some.injEq] at h; subst h; exact hclr
    · split at h
      · rename_i hd0 s c heq
        have h0 : hd0.mat = true := by
          have := congrArg N.hd heq
          rw [setHd_hd] at this
          simp only [N.hd] at this
          rw [← this]; exact hm
        cases hmc : materialize c <;> rw [hmc] at h <;> simp at h <;> subst h <;> exact h0
      · simp only [Option.some.injEq] at h; subst h; exact hclr

theorem rebalanceAt_mat {th : Nat} {t t' : N} {path : List Nat} (hmp : MatPath path t)
    (h : rebalanceAt th t path = some t') : t'.hd.mat = true := by
  unfold rebalanceAt at h
  cases hr : rebalGo th path t with
  | none => rw [hr] at h; simp at h
  | some res =>
    obtain ⟨r, call⟩ := res
    rw [hr] at h
    obtain ⟨h1, _⟩ := rebalGo_fz th path t r call hmp hr
    cases call with
    | false =>
      simp only [Bool.false_eq_true, if_false, Option.some.injEq] at h
      subst h; exact h1
    | true =>
      simp only [if_true] at h
      exact rebalRoot_mat h1 h

/-- the root node stays in the node map through `rebalance` -/
theorem rebalanceAll_mat (th fuel : Nat) : ∀ (order : List Nat) (t t' : N), t.hd.mat = true →
    rebalanceAll th fuel t order = some t' → t'.hd.mat = true
  | [], t, t', hm, h => by
    simp only [rebalanceAll, Option.some.injEq] at h
    subst h; exact hm
  | pg :: rest, t, t', hm, h => by
    rw [rebalanceAll] at h
    cases hfm : findMat pg fuel t with
    | none => rw [hfm] at h; exact rebalanceAll_mat th fuel rest t t' hm h
    | some path =>
      rw [hfm] at h
      simp only at h
      cases h1 : rebalanceAt th t path with
      | none => rw [h1] at h; cases h
      | some t1 =>
        rw [h1] at h
        simp only at h
        exact rebalanceAll_mat th fuel rest t1 t' (rebalanceAt_mat (findMat_matPath hfm) h1) h

theorem leafPutF_fz_nil (k v : Bytes) (fl : Nat) : ∀ n n', n.hd.mat = true → leafPutF k v fl n = some n' →
    fz n' = []
  | .leaf h items, n', hm, e => by
    rw [leafPutF_eq] at e; cases e
    rw [fz_mat (by exact hm)]; rfl
  | .branch _ _, n', _, e => by rw [leafPutF] at e; cases e

theorem leafPutF_fz (k v : Bytes) (fl : Nat) : ∀ n n', n.hd.mat = true → leafPutF k v fl n = some n' →
    ∀ x ∈ fz n', x ∈ fz n := by
  intro n n' hm e x hx
  rw [leafPutF_fz_nil k v fl n n' hm e] at hx; cases hx

theorem mem_flattenKids : ∀ (kids : List (Bytes × N)) (p : Bytes × N), p ∈ kids →
    ∀ e ∈ flatten p.2, e ∈ flattenKids kids
  | [], p, hp, _, _ => by cases hp
  | (k, c) :: r, p, hp, e, he => by
    rw [OpsL.flattenKids_cons]
    rcases List.mem_cons.mp hp with rfl | hp
    · exact List.mem_append_left _ he
    · exact List.mem_append_right _ (mem_flattenKids r p hp e he)

theorem nodeAt_flatten : ∀ (path : List Nat) (t lf : N), nodeAt path t = some lf →
    ∀ e ∈ flatten lf, e ∈ flatten t
  | [], t, lf, h, e, he => by rw [nodeAt] at h; cases h; exact he
  | i :: rest, .leaf _ _, lf, h, _, _ => by rw [nodeAt] at h; cases h
  | i :: rest, .branch hd kids, lf, h, e, he => by
    rw [nodeAt] at h
    cases hk : kids[i]? with
    | none => rw [hk] at h; cases h
    | some p =>
      rw [hk] at h
      have h' : nodeAt rest p.2 = some lf := h
      rw [OpsL.flatten_branch]
      exact mem_flattenKids kids p (List.mem_of_getElem? hk) e (nodeAt_flatten rest p.2 lf h' e he)

theorem split_at {α : Type} : ∀ (l : List α) (i : Nat) (a : α), l[i]? = some a →
    ∃ pre post, l = pre ++ a :: post ∧ ∀ b, l.set i b = pre ++ b :: post
  | [], i, a, h => by simp at h
  | x :: r, 0, a, h => by
    simp at h; subst h; exact ⟨[], r, rfl, fun b => rfl⟩
  | x :: r, i+1, a, h => by
    obtain ⟨pre, post, e, hs⟩ := split_at r i a (by simpa using h)
    exact ⟨x :: pre, post, by rw [e]; rfl, fun b => by rw [List.set_cons_succ, hs b]; rfl⟩

/-- after `modifyAt` along the path to the leaf that holds the key `name`, no frozen node holds
    that key (keys are distinct, the path is materialised) -/
theorem modifyAt_fz_nokey (g : N → Option N) (name : Bytes)
    (hg : ∀ n n', n.hd.mat = true → g n = some n' → fz n' = []) :
    ∀ (path : List Nat) (t t' lf : N), OpsL.SortedI (flatten t) → nodeAt path t = some lf →
    (∃ e ∈ flatten lf, e.key = name) → modifyAt g path t = some t' →
    ∀ x ∈ fz t', ∀ e ∈ flatten x, e.key ≠ name
  | [], t, t', lf, _, _, _, h, x, hx => by
    rw [OpsL.modifyAt_nil] at h
    rw [hg _ _ (materialize_mat t) h] at hx; cases hx
  | i :: rest, .leaf hd items, t', lf, _, hn, _, _, _, _ => by rw [nodeAt] at hn; cases hn
  | i :: rest, .branch hd kids, t', lf, hs, hn, ⟨e0, he0, hk0⟩, h, x, hx => by
    rw [nodeAt] at hn
    cases hk : kids[i]? with
    | none => rw [hk] at hn; cases hn
    | some p =>
      obtain ⟨s, c⟩ := p
      rw [hk] at hn
      have hn' : nodeAt rest c = some lf := hn
      rw [OpsL.modifyAt_branch g i rest hd kids s c hk] at h
      obtain ⟨c', hc', rfl⟩ := Option.map_eq_some_iff.mp h
      obtain ⟨pre, post, ek, hset⟩ := split_at kids i (s, c) hk
      rw [fz_mat (by exact OpsL.mhd_mat _ _)] at hx
      change x ∈ fzKids (kids.set i (s, c')) at hx
      rw [hset] at hx
      rw [OpsL.flatten_branch, ek, OpsL.flattenKids_append, OpsL.flattenKids_cons] at hs
      have he0c : e0 ∈ flatten c := nodeAt_flatten rest c lf hn' e0 he0
      obtain ⟨p, hp, hxp⟩ := (mem_fzKids _ x).mp hx
      obtain ⟨_, hs2, hs3⟩ := List.pairwise_append.mp hs
      obtain ⟨hs4, _, hs5⟩ := List.pairwise_append.mp hs2
      intro e he hek
      rcases List.mem_append.mp hp with hp | hp
      · have h1 : e ∈ flattenKids pre := mem_flattenKids pre p hp e (fz_flatten p.2 x hxp e he)
        have h2 := hs3 e h1 e0 (List.mem_append_left _ he0c)
        rw [hek, hk0] at h2; exact OpsL.lt_irrefl' h2
      · rcases List.mem_cons.mp hp with rfl | hp
        · exact modifyAt_fz_nokey g name hg rest c c' lf hs4 hn' ⟨e0, he0, hk0⟩ hc' x hxp e he hek
        · have h1 : e ∈ flattenKids post := mem_flattenKids post p hp e (fz_flatten p.2 x hxp e he)
          have h2 := hs5 e0 he0c e h1
          rw [hek, hk0] at h2; exact OpsL.lt_irrefl' h2


/-! ### C. the copy-on-write invariant of a transaction's state; `Bucket.rebalance` -/

/-- `cc` has the root, sequence and tree of the nested bucket `k` of the bucket of `orig` at `path` -/
def SameO (orig : Bk) (path : List Bytes) (k : Bytes) (cc : Bk) : Prop :=
  ∃ ob oc, bkAt path orig = some ob ∧ lookupBk k ob.opened = some oc ∧
    cc.root = oc.root ∧ cc.seq = oc.seq ∧ cc.tree = oc.tree

theorem SameO_congr {orig : Bk} {path : List Bytes} {k : Bytes} {c c' : Bk} (h : SameO orig path k c)
    (h1 : c'.root = c.root) (h2 : c'.seq = c.seq) (h3 : c'.tree = c.tree) : SameO orig path k c' := by
  obtain ⟨ob, oc, e1, e2, e3, e4, e5⟩ := h
  exact ⟨ob, oc, e1, e2, h1.trans e3, h2.trans e4, h3.trans e5⟩

/-- **copy-on-write invariant** of the bucket at `path` inside a write transaction: every frozen
    node (a node inside an unmaterialised subtree) of its tree that has a page is a node of the
    tree the bucket of `orig` at that path has, and an opened nested bucket whose element lies on
    such a node and whose own root node is not materialised still has the root, sequence and tree
    it had in `orig`; the same for every opened nested bucket -/
def CowBk (orig : Bk) : Nat → List Bytes → Bk → Prop
  | 0, _, _ => True
  | f+1, path, .mk _ _ t o =>
    (∀ n ∈ fz t, n.hd.pgid ≠ 0 → (∃ ob, bkAt path orig = some ob ∧ n ∈ sub ob.tree) ∧
      ∀ e ∈ flatten n, e.flags % 2 = 1 → ∀ p ∈ o, p.1 = e.key → p.2.tree.hd.mat = false →
        SameO orig path e.key p.2) ∧
    (∀ p ∈ o, CowBk orig f (path ++ [p.1]) p.2)

theorem cowBk_zero (orig : Bk) (path : List Bytes) (b : Bk) : CowBk orig 0 path b := by
  cases b; rw [CowBk]; trivial

theorem cowBk_succ (orig : Bk) (f : Nat) (path : List Bytes) (r s : Nat) (t : N) (o : List (Bytes × Bk)) :
    CowBk orig (f+1) path (.mk r s t o) ↔
    ((∀ n ∈ fz t, n.hd.pgid ≠ 0 → (∃ ob, bkAt path orig = some ob ∧ n ∈ sub ob.tree) ∧
      ∀ e ∈ flatten n, e.flags % 2 = 1 → ∀ p ∈ o, p.1 = e.key → p.2.tree.hd.mat = false →
        SameO orig path e.key p.2) ∧
    (∀ p ∈ o, CowBk orig f (path ++ [p.1]) p.2)) := by
  rw [CowBk]

theorem foldl_rebStep_none (g : Bk → Option Bk) : ∀ (o : List (Bytes × Bk)), o.foldl (rebStep g) none = none
  | [] => rfl
  | p :: r => by rw [List.foldl_cons]; exact foldl_rebStep_none g r

theorem foldl_rebStep_inv (g : Bk → Option Bk) : ∀ (o acc res : List (Bytes × Bk)),
    o.foldl (rebStep g) (some acc) = some res →
    ∃ o', res = acc ++ o' ∧ Rel2 (fun _ c c' => g c = some c') o o'
  | [], acc, res, h => by
    simp only [List.foldl_nil, Option.some.injEq] at h
    exact ⟨[], by simp [h], .nil⟩
  | p :: r, acc, res, h => by
    rw [List.foldl_cons] at h
    cases hg : g p.2 with
    | none =>
      have : rebStep g (some acc) p = none := by simp [rebStep, hg]
      rw [this, foldl_rebStep_none] at h; cases h
    | some c =>
      have : rebStep g (some acc) p = some (acc ++ [(p.1, c)]) := by simp [rebStep, hg]
      rw [this] at h
      obtain ⟨o', e, hrel⟩ := foldl_rebStep_inv g r _ res h
      exact ⟨(p.1, c) :: o', by rw [e]; simp, .cons ⟨rfl, hg⟩ hrel⟩

/-- `Bucket.rebalance` keeps root page and sequence; a bucket whose root node is not
    materialised is left as it is -/
theorem rebalanceBk_root (th fu : Nat) (order : List Nat) (f : Nat) (c c' : Bk)
    (h : rebalanceBk th fu order f c = some c') :
    c'.root = c.root ∧ c'.seq = c.seq ∧ (c'.tree.hd.mat = false → c.tree.hd.mat = false ∧ c'.tree = c.tree) := by
  cases f with
  | zero => cases c; rw [rebalanceBk] at h; cases h
  | succ f =>
    obtain ⟨r, s, t, o⟩ := c
    rw [rebalanceBk_succ] at h
    cases e1 : rebalanceAll th fu t order with
    | none => rw [e1] at h; cases h
    | some t' =>
      rw [e1] at h
      simp only at h
      obtain ⟨o', _, rfl⟩ := Option.map_eq_some_iff.mp h
      refine ⟨rfl, rfl, ?_⟩
      intro hm
      simp only [Bk.tree] at hm ⊢
      by_cases hm0 : t.hd.mat = true
      · have := rebalanceAll_mat th fu order t t' hm0 e1
        rw [hm] at this; cases this
      · have hm0' : t.hd.mat = false := by simpa using hm0
        rw [rebalanceAll_unmat th fu order t hm0'] at e1
        cases e1
        exact ⟨hm0', rfl⟩

/-- the invariant holds between `Bucket.rebalance` and `Bucket.spill` -/
theorem rebalanceBk_cow (orig : Bk) (th fu : Nat) (order : List Nat) : ∀ (f : Nat) (path : List Bytes) (b b' : Bk),
    CowBk orig f path b → rebalanceBk th fu order f b = some b' → CowBk orig f path b'
  | 0, path, b, b', _, h => by cases b; rw [rebalanceBk] at h; cases h
  | f+1, path, .mk r s t o, b', hc, h => by
    obtain ⟨hc1, hc2⟩ := (cowBk_succ ..).mp hc
    rw [rebalanceBk_succ] at h
    cases e1 : rebalanceAll th fu t order with
    | none => rw [e1] at h; cases h
    | some t' =>
      rw [e1] at h
      simp only at h
      obtain ⟨o', e2, rfl⟩ := Option.map_eq_some_iff.mp h
      obtain ⟨o'', e3, hrel⟩ := foldl_rebStep_inv _ o [] o' e2
      rw [List.nil_append] at e3
      subst e3
      rw [cowBk_succ]
      refine ⟨?_, ?_⟩
      · intro n hn h0
        obtain ⟨hG, hE⟩ := hc1 n (rebalanceAll_fz th fu order t t' e1 n hn) h0
        refine ⟨hG, ?_⟩
        intro e he hfl q hq hqe hqm
        obtain ⟨p, hp, hqp, hg⟩ := rel2_mem_right hrel q hq
        obtain ⟨g1, g2, g3⟩ := rebalanceBk_root th fu order f p.2 q.2 hg
        obtain ⟨g4, g5⟩ := g3 hqm
        exact SameO_congr (hE e he hfl p hp (hqp.symm.trans hqe) g4) g1 g2 g5
      · intro q hq
        obtain ⟨p, hp, hqp, hg⟩ := rel2_mem_right hrel q hq
        rw [hqp]
        exact rebalanceBk_cow orig th fu order f (path ++ [p.1]) p.2 q.2 (hc2 p hp) hg


/-! ### D. `Bucket.spill` -/

/-- what `Bucket.spill` leaves (before `full` attaches the unopened buckets): every node with a
    page is a node of the old tree of the same bucket, and EVERY opened nested bucket whose
    element lies on such a node has the root, sequence and tree it had -/
def KeptC (orig : Bk) : Nat → List Bytes → Bk → Prop
  | 0, _, _ => False
  | f+1, path, .mk _ _ t o =>
    (∀ n ∈ sub t, n.hd.pgid ≠ 0 → (∃ ob, bkAt path orig = some ob ∧ n ∈ sub ob.tree) ∧
      ∀ e ∈ flatten n, e.flags % 2 = 1 → ∀ p ∈ o, p.1 = e.key → SameO orig path e.key p.2) ∧
    (∀ p ∈ o, KeptC orig f (path ++ [p.1]) p.2)

theorem keptC_succ (orig : Bk) (f : Nat) (path : List Bytes) (r s : Nat) (t : N) (o : List (Bytes × Bk)) :
    KeptC orig (f+1) path (.mk r s t o) ↔
    ((∀ n ∈ sub t, n.hd.pgid ≠ 0 → (∃ ob, bkAt path orig = some ob ∧ n ∈ sub ob.tree) ∧
      ∀ e ∈ flatten n, e.flags % 2 = 1 → ∀ p ∈ o, p.1 = e.key → SameO orig path e.key p.2) ∧
    (∀ p ∈ o, KeptC orig f (path ++ [p.1]) p.2)) := by
  rw [KeptC]

/-- the invariant of the fold over the opened sub-buckets: `done` have been spilled, `rest` not yet -/
def J (G : N → Prop) (Q : Bytes → Bk → Prop) (t : N) (done rest : List (Bytes × Bk)) : Prop :=
  ∀ n ∈ fz t, n.hd.pgid ≠ 0 → G n ∧ ∀ e ∈ flatten n, e.flags % 2 = 1 →
    (∀ p ∈ done, p.1 = e.key → Q e.key p.2) ∧
    (∀ p ∈ rest, p.1 = e.key → p.2.tree.hd.mat = false → Q e.key p.2)

theorem foldl_spillStep_none (ps fu : Nat) (g : Bk → Option (Bk × Bool)) :
    ∀ (o : List (Bytes × Bk)), o.foldl (spillStep ps fu g) none = none
  | [] => rfl
  | p :: r => by rw [List.foldl_cons]; exact foldl_spillStep_none ps fu g r

theorem seekItem_nodeAt {k : Bytes} {fu : Nat} {t : N} {it : Item} (h : seekItem k fu t = some it) :
    ∃ lf, nodeAt (searchPath k fu t) t = some lf ∧ it ∈ flatten lf := by
  unfold seekItem at h
  split at h
  · rename_i hd items hn
    exact ⟨_, hn, by rw [OpsL.flatten_leaf]; exact List.mem_of_getElem? h⟩
  · cases h

theorem modifyAt_putF_mat (k v : Bytes) (fl : Nat) : ∀ (path : List Nat) (t t' : N),
    modifyAt (leafPutF k v fl) path t = some t' → t'.hd.mat = true
  | [], t, t', h => by
    rw [OpsL.modifyAt_nil] at h
    have hm := materialize_mat t
    cases hmt : materialize t with
    | leaf hd items =>
      rw [hmt] at h hm
      rw [leafPutF_eq] at h; cases h; exact hm
    | branch hd kids => rw [hmt, leafPutF] at h; cases h
  | i :: rest, .leaf hd items, t', h => by
    rw [modifyAt, OpsL.materialize_leaf] at h; cases h
  | i :: rest, .branch hd kids, t', h => by
    cases hg : kids[i]? with
    | none => rw [modifyAt, OpsL.materialize_branch] at h; simp only [hg] at h; cases h
    | some p =>
      obtain ⟨s, c⟩ := p
      rw [OpsL.modifyAt_branch _ i rest hd kids s c hg] at h
      obtain ⟨c', _, rfl⟩ := Option.map_eq_some_iff.mp h
      exact OpsL.mhd_mat _ _

theorem foldl_spillStep_cow (ps fu : Nat) (g : Bk → Option (Bk × Bool)) (G : N → Prop) (Q : Bytes → Bk → Prop)
    (R : Bytes → Bk → Bk → Prop) (nf0 : List (Bytes × Bool × Bytes)) (d : Nat) (hd : d ≤ fu) :
    ∀ (o : List (Bytes × Bk)) (t : N) (done : List (Bytes × Bk)) (t1 : N) (res : List (Bytes × Bk)),
    TreeInv nf0 d t → (∀ p ∈ o, p.1 ∈ namesOf nf0) →
    (∀ p ∈ o, ∀ c had vlen, childRes ps g p.2 = some (c, had, vlen) →
      R p.1 p.2 c ∧ (had = false → p.2.tree.hd.mat = false ∧ ∀ k, Q k p.2 → Q k c)) →
    J G Q t done o →
    o.foldl (spillStep ps fu g) (some (t, done)) = some (t1, res) →
    ∃ o', res = done ++ o' ∧ Rel2 R o o' ∧ TreeInv nf0 d t1 ∧ J G Q t1 res [] ∧ (t1 = t ∨ t1.hd.mat = true)
  | [], t, done, t1, res, ht, _, _, hJ, h => by
    simp only [List.foldl_nil, Option.some.injEq, Prod.mk.injEq] at h
    obtain ⟨rfl, rfl⟩ := h
    exact ⟨[], by simp, .nil, ht, hJ, Or.inl rfl⟩
  | p :: r, t, done, t1, res, ht, hn, hch, hJ, h => by
    rw [List.foldl_cons] at h
    have hnr := fun q hq => hn q (List.mem_cons_of_mem _ hq)
    have hchr := fun q hq => hch q (List.mem_cons_of_mem _ hq)
    cases hc : childRes ps g p.2 with
    | none =>
      have : spillStep ps fu g (some (t, done)) p = none := by simp only [spillStep, hc]
      rw [this, foldl_spillStep_none] at h; cases h
    | some cr =>
      obtain ⟨c, had, vlen⟩ := cr
      obtain ⟨hR, hh⟩ := hch p (List.mem_cons_self ..) c had vlen hc
      cases had with
      | false =>
        obtain ⟨hm, hQ⟩ := hh rfl
        have e : spillStep ps fu g (some (t, done)) p = some (t, done ++ [(p.1, c)]) := by
          simp only [spillStep, hc, Bool.not_false, if_true]
        rw [e] at h
        have hJ' : J G Q t (done ++ [(p.1, c)]) r := by
          intro n hnz h0
          obtain ⟨hG, hE⟩ := hJ n hnz h0
          refine ⟨hG, ?_⟩
          intro e he hfl
          obtain ⟨hE1, hE2⟩ := hE e he hfl
          refine ⟨?_, fun q hq => hE2 q (List.mem_cons_of_mem _ hq)⟩
          intro q hq hqe
          rcases List.mem_append.mp hq with hq | hq
          · exact hE1 q hq hqe
          · rw [List.mem_singleton] at hq
            subst hq
            exact hQ _ (hE2 p (List.mem_cons_self ..) hqe hm)
        obtain ⟨o', e1, hrel, ht1, hJ1, hroot⟩ :=
          foldl_spillStep_cow ps fu g G Q R nf0 d hd r t (done ++ [(p.1, c)]) t1 res ht hnr hchr hJ' h
        exact ⟨(p.1, c) :: o', by rw [e1]; simp, .cons ⟨rfl, hR⟩ hrel, ht1, hJ1, hroot⟩
      | true =>
        obtain ⟨hi, hu, hdt, hnf⟩ := ht
        obtain ⟨it, t', hs, hk, hfl, hmod, hi', hu', hd', hnf'⟩ := rewrite_ok fu t p.1 vlen hi hu (by omega)
          (by rw [bucketNames_nf, hnf]; exact hn p (List.mem_cons_self ..))
        have e : spillStep ps fu g (some (t, done)) p = some (t', done ++ [(p.1, c)]) := by
          simp only [spillStep, hc, Bool.not_true, Bool.false_eq_true, if_false, hs, hk, hfl, and_self,
            if_true, hmod, Option.map_some]
        rw [e] at h
        obtain ⟨lf, hlf, hitlf⟩ := seekItem_nodeAt hs
        have hJ' : J G Q t' (done ++ [(p.1, c)]) r := by
          intro n hnz h0
          have hnz' := modifyAt_fz _ (leafPutF_fz p.1 (zeros vlen) 1) _ t t' hmod n hnz
          obtain ⟨hG, hE⟩ := hJ n hnz' h0
          refine ⟨hG, ?_⟩
          intro e he hfl'
          obtain ⟨hE1, hE2⟩ := hE e he hfl'
          have hne := modifyAt_fz_nokey _ p.1 (leafPutF_fz_nil p.1 (zeros vlen) 1) _ t t' lf
            (inTx_sortedI t hi) hlf ⟨it, hitlf, hk⟩ hmod n hnz e he
          refine ⟨?_, fun q hq => hE2 q (List.mem_cons_of_mem _ hq)⟩
          intro q hq hqe
          rcases List.mem_append.mp hq with hq | hq
          · exact hE1 q hq hqe
          · rw [List.mem_singleton] at hq
            subst hq
            exact absurd hqe.symm hne
        obtain ⟨o', e1, hrel, ht1, hJ1, hroot⟩ :=
          foldl_spillStep_cow ps fu g G Q R nf0 d hd r t' (done ++ [(p.1, c)]) t1 res
            ⟨hi', hu', by omega, by rw [hnf', hnf]⟩ hnr hchr hJ' h
        refine ⟨(p.1, c) :: o', by rw [e1]; simp, .cons ⟨rfl, hR⟩ hrel, ht1, hJ1, Or.inr ?_⟩
        have hm' := modifyAt_putF_mat _ _ _ _ t t' hmod
        rcases hroot with rfl | hroot
        · exact hm'
        · exact hroot

/-- a bucket that is written inline has no opened sub-bucket -/
theorem inlineable_no_opened (orig : Bk) (ps fu f : Nat) (path : List Bytes) (r s : Nat) (t : N)
    (o : List (Bytes × Bk)) (h : midOk orig fu (f+1) path (.mk r s t o))
    (hin : inlineableBk ps (.mk r s t o) = true) : ∃ hd items, t = .leaf hd items ∧ o = [] := by
  cases t with
  | branch hd kids => simp [inlineableBk, Bk.tree] at hin
  | leaf hd items =>
    rw [midOk] at h
    obtain ⟨_, _, _, h4, _⟩ := h
    simp only [inlineableBk, Bk.tree, Bool.and_eq_true, Node.inlineable] at hin
    have hnb : bucketNames (.leaf hd items) = [] := by
      unfold bucketNames
      rw [OpsL.flatten_leaf, List.filterMap_eq_nil_iff]
      intro i hi
      have := inlineableAux_no_bucket _ _ _ hin.2 _ (List.mem_map.mpr ⟨i, hi, rfl⟩)
      simp only [beq_eq_false_iff_ne, ne_eq] at this
      rw [if_neg this]
    refine ⟨hd, items, rfl, ?_⟩
    cases o with
    | nil => rfl
    | cons p r =>
      have := (h4 p (List.mem_cons_self ..)).1
      rw [hnb] at this; cases this

/-- **`Bucket.spill` is copy-on-write at bucket level** -/
theorem spillBk_cow (orig : Bk) (ps sth fu : Nat) : ∀ (f : Nat) (path : List Bytes) (b b' : Bk) (had : Bool),
    midOk orig fu f path b → CowBk orig f path b → spillBk ps sth fu f b = some (b', had) →
    KeptC orig f path b' ∧
      (had = false → b.tree.hd.mat = false ∧ b'.root = b.root ∧ b'.seq = b.seq ∧ b'.tree = b.tree)
  | 0, _, _, _, _, h, _, _ => by rw [midOk] at h; exact h.elim
  | f+1, path, .mk r s t o, b', had, hmid, hc, h => by
    have hmid0 := hmid
    rw [midOk] at hmid
    obtain ⟨h1, h2, h3, h4, h5⟩ := hmid
    obtain ⟨hc1, hc2⟩ := (cowBk_succ ..).mp hc
    rw [spillBk_succ] at h
    cases efold : o.foldl (spillStep ps fu (spillBk ps sth fu f)) (some (t, [])) with
    | none => rw [efold] at h; cases h
    | some res0 =>
      obtain ⟨t1, o1⟩ := res0
      rw [efold] at h
      simp only at h
      obtain ⟨o', e1, hrel, ⟨hi1, _, _, _⟩, hJ1, hroot⟩ := foldl_spillStep_cow ps fu (spillBk ps sth fu f)
        (fun n => ∃ ob, bkAt path orig = some ob ∧ n ∈ sub ob.tree) (SameO orig path)
        (fun k _ c' => KeptC orig f (path ++ [k]) c') (nf t) (depth t) (by omega)
        o t [] t1 o1 ⟨h1, h2, rfl, rfl⟩
        (fun p hp => by rw [← bucketNames_nf]; exact (h4 p hp).1)
        (by
          intro p hp c hd vlen hcr
          obtain ⟨_, hp2⟩ := h4 p hp
          unfold childRes at hcr
          by_cases hin : inlineableBk ps p.2 = true
          · rw [if_pos hin] at hcr
            simp only [Option.some.injEq, Prod.mk.injEq] at hcr
            obtain ⟨rfl, rfl, _⟩ := hcr
            refine ⟨?_, fun h => by cases h⟩
            cases f with
            | zero => rw [midOk] at hp2; exact hp2.elim
            | succ f' =>
              obtain ⟨pn, r', s', t', o''⟩ := p
              obtain ⟨hd', items, rfl, rfl⟩ := inlineable_no_opened orig ps fu f' _ r' s' t' o'' hp2 hin
              show KeptC orig (f'+1) _ (.mk 0 s' (.leaf written items) [])
              rw [keptC_succ]
              refine ⟨?_, fun q hq => by cases hq⟩
              intro n hn h0
              rw [sub_leaf, List.mem_singleton] at hn
              subst hn
              exact absurd rfl h0
          · rw [if_neg hin] at hcr
            obtain ⟨cr, hcr1, hcr2⟩ := Option.map_eq_some_iff.mp hcr
            obtain ⟨c0, had0⟩ := cr
            simp only [Prod.mk.injEq] at hcr2
            obtain ⟨rfl, rfl, _⟩ := hcr2
            obtain ⟨k1, k2⟩ := spillBk_cow orig ps sth fu f (path ++ [p.1]) p.2 c0 had0 hp2 (hc2 p hp) hcr1
            refine ⟨k1, ?_⟩
            intro hf
            obtain ⟨g1, g2, g3, g4⟩ := k2 hf
            exact ⟨g1, fun k hq => SameO_congr hq g2 g3 g4⟩)
        (by
          intro n hn h0
          obtain ⟨hG, hE⟩ := hc1 n hn h0
          exact ⟨hG, fun e he hfl => ⟨fun q hq => (by cases hq), hE e he hfl⟩⟩)
        efold
      rw [List.nil_append] at e1
      subst e1
      have hkids : ∀ q ∈ o1, KeptC orig f (path ++ [q.1]) q.2 := by
        intro q hq
        obtain ⟨p, _, hqp, hk⟩ := rel2_mem_right hrel q hq
        rw [hqp]; exact hk
      by_cases hm : t1.hd.mat = true
      · simp only [hm, Bool.not_true, Bool.false_eq_true, if_false] at h
        obtain ⟨t2, e2, he⟩ := Option.map_eq_some_iff.mp h
        simp only [Prod.mk.injEq] at he
        obtain ⟨rfl, rfl⟩ := he
        refine ⟨?_, fun h => by cases h⟩
        rw [keptC_succ]
        refine ⟨?_, hkids⟩
        intro n hn h0
        have hnz := spillRoot_cow ps sth fu t1 t2 hi1 e2 n hn h0
        obtain ⟨hG, hE⟩ := hJ1 n hnz h0
        exact ⟨hG, fun e he hfl => (hE e he hfl).1⟩
      · have hm' : t1.hd.mat = false := by simpa using hm
        simp only [hm', Bool.not_false, if_true, Option.some.injEq, Prod.mk.injEq] at h
        obtain ⟨rfl, rfl⟩ := h
        have ht1 : t1 = t := by
          rcases hroot with h | h
          · exact h
          · rw [hm'] at h; cases h
        subst ht1
        refine ⟨?_, fun _ => ⟨hm', rfl, rfl, rfl⟩⟩
        rw [keptC_succ]
        refine ⟨?_, hkids⟩
        intro n hn h0
        rw [← fz_not_mat hm'] at hn
        obtain ⟨hG, hE⟩ := hJ1 n hn h0
        exact ⟨hG, fun e he hfl => (hE e he hfl).1⟩


/-! ### E. `full`: the bucket tree the next transaction reads -/

/-- the buckets of a bucket tree, at every depth -/
inductive Reach (orig : Bk) : Bk → Prop
  | root : Reach orig orig
  | step {o : Bk} {p : Bytes × Bk} : Reach orig o → p ∈ o.opened → Reach orig p.2

theorem bkAt_reach (orig : Bk) : ∀ (path : List Bytes) (b o : Bk), Reach orig b → bkAt path b = some o →
    Reach orig o
  | [], b, o, hr, h => by rw [bkAt_nil] at h; cases h; exact hr
  | k :: rest, b, o, hr, h => by
    rw [bkAt_cons] at h
    cases hl : lookupBk k b.opened with
    | none => rw [hl] at h; cases h
    | some c =>
      rw [hl] at h
      exact bkAt_reach orig rest c o (Reach.step hr (lookupBk_mem hl)) h

theorem bkAt_snoc (k : Bytes) : ∀ (path : List Bytes) (b : Bk),
    bkAt (path ++ [k]) b = (bkAt path b).bind (fun o => lookupBk k o.opened)
  | [], b => by
    rw [List.nil_append, bkAt_cons, bkAt_nil, Option.bind_some]
    cases lookupBk k b.opened with
    | none => rfl
    | some c => rw [Option.bind_some, bkAt_nil]
  | n :: rest, b => by
    rw [List.cons_append, bkAt_cons, bkAt_cons]
    cases lookupBk n b.opened with
    | none => rfl
    | some c => rw [Option.bind_some, Option.bind_some, bkAt_snoc k rest c]

/-- the committed bucket tree with every nested bucket attached: a node that has a page is a node
    of the tree of a bucket of `orig`, and every nested bucket whose element lies on it has the
    root, sequence and tree of the nested bucket of that name there -/
def KeptF (orig : Bk) : Nat → Bk → Prop
  | 0, _ => True
  | F+1, .mk _ _ t o =>
    (∀ n ∈ sub t, n.hd.pgid ≠ 0 → ∃ ob, Reach orig ob ∧ n ∈ sub ob.tree ∧
      ∀ e ∈ flatten n, e.flags % 2 = 1 → ∃ ca oc, lookupBk e.key o = some ca ∧
        lookupBk e.key ob.opened = some oc ∧ ca.root = oc.root ∧ ca.seq = oc.seq ∧ ca.tree = oc.tree) ∧
    ∀ p ∈ o, KeptF orig F p.2

theorem keptF_succ (orig : Bk) (F r s : Nat) (t : N) (o : List (Bytes × Bk)) :
    KeptF orig (F+1) (.mk r s t o) ↔
    ((∀ n ∈ sub t, n.hd.pgid ≠ 0 → ∃ ob, Reach orig ob ∧ n ∈ sub ob.tree ∧
      ∀ e ∈ flatten n, e.flags % 2 = 1 → ∃ ca oc, lookupBk e.key o = some ca ∧
        lookupBk e.key ob.opened = some oc ∧ ca.root = oc.root ∧ ca.seq = oc.seq ∧ ca.tree = oc.tree) ∧
    ∀ p ∈ o, KeptF orig F p.2) := by
  rw [KeptF]

theorem reach_origOk (orig : Bk) (fu : Nat) (ho : origOk fu orig = true) : ∀ {ob : Bk}, Reach orig ob →
    ∃ g, origOkG true g ob = true := by
  intro ob h
  induction h with
  | root => exact ⟨fu, ho⟩
  | @step o p _ hp ih =>
    obtain ⟨g, hg⟩ := ih
    cases g with
    | zero => rw [origOkG_zero] at hg; cases hg
    | succ g' =>
      obtain ⟨r, s, t, oo⟩ := o
      exact ⟨g', ((origOkG_succ ..).mp hg).2.2.2.2 p hp⟩

/-- a bucket of `orig` is such a bucket tree -/
theorem keptF_orig (orig : Bk) (fu : Nat) (ho : origOk fu orig = true) : ∀ (F : Nat) (ob : Bk),
    Reach orig ob → KeptF orig F ob
  | 0, ob, _ => by cases ob; rw [KeptF]; trivial
  | F+1, .mk r s t o, hr => by
    obtain ⟨g, hg⟩ := reach_origOk orig fu ho hr
    cases g with
    | zero => rw [origOkG_zero] at hg; cases hg
    | succ g' =>
      obtain ⟨_, _, _, hnames, _⟩ := (origOkG_succ ..).mp hg
      rw [keptF_succ]
      refine ⟨?_, fun p hp => keptF_orig orig fu ho F p.2 (Reach.step hr hp)⟩
      intro n hn _
      refine ⟨_, hr, hn, ?_⟩
      intro e he hfl
      have hk : e.key ∈ bucketNames t := Bolt.FormatBkL.mem_bucketNames (sub_flatten t n hn e he) hfl
      rw [← hnames] at hk
      obtain ⟨c, hc⟩ := Bolt.FormatBkL.lookupBk_of_name hk
      exact ⟨c, c, hc, hc, rfl, rfl, rfl⟩

theorem full_fields (orig : Bk) (f : Nat) (path : List Bytes) (c : Bk) :
    (full orig f path c).root = c.root ∧ (full orig f path c).seq = c.seq ∧ (full orig f path c).tree = c.tree := by
  cases f with
  | zero => cases c; rw [full]; exact ⟨rfl, rfl, rfl⟩
  | succ f => obtain ⟨r, s, t, o⟩ := c; rw [full_succ]; exact ⟨rfl, rfl, rfl⟩

theorem outOk_succ (orig : Bk) (f : Nat) (path : List Bytes) (r s : Nat) (t : N) (o : List (Bytes × Bk)) :
    outOk orig (f+1) path (.mk r s t o) ↔
    (Committed t ∧ (∀ p ∈ o, outOk orig f (path ++ [p.1]) p.2) ∧
    (∀ n ∈ bucketNames t, (lookupBk n o).isSome = true ∨ (bkAt (path ++ [n]) orig).isSome = true)) := by
  rw [outOk]

/-- **`full` of what `Bucket.spill` leaves** -/
theorem full_kept (orig : Bk) (fu : Nat) (ho : origOk fu orig = true) : ∀ (f : Nat) (path : List Bytes) (c : Bk),
    outOk orig f path c → KeptC orig f path c → ∀ F, KeptF orig F (full orig f path c)
  | 0, _, _, h, _, _ => by rw [outOk] at h; exact h.elim
  | f+1, path, .mk r s t o, hout, hk, 0 => by rw [full_succ, KeptF]; trivial
  | f+1, path, .mk r s t o, hout, hk, F+1 => by
    obtain ⟨_, hch, hnames⟩ := (outOk_succ ..).mp hout
    obtain ⟨hk1, hk2⟩ := (keptC_succ ..).mp hk
    have hg : ∀ n q, kidOf orig f path o n = some q → q.1 = n := fun n q h => kidOf_fst h
    have hsome : ∀ n ∈ bucketNames t, (kidOf orig f path o n).isSome = true := by
      intro n hn
      unfold kidOf
      cases hl : lookupBk n o with
      | some c => rfl
      | none =>
        rcases hnames n hn with h | h
        · rw [hl] at h; cases h
        · simp only [Option.isSome_map]; exact h
    rw [full_succ, keptF_succ]
    refine ⟨?_, ?_⟩
    · intro n hn h0
      obtain ⟨⟨ob, hob, hnob⟩, hE⟩ := hk1 n hn h0
      refine ⟨ob, bkAt_reach orig path orig ob Reach.root hob, hnob, ?_⟩
      intro e he hfl
      have hkn : e.key ∈ bucketNames t := Bolt.FormatBkL.mem_bucketNames (sub_flatten t n hn e he) hfl
      have hlk := fm_lookup _ hg e.key _ hsome hkn
      cases hl : lookupBk e.key o with
      | some c =>
        have e1 : kidOf orig f path o e.key = some (e.key, full orig f (path ++ [e.key]) c) := by
          unfold kidOf; rw [hl]
        rw [e1] at hlk
        obtain ⟨ob', oc, hob', hoc, g1, g2, g3⟩ := hE e he hfl (e.key, c) (lookupBk_mem hl) rfl
        rw [hob] at hob'; cases hob'
        obtain ⟨f1, f2, f3⟩ := full_fields orig f (path ++ [e.key]) c
        exact ⟨_, oc, hlk, hoc, f1.trans g1, f2.trans g2, f3.trans g3⟩
      | none =>
        rcases hnames e.key hkn with h | h
        · rw [hl] at h; cases h
        · obtain ⟨c, hc'⟩ := Option.isSome_iff_exists.mp h
          have e1 : kidOf orig f path o e.key = some (e.key, c) := by
            unfold kidOf; rw [hl, hc']; rfl
          rw [e1] at hlk
          rw [bkAt_snoc, hob, Option.bind_some] at hc'
          exact ⟨c, c, hlk, hc', rfl, rfl, rfl⟩
    · intro q hq
      obtain ⟨n, hn, hq⟩ := List.mem_filterMap.mp hq
      unfold kidOf at hq
      cases hl : lookupBk n o with
      | some c =>
        rw [hl] at hq
        cases hq
        have hm := lookupBk_mem hl
        exact full_kept orig fu ho f (path ++ [n]) c (hch _ hm) (hk2 _ hm) F
      | none =>
        rw [hl] at hq
        cases hb : bkAt (path ++ [n]) orig with
        | none => rw [hb] at hq; cases hq
        | some c =>
          rw [hb] at hq
          cases hq
          exact keptF_orig orig fu ho F c (bkAt_reach orig _ orig c Reach.root hb)


/-! ### the commit of the root bucket -/

/-- inline buckets of the start-of-transaction state carry page id 0 on their leaf (`page.id` of
    an inline page is 0) -/
def InlZero : Nat → Bk → Prop
  | 0, _ => True
  | f+1, b => (b.root = 0 → b.tree.hd.pgid = 0) ∧ ∀ p ∈ b.opened, InlZero f p.2


/-- `InlZero` as a check the engines can evaluate -/
def inlZeroB : Nat → Bk → Bool
  | 0, _ => true
  | f+1, b => (b.root != 0 || b.tree.hd.pgid == 0) && b.opened.all (fun p => inlZeroB f p.2)

theorem inlZero_of_check : ∀ (f : Nat) (b : Bk), inlZeroB f b = true → InlZero f b
  | 0, b, _ => by rw [InlZero]; trivial
  | f+1, b, h => by
    rw [inlZeroB] at h
    simp only [Bool.and_eq_true, Bool.or_eq_true, bne_iff_ne, ne_eq, beq_iff_eq, List.all_eq_true] at h
    rw [InlZero]
    refine ⟨fun hr => ?_, fun p hp => inlZero_of_check f p.2 (h.2 p hp)⟩
    rcases h.1 with h1 | h1
    · exact absurd hr h1
    · exact h1

/-- **copy-on-write at bucket level**: what `commitRoot` leaves, with every nested bucket attached -/
theorem commitRoot_kept (ps sth rth fu : Nat) (orig cur cur' : Bk) (order : List Nat)
    (hw : WF fu orig cur) (hf : fuelOk' fu fu cur = true) (hc : ∀ pg ∈ allMat fu fu cur, pg ∈ order)
    (hcow : CowBk orig fu [] cur)
    (hcm : commitRoot ps sth rth fu order cur = some cur') : ∀ F, KeptF orig F (full orig fu [] cur') := by
  obtain ⟨ho, hcur⟩ := hw
  obtain ⟨b1, e1, hmid, _⟩ := rebalanceBk_ok orig rth fu order fu [] cur (Nat.le_refl _) hcur hf hc
  obtain ⟨b2, had, e2, hout, _⟩ := spillBk_ok orig ps sth fu fu [] b1 hmid
  have e : cur' = b2 := by
    unfold commitRoot at hcm
    rw [e1, Option.bind_some, e2] at hcm
    cases hcm; rfl
  subst e
  have hc1 := rebalanceBk_cow orig rth fu order fu [] cur b1 hcow e1
  obtain ⟨hk, _⟩ := spillBk_cow orig ps sth fu fu [] b1 cur' had hmid hc1 e2
  exact full_kept orig fu ho fu [] cur' hout hk


/-! ### G. the calls of a transaction keep the invariant -/

/-- a bucket of `orig` as it is opened (`Bucket.Bucket`: the cache of the new `Bucket` is empty) -/
theorem cowBk_closeAll_at (orig : Bk) : ∀ (f : Nat) (path : List Bytes) (c : Bk), bkAt path orig = some c →
    CowBk orig f path (closeAll c)
  | 0, path, c, _ => cowBk_zero ..
  | f+1, path, .mk r s t o, h => by
    show CowBk orig (f+1) path (.mk r s t [])
    rw [cowBk_succ]
    refine ⟨?_, fun p hp => by cases hp⟩
    intro n hn _
    exact ⟨⟨_, h, fz_sub t n hn⟩, fun e _ _ p hp => by cases hp⟩

/-- **the invariant holds when the transaction begins** -/
theorem cowBk_closeAll (orig : Bk) (fu : Nat) : CowBk orig fu [] (closeAll orig) :=
  cowBk_closeAll_at orig fu [] orig (bkAt_nil orig)

/-- a call either materialises the root node of the bucket it works on or leaves root page,
    sequence and tree as they are -/
def RootKept (b b' : Bk) : Prop :=
  b'.tree.hd.mat = false → b.tree.hd.mat = false ∧ b'.root = b.root ∧ b'.seq = b.seq ∧ b'.tree = b.tree

theorem setOpened_root (o : List (Bytes × Bk)) (b : Bk) : (b.setOpened o).root = b.root := by cases b; rfl

theorem modifyBk_rootKept (g : Bk → Option Bk) : ∀ (p : List Bytes) (c c' b b' : Bk), bkAt p c = some b →
    modifyBk g p c = some c' → g b = some b' → RootKept b b' → RootKept c c'
  | [], c, c', b, b', h, hm, hg, hr => by
    rw [bkAt_nil] at h; cases h
    rw [BktOpsL.modifyBk_nil, hg] at hm; cases hm
    exact hr
  | n :: rest, c, c', b, b', h, hm, hg, hr => by
    obtain ⟨ch, h1, h2⟩ := BktOpsL.bkAt_cons_some h
    rw [BktOpsL.modifyBk_cons g n rest c ch h1] at hm
    obtain ⟨ch', _, rfl⟩ := Option.map_eq_some_iff.mp hm
    intro hmat
    rw [BktOpsL.setOpened_tree] at hmat ⊢
    exact ⟨hmat, setOpened_root .., BktOpsL.setOpened_seq .., rfl⟩

/-- a call on the bucket at path `p` that keeps the invariant there keeps it on the whole state -/
theorem cowBk_modify (orig : Bk) (g : Bk → Option Bk) : ∀ (p : List Bytes) (f : Nat) (pre : List Bytes)
    (c c' b b' : Bk), CowBk orig (f + p.length) pre c → curOk orig (f + p.length) pre c = true →
    bkAt p c = some b → modifyBk g p c = some c' → g b = some b' →
    (curOk orig f (pre ++ p) b = true → CowBk orig f (pre ++ p) b → CowBk orig f (pre ++ p) b') →
    RootKept b b' → CowBk orig (f + p.length) pre c'
  | [], f, pre, c, c', b, b', hcow, hc, h, hm, hg, hstep, _ => by
    rw [bkAt_nil] at h; cases h
    rw [BktOpsL.modifyBk_nil, hg] at hm; cases hm
    rw [List.append_nil] at hstep
    exact hstep hc hcow
  | n :: rest, f, pre, .mk r s t o, c', b, b', hcow, hc, h, hm, hg, hstep, hroot => by
    obtain ⟨ch, h1, h2⟩ := BktOpsL.bkAt_cons_some h
    rw [BktOpsL.modifyBk_cons g n rest _ ch h1] at hm
    obtain ⟨ch', hm', rfl⟩ := Option.map_eq_some_iff.mp hm
    have e : pre ++ [n] ++ rest = pre ++ n :: rest := by simp
    obtain ⟨_, _, _, _, _, c6, _⟩ := (BktOpsL.curOk_succ orig (f + rest.length) pre _).mp hc
    have hmem : (n, ch) ∈ o := lookupBk_mem h1
    have hch := c6 _ hmem
    obtain ⟨hc1, hc2⟩ := (cowBk_succ orig (f + rest.length) pre r s t o).mp hcow
    have ih := cowBk_modify orig g rest f (pre ++ [n]) ch ch' b b' (hc2 _ hmem) hch.2 h2 hm' hg
      (by rw [e]; exact hstep) hroot
    have hrk := modifyBk_rootKept g rest ch ch' b b' h2 hm' hg hroot
    show CowBk orig (f + rest.length + 1) pre (.mk r s t (o.map _))
    rw [cowBk_succ]
    refine ⟨?_, ?_⟩
    · intro n0 hn0 h0
      obtain ⟨hG, hE⟩ := hc1 n0 hn0 h0
      refine ⟨hG, ?_⟩
      intro e0 he0 hfl q hq hqe hqm
      obtain ⟨q0, hq0, rfl⟩ := List.mem_map.mp hq
      by_cases hqn : q0.1 = n
      · simp only [hqn, beq_self_eq_true, if_true] at hqe hqm
        obtain ⟨g1, g2, g3, g4⟩ := hrk hqm
        simp only [hqn, beq_self_eq_true, if_true]
        exact SameO_congr (hE e0 he0 hfl (n, ch) hmem hqe g1) g2 g3 g4
      · have : (q0.1 == n) = false := by simpa using hqn
        simp only [this, Bool.false_eq_true, if_false] at hqe hqm ⊢
        exact hE e0 he0 hfl q0 hq0 hqe hqm
    · intro q hq
      obtain ⟨q0, hq0, rfl⟩ := List.mem_map.mp hq
      by_cases hqn : q0.1 = n
      · simp only [hqn, beq_self_eq_true, if_true]
        exact ih
      · have : (q0.1 == n) = false := by simpa using hqn
        simp only [this, Bool.false_eq_true, if_false]
        exact hc2 q0 hq0

/-- fewer frozen nodes, fewer opened buckets -/
theorem cowBk_shrink (orig : Bk) (f : Nat) (path : List Bytes) (r s : Nat) (t : N) (o : List (Bytes × Bk))
    (r' s' : Nat) (t' : N) (o' : List (Bytes × Bk)) (hc : CowBk orig f path (.mk r s t o))
    (ht : ∀ x ∈ fz t', x ∈ fz t) (ho : ∀ p ∈ o', p ∈ o) : CowBk orig f path (.mk r' s' t' o') := by
  cases f with
  | zero => exact cowBk_zero ..
  | succ f =>
    obtain ⟨hc1, hc2⟩ := (cowBk_succ ..).mp hc
    rw [cowBk_succ]
    refine ⟨?_, fun p hp => hc2 p (ho p hp)⟩
    intro n hn h0
    obtain ⟨hG, hE⟩ := hc1 n (ht n hn) h0
    exact ⟨hG, fun e he hfl p hp => hE e he hfl p (ho p hp)⟩

/-- fewer frozen nodes, one more opened bucket -/
theorem cowBk_add (orig : Bk) (f : Nat) (path : List Bytes) (r s : Nat) (t : N) (o : List (Bytes × Bk))
    (r' s' : Nat) (t' : N) (o' : List (Bytes × Bk)) (name : Bytes) (cn : Bk)
    (hc : CowBk orig (f+1) path (.mk r s t o))
    (ht : ∀ x ∈ fz t', x ∈ fz t) (ho : ∀ p ∈ o', p ∈ o ∨ p = (name, cn))
    (hcn : CowBk orig f (path ++ [name]) cn)
    (hnew : ∀ n ∈ fz t', ∀ e ∈ flatten n, e.flags % 2 = 1 → e.key = name → SameO orig path name cn) :
    CowBk orig (f+1) path (.mk r' s' t' o') := by
  obtain ⟨hc1, hc2⟩ := (cowBk_succ ..).mp hc
  rw [cowBk_succ]
  refine ⟨?_, ?_⟩
  · intro n hn h0
    obtain ⟨hG, hE⟩ := hc1 n (ht n hn) h0
    refine ⟨hG, ?_⟩
    intro e he hfl p hp hpe hpm
    rcases ho p hp with hp | rfl
    · exact hE e he hfl p hp hpe hpm
    · have := hnew n hn e he hfl hpe.symm
      rw [← hpe]; exact this
  · intro p hp
    rcases ho p hp with hp | rfl
    · exact hc2 p hp
    · exact hcn

theorem modifyAt_root_mat (g : N → Option N)
    (hg : ∀ n n', n.hd.mat = true → g n = some n' → n'.hd.mat = true) : ∀ (path : List Nat) (t t' : N),
    modifyAt g path t = some t' → t'.hd.mat = true
  | [], t, t', h => by
    rw [OpsL.modifyAt_nil] at h
    exact hg _ _ (materialize_mat t) h
  | i :: rest, .leaf hd items, t', h => by
    rw [modifyAt, OpsL.materialize_leaf] at h; cases h
  | i :: rest, .branch hd kids, t', h => by
    cases hk : kids[i]? with
    | none => rw [modifyAt, OpsL.materialize_branch] at h; simp only [hk] at h; cases h
    | some p =>
      obtain ⟨s, c⟩ := p
      rw [OpsL.modifyAt_branch _ i rest hd kids s c hk] at h
      obtain ⟨c', _, rfl⟩ := Option.map_eq_some_iff.mp h
      exact OpsL.mhd_mat _ _

theorem leafPut_mat (k v : Bytes) : ∀ n n', n.hd.mat = true → leafPut k v n = some n' → n'.hd.mat = true
  | .leaf h items, n', hm, e => by rw [OpsL.leafPut_eq] at e; cases e; exact hm
  | .branch _ _, n', _, e => by simp [leafPut] at e

theorem leafDel_mat (k : Bytes) : ∀ n n', n.hd.mat = true → leafDel k n = some n' → n'.hd.mat = true
  | .leaf h items, n', hm, e => by
    unfold leafDel at e
    simp only at e
    split at e <;> cases e <;> exact hm
  | .branch _ _, n', _, e => by simp [leafDel] at e

theorem putT_root (fuel : Nat) (t t' : N) (k v : Bytes) (h : putT fuel t k v = some t')
    (hm : t'.hd.mat = false) : t' = t := by
  unfold putT at h
  split at h
  · split at h
    · cases h; rfl
    · have := modifyAt_root_mat _ (leafPut_mat k v) _ _ _ h
      rw [hm] at this; cases this
  · have := modifyAt_root_mat _ (leafPut_mat k v) _ _ _ h
    rw [hm] at this; cases this

theorem delT_root (fuel : Nat) (t t' : N) (k : Bytes) (h : delT fuel t k = some t')
    (hm : t'.hd.mat = false) : t' = t := by
  unfold delT at h
  split at h
  · split at h
    · have := modifyAt_root_mat _ (leafDel_mat k) _ _ _ h
      rw [hm] at this; cases this
    · cases h; rfl
  · cases h; rfl

/-! the seven kinds of calls, on the bucket they address -/

theorem putAt_cow (orig : Bk) (fu f : Nat) (path : List Bytes) (k v : Bytes) (b b' : Bk)
    (hc : CowBk orig f path b) (h : putAt fu k v b = some b') : CowBk orig f path b' := by
  obtain ⟨r, s, t, o⟩ := b
  unfold putAt at h
  obtain ⟨t', ht, rfl⟩ := Option.map_eq_some_iff.mp h
  exact cowBk_shrink orig f path r s t o r s t' o hc (putT_fz fu t t' k v ht) (fun _ hp => hp)

theorem putAt_root (fu : Nat) (k v : Bytes) (b b' : Bk) (h : putAt fu k v b = some b') : RootKept b b' := by
  obtain ⟨r, s, t, o⟩ := b
  unfold putAt at h
  obtain ⟨t', ht, rfl⟩ := Option.map_eq_some_iff.mp h
  intro hm
  have := putT_root fu t t' k v ht hm
  subst this
  exact ⟨hm, rfl, rfl, rfl⟩

theorem delAt_cow (orig : Bk) (fu f : Nat) (path : List Bytes) (k : Bytes) (b b' : Bk)
    (hc : CowBk orig f path b) (h : delAt fu k b = some b') : CowBk orig f path b' := by
  obtain ⟨r, s, t, o⟩ := b
  unfold delAt at h
  obtain ⟨t', ht, rfl⟩ := Option.map_eq_some_iff.mp h
  exact cowBk_shrink orig f path r s t o r s t' o hc (delT_fz fu t t' k ht) (fun _ hp => hp)

theorem delAt_root (fu : Nat) (k : Bytes) (b b' : Bk) (h : delAt fu k b = some b') : RootKept b b' := by
  obtain ⟨r, s, t, o⟩ := b
  unfold delAt at h
  obtain ⟨t', ht, rfl⟩ := Option.map_eq_some_iff.mp h
  intro hm
  have := delT_root fu t t' k ht hm
  subst this
  exact ⟨hm, rfl, rfl, rfl⟩

theorem setSeqAt_cow (orig : Bk) (f : Nat) (path : List Bytes) (n : Nat) (b b' : Bk)
    (hc : CowBk orig f path b) (h : setSeqAt n b = some b') : CowBk orig f path b' := by
  obtain ⟨r, s, t, o⟩ := b
  unfold setSeqAt at h
  cases h
  exact cowBk_shrink orig f path r s t o r n (materialize t) o hc
    (fun x hx => by rw [fz_materialize] at hx; exact below_fz t x hx) (fun _ hp => hp)

theorem setSeqAt_root (n : Nat) (b b' : Bk) (h : setSeqAt n b = some b') : RootKept b b' := by
  obtain ⟨r, s, t, o⟩ := b
  unfold setSeqAt at h
  cases h
  intro hm
  have : (materialize t).hd.mat = true := materialize_mat t
  change (materialize t).hd.mat = false at hm
  rw [this] at hm
  cases hm

theorem deleteAt_cow (orig : Bk) (fu f : Nat) (path : List Bytes) (name : Bytes) (b b' : Bk)
    (hc : CowBk orig f path b) (h : deleteAt fu name b = some b') : CowBk orig f path b' := by
  obtain ⟨r, s, t, o⟩ := b
  unfold deleteAt at h
  split at h
  · split at h
    · obtain ⟨t', ht, rfl⟩ := Option.map_eq_some_iff.mp h
      exact cowBk_shrink orig f path r s t o r s t' _ hc
        (modifyAt_fz _ (leafDel_fz name) _ _ _ ht) (fun p hp => (List.mem_filter.mp hp).1)
    · cases h
  · cases h

theorem deleteAt_root (fu : Nat) (name : Bytes) (b b' : Bk) (h : deleteAt fu name b = some b') :
    RootKept b b' := by
  obtain ⟨r, s, t, o⟩ := b
  unfold deleteAt at h
  split at h
  · split at h
    · obtain ⟨t', ht, rfl⟩ := Option.map_eq_some_iff.mp h
      intro hm
      have := modifyAt_root_mat _ (leafDel_mat name) _ _ _ ht
      rw [show ((Bk.mk r s t o).setTree t').setOpened _ = Bk.mk r s t' _ from rfl] at hm
      rw [show (Bk.mk r s t' _).tree = t' from rfl, this] at hm
      cases hm
    · cases h
  · cases h

theorem openAt_root (fu : Nat) (orig : Bk) (path : List Bytes) (name : Bytes) (b b' : Bk)
    (h : openAt fu orig path name b = some b') : RootKept b b' := by
  obtain ⟨r, s, t, o⟩ := b
  unfold openAt at h
  split at h
  · cases h; exact fun hm => ⟨hm, rfl, rfl, rfl⟩
  · split at h
    · split at h
      · obtain ⟨c, _, rfl⟩ := Option.map_eq_some_iff.mp h
        exact fun hm => ⟨hm, rfl, rfl, rfl⟩
      · cases h
    · cases h

theorem openAt_cow (orig : Bk) (fu f : Nat) (path : List Bytes) (name : Bytes) (b b' : Bk)
    (hc : CowBk orig f path b) (h : openAt fu orig path name b = some b') : CowBk orig f path b' := by
  obtain ⟨r, s, t, o⟩ := b
  unfold openAt at h
  split at h
  · cases h; exact hc
  · split at h
    · split at h
      · obtain ⟨c, hb, rfl⟩ := Option.map_eq_some_iff.mp h
        cases f with
        | zero => exact cowBk_zero ..
        | succ f =>
          have hb' := hb
          rw [bkAt_snoc] at hb'
          obtain ⟨ob, hob, hoc⟩ := Option.bind_eq_some_iff.mp hb'
          have hs : SameO orig path name (closeAll c) :=
            ⟨ob, c, hob, hoc, by cases c; rfl, by cases c; rfl, by cases c; rfl⟩
          exact cowBk_add orig f path r s t o r s t _ name (closeAll c) hc (fun _ hx => hx)
            (fun p hp => by
              rcases List.mem_append.mp hp with hp | hp
              · exact Or.inl hp
              · exact Or.inr (List.mem_singleton.mp hp))
            (cowBk_closeAll_at orig f (path ++ [name]) c hb)
            (fun _ _ _ _ _ _ => hs)
      · cases h
    · cases h

theorem createAt_root (fu : Nat) (name : Bytes) (b b' : Bk) (h : createAt fu name b = some b') :
    RootKept b b' := by
  obtain ⟨r, s, t, o⟩ := b
  have key : createAt.go fu name (Bk.mk r s t o) = some b' → RootKept (Bk.mk r s t o) b' := by
    intro hg
    unfold createAt.go at hg
    obtain ⟨t', ht, rfl⟩ := Option.map_eq_some_iff.mp hg
    intro hm
    have := modifyAt_putF_mat _ _ _ _ _ _ ht
    rw [show ((Bk.mk r s t o).setTree t').setOpened _ = Bk.mk r s t' _ from rfl] at hm
    rw [show (Bk.mk r s t' _).tree = t' from rfl, this] at hm
    cases hm
  unfold createAt at h
  split at h
  · cases h
  · split at h
    · split at h
      · cases h
      · exact key h
    · exact key h

theorem createAt_cow (orig : Bk) (fu f : Nat) (path : List Bytes) (name : Bytes) (b b' : Bk)
    (hcur : curOk orig f path b = true) (hfu : f ≤ fu)
    (hc : CowBk orig f path b) (h : createAt fu name b = some b') : CowBk orig f path b' := by
  obtain ⟨r, s, t, o⟩ := b
  cases f with
  | zero => exact cowBk_zero ..
  | succ f =>
  obtain ⟨hin, _, _, hdep, _, _, _⟩ := (BktOpsL.curOk_succ orig f path _).mp hcur
  have hseek := OpsL.seek_find name fu t true true none none (by exact Nat.le_trans hdep (by omega)) hin
    (OpsL.inR_none name)
  have key : (∀ x ∈ flatten t, x.key ≠ name) → createAt.go fu name (Bk.mk r s t o) = some b' →
      CowBk orig (f+1) path b' := by
    intro hno hg
    unfold createAt.go at hg
    obtain ⟨t', ht, rfl⟩ := Option.map_eq_some_iff.mp hg
    have hfz := modifyAt_fz _ (leafPutF_fz name newBucketVal 1) _ _ _ ht
    exact cowBk_add orig f path r s t o r s t' _ name emptyInline hc hfz
      (fun p hp => by
        rcases List.mem_append.mp hp with hp | hp
        · exact Or.inl (List.mem_filter.mp hp).1
        · exact Or.inr (List.mem_singleton.mp hp))
      (by
        cases f with
        | zero => exact cowBk_zero ..
        | succ f' =>
          show CowBk orig (f'+1) _ (.mk 0 0 (.leaf { pgid := 0, mat := false, unb := false, key := [] } []) [])
          rw [cowBk_succ]
          refine ⟨?_, fun p hp => by cases hp⟩
          intro n hn h0
          rw [fz_not_mat rfl, sub_leaf, List.mem_singleton] at hn
          subst hn
          exact absurd rfl h0)
      (fun n hn e he _ hek => absurd hek (hno e (fz_flatten t n (hfz n hn) e he)))
  have hnone : (flatten t).find? (fun i => i.key == name) = none → ∀ x ∈ flatten t, x.key ≠ name := by
    intro hf x hx hk
    have := List.find?_eq_none.mp hf x hx
    simp [hk] at this
  unfold createAt at h
  split at h
  · cases h
  · split at h
    · rename_i it hs
      split at h
      · cases h
      · rename_i hk
        refine key (hnone ?_) h
        change seekItem name fu t = some it at hs
        rw [hseek, hs]
        simp only [Option.filter]
        have : (it.key == name) = false := by simpa using hk
        simp [this]
    · rename_i hs
      refine key (hnone ?_) h
      change seekItem name fu t = none at hs
      rw [hseek, hs]; rfl


/-- a call addressed to the opened bucket at `p`: the new state is `modifyBk g p cur` or, when
    the call is refused, `cur` -/
theorem modify_cow (orig : Bk) (fu : Nat) (p : List Bytes) (cur : Bk) (g : Bk → Option Bk)
    (hcur : curOk orig fu [] cur = true) (hcow : CowBk orig fu [] cur) (hp : (bkAt p cur).isSome)
    (hd : p.length ≤ fu)
    (hop : ∀ f b b', f + p.length = fu → curOk orig f p b = true → CowBk orig f p b → g b = some b' →
      CowBk orig f p b')
    (hroot : ∀ b b', g b = some b' → RootKept b b') :
    CowBk orig fu [] ((modifyBk g p cur).getD cur) := by
  cases hm : modifyBk g p cur with
  | none => exact hcow
  | some cur' =>
    obtain ⟨b, hb⟩ := Option.isSome_iff_exists.mp hp
    cases hg : g b with
    | none => rw [BktOpsL.modifyBk_none g p cur b hb hg] at hm; cases hm
    | some b' =>
      obtain ⟨f, rfl⟩ : ∃ f, fu = f + p.length := ⟨fu - p.length, by omega⟩
      simp only [Option.getD_some]
      exact cowBk_modify orig g p f [] cur cur' b b' hcow hcur hb hm hg
        (by rw [List.nil_append]; exact fun h1 h2 => hop f b b' rfl h1 h2 hg) (hroot b b' hg)

open Bolt.C04Bkt in
/-- **every call of a transaction keeps the copy-on-write invariant** -/
theorem stepCall_cow (fu : Nat) (orig cur : Bk) (c : Call) (hw : WF fu orig cur)
    (hp : (bkAt c.path cur).isSome) (hd : c.path.length + 3 ≤ fu) (hcow : CowBk orig fu [] cur) :
    CowBk orig fu [] (stepCall fu orig cur c) := by
  obtain ⟨_, hcur⟩ := hw
  cases c with
  | bucket p name =>
    simp only [stepCall]
    exact modify_cow orig fu p cur _ hcur hcow hp (Nat.le_trans (Nat.le_add_right _ 3) hd)
      (fun f b b' _ _ hc h => openAt_cow orig fu f p name b b' hc h)
      (fun b b' h => openAt_root fu orig p name b b' h)
  | put p k v =>
    simp only [stepCall]
    by_cases hi : k = [] ∨ k.length > maxKeySize ∨ v.length > maxValueSize
    · simp only [if_pos hi, Option.getD_none]; exact hcow
    · simp only [if_neg hi]
      exact modify_cow orig fu p cur _ hcur hcow hp (Nat.le_trans (Nat.le_add_right _ 3) hd)
        (fun f b b' _ _ hc h => putAt_cow orig fu f p k v b b' hc h)
        (fun b b' h => putAt_root fu k v b b' h)
  | delete p k =>
    simp only [stepCall]
    exact modify_cow orig fu p cur _ hcur hcow hp (Nat.le_trans (Nat.le_add_right _ 3) hd)
      (fun f b b' _ _ hc h => delAt_cow orig fu f p k b b' hc h)
      (fun b b' h => delAt_root fu k b b' h)
  | createBucket p name =>
    simp only [stepCall]
    exact modify_cow orig fu p cur _ hcur hcow hp (Nat.le_trans (Nat.le_add_right _ 3) hd)
      (fun f b b' hf hcu hc h => createAt_cow orig fu f p name b b' hcu (by omega) hc h)
      (fun b b' h => createAt_root fu name b b' h)
  | deleteBucket p name =>
    simp only [stepCall]
    exact modify_cow orig fu p cur _ hcur hcow hp (Nat.le_trans (Nat.le_add_right _ 3) hd)
      (fun f b b' _ _ hc h => deleteAt_cow orig fu f p name b b' hc h)
      (fun b b' h => deleteAt_root fu name b b' h)
  | setSequence p n =>
    simp only [stepCall]
    exact modify_cow orig fu p cur _ hcur hcow hp (Nat.le_trans (Nat.le_add_right _ 3) hd)
      (fun f b b' _ _ hc h => setSeqAt_cow orig f p n b b' hc h)
      (fun b b' h => setSeqAt_root n b b' h)
  | nextSequence p =>
    simp only [stepCall]
    exact modify_cow orig fu p cur _ hcur hcow hp (Nat.le_trans (Nat.le_add_right _ 3) hd)
      (fun f b b' _ _ hc h => setSeqAt_cow orig f p _ b b' hc h)
      (fun b b' h => setSeqAt_root _ b b' h)

open Bolt.C04Bkt in
/-- the state after the calls of a transaction: well-formed and copy-on-write -/
theorem calls_cow (fu : Nat) (orig : Bk) (ho : origOk fu orig = true) : ∀ (calls : List Call) (cur : Bk),
    WF fu orig cur → CowBk orig fu [] cur → CallsOk fu orig cur calls →
    WF fu orig (calls.foldl (stepCall fu orig) cur) ∧ CowBk orig fu [] (calls.foldl (stepCall fu orig) cur)
  | [], cur, hw, hc, _ => ⟨hw, hc⟩
  | c :: cs, cur, hw, hc, hok => by
    obtain ⟨hp, hd, hrest⟩ := hok
    rw [List.foldl_cons]
    exact calls_cow fu orig ho cs _ (call_refines fu orig cur c hw hp hd).1
      (stepCall_cow fu orig cur c hw hp hd hc) hrest

end Bolt.BktWriteL
