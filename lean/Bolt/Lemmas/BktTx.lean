/-
Helper lemmas for `Bolt.Props.C04BktTx` (a whole transaction = composition of the per-call
theorems): the reference model refuses a `Put` with invalid arguments on every non-root path.
-/
import Bolt.Lemmas.BktGet
import Bolt.Lemmas.BktCommit
namespace Bolt.Bkt.BktTxL
open Bolt Bolt.BTree Bolt.Bkt

/-- `Put` with an empty key, too long a key or too long a value is an error in the reference
    model, whatever the (non-root) path -/
theorem apiPut_invalid (root : SVal) (a : Bytes) (p : List Bytes) (k v : Bytes)
    (h : k = [] ∨ k.length > maxKeySize ∨ v.length > maxValueSize) :
    ∃ e, apiPut root (a :: p) k v = .error e := by
  unfold apiPut
  cases bucketAt (a :: p) root with
  | none => exact ⟨_, rfl⟩
  | some se =>
    obtain ⟨s, e⟩ := se
    simp only [List.isEmpty_cons, Bool.false_eq_true, if_false]
    by_cases h1 : k.isEmpty = true
    · simp only [h1, if_true]; exact ⟨_, rfl⟩
    · simp only [h1]
      by_cases h2 : k.length > maxKeySize
      · simp only [h2, if_true]; exact ⟨_, rfl⟩
      · simp only [h2, if_false]
        by_cases h3 : v.length > maxValueSize
        · simp only [h3, if_true]; exact ⟨_, rfl⟩
        · exfalso
          rcases h with h | h | h
          · subst h; exact h1 rfl
          · exact h2 h
          · exact h3 h

/-- an `isSome` option has a value -/
theorem isSome_get {α : Type} {o : Option α} (h : o.isSome = true) : ∃ b, o = some b := by
  cases o with
  | none => cases h
  | some b => exact ⟨b, rfl⟩

end Bolt.Bkt.BktTxL
