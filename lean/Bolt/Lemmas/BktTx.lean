import Bolt.Lemmas.BktGet
import Bolt.Lemmas.BktCommit
namespace Bolt.Bkt.BktTxL
open Bolt Bolt.BTree Bolt.Bkt

end Bolt.Bkt.BktTxL
