/-
C16 — the source of `DB.Batch`, `batch.trigger`, `batch.run`, `safelyCall` and `DB.Update`
that `Model/Batch.lean` transcribes (run-once guard on both wake-ups, swap-remove of the
failing call, trySolo only to the failing caller, panic → error, all-or-nothing Update).
-/
import Bolt.Gen.Cfg
namespace Bolt.GenC16
open Bolt.Gen

/-- both wake-ups (timer and "batch full") go through the run-once guard -/
theorem batch_timer : batchTimerSrc = "db.batch.timer = time.AfterFunc(db.MaxBatchDelay, db.batch.trigger)" := rfl
theorem batch_full : batchFullSrc = "if len(db.batch.calls) >= db.MaxBatchSize { go db.batch.trigger() }" := rfl
theorem batch_trigger_once : batchTriggerSrc = "{ b.start.Do(b.run) }" := rfl
theorem batch_new : batchNewSrc =
  "if (db.batch == nil) || (db.batch != nil && len(db.batch.calls) >= db.MaxBatchSize) { db.batch = &batch{db: db} db.batch.timer = time.AfterFunc(db.MaxBatchDelay, db.batch.trigger) }" := rfl

/-- the retry loop: a failing function aborts the shared transaction, is removed and told to
    retry solo; the others are re-run; on success everybody gets the commit result -/
theorem batch_run_loop : batchRunLoopSrc =
  "for len(b.calls) > 0 { var failIdx = -1 err := b.db.Update(func(tx *Tx) error { for i, c := range b.calls { if err := safelyCall(c.fn, tx); err != nil { failIdx = i return err } } return nil }) if failIdx >= 0 { c := b.calls[failIdx] b.calls[failIdx], b.calls = b.calls[len(b.calls)-1], b.calls[:len(b.calls)-1] c.err <- trySolo continue retry } for _, c := range b.calls { c.err <- err } break retry }" := rfl

theorem batch_solo : batchSoloSrc = "if err == trySolo { err = db.Update(fn) }" := rfl

/-- a panic inside a batched function becomes an error -/
theorem safely_call : safelyCallSrc =
  "{ defer func() { if p := recover(); p != nil { err = panicked{p} } }() return fn(tx) }" := rfl

/-- `Update`: error or panic → rollback (nothing applied); otherwise Commit -/
theorem update_all_or_nothing : updateSrc =
  "{ t, err := db.Begin(true) if err != nil { return err } defer func() { if t.db != nil { t.rollback() } }() t.managed = true err = fn(t) t.managed = false if err != nil { _ = t.Rollback() return err } return t.Commit() }" := rfl

end Bolt.GenC16
