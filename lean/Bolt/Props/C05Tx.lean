/-
C05 inside a write transaction — composition of the cursor theorems (C05, over abstract trees
with possibly empty leaves) with the B+tree model of the transaction (`Model/BTree`): the trees
that Put/Delete calls produce from a committed tree satisfy the hypotheses of the cursor
theorems, so First/Next, Last/Prev and Seek inside the write transaction see exactly the
specified content (`specOps`) in byte order — materialised nodes, emptied leaves and pages mixed.
-/
import Bolt.Props.C05
import Bolt.Props.C04TreeOps
import Bolt.Lemmas.CursorTx
namespace Bolt.C05Tx
open Bolt Bolt.BTree

def toCurItem (i : BTree.Item) : Cur.Item := { key := i.key, val := i.val, flags := i.flags }

mutual
/-- the tree the cursor walks: node headers are irrelevant to navigation (`elemRef` only uses
    `isLeaf`, `count` and the child at an index) -/
def toCur : N → Cur.Tree
  | .leaf _ items => .leaf (items.map toCurItem)
  | .branch _ kids => .branch (toCurKids kids)
def toCurKids : List (Bytes × N) → List (Bytes × Cur.Tree)
  | [] => []
  | (s, c) :: r => (s, toCur c) :: toCurKids r
end

theorem toCur_flatten (t : N) : Cur.flatten (toCur t) = (flatten t).map toCurItem := by
  sorry

theorem toCur_depth (t : N) : Cur.depth (toCur t) = depth t := by
  sorry

/-- the in-transaction invariant gives what the cursor theorems assume -/
theorem inTx_cursor_wf (t : N) (h : InTx t) :
    Cur.BranchesNonEmpty (toCur t) ∧ Cur.SearchTree (toCur t) := by
  sorry

/-- **First/Next inside the write transaction enumerate the specified content, ascending** -/
theorem tx_forward (fuel d cf n : Nat) (t t1 : N) (ops : List Op) (hc : Committed t)
    (hk : ∀ o ∈ ops, o.ok) (hf : depth t ≤ fuel) (h : applyOps fuel t ops = some t1)
    (hd : depth t ≤ d) (hcf : Cur.size (toCur t1) ≤ cf) (hn : (specOps (flatten t) ops).length ≤ n) :
    C05.forward d cf n (toCur t1) = (specOps (flatten t) ops).map toCurItem := by
  sorry

/-- **Last/Prev enumerate it descending** -/
theorem tx_backward (fuel d cf n : Nat) (t t1 : N) (ops : List Op) (hc : Committed t)
    (hk : ∀ o ∈ ops, o.ok) (hf : depth t ≤ fuel) (h : applyOps fuel t ops = some t1)
    (hd : depth t ≤ d) (hcf : Cur.size (toCur t1) ≤ cf) (hn : (specOps (flatten t) ops).length ≤ n) :
    C05.backward d cf n (toCur t1) = ((specOps (flatten t) ops).map toCurItem).reverse := by
  sorry

/-- **Seek returns the smallest specified key not less than its argument** -/
theorem tx_seek (fuel d cf : Nat) (t t1 : N) (ops : List Op) (k : Bytes) (hc : Committed t)
    (hk : ∀ o ∈ ops, o.ok) (hf : depth t ≤ fuel) (h : applyOps fuel t ops = some t1)
    (hd : depth t ≤ d) (hcf : Cur.size (toCur t1) ≤ cf) :
    (Cur.seek d cf (toCur t1) k).2 =
      ((specOps (flatten t) ops).map toCurItem).find? (fun it => !Bytes.lt it.key k) := by
  sorry

/-- the enumerated keys are strictly ascending -/
theorem tx_forward_sorted (fuel : Nat) (t t1 : N) (ops : List Op) (hc : Committed t)
    (hk : ∀ o ∈ ops, o.ok) (hf : depth t ≤ fuel) (h : applyOps fuel t ops = some t1) :
    sortedKeys ((specOps (flatten t) ops).map (·.key)) = true := by
  sorry

def isPut : Op → Bool | .put _ _ => true | .del _ => false

/-- **with no Delete earlier in the transaction, any mixture of First/Last/Next/Prev/Seek
    returns what the same calls return on the sorted list with a position** (with deletes
    that empty a leaf this is the known finding F11) -/
theorem tx_run_refines_puts (fuel d cf : Nat) (t t1 : N) (ops : List Op) (cops : List C05.Op)
    (hc : Committed t) (hk : ∀ o ∈ ops, o.ok) (hp : ∀ o ∈ ops, isPut o = true)
    (hf : depth t ≤ fuel) (h : applyOps fuel t ops = some t1)
    (hd : depth t ≤ d) (hcf : Cur.size (toCur t1) ≤ cf) :
    C05.runImpl d cf (toCur t1) [] cops =
      C05.runSpec { keys := ((specOps (flatten t) ops).map toCurItem).map Cur.Item.view, pos := none } cops := by
  sorry

end Bolt.C05Tx
