/-
C05 inside a write transaction — composition of the cursor theorems (C05, over abstract trees
with possibly empty leaves) with the B+tree model of the transaction (`Model/BTree`): the trees
that Put/Delete calls produce from a committed tree satisfy the hypotheses of the cursor
theorems, so First/Next, Last/Prev and Seek inside the write transaction see exactly the
specified content (`specOps`) in byte order — materialised nodes, emptied leaves and pages mixed.
-/
import Bolt.Props.C05
import Bolt.Props.C04TreeOps
import Bolt.Lemmas.CursorTx
namespace Bolt.C05Tx
open Bolt Bolt.BTree

def toCurItem (i : BTree.Item) : Cur.Item := { key := i.key, val := i.val, flags := i.flags }

mutual
/-- the tree the cursor walks: node headers are irrelevant to navigation (`elemRef` only uses
    `isLeaf`, `count` and the child at an index) -/
def toCur : N → Cur.Tree
  | .leaf _ items => .leaf (items.map toCurItem)
  | .branch _ kids => .branch (toCurKids kids)
def toCurKids : List (Bytes × N) → List (Bytes × Cur.Tree)
  | [] => []
  | (s, c) :: r => (s, toCur c) :: toCurKids r
end

theorem toCur_flatten (t : N) : Cur.flatten (toCur t) = (flatten t).map toCurItem := by
  exact CursorTxL.flatten_eq ⟨fun _ => rfl, fun _ _ => by rw [toCur], fun _ _ => by rw [toCur],
    by rw [toCurKids], fun _ _ _ => by rw [toCurKids]⟩ t

theorem toCur_depth (t : N) : Cur.depth (toCur t) = depth t := by
  exact CursorTxL.depth_eq (ci := toCurItem) ⟨fun _ => rfl, fun _ _ => by rw [toCur],
    fun _ _ => by rw [toCur], by rw [toCurKids], fun _ _ _ => by rw [toCurKids]⟩ t

/-- the in-transaction invariant gives what the cursor theorems assume -/
theorem inTx_cursor_wf (t : N) (h : InTx t) :
    Cur.BranchesNonEmpty (toCur t) ∧ Cur.SearchTree (toCur t) := by
  have T : CursorTxL.IsToCur toCurItem toCur toCurKids :=
    ⟨fun _ => rfl, fun _ _ => by rw [toCur], fun _ _ => by rw [toCur], by rw [toCurKids],
      fun _ _ _ => by rw [toCurKids]⟩
  exact ⟨CursorTxL.bne T t _ _ _ _ h, CursorTxL.st T t _ _ _ _ h⟩

/-- **First/Next inside the write transaction enumerate the specified content, ascending** -/
theorem tx_forward (fuel d cf n : Nat) (t t1 : N) (ops : List Op) (hc : Committed t)
    (hk : ∀ o ∈ ops, o.ok) (hf : depth t ≤ fuel) (h : applyOps fuel t ops = some t1)
    (hd : depth t ≤ d) (hcf : Cur.size (toCur t1) ≤ cf) (hn : (specOps (flatten t) ops).length ≤ n) :
    C05.forward d cf n (toCur t1) = (specOps (flatten t) ops).map toCurItem := by
  obtain ⟨t1', h', hi, hdep, hfl⟩ := C04Tree.applyOps_refines fuel t ops (C04Tree.committed_inTx t hc) hk hf
  rw [h] at h'; cases h'
  rw [C05.forward_enumerates (toCur t1) d cf n (inTx_cursor_wf t1 hi).1
    (by rw [toCur_depth, hdep]; exact hd) hcf
    (by rw [toCur_flatten, List.length_map, hfl]; exact hn), toCur_flatten, hfl]

/-- **Last/Prev enumerate it descending** -/
theorem tx_backward (fuel d cf n : Nat) (t t1 : N) (ops : List Op) (hc : Committed t)
    (hk : ∀ o ∈ ops, o.ok) (hf : depth t ≤ fuel) (h : applyOps fuel t ops = some t1)
    (hd : depth t ≤ d) (hcf : Cur.size (toCur t1) ≤ cf) (hn : (specOps (flatten t) ops).length ≤ n) :
    C05.backward d cf n (toCur t1) = ((specOps (flatten t) ops).map toCurItem).reverse := by
  obtain ⟨t1', h', hi, hdep, hfl⟩ := C04Tree.applyOps_refines fuel t ops (C04Tree.committed_inTx t hc) hk hf
  rw [h] at h'; cases h'
  rw [C05.backward_enumerates (toCur t1) d cf n (inTx_cursor_wf t1 hi).1
    (by rw [toCur_depth, hdep]; exact hd) hcf
    (by rw [toCur_flatten, List.length_map, hfl]; exact hn), toCur_flatten, hfl]

/-- **Seek returns the smallest specified key not less than its argument** -/
theorem tx_seek (fuel d cf : Nat) (t t1 : N) (ops : List Op) (k : Bytes) (hc : Committed t)
    (hk : ∀ o ∈ ops, o.ok) (hf : depth t ≤ fuel) (h : applyOps fuel t ops = some t1)
    (hd : depth t ≤ d) (hcf : Cur.size (toCur t1) ≤ cf) :
    (Cur.seek d cf (toCur t1) k).2 =
      ((specOps (flatten t) ops).map toCurItem).find? (fun it => !Bytes.lt it.key k) := by
  obtain ⟨t1', h', hi, hdep, hfl⟩ := C04Tree.applyOps_refines fuel t ops (C04Tree.committed_inTx t hc) hk hf
  rw [h] at h'; cases h'
  have hw := inTx_cursor_wf t1 hi
  rw [C05.seek_spec (toCur t1) d cf k hw.1 hw.2 (by rw [toCur_depth, hdep]; exact hd) hcf,
    toCur_flatten, hfl]

set_option linter.unusedVariables false in
/-- the enumerated keys are strictly ascending -/
theorem tx_forward_sorted (fuel : Nat) (t t1 : N) (ops : List Op) (hc : Committed t)
    (hk : ∀ o ∈ ops, o.ok) (hf : depth t ≤ fuel) (h : applyOps fuel t ops = some t1) :
    sortedKeys ((specOps (flatten t) ops).map (·.key)) = true := by
  exact C04Tree.specOps_sorted (flatten t) ops hc.2

def isPut : Op → Bool | .put _ _ => true | .del _ => false

/-- **with no Delete earlier in the transaction, any mixture of First/Last/Next/Prev/Seek
    returns what the same calls return on the sorted list with a position** (with deletes
    that empty a leaf this is the known finding F11) -/
theorem tx_run_refines_puts (fuel d cf : Nat) (t t1 : N) (ops : List Op) (cops : List C05.Op)
    (hc : Committed t) (hk : ∀ o ∈ ops, o.ok) (hp : ∀ o ∈ ops, isPut o = true)
    (hf : depth t ≤ fuel) (h : applyOps fuel t ops = some t1)
    (hd : depth t ≤ d) (hcf : Cur.size (toCur t1) ≤ cf) :
    C05.runImpl d cf (toCur t1) [] cops =
      C05.runSpec { keys := ((specOps (flatten t) ops).map toCurItem).map Cur.Item.view, pos := none } cops := by
  obtain ⟨t1', h', hi, hdep, hfl⟩ := C04Tree.applyOps_refines fuel t ops (C04Tree.committed_inTx t hc) hk hf
  rw [h] at h'; cases h'
  have hw := inTx_cursor_wf t1 hi
  have T : CursorTxL.IsToCur toCurItem toCur toCurKids :=
    ⟨fun _ => rfl, fun _ _ => by rw [toCur], fun _ _ => by rw [toCur], by rw [toCurKids],
      fun _ _ _ => by rw [toCurKids]⟩
  have hu : anyUnb t1 = false :=
    CursorTxL.applyOps_anyUnb fuel ops t t1
      (fun o ho => by
        have := hp o ho
        cases o with
        | put k v => exact ⟨k, v, rfl⟩
        | del k => exact Bool.noConfusion this)
      h (CursorTxL.committedN_anyUnb t true hc.1)
  have hne : Cur.NoEmptyLeafBelowRoot (toCur t1) := CursorTxL.nelbr T t1 _ _ _ _ hi hu
  rw [C05.cursor_refines_spec_partial (toCur t1) d cf cops hw.1 hw.2 hne
    (by rw [toCur_depth, hdep]; exact hd) hcf, C05.specOf, toCur_flatten, hfl]

/-- **any mixture of First/Last/Next/Prev/Seek inside the write transaction, after ANY Put/Delete
    calls (emptied leaves included), returns what the same calls return on the sorted list of the
    specified content with a position** (holds since the repair of F11) -/
theorem tx_run_refines (fuel d cf : Nat) (t t1 : N) (ops : List Op) (cops : List C05.Op)
    (hc : Committed t) (hk : ∀ o ∈ ops, o.ok)
    (hf : depth t ≤ fuel) (h : applyOps fuel t ops = some t1)
    (hd : depth t ≤ d) (hcf : Cur.size (toCur t1) ≤ cf) :
    C05.runImpl d cf (toCur t1) [] cops =
      C05.runSpec { keys := ((specOps (flatten t) ops).map toCurItem).map Cur.Item.view, pos := none } cops := by
  obtain ⟨t1', h', hi, hdep, hfl⟩ := C04Tree.applyOps_refines fuel t ops (C04Tree.committed_inTx t hc) hk hf
  rw [h] at h'; cases h'
  have hw := inTx_cursor_wf t1 hi
  rw [C05.cursor_refines_spec (toCur t1) d cf cops hw.1 hw.2
    (by rw [toCur_depth, hdep]; exact hd) hcf, C05.specOf, toCur_flatten, hfl]

end Bolt.C05Tx
