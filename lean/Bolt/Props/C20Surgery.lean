/-
C20 — the repair commands at byte level (`Model/Surgery.lean` = internal/surgeon + guts_cli).
For EVERY file whose two meta pages look as every database produced by a history has them
(`metaPagesOk`, evaluated by the engine on every real file it uses):
 * `surgery freelist abandon` (`clearFreelist`) succeeds, touches only the freelist and checksum
   fields of the two meta structs, leaves both metas valid with all other fields as they were —
   so `Open` chooses the same meta and the independent reader extracts the same content and the
   same reachable pages, with no free list referenced;
 * `surgery revert-meta-page` (`revertMeta`) succeeds, touches only the active meta page, and
   the result opens at EXACTLY what the other meta slot described (the whole decoded view is
   equal) — which by `C20.revert_prev_intact` is the previously committed, intact version when
   the file was taken directly after a commit.
-/
import Bolt.Model.Surgery
import Bolt.Model.Format
import Bolt.Lemmas.Surgery
namespace Bolt.C20Surgery
open Bolt Bolt.Surgery

/-- **frame**: the reader's view depends only on the meta struct it starts from and on the bytes
    of pages 2 and above -/
theorem decodeAt_frame (f f' : File) (ps moff moff' : Nat)
    (hb : ∀ i, 2 * ps ≤ i → f'.get i = f.get i) (hm : metaAt f' moff' = metaAt f moff) :
    decodeAt f' ps moff' = decodeAt f ps moff :=
  SurgeryL.decodeAt_from hb hm

/-- **`ClearFreelist` byte level** -/
theorem clearFreelist_spec (f : File) (ps : Nat) (h : metaPagesOk f ps = true) :
    ∃ f', clearFreelist f = .ok f' ∧ f'.size = f.size ∧
      (∀ i, ¬ (48 ≤ i ∧ i < 56) → ¬ (72 ≤ i ∧ i < 80) →
            ¬ (ps + 48 ≤ i ∧ i < ps + 56) → ¬ (ps + 72 ≤ i ∧ i < ps + 80) → f'.get i = f.get i) ∧
      metaValid f' 16 = true ∧ metaValid f' (ps + 16) = true ∧
      (∀ moff, moff = 16 ∨ moff = ps + 16 →
        metaAt f' moff = { metaAt f moff with freelist := V2.pgidNoFreelist, checksum := metaSum f' moff }) :=
  SurgeryL.clearFreelist_spec f ps h

/-- **abandoning the free list keeps the content**: `Open` chooses the same meta, and from either
    meta the reader extracts the same content and reachable pages, no free list, same txid,
    high-water mark and root -/
theorem abandon_keeps_content (f : File) (ps os : Nat) (h : metaPagesOk f ps = true) :
    ∃ f', clearFreelist f = .ok f' ∧ openMeta f' os = openMeta f os ∧
      ∀ moff, moff = 16 ∨ moff = ps + 16 →
        (decodeAt f' ps moff).content = (decodeAt f ps moff).content ∧
        (decodeAt f' ps moff).treePages = (decodeAt f ps moff).treePages ∧
        (decodeAt f' ps moff).freelistPage = none ∧ (decodeAt f' ps moff).freeIds = [] ∧
        (decodeAt f' ps moff).mt.txid = (decodeAt f ps moff).mt.txid ∧
        (decodeAt f' ps moff).mt.pgid = (decodeAt f ps moff).mt.pgid ∧
        (decodeAt f' ps moff).mt.root = (decodeAt f ps moff).mt.root :=
  SurgeryL.abandon_keeps_content f ps os h

/-- **`RevertMetaPage` byte level**: only the active meta page changes; both meta structs are now
    the older one -/
theorem revertMeta_spec (f : File) (ps : Nat) (h : metaPagesOk f ps = true) :
    ∃ f', revertMeta f = .ok f' ∧ f'.size = f.size ∧
      (∀ i, 2 * ps ≤ i → f'.get i = f.get i) ∧
      (∀ i, (if olderOff f ps = 16 then i < ps else ps ≤ i) → f'.get i = f.get i) ∧
      metaAt f' 16 = metaAt f (olderOff f ps) ∧ metaAt f' (ps + 16) = metaAt f (olderOff f ps) ∧
      metaValid f' 16 = true ∧ metaValid f' (ps + 16) = true :=
  SurgeryL.revertMeta_spec f ps h

/-- **the reverted file opens at exactly what the other meta slot described** -/
theorem revert_opens_at_older (f : File) (ps os : Nat) (h : metaPagesOk f ps = true) :
    ∃ f', revertMeta f = .ok f' ∧ decodeFile f' os = .ok (decodeAt f ps (olderOff f ps)) :=
  SurgeryL.revert_opens_at_older f ps os h

end Bolt.C20Surgery
