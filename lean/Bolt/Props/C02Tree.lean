/-
C02 at page level — a reader's view depends only on its own pages.

The protocol theorems (`Props/C02`, `Props/C06`, `Props/C07`) say that no page the version of an
open reader references is written or recycled while the reader is open.  This file supplies the
other half: for a file `f` that holds a committed tree `t` (resp. a bucket tree `b` with all its
nested buckets) and ANY other file `f'` that agrees with `f` on the bytes of the pages of that tree
— whatever else differs: pages written by later commits, recycled pages, a grown file — the
independent reader extracts exactly the same entries, the same page list and no error from `f'`
as from `f`.  Together: every key, value, nested bucket, sequence number and the iteration order
a read transaction can observe stay what they were when it began.
-/
import Bolt.Props.C12Tree
import Bolt.Props.C12Bk
import Bolt.Lemmas.ReaderFrame
namespace Bolt.C02Tree
open Bolt Bolt.BTree Bolt.Bkt Bolt.C12Tree Bolt.C12Bk

/-- byte offset `i` lies in the page span of a page of the tree -/
def inPages (ps : Nat) (t : N) (i : Nat) : Prop :=
  ∃ p ∈ pagesOf ps t, p.1 * ps ≤ i ∧ i < (p.1 + p.2.1 + 1) * ps

/-- being laid out in a file is a fact about the bytes of the tree's own pages only -/
theorem laid_frame (f f' : File) (ps : Nat) (hps : 0 < ps) (t : N)
    (hl : Laid f ps t) (h : ∀ i, inPages ps t i → f'.get i = f.get i) : Laid f' ps t := by
  exact Bolt.ReaderFrameL.laid_frame_node f f' ps hps t (pagesOf ps t) (fun _ hp => hp) h hl

/-- **a reader's view of a tree depends only on the tree's pages** -/
theorem reader_view_stable (f f' : File) (ps hwm fuel : Nat) (t : N) (ph : Phys)
    (hps : 0 < ps) (hl : Laid f ps t) (hf : Fits ps hwm t) (hc : Committed t) (hd : depth t ≤ fuel)
    (h : ∀ i, inPages ps t i → f'.get i = f.get i) :
    decodeTree f' ps hwm fuel t.hd.pgid ph = decodeTree f ps hwm fuel t.hd.pgid ph ∧
    (decodeTree f' ps hwm fuel t.hd.pgid ph).1 = (flatten t).map (fun i => (i.key, SVal.val i.val)) ∧
    (decodeTree f' ps hwm fuel t.hd.pgid ph).2.errors = ph.errors := by
  have hl' := laid_frame f f' ps hps t hl h
  rw [decode_laid f' ps hwm fuel t ph hps hl' hf hc hd, decode_laid f ps hwm fuel t ph hps hl hf hc hd]
  exact ⟨rfl, rfl, rfl⟩

/-- byte offset `i` lies in a page of the bucket's own tree or of a nested bucket's tree (to
    nesting depth `fu`) -/
def inBkPages (ps : Nat) : Nat → Bk → Nat → Prop
  | 0, _, _ => False
  | fu+1, b, i =>
    (b.root ≠ 0 ∧ inPages ps (realTree b) i) ∨ ∃ p ∈ b.opened, inBkPages ps fu p.2 i

/-- the same for a bucket with all its nested buckets -/
theorem laidBk_frame (f f' : File) (ps hwm : Nat) (hps : 0 < ps) : ∀ (fu : Nat) (b : Bk),
    LaidBk f ps hwm fu b → (∀ i, inBkPages ps fu b i → f'.get i = f.get i) → LaidBk f' ps hwm fu b := by
  intro fu
  induction fu with
  | zero => intro b hl _; rw [LaidBk] at hl; exact hl.elim
  | succ fu ih =>
    intro b hl h
    rw [LaidBk] at hl ⊢
    obtain ⟨h1, h2, h3, h4⟩ := hl
    refine ⟨h1, ?_, h3, ?_⟩
    · intro hr
      obtain ⟨e, l, g⟩ := h2 hr
      exact ⟨e, laid_frame f f' ps hps _ l (fun i hi => h i (Or.inl ⟨hr, hi⟩)), g⟩
    · intro p hp
      exact ih p.2 (h4 p hp) (fun i hi => h i (Or.inr ⟨p, hp, hi⟩))

/-- **a reader's view of a bucket tree (nested buckets, sequences included) depends only on the
    pages of that bucket tree** -/
theorem reader_bucket_view_stable (f f' : File) (ps hwm fu fuel : Nat) (b : Bk) (ph : Phys)
    (hps : 0 < ps) (ho : origShapeOk fu b = true) (hr : b.root ≠ 0) (hl : LaidBk f ps hwm fu b)
    (hd : fu * (fu + 1) ≤ fuel)
    (h : ∀ i, inBkPages ps fu b i → f'.get i = f.get i) :
    (decodeTree f' ps hwm fuel b.root ph).1 = (decodeTree f ps hwm fuel b.root ph).1 ∧
    (decodeTree f' ps hwm fuel b.root ph).1 = (match absBk b fu [] b with | .bkt _ e => e | .val _ => []) ∧
    (decodeTree f' ps hwm fuel b.root ph).2.errors = ph.errors := by
  have hl' := laidBk_frame f f' ps hwm hps fu b hl h
  obtain ⟨p1, e1, g1⟩ := decode_bk f ps hwm fu fuel b ph hps ho hr hl hd
  obtain ⟨p2, e2, g2⟩ := decode_bk f' ps hwm fu fuel b ph hps ho hr hl' hd
  rw [e1, e2]
  exact ⟨rfl, rfl, g2⟩

/-! ### non-vacuity: a concrete one-leaf tree laid out at page 3, and a file that differs from it
outside that page -/

/-- any image placed at its page offset is held there -/
theorem holds_fileOf (n : Nat) (img : Bytes) : Holds (Enc.fileOf (List.replicate n 0 ++ img)) n img := by
  intro i _
  show (List.replicate n 0 ++ img).getD (n + i) 0 = img.getD i 0
  simp only [List.getD_eq_getElem?_getD]
  rw [List.getElem?_append_right (by simp)]
  simp

example :
    let t : N := .leaf { pgid := 3, mat := false, unb := false, key := [1] }
      [{ key := [1], val := [10], flags := 0 }, { key := [2], val := [20, 21], flags := 0 }]
    let f := Enc.fileOf (List.replicate (3 * 4096) 0 ++ imageOf 4096 t)
    let f' : File := { size := f.size + 4096, get := fun i => if i < 3 * 4096 then 0xFF else f.get i }
    Laid f 4096 t ∧ Laid f' 4096 t ∧ f'.get 0 ≠ f.get 0 := by
  intro t f f'
  have hl : Laid f 4096 t := by
    show Holds _ (3 * 4096) _
    exact holds_fileOf _ _
  refine ⟨hl, laid_frame f f' 4096 (by decide) t hl ?_, by decide⟩
  rintro i ⟨p, hp, h1, _⟩
  have hp' : p = (3, ovfOf 4096 t, V2.leafPageFlag) := List.mem_singleton.mp hp
  subst hp'
  show (if i < 3 * 4096 then (0xFF : UInt8) else f.get i) = f.get i
  rw [if_neg (by omega)]

end Bolt.C02Tree
