/-
C04/C07 — the transaction's ROOT bucket as the modelled top bucket (`Bkt.commitRoot`: never
inline): every top-level `Tx.CreateBucket`/`DeleteBucket`/`Bucket` is a call on it, so the model
then covers the whole database.  The per-call theorems (`C04BktOps`, `C04BktGet`,
`C04BktTx.call_refines`) apply unchanged; this file provides the commit.
-/
import Bolt.Props.C04BktTx
import Bolt.Lemmas.BktRoot
namespace Bolt.C04Bkt
open Bolt Bolt.BTree Bolt.Bkt

/-- **commit of the root bucket keeps the content and re-establishes the start-of-transaction
    invariant**, for every rebalance order covering the node maps -/
theorem commitRoot_refines (ps sth rth fu : Nat) (orig cur : Bk) (order : List Nat)
    (hw : WF fu orig cur) (hf : fuelOk fu fu cur = true)
    (hc : ∀ pg ∈ allMatPgids fu fu cur, pg ∈ order) :
    ∃ cur' fu', commitRoot ps sth rth fu order cur = some cur' ∧
      absTop fu orig cur' = absTop fu orig cur ∧
      fu ≤ fu' ∧ origShapeOk fu' (full orig fu [] cur') = true ∧
      absTop fu' (full orig fu [] cur') (full orig fu [] cur') = absTop fu orig cur := by
  sorry

/-- a whole transaction on the root bucket -/
theorem root_transaction_refines (ps sth rth fu : Nat) (orig : Bk) (calls : List Call) (order : List Nat)
    (ho : origOk fu orig = true)
    (hc : CallsOk fu orig (closeAll orig) calls)
    (hf : fuelOk fu fu (calls.foldl (stepCall fu orig) (closeAll orig)) = true)
    (hcov : ∀ pg ∈ allMatPgids fu fu (calls.foldl (stepCall fu orig) (closeAll orig)), pg ∈ order) :
    ∃ cur' fu', commitRoot ps sth rth fu order (calls.foldl (stepCall fu orig) (closeAll orig)) = some cur' ∧
      fu ≤ fu' ∧ origShapeOk fu' (full orig fu [] cur') = true ∧
      absTop fu' (full orig fu [] cur') (full orig fu [] cur') =
        calls.foldl specCall (absTop fu orig orig) := by
  sorry

end Bolt.C04Bkt
