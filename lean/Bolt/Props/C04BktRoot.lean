/-
C04/C07 — the transaction's ROOT bucket as the modelled top bucket (`Bkt.commitRoot`: never
inline): every top-level `Tx.CreateBucket`/`DeleteBucket`/`Bucket` is a call on it, so the model
then covers the whole database.  The per-call theorems (`C04BktOps`, `C04BktGet`,
`C04BktTx.call_refines`) apply unchanged; this file provides the commit.
-/
import Bolt.Props.C04BktTx
import Bolt.Lemmas.BktRoot
namespace Bolt.C04Bkt
open Bolt Bolt.BTree Bolt.Bkt

/-- **commit of the root bucket keeps the content and re-establishes the start-of-transaction
    invariant**, for every rebalance order covering the node maps -/
theorem commitRoot_refines (ps sth rth fu : Nat) (orig cur : Bk) (order : List Nat)
    (hw : WF fu orig cur) (hf : fuelOk fu fu cur = true)
    (hc : ∀ pg ∈ allMatPgids fu fu cur, pg ∈ order) :
    ∃ cur' fu', commitRoot ps sth rth fu order cur = some cur' ∧
      absTop fu orig cur' = absTop fu orig cur ∧
      fu ≤ fu' ∧ origShapeOk fu' (full orig fu [] cur') = true ∧
      absTop fu' (full orig fu [] cur') (full orig fu [] cur') = absTop fu orig cur := by
  have e1 : ∀ (f : Nat) (b : Bk), fuelOk fu f b = BktCommitL.fuelOk' fu f b := by
    intro f
    induction f with
    | zero => intro b; rfl
    | succ f ih => intro b; cases b; simp only [fuelOk, BktCommitL.fuelOk', ih]
  have e2 : ∀ (f : Nat) (b : Bk), allMatPgids fu f b = BktCommitL.allMat fu f b := by
    intro f
    induction f with
    | zero => intro b; rfl
    | succ f ih => intro b; cases b; simp only [allMatPgids, BktCommitL.allMat, ih]
  exact BktRootL.commitRoot_ok ps sth rth fu orig cur order hw (by rw [← e1]; exact hf)
    (by rw [← e2]; exact hc)

/-- a whole transaction on the root bucket -/
theorem root_transaction_refines (ps sth rth fu : Nat) (orig : Bk) (calls : List Call) (order : List Nat)
    (ho : origOk fu orig = true)
    (hc : CallsOk fu orig (closeAll orig) calls)
    (hf : fuelOk fu fu (calls.foldl (stepCall fu orig) (closeAll orig)) = true)
    (hcov : ∀ pg ∈ allMatPgids fu fu (calls.foldl (stepCall fu orig) (closeAll orig)), pg ∈ order) :
    ∃ cur' fu', commitRoot ps sth rth fu order (calls.foldl (stepCall fu orig) (closeAll orig)) = some cur' ∧
      fu ≤ fu' ∧ origShapeOk fu' (full orig fu [] cur') = true ∧
      absTop fu' (full orig fu [] cur') (full orig fu [] cur') =
        calls.foldl specCall (absTop fu orig orig) := by
  obtain ⟨hwf, habs⟩ := BktRootL.foldl_refines (stepCall fu orig) specCall (absTop fu orig)
    (WF fu orig) (fun cur c => (bkAt c.path cur).isSome ∧ c.path.length + 3 ≤ fu) (CallsOk fu orig)
    (fun _ _ _ hok => ⟨⟨hok.1, hok.2.1⟩, hok.2.2⟩)
    (fun cur c hw hp => call_refines fu orig cur c hw hp.1 hp.2)
    calls (closeAll orig) (start_wf fu orig ho) hc
  obtain ⟨cur', fu', hcm, _, hle, hshape, hfull⟩ :=
    commitRoot_refines ps sth rth fu orig _ order hwf hf hcov
  refine ⟨cur', fu', hcm, hle, hshape, ?_⟩
  rw [hfull, habs, start_abs fu orig ho]

end Bolt.C04Bkt
