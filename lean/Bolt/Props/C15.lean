/-
C15 — compaction preserves content.
-/
import Bolt.Model.Compact
import Bolt.Lemmas.NestedMap
namespace Bolt.C15
open Bolt Bolt.Compact

/-- **Compaction preserves content**: for every well-formed source whose root holds only
    buckets (deep nesting, empty buckets, empty values — distinct from buckets —, values of
    any size, non-zero sequences at every level) and for EVERY transaction-size limit
    (0 = unlimited, 1 byte upwards, limits that split inside a nested bucket), the walk
    raises no error and the destination equals the source: same buckets, nesting, keys,
    values and sequence numbers. -/
theorem compact_preserves (limit : Nat) (seq : Nat) (ents : Ents)
    (hwf : SWF (.bkt seq ents)) (hroot : RootOnlyBuckets (.bkt seq ents)) (hk : KeysOK (.bkt seq ents)) :
    (compact limit (.bkt seq ents)).err = none ∧ (compact limit (.bkt seq ents)).dst = .bkt 0 ents := by
  have ⟨h1, h2⟩ := (swf_bkt _ _).mp hwf
  have h0 : SWF (.bkt 0 []) := (swf_bkt _ _).mpr ⟨List.Pairwise.nil, by simp⟩
  have hk' : EntsKeysOK ents := by rw [KeysOK] at hk; exact hk
  have := walkEnts_spec limit ents [] { dst := .bkt 0 [], size := 0, commits := 0, err := none } 0 []
    rfl h0 (by simp) (by simpa using h1) h2 hk' (fun _ => hroot)
  simpa [compact] using this

/-- the content of the destination does not depend on the limit (only the number of
    destination transactions does) -/
theorem compact_limit_irrelevant (l1 l2 : Nat) (src : SVal)
    (hwf : SWF src) (hroot : RootOnlyBuckets src) (hk : KeysOK src) :
    (compact l1 src).dst = (compact l2 src).dst := by
  cases src with
  | val v => exact absurd hroot (by simp [RootOnlyBuckets])
  | bkt seq ents =>
    rw [(compact_preserves l1 seq ents hwf hroot hk).2, (compact_preserves l2 seq ents hwf hroot hk).2]

/-- with limit 0 everything is copied in one destination transaction -/
theorem compact_unlimited_single_tx (src : SVal) : (compact 0 src).commits = 0 := by
  cases src with
  | val v => rfl
  | bkt seq ents => simp [compact, walkEnts_commits_unlimited]

/-- the destination is well-formed -/
theorem compact_dst_wf (limit : Nat) (src : SVal)
    (hwf : SWF src) (hroot : RootOnlyBuckets src) (hk : KeysOK src) : SWF (compact limit src).dst := by
  cases src with
  | val v => exact absurd hroot (by simp [RootOnlyBuckets])
  | bkt seq ents =>
    rw [(compact_preserves limit seq ents hwf hroot hk).2]
    exact (swf_bkt _ _).mpr ((swf_bkt _ _).mp hwf)

/-- non-vacuity: nested buckets, an empty bucket, an empty value, sequences; limit 1 splits
    inside the nested bucket -/
example :
    let src : SVal := .bkt 0 [([1], .bkt 7 [([2], .val []), ([3], .bkt 5 [([1], .val [1, 2, 3])])]), ([4], .bkt 0 [])]
    (compact 1 src).dst = src ∧ (compact 1 src).err = none ∧ (compact 1 src).commits = 4 := by
  intro src
  have hwf : SWF src := by simp [src, SWF, EntsWF, EntsSorted, Bytes.lt]
  have hroot : RootOnlyBuckets src := by simp [src, RootOnlyBuckets, SVal.isBucket]
  have hk : KeysOK src := by simp [src, KeysOK, EntsKeysOK, SVal.isBucket, maxKeySize, maxValueSize]
  have := compact_preserves 1 0 _ hwf hroot hk
  refine ⟨this.2, this.1, ?_⟩
  simp [src, compact, walkEnts, walkBucket, visit, apiPut, apiCreateBucket, apiSetSequence, bucketAt,
    setBucketAt, entsLookup, entsInsert, maxKeySize, maxValueSize, Bytes.lt]

end Bolt.C15
