/-
C15 — compaction preserves content.
-/
import Bolt.Model.Compact
import Bolt.Lemmas.NestedMap
namespace Bolt.C15
open Bolt Bolt.Compact

/-- **Compaction preserves content**: for every well-formed source whose root holds only
    buckets (deep nesting, empty buckets, empty values — distinct from buckets —, values of
    any size, non-zero sequences at every level) and for EVERY transaction-size limit
    (0 = unlimited, 1 byte upwards, limits that split inside a nested bucket), the walk
    raises no error and the destination equals the source: same buckets, nesting, keys,
    values and sequence numbers. -/
theorem compact_preserves (limit : Nat) (seq : Nat) (ents : Ents)
    (hwf : SWF (.bkt seq ents)) (hroot : RootOnlyBuckets (.bkt seq ents)) (hk : KeysOK (.bkt seq ents)) :
    (compact limit (.bkt seq ents)).err = none ∧ (compact limit (.bkt seq ents)).dst = .bkt 0 ents := by
  sorry

/-- the content of the destination does not depend on the limit (only the number of
    destination transactions does) -/
theorem compact_limit_irrelevant (l1 l2 : Nat) (src : SVal)
    (hwf : SWF src) (hroot : RootOnlyBuckets src) (hk : KeysOK src) :
    (compact l1 src).dst = (compact l2 src).dst := by
  sorry

/-- with limit 0 everything is copied in one destination transaction -/
theorem compact_unlimited_single_tx (src : SVal) : (compact 0 src).commits = 0 := by
  sorry

/-- the destination is well-formed -/
theorem compact_dst_wf (limit : Nat) (src : SVal)
    (hwf : SWF src) (hroot : RootOnlyBuckets src) (hk : KeysOK src) : SWF (compact limit src).dst := by
  sorry

/-- non-vacuity: nested buckets, an empty bucket, an empty value, sequences; limit 1 splits
    inside the nested bucket -/
example :
    let src : SVal := .bkt 0 [([1], .bkt 7 [([2], .val []), ([3], .bkt 5 [([1], .val [1, 2, 3])])]), ([4], .bkt 0 [])]
    (compact 1 src).dst = src ∧ (compact 1 src).err = none ∧ (compact 1 src).commits = 4 := by
  sorry

end Bolt.C15
