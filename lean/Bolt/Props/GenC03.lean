/-
C03 — the lock operations of the database entry points, as extracted from the source,
equal the sequences that `Model/Locks.lean` transcribes.
-/
import Bolt.Gen.Cfg
namespace Bolt.GenC03
open Bolt.Gen

theorem lock_ops : lockOps =
  [("DB.beginTx", ["metalock.Lock", "mmaplock.RLock", "mmaplock.RUnlock", "metalock.Unlock", "mmaplock.RUnlock", "metalock.Unlock", "metalock.Unlock", "statlock.Lock", "statlock.Unlock"]),
   ("DB.beginRWTx", ["rwlock.Lock", "metalock.Lock", "defer metalock.Unlock", "rwlock.Unlock", "rwlock.Unlock"]),
   ("DB.removeTx", ["mmaplock.RUnlock", "metalock.Lock", "metalock.Unlock", "statlock.Lock", "statlock.Unlock"]),
   ("Tx.close", ["rwlock.Unlock", "statlock.Lock", "statlock.Unlock"]),
   ("DB.Close", ["rwlock.Lock", "defer rwlock.Unlock", "metalock.Lock", "defer metalock.Unlock", "mmaplock.Lock", "defer mmaplock.Unlock"]),
   ("DB.mmap", ["mmaplock.Lock", "defer mmaplock.Unlock"]),
   ("Tx.writeMeta", ["metalock.Lock", "metalock.Unlock", "metalock.Unlock"]),
   ("DB.Batch", ["batchMu.Lock", "batchMu.Unlock"]),
   ("batch.run", ["batchMu.Lock", "batchMu.Unlock"]),
   ("DB.Stats", ["statlock.RLock", "statlock.RUnlock"]),
   ("DB.Update", []),
   ("DB.View", [])] := rfl

end Bolt.GenC03
