/-
C04 — buckets, keys and sequences behave as a nested ordered map.

The reference model `Spec/NestedMap.lean` is what every real API result is compared with
(engine `apiprog`, for every generated program).  The theorems here show that the reference
model itself is the intended mathematical object: a tree of strictly ordered maps on which
the API calls obey the map laws, errors leave the state unchanged, and all operations
preserve well-formedness — so "equal to the reference model" means what the property says.
-/
import Bolt.Lemmas.NestedMap
namespace Bolt.C04
open Bolt

-- several laws hold even without the `SWF` hypothesis they are stated with (lookup finds the
-- first entry, `setBucketAt`/`entsErase` touch every entry with the key); the hypothesis is kept
-- because the property is about well-formed states, so silence the unused-variable linter.
set_option linter.unusedVariables false

/-! ### well-formedness is preserved by every successful call -/

theorem put_wf (r : SVal) (p : List Bytes) (k v : Bytes) (r' : SVal) (h : SWF r)
    (hp : apiPut r p k v = .ok r') : SWF r' := by
  obtain ⟨s, e, hb, _, _, _, _, rfl⟩ := apiPut_ok hp
  have ⟨h1, h2⟩ := bucketAt_wf h hb
  exact setBucketAt_wf _ (entsInsert_sorted _ _ h1) (entsInsert_wf (by rw [SWF]; trivial) h2) _ _ h

theorem delete_wf (r : SVal) (p : List Bytes) (k : Bytes) (r' : SVal) (h : SWF r)
    (hp : apiDelete r p k = .ok r') : SWF r' := by
  obtain ⟨s, e, hb, _, ⟨_, rfl⟩ | ⟨_, rfl⟩⟩ := apiDelete_ok hp
  · exact h
  · have ⟨h1, h2⟩ := bucketAt_wf h hb
    exact setBucketAt_wf _ (entsErase_sorted _ h1) (fun q hq => h2 q (mem_entsErase hq)) _ _ h

theorem createBucket_wf (r : SVal) (p : List Bytes) (k : Bytes) (b : Bool) (r' : SVal) (h : SWF r)
    (hp : apiCreateBucket r p k b = .ok r') : SWF r' := by
  obtain ⟨s, e, hb, _, ⟨_, _, rfl⟩ | ⟨_, rfl⟩⟩ := apiCreateBucket_ok hp
  · exact h
  · have ⟨h1, h2⟩ := bucketAt_wf h hb
    have h0 : SWF (.bkt 0 []) := (swf_bkt _ _).mpr ⟨List.Pairwise.nil, by simp⟩
    exact setBucketAt_wf _ (entsInsert_sorted _ _ h1) (entsInsert_wf h0 h2) _ _ h

theorem deleteBucket_wf (r : SVal) (p : List Bytes) (k : Bytes) (r' : SVal) (h : SWF r)
    (hp : apiDeleteBucket r p k = .ok r') : SWF r' := by
  obtain ⟨s, e, hb, _, rfl⟩ := apiDeleteBucket_ok hp
  have ⟨h1, h2⟩ := bucketAt_wf h hb
  exact setBucketAt_wf _ (entsErase_sorted _ h1) (fun q hq => h2 q (mem_entsErase hq)) _ _ h

theorem moveBucket_wf (r : SVal) (src : List Bytes) (k : Bytes) (dst : List Bytes) (r' : SVal) (h : SWF r)
    (hp : apiMoveBucket r src k dst = .ok r') : SWF r' := by
  obtain ⟨s, e, ds0, de, ms, me, ds, de1, hb1, hb2, hl, hne, hl2, hpre, hb3, rfl⟩ := apiMoveBucket_ok hp
  have ⟨h1, h2⟩ := bucketAt_wf h hb1
  have hm : SWF (.bkt ms me) := h2 _ (entsLookup_mem hl)
  have hr1 : SWF (setBucketAt src (s, entsErase k e) r) :=
    setBucketAt_wf _ (entsErase_sorted _ h1) (fun q hq => h2 q (mem_entsErase hq)) _ _ h
  have ⟨h3, h4⟩ := bucketAt_wf hr1 hb3
  exact setBucketAt_wf _ (entsInsert_sorted _ _ h3) (entsInsert_wf hm h4) _ _ hr1

theorem setSequence_wf (r : SVal) (p : List Bytes) (n : Nat) (r' : SVal) (h : SWF r)
    (hp : apiSetSequence r p n = .ok r') : SWF r' := by
  obtain ⟨s, e, hb, _, rfl⟩ := apiSetSequence_ok hp
  have ⟨h1, h2⟩ := bucketAt_wf h hb
  exact setBucketAt_wf _ h1 h2 _ _ h

/-! ### map laws: a transaction reads its own writes -/

/-- `Get` after `Put` of the same key returns the value just put -/
theorem get_put_same (r : SVal) (p : List Bytes) (k v : Bytes) (r' : SVal) (h : SWF r)
    (hp : apiPut r p k v = .ok r') : apiGet r' p k = .ok (some v) := by
  obtain ⟨s, e, hb, hp', _, _, _, rfl⟩ := apiPut_ok hp
  rw [apiGet_eq k (bucketAt_setBucketAt_same _ hb) hp']
  simp [entsGet, entsLookup_insert_same]

/-- … and leaves every other key of that bucket as it was -/
theorem get_put_other (r : SVal) (p : List Bytes) (k k' v : Bytes) (r' : SVal) (h : SWF r) (hne : k' ≠ k)
    (hp : apiPut r p k v = .ok r') : apiGet r' p k' = apiGet r p k' := by
  obtain ⟨s, e, hb, hp', _, _, _, rfl⟩ := apiPut_ok hp
  rw [apiGet_eq k' (bucketAt_setBucketAt_same _ hb) hp', apiGet_eq k' hb hp']
  simp [entsGet, entsLookup_insert_other _ _ hne]

/-- `Get` after `Delete` of the same key finds nothing -/
theorem get_delete_same (r : SVal) (p : List Bytes) (k : Bytes) (r' : SVal) (h : SWF r)
    (hp : apiDelete r p k = .ok r') : apiGet r' p k = .ok none ∨ apiGet r' p k = .error .rootOp := by
  left
  obtain ⟨s, e, hb, hp', ⟨hl, rfl⟩ | ⟨_, rfl⟩⟩ := apiDelete_ok hp
  · rw [apiGet_eq k hb hp']; simp [entsGet, hl]
  · rw [apiGet_eq k (bucketAt_setBucketAt_same _ hb) hp']
    simp [entsGet, entsLookup_erase_same]

theorem get_delete_other (r : SVal) (p : List Bytes) (k k' : Bytes) (r' : SVal) (h : SWF r) (hne : k' ≠ k)
    (hp : apiDelete r p k = .ok r') : apiGet r' p k' = apiGet r p k' := by
  obtain ⟨s, e, hb, hp', ⟨hl, rfl⟩ | ⟨_, rfl⟩⟩ := apiDelete_ok hp
  · rfl
  · rw [apiGet_eq k' (bucketAt_setBucketAt_same _ hb) hp', apiGet_eq k' hb hp']
    simp [entsGet, entsLookup_erase_other _ hne]

/-- a created bucket exists, is empty and has sequence 0 -/
theorem createBucket_creates (r : SVal) (p : List Bytes) (k : Bytes) (r' : SVal) (h : SWF r)
    (hp : apiCreateBucket r p k false = .ok r') : bucketAt (p ++ [k]) r' = some (0, []) := by
  obtain ⟨s, e, hb, _, ⟨hb', _, _⟩ | ⟨_, rfl⟩⟩ := apiCreateBucket_ok hp
  · cases hb'
  · rw [bucketAt_snoc k (bucketAt_setBucketAt_same _ hb), entsLookup_insert_same]
    simp

/-- a deleted bucket (with everything nested in it) is gone -/
theorem deleteBucket_removes (r : SVal) (p : List Bytes) (k : Bytes) (r' : SVal) (h : SWF r)
    (hp : apiDeleteBucket r p k = .ok r') : bucketAt (p ++ [k]) r' = none := by
  obtain ⟨s, e, hb, _, rfl⟩ := apiDeleteBucket_ok hp
  rw [bucketAt_snoc k (bucketAt_setBucketAt_same _ hb), entsLookup_erase_same]
  rfl

/-- a moved bucket arrives with its whole content (keys, values, nested buckets, sequence)
    and is gone from the source -/
theorem moveBucket_moves (r : SVal) (src : List Bytes) (k : Bytes) (dst : List Bytes) (r' : SVal) (h : SWF r)
    (hp : apiMoveBucket r src k dst = .ok r') :
    bucketAt (dst ++ [k]) r' = bucketAt (src ++ [k]) r ∧ bucketAt (src ++ [k]) r' = none := by
  obtain ⟨s, e, ds0, de, ms, me, ds, de1, hb1, hb2, hl, hne, hl2, hpre, hb3, rfl⟩ := apiMoveBucket_ok hp
  refine ⟨?_, ?_⟩
  · rw [bucketAt_snoc k (bucketAt_setBucketAt_same _ hb3), entsLookup_insert_same,
      bucketAt_snoc k hb1, hl]
  · exact moveBucket_src_gone hb1 hb2 hne hl2 hpre hb3

/-- sequences: `SetSequence` then `Sequence`; `NextSequence` increments by one -/
theorem sequence_set (r : SVal) (p : List Bytes) (n : Nat) (r' : SVal)
    (hp : apiSetSequence r p n = .ok r') : apiSequence r' p = .ok n := by
  obtain ⟨s, e, hb, hp', rfl⟩ := apiSetSequence_ok hp
  exact apiSequence_eq (bucketAt_setBucketAt_same _ hb) hp'

theorem sequence_next (r : SVal) (p : List Bytes) (r' : SVal) (n s : Nat)
    (hs : apiSequence r p = .ok s) (hp : apiNextSequence r p = .ok (r', n)) :
    n = (s + 1) % 2^64 ∧ apiSequence r' p = .ok n := by
  obtain ⟨s', e, hb, hp', hn, rfl⟩ := apiNextSequence_ok hp
  rw [apiSequence_eq hb hp'] at hs
  cases hs
  exact ⟨hn, apiSequence_eq (bucketAt_setBucketAt_same _ hb) hp'⟩

/-! ### documented errors -/

theorem put_errors (r : SVal) (p : List Bytes) (k v : Bytes) (s : Nat) (e : Ents)
    (hb : bucketAt p r = some (s, e)) (hp : p ≠ []) :
    (k = [] → apiPut r p k v = .error .keyRequired) ∧
    (k ≠ [] → k.length > maxKeySize → apiPut r p k v = .error .keyTooLarge) ∧
    (k ≠ [] → k.length ≤ maxKeySize → v.length ≤ maxValueSize → (∃ s' e', entsLookup e k = some (.bkt s' e')) →
       apiPut r p k v = .error .incompatibleValue) := by
  have h1 : p.isEmpty = false := by cases p <;> simp at hp ⊢
  refine ⟨?_, ?_, ?_⟩
  · intro hk; subst hk
    simp [apiPut, hb, h1]
  · intro hk hkl
    have h2 : k.isEmpty = false := by cases k <;> simp at hk ⊢
    simp [apiPut, hb, h1, h2, hkl]
  · intro hk hkl hvl ⟨s', e', hl⟩
    have h2 : k.isEmpty = false := by cases k <;> simp at hk ⊢
    have h3 : ¬ k.length > maxKeySize := by omega
    have h4 : ¬ v.length > maxValueSize := by omega
    simp [apiPut, hb, h1, h2, h3, h4, hl]

theorem createBucket_errors (r : SVal) (p : List Bytes) (k : Bytes) (s : Nat) (e : Ents)
    (hb : bucketAt p r = some (s, e)) :
    (k = [] → apiCreateBucket r p k false = .error .bucketNameRequired) ∧
    (k ≠ [] → (∃ s' e', entsLookup e k = some (.bkt s' e')) → apiCreateBucket r p k false = .error .bucketExists) ∧
    (k ≠ [] → (∃ v, entsLookup e k = some (.val v)) → apiCreateBucket r p k false = .error .incompatibleValue) := by
  refine ⟨?_, ?_, ?_⟩
  · intro hk; subst hk
    simp [apiCreateBucket, hb]
  · intro hk ⟨s', e', hl⟩
    have h2 : k.isEmpty = false := by cases k <;> simp at hk ⊢
    simp [apiCreateBucket, hb, h2, hl]
  · intro hk ⟨v, hl⟩
    have h2 : k.isEmpty = false := by cases k <;> simp at hk ⊢
    simp [apiCreateBucket, hb, h2, hl]

theorem deleteBucket_errors (r : SVal) (p : List Bytes) (k : Bytes) (s : Nat) (e : Ents)
    (hb : bucketAt p r = some (s, e)) :
    (entsLookup e k = none → apiDeleteBucket r p k = .error .bucketNotFound) ∧
    ((∃ v, entsLookup e k = some (.val v)) → apiDeleteBucket r p k = .error .incompatibleValue) := by
  refine ⟨?_, ?_⟩
  · intro hl
    simp [apiDeleteBucket, hb, hl]
  · intro ⟨v, hl⟩
    simp [apiDeleteBucket, hb, hl]

/-- a missing bucket anywhere on the path is reported, never silently created -/
theorem missing_bucket (r : SVal) (p : List Bytes) (k v : Bytes) (hb : bucketAt p r = none) :
    apiPut r p k v = .error .noBucket ∧ apiGet r p k = .error .noBucket ∧
    apiDelete r p k = .error .noBucket ∧ apiCreateBucket r p k false = .error .noBucket ∧
    apiDeleteBucket r p k = .error .noBucket := by
  simp [apiPut, apiGet, apiDelete, apiCreateBucket, apiDeleteBucket, hb]

/-! ### iteration order -/

/-- the keys a cursor / ForEach sees are strictly ascending in byte order -/
theorem keys_ascending (r : SVal) (p : List Bytes) (s : Nat) (e : Ents) (h : SWF r)
    (hb : bucketAt p r = some (s, e)) :
    List.Pairwise (fun a b => Bytes.lt a b = true) (e.map (·.1)) := by
  exact (entsSortedP_iff_keys e).mp (bucketAt_wf h hb).1

/-- non-vacuity -/
example : SWF (.bkt 0 [([1], .bkt 7 [([2], .val [9]), ([3], .bkt 0 [])]), ([4], .bkt 0 [])]) := by
  simp [SWF, EntsWF, EntsSorted, Bytes.lt]

end Bolt.C04
