/-
C04 — buckets, keys and sequences behave as a nested ordered map.

The reference model `Spec/NestedMap.lean` is what every real API result is compared with
(engine `apiprog`, for every generated program).  The theorems here show that the reference
model itself is the intended mathematical object: a tree of strictly ordered maps on which
the API calls obey the map laws, errors leave the state unchanged, and all operations
preserve well-formedness — so "equal to the reference model" means what the property says.
-/
import Bolt.Lemmas.NestedMap
namespace Bolt.C04
open Bolt

/-! ### well-formedness is preserved by every successful call -/

theorem put_wf (r : SVal) (p : List Bytes) (k v : Bytes) (r' : SVal) (h : SWF r)
    (hp : apiPut r p k v = .ok r') : SWF r' := by
  sorry

theorem delete_wf (r : SVal) (p : List Bytes) (k : Bytes) (r' : SVal) (h : SWF r)
    (hp : apiDelete r p k = .ok r') : SWF r' := by
  sorry

theorem createBucket_wf (r : SVal) (p : List Bytes) (k : Bytes) (b : Bool) (r' : SVal) (h : SWF r)
    (hp : apiCreateBucket r p k b = .ok r') : SWF r' := by
  sorry

theorem deleteBucket_wf (r : SVal) (p : List Bytes) (k : Bytes) (r' : SVal) (h : SWF r)
    (hp : apiDeleteBucket r p k = .ok r') : SWF r' := by
  sorry

theorem moveBucket_wf (r : SVal) (src : List Bytes) (k : Bytes) (dst : List Bytes) (r' : SVal) (h : SWF r)
    (hp : apiMoveBucket r src k dst = .ok r') : SWF r' := by
  sorry

theorem setSequence_wf (r : SVal) (p : List Bytes) (n : Nat) (r' : SVal) (h : SWF r)
    (hp : apiSetSequence r p n = .ok r') : SWF r' := by
  sorry

/-! ### map laws: a transaction reads its own writes -/

/-- `Get` after `Put` of the same key returns the value just put -/
theorem get_put_same (r : SVal) (p : List Bytes) (k v : Bytes) (r' : SVal) (h : SWF r)
    (hp : apiPut r p k v = .ok r') : apiGet r' p k = .ok (some v) := by
  sorry

/-- … and leaves every other key of that bucket as it was -/
theorem get_put_other (r : SVal) (p : List Bytes) (k k' v : Bytes) (r' : SVal) (h : SWF r) (hne : k' ≠ k)
    (hp : apiPut r p k v = .ok r') : apiGet r' p k' = apiGet r p k' := by
  sorry

/-- `Get` after `Delete` of the same key finds nothing -/
theorem get_delete_same (r : SVal) (p : List Bytes) (k : Bytes) (r' : SVal) (h : SWF r)
    (hp : apiDelete r p k = .ok r') : apiGet r' p k = .ok none ∨ apiGet r' p k = .error .rootOp := by
  sorry

theorem get_delete_other (r : SVal) (p : List Bytes) (k k' : Bytes) (r' : SVal) (h : SWF r) (hne : k' ≠ k)
    (hp : apiDelete r p k = .ok r') : apiGet r' p k' = apiGet r p k' := by
  sorry

/-- a created bucket exists, is empty and has sequence 0 -/
theorem createBucket_creates (r : SVal) (p : List Bytes) (k : Bytes) (r' : SVal) (h : SWF r)
    (hp : apiCreateBucket r p k false = .ok r') : bucketAt (p ++ [k]) r' = some (0, []) := by
  sorry

/-- a deleted bucket (with everything nested in it) is gone -/
theorem deleteBucket_removes (r : SVal) (p : List Bytes) (k : Bytes) (r' : SVal) (h : SWF r)
    (hp : apiDeleteBucket r p k = .ok r') : bucketAt (p ++ [k]) r' = none := by
  sorry

/-- a moved bucket arrives with its whole content (keys, values, nested buckets, sequence)
    and is gone from the source -/
theorem moveBucket_moves (r : SVal) (src : List Bytes) (k : Bytes) (dst : List Bytes) (r' : SVal) (h : SWF r)
    (hp : apiMoveBucket r src k dst = .ok r') :
    bucketAt (dst ++ [k]) r' = bucketAt (src ++ [k]) r ∧ bucketAt (src ++ [k]) r' = none := by
  sorry

/-- sequences: `SetSequence` then `Sequence`; `NextSequence` increments by one -/
theorem sequence_set (r : SVal) (p : List Bytes) (n : Nat) (r' : SVal)
    (hp : apiSetSequence r p n = .ok r') : apiSequence r' p = .ok n := by
  sorry

theorem sequence_next (r : SVal) (p : List Bytes) (r' : SVal) (n s : Nat)
    (hs : apiSequence r p = .ok s) (hp : apiNextSequence r p = .ok (r', n)) :
    n = (s + 1) % 2^64 ∧ apiSequence r' p = .ok n := by
  sorry

/-! ### documented errors -/

theorem put_errors (r : SVal) (p : List Bytes) (k v : Bytes) (s : Nat) (e : Ents)
    (hb : bucketAt p r = some (s, e)) (hp : p ≠ []) :
    (k = [] → apiPut r p k v = .error .keyRequired) ∧
    (k ≠ [] → k.length > maxKeySize → apiPut r p k v = .error .keyTooLarge) ∧
    (k ≠ [] → k.length ≤ maxKeySize → v.length ≤ maxValueSize → (∃ s' e', entsLookup e k = some (.bkt s' e')) →
       apiPut r p k v = .error .incompatibleValue) := by
  sorry

theorem createBucket_errors (r : SVal) (p : List Bytes) (k : Bytes) (s : Nat) (e : Ents)
    (hb : bucketAt p r = some (s, e)) :
    (k = [] → apiCreateBucket r p k false = .error .bucketNameRequired) ∧
    (k ≠ [] → (∃ s' e', entsLookup e k = some (.bkt s' e')) → apiCreateBucket r p k false = .error .bucketExists) ∧
    (k ≠ [] → (∃ v, entsLookup e k = some (.val v)) → apiCreateBucket r p k false = .error .incompatibleValue) := by
  sorry

theorem deleteBucket_errors (r : SVal) (p : List Bytes) (k : Bytes) (s : Nat) (e : Ents)
    (hb : bucketAt p r = some (s, e)) :
    (entsLookup e k = none → apiDeleteBucket r p k = .error .bucketNotFound) ∧
    ((∃ v, entsLookup e k = some (.val v)) → apiDeleteBucket r p k = .error .incompatibleValue) := by
  sorry

/-- a missing bucket anywhere on the path is reported, never silently created -/
theorem missing_bucket (r : SVal) (p : List Bytes) (k v : Bytes) (hb : bucketAt p r = none) :
    apiPut r p k v = .error .noBucket ∧ apiGet r p k = .error .noBucket ∧
    apiDelete r p k = .error .noBucket ∧ apiCreateBucket r p k false = .error .noBucket ∧
    apiDeleteBucket r p k = .error .noBucket := by
  sorry

/-! ### iteration order -/

/-- the keys a cursor / ForEach sees are strictly ascending in byte order -/
theorem keys_ascending (r : SVal) (p : List Bytes) (s : Nat) (e : Ents) (h : SWF r)
    (hb : bucketAt p r = some (s, e)) :
    List.Pairwise (fun a b => Bytes.lt a b = true) (e.map (·.1)) := by
  sorry

/-- non-vacuity -/
example : SWF (.bkt 0 [([1], .bkt 7 [([2], .val [9]), ([3], .bkt 0 [])]), ([4], .bkt 0 [])]) := by
  sorry

end Bolt.C04
