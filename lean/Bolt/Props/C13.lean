/-
C13 — options change performance, never content (protocol part).
The reference model `Spec/NestedMap` has no options at all; every API result of every history
is compared with it under every option assignment (engine `options`).  Here: the allocator
backend chosen at (re)open and the way the free list is obtained (read from the persisted page
or rebuilt by scanning) do not change what is free.
-/
import Bolt.Lemmas.Store
import Bolt.Props.C09
import Bolt.Props.C20
namespace Bolt.C13
open Bolt.FL Bolt.Store

/-- reopening with either backend gives the same free ids, no pending pages, and leaves the
    committed version untouched -/
theorem reopen_backend_irrelevant (s : St) (hr : Reachable s) (sa sh : St)
    (ha : stepAll s (.reopen .array) = some sa) (hh : stepAll s (.reopen .hashmap) = some sh) :
    sa.fl.freeIds = sh.fl.freeIds ∧ sa.fl.pendingIds = [] ∧ sh.fl.pendingIds = [] ∧
    sa.cur = s.cur ∧ sh.cur = s.cur ∧ sa.disk = s.disk ∧ sh.disk = s.disk := by
  obtain ⟨_, _, fa, hfa, rfl⟩ := step_reopen ha
  obtain ⟨_, _, fh, hfh, rfl⟩ := step_reopen hh
  obtain ⟨ga, h1a, h2a, h3a⟩ := init_freeIds (freshFree_sorted s.cur) (FL.empty .array)
  obtain ⟨gh, h1h, h2h, h3h⟩ := init_freeIds (freshFree_sorted s.cur) (FL.empty .hashmap)
  rw [hfa] at h1a
  rw [hfh] at h1h
  cases h1a
  cases h1h
  refine ⟨?_, ?_, ?_, rfl, rfl, rfl, rfl⟩
  · show fa.freeIds = fh.freeIds
    rw [h2a, h2h]
  · show fa.pendingIds = []
    rw [pendingIds_eq, h3a]; rfl
  · show fh.pendingIds = []
    rw [pendingIds_eq, h3h]; rfl

/-- reopen is always possible when no transaction is open, with either backend -/
theorem reopen_enabled (s : St) (hr : Reachable s) (hw : s.w = none) (hn : s.readers = []) (k : Kind) :
    (stepAll s (.reopen k)).isSome := by
  obtain ⟨g, h1, _⟩ := init_freeIds (freshFree_sorted s.cur) (FL.empty k)
  simp only [stepAll, stepReopen, hw, hn, h1]
  simp

/-- **A free list rebuilt by scanning equals the persisted one**: in every reachable state
    without a writer, the ids below the high-water mark that the newest version does not
    reference (what a scan computes) are exactly free ∪ pending (what `Write` persists). -/
theorem scan_eq_persisted (s : St) (hr : Reachable s) (hw : s.w = none) :
    ∀ p, p ∈ freshFree s.cur ↔ p ∈ s.fl.copyall := by
  intro p
  rw [(C09.copyall_spec s.fl hr.inv.fl).2 p]
  exact C20.rebuild_exact s hr hw p

/-- the accepted event sequences and the versions they produce do not depend on the backend
    of the initial database as far as page sets are concerned: allocation-free events behave
    identically (allocation choices are the only backend-dependent observable, C09) -/
theorem init_backend_irrelevant : (init .array).cur = (init .hashmap).cur ∧ (init .array).disk = (init .hashmap).disk ∧
    (init .array).fl.freeIds = (init .hashmap).fl.freeIds := by
  refine ⟨rfl, rfl, ?_⟩
  show (FL.empty .array).freeIds = (FL.empty .hashmap).freeIds
  rw [empty_freeIds, empty_freeIds]

end Bolt.C13
