/-
C04/C05/C07 — the functions of node.go / bucket.go / cursor.go that the hand-written models
`Model/Node`, `Model/BTree`, `Model/Bkt`, `Model/Cursor` transcribe still have the bodies the
models were transcribed from (fingerprint of the gofmt-printed body without comments, statement
count; regenerated from /repo on every run by tools/extract).  An edit of any of them breaks
this theorem: the tie is then re-established by re-reading the function against the model; the
`nodeops`/`btree`/`bkt`/`apiprog` engines meanwhile search for a concrete divergence.
-/
import Bolt.Gen.Tree
namespace Bolt.GenC04
open Bolt.Gen

theorem tree_functions_unchanged : treeFns =
  [("node.minKeys", "c3ed9619426c91d2:5"),
   ("node.size", "d0e7d5c2840a7f8c:9"),
   ("node.sizeLessThan", "c9e2b05e05011a44:12"),
   ("node.pageElementSize", "26a3cdf80f274047:5"),
   ("node.childAt", "77609bccc5a8f923:5"),
   ("node.childIndex", "8503b969f0af7966:5"),
   ("node.numChildren", "1ee2af9d19d4a2b0:2"),
   ("node.nextSibling", "453626769aee3c4f:9"),
   ("node.prevSibling", "bdafb1017ac60d20:9"),
   ("node.put", "ea9a6aadc691a3fc:24"),
   ("node.del", "8aad184bad30a8c5:9"),
   ("node.read", "a3ce1b252f0b4424:10"),
   ("node.split", "aae0dca39f9dbafc:12"),
   ("node.splitTwo", "0e8ee8abb7d8e909:22"),
   ("node.splitIndex", "8a620932198a4234:14"),
   ("node.spill", "67e2a60cdfb9ac02:47"),
   ("node.rebalance", "dee4cb88d8464351:60"),
   ("node.removeChild", "b75e0d673f46300d:7"),
   ("node.free", "caa619b766b34225:5"),
   ("Bucket.Bucket", "72d453aa41ae6932:17"),
   ("Bucket.openBucket", "06af378f3e480567:17"),
   ("Bucket.CreateBucket", "67dc26975940c769:35"),
   ("Bucket.DeleteBucket", "028bb91b3d037bd0:48"),
   ("Bucket.Put", "963b2f9315c77fa2:35"),
   ("Bucket.Delete", "694bcd2029341199:28"),
   ("Bucket.SetSequence", "3334fda25a373c73:12"),
   ("Bucket.NextSequence", "577a23e2dfc7e54c:12"),
   ("Bucket.spill", "7784957f29cd4038:41"),
   ("Bucket.inlineable", "202cb356e651a1d1:16"),
   ("Bucket.maxInlineBucketSize", "368c2725f186df42:2"),
   ("Bucket.write", "c90313b36cce0d5c:8"),
   ("Bucket.rebalance", "6990f4f66e31c44b:8"),
   ("Bucket.node", "672180804a16b02b:26"),
   ("Bucket.free", "45a48dba6519149f:13"),
   ("Cursor.seek", "1bcba52cba5c402c:4"),
   ("Cursor.search", "8769f60f19c8a852:16"),
   ("Cursor.searchNode", "ad4ad9ed26a94fd6:14"),
   ("Cursor.searchPage", "e1652f3a698bd6a3:15"),
   ("Cursor.nsearch", "cff59ef42c5277e2:15"),
   ("Cursor.node", "e49c14906c9db2bf:16"),
   ("Cursor.keyValue", "8c62dd5029d200ed:11")] := rfl

end Bolt.GenC04
