/-
C06 — committed pages are never overwritten while still visible.
-/
import Bolt.Lemmas.Store
namespace Bolt.C06
open Bolt.FL Bolt.Store

/-- **No visible page is written.** In every reachable state with an open writer, no page the
    writer has allocated (these are exactly the pages `Commit` writes, checked against the
    I/O trace of every real commit) belongs to the newest committed version or to the
    version of any open reader — whatever the history of readers, rollbacks, failed commits
    and reopenings, for both freelist backends. -/
theorem no_visible_write (s : St) (hr : Reachable s) (hb : s.cur.txid + 2 < maxU64)
    (w : W) (hw : s.w = some w) :
    ∀ p ∈ w.allocated, p ∉ s.cur.used ∧ ∀ r ∈ s.readers, p ∉ r.used := by
  have hi := hr.inv
  have hri := hr.rinv hb
  intro p hp
  rw [← St.allocated_some hw] at hp
  exact ⟨(hi.alloc_bd p hp).2.2.1, fun r hrd hpr => reader_page_not_allocated hi hri hrd hpr hp⟩

/-- The writer's meta page goes to the slot that does not hold the newest committed meta. -/
theorem meta_slot_differs (s : St) (hr : Reachable s) (w : W) (hw : s.w = some w) :
    w.txid = s.cur.txid + 1 ∧ w.txid % 2 ≠ s.cur.txid % 2 := by
  have h := hr.inv.wr_tx w hw
  exact ⟨h, by omega⟩

/-- Pages 0 and 1 (the meta pages) are never allocated as data pages. -/
theorem never_allocates_meta (s : St) (hr : Reachable s) (w : W) (hw : s.w = some w) :
    ∀ p ∈ w.allocated, 2 ≤ p := by
  intro p hp
  rw [← St.allocated_some hw] at hp
  exact (hr.inv.alloc_bd p hp).1

/-- The newest committed version is intact in the file in every reachable state. -/
theorem newest_version_intact (s : St) (hr : Reachable s) : Intact s.disk s.cur :=
  hr.inv.disk

end Bolt.C06
