/-
C09 — the free-page allocator obeys its specification (both backends).
Property theorems only; helper lemmas live in `Bolt/Lemmas/Freelist.lean`.
-/
import Bolt.Lemmas.Freelist
namespace Bolt.C09
open Bolt.FL

/-- `n` consecutive ids starting at `s` are all free. -/
def RunFree (f : FL) (s n : Nat) : Prop := ∀ q, s ≤ q → q < s + n → q ∈ f.freeIds

/-! ## Allocate -/

/-- **Allocate (array backend)**: the result is the first id of `n` consecutive pages that
    were all free and are free no longer; "none" (0) only when no such run exists; the
    scan never panics on a well-formed list; pending pages are untouched. -/
theorem array_allocate_spec (f : FL) (hk : f.kind = .array) (hinv : FLInv f) (txid n c : Nat) :
    ∃ g id, f.allocate txid n c = some (g, id) ∧ FLInv g ∧ g.pending = f.pending ∧
      (id ≠ 0 → 0 < n ∧ 2 ≤ id ∧ RunFree f id n ∧
                (∀ q, q ∈ g.freeIds ↔ (q ∈ f.freeIds ∧ ¬ (id ≤ q ∧ q < id + n))) ∧
                (∀ s, s < id → ¬ RunFree f s n)) ∧
      (id = 0 → g = f ∧ (n = 0 ∨ ∀ s, ¬ RunFree f s n)) := by
  exact array_allocate_spec' hk hinv txid n c

/-- **Allocate (hashmap backend)**, for *every* span the Go map iteration may pick
    (`choice`): same contract, except that the run need not be the lowest one. -/
theorem hm_allocate_spec (f : FL) (hk : f.kind = .hashmap) (hinv : FLInv f) (txid n c : Nat)
    (g : FL) (id : Nat) (h : f.allocate txid n c = some (g, id)) :
    FLInv g ∧ g.pending = f.pending ∧
      (id ≠ 0 → 0 < n ∧ 2 ≤ id ∧ RunFree f id n ∧
                (∀ q, q ∈ g.freeIds ↔ (q ∈ f.freeIds ∧ ¬ (id ≤ q ∧ q < id + n)))) ∧
      (id = 0 → g = f ∧ (n = 0 ∨ ∀ s, ¬ RunFree f s n)) := by
  exact hm_allocate_spec' hk hinv h

/-- The hashmap backend can always answer: if a run of `n` free ids exists there is a
    legal non-zero choice, otherwise 0 is the (only) legal answer. -/
theorem hm_allocate_total (f : FL) (hk : f.kind = .hashmap) (hinv : FLInv f) (txid n : Nat) :
    ∃ c g id, f.allocate txid n c = some (g, id) := by
  exact hm_allocate_total' hk hinv txid n

/-- Pages 0 and 1 are never handed out (either backend, any legal choice). -/
theorem never_pages_0_1 (f : FL) (hinv : FLInv f) (txid n c : Nat) (g : FL) (id : Nat)
    (h : f.allocate txid n c = some (g, id)) : id = 0 ∨ 2 ≤ id := by
  cases hk : f.kind with
  | array =>
    obtain ⟨g', id', h', _, _, h1, _⟩ := array_allocate_spec' hk hinv txid n c
    rw [h] at h'
    cases h'
    by_cases h0 : id = 0
    · exact Or.inl h0
    · exact Or.inr (h1 h0).2.1
  | hashmap =>
    obtain ⟨_, _, h1, _⟩ := hm_allocate_spec' hk hinv h
    by_cases h0 : id = 0
    · exact Or.inl h0
    · exact Or.inr (h1 h0).2.1

/-! ## Free -/

/-- **Free** makes the page and its overflow pending for that transaction, never directly
    reusable: the free set is unchanged and the ids are recorded under `txid`. -/
theorem free_spec (f : FL) (hinv : FLInv f) (txid id ov : Nat) (g : FL)
    (h : f.free txid id ov = some g) :
    FLInv g ∧ g.freeIds = f.freeIds ∧ 2 ≤ id ∧
    (∀ q, q ∈ g.pendingIds ↔ (q ∈ f.pendingIds ∨ (id ≤ q ∧ q ≤ id + ov))) ∧
    (∀ q, id ≤ q → q ≤ id + ov → ∃ txp a, (txid, txp) ∈ g.pending ∧ (q, a) ∈ txp.ids) := by
  obtain ⟨hg, hfree, hperm⟩ := free_inv hinv h
  obtain ⟨hid, _, hgeq⟩ := free_some h
  refine ⟨hg, hfree, hid, ?_, ?_⟩
  · intro q
    rw [hperm.mem_iff, List.mem_append, mem_expandSpan']
    constructor
    · rintro (h1 | h1)
      · exact Or.inl h1
      · exact Or.inr ⟨h1.1, by fomega⟩
    · rintro (h1 | h1)
      · exact Or.inl h1
      · exact Or.inr ⟨h1.1, by fomega⟩
  · intro q h1 h2
    obtain ⟨txp, hmem, hall⟩ := addPending_mem f.pending txid
      ((expandSpan (id, ov + 1)).map (fun q => (q, (lookupAlloc f.allocs id).getD 0)))
    refine ⟨txp, (lookupAlloc f.allocs id).getD 0, ?_, ?_⟩
    · rw [hgeq]; exact hmem
    · apply hall
      rw [List.mem_map]
      exact ⟨q, mem_expandSpan'.mpr ⟨h1, by omega⟩, rfl⟩

/-- A freed page cannot be returned by the next `Allocate` (it is not free). -/
theorem freed_not_allocatable (f : FL) (hinv : FLInv f) (txid id ov : Nat) (g : FL)
    (h : f.free txid id ov = some g) (t n c : Nat) (g' : FL) (r : Nat)
    (ha : g.allocate t n c = some (g', r)) (hr : r ≠ 0) :
    ∀ q, id ≤ q → q ≤ id + ov → ¬ (r ≤ q ∧ q < r + n) := by
  obtain ⟨hg, hfree, hperm⟩ := free_inv hinv h
  intro q h1 h2 hin
  have hpend : q ∈ g.pendingIds := by
    rw [hperm.mem_iff, List.mem_append, mem_expandSpan']
    exact Or.inr ⟨h1, by omega⟩
  have hrun : RunFree g r n := by
    cases hk : g.kind with
    | array =>
      obtain ⟨g'', r', h', _, _, h3, _⟩ := array_allocate_spec' hk hg t n c
      rw [ha] at h'
      cases h'
      exact (h3 hr).2.2.1
    | hashmap =>
      obtain ⟨_, _, h3, _⟩ := hm_allocate_spec' hk hg ha
      exact (h3 hr).2.2.1
  exact hg.disjoint q (hrun q hin.1 hin.2) hpend

/-- `Free` refuses (the Go code panics) pages 0/1 and pages already free or pending. -/
theorem free_rejects (f : FL) (txid id ov : Nat) :
    (id ≤ 1 ∨ ∃ q, id ≤ q ∧ q ≤ id + ov ∧ f.freed q = true) → f.free txid id ov = none := by
  intro h
  unfold FL.free
  split
  · rfl
  · rename_i hid
    rcases h with h | ⟨q, h1, h2, h3⟩
    · exact absurd h hid
    · have : ((List.range (ov + 1)).map (id + ·)).any f.freed = true := by
        rw [List.any_eq_true]
        refine ⟨q, ?_, h3⟩
        rw [List.mem_map]
        exact ⟨q - id, List.mem_range.mpr (by omega), by omega⟩
      simp only [this, if_true]

/-! ## Release -/

/-- **Release safety**: a page that `ReleasePendingPages` moves from pending to free was
    freed by some transaction `t` and allocated by `a` (0 = unknown/older) such that no
    registered reader `r` satisfies `a ≤ r < t` — no registered reader's version can
    contain it. Reader ids below `2^64-1` (the `tid+1` wrap at MaxUint64 is out of scope). -/
theorem release_safe (f : FL) (hinv : FLInv f) (hr : ∀ r ∈ f.readers, r < maxU64)
    (q : Nat) (hq : q ∈ (f.releasePending).freeIds) (hnf : q ∉ f.freeIds) :
    ∃ t txp a, (t, txp) ∈ f.pending ∧ (q, a) ∈ txp.ids ∧ ∀ r ∈ f.readers, ¬ (a ≤ r ∧ r < t) := by
  obtain ⟨_, _, h3, _⟩ := releasePending_rel_safe hinv hr
  rcases h3 q hq with h | h
  · exact absurd h hnf
  · exact h

/-- **Release liveness**: with no registered reader every pending page becomes free
    (transaction ids below `2^64-1`). -/
theorem release_live (f : FL) (hinv : FLInv f) (hnr : f.readers = [])
    (ht : ∀ p ∈ f.pending, p.1 < maxU64) :
    (f.releasePending).pending = [] ∧
    ∀ q, q ∈ (f.releasePending).freeIds ↔ (q ∈ f.freeIds ∨ q ∈ f.pendingIds) := by
  exact releasePending_live hinv hnr ht

/-- With readers: everything freed by transactions older than the oldest reader is released. -/
theorem release_live_below_min (f : FL) (hinv : FLInv f) (m : Nat)
    (hm : ∀ r ∈ f.readers, m ≤ r) (hr : f.readers ≠ []) :
    ∀ p ∈ (f.releasePending).pending, m ≤ p.1 := by
  exact releasePending_below_min hinv m hm hr

/-- `ReleasePendingPages` neither loses nor duplicates pages, and keeps the invariant. -/
theorem release_preserves (f : FL) (hinv : FLInv f) :
    FLInv f.releasePending ∧
    ∀ q, (q ∈ (f.releasePending).freeIds ∨ q ∈ (f.releasePending).pendingIds) ↔
         (q ∈ f.freeIds ∨ q ∈ f.pendingIds) := by
  obtain ⟨h1, h2, _, _⟩ := releasePending_rel_true hinv
  exact ⟨h1, h2⟩

/-! ## Rollback -/

/-- **Rollback** of a transaction that only freed pages restores exactly the prior free
    and pending sets. -/
theorem rollback_restores (f : FL) (hinv : FLInv f) (txid : Nat)
    (hnone : ∀ p ∈ f.pending, p.1 ≠ txid)
    (frees : List (Nat × Nat)) (g : FL)
    (hg : frees.foldlM (fun (s : FL) (x : Nat × Nat) => s.free txid x.1 x.2) f = some g)
    (g' : FL) (hrb : g.rollback txid = some g') :
    g'.freeIds = f.freeIds ∧ g'.pending = f.pending ∧ FLInv g' := by
  obtain ⟨h1, h2, h3, h4⟩ := foldlM_free_frame txid frees f g hg
  obtain ⟨h5, h6, h7, h8⟩ := rollback_frame' hrb
  have hp : g'.pending = f.pending := by
    rw [h8, h4, List.filter_eq_self]
    intro p hp
    simpa using hnone p hp
  exact ⟨freeIds_congr (h5.trans h1) (h6.trans h2) (h7.trans h3), hp,
         hinv.congr (h5.trans h1) (h6.trans h2) (h7.trans h3) hp⟩

/-- Rollback never touches other transactions' pending pages or the free set. -/
theorem rollback_frame (f : FL) (txid : Nat) (g : FL) (h : f.rollback txid = some g) :
    g.freeIds = f.freeIds ∧ g.pending = f.pending.filter (fun p => p.1 ≠ txid) := by
  unfold FL.rollback at h
  split at h
  · rename_i hnone
    cases h
    refine ⟨rfl, ?_⟩
    rw [List.find?_eq_none] at hnone
    symm
    rw [List.filter_eq_self]
    intro p hp
    simpa using hnone p hp
  · split at h
    · cases h
    · cases h
      exact ⟨rfl, rfl⟩

/-! ## Serialisation -/

/-- `Copyall` is the sorted union of free and pending ids. -/
theorem copyall_spec (f : FL) (hinv : FLInv f) :
    List.Pairwise (· < ·) f.copyall ∧ ∀ q, q ∈ f.copyall ↔ (q ∈ f.freeIds ∨ q ∈ f.pendingIds) := by
  exact ⟨copyall_sorted hinv, fun q => mem_copyall⟩

/-- **Write then Read** preserves the set of free and pending pages — for every list
    length, in particular beyond 65534 entries (the 0xFFFF count convention) — and gives
    the same free list for the array and the hashmap backend. -/
theorem write_read (f : FL) (hinv : FLInv f) (k : Kind) :
    ∃ g, (FL.empty k).read f.write.1 f.write.2 = some g ∧ g.freeIds = f.copyall ∧ g.pending = [] := by
  unfold FL.read
  rw [pageIds_write, sortNat_of_sorted (sorted_lt_iff.mp (copyall_sorted hinv)).1]
  obtain ⟨g, h1, h2, h3⟩ := init_freeIds (copyall_sorted hinv) (FL.empty k)
  exact ⟨g, h1, h2, h3⟩

/-- The page written is never larger than the size `commitFreelist` allocated for it. -/
theorem estimated_size_sufficient (f : FL) :
    16 + 8 * f.write.2.length ≤ f.estimatedWritePageSize := by
  have hl := length_copyall f
  unfold FL.estimatedWritePageSize FL.write
  simp only []
  split
  · simp
  · split
    · rename_i h0 h1
      have : ¬ f.count ≥ 0xFFFF := by omega
      simp only [this, if_false, hl]; omega
    · rename_i h0 h1
      have : f.count ≥ 0xFFFF := by omega
      simp only [this, if_true, List.length_cons, hl]; omega

/-! ## Backend equivalence -/

/-- Returning ids to the free set gives the same free list in both backends: the hashmap
    span merge computes exactly the sorted merge the array backend computes. -/
theorem mergeSpans_backends_agree (f : FL) (hinv : FLInv f) (ids : List Nat)
    (hnd : ids.Nodup) (hdisj : ∀ q ∈ ids, q ∉ f.freeIds) (hge : ∀ q ∈ ids, 2 ≤ q) :
    (f.mergeSpans ids).freeIds = mergeSorted f.freeIds (sortNat ids) := by
  exact mergeSpans_freeIds_eq hinv hnd hdisj hge

/-- `Init` on the same sorted distinct ids yields the same free list in both backends. -/
theorem init_backends_agree (ids : List Nat) (hs : List.Pairwise (· < ·) ids) (k : Kind) :
    ∃ g, (FL.empty k).init ids = some g ∧ g.freeIds = ids := by
  obtain ⟨g, h1, h2, _⟩ := init_freeIds hs (FL.empty k)
  exact ⟨g, h1, h2⟩

/-! ## Non-vacuity -/

/-- A concrete non-trivial state satisfies the invariant (so the theorems above are not
    vacuous): hashmap backend, two spans, one pending page, one reader. -/
example : FLInv { kind := .hashmap, ids := [], spans := [(3, 2), (9, 1)], readers := [4],
                  allocs := [(7, 2)], pending := [(5, { ids := [(12, 3)], lastReleaseBegin := 0 })] } := by
  refine ⟨(by intro h; cases h), fun _ => ⟨(by decide), (by decide)⟩, (by decide), (by decide), (by decide), (by decide)⟩

end Bolt.C09
