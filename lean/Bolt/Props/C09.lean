/-
C09 — the free-page allocator obeys its specification (both backends).
Property theorems only; helper lemmas live in `Bolt/Lemmas/Freelist.lean`.
-/
import Bolt.Lemmas.Freelist
namespace Bolt.C09
open Bolt.FL

/-- `n` consecutive ids starting at `s` are all free. -/
def RunFree (f : FL) (s n : Nat) : Prop := ∀ q, s ≤ q → q < s + n → q ∈ f.freeIds

/-! ## Allocate -/

/-- **Allocate (array backend)**: the result is the first id of `n` consecutive pages that
    were all free and are free no longer; "none" (0) only when no such run exists; the
    scan never panics on a well-formed list; pending pages are untouched. -/
theorem array_allocate_spec (f : FL) (hk : f.kind = .array) (hinv : FLInv f) (txid n c : Nat) :
    ∃ g id, f.allocate txid n c = some (g, id) ∧ FLInv g ∧ g.pending = f.pending ∧
      (id ≠ 0 → 0 < n ∧ 2 ≤ id ∧ RunFree f id n ∧
                (∀ q, q ∈ g.freeIds ↔ (q ∈ f.freeIds ∧ ¬ (id ≤ q ∧ q < id + n))) ∧
                (∀ s, s < id → ¬ RunFree f s n)) ∧
      (id = 0 → g = f ∧ (n = 0 ∨ ∀ s, ¬ RunFree f s n)) := by
  sorry

/-- **Allocate (hashmap backend)**, for *every* span the Go map iteration may pick
    (`choice`): same contract, except that the run need not be the lowest one. -/
theorem hm_allocate_spec (f : FL) (hk : f.kind = .hashmap) (hinv : FLInv f) (txid n c : Nat)
    (g : FL) (id : Nat) (h : f.allocate txid n c = some (g, id)) :
    FLInv g ∧ g.pending = f.pending ∧
      (id ≠ 0 → 0 < n ∧ 2 ≤ id ∧ RunFree f id n ∧
                (∀ q, q ∈ g.freeIds ↔ (q ∈ f.freeIds ∧ ¬ (id ≤ q ∧ q < id + n)))) ∧
      (id = 0 → g = f ∧ (n = 0 ∨ ∀ s, ¬ RunFree f s n)) := by
  sorry

/-- The hashmap backend can always answer: if a run of `n` free ids exists there is a
    legal non-zero choice, otherwise 0 is the (only) legal answer. -/
theorem hm_allocate_total (f : FL) (hk : f.kind = .hashmap) (hinv : FLInv f) (txid n : Nat) :
    ∃ c g id, f.allocate txid n c = some (g, id) := by
  sorry

/-- Pages 0 and 1 are never handed out (either backend, any legal choice). -/
theorem never_pages_0_1 (f : FL) (hinv : FLInv f) (txid n c : Nat) (g : FL) (id : Nat)
    (h : f.allocate txid n c = some (g, id)) : id = 0 ∨ 2 ≤ id := by
  sorry

/-! ## Free -/

/-- **Free** makes the page and its overflow pending for that transaction, never directly
    reusable: the free set is unchanged and the ids are recorded under `txid`. -/
theorem free_spec (f : FL) (hinv : FLInv f) (txid id ov : Nat) (g : FL)
    (h : f.free txid id ov = some g) :
    FLInv g ∧ g.freeIds = f.freeIds ∧ 2 ≤ id ∧
    (∀ q, q ∈ g.pendingIds ↔ (q ∈ f.pendingIds ∨ (id ≤ q ∧ q ≤ id + ov))) ∧
    (∀ q, id ≤ q → q ≤ id + ov → ∃ txp a, (txid, txp) ∈ g.pending ∧ (q, a) ∈ txp.ids) := by
  sorry

/-- A freed page cannot be returned by the next `Allocate` (it is not free). -/
theorem freed_not_allocatable (f : FL) (hinv : FLInv f) (txid id ov : Nat) (g : FL)
    (h : f.free txid id ov = some g) (t n c : Nat) (g' : FL) (r : Nat)
    (ha : g.allocate t n c = some (g', r)) (hr : r ≠ 0) :
    ∀ q, id ≤ q → q ≤ id + ov → ¬ (r ≤ q ∧ q < r + n) := by
  sorry

/-- `Free` refuses (the Go code panics) pages 0/1 and pages already free or pending. -/
theorem free_rejects (f : FL) (txid id ov : Nat) :
    (id ≤ 1 ∨ ∃ q, id ≤ q ∧ q ≤ id + ov ∧ f.freed q = true) → f.free txid id ov = none := by
  sorry

/-! ## Release -/

/-- **Release safety**: a page that `ReleasePendingPages` moves from pending to free was
    freed by some transaction `t` and allocated by `a` (0 = unknown/older) such that no
    registered reader `r` satisfies `a ≤ r < t` — no registered reader's version can
    contain it. Reader ids below `2^64-1` (the `tid+1` wrap at MaxUint64 is out of scope). -/
theorem release_safe (f : FL) (hinv : FLInv f) (hr : ∀ r ∈ f.readers, r < maxU64)
    (q : Nat) (hq : q ∈ (f.releasePending).freeIds) (hnf : q ∉ f.freeIds) :
    ∃ t txp a, (t, txp) ∈ f.pending ∧ (q, a) ∈ txp.ids ∧ ∀ r ∈ f.readers, ¬ (a ≤ r ∧ r < t) := by
  sorry

/-- **Release liveness**: with no registered reader every pending page becomes free
    (transaction ids below `2^64-1`). -/
theorem release_live (f : FL) (hinv : FLInv f) (hnr : f.readers = [])
    (ht : ∀ p ∈ f.pending, p.1 < maxU64) :
    (f.releasePending).pending = [] ∧
    ∀ q, q ∈ (f.releasePending).freeIds ↔ (q ∈ f.freeIds ∨ q ∈ f.pendingIds) := by
  sorry

/-- With readers: everything freed by transactions older than the oldest reader is released. -/
theorem release_live_below_min (f : FL) (hinv : FLInv f) (m : Nat)
    (hm : ∀ r ∈ f.readers, m ≤ r) (hr : f.readers ≠ []) :
    ∀ p ∈ (f.releasePending).pending, m ≤ p.1 := by
  sorry

/-- `ReleasePendingPages` neither loses nor duplicates pages, and keeps the invariant. -/
theorem release_preserves (f : FL) (hinv : FLInv f) :
    FLInv f.releasePending ∧
    ∀ q, (q ∈ (f.releasePending).freeIds ∨ q ∈ (f.releasePending).pendingIds) ↔
         (q ∈ f.freeIds ∨ q ∈ f.pendingIds) := by
  sorry

/-! ## Rollback -/

/-- **Rollback** of a transaction that only freed pages restores exactly the prior free
    and pending sets. -/
theorem rollback_restores (f : FL) (hinv : FLInv f) (txid : Nat)
    (hnone : ∀ p ∈ f.pending, p.1 ≠ txid)
    (frees : List (Nat × Nat)) (g : FL)
    (hg : frees.foldlM (fun (s : FL) (x : Nat × Nat) => s.free txid x.1 x.2) f = some g)
    (g' : FL) (hrb : g.rollback txid = some g') :
    g'.freeIds = f.freeIds ∧ g'.pending = f.pending ∧ FLInv g' := by
  sorry

/-- Rollback never touches other transactions' pending pages or the free set. -/
theorem rollback_frame (f : FL) (txid : Nat) (g : FL) (h : f.rollback txid = some g) :
    g.freeIds = f.freeIds ∧ g.pending = f.pending.filter (fun p => p.1 ≠ txid) := by
  sorry

/-! ## Serialisation -/

/-- `Copyall` is the sorted union of free and pending ids. -/
theorem copyall_spec (f : FL) (hinv : FLInv f) :
    List.Pairwise (· < ·) f.copyall ∧ ∀ q, q ∈ f.copyall ↔ (q ∈ f.freeIds ∨ q ∈ f.pendingIds) := by
  sorry

/-- **Write then Read** preserves the set of free and pending pages — for every list
    length, in particular beyond 65534 entries (the 0xFFFF count convention) — and gives
    the same free list for the array and the hashmap backend. -/
theorem write_read (f : FL) (hinv : FLInv f) (k : Kind) :
    ∃ g, (FL.empty k).read f.write.1 f.write.2 = some g ∧ g.freeIds = f.copyall ∧ g.pending = [] := by
  sorry

/-- The page written is never larger than the size `commitFreelist` allocated for it. -/
theorem estimated_size_sufficient (f : FL) :
    16 + 8 * f.write.2.length ≤ f.estimatedWritePageSize := by
  sorry

/-! ## Backend equivalence -/

/-- Returning ids to the free set gives the same free list in both backends: the hashmap
    span merge computes exactly the sorted merge the array backend computes. -/
theorem mergeSpans_backends_agree (f : FL) (hinv : FLInv f) (ids : List Nat)
    (hnd : ids.Nodup) (hdisj : ∀ q ∈ ids, q ∉ f.freeIds) (hge : ∀ q ∈ ids, 2 ≤ q) :
    (f.mergeSpans ids).freeIds = mergeSorted f.freeIds (sortNat ids) := by
  sorry

/-- `Init` on the same sorted distinct ids yields the same free list in both backends. -/
theorem init_backends_agree (ids : List Nat) (hs : List.Pairwise (· < ·) ids) (k : Kind) :
    ∃ g, (FL.empty k).init ids = some g ∧ g.freeIds = ids := by
  sorry

/-! ## Non-vacuity -/

/-- A concrete non-trivial state satisfies the invariant (so the theorems above are not
    vacuous): hashmap backend, two spans, one pending page, one reader. -/
example : FLInv { kind := .hashmap, ids := [], spans := [(3, 2), (9, 1)], readers := [4],
                  allocs := [(7, 2)], pending := [(5, { ids := [(12, 3)], lastReleaseBegin := 0 })] } := by
  sorry

end Bolt.C09
