/-
C12/C04 — the independent reader on a whole bucket tree with nested buckets.  `realize` turns a
state of the bucket model (`Model/Bkt`, every nested bucket attached) into the trees that are
actually on disk: the value of a nested-bucket element is the 16-byte header (root page id,
sequence) followed, for an inline bucket, by the image of its root leaf (`Bucket.write`).  If the
file holds the images of all pages of these trees (`LaidBk`), the version-2 reader
`Format.decodeTree` returns exactly the content `absBk` of the state — nested buckets, inline or
paged, included — and no structural error.  With `C04Bkt.transaction_refines` this closes the chain
reference model ⟸ bucket model ⟸ pages ⟸ bytes for nested buckets.
-/
import Bolt.Props.C12Tree
import Bolt.Model.BktInv
import Bolt.Lemmas.FormatBk
namespace Bolt.C12Bk
open Bolt Bolt.BTree Bolt.Bkt

/-- `Bucket.write` / the bucket header: what a nested-bucket element holds -/
def bucketVal (root seq : Nat) (inlineLeaf : Option (List Item)) : Bytes :=
  putLE 8 root ++ putLE 8 seq ++
    (match inlineLeaf with
     | some items => Enc.leafPage 0 0 (items.map C12Node.toLeafElem)
     | none => [])

/-- the root leaf of an inline bucket -/
def inlineItems (b : Bk) : Option (List Item) :=
  if b.root = 0 then (match b.tree with | .leaf _ items => some items | .branch _ _ => none) else none

mutual
/-- the tree as it is on disk: bucket elements carry the real bucket value of the nested bucket
    of that name (`sub`) -/
def realizeN (sub : Bytes → Option Bk) : N → N
  | .leaf h items =>
    .leaf h (items.map (fun i =>
      if i.flags % 2 = 1 then
        match sub i.key with
        | some c => { i with val := bucketVal c.root c.seq (inlineItems c) }
        | none => i
      else i))
  | .branch h kids => .branch h (realizeKids sub kids)
def realizeKids (sub : Bytes → Option Bk) : List (Bytes × N) → List (Bytes × N)
  | [] => []
  | (s, c) :: r => (s, realizeN sub c) :: realizeKids sub r
end

/-- the on-disk tree of a bucket whose nested buckets are all attached -/
def realTree (b : Bk) : N := realizeN (fun n => lookupBk n b.opened) b.tree

mutual
/-- `C12Tree.Fits` without the plain-keys clause: field widths and page range of a tree that may
    hold nested-bucket elements -/
def FitsG (ps hwm : Nat) : N → Prop
  | .leaf h items =>
    2 ≤ h.pgid ∧ h.pgid + C12Tree.ovfOf ps (.leaf h items) < hwm ∧ hwm < 2^64 ∧ items.length < 0xFFFF ∧
    (C12Tree.ovfOf ps (.leaf h items) + 1) * ps < 2^32 ∧ ∀ i ∈ items, i.flags < 2^32
  | .branch h kids =>
    2 ≤ h.pgid ∧ h.pgid + C12Tree.ovfOf ps (.branch h kids) < hwm ∧ hwm < 2^64 ∧ kids.length < 0xFFFF ∧
    (C12Tree.ovfOf ps (.branch h kids) + 1) * ps < 2^32 ∧ FitsGKids ps hwm kids
def FitsGKids (ps hwm : Nat) : List (Bytes × N) → Prop
  | [] => True
  | (_, c) :: r => FitsG ps hwm c ∧ FitsGKids ps hwm r
end

/-- every page of the bucket's own tree and of every paged nested bucket is laid out in the file
    (with the real bucket values in the bucket elements); a paged bucket's header names the page
    of its root node, sequence numbers fit their field; an inline bucket is one leaf without
    nested buckets -/
def LaidBk (f : File) (ps hwm : Nat) : Nat → Bk → Prop
  | 0, _ => False
  | fu+1, b =>
    b.seq < 2^64 ∧
    (b.root ≠ 0 → (b.root = b.tree.hd.pgid ∧ C12Tree.Laid f ps (realTree b) ∧ FitsG ps hwm (realTree b))) ∧
    (b.root = 0 → (∃ h items, b.tree = .leaf h items) ∧ b.opened = []) ∧
    ∀ p ∈ b.opened, LaidBk f ps hwm fu p.2

/-- **the reader returns the content of the bucket tree** (top bucket paged) -/
theorem decode_bk (f : File) (ps hwm fu fuel : Nat) (b : Bk) (ph : Phys)
    (hps : 0 < ps) (ho : origShapeOk fu b = true) (hr : b.root ≠ 0) (hl : LaidBk f ps hwm fu b)
    (hd : fu * (fu + 1) ≤ fuel) :
    ∃ ph', decodeTree f ps hwm fuel b.root ph = ((match absBk b fu [] b with | .bkt _ e => e | .val _ => []), ph') ∧
      ph'.errors = ph.errors := by
  sorry

end Bolt.C12Bk
