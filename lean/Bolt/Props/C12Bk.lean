/-
C12/C04 — the independent reader on a whole bucket tree with nested buckets.  `realize` turns a
state of the bucket model (`Model/Bkt`, every nested bucket attached) into the trees that are
actually on disk: the value of a nested-bucket element is the 16-byte header (root page id,
sequence) followed, for an inline bucket, by the image of its root leaf (`Bucket.write`).  If the
file holds the images of all pages of these trees (`LaidBk`), the version-2 reader
`Format.decodeTree` returns exactly the content `absBk` of the state — nested buckets, inline or
paged, included — and no structural error.  With `C04Bkt.transaction_refines` this closes the chain
reference model ⟸ bucket model ⟸ pages ⟸ bytes for nested buckets.
-/
import Bolt.Props.C12Tree
import Bolt.Model.BktInv
import Bolt.Lemmas.FormatBk
namespace Bolt.C12Bk
open Bolt Bolt.BTree Bolt.Bkt

/-- `Bucket.write` / the bucket header: what a nested-bucket element holds -/
def bucketVal (root seq : Nat) (inlineLeaf : Option (List Item)) : Bytes :=
  putLE 8 root ++ putLE 8 seq ++
    (match inlineLeaf with
     | some items => Enc.leafPage 0 0 (items.map C12Node.toLeafElem)
     | none => [])

/-- the root leaf of an inline bucket -/
def inlineItems (b : Bk) : Option (List Item) :=
  if b.root = 0 then (match b.tree with | .leaf _ items => some items | .branch _ _ => none) else none

mutual
/-- the tree as it is on disk: bucket elements carry the real bucket value of the nested bucket
    of that name (`sub`) -/
def realizeN (sub : Bytes → Option Bk) : N → N
  | .leaf h items =>
    .leaf h (items.map (fun i =>
      if i.flags % 2 = 1 then
        match sub i.key with
        | some c => { i with val := bucketVal c.root c.seq (inlineItems c) }
        | none => i
      else i))
  | .branch h kids => .branch h (realizeKids sub kids)
def realizeKids (sub : Bytes → Option Bk) : List (Bytes × N) → List (Bytes × N)
  | [] => []
  | (s, c) :: r => (s, realizeN sub c) :: realizeKids sub r
end

/-- the on-disk tree of a bucket whose nested buckets are all attached -/
def realTree (b : Bk) : N := realizeN (fun n => lookupBk n b.opened) b.tree

mutual
/-- `C12Tree.Fits` without the plain-keys clause: field widths and page range of a tree that may
    hold nested-bucket elements -/
def FitsG (ps hwm : Nat) : N → Prop
  | .leaf h items =>
    2 ≤ h.pgid ∧ h.pgid + C12Tree.ovfOf ps (.leaf h items) < hwm ∧ hwm < 2^64 ∧ items.length < 0xFFFF ∧
    (C12Tree.ovfOf ps (.leaf h items) + 1) * ps < 2^32 ∧ ∀ i ∈ items, i.flags < 2^32
  | .branch h kids =>
    2 ≤ h.pgid ∧ h.pgid + C12Tree.ovfOf ps (.branch h kids) < hwm ∧ hwm < 2^64 ∧ kids.length < 0xFFFF ∧
    (C12Tree.ovfOf ps (.branch h kids) + 1) * ps < 2^32 ∧ FitsGKids ps hwm kids
def FitsGKids (ps hwm : Nat) : List (Bytes × N) → Prop
  | [] => True
  | (_, c) :: r => FitsG ps hwm c ∧ FitsGKids ps hwm r
end

/-- every page of the bucket's own tree and of every paged nested bucket is laid out in the file
    (with the real bucket values in the bucket elements); a paged bucket's header names the page
    of its root node, sequence numbers fit their field; an inline bucket is one leaf without
    nested buckets, with fewer than 0xFFFF elements (the u16 count of the inline page header; real
    inline buckets are smaller than a quarter page) whose flags fit their u32 field -/
def LaidBk (f : File) (ps hwm : Nat) : Nat → Bk → Prop
  | 0, _ => False
  | fu+1, b =>
    b.seq < 2^64 ∧
    (b.root ≠ 0 → (b.root = b.tree.hd.pgid ∧ C12Tree.Laid f ps (realTree b) ∧ FitsG ps hwm (realTree b))) ∧
    (b.root = 0 → (∃ h items, b.tree = .leaf h items ∧ items.length < 0xFFFF ∧ ∀ i ∈ items, i.flags < 2^32) ∧
      b.opened = []) ∧
    ∀ p ∈ b.opened, LaidBk f ps hwm fu p.2

/-! ### the on-disk tree keeps the shape of the bucket's tree -/

/-- one element as it is on disk -/
def realItem (sub : Bytes → Option Bk) (i : Item) : Item :=
  if i.flags % 2 = 1 then
    match sub i.key with
    | some c => { i with val := bucketVal c.root c.seq (inlineItems c) }
    | none => i
  else i

theorem realizeN_leaf (sub : Bytes → Option Bk) (h : Hd) (items : List Item) :
    realizeN sub (.leaf h items) = .leaf h (items.map (realItem sub)) := by
  rw [realizeN]; rfl

theorem realizeN_branch (sub : Bytes → Option Bk) (h : Hd) (kids : List (Bytes × N)) :
    realizeN sub (.branch h kids) = .branch h (realizeKids sub kids) := by
  rw [realizeN]

theorem realizeKids_cons (sub : Bytes → Option Bk) (s : Bytes) (c : N) (r : List (Bytes × N)) :
    realizeKids sub ((s, c) :: r) = (s, realizeN sub c) :: realizeKids sub r := by
  rw [realizeKids]

/-- keys and flags stay -/
theorem realItem_key (sub : Bytes → Option Bk) (i : Item) : (realItem sub i).key = i.key := by
  unfold realItem
  split
  · split <;> rfl
  · rfl

theorem realItem_flags (sub : Bytes → Option Bk) (i : Item) : (realItem sub i).flags = i.flags := by
  unfold realItem
  split
  · split <;> rfl
  · rfl

theorem realItem_plain (sub : Bytes → Option Bk) (i : Item) (h : ¬ i.flags % 2 = 1) : realItem sub i = i := by
  unfold realItem; rw [if_neg h]

theorem realItem_bucket (sub : Bytes → Option Bk) (i : Item) (c : Bk) (h : i.flags % 2 = 1)
    (hc : sub i.key = some c) : (realItem sub i).val = bucketVal c.root c.seq (inlineItems c) := by
  unfold realItem; rw [if_pos h, hc]

/-- `realizeN` keeps the header of the node -/
theorem realizeN_hd (sub : Bytes → Option Bk) : ∀ t : N, (realizeN sub t).hd = t.hd
  | .leaf h items => by rw [realizeN_leaf]; rfl
  | .branch h kids => by rw [realizeN_branch]; rfl

open Bolt.BTree.OpsL in
mutual
/-- the elements of the on-disk tree: those of the bucket's tree, bucket elements with their
    real value -/
theorem realizeN_flatten (sub : Bytes → Option Bk) : ∀ t : N,
    flatten (realizeN sub t) = (flatten t).map (realItem sub)
  | .leaf h items => by rw [realizeN_leaf, flatten_leaf, flatten_leaf]
  | .branch h kids => by rw [realizeN_branch, flatten_branch, flatten_branch, realizeKids_flatten sub kids]
theorem realizeKids_flatten (sub : Bytes → Option Bk) : ∀ kids : List (Bytes × N),
    flattenKids (realizeKids sub kids) = (flattenKids kids).map (realItem sub)
  | [] => by rw [realizeKids, flattenKids_nil]; rfl
  | (s, c) :: r => by
    rw [realizeKids_cons, flattenKids_cons, flattenKids_cons, realizeN_flatten sub c,
      realizeKids_flatten sub r, List.map_append]
end

open Bolt.BTree.OpsL in
mutual
theorem realizeN_depth (sub : Bytes → Option Bk) : ∀ t : N, depth (realizeN sub t) = depth t
  | .leaf h items => by rw [realizeN_leaf, depth_leaf, depth_leaf]
  | .branch h kids => by rw [realizeN_branch, depth_branch, depth_branch, realizeKids_depth sub kids]
theorem realizeKids_depth (sub : Bytes → Option Bk) : ∀ kids : List (Bytes × N),
    depthKids (realizeKids sub kids) = depthKids kids
  | [] => by rw [realizeKids]
  | (s, c) :: r => by
    rw [realizeKids_cons, depthKids_cons, depthKids_cons, realizeN_depth sub c, realizeKids_depth sub r]
end

theorem realizeKids_keys (sub : Bytes → Option Bk) : ∀ kids : List (Bytes × N),
    (realizeKids sub kids).map (·.1) = kids.map (·.1)
  | [] => by rw [realizeKids]
  | (s, c) :: r => by rw [realizeKids_cons, List.map_cons, List.map_cons, realizeKids_keys sub r]

theorem realizeKids_length (sub : Bytes → Option Bk) (kids : List (Bytes × N)) :
    (realizeKids sub kids).length = kids.length := by
  have := congrArg List.length (realizeKids_keys sub kids)
  simpa using this

theorem realizeKids_headDepth (sub : Bytes → Option Bk) : ∀ kids : List (Bytes × N),
    ((realizeKids sub kids).head?.map (fun p => depth p.2)).getD 0 = (kids.head?.map (fun p => depth p.2)).getD 0
  | [] => by rw [realizeKids]
  | (s, c) :: r => by
    rw [realizeKids_cons]
    simp only [List.head?_cons, Option.map_some, Option.getD_some]
    exact realizeN_depth sub c

theorem realizeN_firstKey (sub : Bytes → Option Bk) : ∀ t : N, (realizeN sub t).firstKey = t.firstKey
  | .leaf h items => by
    rw [realizeN_leaf]
    cases items with
    | nil => rfl
    | cons i r =>
      simp only [N.firstKey, List.map_cons, List.head?_cons, Option.map_some, Option.getD_some]
      exact realItem_key sub i
  | .branch h kids => by
    rw [realizeN_branch]
    cases kids with
    | nil => rw [realizeKids]
    | cons q r =>
      obtain ⟨s, c⟩ := q
      rw [realizeKids_cons]; rfl

theorem realItems_keys (sub : Bytes → Option Bk) (items : List Item) :
    (items.map (realItem sub)).map (·.key) = items.map (·.key) := by
  rw [List.map_map]
  apply List.map_congr_left
  intro i _
  exact realItem_key sub i

mutual
/-- the on-disk tree is committed exactly when the bucket's tree is -/
theorem realizeN_committed (sub : Bytes → Option Bk) : ∀ (root : Bool) (t : N),
    committedN root (realizeN sub t) = committedN root t
  | root, .leaf h items => by
    rw [realizeN_leaf, committedN, committedN, realItems_keys, List.isEmpty_map, List.all_map]
    congr 1
    apply List.all_congr rfl
    intro i
    simp only [Function.comp, realItem_key]
  | root, .branch h kids => by
    rw [realizeN_branch, committedN, committedN, realizeKids_keys, realizeKids_length,
      realizeKids_headDepth, realizeKids_committed sub kids]
theorem realizeKids_committed (sub : Bytes → Option Bk) : ∀ (kids : List (Bytes × N)) (d : Nat),
    committedKids (realizeKids sub kids) d = committedKids kids d
  | [], d => by rw [realizeKids]
  | (s, c) :: r, d => by
    rw [realizeKids_cons, committedKids, committedKids, realizeN_firstKey, realizeN_depth,
      realizeN_committed sub false c, realizeKids_committed sub r d]
end

/-! ### the reader on an on-disk tree whose bucket elements hold real bucket values -/

/-- what the reader makes of one element, given the content `cont` of the nested buckets by name -/
def entOf (cont : Bytes → SVal) (i : Item) : Bytes × SVal :=
  if i.flags % 2 = 1 then (i.key, cont i.key) else (i.key, .val i.val)

theorem entOf_fst (cont : Bytes → SVal) (i : Item) : (entOf cont i).1 = i.key := by
  unfold entOf; split <;> rfl

theorem entOf_real (cont : Bytes → SVal) (sub : Bytes → Option Bk) (i : Item) :
    entOf cont (realItem sub i) = entOf cont i := by
  by_cases h : i.flags % 2 = 1
  · unfold entOf
    rw [realItem_flags, realItem_key, if_pos h, if_pos h]
  · rw [realItem_plain sub i h]

/-- what the tree-level induction needs of a nested bucket `c` with content `v`: its header
    fields fit; if it has pages, the reader started at its root page with fuel `K` or more returns
    the entries of `v` and adds no error; if it is inline, it is one leaf of plain elements within
    the field widths and `v` holds exactly these -/
def ChildOK (f : File) (ps hwm K : Nat) (c : Bk) (v : SVal) : Prop :=
  c.seq < 2^64 ∧
  (c.root ≠ 0 → c.root < 2^64 ∧ ∃ E, v = .bkt c.seq E ∧ ∀ (fuel : Nat) (ph : Phys), K ≤ fuel →
      ∃ ph', decodeTree f ps hwm fuel c.root ph = (E, ph') ∧ ph'.errors = ph.errors) ∧
  (c.root = 0 → ∃ h items, c.tree = .leaf h items ∧ items.length < 0xFFFF ∧
      (∀ i ∈ items, i.flags % 2 = 0 ∧ i.flags < 2^32) ∧ Bolt.BTree.OpsL.SortedI items ∧
      v = .bkt c.seq (items.map (fun i => (i.key, SVal.val i.val))))

theorem fitsG_pgid (ps hwm : Nat) : ∀ (c : N), FitsG ps hwm c → c.hd.pgid < 2^64
  | .leaf h items, hf => by rw [FitsG] at hf; simp only [N.hd]; omega
  | .branch h kids, hf => by rw [FitsG] at hf; simp only [N.hd]; omega

theorem fitsGKids_pgid (ps hwm : Nat) : ∀ (kids : List (Bytes × N)), FitsGKids ps hwm kids →
    ∀ p ∈ kids, p.2.hd.pgid < 2^64
  | [], _, p, hp => by cases hp
  | (s, c) :: r, hf, p, hp => by
    rw [FitsGKids] at hf
    rcases List.mem_cons.mp hp with rfl | hp
    · exact fitsG_pgid ps hwm _ hf.1
    · exact fitsGKids_pgid ps hwm r hf.2 p hp

/-- one element of an on-disk leaf: the reader returns `entOf cont` of it and adds no error -/
theorem decode_item (f : File) (ps hwm K fuel : Nat) (cont : Bytes → SVal) (i : Item) (ph : Phys)
    (hK : K ≤ fuel) (hlen : i.val.length < 2^32)
    (hb : i.flags % 2 = 1 → ∃ c, i.val = bucketVal c.root c.seq (inlineItems c) ∧
      ChildOK f ps hwm K c (cont i.key)) :
    ∃ ph', Bolt.FormatBkL.decodeItem f ps hwm fuel (C12Node.toLeafElem i) ph = (entOf cont i, ph') ∧
      ph'.errors = ph.errors := by
  by_cases hfl : i.flags % 2 = 1
  · obtain ⟨c, hv, hseq, hp, hi⟩ := hb hfl
    have hent : entOf cont i = (i.key, cont i.key) := by unfold entOf; rw [if_pos hfl]
    by_cases hr : c.root = 0
    · obtain ⟨h, items, ht, hn, hfl', hs, hv'⟩ := hi hr
      have hin : inlineItems c = some items := by unfold inlineItems; rw [if_pos hr, ht]
      rw [hin, hr] at hv
      refine ⟨ph, ?_, rfl⟩
      rw [hent, hv']
      have := Bolt.FormatBkL.decodeItem_inline f ps hwm fuel (C12Node.toLeafElem i) ph c.seq
        (items.map C12Node.toLeafElem) hfl hv hseq (by simpa using hn) hlen
        (by intro x hx; obtain ⟨y, hy, rfl⟩ := List.mem_map.mp hx; exact hfl' y hy)
        (by rw [List.map_map]; exact (Bolt.BTree.OpsL.sortedKeys_items items).mpr hs)
      rw [this, List.map_map]
      rfl
    · obtain ⟨hr64, E, hv', hdec⟩ := hp hr
      have hin : inlineItems c = none := by unfold inlineItems; rw [if_neg hr]
      rw [hin] at hv
      obtain ⟨ph', h1, h2⟩ := hdec fuel ph hK
      refine ⟨ph', ?_, h2⟩
      rw [hent, hv']
      exact Bolt.FormatBkL.decodeItem_paged f ps hwm fuel (C12Node.toLeafElem i) ph ph' c.root c.seq E
        hfl hv hr hr64 hseq h1
  · refine ⟨ph, ?_, rfl⟩
    rw [Bolt.FormatBkL.decodeItem_plain f ps hwm fuel _ ph hfl]
    unfold entOf; rw [if_neg hfl]; rfl

open Bolt.FormatTreeL Bolt.BTree.OpsL in
mutual
/-- the reader on any node of a committed on-disk tree whose bucket elements hold the real
    values of nested buckets that are read back correctly (`ChildOK`) with fuel `K` -/
theorem decode_nodeG (f : File) (ps hwm K : Nat) (cont : Bytes → SVal) (hps : 0 < ps) :
    ∀ (t : N) (root : Bool) (fuel : Nat) (ph : Phys),
    C12Tree.Laid f ps t → FitsG ps hwm t → committedN root t = true → SortedI (flatten t) →
    depth t + K ≤ fuel →
    (∀ i ∈ flatten t, i.flags % 2 = 1 → ∃ c, i.val = bucketVal c.root c.seq (inlineItems c) ∧
      ChildOK f ps hwm K c (cont i.key)) →
    ∃ ph', decodeTree f ps hwm fuel t.hd.pgid ph = ((flatten t).map (entOf cont), ph') ∧
      ph'.errors = ph.errors
  | .leaf h items, root, fuel, ph, hl, hf, hc, hs, hd, hb => by
    rw [C12Tree.Laid] at hl; rw [FitsG] at hf
    obtain ⟨f1, f2, f3, f4, f5, f6⟩ := hf
    obtain ⟨c1, c2, c3, c4, c5⟩ := (committedN_leaf ..).mp hc
    rw [flatten_leaf] at hb ⊢
    rw [depth_leaf] at hd
    obtain ⟨fuel', rfl⟩ : ∃ k, fuel = k + 1 := ⟨fuel - 1, by omega⟩
    have hsz : (Enc.leafPage h.pgid (C12Tree.ovfOf ps (.leaf h items)) (items.map C12Node.toLeafElem)).length ≤
        (C12Tree.ovfOf ps (.leaf h items) + 1) * ps := by
      rw [C12Node.leaf_bytes_eq_size h]; exact C12Tree.size_le_span ps _ hps
    have hstep := Bolt.FormatBkL.decodeTree_leafG f ps hwm fuel' h.pgid (C12Tree.ovfOf ps (.leaf h items)) ph
      (items.map C12Node.toLeafElem) hps hl f1 f2 f3 (by simpa using f4) f5 hsz
      (by intro e he; obtain ⟨i, hi, rfl⟩ := List.mem_map.mp he; exact f6 i hi)
      (by rw [List.map_map]; exact (sortedKeys_items items).mpr c4)
      (by intro e he; obtain ⟨i, hi, rfl⟩ := List.mem_map.mp he; exact c5 i hi)
    have hitems := Bolt.FormatBkL.decodeLeafItems_spec f ps hwm fuel'
      (fun e => entOf cont { key := e.key, val := e.val, flags := e.flags })
      (items.map C12Node.toLeafElem)
      { pages := ph.pages ++ [(h.pgid, C12Tree.ovfOf ps (.leaf h items), V2.leafPageFlag)], errors := ph.errors }
      (by
        intro e he ph0
        obtain ⟨i, hi, rfl⟩ := List.mem_map.mp he
        have hlen : i.val.length < 2^32 := by
          have h1 := leafData_mem_le (items.map C12Node.toLeafElem) (C12Node.toLeafElem i)
            (List.mem_map_of_mem hi)
          rw [leafPage_length] at hsz
          have : (C12Node.toLeafElem i).val = i.val := rfl
          rw [this] at h1
          omega
        exact decode_item f ps hwm K fuel' cont i ph0 (by omega) hlen (hb i hi))
    obtain ⟨ph', h1, h2⟩ := hitems
    refine ⟨ph', ?_, h2⟩
    show decodeTree f ps hwm (fuel' + 1) h.pgid ph = _
    rw [hstep, h1, List.map_map]
    rfl
  | .branch h kids, root, fuel, ph, hl, hf, hc, hs, hd, hb => by
    rw [C12Tree.Laid] at hl; rw [FitsG] at hf
    obtain ⟨hl1, hl2⟩ := hl
    obtain ⟨f1, f2, f3, f4, f5, f6⟩ := hf
    obtain ⟨c1, c2, c3, c4, c5⟩ := (committedN_branch ..).mp hc
    rw [flatten_branch] at hs hb ⊢
    rw [depth_branch] at hd
    obtain ⟨fuel', rfl⟩ : ∃ k, fuel = k + 1 := ⟨fuel - 1, by omega⟩
    have hstep := decodeTree_branch f ps hwm fuel' h.pgid (C12Tree.ovfOf ps (.branch h kids)) ph
      (kids.map (fun (p : Bytes × N) => ({ key := p.1, pgid := p.2.hd.pgid } : BranchElem))) hps hl1 f1 f2 f3
      (by simpa using f4) f5
      (by rw [C12Node.branch_bytes_eq_size h kids (fun c => c.hd.pgid)]; exact C12Tree.size_le_span ps _ hps)
      (by intro e he; obtain ⟨p, hp, rfl⟩ := List.mem_map.mp he; exact fitsGKids_pgid ps hwm kids f6 p hp)
      (by rw [List.map_map]; exact (sortedKeys_kids kids).mpr c4)
      (by intro e; rw [List.map_eq_nil_iff] at e; rw [e] at c3; simp at c3)
    obtain ⟨ph', hk, he⟩ := decode_kidsG f ps hwm K cont hps kids _ fuel'
      { pages := ph.pages ++ [(h.pgid, C12Tree.ovfOf ps (.branch h kids), V2.branchPageFlag)], errors := ph.errors }
      hl2 f6 c5 hs (by omega) hb
    refine ⟨ph', ?_, he⟩
    show decodeTree f ps hwm (fuel' + 1) h.pgid ph = _
    rw [hstep, hk]
/-- the reader on the children of a branch of such a tree -/
theorem decode_kidsG (f : File) (ps hwm K : Nat) (cont : Bytes → SVal) (hps : 0 < ps) :
    ∀ (kids : List (Bytes × N)) (d fuel : Nat) (ph : Phys),
    C12Tree.LaidKids f ps kids → FitsGKids ps hwm kids → committedKids kids d = true →
    SortedI (flattenKids kids) → depthKids kids + K ≤ fuel →
    (∀ i ∈ flattenKids kids, i.flags % 2 = 1 → ∃ c, i.val = bucketVal c.root c.seq (inlineItems c) ∧
      ChildOK f ps hwm K c (cont i.key)) →
    ∃ ph', decodeKids f ps hwm fuel
        (kids.map (fun p => ({ key := p.1, pgid := p.2.hd.pgid } : BranchElem))) ph =
      ((flattenKids kids).map (entOf cont), ph') ∧ ph'.errors = ph.errors
  | [], d, fuel, ph, _, _, _, _, _, _ => by
    rw [flattenKids_nil, List.map_nil, decodeKids_nil]
    exact ⟨ph, rfl, rfl⟩
  | (s, c) :: r, d, fuel, ph, hl, hf, hc, hs, hd, hb => by
    rw [C12Tree.LaidKids] at hl; rw [FitsGKids] at hf
    obtain ⟨h1, h2, h3, h4⟩ := (committedKids_cons ..).mp hc
    rw [flattenKids_cons] at hs hb ⊢
    obtain ⟨hs1, hs2, hs3⟩ := List.pairwise_append.mp hs
    rw [depthKids_cons] at hd
    obtain ⟨ph1, hc', e1⟩ := decode_nodeG f ps hwm K cont hps c false fuel ph hl.1 hf.1 h3 hs1 (by omega)
      (fun i hi => hb i (List.mem_append_left _ hi))
    obtain ⟨ph2, hr, e2⟩ := decode_kidsG f ps hwm K cont hps r d fuel ph1 hl.2 hf.2 h4 hs2 (by omega)
      (fun i hi => hb i (List.mem_append_right _ hi))
    refine ⟨ph2, ?_, e2.trans e1⟩
    rw [List.map_cons, decodeKids_cons f ps hwm fuel _ _ ph _ _ hc' ?first ?next, hr]
    · simp only [List.map_append]
    case first =>
      obtain ⟨x, rest, e1, e2⟩ := committedN_head c h3
      intro kv hkv
      rw [e1] at hkv
      simp only [List.map_cons, List.head?_cons, Option.mem_def, Option.some.injEq] at hkv
      subst hkv
      show Bytes.lt (entOf cont x).1 s = false
      rw [entOf_fst, e2, ← h1]; exact Bytes.lt_irrefl s
    case next =>
      intro nxt hn kv hkv
      cases r with
      | nil => simp at hn
      | cons q r' =>
        obtain ⟨y, rest, e1, e2⟩ := committedKids_head (q :: r') d (by simp) h4
        simp only [List.head?_cons, Option.map_some, Option.getD_some] at e2
        simp only [List.map_cons, List.head?_cons, Option.mem_def, Option.some.injEq] at hn
        subst hn
        obtain ⟨x, hx, rfl⟩ := List.mem_map.mp hkv
        show Bytes.lt (entOf cont x).1 q.1 = true
        rw [entOf_fst, ← e2]
        exact hs3 x hx y (by rw [e1]; simp)
end

/-! ### the reader on a bucket with its nested buckets -/

/-- fuel that suffices for a bucket of nesting fuel `fu`: under `origShapeOk (f+1)` the bucket's
    own tree is at most `f` levels deep, and a nested paged bucket goes on with what is left -/
def need : Nat → Nat
  | 0 => 0
  | f+1 => f + need f

theorem need_le : ∀ fu : Nat, need fu ≤ fu * (fu + 1)
  | 0 => Nat.zero_le _
  | f+1 => by
    have ih := need_le f
    rw [need]
    have e : (f + 1) * (f + 1 + 1) = f * (f + 1) + 2 * f + 2 := by
      rw [Nat.add_mul, Nat.mul_add f (f + 1) 1]; omega
    omega

/-- the content of the nested bucket named `k`, as `absBk` computes it -/
def contOf (X : Bk) (f : Nat) (p : List Bytes) (o : List (Bytes × Bk)) (k : Bytes) : SVal :=
  match lookupBk k o with
  | some c => absBk X f (p ++ [k]) c
  | none =>
    match bkAt (p ++ [k]) X with
    | some c => absBk c f [] c
    | none => .bkt 0 []

theorem absBk_ents (X : Bk) (f : Nat) (p : List Bytes) (b : Bk) :
    absBk X (f+1) p b = .bkt b.seq ((flatten b.tree).map (entOf (contOf X f p b.opened))) := by
  rw [absBk]; rfl

open Bolt.FormatBkL Bolt.BTree.OpsL in
/-- every bucket of a start-of-transaction state that is laid out in the file is read back: its
    header fields fit, and the reader returns its content (`ChildOK`) -/
theorem bucket_ok (f : File) (ps hwm : Nat) (hps : 0 < ps) : ∀ (fu : Nat) (b X : Bk) (p : List Bytes),
    origShapeOk fu b = true → LaidBk f ps hwm fu b → ChildOK f ps hwm (need fu) b (absBk X fu p b)
  | 0, b, X, p, ho, _ => by rw [origShapeOk, origOkG_zero] at ho; cases ho
  | fu+1, b, X, p, ho, hl => by
    obtain ⟨hcm, _, hdep, hnames, hkids⟩ := (origOkG_succ false fu b).mp ho
    rw [LaidBk] at hl
    obtain ⟨hseq, hpaged, hinl, hsub⟩ := hl
    rw [absBk_ents]
    refine ⟨hseq, ?_, ?_⟩
    · intro hr
      obtain ⟨hroot, hlaid, hfits⟩ := hpaged hr
      have hpg : b.root < 2^64 := by
        rw [hroot, ← realizeN_hd (fun n => lookupBk n b.opened)]; exact fitsG_pgid _ _ _ hfits
      refine ⟨hpg, _, rfl, ?_⟩
      intro fuel ph hK
      rw [need] at hK
      have hdec := decode_nodeG f ps hwm (need fu) (contOf X fu p b.opened) hps (realTree b) true fuel ph
        hlaid hfits
        (by rw [realTree, realizeN_committed]; exact hcm.1)
        ((sortedKeys_items _).mp (by rw [realTree, realizeN_flatten, realItems_keys]; exact hcm.2))
        (by rw [realTree, realizeN_depth]; omega)
        (by
          rw [realTree, realizeN_flatten]
          intro i' hi' hfl
          obtain ⟨i, hi, rfl⟩ := List.mem_map.mp hi'
          rw [realItem_flags] at hfl
          have hn := mem_bucketNames hi hfl
          rw [← hnames] at hn
          obtain ⟨c, hc⟩ := lookupBk_of_name hn
          have hm := lookupBk_mem hc
          refine ⟨c, realItem_bucket _ i c hfl hc, ?_⟩
          rw [realItem_key]
          have : contOf X fu p b.opened i.key = absBk X fu (p ++ [i.key]) c := by
            unfold contOf; rw [hc]
          rw [this]
          exact bucket_ok f ps hwm hps fu c X (p ++ [i.key]) (hkids _ hm) (hsub _ hm))
      obtain ⟨ph', h1, h2⟩ := hdec
      refine ⟨ph', ?_, h2⟩
      rw [hroot, ← realizeN_hd (fun n => lookupBk n b.opened) b.tree]
      rw [realTree, realizeN_flatten, List.map_map] at h1
      rw [h1]
      congr 1
      apply List.map_congr_left
      intro i _
      exact entOf_real _ _ i
    · intro hr
      obtain ⟨⟨h, items, ht, hn, hfl⟩, hop⟩ := hinl hr
      rw [hop] at hnames
      have heven := bucketNames_nil hnames.symm
      rw [ht, flatten_leaf] at heven
      refine ⟨h, items, ht, hn, fun i hi => ⟨heven i hi, hfl i hi⟩, ?_, ?_⟩
      · have := hcm.2
        rw [ht, flatten_leaf] at this
        exact (sortedKeys_items _).mp this
      · rw [ht, flatten_leaf]
        congr 1
        apply List.map_congr_left
        intro i hi
        unfold entOf
        rw [if_neg (by have := heven i hi; omega)]

/-- **the reader returns the content of the bucket tree** (top bucket paged) -/
theorem decode_bk (f : File) (ps hwm fu fuel : Nat) (b : Bk) (ph : Phys)
    (hps : 0 < ps) (ho : origShapeOk fu b = true) (hr : b.root ≠ 0) (hl : LaidBk f ps hwm fu b)
    (hd : fu * (fu + 1) ≤ fuel) :
    ∃ ph', decodeTree f ps hwm fuel b.root ph = ((match absBk b fu [] b with | .bkt _ e => e | .val _ => []), ph') ∧
      ph'.errors = ph.errors := by
  obtain ⟨_, hp, _⟩ := bucket_ok f ps hwm hps fu b b [] ho hl
  obtain ⟨_, E, hv, hdec⟩ := hp hr
  rw [hv]
  exact hdec fuel ph (Nat.le_trans (need_le fu) hd)

end Bolt.C12Bk
