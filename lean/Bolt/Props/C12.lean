/-
C12 — the on-disk format stays the published version-2 format: what the writers produce
is read back identically by the independent decoder (which uses only `Spec/PublishedV2`).
The regenerated layouts/constants are proved equal to the published ones in `GenC12.lean`.
-/
import Bolt.Model.Encode
import Bolt.Lemmas.Encode
namespace Bolt.C12
open Bolt Bolt.Enc

/-- the page header round-trips -/
theorem header_roundtrip (id flags count overflow : Nat) (rest : Bytes)
    (h1 : id < 2^64) (h2 : flags < 2^16) (h3 : count < 2^16) (h4 : overflow < 2^32) :
    pageHdrAt (fileOf (header id flags count overflow ++ rest)) 0 =
      { id := id, flags := flags, count := count, overflow := overflow } := by
  exact pageHdrAt_header id flags count overflow rest h1 h2 h3 h4

/-- **leaf pages**: for every list of elements (any keys/values/flags within the field
    widths, any count below 0xFFFF) the decoder returns exactly the elements written -/
theorem leaf_roundtrip (id overflow : Nat) (es : List LeafElem) (span : Nat) (pad : Bytes)
    (hok : LeafOK es span) (hid : id < 2^64) (hov : overflow < 2^32) :
    leafElems (fileOf (leafPage id overflow es ++ pad)) 0 span es.length = some es := by
  have _ := hid; have _ := hov  -- the element tables do not depend on the header fields
  exact leafElems_leafPage id overflow es span pad hok

/-- **branch pages** -/
theorem branch_roundtrip (id overflow : Nat) (es : List BranchElem) (span : Nat) (pad : Bytes)
    (hok : BranchOK es span) (hid : id < 2^64) (hov : overflow < 2^32) :
    branchElems (fileOf (branchPage id overflow es ++ pad)) 0 span es.length = some es := by
  have _ := hid; have _ := hov
  exact branchElems_branchPage id overflow es span pad hok

/-- **freelist pages**, for every length — below and at/above 65535 entries (the 0xFFFF
    count convention) -/
theorem freelist_roundtrip (id overflow : Nat) (ids : List Nat) (ps : Nat) (pad : Bytes)
    (hid : id < 2^64) (hov : overflow < 2^32) (hids : ∀ q ∈ ids, q < 2^64) (hlen : ids.length < 2^64)
    (hfit : 16 + 8 * (ids.length + 1) ≤ (overflow + 1) * ps) (hps : 0 < ps) :
    decodeFreelist (fileOf (freelistPage id overflow ids ++ pad)) ps 0 = .ok (ids, overflow) := by
  have _ := hps  -- `hfit` already bounds the span
  exact decodeFreelist_freelistPage id overflow ids ps pad hid hov hids hlen hfit

/-- **meta pages**: `encodeMeta` is valid and decodes to the same fields with the checksum filled in -/
theorem meta_roundtrip (m : Meta) (rest : Bytes)
    (hm : m.magic = V2.magic) (hv : m.version = V2.version) (hps : m.pageSize < 2^32) (hf : m.flags < 2^32)
    (hr : m.root < 2^64) (hs : m.seq < 2^64) (hfl : m.freelist < 2^64) (hp : m.pgid < 2^64) (ht : m.txid < 2^64) :
    metaValid (fileOf (encodeMeta m ++ rest)) 0 = true ∧
    (metaAt (fileOf (encodeMeta m ++ rest)) 0).txid = m.txid ∧
    (metaAt (fileOf (encodeMeta m ++ rest)) 0).root = m.root ∧
    (metaAt (fileOf (encodeMeta m ++ rest)) 0).pgid = m.pgid ∧
    (metaAt (fileOf (encodeMeta m ++ rest)) 0).freelist = m.freelist ∧
    (metaAt (fileOf (encodeMeta m ++ rest)) 0).pageSize = m.pageSize ∧
    (metaAt (fileOf (encodeMeta m ++ rest)) 0).seq = m.seq := by
  have h := metaAt_encodeMeta m rest (by rw [hm]; decide) (by rw [hv]; decide) hps hf hr hs hfl hp ht
  refine ⟨metaValid_encodeMeta m rest hm hv hps hf hr hs hfl hp ht, ?_⟩
  rw [h]
  exact ⟨rfl, rfl, rfl, rfl, rfl, rfl⟩

/-- non-vacuity: a concrete leaf page with a nested-bucket element and an empty value -/
example : LeafOK [⟨0, [1,2], []⟩, ⟨1, [3], [0,0,0,0,0,0,0,0, 5,0,0,0,0,0,0,0]⟩] 4096 := by
  refine ⟨by decide, ?_, by decide, by decide⟩
  intro e he
  simp only [List.mem_cons, List.not_mem_nil, or_false] at he
  rcases he with rfl | rfl <;> exact ⟨by decide, by decide, by decide⟩

end Bolt.C12
