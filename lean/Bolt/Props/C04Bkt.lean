/-
C04/C07 — nested buckets at commit: `Bucket.rebalance` + `Bucket.spill` over every opened
bucket (inline <-> paged decision, rewriting of the parent's element, each bucket's own tree
through `BTree.rebalanceAll`/`spillRoot`) never change the logical content and leave a bucket
tree the next transaction can start from.
-/
import Bolt.Props.C04BktOps
import Bolt.Props.C04Tree
import Bolt.Lemmas.BktCommit
namespace Bolt.C04Bkt
open Bolt Bolt.BTree Bolt.Bkt

/-- page ids of every node present in some opened bucket's node map -/
def allMatPgids (fu : Nat) : Nat → Bk → List Nat
  | 0, _ => []
  | f+1, .mk _ _ t o => matPgids fu t ++ (o.map (fun p => allMatPgids fu f p.2)).flatten

/-- every opened bucket's tree leaves enough fuel for its spill (`C04Tree.spillRoot_refines`);
    one more element may be rewritten per opened sub-bucket -/
def fuelOk (fu : Nat) : Nat → Bk → Bool
  | 0, _ => false
  | f+1, .mk _ _ t o => decide (depth t + (flatten t).length + 2 ≤ fu) && o.all (fun p => fuelOk fu f p.2)

/-- **commit keeps the content and re-establishes the start-of-transaction invariant** (up to
    the page ids of newly written pages), for every rebalance order covering the node maps -/
theorem commitBk_refines (ps sth rth fu : Nat) (orig cur : Bk) (order : List Nat)
    (hw : WF fu orig cur) (hf : fuelOk fu fu cur = true)
    (hc : ∀ pg ∈ allMatPgids fu fu cur, pg ∈ order) :
    ∃ cur' fu', commitBk ps sth rth fu order cur = some cur' ∧
      absTop fu orig cur' = absTop fu orig cur ∧
      -- the trees may have grown by new root levels: the next transaction needs more fuel
      fu ≤ fu' ∧ origShapeOk fu' (full orig fu [] cur') = true ∧
      absTop fu' (full orig fu [] cur') (full orig fu [] cur') = absTop fu orig cur := by
  sorry

end Bolt.C04Bkt
