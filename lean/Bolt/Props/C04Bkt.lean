/-
C04/C07 — nested buckets at commit: `Bucket.rebalance` + `Bucket.spill` over every opened
bucket (inline <-> paged decision, rewriting of the parent's element, each bucket's own tree
through `BTree.rebalanceAll`/`spillRoot`) never change the logical content and leave a bucket
tree the next transaction can start from.
-/
import Bolt.Props.C04BktOps
import Bolt.Props.C04Tree
import Bolt.Lemmas.BktCommit
namespace Bolt.C04Bkt
open Bolt Bolt.BTree Bolt.Bkt

/-- page ids of every node present in some opened bucket's node map -/
def allMatPgids (fu : Nat) : Nat → Bk → List Nat
  | 0, _ => []
  | f+1, .mk _ _ t o => matPgids fu t ++ (o.map (fun p => allMatPgids fu f p.2)).flatten

/-- every opened bucket's tree leaves enough fuel for its spill (`C04Tree.spillRoot_refines`);
    one more element may be rewritten per opened sub-bucket -/
def fuelOk (fu : Nat) : Nat → Bk → Bool
  | 0, _ => false
  | f+1, .mk _ _ t o => decide (depth t + (flatten t).length + 2 ≤ fu) && o.all (fun p => fuelOk fu f p.2)

/-- **commit keeps the content and re-establishes the start-of-transaction invariant** (up to
    the page ids of newly written pages), for every rebalance order covering the node maps -/
theorem commitBk_refines (ps sth rth fu : Nat) (orig cur : Bk) (order : List Nat)
    (hw : WF fu orig cur) (hf : fuelOk fu fu cur = true)
    (hc : ∀ pg ∈ allMatPgids fu fu cur, pg ∈ order) :
    ∃ cur' fu', commitBk ps sth rth fu order cur = some cur' ∧
      absTop fu orig cur' = absTop fu orig cur ∧
      -- the trees may have grown by new root levels: the next transaction needs more fuel
      fu ≤ fu' ∧ origShapeOk fu' (full orig fu [] cur') = true ∧
      absTop fu' (full orig fu [] cur') (full orig fu [] cur') = absTop fu orig cur := by
  have e1 : ∀ (f : Nat) (b : Bk), fuelOk fu f b = BktCommitL.fuelOk' fu f b := by
    intro f
    induction f with
    | zero => intro b; rfl
    | succ f ih => intro b; cases b; simp only [fuelOk, BktCommitL.fuelOk', ih]
  have e2 : ∀ (f : Nat) (b : Bk), allMatPgids fu f b = BktCommitL.allMat fu f b := by
    intro f
    induction f with
    | zero => intro b; rfl
    | succ f ih => intro b; cases b; simp only [allMatPgids, BktCommitL.allMat, ih]
  exact BktCommitL.commit_ok ps sth rth fu orig cur order hw (by rw [← e1]; exact hf)
    (by rw [← e2]; exact hc)

/-! ### non-vacuity: a bucket tree with nested buckets; the transaction opens two levels, puts
into the innermost bucket, creates and fills a new bucket, deletes from the middle one -/

section Example

private def pg (n : Nat) : Hd := { pgid := n, mat := false, unb := false, key := [] }
private def it (k v : Nat) : Item := { key := [k.toUInt8], val := List.replicate v 0, flags := 0 }
private def bi (k : Nat) : Item := { key := [k.toUInt8], val := List.replicate 16 0, flags := 1 }

private def exInner : Bk := .mk 5 0 (.leaf (pg 5) [it 1 10, it 2 10]) []
private def exMid : Bk := .mk 4 0 (.leaf (pg 4) [it 1 10, bi 7, it 9 3]) [([7], exInner)]
private def exOrig : Bk := .mk 3 0 (.leaf (pg 3) [it 1 10, bi 5, bi 6]) [([5], exMid), ([6], exInner)]

private def chain (l : List (Bk → Option Bk)) (b : Bk) : Option Bk := l.foldl (fun a f => a.bind f) (some b)

private def exCur : Option Bk := chain [
  modifyBk (openAt 20 exOrig [] [5]) [],
  modifyBk (openAt 20 exOrig [[5]] [7]) [[5]],
  modifyBk (putAt 20 [3] [1, 2, 3]) [[5], [7]],
  modifyBk (createAt 20 [8]) [[5]],
  modifyBk (putAt 20 [3] (List.replicate 100 1)) [[5], [8]],
  modifyBk (putAt 20 [4] (List.replicate 100 1)) [[5], [8]],
  modifyBk (delAt 20 [1]) [[5]]] (closeAll exOrig)

example : ∃ cur, exCur = some cur ∧ WF 20 exOrig cur ∧ fuelOk 20 20 cur = true ∧
    (∀ pg ∈ allMatPgids 20 20 cur, pg ∈ [0, 3, 4, 5]) ∧
    ∃ cur', commitBk 256 128 64 20 [0, 3, 4, 5] cur = some cur' ∧
      origShapeOk 20 (full exOrig 20 [] cur') = true := by
  refine ⟨_, rfl, by decide, by decide, by decide, _, rfl, by decide⟩

end Example

end Bolt.C04Bkt
