/-
C05 — the navigation functions of cursor.go that `Model/Cursor` transcribes still have the
bodies the model was transcribed from (fingerprints regenerated from /repo on every run).
-/
import Bolt.Gen.Tree
namespace Bolt.GenC05
open Bolt.Gen

theorem cursor_functions_unchanged : cursorFns =
  [("Cursor.First", "f0c1a05d1bf4d5a6:7"),
   ("Cursor.first", "78c34c24d60bcf29:13"),
   ("Cursor.Last", "ba6ae70f3b9e2196:20"),
   ("Cursor.last", "360601203dd72784:17"),
   ("Cursor.Next", "e282c49c088ea9af:7"),
   ("Cursor.next", "840d517e93f688f6:22"),
   ("Cursor.Prev", "516fc76abd5fc1c3:7"),
   ("Cursor.prev", "4bf36dcaa585839d:25"),
   ("Cursor.Seek", "4f7cee16a6982f60:14"),
   ("Cursor.seek", "1bcba52cba5c402c:4"),
   ("Cursor.goToFirstElementOnTheStack", "049cab3f5f67e38d:15"),
   ("Cursor.search", "8769f60f19c8a852:16"),
   ("Cursor.searchNode", "ad4ad9ed26a94fd6:14"),
   ("Cursor.searchPage", "e1652f3a698bd6a3:15"),
   ("Cursor.nsearch", "cff59ef42c5277e2:15"),
   ("Cursor.keyValue", "8c62dd5029d200ed:11"),
   ("elemRef.isLeaf", "86b223dffe4d4dc1:5"),
   ("elemRef.count", "6a5c8040602ddb75:5")] := rfl

end Bolt.GenC05
