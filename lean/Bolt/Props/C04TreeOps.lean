/-
C04/C07 — the B+tree of a bucket refines the sorted map.  For every committed tree, every
sequence of Put/Delete calls, every order in which `Bucket.rebalance` visits its node map
(Go's map order is random), every page size and fill percent: the model of
`Tx.Commit` for the bucket (`BTree.commit`: materialise + put/del, rebalance, spill/split)
never leaves its domain (the Go code never corrupts the tree), writes a tree that is again
a well-formed committed tree, and whose content is exactly the sorted-list specification
applied to the old content.
-/
import Bolt.Model.BTreeInv
import Bolt.Lemmas.BTreeOps
namespace Bolt.C04Tree
open Bolt Bolt.BTree

/-- a committed tree satisfies the in-transaction invariant -/
theorem committed_inTx (t : N) (h : Committed t) : InTx t := by
  exact OpsL.committed_inTx t h

/-- **read-your-writes inside the transaction**: after any Put/Delete calls the tree the
    cursor walks (materialised nodes over pages) holds exactly the specified content -/
theorem applyOps_refines (fuel : Nat) (t : N) (ops : List Op) (hi : InTx t)
    (hk : ∀ o ∈ ops, o.ok) (hf : depth t ≤ fuel) :
    ∃ t1, applyOps fuel t ops = some t1 ∧ InTx t1 ∧ depth t1 = depth t ∧
      flatten t1 = specOps (flatten t) ops := by
  exact OpsL.applyOps_ok fuel ops t hi hk hf

/-- Put/Delete never change which page a node came from -/
theorem applyOps_pgids (fuel : Nat) (t t1 : N) (ops : List Op) (h : applyOps fuel t ops = some t1) :
    pgids t1 = pgids t := by
  exact OpsL.applyOps_pgids fuel ops t t1 h

theorem specOps_length_le (l : List Item) (ops : List Op) :
    (specOps l ops).length ≤ l.length + ops.length := by
  exact OpsL.specOps_length ops l

/-- copy-on-write: a bucket the transaction did not touch is not rewritten -/
theorem commit_no_ops (ps sth rth fuel : Nat) (t : N) (order : List Nat) (hc : Committed t) :
    commit ps sth rth fuel t [] order = some t := by
  exact OpsL.commit_nil ps sth rth fuel t order (OpsL.committedN_hd true t hc.1)

/-! ### the specification is the expected map -/

theorem specPut_get (l : List Item) (k v : Bytes) (hb : isBucketAt l k = false) :
    (specPut l k v).find? (fun i => i.key == k) = some { key := k, val := v, flags := 0 } := by
  unfold specPut
  rw [hb]
  exact OpsL.insSorted_find_same { key := k, val := v, flags := 0 } l

theorem specPut_other (l : List Item) (k v k' : Bytes) (hne : k' ≠ k) :
    (specPut l k v).find? (fun i => i.key == k') = l.find? (fun i => i.key == k') := by
  unfold specPut
  split
  · rfl
  · exact OpsL.insSorted_find_other { key := k, val := v, flags := 0 } k' hne l

theorem specDel_get (l : List Item) (k : Bytes) (hb : isBucketAt l k = false) :
    (specDel l k).find? (fun i => i.key == k) = none := by
  unfold specDel
  rw [hb]
  simp

theorem specDel_other (l : List Item) (k k' : Bytes) (hne : k' ≠ k) :
    (specDel l k).find? (fun i => i.key == k') = l.find? (fun i => i.key == k') := by
  unfold specDel
  split
  · rfl
  · rw [List.find?_filter]
    congr 1
    funext i
    by_cases h : i.key = k'
    · simp [h, hne]
    · simp [h]

theorem specOps_sorted (l : List Item) (ops : List Op) (h : sortedKeys (l.map (·.key)) = true) :
    sortedKeys ((specOps l ops).map (·.key)) = true := by
  exact (OpsL.sortedKeys_items _).mpr (OpsL.specOps_sorted ops l ((OpsL.sortedKeys_items _).mp h))


end Bolt.C04Tree
