/-
C18 — the data file never grows beyond MaxSize.
Theorems are stated over the regenerated `Gen.mmapSize` / `Gen.growSize`.
-/
import Bolt.Model.Grow
namespace Bolt.C18
open Bolt.Grow

theorem mul_div_succ (ps x : Int) (hps : 0 < ps) : x < (x / ps + 1) * ps := by
  have h1 := Int.emod_lt_of_pos x hps
  have h2 := Int.mul_ediv_add_emod x ps
  have : (x / ps + 1) * ps = ps * (x / ps) + ps := by
    rw [Int.add_mul, Int.one_mul, Int.mul_comm]
  omega

/-- `mmapSize` never returns less than what was asked for (so the mapping always covers
    the file and the requested size). -/
theorem mmapSize_ge (ps size m : Int) (hps : 0 < ps) (h : Gen.mmapSize ps size = some m) :
    size ≤ m := by
  have hm1 : 0 ≤ size % 1073741824 ∧ size % 1073741824 < 1073741824 :=
    ⟨Int.emod_nonneg size (by omega), Int.emod_lt_of_pos size (by omega)⟩
  have hm2 := mul_div_succ ps size hps
  have hm3 := mul_div_succ ps (size + (1073741824 - size % 1073741824)) hps
  unfold Gen.mmapSize at h
  split at h
  · rename_i r hr
    obtain ⟨i, _, hi⟩ := List.exists_of_findSome?_eq_some hr
    split at hi
    · rename_i hle
      simp only [Option.some.injEq] at hi
      subst hi
      simp only [Option.some.injEq] at h
      omega
    · simp at hi
  · simp only [] at h
    repeat' split at h
    all_goals (try (simp only [Option.some.injEq, reduceCtorEq] at h))
    all_goals (try omega)

/-- the mapping covers the file (established by `Open`: `mmap(max fileSize InitialMmapSize)`) -/
def Covers (g : GS) : Prop := g.fileSize ≤ g.datasz

/-- an allocation from the high-water mark never touches the file and keeps the mapping
    covering it; afterwards the mapping size is exactly the one the pre-check assumed -/
theorem allocHwm_spec (P : Params) (g g1 : GS) (m : Int) (hps : 0 < P.pageSize) (hc : Covers g)
    (h : allocHwm P g m = .ok g1) :
    g1.fileSize = g.fileSize ∧ Covers g1 ∧
    (P.maxSize > 0 → Gen.growSize P.allocSize g1.datasz m ≤ P.maxSize) := by
  unfold allocHwm at h
  split at h
  · simp at h
  · rename_i hpre
    unfold precheck at hpre
    by_cases hge : m ≥ g.datasz
    · simp only [hge, if_true] at h
      unfold remap at h
      split at h
      · simp at h
      · rename_i mm hmm
        simp only [Except.ok.injEq] at h
        subst h
        have harg : (if g.fileSize < m then m else g.fileSize) = m := by
          unfold Covers at hc; split <;> omega
        rw [harg] at hmm
        refine ⟨rfl, ?_, ?_⟩
        · have := mmapSize_ge _ _ _ hps hmm; unfold Covers at *; simp only; omega
        · intro hmax
          simp only [hmax, if_true, hmm] at hpre
          have hnlt : ¬ m < g.datasz := by omega
          simp only [hnlt, if_false] at hpre
          split at hpre
          · simp at hpre
          · simp only; omega
    · simp only [hge, if_false, Except.ok.injEq] at h
      subst h
      refine ⟨rfl, hc, ?_⟩
      intro hmax
      simp only [hmax, if_true] at hpre
      split at hpre
      · simp at hpre
      · have hlt : m < g.datasz := by omega
        simp only [hlt, if_true] at hpre
        split at hpre
        · simp at hpre
        · omega

/-- **The file never grows beyond MaxSize**: for every page size, allocation chunk,
    initial mapping size (through `g.datasz`), limit value (aligned or not) and every
    sequence of high-water-mark allocations of a commit, the file length after `grow` is at
    most `max (previous length) MaxSize` — a file that was already longer is never grown. -/
theorem maxsize_bound (P : Params) (hps : 0 < P.pageSize) (hmax : P.maxSize > 0) :
    ∀ (ms : List Int) (g g' : GS), Covers g → commitGrow P g ms = .ok g' →
      g'.fileSize ≤ max g.fileSize P.maxSize
  | [], g, g', _, h => by
    simp only [commitGrow, Except.ok.injEq] at h; subst h; omega
  | [m], g, g', hc, h => by
    simp only [commitGrow] at h
    split at h
    · simp at h
    · rename_i g1 h1
      simp only [Except.ok.injEq] at h; subst h
      obtain ⟨hfs, _, hle⟩ := allocHwm_spec P g g1 m hps hc h1
      have hle := hle hmax
      by_cases hsz : m ≤ g1.fileSize
      · simp only [grow, growTarget, hsz, if_true]; omega
      · simp only [grow, growTarget, hsz, if_false]; omega
  | m :: m2 :: rest, g, g', hc, h => by
    simp only [commitGrow] at h
    split at h
    · simp at h
    · rename_i g1 h1
      obtain ⟨hfs, hc1, _⟩ := allocHwm_spec P g g1 m hps hc h1
      have := maxsize_bound P hps hmax (m2 :: rest) g1 g' hc1 h
      omega

/-- A transaction that would need more space fails with the size-limit error *before* the
    file is touched: the only file-changing step of `commitGrow` is the final `grow`. -/
theorem reject_is_clean (P : Params) (g : GS) (m : Int) (h : precheck P g m = .error .maxSizeReached) :
    allocHwm P g m = .error .maxSizeReached ∧ commitGrow P g [m] = .error .maxSizeReached := by
  simp [allocHwm, commitGrow, h]

/-- Without a limit the pre-check never rejects. -/
theorem no_limit_no_reject (P : Params) (g : GS) (m : Int) (h : P.maxSize = 0) : precheck P g m = .ok () := by
  simp [precheck, h]

/-- The pre-check of the pinned tree (before the `fix:` commit): it ignored the current
    mapping size. -/
def precheckPinned (P : Params) (minsz : Int) : Except Err Unit :=
  if P.maxSize > 0 then
    match Gen.mmapSize P.pageSize minsz with
    | none => .error .mmapTooLarge
    | some m => if Gen.growSize P.allocSize m minsz > P.maxSize then .error .maxSizeReached else .ok ()
  else .ok ()

/-- F7 witness (replayed on the real code, see known_findings.json `fixed`): MaxSize = 1 MiB,
    InitialMmapSize = 8 MiB (so `datasz` = 8 MiB), a 48 KiB transaction: the pinned pre-check
    accepts, and `grow` takes the file to 8 MiB. -/
theorem f7_witness :
    let P : Params := { pageSize := 4096, allocSize := 16777216, maxSize := 1048576 }
    let g : GS := { fileSize := 32768, datasz := 8388608 }
    precheckPinned P 49152 = .ok () ∧ (grow P g 49152).fileSize = 8388608 ∧ precheck P g 49152 = .error .maxSizeReached := by
  refine ⟨rfl, rfl, rfl⟩

/-- non-vacuity: a concrete commit within the limit is accepted and stays within it -/
example : commitGrow { pageSize := 4096, allocSize := 16777216, maxSize := 1048576 }
    { fileSize := 32768, datasz := 32768 } [36864, 49152] = .ok { fileSize := 65536, datasz := 65536 } := by
  rfl

end Bolt.C18
