/-
C05 — cursors enumerate keys in byte order and navigate consistently.
Property theorems only; helper lemmas live in `Bolt/Lemmas/Cursor.lean`.
-/
import Bolt.Lemmas.Cursor
import Bolt.Lemmas.CursorF11
namespace Bolt.C05
open Bolt Bolt.Cur

/-! ### running the cursor model and the sorted-list specification side by side -/

inductive Op
  | first | last | next | prev | seek (k : Bytes)
deriving Repr

/-- one call on the implementation model (stack `[]` = fresh, unpositioned cursor) -/
def stepImpl (d fuel : Nat) (t : Tree) (st : Stack) : Op → Stack × Option Item
  | .first => first d fuel t
  | .last => last d fuel t
  | .next => nextPub d fuel t st
  | .prev => prev d fuel t st
  | .seek k => seek d fuel t k

def runImpl (d fuel : Nat) (t : Tree) : Stack → List Op → List (Option (Bytes × Option Bytes))
  | _, [] => []
  | st, op :: ops =>
    let r := stepImpl d fuel t st op
    (r.2.map Item.view) :: runImpl d fuel t r.1 ops

def stepSpec (c : CurSpec) : Op → CurSpec × Option (Bytes × Option Bytes)
  | .first => c.first
  | .last => c.last
  | .next => c.next
  | .prev => c.prev
  | .seek k => c.seek k

def runSpec : CurSpec → List Op → List (Option (Bytes × Option Bytes))
  | _, [] => []
  | c, op :: ops =>
    let r := stepSpec c op
    r.2 :: runSpec r.1 ops

def specOf (t : Tree) : CurSpec := { keys := (flatten t).map Item.view, pos := none }

/-! ### enumeration (holds with EMPTY leaves anywhere: write transactions after deletes) -/

def iterNext (d fuel : Nat) : Nat → Stack → List Item
  | 0, _ => []
  | n+1, st =>
    match next d fuel st with
    | (st', some it) => it :: iterNext d fuel n st'
    | (_, none) => []

def forward (d fuel n : Nat) (t : Tree) : List Item :=
  match first d fuel t with
  | (st, some it) => it :: iterNext d fuel n st
  | (_, none) => []

def iterPrev (d fuel : Nat) (t : Tree) : Nat → Stack → List Item
  | 0, _ => []
  | n+1, st =>
    match prev d fuel t st with
    | (st', some it) => it :: iterPrev d fuel t n st'
    | (_, none) => []

def backward (d fuel n : Nat) (t : Tree) : List Item :=
  match last d fuel t with
  | (st, some it) => it :: iterPrev d fuel t n st
  | (_, none) => []

theorem iterNext_after {t : Tree} {d fuel : Nat} (hwf : BranchesNonEmpty t) (hd : depth t ≤ d)
    (hf : size t ≤ fuel) : ∀ (n : Nat) (st : Stack), VS t st → (after st).length ≤ n →
      iterNext d fuel n st = after st
  | 0, st, _, hn => by
    have : after st = [] := List.length_eq_zero_iff.mp (by omega)
    rw [this]; rfl
  | n+1, st, hv, hn => by
    have hspec := next_spec hwf hd fuel st hv (by have := VS_sizeAfter_lt hv; omega)
    simp only [iterNext]
    rcases hspec with ⟨_, ha, hnx⟩ | hres
    · rw [hnx, ha]
    · generalize next d fuel st = r at hres
      obtain ⟨st', kv⟩ := r
      cases kv with
      | none => rw [hres.none_eq.2.2.1]
      | some x =>
        obtain ⟨hv', _, _, hL⟩ := hres.after_eq
        simp only []
        rw [hL, iterNext_after hwf hd hf n st' hv' (by rw [hL] at hn; simpa using hn)]

/-- **First/Next visits every key exactly once, in tree (= ascending) order**, for every
    tree whose branches are non-empty — leaves may be empty, as after deletes in the same
    write transaction — and terminates within the stated fuel. -/
theorem forward_enumerates (t : Tree) (d fuel n : Nat) (hwf : BranchesNonEmpty t)
    (hd : depth t ≤ d) (hf : size t ≤ fuel) (hn : (flatten t).length ≤ n) :
    forward d fuel n t = flatten t := by
  have hres := first_spec (fuel := fuel) hwf hd hf
  simp only [forward]
  generalize first d fuel t = r at hres
  obtain ⟨st', kv⟩ := r
  cases kv with
  | none => rw [hres.none_eq.2.2.1]
  | some x =>
    obtain ⟨hv', _, _, hL⟩ := hres.after_eq
    simp only []
    rw [hL, iterNext_after hwf hd hf n st' hv' (by rw [hL] at hn; simp at hn; omega)]

theorem iterPrev_before {t : Tree} {d fuel : Nat} (hwf : BranchesNonEmpty t) (hd : depth t ≤ d)
    (hf : size t ≤ fuel) : ∀ (n : Nat) (st : Stack), VS t st → st ≠ [] → (before st).length ≤ n →
      iterPrev d fuel t n st = (before st).reverse
  | 0, st, _, _, hn => by
    have : before st = [] := List.length_eq_zero_iff.mp (by omega)
    rw [this]; rfl
  | n+1, st, hv, hne, hn => by
    have hres := prev_spec hwf hd fuel st hv hne hf
    simp only [iterPrev]
    generalize prev d fuel t st = r at hres
    obtain ⟨st', kv⟩ := r
    cases kv with
    | none => rw [hres.none_eq.1]; rfl
    | some x =>
      obtain ⟨hv', hin, _, hL⟩ := hres.found_eq
      simp only []
      rw [hL, iterPrev_before hwf hd hf n st' hv' (leafIn_ne_nil hin)
        (by rw [hL] at hn; simp at hn; omega)]
      simp

/-- **Last/Prev visits every key exactly once in descending order** (with the repaired
    `prev`, empty leaves included), then reports nil. -/
theorem backward_enumerates (t : Tree) (d fuel n : Nat) (hwf : BranchesNonEmpty t)
    (hd : depth t ≤ d) (hf : size t ≤ fuel) (hn : (flatten t).length ≤ n) :
    backward d fuel n t = (flatten t).reverse := by
  have hres := last_spec (fuel := fuel) hwf hd hf
  simp only [backward]
  generalize last d fuel t = r at hres
  obtain ⟨st', kv⟩ := r
  cases kv with
  | none => rw [hres.none_eq.1]; rfl
  | some x =>
    obtain ⟨hv', hin, _, hL⟩ := hres.found_eq
    simp only []
    rw [hL, iterPrev_before hwf hd hf n st' hv' (leafIn_ne_nil hin)
      (by rw [hL] at hn; simp at hn; omega)]
    simp

/-- **Seek returns the smallest key not less than its argument** (or nil), on any
    search-tree-ordered tree, empty leaves included. -/
theorem seek_spec (t : Tree) (d fuel : Nat) (k : Bytes) (hwf : BranchesNonEmpty t) (hs : SearchTree t)
    (hd : depth t ≤ d) (hf : size t ≤ fuel) :
    (seek d fuel t k).2 = (flatten t).find? (fun it => !Bytes.lt it.key k) := by
  exact seek_find k hwf hs hd hf

/-! ### mixed navigation = a sorted list with a position -/

/- The step theorem as first stated, over the relation `RepC` of `Lemmas/Cursor.lean`:

    theorem step_refines … (h : RepC t st c) (op : Op) :
        RepC t (stepImpl d fuel t st op).1 (stepSpec c op).1 ∧
          (stepImpl d fuel t st op).2.map Item.view = (stepSpec c op).2

   is FALSE for the repaired `Next` (`step_refines_RepC_false` below): `RepC` allows a stack that
   is past the end of a leaf while emptied leaves still lie to its right; from there `nextPub`
   skips the emptied leaf, finds nothing and re-positions on the last key, while the
   specification stays past the end.  No public call ever leaves the cursor in such a stack
   (`first`/`Seek` run the internal `next` to the very end), so the relation is strengthened to
   `RepE = RepC ∧ EndOK` (`Lemmas/CursorF11.lean`), which IS preserved by every call;
   `cursor_refines_spec` below is unchanged and holds as stated. -/
theorem step_refines {t : Tree} {d fuel : Nat} (hwf : BranchesNonEmpty t) (hs : SearchTree t)
    (hd : depth t ≤ d) (hf : size t ≤ fuel) {st : Stack} {c : CurSpec}
    (h : RepE t st c) (op : Op) :
    RepE t (stepImpl d fuel t st op).1 (stepSpec c op).1 ∧
      (stepImpl d fuel t st op).2.map Item.view = (stepSpec c op).2 := by
  cases op with
  | first => exact first_refinesE hwf hd hf h.1.1
  | last => exact last_refinesE hwf hd hf h.1.1
  | next => exact nextPub_refines hwf hd hf h
  | prev => exact prev_refinesE hwf hd hf h
  | seek k => exact seek_refinesE hwf hd hf hs k h.1.1

theorem run_refines {t : Tree} {d fuel : Nat} (hwf : BranchesNonEmpty t) (hs : SearchTree t)
    (hd : depth t ≤ d) (hf : size t ≤ fuel) :
    ∀ (ops : List Op) (st : Stack) (c : CurSpec), RepE t st c → runImpl d fuel t st ops = runSpec c ops
  | [], _, _, _ => rfl
  | op :: ops, st, c, h => by
    have hstep := step_refines hwf hs hd hf h op
    simp only [runImpl, runSpec]
    rw [hstep.2, run_refines hwf hs hd hf ops _ _ hstep.1]

/-- **Any mixture of First/Last/Next/Prev/Seek returns what the same calls return on the
    sorted key list with a position**; running off either end yields nil and the position
    stays on the last/first key — for every search-tree-ordered tree, leaves emptied earlier in
    the same write transaction included (since the repair of F11: `Cursor.Next` running off the
    end across emptied pages now leaves the cursor on the last element). -/
theorem cursor_refines_spec (t : Tree) (d fuel : Nat) (ops : List Op)
    (hwf : BranchesNonEmpty t) (hs : SearchTree t)
    (hd : depth t ≤ d) (hf : size t ≤ fuel) :
    runImpl d fuel t [] ops = runSpec (specOf t) ops := by
  exact run_refines hwf hs hd hf ops [] (specOf t) ⟨⟨rfl, rfl⟩, endOK_nil⟩

/-- the statement proved before the repair (trees without empty leaves), now a corollary -/
theorem cursor_refines_spec_partial (t : Tree) (d fuel : Nat) (ops : List Op)
    (hwf : BranchesNonEmpty t) (hs : SearchTree t) (_hne : NoEmptyLeafBelowRoot t)
    (hd : depth t ≤ d) (hf : size t ≤ fuel) :
    runImpl d fuel t [] ops = runSpec (specOf t) ops :=
  cursor_refines_spec t d fuel ops hwf hs hd hf

/-- the F11 witness: two leaves, the second emptied; Last, Next (nil), Prev.  Before the repair
    the code answered the last key again; now it answers the key before it, as the sorted-list
    specification does. -/
def f11Tree : Tree :=
  .branch [([1], .leaf [⟨[1], [], 0⟩, ⟨[2], [], 0⟩]), ([3], .leaf [])]

theorem f11_repaired :
    runImpl 4 4 f11Tree [] [.last, .next, .prev] = runSpec (specOf f11Tree) [.last, .next, .prev] := by
  decide

/-- the unrepaired `Next` (the internal `next`, still used by `first`/`Seek`) on the witness:
    what the finding was -/
theorem f11_before_repair :
    (let s1 := (last 4 4 f11Tree).1; let s2 := (next 4 4 s1).1; (prev 4 4 f11Tree s2).2.map Item.view)
      = some ([2], some []) := by
  decide

/-- why `step_refines` is stated over `RepE` and not over `RepC`: a stack allowed by `RepC` (past
    the end of the first leaf, the emptied leaf still to its right — never produced by the
    code) from which the repaired `Next` moves onto the last key while the specification stays
    past the end -/
def f11BadStack : Stack := [⟨.leaf [⟨[1], [], 0⟩, ⟨[2], [], 0⟩], 2⟩, ⟨f11Tree, 0⟩]
def f11BadSpec : CurSpec := { keys := (flatten f11Tree).map Item.view, pos := some 2 }

theorem step_refines_RepC_false :
    RepC f11Tree f11BadStack f11BadSpec ∧
      ¬ RepC f11Tree (stepImpl 4 4 f11Tree f11BadStack .next).1 (stepSpec f11BadSpec .next).1 := by
  constructor
  · refine ⟨rfl, ⟨by decide, by decide, by decide, rfl, rfl⟩, ⟨rfl, by decide, by decide⟩, by decide, ?_⟩
    intro h; exact absurd rfl h
  · intro h
    have h2 : Rep f11Tree (stepImpl 4 4 f11Tree f11BadStack .next).1 (some 2) := h.2
    exact absurd h2.2.2.1 (by decide)

/-! ### every call returns -/

set_option linter.unusedVariables false in
/-- The loops of `next`/`prev` never exhaust their fuel: more fuel does not change the
    result (so the unbounded Go loops terminate within `size t` iterations). -/
theorem next_terminates (t : Tree) (d fuel : Nat) (st : Stack) (hwf : BranchesNonEmpty t)
    (hv : ValidStack t st) (hd : depth t ≤ d) (hf : size t ≤ fuel) :
    next d (fuel + 1) st = next d fuel st := by
  have hv' := (validStack_iff_VS t st).mp hv
  exact next_fuel_succ d fuel st hv' (by have := VS_sizeAfter_lt hv'; omega)

set_option linter.unusedVariables false in
theorem prev_terminates (t : Tree) (d fuel : Nat) (st : Stack) (hwf : BranchesNonEmpty t)
    (hv : ValidStack t st) (hd : depth t ≤ d) (hf : size t ≤ fuel) :
    prev d (fuel + 1) t st = prev d fuel t st := by
  have hv' := (validStack_iff_VS t st).mp hv
  simp only [prev]
  rw [stepBack_fuel_succ d fuel st hv' (by have := VS_sizeBefore_lt hv'; omega),
    first_fuel_succ d fuel t hf]

/-- nested buckets appear with a nil value -/
theorem bucket_value_nil (i : Item) (h : i.flags % 2 = 1) : i.view.2 = none := by
  simp [Item.view, h]

/-! ### non-vacuity: a concrete three-level tree with an empty leaf meets the hypotheses -/

def sampleTree : Tree :=
  .branch [([1], .branch [([1], .leaf [⟨[1], [9], 0⟩, ⟨[2], [9], 1⟩]), ([3], .leaf [])]),
           ([5], .branch [([5], .leaf [⟨[5], [], 0⟩])])]

example : BranchesNonEmpty sampleTree ∧ SearchTree sampleTree ∧ depth sampleTree ≤ 3 ∧ size sampleTree ≤ 6 := by
  simp [SearchTree, sampleTree, Cur.ST, KidsST, BranchesNonEmpty, BranchesNonEmptyKids, geLo, ltHi,
    Bytes.lt, depth, depthKids, size, sizeKids]

example : forward 3 6 3 sampleTree = flatten sampleTree := by
  decide

end Bolt.C05
