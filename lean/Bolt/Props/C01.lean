/-
C01 — commits are atomic and durable across a crash at any point.
-/
import Bolt.Lemmas.Store
namespace Bolt.C01
open Bolt.FL Bolt.Store

/-- **Crash atomicity.** For every reachable state with an open writer about to commit and
    every crash point of the commit I/O program — any subset of the data-page writes
    persisted before the first sync completed; the meta write persisted or not (a torn meta
    fails its checksum, `C11.metaValid_damaged`, and counts as not persisted) — the version
    `Open` recovers is the last acknowledged one or the in-flight one, the latter only if its
    meta page was persisted, and every page of the recovered version is intact in the
    durable file. -/
theorem crash_atomic (s : St) (hr : Reachable s) (w : W) (hw : s.w = some w) (cp : CrashPoint) :
    (recovered s w cp = s.cur ∨ recovered s w cp = newVersion s.cur w) ∧
    Intact (crashDisk s w cp) (recovered s w cp) := by
  sorry

/-- The in-flight version is recovered only when its meta page reached the disk. -/
theorem inflight_only_with_meta (s : St) (w : W) (cp : CrashPoint)
    (h : recovered s w cp = newVersion s.cur w) (hne : newVersion s.cur w ≠ s.cur) :
    cp = .duringMeta true ∨ cp = .afterCommit := by
  sorry

/-- Durability: after a successful commit the new version is what the file holds. -/
theorem committed_is_durable (s : St) (hr : Reachable s) (w : W) (hw : s.w = some w)
    (s' : St) (h : stepAll s .commit = some s') :
    s'.cur = newVersion s.cur w ∧ Intact s'.disk s'.cur := by
  sorry

end Bolt.C01
