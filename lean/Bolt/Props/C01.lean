/-
C01 — commits are atomic and durable across a crash at any point.
-/
import Bolt.Lemmas.Store
namespace Bolt.C01
open Bolt.FL Bolt.Store

/-- **Crash atomicity.** For every reachable state with an open writer about to commit and
    every crash point of the commit I/O program — any subset of the data-page writes
    persisted before the first sync completed; the meta write persisted or not (a torn meta
    fails its checksum, `C11.metaValid_damaged`, and counts as not persisted) — the version
    `Open` recovers is the last acknowledged one or the in-flight one, the latter only if its
    meta page was persisted, and every page of the recovered version is intact in the
    durable file. -/
theorem crash_atomic (s : St) (hr : Reachable s) (w : W) (hw : s.w = some w) (cp : CrashPoint) :
    (recovered s w cp = s.cur ∨ recovered s w cp = newVersion s.cur w) ∧
    Intact (crashDisk s w cp) (recovered s w cp) := by
  have hi := hr.inv
  cases cp with
  | duringData ps =>
    exact ⟨Or.inl rfl, intact_cur_write hi hw _ (fun p hp => (List.mem_filter.mp hp).1) _⟩
  | duringMeta b =>
    cases b with
    | false => exact ⟨Or.inl rfl, intact_cur_write hi hw _ (fun p hp => hp) _⟩
    | true => exact ⟨Or.inr rfl, intact_newVersion hi hw⟩
  | afterCommit => exact ⟨Or.inr rfl, intact_newVersion hi hw⟩

/-- The in-flight version is recovered only when its meta page reached the disk. -/
theorem inflight_only_with_meta (s : St) (w : W) (cp : CrashPoint)
    (h : recovered s w cp = newVersion s.cur w) (hne : newVersion s.cur w ≠ s.cur) :
    cp = .duringMeta true ∨ cp = .afterCommit := by
  cases cp with
  | duringData ps => exact absurd h.symm hne
  | duringMeta b =>
    cases b with
    | false => exact absurd h.symm hne
    | true => exact Or.inl rfl
  | afterCommit => exact Or.inr rfl

/-- Durability: after a successful commit the new version is what the file holds. -/
theorem committed_is_durable (s : St) (hr : Reachable s) (w : W) (hw : s.w = some w)
    (s' : St) (h : stepAll s .commit = some s') :
    s'.cur = newVersion s.cur w ∧ Intact s'.disk s'.cur := by
  obtain ⟨w', hw', rfl⟩ := step_commit h
  rw [hw] at hw'
  cases hw'
  exact ⟨rfl, intact_newVersion hr.inv hw⟩

end Bolt.C01
