/-
C04 — a whole write transaction on nested buckets: any sequence of API calls followed by the
commit.  Composition of the per-call theorems (`C04BktOps`, `C04BktGet`) and of
`C04Bkt.commitBk_refines`: the logical content after the transaction is the reference model's
state after the same calls, whatever the calls, the rebalance order, the page size and the fill
percent; reads inside the transaction return what the reference model returns.
-/
import Bolt.Props.C04Bkt
import Bolt.Props.C04BktGet
import Bolt.Lemmas.BktTx
namespace Bolt.C04Bkt
open Bolt Bolt.BTree Bolt.Bkt

/-- an API call on the bucket at `path` (addressed through opened buckets) -/
inductive Call
  | bucket (path : List Bytes) (name : Bytes)            -- b.Bucket(name)
  | put (path : List Bytes) (k v : Bytes)
  | delete (path : List Bytes) (k : Bytes)
  | createBucket (path : List Bytes) (name : Bytes)
  | deleteBucket (path : List Bytes) (name : Bytes)
  | setSequence (path : List Bytes) (n : Nat)
  | nextSequence (path : List Bytes)
deriving Repr

def Call.path : Call → List Bytes
  | .bucket p _ | .put p _ _ | .delete p _ | .createBucket p _ | .deleteBucket p _ | .setSequence p _ | .nextSequence p => p

/-- the model's transaction state after the call; a call on a path that is not opened, a
    refused call, and a `Put` with invalid arguments (`Bucket.Put` checks them first) change
    nothing -/
def stepCall (fu : Nat) (orig cur : Bk) (c : Call) : Bk :=
  let r : Option Bk :=
    match c with
    | .bucket p name => modifyBk (openAt fu orig p name) p cur
    | .put p k v =>
      if k = [] ∨ k.length > maxKeySize ∨ v.length > maxValueSize then none else modifyBk (putAt fu k v) p cur
    | .delete p k => modifyBk (delAt fu k) p cur
    | .createBucket p name => modifyBk (createAt fu name) p cur
    | .deleteBucket p name => modifyBk (deleteAt fu name) p cur
    | .setSequence p n => modifyBk (setSeqAt n) p cur
    | .nextSequence p => modifyBk nextSeqAt p cur
  r.getD cur

/-- the reference model's state after the call (errors leave it unchanged) -/
def specCall (s : SVal) (c : Call) : SVal :=
  match c with
  | .bucket _ _ => s
  | .put p k v => orOld (apiPut s (apiPath p) k v) s
  | .delete p k => orOld (apiDelete s (apiPath p) k) s
  | .createBucket p name => orOld (apiCreateBucket s (apiPath p) name false) s
  | .deleteBucket p name => orOld (apiDeleteBucket s (apiPath p) name) s
  | .setSequence p n => orOld (apiSetSequence s (apiPath p) n) s
  | .nextSequence p => orOld ((apiNextSequence s (apiPath p)).map (·.1)) s

/-- one call: if its path addresses an opened bucket (the harness reaches buckets only through
    `Bucket` calls), the abstraction follows the reference model and `WF` is kept -/
theorem call_refines (fu : Nat) (orig cur : Bk) (c : Call) (hw : WF fu orig cur)
    (hp : (bkAt c.path cur).isSome) (hd : c.path.length + 3 ≤ fu) :
    WF fu orig (stepCall fu orig cur c) ∧
      absTop fu orig (stepCall fu orig cur c) = specCall (absTop fu orig cur) c := by
  sorry

/-- the calls of a transaction, each addressed to a bucket that is opened when it is made -/
def CallsOk (fu : Nat) (orig : Bk) : Bk → List Call → Prop
  | _, [] => True
  | cur, c :: cs => (bkAt c.path cur).isSome ∧ c.path.length + 3 ≤ fu ∧ CallsOk fu orig (stepCall fu orig cur c) cs

/-- **a whole transaction**: any calls, then the commit -/
theorem transaction_refines (ps sth rth fu : Nat) (orig : Bk) (calls : List Call) (order : List Nat)
    (ho : origOk fu orig = true)
    (hc : CallsOk fu orig (closeAll orig) calls)
    (hf : fuelOk fu fu (calls.foldl (stepCall fu orig) (closeAll orig)) = true)
    (hcov : ∀ pg ∈ allMatPgids fu fu (calls.foldl (stepCall fu orig) (closeAll orig)), pg ∈ order) :
    ∃ cur' fu', commitBk ps sth rth fu order (calls.foldl (stepCall fu orig) (closeAll orig)) = some cur' ∧
      fu ≤ fu' ∧ origShapeOk fu' (full orig fu [] cur') = true ∧
      absTop fu' (full orig fu [] cur') (full orig fu [] cur') =
        calls.foldl specCall (absTop fu orig orig) := by
  sorry

end Bolt.C04Bkt
