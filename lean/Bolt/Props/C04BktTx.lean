/-
C04 — a whole write transaction on nested buckets: any sequence of API calls followed by the
commit.  Composition of the per-call theorems (`C04BktOps`, `C04BktGet`) and of
`C04Bkt.commitBk_refines`: the logical content after the transaction is the reference model's
state after the same calls, whatever the calls, the rebalance order, the page size and the fill
percent; reads inside the transaction return what the reference model returns.
-/
import Bolt.Props.C04Bkt
import Bolt.Props.C04BktGet
import Bolt.Lemmas.BktTx
namespace Bolt.C04Bkt
open Bolt Bolt.BTree Bolt.Bkt

/-- an API call on the bucket at `path` (addressed through opened buckets) -/
inductive Call
  | bucket (path : List Bytes) (name : Bytes)            -- b.Bucket(name)
  | put (path : List Bytes) (k v : Bytes)
  | delete (path : List Bytes) (k : Bytes)
  | createBucket (path : List Bytes) (name : Bytes)
  | deleteBucket (path : List Bytes) (name : Bytes)
  | setSequence (path : List Bytes) (n : Nat)
  | nextSequence (path : List Bytes)
deriving Repr

def Call.path : Call → List Bytes
  | .bucket p _ | .put p _ _ | .delete p _ | .createBucket p _ | .deleteBucket p _ | .setSequence p _ | .nextSequence p => p

/-- the model's transaction state after the call; a call on a path that is not opened, a
    refused call, and a `Put` with invalid arguments (`Bucket.Put` checks them first) change
    nothing -/
def stepCall (fu : Nat) (orig cur : Bk) (c : Call) : Bk :=
  let r : Option Bk :=
    match c with
    | .bucket p name => modifyBk (openAt fu orig p name) p cur
    | .put p k v =>
      if k = [] ∨ k.length > maxKeySize ∨ v.length > maxValueSize then none else modifyBk (putAt fu k v) p cur
    | .delete p k => modifyBk (delAt fu k) p cur
    | .createBucket p name => modifyBk (createAt fu name) p cur
    | .deleteBucket p name => modifyBk (deleteAt fu name) p cur
    | .setSequence p n => modifyBk (setSeqAt n) p cur
    | .nextSequence p => modifyBk nextSeqAt p cur
  r.getD cur

/-- the reference model's state after the call (errors leave it unchanged) -/
def specCall (s : SVal) (c : Call) : SVal :=
  match c with
  | .bucket _ _ => s
  | .put p k v => orOld (apiPut s (apiPath p) k v) s
  | .delete p k => orOld (apiDelete s (apiPath p) k) s
  | .createBucket p name => orOld (apiCreateBucket s (apiPath p) name false) s
  | .deleteBucket p name => orOld (apiDeleteBucket s (apiPath p) name) s
  | .setSequence p n => orOld (apiSetSequence s (apiPath p) n) s
  | .nextSequence p => orOld ((apiNextSequence s (apiPath p)).map (·.1)) s

/-- one call: if its path addresses an opened bucket (the harness reaches buckets only through
    `Bucket` calls), the abstraction follows the reference model and `WF` is kept -/
theorem call_refines (fu : Nat) (orig cur : Bk) (c : Call) (hw : WF fu orig cur)
    (hp : (bkAt c.path cur).isSome) (hd : c.path.length + 3 ≤ fu) :
    WF fu orig (stepCall fu orig cur c) ∧
      absTop fu orig (stepCall fu orig cur c) = specCall (absTop fu orig cur) c := by
  obtain ⟨b, hb⟩ := BktTxL.isSome_get hp
  cases c with
  | bucket p name =>
    have h := open_refines fu orig cur p name b hw hb
    simp only [stepCall, specCall]
    cases hm : modifyBk (openAt fu orig p name) p cur with
    | none => exact ⟨hw, rfl⟩
    | some cur' =>
      rw [hm] at h
      exact ⟨h.1, h.2.1⟩
  | put p k v =>
    simp only [stepCall, specCall]
    by_cases hi : k = [] ∨ k.length > maxKeySize ∨ v.length > maxValueSize
    · obtain ⟨e, he⟩ := BktTxL.apiPut_invalid (absTop fu orig cur) topName p k v hi
      simp only [if_pos hi, Option.getD_none]
      refine ⟨hw, ?_⟩
      unfold apiPath
      rw [he]; rfl
    · have hk : k ≠ [] := fun h => hi (Or.inl h)
      have hkl : k.length ≤ maxKeySize := Nat.le_of_not_gt (fun h => hi (Or.inr (Or.inl h)))
      have hvl : v.length ≤ maxValueSize := Nat.le_of_not_gt (fun h => hi (Or.inr (Or.inr h)))
      obtain ⟨cur', hm, hw', ha⟩ := put_refines fu orig cur p k v b hw hb hk hkl hvl
      simp only [if_neg hi, hm, Option.getD_some]
      exact ⟨hw', ha⟩
  | delete p k =>
    obtain ⟨cur', hm, hw', ha⟩ := del_refines fu orig cur p k b hw hb
    simp only [stepCall, specCall]
    simp only [hm, Option.getD_some]
    exact ⟨hw', ha⟩
  | createBucket p name =>
    have h := create_refines fu orig cur p name b hw hb hd
    simp only [stepCall, specCall]
    cases hm : modifyBk (createAt fu name) p cur with
    | none =>
      rw [hm] at h
      obtain ⟨e, he⟩ := h
      refine ⟨hw, ?_⟩
      rw [he]; rfl
    | some cur' =>
      rw [hm] at h
      refine ⟨h.1, ?_⟩
      rw [h.2.1]; rfl
  | deleteBucket p name =>
    have h := deleteBucket_refines fu orig cur p name b hw hb
    simp only [stepCall, specCall]
    cases hm : modifyBk (deleteAt fu name) p cur with
    | none =>
      rw [hm] at h
      obtain ⟨e, he⟩ := h
      refine ⟨hw, ?_⟩
      rw [he]; rfl
    | some cur' =>
      rw [hm] at h
      refine ⟨h.1, ?_⟩
      rw [h.2]; rfl
  | setSequence p n =>
    obtain ⟨cur', hm, hw', ha⟩ := setSeq_refines fu orig cur p n b hw hb
    simp only [stepCall, specCall]
    simp only [hm, Option.getD_some]
    refine ⟨hw', ?_⟩
    rw [ha]; rfl
  | nextSequence p =>
    obtain ⟨cur', hm, hw', ha⟩ := nextSeq_refines fu orig cur p b hw hb
    simp only [stepCall, specCall]
    simp only [hm, Option.getD_some]
    refine ⟨hw', ?_⟩
    rw [ha]; rfl

/-- the calls of a transaction, each addressed to a bucket that is opened when it is made -/
def CallsOk (fu : Nat) (orig : Bk) : Bk → List Call → Prop
  | _, [] => True
  | cur, c :: cs => (bkAt c.path cur).isSome ∧ c.path.length + 3 ≤ fu ∧ CallsOk fu orig (stepCall fu orig cur c) cs

/-- **a whole transaction**: any calls, then the commit -/
theorem transaction_refines (ps sth rth fu : Nat) (orig : Bk) (calls : List Call) (order : List Nat)
    (ho : origOk fu orig = true)
    (hc : CallsOk fu orig (closeAll orig) calls)
    (hf : fuelOk fu fu (calls.foldl (stepCall fu orig) (closeAll orig)) = true)
    (hcov : ∀ pg ∈ allMatPgids fu fu (calls.foldl (stepCall fu orig) (closeAll orig)), pg ∈ order) :
    ∃ cur' fu', commitBk ps sth rth fu order (calls.foldl (stepCall fu orig) (closeAll orig)) = some cur' ∧
      fu ≤ fu' ∧ origShapeOk fu' (full orig fu [] cur') = true ∧
      absTop fu' (full orig fu [] cur') (full orig fu [] cur') =
        calls.foldl specCall (absTop fu orig orig) := by
  have key : ∀ (calls : List Call) (cur : Bk), WF fu orig cur → CallsOk fu orig cur calls →
      WF fu orig (calls.foldl (stepCall fu orig) cur) ∧
        absTop fu orig (calls.foldl (stepCall fu orig) cur) =
          calls.foldl specCall (absTop fu orig cur) := by
    intro calls
    induction calls with
    | nil => intro cur hw _; exact ⟨hw, rfl⟩
    | cons c cs ih =>
      intro cur hw hok
      obtain ⟨hp, hd, hrest⟩ := hok
      obtain ⟨hw', ha⟩ := call_refines fu orig cur c hw hp hd
      obtain ⟨hw'', ha'⟩ := ih (stepCall fu orig cur c) hw' hrest
      refine ⟨hw'', ?_⟩
      simp only [List.foldl_cons]
      rw [ha', ha]
  obtain ⟨hwf, habs⟩ := key calls (closeAll orig) (start_wf fu orig ho) hc
  obtain ⟨cur', fu', hcm, _, hle, hshape, hfull⟩ :=
    commitBk_refines ps sth rth fu orig _ order hwf hf hcov
  refine ⟨cur', fu', hcm, hle, hshape, ?_⟩
  rw [hfull, habs, start_abs fu orig ho]

end Bolt.C04Bkt
