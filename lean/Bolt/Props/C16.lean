/-
C16 — Batch applies each successful function exactly once.
-/
import Bolt.Model.Batch
import Bolt.Lemmas.Batch
set_option linter.unusedVariables false
namespace Bolt.C16
open Bolt.Batch

/-- **Exactly once / not at all.** In every reachable state — every ordering of batch
    retries and solo retries, every outcome script, every commit-failure pattern — a caller
    to whom `Batch` returned nil has its function's effects committed exactly once, a caller
    to whom it returned an error has none committed, and a caller still waiting has none
    committed yet. -/
theorem batch_exactly_once (script : Id → Nat → Outcome) (calls : List Id) (hnd : calls.Nodup)
    (s : St) (h : Reach script (start calls) s) (c : Id) :
    (s.result c = some .nil → s.applied c = 1) ∧
    (s.result c = some .err → s.applied c = 0) ∧
    (s.result c = none → s.applied c = 0) := by
  have I := inv_reach script calls hnd s h
  have ha := I.app c
  refine ⟨ha.1, fun he => ha.2 (by simp [he]), fun he => ha.2 (by simp [he])⟩

/-- No caller is lost: every caller is, at all times, in exactly one of: waiting in the
    queue, waiting for its solo retry, or answered. -/
theorem batch_no_caller_lost (script : Id → Nat → Outcome) (calls : List Id) (hnd : calls.Nodup)
    (s : St) (h : Reach script (start calls) s) (c : Id) (hc : c ∈ calls) :
    (c ∈ s.queue ∧ c ∉ s.solo ∧ s.result c = none) ∨
    (c ∉ s.queue ∧ c ∈ s.solo ∧ s.result c = none) ∨
    (c ∉ s.queue ∧ c ∉ s.solo ∧ s.result c ≠ none) := by
  have I := inv_reach script calls hnd s h
  rcases I.cover c hc with hq | hs | hr
  · exact Or.inl ⟨hq, I.disj c hq, I.qres c hq⟩
  · exact Or.inr (Or.inl ⟨fun hq => I.disj c hq hs, hs, I.sres c hs⟩)
  · refine Or.inr (Or.inr ⟨fun hq => hr (I.qres c hq), fun hs => hr (I.sres c hs), hr⟩)

/-- **Isolation.** A caller whose own function never fails is never sent to a solo retry,
    whatever the other callers' functions do (fail, panic, on any invocation). -/
theorem batch_isolation (script : Id → Nat → Outcome) (calls : List Id) (hnd : calls.Nodup)
    (c : Id) (hgood : ∀ n, script c n = .ok)
    (s : St) (h : Reach script (start calls) s) : c ∉ s.solo := by
  induction h with
  | refl => simp [start]
  | step _ hs ih =>
    cases hs with
    | batch commitOk =>
      intro hx
      rcases batch_solo_mem script commitOk _ c hx with h | ⟨n, hn⟩
      · exact ih h
      · exact hn (hgood n)
    | solo commitOk c' =>
      intro hx
      exact ih (solo_solo_mem script commitOk c' _ c hx)

/-- … and when commits succeed it is never reported as failed: once answered, the answer is
    nil (and by `batch_exactly_once` its effects are committed exactly once). -/
theorem batch_good_caller_succeeds (script : Id → Nat → Outcome) (calls : List Id) (hnd : calls.Nodup)
    (c : Id) (hgood : ∀ n, script c n = .ok)
    (s : St) (h : ReachOk script (start calls) s) : s.result c ≠ some .err := by
  induction h with
  | refl => simp [start]
  | batch _ ih =>
    intro hx
    exact ih (batch_result_err_ok script _ c hx)
  | solo c' _ ih =>
    intro hx
    rcases solo_result_err_ok script c' _ c hx with h | ⟨_, n, hn⟩
    · exact ih h
    · exact hn (hgood n)

/-- A caller whose function fails (or panics) on every invocation is answered with an error
    and nothing of it is ever committed. -/
theorem batch_bad_caller_fails (script : Id → Nat → Outcome) (calls : List Id) (hnd : calls.Nodup)
    (c : Id) (hbad : ∀ n, script c n ≠ .ok)
    (s : St) (h : Reach script (start calls) s) : s.result c ≠ some .nil ∧ s.applied c = 0 := by
  have hnil : s.result c ≠ some .nil := by
    induction h with
    | refl => simp [start]
    | step _ hs ih =>
      cases hs with
      | batch commitOk =>
        intro hx
        rcases batch_result_nil script commitOk _ c hx with h | ⟨n, hn⟩
        · exact ih h
        · exact hbad n hn
      | solo commitOk c' =>
        intro hx
        rcases solo_result_nil script commitOk c' _ c hx with h | ⟨n, hn⟩
        · exact ih h
        · exact hbad n hn
  exact ⟨hnil, ((inv_reach script calls hnd s h).app c).2 hnil⟩

/-- **Termination**: each iteration of `run`'s retry loop shortens the queue (by one failing
    call, or to empty), and each solo retry removes its caller: at most `|calls|` batch
    transactions and `|calls|` solo transactions. -/
theorem batch_queue_shrinks (script : Id → Nat → Outcome) (commitOk : Bool) (s : St) (hq : s.queue ≠ []) :
    (batchAttempt script commitOk s).queue.length < s.queue.length := by
  unfold batchAttempt
  simp only [hq, if_false]
  rcases hr : runFns script s.queue s.inv 0 with ⟨_ | i, inv'⟩
  · have : 0 < s.queue.length := List.length_pos_iff.2 hq
    cases commitOk <;> simpa using this
  · obtain ⟨j, c, n, hij, hj, -⟩ := runFns_some script _ _ _ _ _ hr
    have hi : s.queue[i]? = some c := by
      have : i = j := by omega
      rw [this]; exact hj
    simp only [hi]
    have := swapRemove_length s.queue i hq
    omega

theorem solo_shrinks (script : Id → Nat → Outcome) (commitOk : Bool) (c : Id) (s : St) (hc : c ∈ s.solo) :
    (soloAttempt script commitOk c s).solo.length < s.solo.length ∧
    (soloAttempt script commitOk c s).queue = s.queue := by
  unfold soloAttempt
  simp only [hc, not_true_eq_false, if_false]
  have hl := List.length_erase_of_mem hc
  have : 0 < s.solo.length := List.length_pos_of_mem hc
  split <;> exact ⟨by simp only [hl]; omega, rfl⟩

/-- non-vacuity: three callers, the second fails once, everybody ends up applied exactly once -/
example :
    let script : Id → Nat → Outcome := fun c n => if c = 1 ∧ n = 0 then .fail else .ok
    let s := soloAttempt script true 1 (batchAttempt script true (batchAttempt script true (start [0, 1, 2])))
    s.queue = [] ∧ s.solo = [] ∧ (s.applied 0, s.applied 1, s.applied 2) = (1, 1, 1) ∧
    (s.result 0, s.result 1, s.result 2) = (some .nil, some .nil, some .nil) := by
  decide

end Bolt.C16
