/-
C12/C07 — `node.size()` (the quantity `node.split`, `Bucket.inlineable` and the page allocation
of `node.spill` are computed from; `Model/Node.nodeSize`, `BTree.N.size`) is exactly the number
of bytes `node.write` emits for the node (`Enc.leafPage` / `Enc.branchPage`, the writers that the
`format` engine ties byte for byte to the real files): the `(size + pageSize - 1) / pageSize`
pages that `spill` allocates hold the whole node.
-/
import Bolt.Model.Encode
import Bolt.Model.BTree
import Bolt.Lemmas.Encode
namespace Bolt.C12Node
open Bolt Bolt.BTree Bolt.Node

def toLeafElem (i : Item) : LeafElem := { flags := i.flags, key := i.key, val := i.val }

theorem leafElemHeaders_length (es : List LeafElem) (i off : Nat) :
    (Enc.leafElemHeaders i off es).length = 16 * es.length := by
  induction es generalizing i off with
  | nil => simp [Enc.leafElemHeaders]
  | cons e r ih => simp [Enc.leafElemHeaders, ih, putLE_length]; omega

theorem branchElemHeaders_length (es : List BranchElem) (i off : Nat) :
    (Enc.branchElemHeaders i off es).length = 16 * es.length := by
  induction es generalizing i off with
  | nil => simp [Enc.branchElemHeaders]
  | cons e r ih => simp [Enc.branchElemHeaders, ih, putLE_length]; omega

theorem leafData_length (items : List Item) :
    (Enc.leafData (items.map toLeafElem)).length = ((items.map (fun i => i.key.length + i.val.length)).sum) := by
  induction items with
  | nil => simp [Enc.leafData]
  | cons i r ih => simp [Enc.leafData, ih, toLeafElem]; omega

theorem nodeSize_sum (l : List El) : nodeSize l = 16 + 16 * l.length + (l.map (fun e => e.1 + e.2)).sum := by
  unfold nodeSize
  induction l with
  | nil => simp
  | cons e r ih => simp [elSize] at *; omega

/-- **a leaf node is written as exactly `size` bytes** -/
theorem leaf_bytes_eq_size (h : Hd) (items : List Item) (id ov : Nat) :
    (Enc.leafPage id ov (items.map toLeafElem)).length = (N.leaf h items).size := by
  simp only [Enc.leafPage, Enc.header, List.length_append, putLE_length, leafElemHeaders_length,
    leafData_length, N.size, N.els, nodeSize_sum, List.length_map, List.map_map]
  have : (fun e : El => e.1 + e.2) ∘ (fun i : Item => (i.key.length, i.val.length)) = fun i => i.key.length + i.val.length := rfl
  rw [this]

theorem branchData_length (kids : List (Bytes × N)) (pg : N → Nat) :
    (Enc.branchData (kids.map (fun p => ({ key := p.1, pgid := pg p.2 } : BranchElem)))).length =
      (kids.map (fun p => p.1.length)).sum := by
  induction kids with
  | nil => simp [Enc.branchData]
  | cons p r ih => simp [Enc.branchData, ih]

/-- **a branch node is written as exactly `size` bytes**, whatever pages its children got -/
theorem branch_bytes_eq_size (h : Hd) (kids : List (Bytes × N)) (pg : N → Nat) (id ov : Nat) :
    (Enc.branchPage id ov (kids.map (fun p => ({ key := p.1, pgid := pg p.2 } : BranchElem)))).length =
      (N.branch h kids).size := by
  simp only [Enc.branchPage, Enc.header, List.length_append, putLE_length, branchElemHeaders_length,
    branchData_length, N.size, N.els, nodeSize_sum, List.length_map, List.map_map]
  have : (fun e : El => e.1 + e.2) ∘ (fun p : Bytes × N => (p.1.length, 0)) = fun p => p.1.length := by
    funext p; simp
  rw [this]

/-- the pages `node.spill` allocates — `(size + pageSize - 1) / pageSize` — hold the node -/
theorem allocated_pages_suffice (s ps : Nat) (hps : 0 < ps) : s ≤ ((s + ps - 1) / ps) * ps := by
  have := Nat.div_add_mod (s + ps - 1) ps
  have hm := Nat.mod_lt (s + ps - 1) hps
  rw [Nat.mul_comm] at this
  omega

end Bolt.C12Node
