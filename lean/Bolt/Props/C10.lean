/-
C10 — freed space is reclaimed as soon as no reader needs it.
-/
import Bolt.Lemmas.Store
namespace Bolt.C10
open Bolt.FL Bolt.Store

/-- With no reader open, the next write transaction can reuse every page released so far:
    after `beginW` nothing is pending. -/
theorem all_reusable_without_readers (s : St) (hr : Reachable s) (hb : s.cur.txid + 2 < maxU64)
    (hnr : s.readers = [])
    (s' : St) (h : stepAll s .beginW = some s') :
    s'.fl.pendingIds = [] ∧ ∀ p, p ∈ s'.fl.freeIds ↔ (p ∈ s.fl.freeIds ∨ p ∈ s.fl.pendingIds) := by
  obtain ⟨h1, h2⟩ := beginW_no_readers hr.inv hb hnr h
  exact ⟨by rw [pendingIds_eq, h1]; rfl, h2⟩

/-- In every reachable state with an open writer that began while no reader was open and
    none was opened since, the pending pages are exactly the pages this writer freed. -/
theorem pending_is_own_frees (s0 : St) (hr : Reachable s0) (hb : s0.cur.txid + 2 < maxU64)
    (hnr : s0.readers = [])
    (evs : List Ev) (hevs : ∀ e ∈ evs, (∃ n c, e = .alloc n c) ∨ (∃ i o, e = .free i o))
    (s : St) (h : runEvs s0 (.beginW :: evs) = some s) (w : W) (hw : s.w = some w) :
    ∀ p, p ∈ s.fl.pendingIds ↔ p ∈ w.freed := by
  obtain ⟨s1, hs1, hrun⟩ := runEvs_cons.mp h
  have hi1 := inv_step hr.inv hs1
  have ho1 : OwnOnly s1 := by
    intro e he
    rw [(beginW_no_readers hr.inv hb hnr hs1).1] at he
    cases he
  have ho := ownOnly_run hevs hi1 ho1 hrun
  have hi := inv_run hi1 hrun
  intro p
  rw [← St.freed_some hw, hi.freed_iff p, mem_pendingIds]
  constructor
  · rintro ⟨t, a, hp⟩
    obtain ⟨e, he, het⟩ := hp.key
    rw [← het, ho e he] at hp
    exact ⟨a, hp⟩
  · rintro ⟨a, hp⟩
    exact ⟨_, a, hp⟩

/-- While readers are open no page that an open reader's version references is reusable. -/
theorem reader_pages_withheld (s : St) (hr : Reachable s) (hb : s.cur.txid + 2 < maxU64) :
    ∀ r ∈ s.readers, ∀ p ∈ r.used, p ∉ s.fl.freeIds :=
  fun _ hrd _ hp => reader_page_not_free hr.inv (hr.rinv hb) hrd hp

/-- Pages released by transactions older than every open reader are reusable by the next
    writer: after `beginW` every still-pending entry was freed by a transaction ≥ the oldest
    open reader. -/
theorem released_below_oldest_reader (s : St) (hr : Reachable s) (m : Nat) (hne : s.readers ≠ [])
    (hm : ∀ r ∈ s.readers, m ≤ r.txid) (s' : St) (h : stepAll s .beginW = some s') :
    ∀ p ∈ s'.fl.pending, m ≤ p.1 := by
  have hi := hr.inv
  rw [(step_beginW h).2]
  apply releasePending_below_min hi.fl m
  · intro t ht
    obtain ⟨r, hrd, rfl⟩ := List.mem_map.mp (hi.regs.mem_iff.mp ht)
    exact hm r hrd
  · intro hnil
    have := hi.regs.length_eq
    rw [hnil, List.length_map] at this
    exact hne (List.eq_nil_of_length_eq_zero this.symm)

/-- Reopening makes everything that is not referenced allocatable again. -/
theorem reopen_reclaims_all (s : St) (hr : Reachable s) (k : Kind) (s' : St) (h : stepAll s (.reopen k) = some s') :
    s'.fl.pendingIds = [] ∧ ∀ p, p ∈ s'.fl.freeIds ↔ (2 ≤ p ∧ p < s.cur.hwm ∧ p ∉ s.cur.used) := by
  obtain ⟨_, _, fl, hfl, rfl⟩ := step_reopen h
  obtain ⟨g, h1, h2, h3⟩ := init_freeIds (freshFree_sorted s.cur) (FL.empty k)
  rw [hfl] at h1
  cases h1
  refine ⟨by rw [pendingIds_eq, h3]; rfl, fun p => ?_⟩
  show p ∈ fl.freeIds ↔ _
  rw [h2, mem_freshFree]

end Bolt.C10
