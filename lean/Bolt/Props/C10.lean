/-
C10 — freed space is reclaimed as soon as no reader needs it.
-/
import Bolt.Lemmas.Store
namespace Bolt.C10
open Bolt.FL Bolt.Store

/-- With no reader open, the next write transaction can reuse every page released so far:
    after `beginW` nothing is pending. -/
theorem all_reusable_without_readers (s : St) (hr : Reachable s) (hnr : s.readers = [])
    (s' : St) (h : stepAll s .beginW = some s') :
    s'.fl.pendingIds = [] ∧ ∀ p, p ∈ s'.fl.freeIds ↔ (p ∈ s.fl.freeIds ∨ p ∈ s.fl.pendingIds) := by
  sorry

/-- In every reachable state with an open writer that began while no reader was open and
    none was opened since, the pending pages are exactly the pages this writer freed. -/
theorem pending_is_own_frees (s0 : St) (hr : Reachable s0) (hnr : s0.readers = [])
    (evs : List Ev) (hevs : ∀ e ∈ evs, (∃ n c, e = .alloc n c) ∨ (∃ i o, e = .free i o))
    (s : St) (h : runEvs s0 (.beginW :: evs) = some s) (w : W) (hw : s.w = some w) :
    ∀ p, p ∈ s.fl.pendingIds ↔ p ∈ w.freed := by
  sorry

/-- While readers are open no page that an open reader's version references is reusable. -/
theorem reader_pages_withheld (s : St) (hr : Reachable s) :
    ∀ r ∈ s.readers, ∀ p ∈ r.used, p ∉ s.fl.freeIds := by
  sorry

/-- Pages released by transactions older than every open reader are reusable by the next
    writer: after `beginW` every still-pending entry was freed by a transaction ≥ the oldest
    open reader. -/
theorem released_below_oldest_reader (s : St) (hr : Reachable s) (m : Nat) (hne : s.readers ≠ [])
    (hm : ∀ r ∈ s.readers, m ≤ r.txid) (s' : St) (h : stepAll s .beginW = some s') :
    ∀ p ∈ s'.fl.pending, m ≤ p.1 := by
  sorry

/-- Reopening makes everything that is not referenced allocatable again. -/
theorem reopen_reclaims_all (s : St) (hr : Reachable s) (k : Kind) (s' : St) (h : stepAll s (.reopen k) = some s') :
    s'.fl.pendingIds = [] ∧ ∀ p, p ∈ s'.fl.freeIds ↔ (2 ≤ p ∧ p < s.cur.hwm ∧ p ∉ s.cur.used) := by
  sorry

end Bolt.C10
