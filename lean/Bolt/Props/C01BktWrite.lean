/-
The write side at bucket level — the page writes of a commit establish `LaidBk`.

`C01Bkt.transaction_readback` takes `LaidBk f b` (the file holds the relabelled committed bucket
tree) as a hypothesis.  This file derives it: start from a file that holds the bucket tree the
transaction began with (`LaidBk f orig`), commit on the bucket-tree model (`commitRoot`), give the
written pages ANY real ids (`RelabelBk`), write the image of every written node of every paged
bucket — with the REAL bucket values (root page, sequence, inline page) in the nested-bucket
elements — at its page (`writeAll … (newNodesBk …)`).  If the written spans are pairwise disjoint
and disjoint from the pages of the old bucket tree (allocator: C07/C09, evaluated on real commits
by the engines), the file holds the new bucket tree.  The heart is copy-on-write at bucket
level: a node that keeps its page is a node of the old tree of the same bucket, and every
nested-bucket element on it still carries the value it had (a nested bucket whose root, sequence
or inline content changed has its element rewritten by `Bucket.spill`, which materialises — and
so rewrites — the leaf that holds it).

`commit_written_bk` needs two hypotheses beyond well-formedness (`WF` says nothing about where
the trees of the transaction's state come from; counterexample below): the copy-on-write
invariant `BktWriteL.CowBk` of the state — it holds when the transaction begins and every call
keeps it (`BktWriteL.cowBk_closeAll`, `stepCall_cow`, `calls_cow`), so
`transaction_written_readback` does not need it — and `BktWriteL.InlZero`: inline buckets of the
start state carry page id 0 on their leaf (decidable check: `BktWriteL.inlZeroB`).
-/
import Bolt.Props.C01Bkt
import Bolt.Lemmas.BktWrite
namespace Bolt.C01BktWrite
open Bolt Bolt.BTree Bolt.Bkt Bolt.C12Bk Bolt.C12Tree Bolt.C01Tree Bolt.C01Bkt Bolt.C04Bkt

/-- every node the commit writes, over the whole bucket tree: for every paged bucket the new
    nodes of its tree as they are on disk (real bucket values in the elements) -/
def newNodesBk : Nat → Bk → Bk → List N
  | 0, _, _ => []
  | f+1, a, b =>
    (if a.root ≠ 0 then newNodes a.tree (realTree b) else []) ++
    (a.opened.zip b.opened).flatMap (fun p => newNodesBk f p.1.2 p.2.2)

/-- every page of a bucket tree: the trees of all paged buckets, nested ones included -/
def pagesOfBk (ps : Nat) : Nat → Bk → List (Nat × Nat × Nat)
  | 0, _ => []
  | f+1, b => (if b.root ≠ 0 then pagesOf ps (realTree b) else []) ++ b.opened.flatMap (fun p => pagesOfBk ps f p.2)

/-- what `LaidBk` demands besides the bytes: field widths and page range of every paged bucket's
    tree, sequence widths, the inline-bucket bounds -/
def SideOk (ps hwm : Nat) : Nat → Bk → Prop
  | 0, _ => False
  | fu+1, b =>
    b.seq < 2^64 ∧
    (b.root ≠ 0 → FitsG ps hwm (realTree b)) ∧
    (b.root = 0 → (∃ h items, b.tree = .leaf h items ∧ items.length < 0xFFFF ∧ ∀ i ∈ items, i.flags < 2^32) ∧
      b.opened = []) ∧
    ∀ p ∈ b.opened, SideOk ps hwm fu p.2

/-! ### helper lemmas about `newNodesBk`, `pagesOfBk`, `SideOk` (everything else is in
`Bolt.Lemmas.BktWrite`) -/
section Helpers
open Bolt.BktWriteL Bolt.BTree.CowL Bolt.Bkt.BktCommitL Bolt.WriteTreeL

/-- a bucket of the start-of-transaction state is laid out in the file, its inline buckets carry
    page id 0, and its pages are pages of the whole bucket tree -/
theorem reach_facts (f : File) (ps hwm fu : Nat) (orig : Bk) (hl : LaidBk f ps hwm fu orig)
    (hinl : InlZero fu orig) : ∀ {ob : Bk}, Reach orig ob →
    ∃ g, LaidBk f ps hwm (g+1) ob ∧ InlZero (g+1) ob ∧
      ∀ x ∈ pagesOfBk ps (g+1) ob, x ∈ pagesOfBk ps fu orig := by
  intro ob h
  induction h with
  | root =>
    cases fu with
    | zero => rw [LaidBk] at hl; exact hl.elim
    | succ g => exact ⟨g, hl, hinl, fun x hx => hx⟩
  | @step o p _ hp ih =>
    obtain ⟨g, h1, h2, h3⟩ := ih
    rw [LaidBk] at h1
    rw [InlZero] at h2
    have h1p := h1.2.2.2 p hp
    cases g with
    | zero => rw [LaidBk] at h1p; exact h1p.elim
    | succ g' =>
      refine ⟨g', h1p, h2.2 p hp, ?_⟩
      intro x hx
      apply h3
      rw [pagesOfBk]
      exact List.mem_append_right _ (List.mem_flatMap.mpr ⟨p, hp, hx⟩)

theorem mem_zip_right {α β : Type} : ∀ (la : List α) (lb : List β), la.length = lb.length →
    ∀ q ∈ lb, ∃ p, (p, q) ∈ la.zip lb
  | _, [], _, q, hq => by cases hq
  | [], _ :: _, h, _, _ => by simp at h
  | a :: la, b :: lb, h, q, hq => by
    rcases List.mem_cons.mp hq with rfl | hq
    · exact ⟨a, by rw [List.zip_cons_cons]; exact List.mem_cons_self ..⟩
    · obtain ⟨p, hp⟩ := mem_zip_right la lb (by simpa using h) q hq
      exact ⟨p, by rw [List.zip_cons_cons]; exact List.mem_cons_of_mem _ hp⟩

theorem relabel_kept : ∀ (a b : N), Relabel a b → a.hd.pgid ≠ 0 → b = a
  | .leaf ha ia, b, h, h0 => by rw [Relabel, if_pos (by exact h0)] at h; exact h
  | .branch ha ka, b, h, h0 => by rw [Relabel, if_pos (by exact h0)] at h; exact h

theorem inlineItems_congr (b b' : Bk) (h1 : b.root = b'.root) (h2 : b.tree = b'.tree) :
    inlineItems b = inlineItems b' := by
  unfold inlineItems; rw [h1, h2]

/-- a nested bucket that still has the root, sequence and tree of a laid-out bucket gets the
    same header when it is relabelled -/
theorem relabel_same_val (F : Nat) (ca cb oc : Bk) (h : RelabelBk F ca cb) (h1 : ca.root = oc.root)
    (h2 : ca.seq = oc.seq) (h3 : ca.tree = oc.tree) (h4 : oc.root ≠ 0 → oc.root = oc.tree.hd.pgid) :
    bucketVal cb.root cb.seq (inlineItems cb) = bucketVal oc.root oc.seq (inlineItems oc) := by
  cases F with
  | zero => rw [relabelBk_zero] at h; exact h.elim
  | succ F =>
    obtain ⟨ra, sa, ta, oa⟩ := ca
    obtain ⟨rb, sb, tb, ob⟩ := cb
    obtain ⟨ro, so, to, oo⟩ := oc
    obtain ⟨hs, h0, hn, _, _⟩ := (relabelBk_succ ..).mp h
    change ra = ro at h1
    change sa = so at h2
    change ta = to at h3
    change ro ≠ 0 → ro = to.hd.pgid at h4
    subst h1 h2 h3 hs
    by_cases hr : ra = 0
    · obtain ⟨rfl, rfl⟩ := h0 hr
      subst hr
      rfl
    · obtain ⟨hre, hroot, hrb⟩ := hn hr
      have hpg : ta.hd.pgid = ra := (h4 hr).symm
      have htb : tb = ta := relabel_kept ta tb hre (by rw [hpg]; exact hr)
      subst htb
      rw [hroot, hpg]
      show bucketVal ra _ _ = bucketVal ra _ _
      congr 1

/-- **the write side**: the file that holds `orig`, after the writes `W`, holds the relabelled
    bucket tree `b` whenever the model's tree `a` is copy-on-write with respect to `orig` and `W`
    contains its new nodes -/
theorem laidBk_written (f : File) (ps hwm hwm' fu : Nat) (orig : Bk) (W : List N) (hps : 0 < ps)
    (hl : LaidBk f ps hwm fu orig) (hinl : InlZero fu orig)
    (hpw : (W.map (spanOfN ps)).Pairwise disj)
    (hold : ∀ n ∈ W, ∀ p ∈ pagesOfBk ps fu orig, disj (spanOfN ps n) (p.1, p.2.1)) :
    ∀ (F : Nat) (a b : Bk), KeptF orig F a → RelabelBk F a b → SideOk ps hwm' F b →
    (∀ n ∈ newNodesBk F a b, n ∈ W) → LaidBk (writeAll ps f W) ps hwm' F b
  | 0, a, b, _, hr, _, _ => by rw [relabelBk_zero] at hr; exact hr.elim
  | F+1, .mk ra sa ta oa, .mk rb sb tb ob, hk, hr, hs, hw => by
    obtain ⟨hk1, hk2⟩ := (keptF_succ ..).mp hk
    obtain ⟨_, h0, hn, hlen, hz⟩ := (relabelBk_succ ..).mp hr
    have hrel := relabelBk_opened _ _ _ _ _ _ _ _ _ hr
    rw [SideOk] at hs
    obtain ⟨s1, s2, s3, s4⟩ := hs
    rw [newNodesBk] at hw
    simp only [Bk.root, Bk.opened] at s2 s4
    rw [LaidBk]
    refine ⟨s1, ?_, s3, ?_⟩
    · intro hrb
      have hrb' : rb ≠ 0 := hrb
      have hra : ra ≠ 0 := fun h => hrb' (h0 h).1
      obtain ⟨hre, hroot, _⟩ := hn hra
      refine ⟨hroot, ?_, s2 hrb'⟩
      show Laid _ ps (realizeN (fun n => lookupBk n ob) tb)
      apply laid_relabel _ ps (realizeN (fun n => lookupBk n ob) ta) _ (relabel_realize _ ta tb hre)
      · intro n' hn' h0'
        rw [subtrees_sub, sub_realize] at hn'
        obtain ⟨n, hn, rfl⟩ := List.mem_map.mp hn'
        rw [realizeN_hd] at h0'
        obtain ⟨X, hX, hnX, hE⟩ := hk1 n hn h0'
        obtain ⟨g, g1, g2, g3⟩ := reach_facts f ps hwm fu orig hl hinl hX
        rw [LaidBk] at g1
        rw [InlZero] at g2
        have hXr : X.root ≠ 0 := by
          intro h
          obtain ⟨⟨hd, items, ht, _⟩, _⟩ := g1.2.2.1 h
          have hz0 := g2.1 h
          rw [ht] at hnX hz0
          rw [sub_leaf, List.mem_singleton] at hnX
          rw [hnX] at h0'
          exact h0' hz0
        obtain ⟨_, hlX, _⟩ := g1.2.1 hXr
        have hlX' : Laid (writeAll ps f W) ps (realTree X) :=
          C02Tree.laid_frame f _ ps hps _ hlX (writeAll_frame_tree ps hps f W _
            (fun m hm p hp => hold m hm p (g3 p (by
              rw [pagesOfBk]
              exact List.mem_append_left _ (by rw [if_pos hXr]; exact hp)))))
        have heq : realizeN (fun n => lookupBk n ob) n = realizeN (fun n => lookupBk n X.opened) n := by
          apply realizeN_congr
          intro e he
          by_cases hfl : e.flags % 2 = 1
          · obtain ⟨ca, oc, hca, hoc, q1, q2, q3⟩ := hE e he hfl
            rcases lookupBk_rel hrel e.key with ⟨h1, _⟩ | ⟨c1, cb, h1, h2, hR⟩
            · rw [hca] at h1; cases h1
            · rw [hca] at h1; cases h1
              obtain ⟨g', k1, _, _⟩ := reach_facts f ps hwm fu orig hl hinl (Reach.step hX (lookupBk_mem hoc))
              rw [LaidBk] at k1
              have hv := relabel_same_val F ca cb oc hR q1 q2 q3 (fun h => (k1.2.1 h).1)
              unfold realItem
              rw [if_pos hfl, if_pos hfl]
              simp only [h2, hoc, hv]
          · rw [realItem_plain _ e hfl, realItem_plain _ e hfl]
        rw [heq]
        apply laid_subtree _ ps (realTree X) _ hlX'
        rw [subtrees_sub, realTree, sub_realize]
        exact List.mem_map_of_mem hnX
      · intro n hn'
        rw [newNodes_realize] at hn'
        exact writeAll_holds ps hps W f hpw n (hw n (List.mem_append_left _ (by
          rw [if_pos (show (Bk.mk ra sa ta oa).root ≠ 0 from hra)]; exact hn')))
    · intro q hq
      obtain ⟨p, hpq⟩ := mem_zip_right oa ob hlen q hq
      have hp : p ∈ oa := (List.of_mem_zip hpq).1
      exact laidBk_written f ps hwm hwm' fu orig W hps hl hinl hpw hold F p.2 q.2 (hk2 p hp)
        (hz (p, q) hpq).2 (s4 q hq)
        (fun n hn => hw n (List.mem_append_right _ (List.mem_flatMap.mpr ⟨(p, q), hpq, hn⟩)))

end Helpers

/-- **the page writes of a commit establish the new bucket tree in the file**

EXTRA HYPOTHESES (not in the original statement, which is false without them — see the
counterexample below):
  * `hcow : CowBk orig fu [] cur` — the transaction's state is copy-on-write with respect to `orig`
    (`WF` does not relate the trees of `cur` to those of `orig`); it holds of `closeAll orig`
    (`cowBk_closeAll`) and is kept by the calls of a transaction;
  * `hinl : InlZero fu orig` — inline buckets of `orig` carry page id 0 on their leaf (as inline
    pages do), so that such a leaf is never taken for a kept page. -/
theorem commit_written_bk (f : File) (ps hwm hwm' sth rth fu fu' : Nat) (orig cur cur' b : Bk) (order : List Nat)
    (hps : 0 < ps)
    (hw : WF fu orig cur) (hf : fuelOk fu fu cur = true) (hcov : ∀ pg ∈ allMatPgids fu fu cur, pg ∈ order)
    (hcm : commitRoot ps sth rth fu order cur = some cur')
    (hle : fu ≤ fu') (hshape : origShapeOk fu' (full orig fu [] cur') = true)
    (hl : LaidBk f ps hwm fu orig)
    (hre : RelabelBk fu' (full orig fu [] cur') b)
    (hside : SideOk ps hwm' fu' b)
    (hpw : ((newNodesBk fu' (full orig fu [] cur') b).map (spanOfN ps)).Pairwise disj)
    (hold : ∀ n ∈ newNodesBk fu' (full orig fu [] cur') b, ∀ p ∈ pagesOfBk ps fu orig,
      disj (spanOfN ps n) (p.1, p.2.1))
    -- EXTRA HYPOTHESES
    (hcow : Bolt.BktWriteL.CowBk orig fu [] cur) (hinl : Bolt.BktWriteL.InlZero fu orig) :
    LaidBk (writeAll ps f (newNodesBk fu' (full orig fu [] cur') b)) ps hwm' fu' b := by
  have _ := hle
  have _ := hshape
  have e1 : ∀ (f : Nat) (b : Bk), fuelOk fu f b = Bolt.Bkt.BktCommitL.fuelOk' fu f b := by
    intro f
    induction f with
    | zero => intro b; rfl
    | succ f ih => intro b; cases b; simp only [fuelOk, Bolt.Bkt.BktCommitL.fuelOk', ih]
  have e2 : ∀ (f : Nat) (b : Bk), allMatPgids fu f b = Bolt.Bkt.BktCommitL.allMat fu f b := by
    intro f
    induction f with
    | zero => intro b; rfl
    | succ f ih => intro b; cases b; simp only [allMatPgids, Bolt.Bkt.BktCommitL.allMat, ih]
  have hk := Bolt.BktWriteL.commitRoot_kept ps sth rth fu orig cur cur' order hw (by rw [← e1]; exact hf)
    (by rw [← e2]; exact hcov) hcow hcm fu'
  exact laidBk_written f ps hwm hwm' fu orig _ hps hl hinl hpw hold fu' _ b hk hre hside (fun n hn => hn)

/-! ### why `hcow` is needed: the statement without it is false

`WF` (`curOk`) does not relate the trees of `cur` to those of `orig`: below, `cur` holds an
unmaterialised page 7 that `orig` does not have.  The commit keeps it (nothing is written), every
other hypothesis of `commit_written_bk` holds, yet the file does not hold page 7. -/
section Counterexample
private def pg (n : Nat) : Hd := { pgid := n, mat := false, unb := false, key := [] }
private def cxOrig : Bk := .mk 3 0 (.leaf (pg 3) [{ key := [1], val := [10], flags := 0 }]) []
private def cxCur : Bk := .mk 3 0 (.leaf (pg 7) [{ key := [2], val := [20], flags := 0 }]) []
private def cxB : Bk := .mk 7 0 (.leaf (pg 7) [{ key := [2], val := [20], flags := 0 }]) []
private def cxF : File := writeAll 64 { size := 0, get := fun _ => 0 } [.leaf (pg 3) [{ key := [1], val := [10], flags := 0 }]]

/-- all hypotheses of `commit_written_bk` except `hcow`, and the negation of its conclusion -/
example :
    WF 4 cxOrig cxCur ∧ fuelOk 4 4 cxCur = true ∧ (∀ pg ∈ allMatPgids 4 4 cxCur, pg ∈ ([] : List Nat)) ∧
    commitRoot 64 32 16 4 [] cxCur = some cxCur ∧ origShapeOk 4 (full cxOrig 4 [] cxCur) = true ∧
    LaidBk cxF 64 10 4 cxOrig ∧ RelabelBk 4 (full cxOrig 4 [] cxCur) cxB ∧ SideOk 64 10 4 cxB ∧
    newNodesBk 4 (full cxOrig 4 [] cxCur) cxB = [] ∧
    ¬ LaidBk (writeAll 64 cxF (newNodesBk 4 (full cxOrig 4 [] cxCur) cxB)) 64 10 4 cxB := by
  have hfull : full cxOrig 4 [] cxCur = cxCur := rfl
  rw [hfull]
  have hnew : newNodesBk 4 cxCur cxB = [] := rfl
  rw [hnew]
  refine ⟨by decide, by decide, by decide, rfl, by decide, ?_, ?_, ?_, rfl, ?_⟩
  · rw [LaidBk]
    refine ⟨by decide, fun _ => ⟨rfl, ?_, ?_⟩, fun h => absurd h (by decide), fun p hp => by cases hp⟩
    · show Laid cxF 64 (.leaf (pg 3) [{ key := [1], val := [10], flags := 0 }])
      rw [Laid]
      exact writeAll_holds 64 (by decide) _ _ (by simp) _ (List.mem_singleton.mpr rfl)
    · show FitsG 64 10 (.leaf (pg 3) [{ key := [1], val := [10], flags := 0 }])
      rw [FitsG]; decide
  · unfold cxCur cxB
    rw [relabelBk_succ]
    refine ⟨rfl, fun h => absurd h (by decide), fun _ => ⟨?_, rfl, by decide⟩, rfl, fun p hp => by cases hp⟩
    rw [Relabel, if_pos (by decide)]
  · rw [SideOk]
    refine ⟨by decide, fun _ => ?_, fun h => absurd h (by decide), fun p hp => by cases hp⟩
    show FitsG 64 10 (.leaf (pg 7) [{ key := [2], val := [20], flags := 0 }])
    rw [FitsG]; decide
  · intro h
    rw [LaidBk] at h
    obtain ⟨_, hl, _⟩ := h.2.1 (by decide)
    change Laid cxF 64 (.leaf (pg 7) [{ key := [2], val := [20], flags := 0 }]) at hl
    rw [Laid] at hl
    have := hl 0 (by decide)
    revert this
    decide
end Counterexample

/-- **end to end with the writes**: file holding the old bucket tree → calls of a transaction →
    model commit → any page ids with disjoint spans → page writes → independent reader =
    reference model.

EXTRA HYPOTHESIS (not in the original statement): `hinl : InlZero fu orig` — inline buckets of
`orig` carry page id 0 on their leaf (see `commit_written_bk`).  The copy-on-write invariant needs
no hypothesis here: it holds of `closeAll orig` and every call keeps it (`BktWriteL.calls_cow`). -/
theorem transaction_written_readback (f : File) (ps hwm hwm' sth rth fu : Nat) (orig : Bk) (calls : List Call) (order : List Nat)
    (hps : 0 < ps)
    (ho : origOk fu orig = true)
    (hc : CallsOk fu orig (closeAll orig) calls)
    (hf : fuelOk fu fu (calls.foldl (stepCall fu orig) (closeAll orig)) = true)
    (hcov : ∀ pg ∈ allMatPgids fu fu (calls.foldl (stepCall fu orig) (closeAll orig)), pg ∈ order)
    (hl : LaidBk f ps hwm fu orig)
    -- EXTRA HYPOTHESIS
    (hinl : Bolt.BktWriteL.InlZero fu orig) :
    ∃ cur' fu', commitRoot ps sth rth fu order (calls.foldl (stepCall fu orig) (closeAll orig)) = some cur' ∧
      fu ≤ fu' ∧
      ∀ (b : Bk) (fuel : Nat),
        RelabelBk fu' (full orig fu [] cur') b → b.root ≠ 0 → SideOk ps hwm' fu' b →
        ((newNodesBk fu' (full orig fu [] cur') b).map (spanOfN ps)).Pairwise disj →
        (∀ n ∈ newNodesBk fu' (full orig fu [] cur') b, ∀ p ∈ pagesOfBk ps fu orig, disj (spanOfN ps n) (p.1, p.2.1)) →
        fu' * (fu' + 1) ≤ fuel →
        let f' := writeAll ps f (newNodesBk fu' (full orig fu [] cur') b)
        SVal.bkt 0 [(topName, SVal.bkt b.seq (decodeTree f' ps hwm' fuel b.root Phys.empty).1)] =
          calls.foldl specCall (absTop fu orig orig) ∧
        (decodeTree f' ps hwm' fuel b.root Phys.empty).2.errors = [] := by
  obtain ⟨cur', fu', hcm, hle, hshape, habs⟩ :=
    root_transaction_refines ps sth rth fu orig calls order ho hc hf hcov
  obtain ⟨hwf, hcow⟩ := Bolt.BktWriteL.calls_cow fu orig ho calls (closeAll orig) (start_wf fu orig ho)
    (Bolt.BktWriteL.cowBk_closeAll orig fu) hc
  refine ⟨cur', fu', hcm, hle, ?_⟩
  intro b fuel hrel hr hside hpw hold hd f'
  have hlb : LaidBk f' ps hwm' fu' b :=
    commit_written_bk f ps hwm hwm' sth rth fu fu' orig _ cur' b order hps hwf hf hcov hcm hle hshape hl
      hrel hside hpw hold hcow hinl
  obtain ⟨ph', hdec, herr⟩ := readback f' ps hwm' fu' fuel _ b Phys.empty hps hshape hrel hr hlb hd
  have hseq := relabelBk_seq fu' _ b hrel
  obtain ⟨g, rfl⟩ := Bolt.RelabelBkL.shape_pos fu' _ hshape
  rw [hdec]
  refine ⟨?_, herr⟩
  rw [← habs, absTop, hseq]
  rw [Bolt.Bkt.BktCommitL.absBk_succ]

/-- the engines' check of the extra hypothesis (`Bkt.inlZeroOk`, printed as `z=` by the model
    driver for every real start-of-transaction bucket tree) implies it -/
theorem inlZero_of_engine_check : ∀ (f : Nat) (b : Bk), inlZeroOk f b = true → Bolt.BktWriteL.InlZero f b
  | 0, b, _ => by rw [Bolt.BktWriteL.InlZero]; trivial
  | f+1, b, h => by
    rw [inlZeroOk] at h
    simp only [Bool.and_eq_true, Bool.or_eq_true, bne_iff_ne, ne_eq, beq_iff_eq, List.all_eq_true] at h
    rw [Bolt.BktWriteL.InlZero]
    refine ⟨fun hr => ?_, fun p hp => inlZero_of_engine_check f p.2 (h.2 p hp)⟩
    rcases h.1 with h1 | h1
    · exact absurd hr h1
    · exact h1

end Bolt.C01BktWrite
