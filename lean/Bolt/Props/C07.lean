/-
C07 — every page is accounted for exactly once after every commit.
-/
import Bolt.Lemmas.Store
namespace Bolt.C07
open Bolt.FL Bolt.Store

/-- **Exact accounting** whenever no write transaction is open (after every commit,
    rollback, failed commit and reopen): every page id in `[2, hwm)` is in exactly one of
    {referenced by the newest version (tree pages and the freelist page), free, pending};
    nothing else is listed anywhere; no id is listed twice. -/
theorem accounting_exact (s : St) (hr : Reachable s) (hw : s.w = none) :
    (∀ p, 2 ≤ p → p < s.cur.hwm → (p ∈ s.cur.used ∨ p ∈ s.fl.freeIds ∨ p ∈ s.fl.pendingIds)) ∧
    (∀ p ∈ s.cur.used, 2 ≤ p ∧ p < s.cur.hwm ∧ p ∉ s.fl.freeIds ∧ p ∉ s.fl.pendingIds) ∧
    (∀ p ∈ s.fl.freeIds, 2 ≤ p ∧ p < s.cur.hwm ∧ p ∉ s.fl.pendingIds) ∧
    (∀ p ∈ s.fl.pendingIds, 2 ≤ p ∧ p < s.cur.hwm) ∧
    s.cur.used.Nodup ∧ s.fl.freeIds.Nodup ∧ s.fl.pendingIds.Nodup := by
  sorry

/-- The page set of a committed version is exactly (previous pages minus freed) plus
    allocated — the transition form that the harness checks against the independent decode
    of the file after every real commit. -/
theorem commit_page_set (s : St) (w : W) (hw : s.w = some w) (s' : St) (h : stepAll s .commit = some s') :
    s'.cur.used = (s.cur.used.filter (fun p => !w.freed.contains p)) ++ w.allocated ∧ s'.cur.hwm = w.hwm := by
  sorry

end Bolt.C07
