/-
C07 — every page is accounted for exactly once after every commit.
-/
import Bolt.Lemmas.Store
namespace Bolt.C07
open Bolt.FL Bolt.Store

/-- **Exact accounting** whenever no write transaction is open (after every commit,
    rollback, failed commit and reopen): every page id in `[2, hwm)` is in exactly one of
    {referenced by the newest version (tree pages and the freelist page), free, pending};
    nothing else is listed anywhere; no id is listed twice. -/
theorem accounting_exact (s : St) (hr : Reachable s) (hw : s.w = none) :
    (∀ p, 2 ≤ p → p < s.cur.hwm → (p ∈ s.cur.used ∨ p ∈ s.fl.freeIds ∨ p ∈ s.fl.pendingIds)) ∧
    (∀ p ∈ s.cur.used, 2 ≤ p ∧ p < s.cur.hwm ∧ p ∉ s.fl.freeIds ∧ p ∉ s.fl.pendingIds) ∧
    (∀ p ∈ s.fl.freeIds, 2 ≤ p ∧ p < s.cur.hwm ∧ p ∉ s.fl.pendingIds) ∧
    (∀ p ∈ s.fl.pendingIds, 2 ≤ p ∧ p < s.cur.hwm) ∧
    s.cur.used.Nodup ∧ s.fl.freeIds.Nodup ∧ s.fl.pendingIds.Nodup := by
  have hi := hr.inv
  have hfreed := St.freed_none hw
  have hnp : ∀ p ∈ s.cur.used, p ∉ s.fl.pendingIds := by
    intro p hp hpp
    have := hi.used_pend p hp hpp
    rw [hfreed] at this
    cases this
  refine ⟨?_, ?_, ?_, ?_, hi.used_nodup, (sorted_lt_iff.mp hi.fl.freeIds_sorted).2, hi.fl.pending_nodup⟩
  · intro p h1 h2
    rcases hi.cover p h1 (by rw [St.hwm_none hw]; exact h2) with h | h | h | h
    · exact Or.inl h
    · exact Or.inr (Or.inl h)
    · exact Or.inr (Or.inr h)
    · rw [St.allocated_none hw] at h; cases h
  · intro p hp
    exact ⟨(hi.used_bd p hp).1, (hi.used_bd p hp).2, hi.used_free p hp, hnp p hp⟩
  · intro p hp
    exact ⟨hi.fl.freeIds_ge2 hp, hi.free_bd p hp, hi.fl.disjoint p hp⟩
  · intro p hp
    exact ⟨hi.fl.pending_ge2 p hp, hi.pend_bd p hp⟩

/-- The page set of a committed version is exactly (previous pages minus freed) plus
    allocated — the transition form that the harness checks against the independent decode
    of the file after every real commit. -/
theorem commit_page_set (s : St) (w : W) (hw : s.w = some w) (s' : St) (h : stepAll s .commit = some s') :
    s'.cur.used = (s.cur.used.filter (fun p => !w.freed.contains p)) ++ w.allocated ∧ s'.cur.hwm = w.hwm := by
  obtain ⟨w', hw', rfl⟩ := step_commit h
  rw [hw] at hw'
  cases hw'
  exact ⟨newVersion_used s.cur w, rfl⟩

end Bolt.C07
