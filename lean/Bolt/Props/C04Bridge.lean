/-
C04 — bridge between the two specifications: the API-level reference model
(`Spec/NestedMap`: `apiPut`/`apiDelete` on a tree of buckets — what the `apiprog` engine
compares every real API result with) and the sorted item list that the B+tree of ONE bucket is
proved to refine (`Model/BTreeInv`: `specPut`/`specDel`, theorem `C04Tree.commit_refines`).
`absItems sub l` is the entry list of the bucket whose leaf items are `l`; `sub k` supplies
the content of the nested bucket stored under key `k` (the B+tree of a bucket does not hold
it: a nested bucket is an item with flag 1 whose value is a bucket header).
-/
import Bolt.Model.BTreeInv
import Bolt.Lemmas.BTreeBridge
namespace Bolt.C04Bridge
open Bolt Bolt.BTree

def absItem (sub : Bytes → Nat × Ents) (i : Item) : Bytes × SVal :=
  (i.key, if i.flags % 2 = 1 then .bkt (sub i.key).1 (sub i.key).2 else .val i.val)

def absItems (sub : Bytes → Nat × Ents) (l : List Item) : Ents := l.map (absItem sub)

/-- the nested-bucket test of the two specifications agrees -/
theorem isBucket_abs (sub : Bytes → Nat × Ents) (l : List Item) (k : Bytes) :
    isBucketAt l k = ((entsLookup (absItems sub l) k).any SVal.isBucket) := by
  unfold absItems isBucketAt
  rw [BridgeL.lookup_map (absItem sub) (fun _ => rfl) k l]
  cases l.find? (fun i => i.key == k) with
  | none => rfl
  | some i =>
    show (i.flags % 2 == 1) =
      SVal.isBucket (if i.flags % 2 = 1 then .bkt (sub i.key).1 (sub i.key).2 else .val i.val)
    by_cases h : i.flags % 2 = 1
    · rw [if_pos h, h]; rfl
    · rw [if_neg h]
      show (i.flags % 2 == 1) = false
      exact beq_false_of_ne h

/-- `specPut` is `entsInsert` on the abstraction (when `Put` is not refused) -/
theorem specPut_abs (sub : Bytes → Nat × Ents) (l : List Item) (k v : Bytes)
    (hs : sortedKeys (l.map (·.key)) = true) (hb : isBucketAt l k = false) :
    absItems sub (specPut l k v) = entsInsert k (.val v) (absItems sub l) := by
  have _ := hs
  unfold specPut
  rw [hb]
  simp only [Bool.false_eq_true, if_false]
  exact BridgeL.insSorted_map (absItem sub) (fun _ => rfl) { key := k, val := v, flags := 0 } l

/-- `specDel` is `entsErase` on the abstraction -/
theorem specDel_abs (sub : Bytes → Nat × Ents) (l : List Item) (k : Bytes)
    (hb : isBucketAt l k = false) :
    absItems sub (specDel l k) = entsErase k (absItems sub l) := by
  unfold specDel
  rw [hb]
  simp only [Bool.false_eq_true, if_false]
  exact BridgeL.filter_map (absItem sub) (fun _ => rfl) k l

/-- **`Bucket.Put` at API level = `specPut` on the bucket's item list**: whenever the bucket at
    `path` has the entries `absItems sub l`, the API-level model answers exactly what the item
    list specification says — the same refusal over a nested bucket, else the bucket's entries
    become the abstraction of `specPut l k v`. -/
theorem apiPut_is_specPut (sub : Bytes → Nat × Ents) (root : SVal) (path : List Bytes) (s : Nat)
    (l : List Item) (k v : Bytes)
    (hp : bucketAt path root = some (s, absItems sub l)) (hne : path ≠ [])
    (hs : sortedKeys (l.map (·.key)) = true)
    (hk : k ≠ []) (hkl : k.length ≤ maxKeySize) (hvl : v.length ≤ maxValueSize) :
    apiPut root path k v =
      if isBucketAt l k then .error .incompatibleValue
      else .ok (setBucketAt path (s, absItems sub (specPut l k v)) root) := by
  have hpe : path.isEmpty = false := by
    cases path with
    | nil => exact absurd rfl hne
    | cons _ _ => rfl
  have hke : k.isEmpty = false := by
    cases k with
    | nil => exact absurd rfl hk
    | cons _ _ => rfl
  have hkl' : ¬ k.length > maxKeySize := Nat.not_lt.mpr hkl
  have hvl' : ¬ v.length > maxValueSize := Nat.not_lt.mpr hvl
  have hib := isBucket_abs sub l k
  unfold apiPut
  rw [hp]
  simp only [hpe, hke, Bool.false_eq_true, if_false, if_neg hkl', if_neg hvl']
  cases hl : entsLookup (absItems sub l) k with
  | none =>
    rw [hl] at hib
    have hb : isBucketAt l k = false := hib
    rw [hb, specPut_abs sub l k v hs hb]
    rfl
  | some x =>
    rw [hl] at hib
    cases x with
    | val w =>
      have hb : isBucketAt l k = false := hib
      rw [hb, specPut_abs sub l k v hs hb]
      rfl
    | bkt q e =>
      have hb : isBucketAt l k = true := hib
      rw [hb]
      rfl

/-- **`Bucket.Delete` at API level = `specDel` on the bucket's item list** (a missing key leaves
    the root as it is, and `specDel` leaves the list as it is) -/
theorem apiDelete_is_specDel (sub : Bytes → Nat × Ents) (root : SVal) (path : List Bytes) (s : Nat)
    (l : List Item) (k : Bytes)
    (hp : bucketAt path root = some (s, absItems sub l)) (hne : path ≠ []) :
    apiDelete root path k =
      if isBucketAt l k then .error .incompatibleValue
      else if (l.find? (fun i => i.key == k)).isNone then .ok root
      else .ok (setBucketAt path (s, absItems sub (specDel l k)) root) := by
  have hpe : path.isEmpty = false := by
    cases path with
    | nil => exact absurd rfl hne
    | cons _ _ => rfl
  have hib := isBucket_abs sub l k
  have hlk := BridgeL.lookup_map (absItem sub) (fun _ => rfl) k l
  unfold apiDelete
  rw [hp]
  simp only [hpe, Bool.false_eq_true, if_false]
  cases hl : entsLookup (absItems sub l) k with
  | none =>
    rw [hl] at hib
    have hb : isBucketAt l k = false := hib
    have hf : (l.find? (fun i => i.key == k)).isNone = true := by
      have h2 : entsLookup (absItems sub l) k = _ := hlk
      rw [hl] at h2
      cases hfi : l.find? (fun i => i.key == k) with
      | none => rfl
      | some i => rw [hfi] at h2; cases h2
    rw [hb, hf]
    rfl
  | some x =>
    rw [hl] at hib
    have hf : (l.find? (fun i => i.key == k)).isNone = false := by
      have h2 : entsLookup (absItems sub l) k = _ := hlk
      rw [hl] at h2
      cases hfi : l.find? (fun i => i.key == k) with
      | none => rw [hfi] at h2; cases h2
      | some i => rfl
    cases x with
    | val w =>
      have hb : isBucketAt l k = false := hib
      rw [hb, hf, specDel_abs sub l k hb]
      rfl
    | bkt q e =>
      have hb : isBucketAt l k = true := hib
      rw [hb]
      rfl

/-- and in the missing-key case `specDel` indeed changes nothing -/
theorem specDel_missing (l : List Item) (k : Bytes) (h : (l.find? (fun i => i.key == k)).isNone = true) :
    specDel l k = l := by
  unfold specDel
  have hb : isBucketAt l k = false := by
    unfold isBucketAt
    cases hfi : l.find? (fun i => i.key == k) with
    | none => rfl
    | some i => rw [hfi] at h; cases h
  rw [hb]
  simp only [Bool.false_eq_true, if_false]
  exact BridgeL.filter_of_find_isNone k l h

/-- `Bucket.Get` at API level reads the item list -/
theorem apiGet_is_find (sub : Bytes → Nat × Ents) (root : SVal) (path : List Bytes) (s : Nat)
    (l : List Item) (k : Bytes)
    (hp : bucketAt path root = some (s, absItems sub l)) (hne : path ≠ []) :
    apiGet root path k =
      .ok (match l.find? (fun i => i.key == k) with
           | some i => if i.flags % 2 = 1 then none else some i.val
           | none => none) := by
  have hpe : path.isEmpty = false := by
    cases path with
    | nil => exact absurd rfl hne
    | cons _ _ => rfl
  have hlk : entsLookup (absItems sub l) k = _ :=
    BridgeL.lookup_map (absItem sub) (fun _ => rfl) k l
  unfold apiGet
  rw [hp]
  simp only [hpe, Bool.false_eq_true, if_false]
  rw [hlk]
  cases l.find? (fun i => i.key == k) with
  | none => rfl
  | some i =>
    show (match (some (if i.flags % 2 = 1 then SVal.bkt (sub i.key).1 (sub i.key).2
        else SVal.val i.val) : Option SVal) with
      | some (.val v) => (Except.ok (some v) : Except ApiErr (Option Bytes))
      | _ => .ok none) = .ok (if i.flags % 2 = 1 then none else some i.val)
    by_cases h : i.flags % 2 = 1
    · rw [if_pos h, if_pos h]
    · rw [if_neg h, if_neg h]

end Bolt.C04Bridge
