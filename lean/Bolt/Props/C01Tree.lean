/-
C01/C12 at page level — what a commit WRITES is what a reader READS.

The tree theorems (`C04Tree.commit_refines`, `C06Tree.commit_copy_on_write`) describe the tree a
commit produces, with page id 0 for every node the commit writes (the allocator chooses the ids).
This file closes the loop to bytes: take ANY assignment of page ids to those nodes (`Relabel`) whose
page spans are pairwise disjoint and disjoint from the pages of the old tree (what the allocator
guarantees: C07/C09), write the image of every new node at its page (`writeAll` = `node.write` +
`tx.write`), and the resulting file
  * holds the new tree (`Laid`), and the independent reader extracts from its root exactly the
    reference model's result of the transaction's operations, with no structural error;
  * still holds the old tree, so a reader of the previous version — or `Open` after a crash
    before the meta page is written — decodes exactly the previous content.
-/
import Bolt.Props.C02Tree
import Bolt.Props.C04Tree
import Bolt.Props.C06Tree
import Bolt.Model.Surgery
import Bolt.Lemmas.WriteTree
namespace Bolt.C01Tree
open Bolt Bolt.BTree Bolt.C12Tree

mutual
/-- `b` is `a` with page ids given to the nodes the commit wrote (page id 0 in the model); a node
    that kept its page is unchanged with everything below it -/
def Relabel : N → N → Prop
  | .leaf ha ia, b =>
    if ha.pgid ≠ 0 then b = .leaf ha ia
    else ∃ pg, pg ≠ 0 ∧ b = .leaf { ha with pgid := pg } ia
  | .branch ha ka, b =>
    if ha.pgid ≠ 0 then b = .branch ha ka
    else ∃ pg kb, pg ≠ 0 ∧ b = .branch { ha with pgid := pg } kb ∧ RelabelKids ka kb
def RelabelKids : List (Bytes × N) → List (Bytes × N) → Prop
  | [], kb => kb = []
  | (s, c) :: r, kb => ∃ c' r', kb = (s, c') :: r' ∧ Relabel c c' ∧ RelabelKids r r'
end

mutual
/-- the nodes this commit writes (model id 0), with their assigned ids, children first -/
def newNodes : N → N → List N
  | .leaf ha _, b => if ha.pgid ≠ 0 then [] else [b]
  | .branch ha ka, .branch hb kb => if ha.pgid ≠ 0 then [] else newNodesKids ka kb ++ [.branch hb kb]
  | .branch ha _, b => if ha.pgid ≠ 0 then [] else [b]
def newNodesKids : List (Bytes × N) → List (Bytes × N) → List N
  | (_, c) :: r, (_, c') :: r' => newNodes c c' ++ newNodesKids r r'
  | _, _ => []
end

/-- `node.write` into a zeroed page span, `tx.write` at the page's offset -/
def writeNode (ps : Nat) (f : File) (n : N) : File :=
  Surgery.patch f (n.hd.pgid * ps) (imageOf ps n ++ List.replicate ((ovfOf ps n + 1) * ps - n.size) 0)

def writeAll (ps : Nat) (f : File) (ns : List N) : File := ns.foldl (writeNode ps) f

/-- two page spans (first page, overflow count) do not overlap -/
def disj (a b : Nat × Nat) : Prop := a.1 + a.2 < b.1 ∨ b.1 + b.2 < a.1

def spanOfN (ps : Nat) (n : N) : Nat × Nat := (n.hd.pgid, ovfOf ps n)

/-! ### helper lemmas (about the definitions of this file; generic facts are in
`Bolt.Lemmas.WriteTree`) -/
section Helpers
open Bolt.WriteTreeL Bolt.C06Tree

mutual
/-- relabelling keeps everything but page ids -/
theorem relabel_node : ∀ (a b : N), Relabel a b →
    flatten b = flatten a ∧ depth b = depth a ∧ b.els = a.els ∧ b.firstKey = a.firstKey ∧
    ∀ root, committedN root b = committedN root a
  | .leaf ha ia, b, h => by
    rw [Relabel] at h
    split at h
    · subst h; exact ⟨rfl, rfl, rfl, rfl, fun _ => rfl⟩
    · obtain ⟨pg, _, rfl⟩ := h
      exact ⟨by rw [flatten, flatten], by rw [depth, depth], rfl, rfl,
        fun root => by rw [committedN, committedN]⟩
  | .branch ha ka, b, h => by
    rw [Relabel] at h
    split at h
    · subst h; exact ⟨rfl, rfl, rfl, rfl, fun _ => rfl⟩
    · obtain ⟨pg, kb, _, rfl, hk⟩ := h
      obtain ⟨k1, k2, k3, k4, k5⟩ := relabel_kids ka kb hk
      have hl : kb.length = ka.length := by simpa using congrArg List.length k3
      refine ⟨by rw [flatten, flatten, k1], by rw [depth, depth, k2], ?_, ?_, ?_⟩
      · have := congrArg (List.map (fun (k : Bytes) => ((k.length, 0) : Node.El))) k3
        simpa only [N.els, List.map_map, Function.comp_def] using this
      · show (kb.head?.map (·.1)).getD [] = (ka.head?.map (·.1)).getD []
        rw [← List.head?_map, ← List.head?_map, k3]
      · intro root
        rw [committedN, committedN, hl, k3, k4, k5]
/-- the same for the children of a branch -/
theorem relabel_kids : ∀ (ka kb : List (Bytes × N)), RelabelKids ka kb →
    flattenKids kb = flattenKids ka ∧ depthKids kb = depthKids ka ∧
    kb.map (·.1) = ka.map (·.1) ∧
    kb.head?.map (fun p => depth p.2) = ka.head?.map (fun p => depth p.2) ∧
    ∀ d, committedKids kb d = committedKids ka d
  | [], kb, h => by
    rw [RelabelKids] at h
    subst h; exact ⟨rfl, rfl, rfl, rfl, fun _ => rfl⟩
  | (s, c) :: r, kb, h => by
    rw [RelabelKids] at h
    obtain ⟨c', r', rfl, hc, hr⟩ := h
    obtain ⟨c1, c2, _, c4, c5⟩ := relabel_node c c' hc
    obtain ⟨r1, r2, r3, _, r5⟩ := relabel_kids r r' hr
    refine ⟨by rw [flattenKids, flattenKids, c1, r1], by rw [depthKids, depthKids, c2, r2],
      by rw [List.map_cons, List.map_cons, r3], by simp only [List.head?_cons, Option.map_some, c2], ?_⟩
    intro d
    rw [committedKids, committedKids, c4, c2, c5, r5]
end

/-- bytes outside a node's page span are not touched by writing it -/
theorem writeNode_get_out (ps : Nat) (hps : 0 < ps) (f : File) (n : N) (i : Nat)
    (hi : ¬ (n.hd.pgid * ps ≤ i ∧ i < (n.hd.pgid + ovfOf ps n + 1) * ps)) :
    (writeNode ps f n).get i = f.get i := by
  unfold writeNode
  apply SurgeryL.patch_get_out
  have hs := size_le_span ps n hps
  rw [List.length_append, List.length_replicate, Bolt.ReaderFrameL.imageOf_length]
  rw [span_end] at hi
  omega

/-- **frame**: bytes outside every written span are unchanged -/
theorem writeAll_get_out (ps : Nat) (hps : 0 < ps) : ∀ (ns : List N) (f : File) (i : Nat),
    (∀ n ∈ ns, ¬ (n.hd.pgid * ps ≤ i ∧ i < (n.hd.pgid + ovfOf ps n + 1) * ps)) →
    (writeAll ps f ns).get i = f.get i
  | [], f, i, _ => rfl
  | n :: r, f, i, h => by
    show (writeAll ps (writeNode ps f n) r).get i = f.get i
    rw [writeAll_get_out ps hps r _ i (fun m hm => h m (List.mem_cons_of_mem _ hm))]
    exact writeNode_get_out ps hps f n i (h n List.mem_cons_self)

/-- a written node is held at its page -/
theorem writeNode_holds (ps : Nat) (f : File) (n : N) :
    Holds (writeNode ps f n) (n.hd.pgid * ps) (imageOf ps n) :=
  holds_patch f _ _ _

/-- **last writer wins**: with pairwise disjoint spans every written node is held at its page -/
theorem writeAll_holds (ps : Nat) (hps : 0 < ps) : ∀ (ns : List N) (f : File),
    (ns.map (spanOfN ps)).Pairwise disj →
    ∀ n ∈ ns, Holds (writeAll ps f ns) (n.hd.pgid * ps) (imageOf ps n)
  | [], _, _, n, hn => by cases hn
  | m :: r, f, hp, n, hn => by
    rw [List.map_cons, List.pairwise_cons] at hp
    show Holds (writeAll ps (writeNode ps f m) r) _ _
    rcases List.mem_cons.mp hn with rfl | hn
    · refine holds_congr _ _ _ _ ?_ (writeNode_holds ps f n)
      intro i hi
      apply writeAll_get_out ps hps
      intro k hk
      have hd := hp.1 _ (List.mem_map_of_mem hk)
      have hle := Bolt.ReaderFrameL.imageOf_le_span ps hps n
      refine outside_of_disj ps k.hd.pgid (ovfOf ps k) n.hd.pgid (ovfOf ps n) _ (Or.symm hd)
        (Nat.le_add_right _ _) ?_
      rw [span_end]; omega
    · exact writeAll_holds ps hps r _ hp.2 n hn

mutual
/-- a relabelled tree is laid out in any file that holds its new nodes and lays out its kept ones -/
theorem laid_relabel (f : File) (ps : Nat) : ∀ (a b : N), Relabel a b →
    (∀ n ∈ subtrees a, n.hd.pgid ≠ 0 → Laid f ps n) →
    (∀ n ∈ newNodes a b, Holds f (n.hd.pgid * ps) (imageOf ps n)) → Laid f ps b
  | .leaf ha ia, b, h, hold, hnew => by
    rw [Relabel] at h
    split at h
    · next h0 => subst h; exact hold _ (subtrees_self _) h0
    · next h0 =>
      obtain ⟨pg, _, rfl⟩ := h
      rw [newNodes, if_neg h0] at hnew
      rw [Laid]
      exact hnew _ (List.mem_singleton.mpr rfl)
  | .branch ha ka, b, h, hold, hnew => by
    rw [Relabel] at h
    split at h
    · next h0 => subst h; exact hold _ (subtrees_self _) h0
    · next h0 =>
      obtain ⟨pg, kb, _, rfl, hk⟩ := h
      rw [newNodes, if_neg h0] at hnew
      rw [Laid]
      refine ⟨hnew _ (List.mem_append_right _ (List.mem_singleton.mpr rfl)), ?_⟩
      exact laid_relabelKids f ps ka kb hk
        (fun n hn => hold n (subtrees_of_kids ha ka n hn))
        (fun n hn => hnew n (List.mem_append_left _ hn))
theorem laid_relabelKids (f : File) (ps : Nat) : ∀ (ka kb : List (Bytes × N)), RelabelKids ka kb →
    (∀ n ∈ subtreesKids ka, n.hd.pgid ≠ 0 → Laid f ps n) →
    (∀ n ∈ newNodesKids ka kb, Holds f (n.hd.pgid * ps) (imageOf ps n)) → LaidKids f ps kb
  | [], kb, h, _, _ => by
    rw [RelabelKids] at h
    subst h; rw [LaidKids]; trivial
  | (s, c) :: r, kb, h, hold, hnew => by
    rw [RelabelKids] at h
    obtain ⟨c', r', rfl, hc, hr⟩ := h
    rw [newNodesKids] at hnew
    rw [LaidKids]
    exact ⟨laid_relabel f ps c c' hc
        (fun n hn => hold n (subtreesKids_head s c r n hn))
        (fun n hn => hnew n (List.mem_append_left _ hn)),
      laid_relabelKids f ps r r' hr
        (fun n hn => hold n (subtreesKids_tail s c r n hn))
        (fun n hn => hnew n (List.mem_append_right _ hn))⟩
end

/-- bytes of the pages of a tree whose pages are disjoint from every written span are unchanged -/
theorem writeAll_frame_tree (ps : Nat) (hps : 0 < ps) (f : File) (W : List N) (t : N)
    (hold : ∀ n ∈ W, ∀ p ∈ pagesOf ps t, disj (spanOfN ps n) (p.1, p.2.1)) :
    ∀ i, C02Tree.inPages ps t i → (writeAll ps f W).get i = f.get i := by
  rintro i ⟨p, hp, h1, h2⟩
  apply writeAll_get_out ps hps
  intro n hn
  exact outside_of_disj ps n.hd.pgid (ovfOf ps n) p.1 p.2.1 i (hold n hn p hp) h1 h2

end Helpers

/-- relabelling changes page ids only -/
theorem relabel_keeps (a b : N) (h : Relabel a b) :
    flatten b = flatten a ∧ depth b = depth a ∧ b.size = a.size ∧ (Committed a → Committed b) := by
  obtain ⟨h1, h2, h3, _, h5⟩ := relabel_node a b h
  refine ⟨h1, h2, by unfold N.size; rw [h3], ?_⟩
  intro hc
  unfold Committed at hc ⊢
  rw [h5, h1]; exact hc

/-- **the written file holds the new tree and still holds the old one** -/
theorem commit_written (f : File) (ps sth rth fuel : Nat) (t t' t'' : N) (ops : List Op) (order : List Nat)
    (hps : 0 < ps)
    (hc : Committed t) (hn : (pgids t).Nodup) (hk : ∀ o ∈ ops, o.ok) (hf : C04Tree.fuelBound t ops ≤ fuel)
    (hcm : commit ps sth rth fuel t ops order = some t')
    (hl : Laid f ps t) (hz : ∀ pg ∈ pgids t, pg ≠ 0)
    (hre : Relabel t' t'')
    (hpw : ((newNodes t' t'').map (spanOfN ps)).Pairwise disj)
    (hold : ∀ n ∈ newNodes t' t'', ∀ p ∈ pagesOf ps t, disj (spanOfN ps n) (p.1, p.2.1)) :
    Laid (writeAll ps f (newNodes t' t'')) ps t'' ∧ Laid (writeAll ps f (newNodes t' t'')) ps t := by
  have _ := hz     -- not needed: a node with page id 0 in the new tree is written whatever it was
  -- the old tree: none of its pages is written
  have hlt : Laid (writeAll ps f (newNodes t' t'')) ps t :=
    C02Tree.laid_frame f _ ps hps t hl (writeAll_frame_tree ps hps f _ t hold)
  refine ⟨?_, hlt⟩
  -- the new tree: kept nodes are nodes of the old tree, new nodes have just been written
  have hcow := C06Tree.commit_copy_on_write ps sth rth fuel t t' ops order hc hn hk hf hcm
  exact laid_relabel _ ps t' t'' hre
    (fun n hn' h0 => Bolt.WriteTreeL.laid_subtree _ ps t n hlt (hcow n hn' h0))
    (writeAll_holds ps hps _ f hpw)

/-- **what the commit wrote is what a reader reads**: from the new root the reference model's
    result of the operations, from the old root the previous content; no structural error -/
theorem commit_readback (f : File) (ps sth rth fuel hwm rfuel : Nat) (t t' t'' : N) (ops : List Op) (order : List Nat)
    (hps : 0 < ps)
    (hc : Committed t) (hn : (pgids t).Nodup) (hk : ∀ o ∈ ops, o.ok) (hf : C04Tree.fuelBound t ops ≤ fuel)
    (ho : ∀ t1, applyOps fuel t ops = some t1 → ∀ pg ∈ matPgids fuel t1, pg ∈ order)
    (hcm : commit ps sth rth fuel t ops order = some t')
    (hl : Laid f ps t) (hz : ∀ pg ∈ pgids t, pg ≠ 0)
    (hre : Relabel t' t'')
    (hpw : ((newNodes t' t'').map (spanOfN ps)).Pairwise disj)
    (hold : ∀ n ∈ newNodes t' t'', ∀ p ∈ pagesOf ps t, disj (spanOfN ps n) (p.1, p.2.1))
    (hfit : Fits ps hwm t'') (hfit0 : Fits ps hwm t) (hd : depth t'' ≤ rfuel) (hd0 : depth t ≤ rfuel) :
    let f' := writeAll ps f (newNodes t' t'')
    (decodeTree f' ps hwm rfuel t''.hd.pgid Phys.empty).1 =
        (specOps (flatten t) ops).map (fun i => (i.key, SVal.val i.val)) ∧
    (decodeTree f' ps hwm rfuel t''.hd.pgid Phys.empty).2.errors = [] ∧
    (decodeTree f' ps hwm rfuel t.hd.pgid Phys.empty).1 = (flatten t).map (fun i => (i.key, SVal.val i.val)) ∧
    (decodeTree f' ps hwm rfuel t.hd.pgid Phys.empty).2.errors = [] := by
  intro f'
  obtain ⟨hl2, hl0⟩ := commit_written f ps sth rth fuel t t' t'' ops order hps hc hn hk hf hcm hl hz hre hpw hold
  obtain ⟨t₀, h0, hc0, hfl0⟩ := C04Tree.commit_refines ps sth rth fuel t ops order hc hn hk hf ho
  rw [hcm] at h0
  cases h0
  obtain ⟨r1, r2, _, r4⟩ := relabel_keeps t' t'' hre
  have hnew := decode_laid_content f' ps hwm rfuel t'' hps hl2 hfit (r4 hc0) hd
  have hprev := decode_laid_content f' ps hwm rfuel t hps hl0 hfit0 hc hd0
  rw [r1, hfl0] at hnew
  exact ⟨hnew.1, hnew.2, hprev.1, hprev.2⟩

end Bolt.C01Tree
