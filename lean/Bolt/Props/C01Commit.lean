/-
C01 headline at byte level, one whole commit: data-page writes, then the meta write.

From a file `f` that holds the bucket tree a transaction began with and two valid meta pages:
the calls of the transaction, the model's commit, ANY real page ids with disjoint spans for the
written pages (`C01BktWrite`), the page writes, and then `Tx.writeMeta` with a meta that points
to the new root and carries a transaction id above the other slot's (`C01Bytes`) — `Open` on the
resulting file chooses the new meta and the independent reader extracts exactly the reference
model's state after the calls.  (Before the meta write `Open` reads the previous state:
`C01Bytes.crash_before_meta`; a torn meta write is rejected: `C11`.)
-/
import Bolt.Props.C01BktWrite
import Bolt.Props.C01Bytes
import Bolt.Lemmas.Commit
namespace Bolt.C01Commit
open Bolt Bolt.BTree Bolt.Bkt Bolt.C12Bk Bolt.C12Tree Bolt.C01Tree Bolt.C01Bkt Bolt.C04Bkt Bolt.C01BktWrite
open Bolt.MetaWrite Bolt.Surgery Bolt.C14Bytes

/-- **a whole commit, end to end, as the bytes `Open` reads** -/
theorem commit_end_to_end (f : File) (ps os hwm sth rth fu : Nat) (orig : Bk) (calls : List Call) (order : List Nat)
    (m : Meta)
    (hps : 0 < ps)
    (ho : origOk fu orig = true)
    (hc : CallsOk fu orig (closeAll orig) calls)
    (hf : fuelOk fu fu (calls.foldl (stepCall fu orig) (closeAll orig)) = true)
    (hcov : ∀ pg ∈ allMatPgids fu fu (calls.foldl (stepCall fu orig) (closeAll orig)), pg ∈ order)
    (hl : LaidBk f ps hwm fu orig) (hinl : Bolt.BktWriteL.InlZero fu orig)
    (hmp : metaPagesOk f ps = true) (hm : MetaOk ps m) :
    ∃ cur' fu', commitRoot ps sth rth fu order (calls.foldl (stepCall fu orig) (closeAll orig)) = some cur' ∧
      fu ≤ fu' ∧
      ∀ (b : Bk),
        RelabelBk fu' (full orig fu [] cur') b → b.root ≠ 0 → m.root = b.root → SideOk ps m.pgid fu' b →
        ((newNodesBk fu' (full orig fu [] cur') b).map (spanOfN ps)).Pairwise disj →
        (∀ n ∈ newNodesBk fu' (full orig fu [] cur') b, ∀ p ∈ pagesOfBk ps fu orig, disj (spanOfN ps n) (p.1, p.2.1)) →
        fu' * (fu' + 1) ≤ 64 →
        (metaAt (writeAll ps f (newNodesBk fu' (full orig fu [] cur') b)) (otherOff ps m)).txid < m.txid →
        ∃ d, decodeFile (writeMeta (writeAll ps f (newNodesBk fu' (full orig fu [] cur') b)) ps m) os = .ok d ∧
          d.mt.txid = m.txid ∧
          (match d.content with
            | .bkt _ ents => SVal.bkt 0 [(topName, SVal.bkt b.seq ents)]
            | v => v) = calls.foldl specCall (absTop fu orig orig) := by
  obtain ⟨cur', fu', hcm, hle, hshape, habs⟩ :=
    root_transaction_refines ps sth rth fu orig calls order ho hc hf hcov
  obtain ⟨hwf, hcow⟩ := Bolt.BktWriteL.calls_cow fu orig ho calls (closeAll orig) (start_wf fu orig ho)
    (Bolt.BktWriteL.cowBk_closeAll orig fu) hc
  refine ⟨cur', fu', hcm, hle, ?_⟩
  intro b hrel hr hroot hside hpw hold hd hnew
  -- the page writes establish the new bucket tree …
  have hlb : LaidBk (writeAll ps f (newNodesBk fu' (full orig fu [] cur') b)) ps m.pgid fu' b :=
    commit_written_bk f ps hwm m.pgid sth rth fu fu' orig _ cur' b order hps hwf hf hcov hcm hle hshape hl
      hrel hside hpw hold hcow hinl
  -- … and leave the two meta pages alone (every written page has an id ≥ 2)
  have hmp' : metaPagesOk (writeAll ps f (newNodesBk fu' (full orig fu [] cur') b)) ps = true :=
    Bolt.CommitL.metaPagesOk_writeAll f ps m.pgid fu' _ b hps hrel hside hmp
  obtain ⟨hob, hab⟩ := relabelBk_content fu' _ b hrel hshape
  -- the meta write publishes it
  obtain ⟨d, hdec, htx, _, hcont, _⟩ := Bolt.C01Bytes.commit_publishes _ ps os fu' m b hmp' hm hnew hob hr hroot hlb hd
  refine ⟨d, hdec, htx, ?_⟩
  have hseq := relabelBk_seq fu' _ b hrel
  obtain ⟨g, rfl⟩ := Bolt.RelabelBkL.shape_pos fu' _ hshape
  rw [hcont, hab]
  show SVal.bkt 0 [(topName, SVal.bkt b.seq _)] = _
  rw [← habs, absTop, hseq]
  rw [Bolt.Bkt.BktCommitL.absBk_succ]

end Bolt.C01Commit
