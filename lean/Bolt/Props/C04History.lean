/-
C04 — histories: any number of write transactions, each any sequence of API calls on nested
buckets followed by the commit of the root bucket.  The state the next transaction starts from is
whatever bucket tree the file then holds (`next`): the only link demanded between two transactions is
that this tree has the CONTENT the model committed (which is what `C12Bk.decode_bk` gives for a
file laid out by the writers, and what the `bkt` engine checks on every real run) and is a
well-formed start state (distinct page ids: the allocator's business, C07/C09).  Then the content
after the whole history is the reference model's state after all the calls.
-/
import Bolt.Props.C04BktRoot
import Bolt.Lemmas.BktHistory
namespace Bolt.C04Bkt
open Bolt Bolt.BTree Bolt.Bkt

mutual
/-- nesting depth of a bucket tree (every nested bucket attached) -/
def bkDepth : Bk → Nat
  | .mk _ _ _ o => 1 + bkDepthKids o
def bkDepthKids : List (Bytes × Bk) → Nat
  | [] => 0
  | (_, c) :: r => max (bkDepth c) (bkDepthKids r)
end

/-- the logical content of a start-of-transaction bucket tree -/
def content (b : Bk) : SVal := absTop (bkDepth b + 1) b b

/-- a nested bucket is shallower than the list it sits in -/
theorem bkDepth_mem : ∀ (o : List (Bytes × Bk)) (p : Bytes × Bk), p ∈ o → bkDepth p.2 ≤ bkDepthKids o
  | [], p, hp => by cases hp
  | (n, c) :: r, p, hp => by
    rw [bkDepthKids]
    rcases List.mem_cons.mp hp with rfl | hp
    · exact Nat.le_max_left ..
    · exact Nat.le_trans (bkDepth_mem r p hp) (Nat.le_max_right ..)

/-- a fuel of at least the nesting depth covers the nesting -/
theorem nestOk_of_bkDepth : ∀ (f : Nat) (b : Bk), bkDepth b ≤ f → BktHistoryL.nestOk f b = true
  | 0, .mk r s t o, h => by rw [bkDepth] at h; omega
  | f+1, .mk r s t o, h => by
    rw [bkDepth] at h
    rw [BktHistoryL.nestOk_succ]
    intro p hp
    have := bkDepth_mem o p hp
    exact nestOk_of_bkDepth f p.2 (by omega)

/-- the fuel `content` is computed with covers the nesting -/
theorem nestOk_bkDepth_succ (b : Bk) : BktHistoryL.nestOk (bkDepth b + 1) b = true :=
  nestOk_of_bkDepth _ b (Nat.le_succ _)

/-- for a well-formed tree the fuel does not matter -/
theorem content_fuel (fu : Nat) (b : Bk) (h : origShapeOk fu b = true) : absTop fu b b = content b := by
  unfold content absTop
  rw [BktHistoryL.absBk_nest2 false fu b h fu (bkDepth b + 1)
    (BktHistoryL.nestOk_of_origOkG false fu b h) (nestOk_bkDepth_succ b) b b [] []]

/-- one transaction of a history -/
structure TxRec where
  calls : List Call
  order : List Nat
  ps : Nat
  sth : Nat
  rth : Nat
  fu : Nat          -- fuel this transaction is modelled with
  next : Bk         -- the bucket tree the next transaction starts from

/-- the model's state after the calls of `r` -/
def afterCalls (orig : Bk) (r : TxRec) : Bk := r.calls.foldl (stepCall r.fu orig) (closeAll orig)

/-- a history is admissible from `orig`: every transaction starts from a well-formed tree, its
    calls address opened buckets, fuel and rebalance order suffice, and the tree the next
    transaction starts from holds exactly the content the model committed -/
def HistOk : Bk → List TxRec → Prop
  | _, [] => True
  | orig, r :: rest =>
    origOk r.fu orig = true ∧ CallsOk r.fu orig (closeAll orig) r.calls ∧
    fuelOk r.fu r.fu (afterCalls orig r) = true ∧
    (∀ pg ∈ allMatPgids r.fu r.fu (afterCalls orig r), pg ∈ r.order) ∧
    (∀ cur', commitRoot r.ps r.sth r.rth r.fu r.order (afterCalls orig r) = some cur' →
        content r.next = content (full orig r.fu [] cur')) ∧
    HistOk r.next rest

/-- the tree the history ends with -/
def finalTree : Bk → List TxRec → Bk
  | orig, [] => orig
  | _, r :: rest => finalTree r.next rest

set_option linter.unusedVariables false in
/-- **any history refines the reference model**: the content at the end is the reference model's
    state after all calls of all transactions, in order.  (`h0` is not needed by the proof: for a
    non-empty history `HistOk` already contains `origOk`, for the empty one nothing is to show.) -/
theorem history_refines (orig : Bk) (recs : List TxRec) (h : HistOk orig recs) (h0 : ∃ fu, origShapeOk fu orig = true) :
    content (finalTree orig recs) =
      recs.foldl (fun s r => r.calls.foldl specCall s) (content orig) := by
  clear h0
  induction recs generalizing orig with
  | nil => rfl
  | cons r rest ih =>
    obtain ⟨ho, hc, hf, hcov, hlink, hrest⟩ := h
    obtain ⟨cur', fu', hcm, _, hshape, hfull⟩ :=
      root_transaction_refines r.ps r.sth r.rth r.fu orig r.calls r.order ho hc hf hcov
    have e1 : content r.next = r.calls.foldl specCall (content orig) := by
      rw [hlink cur' hcm, ← content_fuel fu' _ hshape, hfull,
        content_fuel r.fu orig (BktHistoryL.shape_of_origOk r.fu orig ho)]
    rw [finalTree, List.foldl_cons, ih r.next hrest, e1]

end Bolt.C04Bkt
