/-
C04 — nested buckets: every API call on a bucket inside a write transaction, as modelled by
`Model/Bkt` (opened-bucket cache, elements of nested buckets in the parent's B+tree, each
bucket's own tree from `Model/BTree`), has exactly the effect the API-level reference model
(`Spec/NestedMap`, the oracle of the `apiprog` engine) prescribes — on the logical content
`absTop` of the state.  `WF` (decidable, evaluated by the driver on every state of every real
run) is preserved.  The path `p` addresses an opened bucket (`bkAt p cur`); its API path is
`topName :: p`.
-/
import Bolt.Model.BktInv
import Bolt.Lemmas.BktOps
namespace Bolt.C04Bkt
open Bolt Bolt.BTree Bolt.Bkt

def apiPath (p : List Bytes) : List Bytes := topName :: p

/-- the reference model's state after a call: the new root, or the old one when refused -/
def orOld (r : Except ApiErr SVal) (old : SVal) : SVal := match r with | .ok v => v | .error _ => old

/-- the state a transaction starts with is well-formed -/
theorem start_wf (fu : Nat) (orig : Bk) (h : origOk fu orig = true) : WF fu orig (closeAll orig) := by
  sorry

/-- … and its content is the content of the file -/
theorem start_abs (fu : Nat) (orig : Bk) (h : origOk fu orig = true) :
    absTop fu orig (closeAll orig) = absTop fu orig orig := by
  sorry

/-- `Bucket.Bucket(name)` changes nothing but the cache; it returns nil exactly when the
    reference model has no bucket of that name there -/
theorem open_refines (fu : Nat) (orig cur : Bk) (p : List Bytes) (name : Bytes) (b : Bk)
    (hw : WF fu orig cur) (hb : bkAt p cur = some b) :
    match modifyBk (openAt fu orig p name) p cur with
    | some cur' => WF fu orig cur' ∧ absTop fu orig cur' = absTop fu orig cur ∧
        (bkAt (p ++ [name]) cur').isSome ∧
        (bucketAt (apiPath p ++ [name]) (absTop fu orig cur)).isSome
    | none => (bucketAt (apiPath p ++ [name]) (absTop fu orig cur)).isNone := by
  sorry

/-- `Bucket.Put` -/
theorem put_refines (fu : Nat) (orig cur : Bk) (p : List Bytes) (k v : Bytes) (b : Bk)
    (hw : WF fu orig cur) (hb : bkAt p cur = some b)
    (hk : k ≠ []) (hkl : k.length ≤ maxKeySize) (hvl : v.length ≤ maxValueSize) :
    ∃ cur', modifyBk (putAt fu k v) p cur = some cur' ∧ WF fu orig cur' ∧
      absTop fu orig cur' = orOld (apiPut (absTop fu orig cur) (apiPath p) k v) (absTop fu orig cur) := by
  sorry

/-- `Bucket.Delete` -/
theorem del_refines (fu : Nat) (orig cur : Bk) (p : List Bytes) (k : Bytes) (b : Bk)
    (hw : WF fu orig cur) (hb : bkAt p cur = some b) :
    ∃ cur', modifyBk (delAt fu k) p cur = some cur' ∧ WF fu orig cur' ∧
      absTop fu orig cur' = orOld (apiDelete (absTop fu orig cur) (apiPath p) k) (absTop fu orig cur) := by
  sorry

/-- `Bucket.CreateBucket`: refused exactly when the reference model refuses; else the same new
    content (an empty bucket with sequence 0), opened -/
theorem create_refines (fu : Nat) (orig cur : Bk) (p : List Bytes) (name : Bytes) (b : Bk)
    (hw : WF fu orig cur) (hb : bkAt p cur = some b) (hd : p.length + 3 ≤ fu) :
    match modifyBk (createAt fu name) p cur with
    | some cur' => WF fu orig cur' ∧
        apiCreateBucket (absTop fu orig cur) (apiPath p) name false = .ok (absTop fu orig cur') ∧
        (bkAt (p ++ [name]) cur').isSome
    | none => ∃ e, apiCreateBucket (absTop fu orig cur) (apiPath p) name false = .error e := by
  sorry

/-- `Bucket.DeleteBucket`: refused exactly when the reference model refuses; else the bucket
    is gone with everything nested in it -/
theorem deleteBucket_refines (fu : Nat) (orig cur : Bk) (p : List Bytes) (name : Bytes) (b : Bk)
    (hw : WF fu orig cur) (hb : bkAt p cur = some b) :
    match modifyBk (deleteAt fu name) p cur with
    | some cur' => WF fu orig cur' ∧
        apiDeleteBucket (absTop fu orig cur) (apiPath p) name = .ok (absTop fu orig cur')
    | none => ∃ e, apiDeleteBucket (absTop fu orig cur) (apiPath p) name = .error e := by
  sorry

/-- `Bucket.SetSequence` -/
theorem setSeq_refines (fu : Nat) (orig cur : Bk) (p : List Bytes) (n : Nat) (b : Bk)
    (hw : WF fu orig cur) (hb : bkAt p cur = some b) :
    ∃ cur', modifyBk (setSeqAt n) p cur = some cur' ∧ WF fu orig cur' ∧
      apiSetSequence (absTop fu orig cur) (apiPath p) n = .ok (absTop fu orig cur') := by
  sorry

end Bolt.C04Bkt
