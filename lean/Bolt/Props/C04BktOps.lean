/-
C04 — nested buckets: every API call on a bucket inside a write transaction, as modelled by
`Model/Bkt` (opened-bucket cache, elements of nested buckets in the parent's B+tree, each
bucket's own tree from `Model/BTree`), has exactly the effect the API-level reference model
(`Spec/NestedMap`, the oracle of the `apiprog` engine) prescribes — on the logical content
`absTop` of the state.  `WF` (decidable, evaluated by the driver on every state of every real
run) is preserved.  The path `p` addresses an opened bucket (`bkAt p cur`); its API path is
`topName :: p`.
-/
import Bolt.Model.BktInv
import Bolt.Lemmas.BktOps
namespace Bolt.C04Bkt
open Bolt Bolt.BTree Bolt.Bkt Bolt.Bkt.BktOpsL

def apiPath (p : List Bytes) : List Bytes := topName :: p

/-- the reference model's state after a call: the new root, or the old one when refused -/
def orOld (r : Except ApiErr SVal) (old : SVal) : SVal := match r with | .ok v => v | .error _ => old

/-- the state a transaction starts with is well-formed -/
theorem start_wf (fu : Nat) (orig : Bk) (h : origOk fu orig = true) : WF fu orig (closeAll orig) := by
  exact ⟨h, curOk_closeAll orig fu [] orig h rfl⟩

/-- … and its content is the content of the file -/
theorem start_abs (fu : Nat) (orig : Bk) (h : origOk fu orig = true) :
    absTop fu orig (closeAll orig) = absTop fu orig orig := by
  unfold absTop
  rw [abs_closeAll true orig fu fu [] orig h rfl]

/-- `Bucket.Bucket(name)` changes nothing but the cache; it returns nil exactly when the
    reference model has no bucket of that name there -/
theorem open_refines (fu : Nat) (orig cur : Bk) (p : List Bytes) (name : Bytes) (b : Bk)
    (hw : WF fu orig cur) (hb : bkAt p cur = some b) :
    match modifyBk (openAt fu orig p name) p cur with
    | some cur' => WF fu orig cur' ∧ absTop fu orig cur' = absTop fu orig cur ∧
        (bkAt (p ++ [name]) cur').isSome ∧
        (bucketAt (apiPath p ++ [name]) (absTop fu orig cur)).isSome
    | none => (bucketAt (apiPath p ++ [name]) (absTop fu orig cur)).isNone := by
  obtain ⟨ho, hc⟩ := hw
  obtain ⟨f, hfu, hcb, hba, hmod, hnone, _, hself⟩ := frame fu orig cur p b hc hb
  have hs := inTx_sorted ((curOk_succ ..).mp hcb).1
  have hchild := bucketAt_child (subV orig f p b.opened) (subV_isBkt _ _ _ _) (absTop fu orig cur)
    (topName :: p) b.seq hs name hba
  rcases open_local orig fu f fu p b name ho hfu hcb (by omega) with
    ⟨e, hn⟩ | ⟨b', e, hn, hcb', hseq, hents, hlk⟩
  · rw [hnone _ e]
    exact hchild.2 hn
  · obtain ⟨cur', hm, hc', hb', habs⟩ := hmod _ b' e hcb'
    rw [hm]
    refine ⟨⟨ho, hc'⟩, ?_, ?_, hchild.1 hn⟩
    · rw [habs, hseq, hents]; exact hself
    · rw [bkAt_snoc name hb']; exact hlk

/-- `Bucket.Put` -/
theorem put_refines (fu : Nat) (orig cur : Bk) (p : List Bytes) (k v : Bytes) (b : Bk)
    (hw : WF fu orig cur) (hb : bkAt p cur = some b)
    (hk : k ≠ []) (hkl : k.length ≤ maxKeySize) (hvl : v.length ≤ maxValueSize) :
    ∃ cur', modifyBk (putAt fu k v) p cur = some cur' ∧ WF fu orig cur' ∧
      absTop fu orig cur' = orOld (apiPut (absTop fu orig cur) (apiPath p) k v) (absTop fu orig cur) := by
  obtain ⟨ho, hc⟩ := hw
  obtain ⟨f, hfu, hcb, hba, hmod, _, _, hself⟩ := frame fu orig cur p b hc hb
  obtain ⟨b', e, hcb', hseq, hents⟩ := put_local orig fu f p b k v hcb (by omega) hk
  obtain ⟨cur', hm, hc', _, habs⟩ := hmod _ b' e hcb'
  refine ⟨cur', hm, ⟨ho, hc'⟩, ?_⟩
  unfold apiPath
  rw [habs, hseq, hents, apiPut_abs (subV orig f p b.opened) (subV_isBkt _ _ _ _) _ p b.seq (flatten b.tree)
    k v hba hk hkl hvl]
  cases hbk : isBucketAt (flatten b.tree) k with
  | true => rw [specPut_refused _ _ _ hbk]; exact hself
  | false => rfl

/-- `Bucket.Delete` -/
theorem del_refines (fu : Nat) (orig cur : Bk) (p : List Bytes) (k : Bytes) (b : Bk)
    (hw : WF fu orig cur) (hb : bkAt p cur = some b) :
    ∃ cur', modifyBk (delAt fu k) p cur = some cur' ∧ WF fu orig cur' ∧
      absTop fu orig cur' = orOld (apiDelete (absTop fu orig cur) (apiPath p) k) (absTop fu orig cur) := by
  obtain ⟨ho, hc⟩ := hw
  obtain ⟨f, hfu, hcb, hba, hmod, _, _, hself⟩ := frame fu orig cur p b hc hb
  obtain ⟨b', e, hcb', hseq, hents⟩ := del_local orig fu f p b k hcb (by omega)
  obtain ⟨cur', hm, hc', _, habs⟩ := hmod _ b' e hcb'
  refine ⟨cur', hm, ⟨ho, hc'⟩, ?_⟩
  unfold apiPath
  rw [habs, hseq, hents, apiDelete_abs (subV orig f p b.opened) (subV_isBkt _ _ _ _) _ p b.seq (flatten b.tree)
    k hba]
  cases hbk : isBucketAt (flatten b.tree) k with
  | true => rw [specDel_refused _ _ hbk]; exact hself
  | false =>
    cases hfi : (flatten b.tree).find? (fun i => i.key == k) with
    | none => rw [specDel_missing _ _ hfi]; exact hself
    | some i => rfl

/-- `Bucket.CreateBucket`: refused exactly when the reference model refuses; else the same new
    content (an empty bucket with sequence 0), opened -/
theorem create_refines (fu : Nat) (orig cur : Bk) (p : List Bytes) (name : Bytes) (b : Bk)
    (hw : WF fu orig cur) (hb : bkAt p cur = some b) (hd : p.length + 3 ≤ fu) :
    match modifyBk (createAt fu name) p cur with
    | some cur' => WF fu orig cur' ∧
        apiCreateBucket (absTop fu orig cur) (apiPath p) name false = .ok (absTop fu orig cur') ∧
        (bkAt (p ++ [name]) cur').isSome
    | none => ∃ e, apiCreateBucket (absTop fu orig cur) (apiPath p) name false = .error e := by
  obtain ⟨ho, hc⟩ := hw
  obtain ⟨f, hfu, hcb, hba, hmod, hnone, _, _⟩ := frame fu orig cur p b hc hb
  have hapi := apiCreate_abs (subV orig f p b.opened) (absTop fu orig cur) p b.seq (flatten b.tree) name hba
  rcases create_local orig fu f p b name hcb (by omega) (by omega) with
    ⟨e, hr⟩ | ⟨b', e, hn, hfind, hcb', hseq, hents, hlk⟩
  · rw [hnone _ e]
    exact hapi.2 hr
  · obtain ⟨cur', hm, hc', hb', habs⟩ := hmod _ b' e hcb'
    rw [hm]
    refine ⟨⟨ho, hc'⟩, ?_, ?_⟩
    · rw [habs, hseq, hents]; exact hapi.1 hn hfind
    · rw [bkAt_snoc name hb']; exact hlk

/-- `Bucket.DeleteBucket`: refused exactly when the reference model refuses; else the bucket
    is gone with everything nested in it -/
theorem deleteBucket_refines (fu : Nat) (orig cur : Bk) (p : List Bytes) (name : Bytes) (b : Bk)
    (hw : WF fu orig cur) (hb : bkAt p cur = some b) :
    match modifyBk (deleteAt fu name) p cur with
    | some cur' => WF fu orig cur' ∧
        apiDeleteBucket (absTop fu orig cur) (apiPath p) name = .ok (absTop fu orig cur')
    | none => ∃ e, apiDeleteBucket (absTop fu orig cur) (apiPath p) name = .error e := by
  obtain ⟨ho, hc⟩ := hw
  obtain ⟨f, hfu, hcb, hba, hmod, hnone, _, _⟩ := frame fu orig cur p b hc hb
  have hapi := apiDeleteBucket_abs (subV orig f p b.opened) (subV_isBkt _ _ _ _) (absTop fu orig cur) p b.seq
    (flatten b.tree) name hba
  rcases delete_local orig fu f p b name hcb (by omega) with
    ⟨e, hr⟩ | ⟨b', i, e, hfind, hfl, hcb', hseq, hents⟩
  · rw [hnone _ e]
    exact hapi.2 hr
  · obtain ⟨cur', hm, hc', _, habs⟩ := hmod _ b' e hcb'
    rw [hm]
    refine ⟨⟨ho, hc'⟩, ?_⟩
    rw [habs, hseq, hents]; exact hapi.1 i hfind hfl

/-- `Bucket.SetSequence` -/
theorem setSeq_refines (fu : Nat) (orig cur : Bk) (p : List Bytes) (n : Nat) (b : Bk)
    (hw : WF fu orig cur) (hb : bkAt p cur = some b) :
    ∃ cur', modifyBk (setSeqAt n) p cur = some cur' ∧ WF fu orig cur' ∧
      apiSetSequence (absTop fu orig cur) (apiPath p) n = .ok (absTop fu orig cur') := by
  obtain ⟨ho, hc⟩ := hw
  obtain ⟨f, hfu, hcb, hba, hmod, _, _, _⟩ := frame fu orig cur p b hc hb
  obtain ⟨b', e, hcb', hseq, hents⟩ := setSeq_local orig f p b n hcb
  obtain ⟨cur', hm, hc', _, habs⟩ := hmod _ b' e hcb'
  refine ⟨cur', hm, ⟨ho, hc'⟩, ?_⟩
  unfold apiSetSequence apiPath
  rw [hba, habs, hseq, hents]
  rfl

end Bolt.C04Bkt
