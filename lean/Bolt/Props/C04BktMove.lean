/-
C04 — `Bucket.MoveBucket` on nested buckets (`Bkt.moveAt`): the move of a bucket that the
transaction has opened together with everything nested in it (the cache entry is handed over to
the destination — the path repaired by the fixes F3/F4) has exactly the effect of the
reference model's `apiMoveBucket`, and the same refusals.  The move of an UNOPENED bucket (its raw
element value is copied) is outside the model (`moveAt = none`) and covered by the API-level
correspondence only.
-/
import Bolt.Props.C04BktTx
import Bolt.Lemmas.BktMove
namespace Bolt.C04Bkt
open Bolt Bolt.BTree Bolt.Bkt

/-- well-formedness and the abstraction do not depend on the fuel once it suffices -/
theorem wf_mono (fu fu' : Nat) (orig cur : Bk) (h : WF fu orig cur) (hle : fu ≤ fu') : WF fu' orig cur :=
  ⟨BktMoveL.origOk_mono true fu orig h.1 fu' hle, BktMoveL.curOk_mono orig fu [] cur h.2 fu' hle⟩

theorem abs_fuel (fu fu' : Nat) (orig cur : Bk) (h : WF fu orig cur) (hle : fu ≤ fu') :
    absTop fu' orig cur = absTop fu orig cur := by
  unfold absTop
  rw [BktMoveL.absBk_fuel orig fu [] cur h.2 h.1 fu' hle]

/-- **MoveBucket** (when the model accepts it): the reference model moves the same bucket, with
    everything nested in it; `WF` is kept (with enough fuel for the new nesting depth) -/
theorem move_refines (fu : Nat) (orig cur cur' : Bk) (src dst : List Bytes) (k : Bytes)
    (hw : WF fu orig cur) (h : moveAt fu src k dst cur = some cur') :
    ∃ fu', fu ≤ fu' ∧ WF fu' orig cur' ∧
      apiMoveBucket (absTop fu orig cur) (apiPath src) k (apiPath dst) = .ok (absTop fu' orig cur') :=
  BktMoveL.move_accepted fu orig cur cur' src dst k hw h

/-- the refusals agree: when the bucket to move is opened with everything nested in it and the
    model refuses, the reference model refuses too -/
theorem move_refused (fu : Nat) (orig cur : Bk) (src dst : List Bytes) (k : Bytes) (sb c : Bk)
    (hw : WF fu orig cur) (hs : bkAt src cur = some sb) (hd : (bkAt dst cur).isSome)
    (hc : lookupBk k sb.opened = some c) (hfo : fullyOpened fu c = true)
    (h : moveAt fu src k dst cur = none) :
    ∃ e, apiMoveBucket (absTop fu orig cur) (apiPath src) k (apiPath dst) = .error e := by
  obtain ⟨db, hdb⟩ := Option.isSome_iff_exists.mp hd
  exact BktMoveL.move_refusal fu orig cur src dst k sb db c hw hs hdb hc hfo h

end Bolt.C04Bkt
