/-
C04/C07 — the B+tree of a bucket refines the sorted map.  For every committed tree, every
sequence of Put/Delete calls, every order in which `Bucket.rebalance` visits its node map
(Go's map order is random), every page size and fill percent: the model of
`Tx.Commit` for the bucket (`BTree.commit`: materialise + put/del, rebalance, spill/split)
never leaves its domain (the Go code never corrupts the tree), writes a tree that is again
a well-formed committed tree, and whose content is exactly the sorted-list specification
applied to the old content.
-/
import Bolt.Model.BTreeInv
import Bolt.Props.C04TreeOps
import Bolt.Lemmas.BTreeReb
namespace Bolt.C04Tree
open Bolt Bolt.BTree

/-- the rebalance-phase invariant implies the in-transaction invariant -/
theorem inTxR_inTx (t : N) (h : InTxR t) : InTx t :=
  RebL.inTx_of_inTxR t h

/-- the trees that Put/Delete produce from a committed tree satisfy the rebalance-phase
    invariant (separators are never changed by Put/Delete, and in a committed tree the first
    separator of every node equals the node's own separator in its parent) -/
theorem applyOps_inTxR (fuel : Nat) (t t1 : N) (ops : List Op) (hc : Committed t)
    (hk : ∀ o ∈ ops, o.ok) (hf : depth t ≤ fuel) (h : applyOps fuel t ops = some t1) : InTxR t1 := by
  obtain ⟨t1', h1, h2, _, _⟩ := applyOps_refines fuel t ops (committed_inTx t hc) hk hf
  rw [h] at h1
  cases h1
  exact RebL.inTxR_of_inTx_tight t1 h2
    (RebL.applyOps_tight ops t t1 h (RebL.tight_of_committed t true none hc.1 (fun _ hl => by cases hl)))

/-- one iteration of the rebalance loop, at ANY node: stays in the domain, keeps the
    invariant and the content.
    (The first version of this statement assumed only `InTx t`; that is FALSE — `InTx` admits
    trees no transaction produces, on which a merge into the left sibling breaks it.
    Counterexample in `Bolt/Lemmas/BTreeReb.lean`.) -/
theorem rebalanceAt_refines (th : Nat) (t : N) (path : List Nat) (n : N) (hi : InTxR t)
    (hp : nodeAt path t = some n) :
    ∃ t', rebalanceAt th t path = some t' ∧ InTxR t' ∧ flatten t' = flatten t ∧ depth t' ≤ depth t :=
  RebL.rebalanceAt_ok th t path n hi hp

/-- **any visiting order** of the node map keeps the invariant and the content -/
theorem rebalanceAll_refines (th fuel : Nat) (t : N) (order : List Nat) (hi : InTxR t) :
    ∃ t', rebalanceAll th fuel t order = some t' ∧ InTxR t' ∧ flatten t' = flatten t ∧ depth t' ≤ depth t := by
  induction order generalizing t with
  | nil => exact ⟨t, rfl, hi, rfl, Nat.le_refl _⟩
  | cons pg rest ih =>
    rw [rebalanceAll]
    cases hf : findMat pg fuel t with
    | none => exact ih t hi
    | some path =>
      obtain ⟨n, hn⟩ := RebL.findMat_nodeAt hf
      obtain ⟨t1, h1, h2, h3, h4⟩ := rebalanceAt_refines th t path n hi hn.1
      obtain ⟨t', h5, h6, h7, h8⟩ := ih t1 h2
      simp only [h1]
      exact ⟨t', h5, h6, h7.trans h3, Nat.le_trans h8 h4⟩

/-- when the order covers every node of the map (page ids being distinct), no node is left
    unbalanced — in particular no emptied node survives -/
theorem rebalanceAll_settles (th fuel : Nat) (t t' : N) (order : List Nat) (hi : InTxR t)
    (hn : (pgids t).Nodup) (hf : depth t ≤ fuel)
    (hc : ∀ pg ∈ matPgids fuel t, pg ∈ order)
    (hr : rebalanceAll th fuel t order = some t') : anyUnb t' = false :=
  RebL.settles th fuel t t' order hi hn hf hc hr


end Bolt.C04Tree
