/-
C06 at tree level — copy-on-write.  The tree a commit writes consists of NEW pages (the model
writes them with page id 0) and of pages of the old tree that are kept UNCHANGED, subtree and
all: a transaction never modifies a page of the committed tree in place (readers of the old
version keep seeing it), it only stops referencing some of them.
-/
import Bolt.Props.C07Tree
import Bolt.Lemmas.BTreeCow
namespace Bolt.C06Tree
open Bolt Bolt.BTree

mutual
/-- every node of a tree (the tree itself included) -/
def subtrees : N → List N
  | .leaf h items => [.leaf h items]
  | .branch h kids => .branch h kids :: subtreesKids kids
def subtreesKids : List (Bytes × N) → List N
  | [] => []
  | (_, c) :: r => subtrees c ++ subtreesKids r
end

mutual
/-- `subtrees` is the enumeration the lemmas work with -/
private theorem subtrees_eq : ∀ n : N, subtrees n = CowL.sub n
  | .leaf h items => by rw [subtrees, CowL.sub_leaf]
  | .branch h kids => by rw [subtrees, CowL.sub_branch, subtreesKids_eq kids]
private theorem subtreesKids_eq : ∀ kids : List (Bytes × N), subtreesKids kids = CowL.subKids kids
  | [] => by rw [subtreesKids, CowL.subKids_nil]
  | (s, c) :: r => by rw [subtreesKids, CowL.subKids_cons, subtrees_eq c, subtreesKids_eq r]
end

/-- **copy-on-write**: every node of the committed tree that is an old page (page id ≠ 0) is a
    node of the old tree, unchanged together with everything below it -/
theorem commit_copy_on_write (ps sth rth fuel : Nat) (t t' : N) (ops : List Op) (order : List Nat)
    (hc : Committed t) (hn : (pgids t).Nodup) (hk : ∀ o ∈ ops, o.ok)
    (hf : C04Tree.fuelBound t ops ≤ fuel)
    (h : commit ps sth rth fuel t ops order = some t') :
    ∀ n' ∈ subtrees t', n'.hd.pgid ≠ 0 → n' ∈ subtrees t := by
  have _ := hn     -- not needed: the argument never identifies a node by its page id
  have hdt : depth t ≤ fuel := by unfold C04Tree.fuelBound at hf; omega
  unfold commit at h
  obtain ⟨t1, h1, h⟩ := Option.bind_eq_some_iff.mp h
  obtain ⟨t2, h2, h3⟩ := Option.bind_eq_some_iff.mp h
  -- the invariant holds when the spill starts
  have hr1 : InTxR t1 := C04Tree.applyOps_inTxR fuel t t1 ops hc hk hdt h1
  obtain ⟨t2', h2', hr2, _, _⟩ := C04Tree.rebalanceAll_refines rth fuel t1 order hr1
  rw [h2] at h2'
  cases h2'
  -- Put/Delete and rebalance never touch an unmaterialised subtree; spill keeps them verbatim
  -- and gives page id 0 to everything it writes
  have := CowL.phases_cow ps sth rth fuel t t1 t2 t' ops order (OpsL.committedN_hd true t hc.1) h1 h2
    (C04Tree.inTxR_inTx t2 hr2) h3
  rw [subtrees_eq t', subtrees_eq t]
  exact this

/-- in particular the kept pages hold exactly the content they held -/
theorem kept_page_content (ps sth rth fuel : Nat) (t t' : N) (ops : List Op) (order : List Nat)
    (hc : Committed t) (hn : (pgids t).Nodup) (hk : ∀ o ∈ ops, o.ok)
    (hf : C04Tree.fuelBound t ops ≤ fuel)
    (h : commit ps sth rth fuel t ops order = some t') :
    ∀ n' ∈ subtrees t', n'.hd.pgid ≠ 0 →
      ∃ n ∈ subtrees t, n.hd.pgid = n'.hd.pgid ∧ flatten n = flatten n' ∧ n.keys = n'.keys :=
  fun n' hn' h0 =>
    ⟨n', commit_copy_on_write ps sth rth fuel t t' ops order hc hn hk hf h n' hn' h0, rfl, rfl, rfl⟩

/-- non-vacuity: in the example transaction of `C04Tree` the untouched leaf (page 5) survives -/
example : ∃ t', commit 256 128 64 20 C04Tree.exTree
      [.del [10], .del [11], .put [4] [7], .put [5] [7], .put [6] [7], .put [7] [7]] [4, 3, 9, 5] = some t' ∧
      ((subtrees t').filter (fun n => n.hd.pgid ≠ 0)).map (fun n => n.hd.pgid) = [5] := by
  refine ⟨_, rfl, ?_⟩
  decide

end Bolt.C06Tree
