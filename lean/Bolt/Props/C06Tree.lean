/-
C06 at tree level — copy-on-write.  The tree a commit writes consists of NEW pages (the model
writes them with page id 0) and of pages of the old tree that are kept UNCHANGED, subtree and
all: a transaction never modifies a page of the committed tree in place (readers of the old
version keep seeing it), it only stops referencing some of them.
-/
import Bolt.Props.C07Tree
import Bolt.Lemmas.BTreeCow
namespace Bolt.C06Tree
open Bolt Bolt.BTree

mutual
/-- every node of a tree (the tree itself included) -/
def subtrees : N → List N
  | .leaf h items => [.leaf h items]
  | .branch h kids => .branch h kids :: subtreesKids kids
def subtreesKids : List (Bytes × N) → List N
  | [] => []
  | (_, c) :: r => subtrees c ++ subtreesKids r
end

/-- **copy-on-write**: every node of the committed tree that is an old page (page id ≠ 0) is a
    node of the old tree, unchanged together with everything below it -/
theorem commit_copy_on_write (ps sth rth fuel : Nat) (t t' : N) (ops : List Op) (order : List Nat)
    (hc : Committed t) (hn : (pgids t).Nodup) (hk : ∀ o ∈ ops, o.ok)
    (hf : C04Tree.fuelBound t ops ≤ fuel)
    (h : commit ps sth rth fuel t ops order = some t') :
    ∀ n' ∈ subtrees t', n'.hd.pgid ≠ 0 → n' ∈ subtrees t := by
  sorry

/-- in particular the kept pages hold exactly the content they held -/
theorem kept_page_content (ps sth rth fuel : Nat) (t t' : N) (ops : List Op) (order : List Nat)
    (hc : Committed t) (hn : (pgids t).Nodup) (hk : ∀ o ∈ ops, o.ok)
    (hf : C04Tree.fuelBound t ops ≤ fuel)
    (h : commit ps sth rth fuel t ops order = some t') :
    ∀ n' ∈ subtrees t', n'.hd.pgid ≠ 0 →
      ∃ n ∈ subtrees t, n.hd.pgid = n'.hd.pgid ∧ flatten n = flatten n' ∧ n.keys = n'.keys := by
  sorry

/-- non-vacuity: in the example transaction of `C04Tree` the untouched leaf (page 5) survives -/
example : ∃ t', commit 256 128 64 20 C04Tree.exTree
      [.del [10], .del [11], .put [4] [7], .put [5] [7], .put [6] [7], .put [7] [7]] [4, 3, 9, 5] = some t' ∧
      ((subtrees t').filter (fun n => n.hd.pgid ≠ 0)).map (fun n => n.hd.pgid) = [5] := by
  sorry

end Bolt.C06Tree
