/-
C02 — a read transaction sees one immutable snapshot for its whole life.
-/
import Bolt.Lemmas.Store
namespace Bolt.C02
open Bolt.FL Bolt.Store

/-- **Snapshot stability.** Every page of every open reader's version still carries the
    stamp it had when that version was committed — in every reachable state, i.e. after any
    number of later commits, rollbacks, failed commits and page reuse while the reader is
    open.  (Everything a reader observes is a function of these pages: the Lean decoder
    `decodeAt` reads nothing else.) -/
theorem snapshot_stable (s : St) (hr : Reachable s) (hb : s.cur.txid + 2 < maxU64) :
    ∀ r ∈ s.readers, Intact s.disk r :=
  (hr.rinv hb).rdisk

/-- A reader's version is a committed version no newer than the newest one, and it is the
    state of the last commit completed before it began: `beginR` pins exactly `cur`. -/
theorem reader_pins_current (s : St) (hr : Reachable s) (s' : St) (h : stepAll s .beginR = some s') :
    s'.readers = s.cur :: s.readers ∧ s'.cur = s.cur := by
  rw [step_beginR h]
  exact ⟨rfl, rfl⟩

theorem reader_not_newer (s : St) (hr : Reachable s) : ∀ r ∈ s.readers, r.txid ≤ s.cur.txid :=
  hr.inv.rd_le

/-- While a reader is open none of its pages is allocatable. -/
theorem reader_pages_not_free (s : St) (hr : Reachable s) (hb : s.cur.txid + 2 < maxU64) :
    ∀ r ∈ s.readers, ∀ p ∈ r.used, p ∉ s.fl.freeIds :=
  fun _ hrd _ hp => reader_page_not_free hr.inv (hr.rinv hb) hrd hp

end Bolt.C02
