/-
C08/C03 — every error return of `Tx.Commit` passes through `tx.rollback()` exactly once
(directly, or inside `commitFreelist`), so the writer lock is released and the allocator
reloaded.
-/
import Bolt.Gen.Cfg
namespace Bolt.GenC08
open Bolt.Gen

theorem commit_error_branches : commitErrBranches =
  ["tx.root.spill:rollback=true:returns=true", "tx.commitFreelist:rollback=false:returns=true",
   "tx.db.grow:rollback=true:returns=true", "tx.write:rollback=true:returns=true",
   "tx.writeMeta:rollback=true:returns=true"] := rfl

/-- `commitFreelist` rolls back itself when its allocation fails (before writing the list) -/
theorem commitFreelist_rolls_back : commitFreelistCalls =
  ["tx.allocate", "tx.rollback", "tx.db.freelist.Write", "tx.meta.SetFreelist"] := rfl

end Bolt.GenC08
