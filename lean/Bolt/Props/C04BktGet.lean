/-
C04 — reads inside the write transaction and `NextSequence` on nested buckets (`Model/Bkt`).
-/
import Bolt.Props.C04BktOps
import Bolt.Lemmas.BktGet
namespace Bolt.C04Bkt
open Bolt Bolt.BTree Bolt.Bkt Bolt.Bkt.BktOpsL Bolt.Bkt.BktGetL

/-- **`Bucket.Get` reads the transaction's own state**: it returns exactly what the reference
    model returns on the content `absTop` (nil for a missing key and for a nested bucket) -/
theorem get_refines (fu : Nat) (orig cur : Bk) (p : List Bytes) (k : Bytes) (b : Bk)
    (hw : WF fu orig cur) (hb : bkAt p cur = some b) :
    apiGet (absTop fu orig cur) (apiPath p) k = .ok (getAt fu k b) := by
  obtain ⟨_, hc⟩ := hw
  obtain ⟨f, hfu, hcb, hba, _, _, _, _⟩ := frame fu orig cur p b hc hb
  unfold apiPath
  rw [getAt_local orig fu f p b k hcb (by omega)]
  exact apiGet_abs (subV orig f p b.opened) (subV_isBkt _ _ _ _) _ p b.seq (flatten b.tree) k hba

/-- `Bucket.NextSequence` -/
theorem nextSeq_refines (fu : Nat) (orig cur : Bk) (p : List Bytes) (b : Bk)
    (hw : WF fu orig cur) (hb : bkAt p cur = some b) :
    ∃ cur', modifyBk nextSeqAt p cur = some cur' ∧ WF fu orig cur' ∧
      apiNextSequence (absTop fu orig cur) (apiPath p) = .ok (absTop fu orig cur', (b.seq + 1) % 2^64) := by
  obtain ⟨ho, hc⟩ := hw
  obtain ⟨f, hfu, hcb, hba, hmod, _, _, _⟩ := frame fu orig cur p b hc hb
  obtain ⟨b', e, hcb', hseq, hents⟩ := setSeq_local orig f p b ((b.seq + 1) % 2^64) hcb
  obtain ⟨cur', hm, hc', _, habs⟩ := hmod nextSeqAt b' e hcb'
  refine ⟨cur', hm, ⟨ho, hc'⟩, ?_⟩
  unfold apiNextSequence apiPath
  rw [hba, habs, hseq, hents]
  rfl

/-- read-your-writes: after a `Put` (not refused over a nested bucket), `Get` of that key
    returns the value just written -/
theorem get_after_put (fu : Nat) (orig cur cur' : Bk) (p : List Bytes) (k v : Bytes) (b b' : Bk)
    (hw : WF fu orig cur) (hb : bkAt p cur = some b)
    (hk : k ≠ []) (hkl : k.length ≤ maxKeySize) (hvl : v.length ≤ maxValueSize)
    (hnb : isBucketAt (flatten b.tree) k = false)
    (hp : modifyBk (putAt fu k v) p cur = some cur') (hb' : bkAt p cur' = some b') :
    getAt fu k b' = some v := by
  have _ := hkl
  have _ := hvl
  obtain ⟨_, hc⟩ := hw
  obtain ⟨f, hfu, hcb, _, _, _, _, _⟩ := frame fu orig cur p b hc hb
  obtain ⟨c1, _, _, c4, _, _, _⟩ := (curOk_succ ..).mp hcb
  have hdf : depth b.tree ≤ fu := by omega
  obtain ⟨t', e, hin, hd, hfl⟩ := OpsL.putT_ok fu b.tree k v c1 hk hdf
  have hg : putAt fu k v b = some (b.setTree t') := by unfold putAt; rw [e]; rfl
  obtain ⟨cur'', hm, hb''⟩ := modifyBk_some (putAt fu k v) p cur b _ hb hg
  rw [hp] at hm
  cases hm
  rw [hb'] at hb''
  cases hb''
  rw [getAt_spec fu k _ (by rw [setTree_tree]; exact hin) (by rw [setTree_tree, hd]; exact hdf),
    setTree_tree, hfl]
  exact specGet_specPut _ k v hnb

end Bolt.C04Bkt
