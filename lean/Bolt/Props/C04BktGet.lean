/-
C04 — reads inside the write transaction and `NextSequence` on nested buckets (`Model/Bkt`).
-/
import Bolt.Props.C04BktOps
import Bolt.Lemmas.BktGet
namespace Bolt.C04Bkt
open Bolt Bolt.BTree Bolt.Bkt

/-- **`Bucket.Get` reads the transaction's own state**: it returns exactly what the reference
    model returns on the content `absTop` (nil for a missing key and for a nested bucket) -/
theorem get_refines (fu : Nat) (orig cur : Bk) (p : List Bytes) (k : Bytes) (b : Bk)
    (hw : WF fu orig cur) (hb : bkAt p cur = some b) :
    apiGet (absTop fu orig cur) (apiPath p) k = .ok (getAt fu k b) := by
  sorry

/-- `Bucket.NextSequence` -/
theorem nextSeq_refines (fu : Nat) (orig cur : Bk) (p : List Bytes) (b : Bk)
    (hw : WF fu orig cur) (hb : bkAt p cur = some b) :
    ∃ cur', modifyBk nextSeqAt p cur = some cur' ∧ WF fu orig cur' ∧
      apiNextSequence (absTop fu orig cur) (apiPath p) = .ok (absTop fu orig cur', (b.seq + 1) % 2^64) := by
  sorry

/-- read-your-writes: after a `Put` (not refused over a nested bucket), `Get` of that key
    returns the value just written -/
theorem get_after_put (fu : Nat) (orig cur cur' : Bk) (p : List Bytes) (k v : Bytes) (b b' : Bk)
    (hw : WF fu orig cur) (hb : bkAt p cur = some b)
    (hk : k ≠ []) (hkl : k.length ≤ maxKeySize) (hvl : v.length ≤ maxValueSize)
    (hnb : isBucketAt (flatten b.tree) k = false)
    (hp : modifyBk (putAt fu k v) p cur = some cur') (hb' : bkAt p cur' = some b') :
    getAt fu k b' = some v := by
  sorry

end Bolt.C04Bkt
