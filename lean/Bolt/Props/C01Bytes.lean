/-
C01 at byte level — the two halves of commit atomicity as the bytes `Open` reads.

 * `crash_before_meta`: ANY change of the file that leaves the two meta pages and the pages of
   the committed version's bucket tree alone (the data-page writes of a commit in progress, a
   grown file, whatever subset of them reached the disk) leaves what `Open` + the independent
   reader extract exactly as it was: same meta, same content.
 * `meta_write_publishes` / `commit_publishes`: after `Tx.writeMeta` (`Model/MetaWrite.lean`, tied
   byte for byte to the real meta write by the `crashsim` engine) with a transaction id above the
   other slot's, `Open` chooses the written slot, which carries exactly the transaction's meta;
   and if the file holds the bucket tree that meta points to, the reader extracts exactly that
   tree's content.
 A torn meta write fails its checksum and `Open` falls back to the other slot: `Props/C11`.
-/
import Bolt.Model.MetaWrite
import Bolt.Props.C14Bytes
import Bolt.Lemmas.MetaWrite
namespace Bolt.C01Bytes
open Bolt Bolt.MetaWrite Bolt.Surgery Bolt.Bkt Bolt.C12Bk Bolt.C02Tree Bolt.C14Bytes

/-- **a crash before the meta write leaves the previous state** -/
theorem crash_before_meta (f f' : File) (ps os fu : Nat) (b : Bk) (d : Decoded)
    (h : metaPagesOk f ps = true)
    (hm : ∀ i, i < 2 * ps → f'.get i = f.get i) (hsz : f.size ≤ f'.size)
    (hd : decodeFile f os = .ok d)
    (ho : origShapeOk fu b = true) (hr : b.root ≠ 0) (hroot : d.mt.root = b.root)
    (hl : LaidBk f ps d.mt.pgid fu b) (hfu : fu * (fu + 1) ≤ 64)
    (hagree : ∀ i, inBkPages ps fu b i → f'.get i = f.get i) :
    ∃ d', decodeFile f' os = .ok d' ∧ d'.mt = d.mt ∧ d'.content = d.content ∧
      d.content = SVal.bkt d.mt.seq (match absBk b fu [] b with | .bkt _ e => e | .val _ => []) := by
  obtain ⟨eo, moff, hmo, o⟩ := MetaWriteL.openMeta_congr_low f f' ps os h hm hsz
  have ok := SurgeryL.pagesOk_of h
  have hps80 := ok.ps80
  have hd' : d = decodeAt f ps moff := by
    unfold decodeFile at hd
    rw [o] at hd
    injection hd with hd
    exact hd.symm
  have hmt : d.mt = metaAt f moff := by rw [hd']; exact BackupL.decodeAt_mt f ps moff
  have hc : d.content = SVal.bkt (metaAt f moff).seq
      (decodeTree f ps (metaAt f moff).pgid 64 (metaAt f moff).root Phys.empty).1 := by
    rw [hd']; exact BackupL.decodeAt_content f ps moff
  rw [hmt] at hroot hl
  rw [hmt, hc]
  clear hd' hd
  have hmeta : metaAt f' moff = metaAt f moff :=
    SurgeryL.metaAt_shift (MetaWriteL.low_shift hm (by rcases hmo with rfl | rfl <;> omega))
  obtain ⟨s1, s2, _⟩ := reader_bucket_view_stable f f' ps (metaAt f moff).pgid fu 64 b
    Phys.empty (by omega) ho hr hl hfu hagree
  refine ⟨decodeAt f' ps moff, ?_, ?_, ?_, ?_⟩
  · unfold decodeFile
    rw [eo, o]
  · rw [BackupL.decodeAt_mt, hmeta]
  · rw [BackupL.decodeAt_content, hmeta, hroot, s1]
  · rw [hroot, ← s1, s2]
    rfl

/-- **the meta write publishes the transaction's meta** -/
theorem meta_write_publishes (f : File) (ps os : Nat) (m : Meta)
    (h : metaPagesOk f ps = true) (hm : MetaOk ps m)
    (hnew : (metaAt f (otherOff ps m)).txid < m.txid) :
    (writeMeta f ps m).size = f.size ∧
    (∀ i, ¬ ((m.txid % 2) * ps ≤ i ∧ i < (m.txid % 2) * ps + ps) → (writeMeta f ps m).get i = f.get i) ∧
    metaValid (writeMeta f ps m) (slotOff ps m) = true ∧
    metaAt (writeMeta f ps m) (slotOff ps m) = { m with checksum := metaSum (writeMeta f ps m) (slotOff ps m) } ∧
    openMeta (writeMeta f ps m) os = .ok (ps, slotOff ps m) := by
  exact MetaWriteL.publish_aux f ps os m (m.txid % 2) (Nat.mod_two_eq_zero_or_one _) h hm hnew

/-- **after the meta write `Open` reads the new version** -/
theorem commit_publishes (f : File) (ps os fu : Nat) (m : Meta) (b : Bk)
    (h : metaPagesOk f ps = true) (hm : MetaOk ps m)
    (hnew : (metaAt f (otherOff ps m)).txid < m.txid)
    (ho : origShapeOk fu b = true) (hr : b.root ≠ 0) (hroot : m.root = b.root)
    (hl : LaidBk f ps m.pgid fu b) (hfu : fu * (fu + 1) ≤ 64) :
    ∃ d, decodeFile (writeMeta f ps m) os = .ok d ∧ d.mt.txid = m.txid ∧ d.mt.pgid = m.pgid ∧
      d.content = SVal.bkt m.seq (match absBk b fu [] b with | .bkt _ e => e | .val _ => []) ∧
      (decodeTree (writeMeta f ps m) ps m.pgid 64 m.root Phys.empty).2.errors = [] := by
  obtain ⟨hsize, hout, _, m0, hopen⟩ := meta_write_publishes f ps os m h hm hnew
  have ok := SurgeryL.pagesOk_of h
  have hps80 := ok.ps80
  have hagree : ∀ i, inBkPages ps fu b i → (writeMeta f ps m).get i = f.get i := by
    intro i hi
    obtain ⟨a, _⟩ := BackupL.inBkPages_range f ps m.pgid fu b hl i hi
    apply hout
    rcases Nat.mod_two_eq_zero_or_one m.txid with e | e <;> rw [e] <;> omega
  obtain ⟨_, s2, s3⟩ := reader_bucket_view_stable f (writeMeta f ps m) ps m.pgid fu 64 b
    Phys.empty (by omega) ho hr hl hfu hagree
  refine ⟨decodeAt (writeMeta f ps m) ps (slotOff ps m), ?_, ?_, ?_, ?_, ?_⟩
  · unfold decodeFile
    rw [hopen]
  · rw [BackupL.decodeAt_mt, m0]
  · rw [BackupL.decodeAt_mt, m0]
  · rw [BackupL.decodeAt_content, m0]
    show SVal.bkt m.seq (decodeTree (writeMeta f ps m) ps m.pgid 64 m.root Phys.empty).1 = _
    rw [hroot, s2]
    rfl
  · rw [hroot]
    exact s3

end Bolt.C01Bytes
