/-
C04/C07 — the node layer's pure functions: splitting never loses, duplicates or reorders
elements and respects the minimum fan-out; put/del keep a node's keys sorted and implement
set insertion/removal.
-/
import Bolt.Model.Node
import Bolt.Lemmas.Node
namespace Bolt.C04Node
open Bolt Bolt.Node

/-- **Splitting preserves the element sequence**: the pieces concatenated are the original. -/
theorem split_concat (ps th fuel : Nat) (l : List El) : (split ps th fuel l).flatten = l := by
  induction fuel generalizing l with
  | zero => simp [split]
  | succ fuel ih =>
    rw [split]
    by_cases h : l.length ≤ 4 ∨ sizeLessThan ps l = true
    · rw [if_pos h]; simp
    · rw [if_neg h]
      simp only [List.flatten_cons, ih, List.take_append_drop]

/-- a node that fits (or has at most 4 elements) is not split -/
theorem split_small (ps th fuel : Nat) (l : List El) (h : l.length ≤ 4 ∨ sizeLessThan ps l = true) :
    split ps th (fuel+1) l = [l] := by
  rw [split, if_pos h]

/-- the split index leaves at least `MinKeysPerPage = 2` elements on both sides -/
theorem splitIndex_bounds (th : Nat) (l : List El) (h : 4 < l.length) :
    2 ≤ splitIndex th l ∧ splitIndex th l + 3 ≤ l.length :=
  splitIndexAux_bounds th l.length (by omega) l 0 16 0 (by omega) (by omega) (by intro h0; omega)

/-- for any fuel, every piece of a split of a node with at least 2 elements has at least 2 -/
theorem split_min_keys_aux (ps th : Nat) : ∀ (fuel : Nat) (l : List El), 2 ≤ l.length →
    ∀ p ∈ split ps th fuel l, 2 ≤ p.length
  | 0, l, h => by simp [split]; exact h
  | fuel+1, l, h => by
    rw [split]
    by_cases hc : l.length ≤ 4 ∨ sizeLessThan ps l = true
    · rw [if_pos hc]; simp; exact h
    · rw [if_neg hc]
      have hlen : 4 < l.length := by
        rcases Nat.lt_or_ge 4 l.length with h' | h'
        · exact h'
        · exact absurd (Or.inl h') hc
      have hb := splitIndex_bounds th l hlen
      intro p hp
      rcases List.mem_cons.mp hp with hp | hp
      · subst hp; rw [List.length_take]; omega
      · exact split_min_keys_aux ps th fuel (l.drop (splitIndex th l))
          (by rw [List.length_drop]; omega) p hp

/-- **every piece of a split keeps the minimum fan-out**: at least 2 elements whenever the
    original had more than 4, and no piece is empty -/
theorem split_min_keys (ps th : Nat) (l : List El) (h : 4 < l.length) :
    ∀ p ∈ split ps th l.length l, 2 ≤ p.length :=
  split_min_keys_aux ps th l.length l (by omega)

/-- with `l.length ≤ fuel + 4` the loop has finished -/
theorem split_done_aux (ps th : Nat) : ∀ (fuel : Nat) (l : List El), l.length ≤ fuel + 4 →
    ∀ p ∈ (split ps th fuel l).getLast?, p.length ≤ 4 ∨ sizeLessThan ps p = true
  | 0, l, h => by
    intro p hp
    simp [split] at hp
    subst hp; exact Or.inl (by omega)
  | fuel+1, l, h => by
    rw [split]
    by_cases hc : l.length ≤ 4 ∨ sizeLessThan ps l = true
    · rw [if_pos hc]
      intro p hp
      simp at hp
      subst hp; exact hc
    · rw [if_neg hc]
      have hlen : 4 < l.length := by
        rcases Nat.lt_or_ge 4 l.length with h' | h'
        · exact h'
        · exact absurd (Or.inl h') hc
      have hb := splitIndex_bounds th l hlen
      intro p hp
      rw [List.getLast?_cons_of_ne_nil (split_ne_nil ps th fuel _)] at hp
      exact split_done_aux ps th fuel (l.drop (splitIndex th l))
        (by rw [List.length_drop]; omega) p hp

/-- with enough fuel the loop has finished: the last piece is not split further (it fits or
    has at most 4 elements) -/
theorem split_done (ps th : Nat) (l : List El) :
    ∀ p ∈ (split ps th l.length l).getLast?, p.length ≤ 4 ∨ sizeLessThan ps p = true :=
  split_done_aux ps th l.length l (by omega)

/-- `sizeLessThan v l` is `nodeSize l < v` (for non-empty nodes) -/
theorem sizeLessThan_iff (v : Nat) (l : List El) (hne : l ≠ []) :
    sizeLessThan v l = true ↔ nodeSize l < v := by
  cases l with
  | nil => exact absurd rfl hne
  | cons e r => exact sizeLessThanAux_cons v r 16 e

/-! ### put / del on a sorted key list -/

def Sorted (keys : List Bytes) : Prop := keys.Pairwise (fun a b => Bytes.lt a b = true)

theorem put_sorted (keys : List Bytes) (k : Bytes) (h : Sorted keys) : Sorted (put keys k) := by
  unfold Sorted at *
  induction keys with
  | nil => simp [put_nil]
  | cons a r ih =>
    rw [List.pairwise_cons] at h
    rw [put_cons]
    by_cases h1 : Bytes.lt a k = true
    · rw [if_pos h1, List.pairwise_cons]
      refine ⟨?_, ih h.2⟩
      intro x hx
      rcases (mem_put k x r).mp hx with hx | hx
      · subst hx; exact h1
      · exact h.1 x hx
    · rw [if_neg h1]
      by_cases h2 : a = k
      · rw [if_pos h2]; exact List.pairwise_cons.mpr h
      · rw [if_neg h2]
        have hka : Bytes.lt k a = true := Bytes.lt_total (by simpa using h1) h2
        refine List.pairwise_cons.mpr ⟨?_, List.pairwise_cons.mpr h⟩
        intro x hx
        rcases List.mem_cons.mp hx with hx | hx
        · subst hx; exact hka
        · exact Bytes.lt_trans hka (h.1 x hx)

set_option linter.unusedVariables false in
/-- (holds even without `Sorted`; the hypothesis is kept for the registered statement) -/
theorem put_mem (keys : List Bytes) (k x : Bytes) (h : Sorted keys) :
    x ∈ put keys k ↔ x = k ∨ x ∈ keys :=
  mem_put k x keys

theorem del_sorted (keys : List Bytes) (k : Bytes) (h : Sorted keys) : Sorted (del keys k) := by
  unfold Sorted at *
  induction keys with
  | nil => simp [del_nil]
  | cons a r ih =>
    rw [List.pairwise_cons] at h
    rw [del_cons]
    by_cases h1 : Bytes.lt a k = true
    · rw [if_pos h1, List.pairwise_cons]
      exact ⟨fun x hx => h.1 x (mem_of_mem_del k x r hx), ih h.2⟩
    · rw [if_neg h1]
      by_cases h2 : a = k
      · rw [if_pos h2]; exact h.2
      · rw [if_neg h2]; exact List.pairwise_cons.mpr h

theorem del_mem (keys : List Bytes) (k x : Bytes) (h : Sorted keys) :
    x ∈ del keys k ↔ x ≠ k ∧ x ∈ keys := by
  unfold Sorted at h
  induction keys with
  | nil => simp [del_nil]
  | cons a r ih =>
    rw [List.pairwise_cons] at h
    rw [del_cons]
    by_cases h1 : Bytes.lt a k = true
    · rw [if_pos h1, List.mem_cons, ih h.2, List.mem_cons]
      constructor
      · rintro (hx | ⟨hx1, hx2⟩)
        · subst hx; exact ⟨Bytes.lt_ne h1, Or.inl rfl⟩
        · exact ⟨hx1, Or.inr hx2⟩
      · rintro ⟨hx1, hx2 | hx2⟩
        · exact Or.inl hx2
        · exact Or.inr ⟨hx1, hx2⟩
    · rw [if_neg h1]
      by_cases h2 : a = k
      · rw [if_pos h2, List.mem_cons]
        subst h2
        constructor
        · intro hx; exact ⟨fun hxa => Bytes.lt_ne (h.1 x hx) hxa.symm, Or.inr hx⟩
        · rintro ⟨hx1, hx2 | hx2⟩
          · exact absurd hx2 hx1
          · exact hx2
      · rw [if_neg h2]
        constructor
        · intro hx
          refine ⟨?_, hx⟩
          rcases List.mem_cons.mp hx with hx | hx
          · subst hx; exact h2
          · intro hxk; subst hxk; exact h1 (h.1 x hx)
        · exact fun hx => hx.2

/- ORIGINAL STATEMENT (false of the model for the empty root on a page smaller than 64 bytes:
   `inlineable 0 [] = true` because the scan never runs, but `nodeSize [] = 16 > 0 / 4`):

theorem inlineable_spec (ps : Nat) (l : List (El × Bool)) (h : inlineable ps l = true) :
    (∀ e ∈ l, e.2 = false) ∧ nodeSize (l.map (·.1)) ≤ ps / 4

   The extra hypothesis `hne` below is exactly what is needed: for `l = []` the conclusion
   is `16 ≤ ps / 4`, i.e. `64 ≤ ps` (every real page size is ≥ 512). -/
example : inlineable 0 [] = true ∧ ¬ nodeSize (([] : List (El × Bool)).map (·.1)) ≤ 0 / 4 := by decide

/-- an inlineable root has no nested bucket and fits a quarter page -/
theorem inlineable_spec (ps : Nat) (l : List (El × Bool)) (h : inlineable ps l = true)
    (hne : l ≠ [] ∨ 64 ≤ ps) :
    (∀ e ∈ l, e.2 = false) ∧ nodeSize (l.map (·.1)) ≤ ps / 4 := by
  have hs := inlineableAux_spec (ps / 4) l 16 h
  refine ⟨hs.1, ?_⟩
  cases l with
  | nil => simp only [List.map_nil, nodeSize_nil]; rcases hne with hne | hne
           · exact absurd rfl hne
           · omega
  | cons a r => exact hs.2 (by simp)

/-- non-vacuity -/
example : split 1024 512 6 [(8,100),(8,100),(8,100),(8,100),(8,100),(8,400)] =
    [[(8,100),(8,100),(8,100)],[(8,100),(8,100),(8,400)]] := by
  decide

end Bolt.C04Node
