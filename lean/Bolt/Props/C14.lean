/-
C14 — hot backups are complete, valid snapshots (protocol part).
`Tx.WriteTo` writes two meta pages built from the transaction's own meta and then copies
pages `[2, hwm)` of the reader's version from the file, while other transactions may commit.
-/
import Bolt.Lemmas.Store
namespace Bolt.C14
open Bolt.FL Bolt.Store

/-- what the copy contains for the data pages: the current file content of every page id in
    `[2, r.hwm)` — read at ANY later reachable state (i.e. after any amount of write activity
    since the reader began) -/
def backupDisk (s : St) (r : Version) : List (Pgid × Nat) :=
  (List.range r.hwm).filterMap (fun p => if 2 ≤ p then (diskGet s.disk p).map (fun c => (p, c)) else none)

/-! ### an extra invariant layer: every open reader's pages lie in `[2, hwm)` of its version

A reader's version is a former `cur` (`beginR` copies it), `Inv.used_bd` bounds `cur`, and no
event changes a version once it is pinned (`endR` only removes one). -/

/-- **Reader bounds invariant** (holds in every reachable state, no side condition). -/
def BInv (s : St) : Prop := ∀ r ∈ s.readers, ∀ p ∈ r.used, 2 ≤ p ∧ p < r.hwm

theorem binv_init (k : Kind) : BInv (init k) := fun _ h => (by cases h)

theorem binv_step {s s' : St} {e : Ev} (hi : Inv s) (hb : BInv s) (h : stepAll s e = some s') : BInv s' := by
  cases e with
  | beginR =>
    rw [step_beginR h]
    intro r hr
    rcases List.mem_cons.mp hr with e | m
    · rw [e]; exact hi.used_bd
    · exact hb r m
  | endR t =>
    obtain ⟨v, _, _, rfl⟩ := step_endR h
    exact fun r hr => hb r (List.mem_of_mem_erase hr)
  | beginW => rw [(step_beginW h).2]; exact hb
  | alloc n c =>
    obtain ⟨w, fl', id, _, _, _, h1 | h1⟩ := step_alloc h <;> rw [h1.2] <;> exact hb
  | free id ovf => obtain ⟨w, fl', _, _, _, rfl⟩ := step_free h; exact hb
  | commit => obtain ⟨w, _, rfl⟩ := step_commit h; exact hb
  | rollback => obtain ⟨w, fl', _, _, _, rfl⟩ := step_rollback h; exact hb
  | failedCommit => obtain ⟨w, fl1, fl2, _, _, _, rfl⟩ := step_failedCommit h; exact hb
  | reopen k => obtain ⟨_, _, fl, _, rfl⟩ := step_reopen h; exact hb

theorem binv_run {evs : List Ev} : ∀ {s s' : St}, Inv s → BInv s → runEvs s evs = some s' → BInv s' := by
  induction evs with
  | nil => intro s s' _ hb h; rw [runEvs_nil] at h; exact h ▸ hb
  | cons e es ih =>
    intro s s' hi hb h
    obtain ⟨s1, hs, h1⟩ := runEvs_cons.mp h
    exact ih (inv_step hi hs) (binv_step hi hb hs) h1

/-- every reachable state satisfies the reader bounds invariant -/
theorem reachable_binv {s : St} (hr : Reachable s) : BInv s := by
  obtain ⟨k, evs, h⟩ := hr
  exact binv_run (inv_init k) (binv_init k) h

/-! ### what the copy holds -/

/-- a page listed in the copied range with a stamp in the file has that stamp in the copy
    (`diskGet` takes the first entry with the key; the copy lists each id at most once) -/
theorem diskGet_copy (d : List (Pgid × Nat)) {p c : Nat} (h2 : 2 ≤ p) (hd : diskGet d p = some c) :
    ∀ (l : List Nat), p ∈ l →
      diskGet (l.filterMap (fun q => if 2 ≤ q then (diskGet d q).map (fun c => (q, c)) else none)) p = some c := by
  intro l
  induction l with
  | nil => intro h; cases h
  | cons x xs ih =>
    intro hm
    rw [List.filterMap_cons]
    by_cases hx : x = p
    · subst hx
      simp only [h2, if_true, hd, Option.map_some]
      simp [diskGet]
    · have hm' : p ∈ xs := by
        rcases List.mem_cons.mp hm with e | m
        · exact absurd e.symm hx
        · exact m
      split
      · exact ih hm'
      · rename_i b hb
        have hb1 : b.1 = x := by
          split at hb
          · cases hg : diskGet d x with
            | none => rw [hg] at hb; cases hb
            | some c' =>
              rw [hg] at hb
              simp only [Option.map_some, Option.some.injEq] at hb
              rw [← hb]
          · cases hb
        have hne : (b.1 == p) = false := by rw [hb1]; simpa using hx
        have := ih hm'
        unfold diskGet at this ⊢
        rw [List.find?_cons, hne]
        exact this

theorem diskGet_backupDisk {s : St} {r : Version} {p c : Nat} (h2 : 2 ≤ p) (hlt : p < r.hwm)
    (hd : diskGet s.disk p = some c) : diskGet (backupDisk s r) p = some c :=
  diskGet_copy s.disk h2 hd _ (List.mem_range.mpr hlt)

/-- a version whose pages lie in `[2, hwm)` and that is intact in the file is intact in the copy -/
theorem intact_backupDisk {s : St} {r : Version} (hbd : ∀ p ∈ r.used, 2 ≤ p ∧ p < r.hwm)
    (hin : Intact s.disk r) : Intact (backupDisk s r) r := by
  intro pc hpc
  obtain ⟨h2, hlt⟩ := hbd pc.1 (mem_used_of_mem hpc)
  exact diskGet_backupDisk h2 hlt (hin pc hpc)

/-- the copy has exactly `hwm` pages: every page the version references lies below its
    high-water mark (and above the two meta pages), so `Size() = hwm * pageSize` bytes hold it all -/
theorem backup_covers (s : St) (hr : Reachable s) (hb : s.cur.txid + 2 < maxU64) :
    ∀ r ∈ s.readers, ∀ p ∈ r.used, 2 ≤ p ∧ p < r.hwm :=
  reachable_binv hr

/-- **The backup is the reader's snapshot**: every page of the reader's version is in the copy
    with the stamp it had when that version was committed — whatever was committed, rolled
    back or recycled between the reader's begin and the end of the copy. -/
theorem backup_intact (s : St) (hr : Reachable s) (hb : s.cur.txid + 2 < maxU64) :
    ∀ r ∈ s.readers, Intact (backupDisk s r) r :=
  fun r hrd => intact_backupDisk (backup_covers s hr hb r hrd) ((hr.rinv hb).rdisk r hrd)

/-- the same for a backup of the newest version (a reader that has just begun) -/
theorem backup_of_newest_intact (s : St) (hr : Reachable s) : Intact (backupDisk s s.cur) s.cur :=
  intact_backupDisk hr.inv.used_bd hr.inv.disk

end Bolt.C14
