/-
C08 — a failed commit changes nothing and leaves the database usable.
-/
import Bolt.Lemmas.Store
namespace Bolt.C08
open Bolt.FL Bolt.Store

/-- **A commit that fails before its meta page is written changes nothing**: the newest
    version is unchanged and intact, readers keep their snapshots, accounting is exact again
    (allocated pages are free again, freed pages are referenced again), the writer slot is
    released and the next write transaction can begin. -/
theorem failed_commit_clean (s : St) (hr : Reachable s) (hb : s.cur.txid + 2 < maxU64)
    (w : W) (hw : s.w = some w)
    (s' : St) (h : stepAll s .failedCommit = some s') :
    s'.cur = s.cur ∧ s'.readers = s.readers ∧ s'.w = none ∧
    Intact s'.disk s'.cur ∧ (∀ r ∈ s'.readers, Intact s'.disk r) ∧
    (∀ p ∈ w.allocated, p ∉ s'.cur.used) ∧
    (∀ p, 2 ≤ p → p < s'.cur.hwm → (p ∈ s'.cur.used ∨ p ∈ s'.fl.freeIds ∨ p ∈ s'.fl.pendingIds)) ∧
    (stepAll s' .beginW).isSome := by
  have hi := hr.inv
  have hri := hr.rinv hb
  have hi' := inv_step hi h
  obtain ⟨w', fl1, fl2, hw', h1, h2, rfl⟩ := step_failedCommit h
  rw [hw] at hw'
  cases hw'
  have hna : ∀ p ∈ w.allocated, p ∉ s.cur.used := by
    intro p hp
    rw [← St.allocated_some hw] at hp
    exact (hi.alloc_bd p hp).2.2.1
  refine ⟨rfl, rfl, rfl, hi.disk.write _ _ hna, ?_, hna, ?_, ?_⟩
  · intro r hrd
    apply (hri.rdisk r hrd).write
    intro p hp hpr
    rw [← St.allocated_some hw] at hp
    exact reader_page_not_allocated hi hri hrd hpr hp
  · intro p hp1 hp2
    rcases hi'.cover p hp1 hp2 with hc | hc | hc | hc
    · exact Or.inl hc
    · exact Or.inr (Or.inl hc)
    · exact Or.inr (Or.inr hc)
    · cases hc
  · simp [stepAll, step]

/-- The failure path is always available: the model's `failedCommit` never gets stuck in a
    reachable state with an open writer (no panic in `rollback`). -/
theorem failed_commit_enabled (s : St) (hr : Reachable s) (w : W) (hw : s.w = some w) :
    (stepAll s .failedCommit).isSome :=
  failedCommit_enabled hr.inv hw

/-- A user rollback (nothing allocated yet) restores the allocator exactly. -/
theorem rollback_clean (s : St) (hr : Reachable s) (s' : St) (h : stepAll s .rollback = some s') :
    s'.cur = s.cur ∧ s'.w = none ∧ s'.readers = s.readers ∧ s'.fl.freeIds = s.fl.freeIds := by
  obtain ⟨w, fl', _, _, hrb, rfl⟩ := step_rollback h
  obtain ⟨h1, h2, h3, _⟩ := rollback_frame' hrb
  exact ⟨rfl, rfl, rfl, freeIds_congr h1 h2 h3⟩

end Bolt.C08
