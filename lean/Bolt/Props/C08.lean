/-
C08 — a failed commit changes nothing and leaves the database usable.
-/
import Bolt.Lemmas.Store
namespace Bolt.C08
open Bolt.FL Bolt.Store

/-- **A commit that fails before its meta page is written changes nothing**: the newest
    version is unchanged and intact, readers keep their snapshots, accounting is exact again
    (allocated pages are free again, freed pages are referenced again), the writer slot is
    released and the next write transaction can begin. -/
theorem failed_commit_clean (s : St) (hr : Reachable s) (w : W) (hw : s.w = some w)
    (s' : St) (h : stepAll s .failedCommit = some s') :
    s'.cur = s.cur ∧ s'.readers = s.readers ∧ s'.w = none ∧
    Intact s'.disk s'.cur ∧ (∀ r ∈ s'.readers, Intact s'.disk r) ∧
    (∀ p ∈ w.allocated, p ∉ s'.cur.used) ∧
    (∀ p, 2 ≤ p → p < s'.cur.hwm → (p ∈ s'.cur.used ∨ p ∈ s'.fl.freeIds ∨ p ∈ s'.fl.pendingIds)) ∧
    (stepAll s' .beginW).isSome := by
  sorry

/-- The failure path is always available: the model's `failedCommit` never gets stuck in a
    reachable state with an open writer (no panic in `rollback`). -/
theorem failed_commit_enabled (s : St) (hr : Reachable s) (w : W) (hw : s.w = some w) :
    (stepAll s .failedCommit).isSome := by
  sorry

/-- A user rollback (nothing allocated yet) restores the allocator exactly. -/
theorem rollback_clean (s : St) (hr : Reachable s) (s' : St) (h : stepAll s .rollback = some s') :
    s'.cur = s.cur ∧ s'.w = none ∧ s'.readers = s.readers ∧ s'.fl.freeIds = s.fl.freeIds := by
  sorry

end Bolt.C08
