/-
C13 at tree level — page size, fill percent (split and rebalance thresholds) and the order in
which `Bucket.rebalance` happens to visit its node map change the LAYOUT a commit writes, never
the content: corollaries of `C04Bkt.commitBk_refines` / `commitRoot_refines`.
-/
import Bolt.Props.C04BktRoot
namespace Bolt.C13Tree
open Bolt Bolt.BTree Bolt.Bkt Bolt.C04Bkt

/-- two commits of the same transaction state under different page sizes, split thresholds,
    rebalance thresholds and map orders both succeed and hold the same content -/
theorem layout_parameters_irrelevant (ps ps' sth sth' rth rth' fu : Nat) (orig cur : Bk)
    (order order' : List Nat) (hw : WF fu orig cur) (hf : fuelOk fu fu cur = true)
    (hc : ∀ pg ∈ allMatPgids fu fu cur, pg ∈ order) (hc' : ∀ pg ∈ allMatPgids fu fu cur, pg ∈ order') :
    ∃ a b, commitBk ps sth rth fu order cur = some a ∧ commitBk ps' sth' rth' fu order' cur = some b ∧
      absTop fu orig a = absTop fu orig b := by
  obtain ⟨a, _, ha, haa, _⟩ := commitBk_refines ps sth rth fu orig cur order hw hf hc
  obtain ⟨b, _, hb, hbb, _⟩ := commitBk_refines ps' sth' rth' fu orig cur order' hw hf hc'
  exact ⟨a, b, ha, hb, by rw [haa, hbb]⟩

/-- the same for the transaction's root bucket (the whole database) -/
theorem layout_parameters_irrelevant_root (ps ps' sth sth' rth rth' fu : Nat) (orig cur : Bk)
    (order order' : List Nat) (hw : WF fu orig cur) (hf : fuelOk fu fu cur = true)
    (hc : ∀ pg ∈ allMatPgids fu fu cur, pg ∈ order) (hc' : ∀ pg ∈ allMatPgids fu fu cur, pg ∈ order') :
    ∃ a b, commitRoot ps sth rth fu order cur = some a ∧ commitRoot ps' sth' rth' fu order' cur = some b ∧
      absTop fu orig a = absTop fu orig b := by
  obtain ⟨a, _, ha, haa, _⟩ := commitRoot_refines ps sth rth fu orig cur order hw hf hc
  obtain ⟨b, _, hb, hbb, _⟩ := commitRoot_refines ps' sth' rth' fu orig cur order' hw hf hc'
  exact ⟨a, b, ha, hb, by rw [haa, hbb]⟩

/-- and for a single bucket's tree: the committed content does not depend on the thresholds -/
theorem tree_parameters_irrelevant (ps ps' sth sth' rth rth' fuel : Nat) (t : N) (ops : List Op)
    (order order' : List Nat) (hc : Committed t) (hn : (pgids t).Nodup) (hk : ∀ o ∈ ops, o.ok)
    (hf : C04Tree.fuelBound t ops ≤ fuel)
    (ho : ∀ t1, applyOps fuel t ops = some t1 → ∀ pg ∈ matPgids fuel t1, pg ∈ order)
    (ho' : ∀ t1, applyOps fuel t ops = some t1 → ∀ pg ∈ matPgids fuel t1, pg ∈ order') :
    ∃ a b, commit ps sth rth fuel t ops order = some a ∧ commit ps' sth' rth' fuel t ops order' = some b ∧
      flatten a = flatten b := by
  obtain ⟨a, ha, _, haa⟩ := C04Tree.commit_refines ps sth rth fuel t ops order hc hn hk hf ho
  obtain ⟨b, hb, _, hbb⟩ := C04Tree.commit_refines ps' sth' rth' fuel t ops order' hc hn hk hf ho'
  exact ⟨a, b, ha, hb, by rw [haa, hbb]⟩

end Bolt.C13Tree
