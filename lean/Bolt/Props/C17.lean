/-
C17 — file locks and read-only mode protect the file (lock matrix part).
-/
import Bolt.Model.Flock
namespace Bolt.C17
open Bolt.Flock

/-- every holder of a well-formed lock state: at most one exclusive holder and then nobody
    else; any number of shared holders -/
def WF (s : LockSt) : Prop :=
  (∀ h ∈ s, h.2 = .ex → s = [h]) ∧ (s.map (·.1)).Nodup

theorem wf_nil : WF [] := by
  simp [WF]

/-- **While a database is open read-write, no other open of the same file succeeds** -/
theorem rw_excludes_all (s : LockSt) (id : Nat) (hwf : WF s) (h : (id, Mode.ex) ∈ s)
    (id' : Nat) (hne : id' ≠ id) (ro : Bool) : openDb s id' ro = none := by
  have hs : s = [(id, Mode.ex)] := hwf.1 _ h rfl
  subst hs
  have hne' : ¬ id = id' := fun he => hne he.symm
  cases ro <;> simp [openDb, tryLock, hne']

/-- **Read-only opens coexist** -/
theorem ro_coexist (s : LockSt) (id' : Nat) (hall : ∀ h ∈ s, h.2 = Mode.sh) :
    ∃ s', openDb s id' true = some s' ∧ (id', Mode.sh) ∈ s' := by
  have hc : (s.filter (fun h => h.1 ≠ id')).all (fun h => h.2 == Mode.sh) = true := by
    simp only [List.all_eq_true, List.mem_filter]
    intro h hh
    simp [hall h hh.1]
  refine ⟨(id', Mode.sh) :: s.filter (fun h => h.1 ≠ id'), ?_, List.mem_cons_self⟩
  show tryLock s id' Mode.sh = _
  unfold tryLock
  simp only [hc, if_true]

/-- **Read-only opens exclude read-write opens** -/
theorem ro_excludes_rw (s : LockSt) (id id' : Nat) (h : (id, Mode.sh) ∈ s) (hne : id' ≠ id) :
    openDb s id' false = none := by
  have hm : (id, Mode.sh) ∈ s.filter (fun h => h.1 ≠ id') := by
    simp only [List.mem_filter]
    exact ⟨h, by simpa using Ne.symm hne⟩
  have hnz : (s.filter (fun h => h.1 ≠ id')).isEmpty = false := by
    cases hl : s.filter (fun h => h.1 ≠ id') with
    | nil => rw [hl] at hm; simp at hm
    | cons a r => rfl
  show tryLock s id' Mode.ex = none
  unfold tryLock
  simp only [hnz]
  rfl

/-- **Closing releases the lock**: after the only holder closes, a read-write open succeeds -/
theorem close_releases (id id' : Nat) (m : Mode) :
    ∃ s', openDb (closeDb [(id, m)] id) id' false = some s' := by
  simp [openDb, closeDb, unlock, tryLock]

/-- opening preserves well-formedness -/
theorem open_wf (s s' : LockSt) (id : Nat) (ro : Bool) (hwf : WF s) (hfresh : id ∉ s.map (·.1))
    (h : openDb s id ro = some s') : WF s' := by
  have hf : s.filter (fun h => h.1 ≠ id) = s := by
    apply List.filter_eq_self.mpr
    intro a ha
    have : a.1 ≠ id := fun he => hfresh (by rw [← he]; exact List.mem_map_of_mem ha)
    simpa using this
  cases ro with
  | false =>
    have h' : tryLock s id Mode.ex = some s' := h
    unfold tryLock at h'
    simp only [hf] at h'
    cases hs : s with
    | nil =>
      rw [hs] at h'
      simp only [List.isEmpty_nil, if_true, Option.some.injEq] at h'
      subst h'
      simp [WF]
    | cons a r =>
      rw [hs] at h'
      simp at h'
  | true =>
    have h' : tryLock s id Mode.sh = some s' := h
    unfold tryLock at h'
    simp only [hf] at h'
    by_cases hall : s.all (fun h => h.2 == Mode.sh) = true
    · simp only [hall, if_true, Option.some.injEq] at h'
      subst h'
      simp only [List.all_eq_true] at hall
      constructor
      · intro x hx hex
        simp only [List.mem_cons] at hx
        rcases hx with rfl | hx
        · simp at hex
        · have := hall x hx; simp [hex] at this
      · simp only [List.map_cons, List.nodup_cons]
        exact ⟨hfresh, hwf.2⟩
    · simp only [hall] at h'
      simp at h'

/-- non-vacuity: RW open on a free file, second RW open refused, close, RO + RO granted, RW refused -/
example :
    (openDb [] 1 false).isSome ∧ openDb [(1, .ex)] 2 false = none ∧ openDb [(1, .ex)] 2 true = none ∧
    (openDb (closeDb [(1, .ex)] 1) 2 true).isSome ∧ (openDb [(2, .sh)] 3 true).isSome ∧
    openDb [(3, .sh), (2, .sh)] 4 false = none := by
  decide

end Bolt.C17
