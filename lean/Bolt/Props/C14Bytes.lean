/-
C14 at byte level — `Tx.WriteTo` (`Model/Backup.lean`, tied byte for byte to the real WriteTo by
the `backup` engine).  For every file `f`, page size and transaction meta `m`:
 * the copy is exactly `m.pgid * ps` bytes long — the size the transaction reports;
 * both meta pages of the copy are valid; the first carries exactly the transaction's meta, the
   second the same with the transaction id decremented, so `Open` chooses the first;
 * the data pages are the file's bytes;
 * if the file holds the bucket tree `b` of the transaction's version (all pages below the
   version's high-water mark `m.pgid`), the copy opens and the independent reader extracts from
   it exactly the content of `b`, without a structural error — whatever the file holds in pages
   the version does not reference (later commits, recycled pages).
-/
import Bolt.Model.Backup
import Bolt.Props.C02Tree
import Bolt.Lemmas.Backup
namespace Bolt.C14Bytes
open Bolt Bolt.Backup Bolt.Bkt Bolt.C12Bk

/-- the fields of a transaction's meta fit their widths, the page size is the database's, the
    version holds at least the two meta pages, the transaction id is positive (a database is
    created at txids 0 and 1; `DB.init`) -/
structure MetaOk (ps : Nat) (m : Meta) : Prop where
  magic : m.magic = V2.magic
  version : m.version = V2.version
  pageSize : m.pageSize = ps
  ps80 : 80 ≤ ps
  ps32 : ps < 2^32
  flags : m.flags < 2^32
  root : m.root < 2^64
  seq : m.seq < 2^64
  freelist : m.freelist < 2^64
  pgid2 : 2 ≤ m.pgid
  pgid : m.pgid < 2^64
  txid1 : 1 ≤ m.txid
  txid : m.txid < 2^64

/-- **the copy has exactly the size the transaction reports** -/
theorem backup_size (f : File) (ps : Nat) (m : Meta) (h : MetaOk ps m) :
    (backupFile f ps m).size = m.pgid * ps := by
  unfold backupFile
  rw [BackupL.fileOf_size]
  exact BackupL.backupBytes_length f ps m h.ps80 h.pgid2

/-- **both meta pages of the copy are valid** and carry the transaction's meta (second: txid-1) -/
theorem backup_metas (f : File) (ps : Nat) (m : Meta) (h : MetaOk ps m) :
    metaValid (backupFile f ps m) 16 = true ∧ metaValid (backupFile f ps m) (ps + 16) = true ∧
    metaAt (backupFile f ps m) 16 = { m with checksum := metaSum (backupFile f ps m) 16 } ∧
    metaAt (backupFile f ps m) (ps + 16) =
      { m with txid := m.txid - 1, checksum := metaSum (backupFile f ps m) (ps + 16) } := by
  exact BackupL.backup_metas_aux f ps m h.magic h.version (by rw [h.pageSize]; exact h.ps32) h.ps80
    h.flags h.root h.seq h.freelist h.pgid h.txid1 h.txid

/-- **the data pages are the file's** -/
theorem backup_data (f : File) (ps : Nat) (m : Meta) (h : MetaOk ps m) :
    ∀ i, 2 * ps ≤ i → i < m.pgid * ps → (backupFile f ps m).get i = f.get i := by
  exact BackupL.backup_data_aux f ps m h.ps80

/-- **`Open` on the copy chooses the first meta page** -/
theorem backup_opens (f : File) (ps os : Nat) (m : Meta) (h : MetaOk ps m) (h4 : 4096 ≤ m.pgid * ps) :
    openMeta (backupFile f ps m) os = .ok (ps, 16) := by
  obtain ⟨v0, v1, m0, m1⟩ := backup_metas f ps m h
  have hsz := backup_size f ps m h
  have hps : (backupFile f ps m).u32 24 = ps := by
    have := congrArg Meta.pageSize m0
    simp only [metaAt, Nat.reduceAdd] at this
    exact this.trans h.pageSize
  have t0 : (backupFile f ps m).u64 (16 + 48) = m.txid := by
    have := congrArg Meta.txid m0
    simp only [metaAt] at this
    exact this
  have t1 : (backupFile f ps m).u64 (ps + 16 + 48) = m.txid - 1 := by
    have := congrArg Meta.txid m1
    simp only [metaAt] at this
    exact this
  rw [SurgeryL.openMeta_ok (backupFile f ps m) os ps (by rw [hsz]; exact h4) v0 v1 hps
    (by rw [hsz]; exact BackupL.two_pages_le ps m.pgid h.pgid2), t0, t1, if_neg (by omega)]

/-- **the copy is the transaction's snapshot**: if `f` holds the bucket tree `b` of the
    transaction's version below its high-water mark, the copy opens and decodes to exactly the
    content of `b` with the root bucket's sequence, without a structural error in the tree -/
theorem backup_is_snapshot (f : File) (ps os fu : Nat) (m : Meta) (b : Bk)
    (h : MetaOk ps m) (h4 : 4096 ≤ m.pgid * ps)
    (ho : origShapeOk fu b = true) (hr : b.root ≠ 0) (hroot : m.root = b.root)
    (hl : LaidBk f ps m.pgid fu b) (hfu : fu * (fu + 1) ≤ 64) :
    ∃ d, decodeFile (backupFile f ps m) os = .ok d ∧
      d.content = SVal.bkt m.seq (match absBk b fu [] b with | .bkt _ e => e | .val _ => []) ∧
      d.mt.txid = m.txid ∧ d.mt.pgid = m.pgid ∧
      (decodeTree (backupFile f ps m) ps m.pgid 64 m.root Phys.empty).2.errors = [] := by
  obtain ⟨_, _, m0, _⟩ := backup_metas f ps m h
  have hps : 0 < ps := by have := h.ps80; omega
  have hagree : ∀ i, C02Tree.inBkPages ps fu b i → (backupFile f ps m).get i = f.get i := by
    intro i hi
    obtain ⟨a, c⟩ := BackupL.inBkPages_range f ps m.pgid fu b hl i hi
    exact backup_data f ps m h i a c
  obtain ⟨_, s2, s3⟩ := C02Tree.reader_bucket_view_stable f (backupFile f ps m) ps m.pgid fu 64 b
    Phys.empty hps ho hr hl hfu hagree
  refine ⟨decodeAt (backupFile f ps m) ps 16, ?_, ?_, ?_, ?_, ?_⟩
  · unfold decodeFile
    rw [backup_opens f ps os m h h4]
  · rw [BackupL.decodeAt_content, m0]
    show SVal.bkt m.seq (decodeTree (backupFile f ps m) ps m.pgid 64 m.root Phys.empty).1 = _
    rw [hroot, s2]
    rfl
  · rw [BackupL.decodeAt_mt, m0]
  · rw [BackupL.decodeAt_mt, m0]
  · rw [hroot]
    exact s3

end Bolt.C14Bytes
