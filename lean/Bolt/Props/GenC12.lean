/-
C12 — the struct layouts and constants regenerated from the Go source equal the
published version-2 format (written by hand in `Spec/PublishedV2.lean`).
-/
import Bolt.Gen.Consts
import Bolt.Gen.Layout
import Bolt.Spec.PublishedV2
namespace Bolt.GenC12
open Bolt

/-- field order, offsets and sizes of every on-disk struct -/
theorem layout_is_v2 :
    Gen.metaLayout = V2.metaLayout ∧ Gen.pageLayout = V2.pageLayout ∧
    Gen.branchElemLayout = V2.branchElemLayout ∧ Gen.leafElemLayout = V2.leafElemLayout ∧
    Gen.inBucketLayout = V2.inBucketLayout ∧
    Gen.metaLayoutSize = V2.metaSize ∧ Gen.pageLayoutSize = V2.pageHeaderSize ∧
    Gen.branchElemLayoutSize = V2.elemSize ∧ Gen.leafElemLayoutSize = V2.elemSize ∧
    Gen.inBucketLayoutSize = V2.bucketHeaderSize := by decide

/-- magic, version, flags, header sizes, checksum range, the "no freelist" marker -/
theorem consts_are_v2 :
    Gen.magic = V2.magic ∧ Gen.version = V2.version ∧ Gen.pgidNoFreelist = V2.pgidNoFreelist ∧
    Gen.branchPageFlag = V2.branchPageFlag ∧ Gen.leafPageFlag = V2.leafPageFlag ∧
    Gen.metaPageFlag = V2.metaPageFlag ∧ Gen.freelistPageFlag = V2.freelistPageFlag ∧
    Gen.bucketLeafFlag = V2.bucketLeafFlag ∧ Gen.pageHeaderSize = V2.pageHeaderSize ∧
    Gen.branchPageElementSize = V2.elemSize ∧ Gen.leafPageElementSize = V2.elemSize ∧
    Gen.bucketHeaderSize = V2.bucketHeaderSize ∧ Gen.metaChecksumLen = V2.metaChecksumLen := by decide

end Bolt.GenC12
