/-
C15 on the bucket model — the calls `Compact` makes on the destination (`CreateBucket` +
`SetSequence` for a nested bucket, `Put` for a key, depth first in key order: `Compact.visit`),
as `Call`s on the destination's top bucket.  Applied to an empty top bucket they rebuild exactly
the source content on the reference model, whatever the transaction limit; with
`C04History.history_refines` (a history whose transactions split this call list anywhere) the
destination BUCKET TREE — B+trees, inline/paged buckets, commits — holds the source content.
-/
import Bolt.Props.C15
import Bolt.Props.C04History
import Bolt.Lemmas.CompactBkt
namespace Bolt.C15Bkt
open Bolt Bolt.Bkt Bolt.C04Bkt

mutual
/-- the destination calls for the entries of the bucket at `path` (paths are relative to the
    destination's top bucket; a freshly created bucket is opened by `CreateBucket` itself) -/
def compactCalls (path : List Bytes) : Ents → List Call
  | [] => []
  | (k, .val v) :: rest => Call.put path k v :: compactCalls path rest
  | (k, .bkt s e) :: rest =>
    Call.createBucket path k :: Call.setSequence (path ++ [k]) s :: (compactCalls (path ++ [k]) e ++ compactCalls path rest)
end

/-- `b.Bucket(name)` calls: how `Compact` reaches its position again in a new transaction
    (`tx.Bucket(keys[0]).Bucket(keys[1])…`); they change no content -/
def Call.isOpen : Call → Bool
  | .bucket _ _ => true
  | _ => false

/-- the reference model with an empty top bucket -/
def emptyTop : SVal := .bkt 0 [(topName, .bkt 0 [])]

section Helpers
/-! helper lemmas that mention `compactCalls` / `Call.isOpen` (everything else: `Bolt.CompactBktL`) -/

/-- `compactCalls` is the call list `CompactBktL.calls` the lemmas are proved for -/
theorem compactCalls_eq_calls (ents : Ents) (path : List Bytes) :
    compactCalls path ents = CompactBktL.calls path ents :=
  CompactBktL.calls_unique compactCalls (fun path => by rw [compactCalls])
    (fun path k v rest => by rw [compactCalls]) (fun path k s e rest => by rw [compactCalls]) ents path

/-- a `Bucket` re-open call changes no content -/
theorem specCall_of_isOpen (c : Call) (s : SVal) (h : (!Call.isOpen c) = false) : specCall s c = s := by
  cases c <;> simp [Call.isOpen] at h
  rfl

end Helpers

/-- **the destination calls rebuild the source content** (reference-model level): for every
    well-formed source bucket content `ents` -/
theorem compactCalls_rebuild (ents : Ents)
    (hwf : SWF (.bkt 0 ents)) (hk : KeysOK (.bkt 0 ents)) :
    (compactCalls [] ents).foldl specCall emptyTop = .bkt 0 [(topName, .bkt 0 ents)] := by
  rw [compactCalls_eq_calls]
  exact CompactBktL.calls_rebuild ents hwf hk

/-- **compaction on the bucket model**: any admissible history of destination transactions whose
    calls, concatenated and with the `Bucket` re-open calls left out, are the compaction calls of
    `ents` — i.e. for EVERY way the transaction limit splits them — ends with a destination
    bucket tree holding exactly `ents` -/
theorem compact_history (orig : Bk) (recs : List TxRec) (ents : Ents)
    (h : HistOk orig recs) (h0 : content orig = emptyTop)
    (hcalls : ((recs.map (·.calls)).flatten.filter (fun c => !Call.isOpen c)) = compactCalls [] ents)
    (hwf : SWF (.bkt 0 ents)) (hk : KeysOK (.bkt 0 ents)) :
    content (finalTree orig recs) = .bkt 0 [(topName, .bkt 0 ents)] := by
  have hr : content (finalTree orig recs) = recs.foldl (fun s r => r.calls.foldl specCall s) (content orig) := by
    cases recs with
    | nil => rfl
    | cons r rest => exact history_refines orig (r :: rest) h ⟨r.fu, BktHistoryL.shape_of_origOk r.fu orig h.1⟩
  rw [hr, h0, CompactBktL.foldl_flatten (fun r : TxRec => r.calls) recs emptyTop,
    ← CompactBktL.foldl_filter_neutral (fun c => !Call.isOpen c) (fun c s hc => specCall_of_isOpen c s hc),
    hcalls]
  exact compactCalls_rebuild ents hwf hk

/-- non-vacuity: a nested bucket with a non-zero sequence (holding a value and an empty bucket)
    and two values; the calls, and the state they build -/
example :
    let ents : Ents := [([1], .val [7]), ([2], .bkt 5 [([1], .val [1, 2, 3]), ([9], .bkt 3 [])]), ([3], .val [])]
    SWF (.bkt 0 ents) ∧ KeysOK (.bkt 0 ents) ∧
    compactCalls [] ents =
      [.put [] [1] [7], .createBucket [] [2], .setSequence [[2]] 5, .put [[2]] [1] [1, 2, 3],
       .createBucket [[2]] [9], .setSequence [[2], [9]] 3, .put [] [3] []] ∧
    (compactCalls [] ents).foldl specCall emptyTop = .bkt 0 [(topName, .bkt 0 ents)] := by
  intro ents
  have hwf : SWF (.bkt 0 ents) := by simp [ents, SWF, EntsWF, EntsSorted, Bytes.lt]
  have hk : KeysOK (.bkt 0 ents) := by simp [ents, KeysOK, EntsKeysOK, SVal.isBucket, maxKeySize, maxValueSize]
  exact ⟨hwf, hk, by simp [ents, compactCalls], compactCalls_rebuild ents hwf hk⟩

/-! ### transaction by transaction: the calls `Compact` makes under a limit

`Compact.compactTxs limit ents` (Model/Compact.lean) lists the destination calls grouped by
destination transaction; the harness replays exactly these groups through the real API and
compares the result with what the real `Compact` produced. -/

def toCall : Compact.DstCall → Call
  | .put p k v => .put p k v
  | .createBucket p k => .createBucket p k
  | .setSequence p n => .setSequence p n

section Helpers2
/-! helper lemmas that mention `toCall` (everything else: `Bolt.CompactBktL`) -/

/-- `filter` commutes with `flatten` -/
theorem filter_flatten' {α : Type} (p : α → Bool) : ∀ (l : List (List α)),
    l.flatten.filter p = (l.map (·.filter p)).flatten
  | [] => rfl
  | x :: rest => by
    rw [List.flatten_cons, List.filter_append, List.map_cons, List.flatten_cons, filter_flatten' p rest]

/-- `map` commutes with `flatten` -/
theorem map_flatten' {α β : Type} (f : α → β) : ∀ (l : List (List α)),
    l.flatten.map f = (l.map (·.map f)).flatten
  | [] => rfl
  | x :: rest => by
    rw [List.flatten_cons, List.map_append, List.map_cons, List.flatten_cons, map_flatten' f rest]

end Helpers2

/-- the model's destination calls are the compaction calls -/
theorem compactCalls_eq_dstCalls (path : List Bytes) (ents : Ents) :
    compactCalls path ents = (Compact.dstCalls path ents).map toCall := by
  rw [compactCalls_eq_calls]
  exact (CompactBktL.calls_unique (fun path ents => (Compact.dstCalls path ents).map toCall)
    (fun path => by simp only [Compact.dstCalls, List.map_nil])
    (fun path k v rest => by simp only [Compact.dstCalls, List.map_cons, toCall])
    (fun path k s e rest => by simp only [Compact.dstCalls, List.map_cons, List.map_append, toCall])
    ents path).symm

/-- the transaction limit only GROUPS the calls: whatever the limit, the transactions
    concatenated are the same call list -/
theorem compactTxs_flatten (limit : Nat) (ents : Ents) :
    (Compact.compactTxs limit ents).flatten = Compact.dstCalls [] ents := by
  have := CompactBktL.txEnts_flatten limit ents [] { size := 0, done := [], cur := [] }
  simpa [Compact.compactTxs] using this

/-- the grouping is the one the content-level model `Compact.compact` counts -/
theorem compactTxs_length (limit : Nat) (ents : Ents)
    (hwf : SWF (.bkt 0 ents)) (hr : RootOnlyBuckets (.bkt 0 ents)) (hk : KeysOK (.bkt 0 ents)) :
    (Compact.compactTxs limit ents).length = (Compact.compact limit (.bkt 0 ents)).commits + 1 := by
  have he := (Bolt.C15.compact_preserves limit 0 ents hwf hr hk).1
  rw [Compact.compact] at he ⊢
  have := CompactBktL.txEnts_rel limit ents [] { size := 0, done := [], cur := [] }
    { dst := .bkt 0 [], size := 0, commits := 0, err := none } he ⟨rfl, rfl⟩
  rw [Compact.compactTxs, List.length_append, List.length_singleton, this.2]

/-- **`Compact` under any limit on the bucket model**: a history whose transactions make, one
    for one, the calls of `compactTxs limit ents` (plus `Bucket` re-open calls) ends with a
    destination bucket tree holding exactly `ents` -/
theorem compact_limit_history (limit : Nat) (orig : Bk) (recs : List TxRec) (ents : Ents)
    (h : HistOk orig recs) (h0 : content orig = emptyTop)
    (htx : recs.map (fun r => r.calls.filter (fun c => !Call.isOpen c)) =
      (Compact.compactTxs limit ents).map (·.map toCall))
    (hwf : SWF (.bkt 0 ents)) (hk : KeysOK (.bkt 0 ents)) :
    content (finalTree orig recs) = .bkt 0 [(topName, .bkt 0 ents)] := by
  refine compact_history orig recs ents h h0 ?_ hwf hk
  rw [filter_flatten', List.map_map]
  have hm : ((fun x : List Call => x.filter (fun c => !Call.isOpen c)) ∘ fun r : TxRec => r.calls) =
      fun r : TxRec => r.calls.filter (fun c => !Call.isOpen c) := rfl
  rw [hm, htx, ← map_flatten', compactTxs_flatten, compactCalls_eq_dstCalls]

/-- non-vacuity: with limit 3 the calls for a nested bucket are split into several destination
    transactions (one of the splits inside the nested bucket) -/
example :
    let ents : Ents := [([1], .val [7]), ([2], .bkt 5 [([1], .val [1, 2, 3]), ([9], .bkt 3 [])]), ([3], .val [])]
    Compact.compactTxs 3 ents =
      [[.put [] [1] [7], .createBucket [] [2], .setSequence [[2]] 5],
       [.put [[2]] [1] [1, 2, 3]],
       [.createBucket [[2]] [9], .setSequence [[2], [9]] 3, .put [] [3] []]] ∧
    (Compact.compactTxs 3 ents).length > 1 := by
  intro ents
  have h : Compact.compactTxs 3 ents =
      [[.put [] [1] [7], .createBucket [] [2], .setSequence [[2]] 5],
       [.put [[2]] [1] [1, 2, 3]],
       [.createBucket [[2]] [9], .setSequence [[2], [9]] 3, .put [] [3] []]] := by
    simp [ents, Compact.compactTxs, Compact.txEnts, Compact.txVisit]
  exact ⟨h, by rw [h]; decide⟩

end Bolt.C15Bkt
