/-
C07 at tree level — which pages of the old tree the committed tree still references.  Nodes
the commit wrote are new pages (`pgid = 0` in the model); every other node is a page of the
old tree that was never materialised.  The committed tree references each old page at most
once and no page that was not in the old tree: together with `C04Tree.commit_refines` this is
the tree-level half of "every page accounted for exactly once" (the `btree` engine checks the
other half on the real code: the old pages that do not survive are exactly the pages the
transaction freed, each once).
-/
import Bolt.Props.C04Tree
import Bolt.Lemmas.BTreePages
namespace Bolt.C07Tree
open Bolt Bolt.BTree

/-- page ids of the old pages a tree still references (0 = newly written) -/
def keptPgids (t : N) : List Nat := (pgids t).filter (· ≠ 0)

/-- **no old page is referenced twice, no foreign page is referenced** -/
theorem commit_keeps_old_pages (ps sth rth fuel : Nat) (t t' : N) (ops : List Op) (order : List Nat)
    (hc : Committed t) (hn : (pgids t).Nodup) (hk : ∀ o ∈ ops, o.ok)
    (hf : C04Tree.fuelBound t ops ≤ fuel)
    (h : commit ps sth rth fuel t ops order = some t') :
    (keptPgids t').Nodup ∧ ∀ pg ∈ keptPgids t', pg ∈ pgids t := by
  sorry

/-- an untouched subtree keeps its pages: with no operations nothing is rewritten at all -/
theorem no_ops_keeps_all (ps sth rth fuel : Nat) (t : N) (order : List Nat) (hc : Committed t) :
    (commit ps sth rth fuel t [] order).map pgids = some (pgids t) := by
  sorry

end Bolt.C07Tree
