/-
C07 at tree level — which pages of the old tree the committed tree still references.  Nodes
the commit wrote are new pages (`pgid = 0` in the model); every other node is a page of the
old tree that was never materialised.  The committed tree references each old page at most
once and no page that was not in the old tree: together with `C04Tree.commit_refines` this is
the tree-level half of "every page accounted for exactly once" (the `btree` engine checks the
other half on the real code: the old pages that do not survive are exactly the pages the
transaction freed, each once).
-/
import Bolt.Props.C04Tree
import Bolt.Lemmas.BTreePages
namespace Bolt.C07Tree
open Bolt Bolt.BTree

/-- page ids of the old pages a tree still references (0 = newly written) -/
def keptPgids (t : N) : List Nat := (pgids t).filter (· ≠ 0)

/-- **no old page is referenced twice, no foreign page is referenced** -/
theorem commit_keeps_old_pages (ps sth rth fuel : Nat) (t t' : N) (ops : List Op) (order : List Nat)
    (hc : Committed t) (hn : (pgids t).Nodup) (hk : ∀ o ∈ ops, o.ok)
    (hf : C04Tree.fuelBound t ops ≤ fuel)
    (h : commit ps sth rth fuel t ops order = some t') :
    (keptPgids t').Nodup ∧ ∀ pg ∈ keptPgids t', pg ∈ pgids t := by
  have hdt : depth t ≤ fuel := by unfold C04Tree.fuelBound at hf; omega
  unfold commit at h
  obtain ⟨t1, h1, h⟩ := Option.bind_eq_some_iff.mp h
  obtain ⟨t2, h2, h3⟩ := Option.bind_eq_some_iff.mp h
  -- Put/Delete keep the page ids
  have hp1 : pgids t1 = pgids t := C04Tree.applyOps_pgids fuel t t1 ops h1
  have hr1 : InTxR t1 := C04Tree.applyOps_inTxR fuel t t1 ops hc hk hdt h1
  -- rebalance only drops page ids
  obtain ⟨t2', h2', hr2, _, _⟩ := C04Tree.rebalanceAll_refines rth fuel t1 order hr1
  rw [h2] at h2'
  cases h2'
  have hs2 : (pgids t2).Sublist (pgids t) :=
    hp1 ▸ PagesL.rebalanceAll_sub rth fuel order t1 t2 (by rw [hp1]; exact hn) h2
  -- spill keeps the pages, everything else is new
  have hs3 : (keptPgids t').Sublist (PagesL.Kp (pgids t2)) :=
    PagesL.spillRoot_pg ps sth fuel t2 t' (C04Tree.inTxR_inTx t2 hr2) h3
  have hs : (keptPgids t').Sublist (pgids t) :=
    (hs3.trans (List.filter_sublist (l := pgids t2))).trans hs2
  exact ⟨List.Nodup.sublist hs hn, fun pg hpg => hs.subset hpg⟩

/-- an untouched subtree keeps its pages: with no operations nothing is rewritten at all -/
theorem no_ops_keeps_all (ps sth rth fuel : Nat) (t : N) (order : List Nat) (hc : Committed t) :
    (commit ps sth rth fuel t [] order).map pgids = some (pgids t) := by
  rw [C04Tree.commit_no_ops ps sth rth fuel t order hc]
  rfl

/-- non-vacuity: in the example transaction of `C04Tree` (one leaf emptied and merged away, one
    leaf overfilled and split, new root) exactly the untouched leaf (page 5) survives -/
example : (commit 256 128 64 20 C04Tree.exTree
      [.del [10], .del [11], .put [4] [7], .put [5] [7], .put [6] [7], .put [7] [7]] [4, 3, 9, 5]).map
        (fun t' => (pgids t', keptPgids t')) = some ([0, 0, 0, 5], [5]) := by
  decide

end Bolt.C07Tree
