/-
C11 — Open survives one damaged meta page and rejects non-databases.
Property theorems only; helper lemmas live in `Bolt/Lemmas`.
-/
import Bolt.Lemmas.File
namespace Bolt.C11
open Bolt

/-- **Every** single-byte alteration of the 64-byte meta struct (magic, version,
    checksummed content, or the stored checksum itself), to **every** other value,
    makes `Validate` fail. Quantifies over all files, positions and byte values. -/
theorem metaValid_damaged (f : File) (off p : Nat) (v : UInt8)
    (hvalid : metaValid f off = true) (hlo : off ≤ p) (hhi : p < off + 64)
    (hv : v ≠ f.get p) : metaValid (f.set p v) off = false := by
  obtain ⟨k, rfl⟩ : ∃ k, p = off + k := ⟨p - off, by omega⟩
  have hk : k < 64 := by omega
  simp only [metaValid, Bool.and_eq_true, beq_iff_eq] at hvalid
  obtain ⟨⟨_, _⟩, hsum⟩ := hvalid
  by_cases hc : k < 56
  · -- inside the checksummed range: the FNV-1a sum changes, the stored sum does not
    have hstored : (f.set (off + k) v).u64 (off + 56) = f.u64 (off + 56) := by
      simp only [File.u64]; rw [File.read_set_outside]; omega
    have hsumne : metaSum (f.set (off + k) v) off ≠ metaSum f off := by
      simp only [metaSum, V2.metaChecksumLen]
      rw [File.read_set_inside f v off 56 k hc, File.read_split f off 56 k hc]
      intro h
      exact fnv_single_byte _ _ _ _ hv (BitVec.eq_of_toNat_eq h)
    simp only [metaValid, Bool.and_eq_false_iff, beq_eq_false_iff_ne]
    right; rw [hstored, hsum]; exact fun h => hsumne h.symm
  · -- inside the stored checksum: the stored sum changes, the computed one does not
    obtain ⟨j, rfl⟩ : ∃ j, k = 56 + j := ⟨k - 56, by omega⟩
    have hsame : metaSum (f.set (off + (56 + j)) v) off = metaSum f off := by
      simp only [metaSum, V2.metaChecksumLen]; rw [File.read_set_outside]; omega
    have hne : (f.set (off + (56 + j)) v).u64 (off + 56) ≠ f.u64 (off + 56) := by
      simp only [File.u64]
      apply getLE_ne_of_ne (by simp)
      have := File.read_set_ne f v (off + 56) 8 j (by omega) (by rwa [Nat.add_assoc])
      rwa [Nat.add_assoc] at this
    simp only [metaValid, Bool.and_eq_false_iff, beq_eq_false_iff_ne]
    right; rw [hsame, ← hsum]; exact hne

/-- Damage outside a meta struct does not affect its validity. -/
theorem metaValid_untouched (f : File) (off p : Nat) (v : UInt8)
    (h : p < off ∨ off + 64 ≤ p) : metaValid (f.set p v) off = metaValid f off := by
  simp only [metaValid, metaSum, File.u32, File.u64, V2.metaChecksumLen]
  rw [File.read_set_outside _ _ _ off 4 (by omega), File.read_set_outside _ _ _ (off+4) 4 (by omega),
      File.read_set_outside _ _ _ (off+56) 8 (by omega), File.read_set_outside _ _ _ off 56 (by omega)]

/-- `DB.meta()` with exactly one damaged meta returns the other one — whichever of
    the two carries the higher transaction id. -/
theorem pickMeta_one_damaged (f : File) (offD offG : Nat)
    (hbad : metaValid f offD = false) (hgood : metaValid f offG = true) :
    pickMeta f offD offG = some offG ∧ pickMeta f offG offD = some offG := by
  constructor <;> (unfold pickMeta; split <;> simp [hbad, hgood])

/-- Both damaged: never a meta, hence `DB.mmap` returns an error (no panic in `DB.meta`). -/
theorem pickMeta_both_damaged (f : File) (a b : Nat)
    (ha : metaValid f a = false) (hb : metaValid f b = false) : pickMeta f a b = none := by
  unfold pickMeta; split <;> simp [ha, hb]

theorem open_both_damaged_is_error (f : File) (os : Nat)
    (h : ∀ ps, getPageSize f os = .ok ps → metaValid f 16 = false ∧ metaValid f (ps+16) = false) :
    ∃ e, openMeta f os = .error e := by
  unfold openMeta
  cases hg : getPageSize f os with
  | error e => exact ⟨e, rfl⟩
  | ok ps =>
    obtain ⟨h0, h1⟩ := h ps hg
    simp only
    split
    · exact ⟨_, rfl⟩
    · simp [h0, h1]

/-- Files too small to hold a readable meta location are rejected. -/
theorem open_small_file_is_error (f : File) (os : Nat) (h : f.size ≤ 2048) :
    openMeta f os = .error .invalid := by
  have h1 : pageSizeFromFirst f = none := by
    unfold pageSizeFromFirst; rw [if_neg]; omega
  have h2 : pageSizeFromSecond f = none := by
    unfold pageSizeFromSecond pageSizeFromSecondAux
    rw [if_neg]; simp; omega
  unfold openMeta getPageSize
  rw [h1, h2]
  have : ¬ (4096 ≤ f.size ∨ 2048 < f.size) := by omega
  simp [this]

/-- The second-meta probe finds a valid meta at page size `1024 <<< k` provided no
    earlier probe offset validates. -/
theorem pageSizeFromSecondAux_finds (f : File) (k : Nat) :
    ∀ (fuel i : Nat), i ≤ k → k < i + fuel →
    (1024 <<< k) + 1024 < f.size →
    metaValid f ((1024 <<< k) + 16) = true →
    (∀ j, i ≤ j → j < k → metaValid f ((1024 <<< j) + 16) = false) →
    pageSizeFromSecondAux f fuel i = some (f.u32 ((1024 <<< k) + 16 + 8)) := by
  intro fuel
  induction fuel with
  | zero => intro i h1 h2; omega
  | succ fuel ih =>
    intro i hik hfuel hsz hv hbad
    unfold pageSizeFromSecondAux
    by_cases heq : i = k
    · subst heq; simp [hsz, hv]
    · have hlt : i < k := by omega
      have hmono : 1024 <<< i ≤ 1024 <<< k := by
        simp only [Nat.shiftLeft_eq]
        exact Nat.mul_le_mul_left _ (Nat.pow_le_pow_right (by omega) (by omega))
      have : (1024 <<< i) + 1024 < f.size := by omega
      simp only [this, if_true, hbad i (Nat.le_refl _) hlt]
      exact ih (i+1) (by omega) (by omega) hsz hv (fun j h1 h2 => hbad j (by omega) h2)

/-- A cleanly written file with page size `ps = 1024 <<< k`: both metas valid and
    recording `ps`; the rest of page 0 after the meta struct is zero (what `init`,
    `writeMeta` and `WriteTo` produce — checked on every real file by the harness). -/
structure CleanFile (f : File) (k : Nat) : Prop where
  k_le : k ≤ 14
  size_ok : 4 * (1024 <<< k) ≤ f.size
  valid0 : metaValid f 16 = true
  valid1 : metaValid f ((1024 <<< k) + 16) = true
  ps0 : f.u32 (16 + 8) = 1024 <<< k
  ps1 : f.u32 ((1024 <<< k) + 16 + 8) = 1024 <<< k
  zero_tail : ∀ p, 80 ≤ p → p < 1024 <<< k → f.get p = 0

theorem read_zero (f : File) (off n : Nat) (h : ∀ p, off ≤ p → p < off + n → f.get p = 0) :
    f.read off n = List.replicate n 0 := by
  simp only [File.read]
  apply List.ext_getElem (by simp)
  intro i h1 h2
  simp only [List.getElem_map, List.getElem_range, List.getElem_replicate]
  exact h _ (by omega) (by simp at h1; omega)

/-- A probe that lands in the zero tail of page 0 never validates (magic is 0). -/
theorem zero_probe_invalid (f : File) (off : Nat) (h : ∀ p, off ≤ p → p < off + 4 → f.get p = 0) :
    metaValid f off = false := by
  have : f.u32 off = 0 := by
    simp only [File.u32, read_zero f off 4 h]; decide
  simp [metaValid, this, V2.magic]

/-- **Page-size detection with meta 0 damaged**, for every page size `1024 <<< k`,
    `k ≤ 14`, every damaged byte position and every value: `Open` still detects the
    page size from meta 1 and selects meta 1. -/
theorem open_meta0_damaged (f : File) (k : Nat) (os : Nat) (hc : CleanFile f k)
    (p : Nat) (v : UInt8) (hlo : 16 ≤ p) (hhi : p < 80) (hv : v ≠ f.get p) :
    openMeta (f.set p v) os = .ok (1024 <<< k, (1024 <<< k) + 16) := by
  have hps : 1024 ≤ 1024 <<< k := by
    simp only [Nat.shiftLeft_eq]; exact Nat.le_mul_of_pos_right _ (Nat.pow_pos (by omega))
  have hbad0 : metaValid (f.set p v) 16 = false :=
    C11.metaValid_damaged f 16 p v hc.valid0 hlo (by omega) hv
  have hgood1 : metaValid (f.set p v) ((1024 <<< k) + 16) = true := by
    rw [metaValid_untouched _ _ _ _ (by omega)]; exact hc.valid1
  have hfirst : pageSizeFromFirst (f.set p v) = none := by
    unfold pageSizeFromFirst; simp [hbad0]
  have hps1 : (f.set p v).u32 ((1024 <<< k) + 16 + 8) = 1024 <<< k := by
    simp only [File.u32]; rw [File.read_set_outside _ _ _ _ _ (by omega)]; exact hc.ps1
  have hsecond : pageSizeFromSecond (f.set p v) = some (1024 <<< k) := by
    unfold pageSizeFromSecond
    rw [pageSizeFromSecondAux_finds (f.set p v) k 15 0 (by omega) (by have := hc.k_le; omega)
        (by have := hc.size_ok; simp only [File.set_size]; omega) hgood1, hps1]
    intro j _ hj
    have hlt : 1024 <<< j < 1024 <<< k := by
      simp only [Nat.shiftLeft_eq]
      exact Nat.mul_lt_mul_of_pos_left (Nat.pow_lt_pow_right (by omega) hj) (by omega)
    have hge : 1024 ≤ 1024 <<< j := by
      simp only [Nat.shiftLeft_eq]; exact Nat.le_mul_of_pos_right _ (Nat.pow_pos (by omega))
    have hstep : (1024 <<< j) + 1024 ≤ 1024 <<< k := by
      -- 1024·2^j + 1024 ≤ 1024·2^(j+1) ≤ 1024·2^k
      have h2 : 1024 <<< (j+1) ≤ 1024 <<< k := by
        simp only [Nat.shiftLeft_eq]
        exact Nat.mul_le_mul_left _ (Nat.pow_le_pow_right (by omega) (by omega))
      have h3 : 1024 <<< (j+1) = 2 * (1024 <<< j) := by
        simp only [Nat.shiftLeft_eq, Nat.pow_succ]; omega
      omega
    apply zero_probe_invalid
    intro q hq1 hq2
    have hqp : q ≠ p := by omega
    simp only [File.set, hqp, if_false]
    exact hc.zero_tail q (by omega) (by omega)
  have hsz : ¬ (f.set p v).size < (1024 <<< k) * 2 := by
    have := hc.size_ok; simp only [File.set_size]; omega
  unfold openMeta getPageSize
  rw [hfirst, hsecond]
  simp only [hsz, if_false, hbad0, hgood1]
  have := (pickMeta_one_damaged (f.set p v) 16 ((1024 <<< k) + 16) hbad0 hgood1).1
  simp [this]

/-- **Meta 1 damaged**: page size comes from meta 0 and meta 0 is selected. -/
theorem open_meta1_damaged (f : File) (k : Nat) (os : Nat) (hc : CleanFile f k)
    (p : Nat) (v : UInt8) (hlo : (1024 <<< k) + 16 ≤ p) (hhi : p < (1024 <<< k) + 80)
    (hv : v ≠ f.get p) :
    openMeta (f.set p v) os = .ok (1024 <<< k, 16) := by
  have hps : 1024 ≤ 1024 <<< k := by
    simp only [Nat.shiftLeft_eq]; exact Nat.le_mul_of_pos_right _ (Nat.pow_pos (by omega))
  have hbad1 : metaValid (f.set p v) ((1024 <<< k) + 16) = false :=
    C11.metaValid_damaged f _ p v hc.valid1 hlo (by omega) hv
  have hgood0 : metaValid (f.set p v) 16 = true := by
    rw [metaValid_untouched _ _ _ _ (by omega)]; exact hc.valid0
  have hps0 : (f.set p v).u32 (16 + 8) = 1024 <<< k := by
    simp only [File.u32]; rw [File.read_set_outside _ _ _ _ _ (by omega)]; exact hc.ps0
  have hfirst : pageSizeFromFirst (f.set p v) = some (1024 <<< k) := by
    unfold pageSizeFromFirst
    have : 4096 ≤ f.size := by have := hc.size_ok; omega
    simp [this, hgood0, hps0]
  have hsz : ¬ (f.set p v).size < (1024 <<< k) * 2 := by
    have := hc.size_ok; simp only [File.set_size]; omega
  unfold openMeta getPageSize
  rw [hfirst]
  simp only [hsz, if_false, hbad1, hgood0]
  have := (pickMeta_one_damaged (f.set p v) ((1024 <<< k) + 16) 16 hbad1 hgood0).2
  simp [this]

end Bolt.C11
