/-
C03 — write transactions are serial (lock discipline part).
-/
import Bolt.Model.Locks
import Bolt.Lemmas.Locks
set_option linter.unusedVariables false
namespace Bolt.C03
open Bolt.Locks

/-- goroutine `i` is inside a write transaction: it has set `db.rwtx` and not yet cleared it -/
def InWriter (s : St) (i : Nat) : Prop := s.rwtx = some i

/-- **At most one write transaction is open at a time**: whoever has `db.rwtx` set holds
    `rwlock`, for every number of goroutines, every assignment of programs and every
    schedule. -/
theorem one_writer (ps : List (List Act)) (hps : ∀ p ∈ ps, p ∈ programs)
    (s : St) (h : Reach (start ps) s) (i : Nat) (hw : InWriter s i) : s.rw = some i := by
  have I := inv_reach ps hps s h
  have htx := I.rwtx i hw
  exact (I.rw i).2 (good_of_check _ tbl_tx_rw _ (good_P I i) htx)

/-- `rwlock` has at most one holder and only the holder is between `beginRWTx` and `tx.close`. -/
theorem rwtx_unique (ps : List (List Act)) (hps : ∀ p ∈ ps, p ∈ programs)
    (s : St) (h : Reach (start ps) s) (i j : Nat) (hi : InWriter s i) (hj : InWriter s j) : i = j := by
  unfold InWriter at hi hj
  exact Option.some.inj (hi.symm.trans hj)

/-- **No lock is leaked**: when every goroutine has finished its program — by commit,
    rollback, failed commit, early error or close — every lock is free and `db.rwtx` is nil,
    so the next writer is never blocked by a finished transaction. -/
theorem all_released (ps : List (List Act)) (hps : ∀ p ∈ ps, p ∈ programs)
    (s : St) (h : Reach (start ps) s) (hdone : ∀ p ∈ s.progs, p = []) :
    s.rw = none ∧ s.mt = none ∧ s.stat = none ∧ s.mmapW = none ∧ s.mmapR = [] ∧ s.rwtx = none := by
  have I := inv_reach ps hps s h
  have hP : ∀ j, P s j = [] := by
    intro j
    unfold P
    cases hj : s.progs[j]? with
    | none => rfl
    | some r => exact hdone r (List.mem_of_getElem? hj)
  have hf : ∀ lk ul j, ¬ firstIs lk ul (P s j) = true := by
    intro lk ul j; rw [hP j]; simp [firstIs]
  refine ⟨?_, ?_, ?_, ?_, ?_, ?_⟩
  · cases hv : s.rw with
    | none => rfl
    | some k => exact absurd ((I.rw k).1 hv) (hf _ _ k)
  · cases hv : s.mt with
    | none => rfl
    | some k => exact absurd ((I.mt k).1 hv) (hf _ _ k)
  · cases hv : s.stat with
    | none => rfl
    | some k => exact absurd ((I.stat k).1 hv) (hf _ _ k)
  · cases hv : s.mmapW with
    | none => rfl
    | some k => exact absurd ((I.mmapW k).1 hv) (hf _ _ k)
  · cases hv : s.mmapR with
    | nil => rfl
    | cons k tl => exact absurd ((I.rmem k).1 (by rw [hv]; exact List.mem_cons_self)) (hf _ _ k)
  · cases hv : s.rwtx with
    | none => rfl
    | some k => exact absurd (I.rwtx k hv) (hf _ _ k)

/-- **No lost wake-up / no deadlock** (goroutines running one transaction at a time): in
    every reachable state in which some goroutine has not finished, some goroutine can take
    a step. -/
theorem deadlock_free (ps : List (List Act)) (hps : ∀ p ∈ ps, p ∈ programs)
    (s : St) (h : Reach (start ps) s) (hlive : ∃ p ∈ s.progs, p ≠ []) :
    ∃ i s', step s i = some s' := by
  exact progress (inv_reach ps hps s h) hlive

/-- a blocked `beginRWTx` is enabled whenever no writer holds `rwlock` -/
theorem writer_admitted_when_free (s : St) (i : Nat) (rest : List Act)
    (hp : s.progs[i]? = some (.lockRw :: rest)) (hfree : s.rw = none) : (step s i).isSome := by
  unfold step
  rw [hp]
  simp [enabled, hfree]

/-- readers never wait for the writer lock: no program of a read transaction contains it -/
theorem readers_do_not_take_rwlock : Act.lockRw ∉ reader ∧ Act.lockRw ∉ readerFail ∧ Act.lockRw ∉ stats := by
  decide

/-- non-vacuity: a concrete schedule of a reader, two writers (one remapping) and a close
    runs to completion -/
example : ∃ s, Reach (start [reader, writerCommit, writerCommitRemap, closeDb]) s ∧ ∀ p ∈ s.progs, p = [] := by
  refine ⟨{ progs := [[], [], [], []], rw := none, mt := none, stat := none, mmapW := none, mmapR := [], rwtx := none },
    reach_run _ -- an interleaved (round-robin over the enabled goroutines) schedule
      [0, 1, 0, 0, 1, 0, 1, 0, 1, 0, 1, 1, 0, 1, 0, 1, 2, 0, 2, 0, 1, 2, 1, 2, 2, 2, 2, 2, 2, 2, 3, 2, 3, 2, 3, 3, 3, 3] _ _ .refl ?_, ?_⟩
  · decide
  · decide

end Bolt.C03
