/-
C03 — write transactions are serial (lock discipline part).
-/
import Bolt.Model.Locks
namespace Bolt.C03
open Bolt.Locks

/-- goroutine `i` is inside a write transaction: it has set `db.rwtx` and not yet cleared it -/
def InWriter (s : St) (i : Nat) : Prop := s.rwtx = some i

/-- **At most one write transaction is open at a time**: whoever has `db.rwtx` set holds
    `rwlock`, for every number of goroutines, every assignment of programs and every
    schedule. -/
theorem one_writer (ps : List (List Act)) (hps : ∀ p ∈ ps, p ∈ programs)
    (s : St) (h : Reach (start ps) s) (i : Nat) (hw : InWriter s i) : s.rw = some i := by
  sorry

/-- `rwlock` has at most one holder and only the holder is between `beginRWTx` and `tx.close`. -/
theorem rwtx_unique (ps : List (List Act)) (hps : ∀ p ∈ ps, p ∈ programs)
    (s : St) (h : Reach (start ps) s) (i j : Nat) (hi : InWriter s i) (hj : InWriter s j) : i = j := by
  sorry

/-- **No lock is leaked**: when every goroutine has finished its program — by commit,
    rollback, failed commit, early error or close — every lock is free and `db.rwtx` is nil,
    so the next writer is never blocked by a finished transaction. -/
theorem all_released (ps : List (List Act)) (hps : ∀ p ∈ ps, p ∈ programs)
    (s : St) (h : Reach (start ps) s) (hdone : ∀ p ∈ s.progs, p = []) :
    s.rw = none ∧ s.mt = none ∧ s.stat = none ∧ s.mmapW = none ∧ s.mmapR = [] ∧ s.rwtx = none := by
  sorry

/-- **No lost wake-up / no deadlock** (goroutines running one transaction at a time): in
    every reachable state in which some goroutine has not finished, some goroutine can take
    a step. -/
theorem deadlock_free (ps : List (List Act)) (hps : ∀ p ∈ ps, p ∈ programs)
    (s : St) (h : Reach (start ps) s) (hlive : ∃ p ∈ s.progs, p ≠ []) :
    ∃ i s', step s i = some s' := by
  sorry

/-- a blocked `beginRWTx` is enabled whenever no writer holds `rwlock` -/
theorem writer_admitted_when_free (s : St) (i : Nat) (rest : List Act)
    (hp : s.progs[i]? = some (.lockRw :: rest)) (hfree : s.rw = none) : (step s i).isSome := by
  sorry

/-- readers never wait for the writer lock: no program of a read transaction contains it -/
theorem readers_do_not_take_rwlock : Act.lockRw ∉ reader ∧ Act.lockRw ∉ readerFail ∧ Act.lockRw ∉ stats := by
  sorry

/-- non-vacuity: a concrete schedule of a reader, two writers (one remapping) and a close
    runs to completion -/
example : ∃ s, Reach (start [reader, writerCommit, writerCommitRemap, closeDb]) s ∧ ∀ p ∈ s.progs, p = [] := by
  sorry

end Bolt.C03
