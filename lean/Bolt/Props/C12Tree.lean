/-
C12/C07 — the independent reader on a whole tree.  If a file holds, at page `pgid * pageSize`,
the image that `node.write` produces (`Enc.leafPage` / `Enc.branchPage`, the writers that the
`format` engine ties byte for byte to real files) of every node of a committed tree — each node
at the page id it carries, children referenced by their page ids — then the version-2 reader
`Format.decodeTree` started at the root's page returns exactly the tree's content, in order, and
reports NO structural error and exactly the tree's pages.  Together with
`C04Tree.commit_refines` (the committed tree is well-formed and holds the specified content)
this closes the chain  reference model ⟸ bucket/tree model ⟸ pages ⟸ bytes  inside Lean.
Plain-key trees (no nested bucket elements).
-/
import Bolt.Model.Encode
import Bolt.Model.BTreeInv
import Bolt.Props.C12Node
import Bolt.Lemmas.FormatTree
namespace Bolt.C12Tree
open Bolt Bolt.BTree Bolt.Node

/-- overflow count of the page span `node.spill` allocates for a node -/
def ovfOf (ps : Nat) (n : N) : Nat := (n.size + ps - 1) / ps - 1

/-- the bytes `node.write` produces for a node whose children sit on the pages they carry -/
def imageOf (ps : Nat) : N → Bytes
  | .leaf h items => Enc.leafPage h.pgid (ovfOf ps (.leaf h items)) (items.map C12Node.toLeafElem)
  | .branch h kids =>
    Enc.branchPage h.pgid (ovfOf ps (.branch h kids))
      (kids.map (fun p => ({ key := p.1, pgid := p.2.hd.pgid } : BranchElem)))

/-- the file agrees with `img` from offset `off` on -/
def Holds (f : File) (off : Nat) (img : Bytes) : Prop := ∀ i, i < img.length → f.get (off + i) = img.getD i 0

mutual
/-- every node of the tree is laid out in the file at its own page id -/
def Laid (f : File) (ps : Nat) : N → Prop
  | .leaf h items => Holds f (h.pgid * ps) (imageOf ps (.leaf h items))
  | .branch h kids => Holds f (h.pgid * ps) (imageOf ps (.branch h kids)) ∧ LaidKids f ps kids
def LaidKids (f : File) (ps : Nat) : List (Bytes × N) → Prop
  | [] => True
  | (_, c) :: r => Laid f ps c ∧ LaidKids f ps r
end

mutual
/-- the format's field widths and the page range: ids in `[2, hwm)` with their span, at most
    65534 elements per node, page spans below 2^32 bytes, no nested-bucket element -/
def Fits (ps hwm : Nat) : N → Prop
  | .leaf h items =>
    2 ≤ h.pgid ∧ h.pgid + ovfOf ps (.leaf h items) < hwm ∧ hwm < 2^64 ∧ items.length < 0xFFFF ∧
    (ovfOf ps (.leaf h items) + 1) * ps < 2^32 ∧ ∀ i ∈ items, i.flags % 2 = 0 ∧ i.flags < 2^32
  | .branch h kids =>
    2 ≤ h.pgid ∧ h.pgid + ovfOf ps (.branch h kids) < hwm ∧ hwm < 2^64 ∧ kids.length < 0xFFFF ∧
    (ovfOf ps (.branch h kids) + 1) * ps < 2^32 ∧ FitsKids ps hwm kids
def FitsKids (ps hwm : Nat) : List (Bytes × N) → Prop
  | [] => True
  | (_, c) :: r => Fits ps hwm c ∧ FitsKids ps hwm r
end

mutual
/-- pages of the tree in the reader's visit order: (page id, overflow, type flag) -/
def pagesOf (ps : Nat) : N → List (Nat × Nat × Nat)
  | .leaf h items => [(h.pgid, ovfOf ps (.leaf h items), V2.leafPageFlag)]
  | .branch h kids => (h.pgid, ovfOf ps (.branch h kids), V2.branchPageFlag) :: pagesOfKids ps kids
def pagesOfKids (ps : Nat) : List (Bytes × N) → List (Nat × Nat × Nat)
  | [] => []
  | (_, c) :: r => pagesOf ps c ++ pagesOfKids ps r
end

/-- **the reader returns the tree**: content in order, no error, exactly the tree's pages -/
theorem decode_laid (f : File) (ps hwm fuel : Nat) (t : N) (ph : Phys)
    (hps : 0 < ps) (hl : Laid f ps t) (hf : Fits ps hwm t) (hc : Committed t) (hd : depth t ≤ fuel) :
    decodeTree f ps hwm fuel t.hd.pgid ph =
      ((flatten t).map (fun i => (i.key, SVal.val i.val)),
       { pages := ph.pages ++ pagesOf ps t, errors := ph.errors }) := by
  sorry

/-- corollary: what the reader extracts is the abstraction of the tree as the reference model
    sees a bucket with these entries -/
theorem decode_laid_content (f : File) (ps hwm fuel : Nat) (t : N)
    (hps : 0 < ps) (hl : Laid f ps t) (hf : Fits ps hwm t) (hc : Committed t) (hd : depth t ≤ fuel) :
    (decodeTree f ps hwm fuel t.hd.pgid Phys.empty).1 = (flatten t).map (fun i => (i.key, SVal.val i.val)) ∧
    (decodeTree f ps hwm fuel t.hd.pgid Phys.empty).2.errors = [] := by
  sorry

end Bolt.C12Tree
