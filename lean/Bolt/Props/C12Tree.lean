/-
C12/C07 — the independent reader on a whole tree.  If a file holds, at page `pgid * pageSize`,
the image that `node.write` produces (`Enc.leafPage` / `Enc.branchPage`, the writers that the
`format` engine ties byte for byte to real files) of every node of a committed tree — each node
at the page id it carries, children referenced by their page ids — then the version-2 reader
`Format.decodeTree` started at the root's page returns exactly the tree's content, in order, and
reports NO structural error and exactly the tree's pages.  Together with
`C04Tree.commit_refines` (the committed tree is well-formed and holds the specified content)
this closes the chain  reference model ⟸ bucket/tree model ⟸ pages ⟸ bytes  inside Lean.
Plain-key trees (no nested bucket elements).
-/
import Bolt.Model.Encode
import Bolt.Model.BTreeInv
import Bolt.Props.C12Node
import Bolt.Lemmas.FormatTree
namespace Bolt.C12Tree
open Bolt Bolt.BTree Bolt.Node

/-- overflow count of the page span `node.spill` allocates for a node -/
def ovfOf (ps : Nat) (n : N) : Nat := (n.size + ps - 1) / ps - 1

/-- the bytes `node.write` produces for a node whose children sit on the pages they carry -/
def imageOf (ps : Nat) : N → Bytes
  | .leaf h items => Enc.leafPage h.pgid (ovfOf ps (.leaf h items)) (items.map C12Node.toLeafElem)
  | .branch h kids =>
    Enc.branchPage h.pgid (ovfOf ps (.branch h kids))
      (kids.map (fun p => ({ key := p.1, pgid := p.2.hd.pgid } : BranchElem)))

/-- the file agrees with `img` from offset `off` on -/
def Holds (f : File) (off : Nat) (img : Bytes) : Prop := ∀ i, i < img.length → f.get (off + i) = img.getD i 0

mutual
/-- every node of the tree is laid out in the file at its own page id -/
def Laid (f : File) (ps : Nat) : N → Prop
  | .leaf h items => Holds f (h.pgid * ps) (imageOf ps (.leaf h items))
  | .branch h kids => Holds f (h.pgid * ps) (imageOf ps (.branch h kids)) ∧ LaidKids f ps kids
def LaidKids (f : File) (ps : Nat) : List (Bytes × N) → Prop
  | [] => True
  | (_, c) :: r => Laid f ps c ∧ LaidKids f ps r
end

mutual
/-- the format's field widths and the page range: ids in `[2, hwm)` with their span, at most
    65534 elements per node, page spans below 2^32 bytes, no nested-bucket element -/
def Fits (ps hwm : Nat) : N → Prop
  | .leaf h items =>
    2 ≤ h.pgid ∧ h.pgid + ovfOf ps (.leaf h items) < hwm ∧ hwm < 2^64 ∧ items.length < 0xFFFF ∧
    (ovfOf ps (.leaf h items) + 1) * ps < 2^32 ∧ ∀ i ∈ items, i.flags % 2 = 0 ∧ i.flags < 2^32
  | .branch h kids =>
    2 ≤ h.pgid ∧ h.pgid + ovfOf ps (.branch h kids) < hwm ∧ hwm < 2^64 ∧ kids.length < 0xFFFF ∧
    (ovfOf ps (.branch h kids) + 1) * ps < 2^32 ∧ FitsKids ps hwm kids
def FitsKids (ps hwm : Nat) : List (Bytes × N) → Prop
  | [] => True
  | (_, c) :: r => Fits ps hwm c ∧ FitsKids ps hwm r
end

mutual
/-- pages of the tree in the reader's visit order: (page id, overflow, type flag) -/
def pagesOf (ps : Nat) : N → List (Nat × Nat × Nat)
  | .leaf h items => [(h.pgid, ovfOf ps (.leaf h items), V2.leafPageFlag)]
  | .branch h kids => (h.pgid, ovfOf ps (.branch h kids), V2.branchPageFlag) :: pagesOfKids ps kids
def pagesOfKids (ps : Nat) : List (Bytes × N) → List (Nat × Nat × Nat)
  | [] => []
  | (_, c) :: r => pagesOf ps c ++ pagesOfKids ps r
end

/-- the span `node.spill` allocates holds the node -/
theorem size_le_span (ps : Nat) (n : N) (hps : 0 < ps) : n.size ≤ (ovfOf ps n + 1) * ps := by
  unfold ovfOf
  have h16 : 16 ≤ n.size := by unfold N.size; rw [C12Node.nodeSize_sum]; omega
  have h1 : 1 ≤ (n.size + ps - 1) / ps := by
    rw [Nat.le_div_iff_mul_le hps]; omega
  have := C12Node.allocated_pages_suffice n.size ps hps
  rw [Nat.sub_add_cancel h1]; exact this

theorem fits_pgid (ps hwm : Nat) : ∀ (c : N), Fits ps hwm c → c.hd.pgid < 2^64
  | .leaf h items, hf => by rw [Fits] at hf; simp only [N.hd]; omega
  | .branch h kids, hf => by rw [Fits] at hf; simp only [N.hd]; omega

theorem fitsKids_pgid (ps hwm : Nat) : ∀ (kids : List (Bytes × N)), FitsKids ps hwm kids →
    ∀ p ∈ kids, p.2.hd.pgid < 2^64
  | [], _, p, hp => by cases hp
  | (s, c) :: r, hf, p, hp => by
    rw [FitsKids] at hf
    rcases List.mem_cons.mp hp with rfl | hp
    · exact fits_pgid ps hwm _ hf.1
    · exact fitsKids_pgid ps hwm r hf.2 p hp

open Bolt.FormatTreeL Bolt.BTree.OpsL in
mutual
/-- the reader on any node of a committed tree (root or not) -/
theorem decode_node (f : File) (ps hwm : Nat) (hps : 0 < ps) :
    ∀ (t : N) (root : Bool) (fuel : Nat) (ph : Phys),
    Laid f ps t → Fits ps hwm t → committedN root t = true → SortedI (flatten t) → depth t ≤ fuel →
    decodeTree f ps hwm fuel t.hd.pgid ph =
      ((flatten t).map (fun i => (i.key, SVal.val i.val)),
       { pages := ph.pages ++ pagesOf ps t, errors := ph.errors })
  | .leaf h items, root, fuel, ph, hl, hf, hc, hs, hd => by
    rw [Laid] at hl; rw [Fits] at hf
    obtain ⟨f1, f2, f3, f4, f5, f6⟩ := hf
    obtain ⟨c1, c2, c3, c4, c5⟩ := (committedN_leaf ..).mp hc
    rw [flatten_leaf]
    rw [depth_leaf] at hd
    obtain ⟨fuel', rfl⟩ : ∃ k, fuel = k + 1 := ⟨fuel - 1, by omega⟩
    have := decodeTree_leaf f ps hwm fuel' h.pgid (ovfOf ps (.leaf h items)) ph
      (items.map C12Node.toLeafElem) hps hl f1 f2 f3 (by simpa using f4) f5
      (by rw [C12Node.leaf_bytes_eq_size h]; exact size_le_span ps _ hps)
      (by intro e he; obtain ⟨i, hi, rfl⟩ := List.mem_map.mp he; exact f6 i hi)
      (by rw [List.map_map]; exact (sortedKeys_items items).mpr c4)
      (by intro e he; obtain ⟨i, hi, rfl⟩ := List.mem_map.mp he; exact c5 i hi)
    rw [pagesOf]
    simpa only [N.hd, List.map_map, C12Node.toLeafElem, Function.comp_def] using this
  | .branch h kids, root, fuel, ph, hl, hf, hc, hs, hd => by
    rw [Laid] at hl; rw [Fits] at hf
    obtain ⟨hl1, hl2⟩ := hl
    obtain ⟨f1, f2, f3, f4, f5, f6⟩ := hf
    obtain ⟨c1, c2, c3, c4, c5⟩ := (committedN_branch ..).mp hc
    rw [flatten_branch] at hs ⊢
    rw [depth_branch] at hd
    obtain ⟨fuel', rfl⟩ : ∃ k, fuel = k + 1 := ⟨fuel - 1, by omega⟩
    have hstep := decodeTree_branch f ps hwm fuel' h.pgid (ovfOf ps (.branch h kids)) ph
      (kids.map (fun (p : Bytes × N) => ({ key := p.1, pgid := p.2.hd.pgid } : BranchElem))) hps hl1 f1 f2 f3
      (by simpa using f4) f5
      (by rw [C12Node.branch_bytes_eq_size h kids (fun c => c.hd.pgid)]; exact size_le_span ps _ hps)
      (by intro e he; obtain ⟨p, hp, rfl⟩ := List.mem_map.mp he; exact fitsKids_pgid ps hwm kids f6 p hp)
      (by rw [List.map_map]; exact (sortedKeys_kids kids).mpr c4)
      (by intro e; rw [List.map_eq_nil_iff] at e; rw [e] at c3; simp at c3)
    have hk := decode_kids f ps hwm hps kids _ fuel'
      { pages := ph.pages ++ [(h.pgid, ovfOf ps (.branch h kids), V2.branchPageFlag)], errors := ph.errors }
      hl2 f6 c5 hs (by omega)
    rw [pagesOf]
    show decodeTree f ps hwm (fuel' + 1) h.pgid ph = _
    rw [hstep, hk]
    simp only [List.append_assoc, List.singleton_append]
/-- the reader on the children of a branch of a committed tree -/
theorem decode_kids (f : File) (ps hwm : Nat) (hps : 0 < ps) :
    ∀ (kids : List (Bytes × N)) (d fuel : Nat) (ph : Phys),
    LaidKids f ps kids → FitsKids ps hwm kids → committedKids kids d = true →
    SortedI (flattenKids kids) → depthKids kids ≤ fuel →
    decodeKids f ps hwm fuel
        (kids.map (fun p => ({ key := p.1, pgid := p.2.hd.pgid } : BranchElem))) ph =
      ((flattenKids kids).map (fun i => (i.key, SVal.val i.val)),
       { pages := ph.pages ++ pagesOfKids ps kids, errors := ph.errors })
  | [], d, fuel, ph, _, _, _, _, _ => by
    rw [flattenKids_nil, pagesOfKids, List.map_nil, decodeKids_nil]
    simp
  | (s, c) :: r, d, fuel, ph, hl, hf, hc, hs, hd => by
    rw [LaidKids] at hl; rw [FitsKids] at hf
    obtain ⟨h1, h2, h3, h4⟩ := (committedKids_cons ..).mp hc
    rw [flattenKids_cons] at hs ⊢
    obtain ⟨hs1, hs2, hs3⟩ := List.pairwise_append.mp hs
    rw [depthKids_cons] at hd
    have hc' := decode_node f ps hwm hps c false fuel ph hl.1 hf.1 h3 hs1 (by omega)
    have hr := decode_kids f ps hwm hps r d fuel
      { pages := ph.pages ++ pagesOf ps c, errors := ph.errors } hl.2 hf.2 h4 hs2 (by omega)
    rw [List.map_cons, decodeKids_cons f ps hwm fuel _ _ ph _ _ hc' ?first ?next, hr, pagesOfKids]
    · simp only [List.map_append, List.append_assoc]
    case first =>
      obtain ⟨x, rest, e1, e2⟩ := committedN_head c h3
      intro kv hkv
      rw [e1] at hkv
      simp only [List.map_cons, List.head?_cons, Option.mem_def, Option.some.injEq] at hkv
      subst hkv
      show Bytes.lt x.key s = false
      rw [e2, ← h1]; exact Bytes.lt_irrefl s
    case next =>
      intro nxt hn kv hkv
      cases r with
      | nil => simp at hn
      | cons q r' =>
        obtain ⟨y, rest, e1, e2⟩ := committedKids_head (q :: r') d (by simp) h4
        simp only [List.head?_cons, Option.map_some, Option.getD_some] at e2
        simp only [List.map_cons, List.head?_cons, Option.mem_def, Option.some.injEq] at hn
        subst hn
        obtain ⟨x, hx, rfl⟩ := List.mem_map.mp hkv
        show Bytes.lt x.key q.1 = true
        rw [← e2]
        exact hs3 x hx y (by rw [e1]; simp)
end

/-- **the reader returns the tree**: content in order, no error, exactly the tree's pages -/
theorem decode_laid (f : File) (ps hwm fuel : Nat) (t : N) (ph : Phys)
    (hps : 0 < ps) (hl : Laid f ps t) (hf : Fits ps hwm t) (hc : Committed t) (hd : depth t ≤ fuel) :
    decodeTree f ps hwm fuel t.hd.pgid ph =
      ((flatten t).map (fun i => (i.key, SVal.val i.val)),
       { pages := ph.pages ++ pagesOf ps t, errors := ph.errors }) :=
  decode_node f ps hwm hps t true fuel ph hl hf hc.1 ((Bolt.BTree.OpsL.sortedKeys_items _).mp hc.2) hd

/-- corollary: what the reader extracts is the abstraction of the tree as the reference model
    sees a bucket with these entries -/
theorem decode_laid_content (f : File) (ps hwm fuel : Nat) (t : N)
    (hps : 0 < ps) (hl : Laid f ps t) (hf : Fits ps hwm t) (hc : Committed t) (hd : depth t ≤ fuel) :
    (decodeTree f ps hwm fuel t.hd.pgid Phys.empty).1 = (flatten t).map (fun i => (i.key, SVal.val i.val)) ∧
    (decodeTree f ps hwm fuel t.hd.pgid Phys.empty).2.errors = [] := by
  rw [decode_laid f ps hwm fuel t Phys.empty hps hl hf hc hd]
  exact ⟨rfl, rfl⟩

end Bolt.C12Tree
