/-
C18 — expectations about the regenerated source facts that the hand model
`Model/Grow.lean` transcribes (`DB.allocate` pre-check, remap, `DB.grow`).
If the Go source changes, these stop checking and the check runs its search.
-/
import Bolt.Gen.Cfg
namespace Bolt.GenC18
open Bolt.Gen

theorem allocate_minsz : allocateMinszSrc = "var minsz = int((p.Id()+common.Pgid(count))+1) * db.pageSize" := rfl

theorem allocate_precheck : allocatePrecheckSrc =
  "if db.MaxSize > 0 { nextAllocSize := minsz nextMmapSize, err := db.mmapSize(minsz) if err != nil { return nil, fmt.Errorf(\"mmap size calculation error: %w\", err) } if minsz < db.datasz { nextMmapSize = db.datasz } if runtime.GOOS == \"windows\" { nextAllocSize = nextMmapSize } else { nextAllocSize = db.growSize(nextMmapSize, nextAllocSize) } if nextAllocSize > db.MaxSize {  return nil, berrors.ErrMaxSizeReached } }" := rfl

theorem allocate_remap : allocateRemapSrc =
  "if minsz >= db.datasz { if err := db.mmap(minsz); err != nil { if err == berrors.ErrMaxSizeReached { return nil, err } else { return nil, fmt.Errorf(\"mmap allocate error: %s\", err) } } }" := rfl

theorem grow_early_return : growEarlyReturnSrc = "if sz <= fileSize { return nil }" := rfl
theorem grow_size : growSizeSrc = "sz = db.growSize(db.datasz, sz)" := rfl
theorem grow_truncate : growTruncateSrc = "db.file.Truncate(int64(sz))" := rfl
theorem commit_grow_call : commitGrowCall = "tx.db.grow(int(tx.meta.Pgid()+1) * tx.db.pageSize)" := rfl
theorem grow_io : dbGrowIO = ["db.file.Truncate", "db.file.Sync"] := rfl

end Bolt.GenC18
