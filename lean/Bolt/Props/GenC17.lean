/-
C17 — syscall arguments and read-only guards, as extracted from the source.
-/
import Bolt.Gen.Cfg
namespace Bolt.GenC17
open Bolt.Gen

/-- `Open` locks exclusively unless read-only -/
theorem open_flock : openFlockCall = "flock(db, !db.readOnly, options.Timeout)" := rfl

/-- non-blocking, exclusive or shared, retry until the timeout, then ErrTimeout -/
theorem flock_body : flockSrc =
  "{ var t time.Time if timeout != 0 { t = time.Now() } fd := db.file.Fd() flag := syscall.LOCK_NB if exclusive { flag |= syscall.LOCK_EX } else { flag |= syscall.LOCK_SH } for { err := syscall.Flock(int(fd), flag) if err == nil { return nil } else if err != syscall.EWOULDBLOCK { return err } if timeout != 0 && time.Since(t) > timeout-flockRetryTimeout { return errors.ErrTimeout } time.Sleep(flockRetryTimeout) } }" := rfl

/-- the data file is mapped read-only and shared -/
theorem mmap_prot_read : mmapCall =
  "b, err := unix.Mmap(int(db.file.Fd()), 0, sz, syscall.PROT_READ, syscall.MAP_SHARED|db.MmapFlags)" := rfl

/-- a read-only database is opened O_RDONLY … -/
theorem open_rdonly : openFlagSrc =
  "if options.ReadOnly { flag = os.O_RDONLY db.readOnly = true } else { db.PreLoadFreelist = true flag |= os.O_CREATE }" := rfl

/-- … returns before the freelist-flush write transaction … -/
theorem open_readonly_returns_early : openReadOnlyReturn = "if db.readOnly { return db, nil }" := rfl

/-- … and refuses write transactions before taking any lock -/
theorem beginRWTx_refuses : beginRWTxFirst = "if db.readOnly { return nil, berrors.ErrDatabaseReadOnly }" := rfl

/-- a read-write close releases the lock explicitly (a read-only close relies on closing the descriptor) -/
theorem close_unlocks : closeUnlockSrc =
  "if !db.readOnly { if err := funlock(db); err != nil { errs = append(errs, fmt.Errorf(\"bolt.Close(): funlock error: %w\", err)) } }" := rfl

end Bolt.GenC17
