/-
End to end at bucket level — API calls → bucket-tree model → pages → independent reader =
reference model.

`C04BktRoot.root_transaction_refines` describes the bucket tree a transaction commits, with the
marker `newPage`/0 for every page the commit writes.  `RelabelBk a b` says `b` is that tree with
ANY real page ids in place of the markers (nested buckets included; inline buckets have nothing
to relabel).  Relabelling changes neither the shape invariant nor the content
(`relabelBk_content`), so for every file that holds the relabelled tree (`LaidBk`: what the page
writes of the commit establish — `C01Tree.commit_written` for one tree; the `format` engine
re-encodes every page of real files) the independent reader extracts exactly the reference
model's state after the transaction's calls (`transaction_readback`).
-/
import Bolt.Props.C01Tree
import Bolt.Props.C04BktRoot
import Bolt.Props.C12Bk
import Bolt.Lemmas.RelabelBk
namespace Bolt.C01Bkt
open Bolt Bolt.BTree Bolt.Bkt Bolt.C12Bk Bolt.C04Bkt Bolt.C01Tree

/-- `b` is the bucket tree `a` with real page ids given to everything the commit wrote -/
def RelabelBk : Nat → Bk → Bk → Prop
  | 0, _, _ => False
  | f+1, .mk ra sa ta oa, .mk rb sb tb ob =>
    sb = sa ∧
    (ra = 0 → rb = 0 ∧ tb = ta) ∧
    (ra ≠ 0 → Relabel ta tb ∧ rb = tb.hd.pgid ∧ rb ≠ 0) ∧
    oa.length = ob.length ∧
    ∀ p ∈ oa.zip ob, p.1.1 = p.2.1 ∧ RelabelBk f p.1.2 p.2.2

/-! ### helper lemmas about `RelabelBk` (generic facts are in `Bolt.Lemmas.RelabelBk`) -/
section Helpers
open Bolt.RelabelBkL Bolt.Bkt.BktCommitL

theorem relabelBk_zero (a b : Bk) : RelabelBk 0 a b = False := by
  cases a; cases b; rw [RelabelBk]

theorem relabelBk_succ (f ra sa : Nat) (ta : N) (oa : List (Bytes × Bk)) (rb sb : Nat) (tb : N)
    (ob : List (Bytes × Bk)) :
    RelabelBk (f+1) (.mk ra sa ta oa) (.mk rb sb tb ob) ↔
      (sb = sa ∧
      (ra = 0 → rb = 0 ∧ tb = ta) ∧
      (ra ≠ 0 → Relabel ta tb ∧ rb = tb.hd.pgid ∧ rb ≠ 0) ∧
      oa.length = ob.length ∧
      ∀ p ∈ oa.zip ob, p.1.1 = p.2.1 ∧ RelabelBk f p.1.2 p.2.2) := by
  rw [RelabelBk]

/-- a relabelled bucket has the same sequence number -/
theorem relabelBk_seq (fu : Nat) (a b : Bk) (h : RelabelBk fu a b) : b.seq = a.seq := by
  cases fu with
  | zero => rw [relabelBk_zero] at h; cases h
  | succ f =>
    obtain ⟨ra, sa, ta, oa⟩ := a
    obtain ⟨rb, sb, tb, ob⟩ := b
    exact ((relabelBk_succ ..).mp h).1

/-- the own tree of a relabelled bucket keeps everything but page ids -/
theorem relabelBk_tree (f ra sa : Nat) (ta : N) (oa : List (Bytes × Bk)) (rb sb : Nat) (tb : N)
    (ob : List (Bytes × Bk)) (h : RelabelBk (f+1) (.mk ra sa ta oa) (.mk rb sb tb ob)) :
    flatten tb = flatten ta ∧ depth tb = depth ta ∧ (Committed ta → Committed tb) := by
  obtain ⟨_, h0, h1, _, _⟩ := (relabelBk_succ ..).mp h
  by_cases hr : ra = 0
  · obtain ⟨_, rfl⟩ := h0 hr
    exact ⟨rfl, rfl, id⟩
  · obtain ⟨k1, k2, _, k4⟩ := relabel_keeps ta tb (h1 hr).1
    exact ⟨k1, k2, k4⟩

/-- the caches of a relabelled bucket: same names, children relabelled -/
theorem relabelBk_opened (f ra sa : Nat) (ta : N) (oa : List (Bytes × Bk)) (rb sb : Nat) (tb : N)
    (ob : List (Bytes × Bk)) (h : RelabelBk (f+1) (.mk ra sa ta oa) (.mk rb sb tb ob)) :
    Rel2 (fun _ c c' => RelabelBk f c c') oa ob := by
  obtain ⟨_, _, _, hl, hz⟩ := (relabelBk_succ ..).mp h
  exact rel2_of_zip oa ob hl hz

/-- `relabelBk_content`, for every `orig` argument and path on both sides (under the shape
    invariant every nested bucket is attached, so neither is ever consulted) -/
theorem relabelBk_content_gen : ∀ (fu : Nat) (a b : Bk), RelabelBk fu a b → origShapeOk fu a = true →
    origShapeOk fu b = true ∧ ∀ (X Y : Bk) (p q : List Bytes), absBk Y fu q b = absBk X fu p a
  | 0, a, b, h, _ => by rw [relabelBk_zero] at h; cases h
  | f+1, .mk ra sa ta oa, .mk rb sb tb ob, h, ho => by
    unfold origShapeOk at ho ⊢
    obtain ⟨a1, _, a3, a4, a5⟩ := (origOkG_succ ..).mp ho
    obtain ⟨t1, t2, t3⟩ := relabelBk_tree _ _ _ _ _ _ _ _ _ h
    have hrel := relabelBk_opened _ _ _ _ _ _ _ _ _ h
    have hs : sb = sa := ((relabelBk_succ ..).mp h).1
    subst hs
    refine ⟨?_, ?_⟩
    · rw [origOkG_succ]
      refine ⟨t3 a1, fun hi => (by cases hi), (by rw [t2]; exact a3), ?_, ?_⟩
      · rw [forall₂_names hrel, a4, bucketNames_of_flatten ta tb t1]
      · intro q' hq
        obtain ⟨p', hp', _, hR⟩ := rel2_mem_right hrel q' hq
        exact (relabelBk_content_gen f p'.2 q'.2 hR (a5 p' hp')).1
    · intro X Y p q
      apply absBk_step_congr X Y f p q ra sb rb ta tb oa ob t1
      intro x hx hb
      obtain ⟨c, hc⟩ := lookup_of_names a4 hx hb
      rcases lookupBk_rel hrel x.1 with ⟨h1, _⟩ | ⟨c1, c2, h1, h2, hR⟩
      · rw [h1] at hc; cases hc
      · rw [childAbs_some h1, childAbs_some h2]
        exact (relabelBk_content_gen f c1 c2 hR (a5 _ (lookupBk_mem h1))).2 X Y _ _

end Helpers

/-- **relabelling keeps the shape invariant and the content** -/
theorem relabelBk_content : ∀ (fu : Nat) (a b : Bk), RelabelBk fu a b → origShapeOk fu a = true →
    origShapeOk fu b = true ∧ absBk b fu [] b = absBk a fu [] a := by
  intro fu a b h ho
  obtain ⟨h1, h2⟩ := relabelBk_content_gen fu a b h ho
  exact ⟨h1, h2 a b [] []⟩

/-- **what the reader extracts from a file that holds the relabelled tree** -/
theorem readback (f : File) (ps hwm fu fuel : Nat) (a b : Bk) (ph : Phys)
    (hps : 0 < ps) (ho : origShapeOk fu a = true) (hrel : RelabelBk fu a b)
    (hr : b.root ≠ 0) (hl : LaidBk f ps hwm fu b) (hd : fu * (fu + 1) ≤ fuel) :
    ∃ ph', decodeTree f ps hwm fuel b.root ph =
        ((match absBk a fu [] a with | .bkt _ e => e | .val _ => []), ph') ∧ ph'.errors = ph.errors := by
  obtain ⟨hob, hab⟩ := relabelBk_content fu a b hrel ho
  rw [← hab]
  exact decode_bk f ps hwm fu fuel b ph hps hob hr hl hd

/-- **end to end**: the calls of a transaction on the root bucket, committed by the model,
    written with any page ids, read back by the independent reader = the reference model -/
theorem transaction_readback (ps sth rth fu : Nat) (orig : Bk) (calls : List Call) (order : List Nat)
    (hps : 0 < ps)
    (ho : origOk fu orig = true)
    (hc : CallsOk fu orig (closeAll orig) calls)
    (hf : fuelOk fu fu (calls.foldl (stepCall fu orig) (closeAll orig)) = true)
    (hcov : ∀ pg ∈ allMatPgids fu fu (calls.foldl (stepCall fu orig) (closeAll orig)), pg ∈ order) :
    ∃ cur' fu', commitRoot ps sth rth fu order (calls.foldl (stepCall fu orig) (closeAll orig)) = some cur' ∧
      fu ≤ fu' ∧
      ∀ (f : File) (hwm fuel : Nat) (b : Bk),
        RelabelBk fu' (full orig fu [] cur') b → b.root ≠ 0 → LaidBk f ps hwm fu' b → fu' * (fu' + 1) ≤ fuel →
        SVal.bkt 0 [(topName, SVal.bkt b.seq (decodeTree f ps hwm fuel b.root Phys.empty).1)] =
          calls.foldl specCall (absTop fu orig orig) ∧
        (decodeTree f ps hwm fuel b.root Phys.empty).2.errors = [] := by
  obtain ⟨cur', fu', hcm, hle, hshape, habs⟩ :=
    root_transaction_refines ps sth rth fu orig calls order ho hc hf hcov
  refine ⟨cur', fu', hcm, hle, ?_⟩
  intro f hwm fuel b hrel hr hl hd
  obtain ⟨ph', hdec, herr⟩ := readback f ps hwm fu' fuel _ b Phys.empty hps hshape hrel hr hl hd
  have hseq := relabelBk_seq fu' _ b hrel
  obtain ⟨g, rfl⟩ := Bolt.RelabelBkL.shape_pos fu' _ hshape
  rw [hdec]
  refine ⟨?_, herr⟩
  rw [← habs, absTop, hseq]
  rw [Bolt.Bkt.BktCommitL.absBk_succ]

/-! ### non-vacuity: a committed tree with a marker, relabelled with a real page id -/

/-- one leaf written by the commit (model page id 0, root = `newPage`), two plain elements -/
private def exA : Bk :=
  .mk newPage 3 (.leaf { pgid := 0, mat := false, unb := false, key := [] }
    [{ key := [1], val := [10], flags := 0 }, { key := [2], val := [20], flags := 0 }]) []

/-- the same with the real page id 9 -/
private def exB : Bk :=
  .mk 9 3 (.leaf { pgid := 9, mat := false, unb := false, key := [] }
    [{ key := [1], val := [10], flags := 0 }, { key := [2], val := [20], flags := 0 }]) []

example : RelabelBk 2 exA exB ∧ origShapeOk 2 exA = true ∧ exB.root ≠ 0 := by
  refine ⟨?_, by decide, by decide⟩
  unfold exA exB
  rw [relabelBk_succ]
  refine ⟨rfl, fun h => (by cases h), fun _ => ⟨?_, rfl, (by decide)⟩, rfl, fun p hp => (by cases hp)⟩
  rw [Relabel, if_neg (by decide)]
  exact ⟨9, by decide, rfl⟩

end Bolt.C01Bkt
