/-
C19 — the integrity check finds structural corruption and only that.
-/
import Bolt.Model.Check
import Bolt.Lemmas.Check
namespace Bolt.C19
open Bolt.Check

/-- every id of every visited page's span -/
def usedIds (d : CheckIn) : List Nat := d.visited.flatMap span

/-- a consistent database: every page below the high-water mark is exactly one of meta,
    freelist page, reachable once, or free once; visited pages are branch/leaf pages in range;
    the key walk found nothing -/
structure Exact (d : CheckIn) : Prop where
  used_nodup : (usedIds d).Nodup
  used_range : ∀ q ∈ usedIds d, 2 ≤ q ∧ q < d.hwm
  heads_range : ∀ p ∈ d.visited, p.id ≤ d.hwm
  kinds : ∀ p ∈ d.visited, p.kind = 1 ∨ p.kind = 2
  fl_range : ∀ q ∈ d.freelistSpan, 2 ≤ q ∧ q < d.hwm
  fl_disjoint : ∀ q ∈ d.freelistSpan, q ∉ usedIds d
  free_nodup : d.freeMem.Nodup
  disk_nodup : d.freeDisk.Nodup
  free_disjoint : ∀ q ∈ d.freeMem, q ∉ usedIds d ∧ q ∉ d.freelistSpan ∧ 2 ≤ q
  covered : ∀ q, 2 ≤ q → q < d.hwm → q ∈ usedIds d ∨ q ∈ d.freelistSpan ∨ q ∈ d.freeMem
  two_le : 2 ≤ d.hwm
  keys_ok : d.keyErrs = 0

/-- **Soundness**: the check reports nothing on a consistent database. -/
theorem check_sound (d : CheckIn) (h : Exact d) : check d = [] := by
  rw [check_eq_nil_iff]
  refine ⟨h.free_nodup, h.disk_nodup, h.used_nodup, ?_, ?_, ?_, h.keys_ok⟩
  · intro q hq
    have hr := h.used_range q hq
    refine ⟨⟨by omega, by omega, fun hf => h.fl_disjoint q hf hq⟩, fun hf => (h.free_disjoint q hf).1 hq⟩
  · intro p hp
    exact ⟨h.heads_range p hp, h.kinds p hp⟩
  · intro q hq
    by_cases h0 : q = 0
    · exact Or.inl (Or.inl h0)
    by_cases h1 : q = 1
    · exact Or.inl (Or.inr (Or.inl h1))
    rcases h.covered q (by omega) hq with hu | hf | hm
    · exact Or.inr (Or.inl hu)
    · exact Or.inl (Or.inr (Or.inr hf))
    · exact Or.inr (Or.inr hm)

/-- **Completeness**, one theorem per corruption class of the property. -/
theorem complete_unreachable_unfreed (d : CheckIn) (q : Nat) (hq : q < d.hwm) (h2 : 2 ≤ q)
    (hu : q ∉ usedIds d) (hf : q ∉ d.freelistSpan) (hn : q ∉ d.freeMem) : check d ≠ [] := by
  intro hc
  rcases ((check_eq_nil_iff d).1 hc).2.2.2.2.2.1 q hq with (h | h | h) | h | h
  · omega
  · omega
  · exact hf h
  · exact hu h
  · exact hn h

/-- reachable yet free — the head page *or any overflow page* of a reachable page -/
theorem complete_reachable_freed (d : CheckIn) (p : PageInfo) (hp : p ∈ d.visited) (q : Nat)
    (hq : q ∈ span p) (hf : q ∈ d.freeMem) : check d ≠ [] := by
  intro hc
  have hu : q ∈ usedIds d := List.mem_flatMap.2 ⟨p, hp, hq⟩
  exact (((check_eq_nil_iff d).1 hc).2.2.2.1 q hu).2 hf

/-- referenced twice: some page id is covered by two visited pages (or one page visited twice) -/
theorem complete_double_ref (d : CheckIn) (h : ¬ (usedIds d).Nodup) : check d ≠ [] := by
  intro hc
  exact h ((check_eq_nil_iff d).1 hc).2.2.1

/-- a reachable page overlapping the meta pages or the freelist page is also a double reference -/
theorem complete_ref_to_reserved (d : CheckIn) (q : Nat) (hq : q ∈ usedIds d)
    (hr : q = 0 ∨ q = 1 ∨ q ∈ d.freelistSpan) : check d ≠ [] := by
  intro hc
  have := (((check_eq_nil_iff d).1 hc).2.2.2.1 q hq).1
  rcases hr with h | h | h
  · exact this.1 h
  · exact this.2.1 h
  · exact this.2.2 h

/-- freed twice, in memory or on the persisted freelist page (the hashmap backend merges
    duplicates while loading, so the page itself is scanned too) -/
theorem complete_double_free (d : CheckIn) (h : ¬ d.freeMem.Nodup ∨ ¬ d.freeDisk.Nodup) : check d ≠ [] := by
  intro hc
  have := (check_eq_nil_iff d).1 hc
  rcases h with h | h
  · exact h this.1
  · exact h this.2.1

theorem complete_bad_type (d : CheckIn) (p : PageInfo) (hp : p ∈ d.visited)
    (hk : p.kind ≠ 1 ∧ p.kind ≠ 2) : check d ≠ [] := by
  intro hc
  have := (((check_eq_nil_iff d).1 hc).2.2.2.2.1 p hp).2
  omega

theorem complete_key_order (d : CheckIn) (h : 0 < d.keyErrs) : check d ≠ [] := by
  intro hc
  have := ((check_eq_nil_iff d).1 hc).2.2.2.2.2.2
  omega

/-- F9 witness: on the pinned tree an overflow page listed free escaped the check (leaf page 3
    with one overflow page 4, page 4 listed free); repaired by a `fix:` commit. -/
theorem f9_witness :
    let p : PageInfo := { id := 3, ovf := 1, kind := 2 }
    (visitPagePinned 5 [4] [0, 1, 2] p).2 = [] ∧ (visitPage 5 [4] [0, 1, 2] p).2 = [Err.reachableFreed 4] := by
  decide

/-- non-vacuity: a concrete consistent database (a branch with two leaves, one with an
    overflow page, a freelist page, two free pages) -/
example : Exact { hwm := 9, visited := [⟨3, 0, 1⟩, ⟨4, 1, 2⟩, ⟨6, 0, 2⟩], freelistSpan := [2],
                  freeMem := [7, 8], freeDisk := [7, 8], keyErrs := 0 } := by
  refine ⟨by decide, by decide, by decide, by decide, by decide, by decide, by decide, by decide,
    by decide, ?_, by decide, rfl⟩
  intro q h2 h9
  have : ∀ q, q < 9 → 2 ≤ q → q ∈ usedIds
      { hwm := 9, visited := [⟨3, 0, 1⟩, ⟨4, 1, 2⟩, ⟨6, 0, 2⟩], freelistSpan := [2],
        freeMem := [7, 8], freeDisk := [7, 8], keyErrs := 0 } ∨ q ∈ [2] ∨ q ∈ [7, 8] := by decide
  exact this q h9 h2

end Bolt.C19
