/-
C20 — repair commands restore exactly what they promise (protocol part).
-/
import Bolt.Lemmas.Store
namespace Bolt.C20
open Bolt.FL Bolt.Store

/-- **Reverting the meta page immediately after a commit** presents the previously
    committed version, and that version is intact in the file: the commit wrote only pages
    the previous version does not reference. -/
theorem revert_prev_intact (s : St) (hr : Reachable s) (s' : St) (h : stepAll s .commit = some s') :
    s'.old = some s.cur ∧ Intact s'.disk s.cur := by
  sorry

/-- **Abandoning and rebuilding the free list**: the ids a fresh open computes are exactly
    the pages below the high-water mark that the newest version does not reference, and they
    coincide with free ∪ pending of the running database (C13 `scan = persisted`). -/
theorem rebuild_exact (s : St) (hr : Reachable s) (hw : s.w = none) :
    ∀ p, p ∈ freshFree s.cur ↔ (p ∈ s.fl.freeIds ∨ p ∈ s.fl.pendingIds) := by
  sorry

end Bolt.C20
