/-
C20 — repair commands restore exactly what they promise (protocol part).
-/
import Bolt.Lemmas.Store
namespace Bolt.C20
open Bolt.FL Bolt.Store

/-- **Reverting the meta page immediately after a commit** presents the previously
    committed version, and that version is intact in the file: the commit wrote only pages
    the previous version does not reference. -/
theorem revert_prev_intact (s : St) (hr : Reachable s) (s' : St) (h : stepAll s .commit = some s') :
    s'.old = some s.cur ∧ Intact s'.disk s.cur := by
  obtain ⟨w, hw, rfl⟩ := step_commit h
  exact ⟨rfl, intact_cur_write hr.inv hw _ (fun p hp => hp) _⟩

/-- **Abandoning and rebuilding the free list**: the ids a fresh open computes are exactly
    the pages below the high-water mark that the newest version does not reference, and they
    coincide with free ∪ pending of the running database (C13 `scan = persisted`). -/
theorem rebuild_exact (s : St) (hr : Reachable s) (hw : s.w = none) :
    ∀ p, p ∈ freshFree s.cur ↔ (p ∈ s.fl.freeIds ∨ p ∈ s.fl.pendingIds) := by
  have hi := hr.inv
  intro p
  rw [mem_freshFree]
  constructor
  · rintro ⟨h1, h2, h3⟩
    rcases hi.cover p h1 (by rw [St.hwm_none hw]; exact h2) with h | h | h | h
    · exact absurd h h3
    · exact Or.inl h
    · exact Or.inr h
    · rw [St.allocated_none hw] at h; cases h
  · rintro (h | h)
    · exact ⟨hi.fl.freeIds_ge2 h, hi.free_bd p h, fun hu => hi.used_free p hu h⟩
    · refine ⟨hi.fl.pending_ge2 p h, hi.pend_bd p h, fun hu => ?_⟩
      have := hi.used_pend p hu h
      rw [St.freed_none hw] at this
      cases this

end Bolt.C20
