/-
C04/C07 — the B+tree of a bucket refines the sorted map.  For every committed tree, every
sequence of Put/Delete calls, every order in which `Bucket.rebalance` visits its node map
(Go's map order is random), every page size and fill percent: the model of
`Tx.Commit` for the bucket (`BTree.commit`: materialise + put/del, rebalance, spill/split)
never leaves its domain (the Go code never corrupts the tree), writes a tree that is again
a well-formed committed tree, and whose content is exactly the sorted-list specification
applied to the old content.
-/
import Bolt.Props.C04TreeOps
import Bolt.Props.C04TreeReb
import Bolt.Lemmas.BTreeSpill
namespace Bolt.C04Tree
open Bolt Bolt.BTree

/-- **spill writes a well-formed committed tree with the same content** -/
theorem spillRoot_refines (ps sth fuel : Nat) (t : N) (hi : InTx t) (hu : anyUnb t = false)
    (hf : depth t + (flatten t).length + 2 ≤ fuel) :
    ∃ t', spillRoot ps sth fuel t = some t' ∧ Committed t' ∧ flatten t' = flatten t :=
  SpillL.spillRoot_ok ps sth fuel t hi hu hf

/-- enough fuel for every descent and every new root level -/
def fuelBound (t : N) (ops : List Op) : Nat := depth t + (flatten t).length + ops.length + 2

/-- **C04/C07 headline: commit refines the sorted map and re-establishes the tree invariant**,
    for every operation sequence and every rebalance order that covers the node map -/
theorem commit_refines (ps sth rth fuel : Nat) (t : N) (ops : List Op) (order : List Nat)
    (hc : Committed t) (hn : (pgids t).Nodup) (hk : ∀ o ∈ ops, o.ok)
    (hf : fuelBound t ops ≤ fuel)
    (ho : ∀ t1, applyOps fuel t ops = some t1 → ∀ pg ∈ matPgids fuel t1, pg ∈ order) :
    ∃ t', commit ps sth rth fuel t ops order = some t' ∧ Committed t' ∧
      flatten t' = specOps (flatten t) ops := by
  unfold fuelBound at hf
  have hdt : depth t ≤ fuel := by omega
  -- Put/Delete
  obtain ⟨t1, h1, _, hd1, hfl1⟩ := applyOps_refines fuel t ops (committed_inTx t hc) hk hdt
  have hr1 : InTxR t1 := applyOps_inTxR fuel t t1 ops hc hk hdt h1
  have hn1 : (pgids t1).Nodup := by rw [applyOps_pgids fuel t t1 ops h1]; exact hn
  -- rebalance
  obtain ⟨t2, h2, hr2, hfl2, hd2⟩ := rebalanceAll_refines rth fuel t1 order hr1
  have hu2 : anyUnb t2 = false :=
    rebalanceAll_settles rth fuel t1 t2 order hr1 hn1 (by omega) (ho t1 h1) h2
  -- spill
  have hlen := specOps_length_le (flatten t) ops
  obtain ⟨t3, h3, hc3, hfl3⟩ := spillRoot_refines ps sth fuel t2 (inTxR_inTx t2 hr2) hu2
    (by rw [hfl2, hfl1]; omega)
  refine ⟨t3, ?_, hc3, by rw [hfl3, hfl2, hfl1]⟩
  unfold commit
  rw [h1, Option.bind_some, h2, Option.bind_some, h3]

/- The original statement

    theorem commit_fuel_mono (ps sth rth f f' : Nat) (t : N) (ops : List Op) (order : List Nat) (r : N)
        (h : commit ps sth rth f t ops order = some r) (hle : f ≤ f') :
        commit ps sth rth f' t ops order = some r

   is FALSE of the model: when the search runs out of fuel above the leaf, `seekItem` is `none`
   and `delT` answers `some root` ("key not found"), so with too little fuel a `Delete` is
   silently a no-op and the commit still succeeds — with a different result than with enough
   fuel (counterexample below: fuel 0 against fuel 20).  The weakest natural repair is the
   hypothesis `depth t ≤ f` (the fuel covers the depth of the tree the transaction starts
   from); nothing else — no well-formedness of `t`, no condition on `ops`/`order` — is needed. -/

/-- the result does not depend on the fuel once it covers the depth of the tree (the driver
    runs with a fixed fuel; a `some` answer there is the answer for every larger fuel) -/
theorem commit_fuel_mono (ps sth rth f f' : Nat) (t : N) (ops : List Op) (order : List Nat) (r : N)
    (hd : depth t ≤ f)
    (h : commit ps sth rth f t ops order = some r) (hle : f ≤ f') :
    commit ps sth rth f' t ops order = some r :=
  SpillL.mono_commit ps sth rth f f' t ops order r hd h hle

/-! ### non-vacuity: a concrete two-level committed tree, a transaction that empties one leaf
(merge) and overfills another (split) -/

def exLeaf (pg : Nat) (ks : List Nat) : N :=
  .leaf { pgid := pg, mat := false, unb := false, key := [] }
    (ks.map (fun k => { key := [k.toUInt8], val := List.replicate 40 0, flags := 0 }))

def exTree : N :=
  .branch { pgid := 9, mat := false, unb := false, key := [] }
    [([1], exLeaf 3 [1, 2, 3]), ([10], exLeaf 4 [10, 11]), ([20], exLeaf 5 [20, 21, 22])]

example : Committed exTree ∧ (pgids exTree).Nodup := by
  decide

example : ∃ t', commit 256 128 64 20 exTree
      [.del [10], .del [11], .put [4] [7], .put [5] [7], .put [6] [7], .put [7] [7]] [4, 3, 9, 5] = some t' ∧
      Committed t' ∧ (flatten t').map (·.key) = [[1], [2], [3], [4], [5], [6], [7], [20], [21], [22]] := by
  refine ⟨_, rfl, ?_, ?_⟩ <;> decide

/-- counterexample to `commit_fuel_mono` without `depth t ≤ f`: with fuel 0 the `Delete` does
    not find its key, nothing is materialised and the commit "succeeds" with the unchanged tree;
    with fuel 20 the key is deleted -/
example : commit 256 128 64 0 exTree [.del [10]] [] = some exTree ∧
    (commit 256 128 64 20 exTree [.del [10]] []).map (fun t' => (flatten t').map (·.key)) =
      some [[1], [2], [3], [11], [20], [21], [22]] ∧
    (some exTree).map (fun t' => (flatten t').map (·.key)) =
      some [[1], [2], [3], [10], [11], [20], [21], [22]] := by
  refine ⟨rfl, ?_, ?_⟩ <;> decide


end Bolt.C04Tree
