/-
C01/C06/C08 — expectations about the regenerated control-flow facts of `Tx.Commit`,
`Tx.write`, `Tx.writeMeta`, `Meta.Write`, `DB.init` that `Model/Store.lean`'s commit I/O
program (data pages ; sync ; meta into slot txid % 2 ; sync) transcribes.
-/
import Bolt.Gen.Cfg
namespace Bolt.GenC01
open Bolt.Gen

/-- order of the phases of `Commit` -/
theorem commit_phase_order : commitCalls =
  ["tx.root.rebalance", "tx.root.spill", "tx.db.freelist.Free", "tx.commitFreelist", "tx.db.grow",
   "tx.write", "tx.Check", "tx.writeMeta", "tx.close"] := rfl

/-- data pages are written, then synced; the meta page is written, then synced -/
theorem write_then_sync : txWriteIO = ["tx.db.ops.writeAt", "fdatasync"] := rfl
theorem meta_then_sync : txWriteMetaIO = ["tx.db.ops.writeAt", "fdatasync"] := rfl
theorem init_then_sync : dbInitIO = ["db.ops.writeAt", "fdatasync"] := rfl

/-- the syncs are skipped only under NoSync -/
theorem sync_guards : txWriteSyncGuard = "!tx.db.NoSync || common.IgnoreNoSync" ∧
    txWriteMetaSyncGuard = "!tx.db.NoSync || common.IgnoreNoSync" := ⟨rfl, rfl⟩

/-- the meta page goes to slot `txid % 2` -/
theorem meta_slot : metaWriteSlot = "p.id = Pgid(m.txid % 2)" := rfl

end Bolt.GenC01
