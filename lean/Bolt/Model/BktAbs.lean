/-
The logical content of a bucket model state (`Model/Bkt`) as a value of the API-level
reference model (`Spec/NestedMap.SVal`): plain elements are values, an element with the bucket
flag is the nested bucket — the opened one as the transaction has modified it, else the bucket
as it was when the transaction began.
-/
import Bolt.Model.Bkt
namespace Bolt.Bkt
open Bolt Bolt.BTree

/-- `absBk orig fuel path b`: content of the bucket `b` sitting at `path` -/
def absBk (orig : Bk) : Nat → List Bytes → Bk → SVal
  | 0, _, b => .bkt b.seq []
  | f+1, path, b =>
    .bkt b.seq ((flatten b.tree).map (fun i =>
      if i.flags % 2 = 1 then
        (i.key,
          match lookupBk i.key b.opened with
          | some c => absBk orig f (path ++ [i.key]) c
          | none =>
            match bkAt (path ++ [i.key]) orig with
            | some c => absBk c f [] c          -- a bucket of the old state: everything nested is attached to it
            | none => .bkt 0 [])
      else (i.key, .val i.val)))

/-- the name under which the modelled top bucket sits in the transaction's root bucket -/
def topName : Bytes := [98]   -- "b"

/-- the whole database content as the reference model sees it -/
def absTop (fu : Nat) (orig cur : Bk) : SVal := .bkt 0 [(topName, absBk orig fu [] cur)]

end Bolt.Bkt
