/-
L0 — `Tx.WriteTo` (tx.go) at byte level: a meta page built from the transaction's OWN meta
(`*page.Meta() = *tx.meta`), written twice — as page 0 with the checksum recomputed, as page 1
with the transaction id decremented and the checksum recomputed — followed by the bytes of the
file from page 2 up to the transaction's size (`tx.Size() = meta.pgid * pageSize`).
The driver runs it on the bytes of a real file and the meta of a real read transaction; the
result is compared byte for byte with what the real `WriteTo` wrote.
Not modelled: a meta whose `pgid` is below 2 (`io.CopyN` with a negative size).
-/
import Bolt.Model.Meta
import Bolt.Model.Encode
namespace Bolt.Backup
open Bolt

/-- one meta page: header (id, meta flag, count 0, overflow 0), the meta struct with its checksum
    recomputed, zero padding (`make([]byte, pageSize)`) -/
def metaPage (ps id : Nat) (m : Meta) : Bytes :=
  Enc.header id V2.metaPageFlag 0 0 ++ encodeMeta m ++ List.replicate (ps - 80) 0

/-- `Meta.DecTxid` in uint64 arithmetic -/
def decTxid (m : Meta) : Meta := { m with txid := (m.txid + 2^64 - 1) % 2^64 }

/-- the bytes `WriteTo` writes -/
def backupBytes (f : File) (ps : Nat) (m : Meta) : Bytes :=
  metaPage ps 0 m ++ metaPage ps 1 (decTxid m) ++ f.read (2 * ps) (m.pgid * ps - 2 * ps)

def backupFile (f : File) (ps : Nat) (m : Meta) : File := Enc.fileOf (backupBytes f ps m)

/-- the meta of a transaction of a version-2 database with page size `ps` -/
def txMeta (ps root seq freelist pgid txid : Nat) : Meta :=
  { magic := V2.magic, version := V2.version, pageSize := ps, flags := 0, root := root, seq := seq,
    freelist := freelist, pgid := pgid, txid := txid, checksum := 0 }

end Bolt.Backup
