/-
L4 — `DB.Batch` / `batch.run` / `safelyCall` / the solo retry (`db.go`).

One batch object = the queue `b.calls`.  Every `db.Update` (the batch transaction and the
solo retries run in the callers' goroutines) is a serial all-or-nothing step (C03), so any
goroutine schedule is an ordering of the transitions below; the theorems hold for every
reachable state, hence for every ordering, every outcome script of every function (fail
or panic on its first, a later or every invocation) and every commit-failure pattern.
-/
namespace Bolt.Batch

abbrev Id := Nat

/-- what a caller's function does on one invocation (`safelyCall` turns a panic into an error) -/
inductive Outcome | ok | fail | panic
deriving Repr, DecidableEq

/-- what `Batch` returned to a caller -/
inductive Res | nil | err
deriving Repr, DecidableEq

structure St where
  queue : List Id               -- b.calls, in order
  solo : List Id                -- callers that received trySolo and still have to run Update(fn)
  inv : Id → Nat                -- invocations of each caller's function so far
  applied : Id → Nat            -- committed effects of each caller's function
  result : Id → Option Res      -- what Batch returned (none: still blocked on its channel)

def bump (f : Id → Nat) (c : Id) : Id → Nat := fun x => if x = c then f x + 1 else f x
def setRes (f : Id → Option Res) (c : Id) (r : Res) : Id → Option Res := fun x => if x = c then some r else f x

/-- index of the first call whose function does not return nil in this transaction, and the
    invocation counts after running the functions up to and including it -/
def runFns (script : Id → Nat → Outcome) : List Id → (Id → Nat) → Nat → Option Nat × (Id → Nat)
  | [], inv, _ => (none, inv)
  | c :: rest, inv, i =>
    let inv' := bump inv c
    if script c (inv c) = .ok then runFns script rest inv' (i+1) else (some i, inv')

/-- `b.calls[failIdx], b.calls = b.calls[len-1], b.calls[:len-1]` -/
def swapRemove (l : List Id) (i : Nat) : List Id :=
  match l.getLast? with
  | none => []
  | some last => (l.set i last).dropLast

/-- one iteration of the `retry` loop of `batch.run` -/
def batchAttempt (script : Id → Nat → Outcome) (commitOk : Bool) (s : St) : St :=
  if s.queue = [] then s else
  match runFns script s.queue s.inv 0 with
  | (some i, inv') =>
    -- the transaction is rolled back; the failing call is removed and told to retry solo
    match s.queue[i]? with
    | none => s
    | some c => { s with inv := inv', queue := swapRemove s.queue i, solo := c :: s.solo }
  | (none, inv') =>
    if commitOk then
      { s with inv := inv', queue := [],
               applied := fun x => if x ∈ s.queue then s.applied x + 1 else s.applied x,
               result := fun x => if x ∈ s.queue then some .nil else s.result x }
    else
      { s with inv := inv', queue := [],
               result := fun x => if x ∈ s.queue then some .err else s.result x }

/-- the solo retry `db.Update(fn)` of caller `c` -/
def soloAttempt (script : Id → Nat → Outcome) (commitOk : Bool) (c : Id) (s : St) : St :=
  if c ∉ s.solo then s else
  let s1 := { s with solo := s.solo.erase c, inv := bump s.inv c }
  if script c (s.inv c) = .ok ∧ commitOk then
    { s1 with applied := bump s.applied c, result := setRes s.result c .nil }
  else { s1 with result := setRes s.result c .err }

inductive Step (script : Id → Nat → Outcome) : St → St → Prop
  | batch (s : St) (commitOk : Bool) : Step script s (batchAttempt script commitOk s)
  | solo (s : St) (commitOk : Bool) (c : Id) : Step script s (soloAttempt script commitOk c s)

inductive Reach (script : Id → Nat → Outcome) (s0 : St) : St → Prop
  | refl : Reach script s0 s0
  | step {s s' : St} : Reach script s0 s → Step script s s' → Reach script s0 s'

/-- reachability when every commit succeeds -/
inductive ReachOk (script : Id → Nat → Outcome) (s0 : St) : St → Prop
  | refl : ReachOk script s0 s0
  | batch {s : St} : ReachOk script s0 s → ReachOk script s0 (batchAttempt script true s)
  | solo {s : St} (c : Id) : ReachOk script s0 s → ReachOk script s0 (soloAttempt script true c s)

/-- the state right after the callers have enqueued their functions -/
def start (calls : List Id) : St :=
  { queue := calls, solo := [], inv := fun _ => 0, applied := fun _ => 0, result := fun _ => none }

end Bolt.Batch
