/-
L0 — the repair commands' byte-level effect (`internal/surgeon/surgeon.go`,
`internal/guts_cli/guts_cli.go`): `ReadPageAndHWMSize`, `ReadPage`, `WritePage`, `CopyPage`,
`ClearFreelist` (= `surgery freelist abandon` after the file copy) and `RevertMetaPage`
(= `surgery revert-meta-page` after the file copy), as total functions from a file to an error
or the patched file.  They run on real file bytes in the driver (`boltmodel surgery …`), where the
result is compared byte for byte with the output of the real command-line tool.

Not modelled: a page size below 80 in meta 0 (the Go code would slice out of range); the model
returns an error there and the harness never produces such a file.
-/
import Bolt.Model.Meta
namespace Bolt.Surgery
open Bolt

/-- `f.WriteAt(bs, off)` -/
def patch (f : File) (off : Nat) (bs : Bytes) : File :=
  { size := max f.size (off + bs.length),
    get := fun i => if off ≤ i ∧ i < off + bs.length then bs.getD (i - off) 0 else f.get i }

/-- overwrite `v.length` bytes of a buffer at `off` (the buffer is long enough) -/
def splice (b : Bytes) (off : Nat) (v : Bytes) : Bytes :=
  b.take off ++ v ++ b.drop (off + v.length)

/-- `ReadPageAndHWMSize`: the first 4096 bytes must be readable; only the magic of meta 0 is
    checked; page size and high-water mark are meta 0's whatever meta 1 says -/
def pageAndHwm (f : File) : Except String (Nat × Nat) :=
  if f.size < 4096 then .error "short file"
  else if f.u32 16 ≠ V2.magic then .error "magic"
  else if f.u32 24 < 80 then .error "page size not modelled"
  else .ok (f.u32 24, f.u64 56)

/-- `ReadPage(path, pg)`: the page with all its overflow pages.  The overflow guard is Go's
    `overflowN >= uint32(hwm)-3` in 32-bit wrap-around arithmetic. -/
def readPage (f : File) (pg : Nat) : Except String (Nat × Bytes) :=
  match pageAndHwm f with
  | .error e => .error e
  | .ok (ps, hwm) =>
    let base := pg * ps
    if f.size < base + ps then .error "eof"
    else if f.u64 base ≠ pg then .error "unexpected page id"
    else
      let ov := f.u32 (base + 12)
      if ov ≥ (hwm % 2^32 + 2^32 - 3) % 2^32 then .error "overflow"
      else if f.size < base + (ov + 1) * ps then .error "eof"
      else .ok (ps, f.read base ((ov + 1) * ps))

/-- `WritePage(path, buf)`: at the offset the buffer's own page id says -/
def writePage (f : File) (buf : Bytes) : Except String File :=
  match pageAndHwm f with
  | .error e => .error e
  | .ok (ps, _) =>
    let id := getLE (buf.take 8)
    let ov := getLE ((buf.drop 12).take 4)
    if ps * (ov + 1) ≠ buf.length then .error "length" else .ok (patch f (id * ps) buf)

/-- `CopyPage(path, src, target)` -/
def copyPage (f : File) (src target : Nat) : Except String File :=
  match readPage f src with
  | .error e => .error e
  | .ok (_, buf) => writePage f (splice buf 0 (putLE 8 target))

/-- `clearFreelistInMetaPage`: freelist := PgidNoFreelist, checksum recomputed, NO validation of
    what was there before -/
def clearFreelistInMeta (f : File) (pg : Nat) : Except String File :=
  match readPage f pg with
  | .error e => .error e
  | .ok (_, buf) =>
    let b1 := splice buf (16 + 32) (putLE 8 V2.pgidNoFreelist)
    let sum := (fnv1a64 ((b1.drop 16).take V2.metaChecksumLen)).toNat
    writePage f (splice b1 (16 + 56) (putLE 8 sum))

/-- `ClearFreelist` -/
def clearFreelist (f : File) : Except String File :=
  match clearFreelistInMeta f 0 with
  | .error e => .error e
  | .ok f1 => clearFreelistInMeta f1 1

/-- `GetActiveMetaPage`: by transaction id alone (no validation) -/
def activeMeta (f : File) : Except String Nat :=
  match readPage f 0, readPage f 1 with
  | .error e, _ => .error e
  | _, .error e => .error e
  | .ok (_, b0), .ok (_, b1) =>
    if getLE ((b0.drop (16 + 48)).take 8) < getLE ((b1.drop (16 + 48)).take 8) then .ok 1 else .ok 0

/-- `RevertMetaPage`: the other meta page is copied over the active one -/
def revertMeta (f : File) : Except String File :=
  match activeMeta f with
  | .error e => .error e
  | .ok a => if a = 0 then copyPage f 1 0 else copyPage f 0 1

/-- the two meta pages as every database produced by a history has them: page ids 0 and 1, no
    overflow, both metas valid and carrying the page size `ps` -/
def metaPagesOk (f : File) (ps : Nat) : Bool :=
  decide (4096 ≤ f.size) && decide (2 * ps ≤ f.size) && decide (80 ≤ ps) &&
  f.u32 24 == ps && f.u32 (ps + 24) == ps &&
  f.u64 0 == 0 && f.u64 ps == 1 && f.u32 12 == 0 && f.u32 (ps + 12) == 0 &&
  f.u64 56 % 2^32 != 3 &&
  metaValid f 16 && metaValid f (ps + 16)

/-- the meta struct `RevertMetaPage` keeps: the one that is not active -/
def olderOff (f : File) (ps : Nat) : Nat :=
  if f.u64 (16 + 48) < f.u64 (ps + 16 + 48) then 16 else ps + 16

end Bolt.Surgery
