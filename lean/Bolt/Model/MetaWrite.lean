/-
L0 — `Tx.writeMeta` (tx.go) at byte level: a zeroed page buffer, `Meta.Write` into it (page id
= txid % 2, meta flag, the meta struct with its checksum recomputed), written at that page's
offset.  The driver prints the page for the meta of a real commit; the `crashsim` engine compares
it byte for byte with the write the real commit issued.
-/
import Bolt.Model.Backup
import Bolt.Model.Surgery
namespace Bolt.MetaWrite
open Bolt

/-- the page `Tx.writeMeta` writes -/
def metaPageOf (ps : Nat) (m : Meta) : Bytes := Backup.metaPage ps (m.txid % 2) m

/-- the file after the meta write -/
def writeMeta (f : File) (ps : Nat) (m : Meta) : File :=
  Surgery.patch f ((m.txid % 2) * ps) (metaPageOf ps m)

/-- offset of the meta struct in the slot the transaction writes -/
def slotOff (ps : Nat) (m : Meta) : Nat := (m.txid % 2) * ps + 16

/-- offset of the meta struct in the other slot -/
def otherOff (ps : Nat) (m : Meta) : Nat := (1 - m.txid % 2) * ps + 16

end Bolt.MetaWrite
