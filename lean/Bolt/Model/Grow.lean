/-
L3 — file growth under MaxSize (`DB.allocate` pre-check, `DB.mmap`, `DB.grow`).
`mmapSize` and `growSize` are the *translated* Go functions (`Gen/Arith.lean`,
regenerated from /repo on every run); the few lines around them are modelled by hand
and tied by the `maxsize` correspondence engine plus the source-text facts in
`Gen/Cfg.lean`.
-/
import Bolt.Gen.Arith
namespace Bolt.Grow

structure Params where
  pageSize : Int
  allocSize : Int
  maxSize : Int            -- 0 = unlimited
deriving Repr

structure GS where
  fileSize : Int
  datasz : Int             -- size of the current mapping
deriving Repr, DecidableEq

inductive Err | maxSizeReached | mmapTooLarge
deriving Repr, DecidableEq

/-- the size `db.grow(sz)` truncates the file to (none: no growth needed) -/
def growTarget (P : Params) (g : GS) (sz : Int) : Option Int :=
  if sz ≤ g.fileSize then none else some (Gen.growSize P.allocSize g.datasz sz)

/-- `db.grow(sz)` (sync-grow mode, non-Windows) -/
def grow (P : Params) (g : GS) (sz : Int) : GS :=
  match growTarget P g sz with
  | none => g
  | some t => { g with fileSize := t }

/-- the `MaxSize` pre-check in `db.allocate` for an allocation from the high-water mark that
    needs the file to hold `minsz` bytes -/
def precheck (P : Params) (g : GS) (minsz : Int) : Except Err Unit :=
  if P.maxSize > 0 then
    match Gen.mmapSize P.pageSize minsz with
    | none => .error .mmapTooLarge
    | some m =>
      let nextMmap := if minsz < g.datasz then g.datasz else m
      if Gen.growSize P.allocSize nextMmap minsz > P.maxSize then .error .maxSizeReached else .ok ()
  else .ok ()

/-- `db.mmap(minsz)`: new mapping size -/
def remap (P : Params) (g : GS) (minsz : Int) : Except Err GS :=
  match Gen.mmapSize P.pageSize (if g.fileSize < minsz then minsz else g.fileSize) with
  | none => .error .mmapTooLarge
  | some m => .ok { g with datasz := m }

/-- one allocation from the high-water mark: pre-check, then remap when `minsz ≥ datasz` -/
def allocHwm (P : Params) (g : GS) (minsz : Int) : Except Err GS :=
  match precheck P g minsz with
  | .error e => .error e
  | .ok () => if minsz ≥ g.datasz then remap P g minsz else .ok g

/-- a whole commit: the high-water-mark allocations in order (their `minsz` values are
    non-decreasing: `minsz = (pgid + count + 1) * pageSize`), then `grow(last minsz)` -/
def commitGrow (P : Params) (g : GS) : List Int → Except Err GS
  | [] => .ok g
  | [m] => match allocHwm P g m with
    | .error e => .error e
    | .ok g' => .ok (grow P g' m)
  | m :: rest => match allocHwm P g m with
    | .error e => .error e
    | .ok g' => commitGrow P g' rest

end Bolt.Grow
