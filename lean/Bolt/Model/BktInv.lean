/-
Well-formedness of the bucket model's states (`Model/Bkt`), decidable so that the driver
evaluates it on every state it passes through while following real runs.
-/
import Bolt.Model.BktAbs
namespace Bolt.Bkt
open Bolt Bolt.BTree

/-- names of the nested buckets of a tree, in key order -/
def bucketNames (t : N) : List Bytes :=
  (flatten t).filterMap (fun i => if i.flags % 2 = 1 then some i.key else none)

def nodupB : List Bytes → Bool
  | [] => true
  | a :: r => !r.contains a && nodupB r

/-- a bucket of the state a transaction starts from (what the file holds): its tree is a
    committed tree with distinct page ids no deeper than the fuel, and EVERY nested bucket is
    attached — exactly the bucket elements of the tree, in key order — and is such a bucket -/
def origOkG (ids : Bool) : Nat → Bk → Bool
  | 0, _ => false
  | f+1, .mk _ _ t o =>
    decide (Committed t) && (!ids || decide ((pgids t).Nodup)) && decide (depth t ≤ f) &&
    (o.map (·.1) == bucketNames t) && o.all (fun p => origOkG ids f p.2)

/-- with distinct page ids inside every tree: what holds of a real file (the allocator hands out
    distinct pages: C07/C09) -/
def origOk (f : Nat) (b : Bk) : Bool := origOkG true f b

/-- without the page-id clause: what the model's commit produces (the pages it writes are all
    "new", 0) -/
def origShapeOk (f : Nat) (b : Bk) : Bool := origOkG false f b

/-- the bucket at `path` inside a write transaction: in-transaction tree invariant with
    untouched separators (together: `InTxR`, what `Bucket.rebalance` starts from), distinct
    page ids; the opened sub-buckets are distinct bucket elements of the tree and are
    well-formed themselves; every bucket element that is not opened exists in `orig` at that
    path (it has not been touched since the transaction began) -/
def curOk (orig : Bk) : Nat → List Bytes → Bk → Bool
  | 0, _, _ => false
  | f+1, path, .mk _ _ t o =>
    decide (InTx t) && tightN none t && decide ((pgids t).Nodup) && decide (depth t ≤ f) &&
    nodupB (o.map (·.1)) &&
    o.all (fun p => (bucketNames t).contains p.1 && curOk orig f (path ++ [p.1]) p.2) &&
    (bucketNames t).all (fun n => (lookupBk n o).isSome || (bkAt (path ++ [n]) orig).isSome)

/-- a state of the bucket model: the bucket tree the transaction started from and the top
    bucket as the transaction sees it -/
def WF (fu : Nat) (orig cur : Bk) : Prop := origOk fu orig = true ∧ curOk orig fu [] cur = true

instance (fu : Nat) (orig cur : Bk) : Decidable (WF fu orig cur) := by unfold WF; exact inferInstance

/-- inline buckets carry page id 0 on their leaf (`page.id` of an inline page is 0): a hypothesis of
    the bucket-level write theorem (`C01BktWrite`), evaluated by the `bkt` engine on every real
    start-of-transaction bucket tree -/
def inlZeroOk : Nat → Bk → Bool
  | 0, _ => true
  | f+1, b => (b.root != 0 || b.tree.hd.pgid == 0) && b.opened.all (fun p => inlZeroOk f p.2)

end Bolt.Bkt
