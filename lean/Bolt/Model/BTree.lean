/-
L2 — the copy-on-write B+tree of one bucket inside a write transaction (`bucket.go`,
`node.go`, `cursor.go`): which pages `Put`/`Delete` materialise as nodes, what `node.put` /
`node.del` do to them, `Bucket.rebalance` (`node.rebalance` with its recursion into the
parent, merge with a sibling, removal of emptied nodes, root collapse) for ANY iteration
order of the node map, and `node.spill` (children first, `split`, re-insertion into the
parent by key, growth of new roots).  The result is the tree the commit writes.

Transcription rules.  A node is a page of the committed tree (`mat = false`) or an in-memory
node (`mat = true`) with the Go fields `pgid`, `unbalanced`, `key`.  `nil` keys are `[]`.
Where the Go code locates a node *by key* (`childIndex`, `parent.del(n.key)`,
`parent.put(oldKey, …)`) the model does the same search; where the search would land on a
different inode than the node itself the Go code corrupts the tree and the model returns
`none`.  The theorems show `none` is unreachable from well-formed trees; the `btree` engine
compares every intermediate and final tree with the real one.
-/
import Bolt.Model.Node
namespace Bolt.BTree
open Bolt Bolt.Node

structure Item where
  key : Bytes
  val : Bytes
  flags : Nat
deriving Repr, DecidableEq, Inhabited

/-- the in-memory header of a node -/
structure Hd where
  pgid : Nat          -- page the node was read from (0: new node / inline root)
  mat : Bool          -- materialised as a `node` (present in `Bucket.nodes`)
  unb : Bool          -- `node.unbalanced`
  key : Bytes         -- `node.key` (first key when the page was read; [] = nil)
deriving Repr, DecidableEq, Inhabited

inductive N where
  | leaf (h : Hd) (items : List Item)
  | branch (h : Hd) (kids : List (Bytes × N))     -- (inode key, child)
deriving Repr, Inhabited

def N.hd : N → Hd
  | .leaf h _ => h
  | .branch h _ => h

def N.setHd (h : Hd) : N → N
  | .leaf _ items => .leaf h items
  | .branch _ kids => .branch h kids

def N.isLeaf : N → Bool
  | .leaf _ _ => true
  | .branch _ _ => false

def N.count : N → Nat
  | .leaf _ items => items.length
  | .branch _ kids => kids.length

/-- `inodes[0].Key()`, `[]` when there is none -/
def N.firstKey : N → Bytes
  | .leaf _ items => (items.head?.map (·.key)).getD []
  | .branch _ kids => (kids.head?.map (·.1)).getD []

def N.keys : N → List Bytes
  | .leaf _ items => items.map (·.key)
  | .branch _ kids => kids.map (·.1)

/-- element sizes as `node.size()` sees them (a branch inode has no value) -/
def N.els : N → List El
  | .leaf _ items => items.map (fun i => (i.key.length, i.val.length))
  | .branch _ kids => kids.map (fun p => (p.1.length, 0))

def N.size (n : N) : Nat := nodeSize n.els

/-- `node.minKeys()` -/
def N.minKeys (n : N) : Nat := if n.isLeaf then 1 else 2

/-- `Bucket.node(pgid, parent)` on a page that is not cached: `node.read` -/
def materialize (n : N) : N :=
  if n.hd.mat then n else n.setHd { pgid := n.hd.pgid, mat := true, unb := false, key := n.firstKey }

/-! ### search (`Cursor.seek` → `search`/`searchNode`/`searchPage`/`nsearch`) -/

/-- index chosen in a branch: first key ≥ k, stepping back one unless exact -/
def branchIdx (keys : List Bytes) (k : Bytes) : Nat :=
  let i := lowerBound keys k
  if keys[i]? ≠ some k ∧ i > 0 then i - 1 else i

/-- child indexes from the root to the leaf the cursor lands on -/
def searchPath (k : Bytes) : Nat → N → List Nat
  | 0, _ => []
  | _+1, .leaf _ _ => []
  | fuel+1, .branch _ kids =>
    let i := branchIdx (kids.map (·.1)) k
    match kids[i]? with
    | none => []
    | some (_, c) => i :: searchPath k fuel c

def nodeAt : List Nat → N → Option N
  | [], n => some n
  | i :: rest, .branch _ kids => (kids[i]?).bind (fun p => nodeAt rest p.2)
  | _ :: _, .leaf _ _ => none

/-- `Cursor.node()`: materialise every node on the path, apply `f` to the last one -/
def modifyAt (f : N → Option N) : List Nat → N → Option N
  | [], n => f (materialize n)
  | i :: rest, n =>
    match materialize n with
    | .leaf _ _ => none
    | .branch h kids =>
      match kids[i]? with
      | none => none
      | some (s, c) => (modifyAt f rest c).map (fun c' => .branch h (kids.set i (s, c')))

/-- `node.put(k, k, v, 0, 0)` on a leaf -/
def leafPut (k v : Bytes) : N → Option N
  | .leaf h items =>
    let i := lowerBound (items.map (·.key)) k
    let it : Item := { key := k, val := v, flags := 0 }
    if (items[i]?.map (·.key)) = some k then some (.leaf h (items.set i it))
    else some (.leaf h (items.take i ++ it :: items.drop i))
  | .branch _ _ => none

/-- `node.del(k)` on a leaf -/
def leafDel (k : Bytes) : N → Option N
  | .leaf h items =>
    let i := lowerBound (items.map (·.key)) k
    if (items[i]?.map (·.key)) = some k then some (.leaf { h with unb := true } (items.eraseIdx i))
    else some (.leaf h items)
  | .branch _ _ => none

/-- the element under the cursor after `seek(k)` (`keyValue()`) -/
def seekItem (k : Bytes) (fuel : Nat) (root : N) : Option Item :=
  match nodeAt (searchPath k fuel root) root with
  | some (.leaf _ items) => items[lowerBound (items.map (·.key)) k]?
  | _ => none

/-- `Bucket.Put(k, v)` (arguments already validated): `ErrIncompatibleValue` leaves the tree
    untouched — nothing is materialised -/
def putT (fuel : Nat) (root : N) (k v : Bytes) : Option N :=
  match seekItem k fuel root with
  | some it => if it.key = k ∧ it.flags % 2 = 1 then some root else modifyAt (leafPut k v) (searchPath k fuel root) root
  | none => modifyAt (leafPut k v) (searchPath k fuel root) root

/-- `Bucket.Delete(k)`: a missing key or a nested bucket leaves the tree untouched -/
def delT (fuel : Nat) (root : N) (k : Bytes) : Option N :=
  match seekItem k fuel root with
  | some it => if it.key = k ∧ it.flags % 2 = 0 then modifyAt (leafDel k) (searchPath k fuel root) root else some root
  | none => some root

/-! ### rebalance -/

/-- concatenate the inodes of `r` onto `l` (`leftNode.inodes = append(leftNode.inodes, rightNode.inodes...)`) -/
def appendInodes : N → N → Option N
  | .leaf h a, .leaf _ b => some (.leaf h (a ++ b))
  | .branch h a, .branch _ b => some (.branch h (a ++ b))
  | _, _ => none

/-- `n.rebalance()` for the root node (`n.parent == nil`); `th` = `int(pageSize*FillPercent)/2` -/
def rebalRoot (th : Nat) (n : N) : Option N :=
  if !n.hd.unb then some n else
  let n := n.setHd { n.hd with unb := false }
  if n.size > th ∧ n.count > n.minKeys then some n else
  match n with
  | .branch h [(_, c)] =>
    -- collapse: the only child's inodes move up into the root node
    match materialize c with
    | .leaf _ items => some (.leaf h items)
    | .branch _ kids => some (.branch h kids)
  | _ => some n

/-- `kids[p].rebalance()` executed inside its parent `(h, kids)`.  Returns the new parent and
    whether `parent.rebalance()` is called next. -/
def rebalChild (th : Nat) (h : Hd) (kids : List (Bytes × N)) (p : Nat) : Option (N × Bool) :=
  match kids[p]? with
  | none => none
  | some (s, n0) =>
    if !n0.hd.unb then some (.branch h kids, false) else
    let n := n0.setHd { n0.hd with unb := false }
    let kids := kids.set p (s, n)
    if n.size > th ∧ n.count > n.minKeys then some (.branch h kids, false) else
    let keys := kids.map (·.1)
    if n.count = 0 then
      -- parent.del(n.key); parent.removeChild(n); free; parent.rebalance()
      if lowerBound keys n.hd.key = p ∧ s = n.hd.key then
        some (.branch { h with unb := true } (kids.eraseIdx p), true)
      else none
    else
      if kids.length ≤ 1 then none else                 -- assert: parent has at least 2 children
      if lowerBound keys n.hd.key ≠ p then none else    -- parent.childIndex(n) must find n
      if p = 0 then
        match kids[1]? with
        | none => none
        | some (sr, r0) =>
          let r := materialize r0
          -- parent.del(rightNode.key) must remove exactly the right sibling's inode
          if lowerBound keys r.hd.key = 1 ∧ sr = r.hd.key then
            (appendInodes n r).map (fun m => (.branch { h with unb := true } ((s, m) :: kids.drop 2), true))
          else none
      else
        match kids[p-1]? with
        | none => none
        | some (sl, l0) =>
          let l := materialize l0
          -- rightNode = n: parent.del(n.key)
          if s = n.hd.key then
            (appendInodes l n).map (fun m =>
              (.branch { h with unb := true } (kids.take (p-1) ++ (sl, m) :: kids.drop (p+1)), true))
          else none

/-- walk down `path`, then run the rebalance calls on the way back up.  The flag says whether
    the caller still has to run this node's own `rebalance()`. -/
def rebalGo (th : Nat) : List Nat → N → Option (N × Bool)
  | [], n => some (n, true)
  | p :: rest, n =>
    match n with
    | .leaf _ _ => none
    | .branch h kids =>
      match kids[p]? with
      | none => none
      | some (s, c) =>
        match rebalGo th rest c with
        | none => none
        | some (c', call) =>
          let kids' := kids.set p (s, c')
          if call then rebalChild th h kids' p else some (.branch h kids', false)

/-- one iteration of `for _, n := range b.nodes { n.rebalance() }` for the node at `path` -/
def rebalanceAt (th : Nat) (root : N) (path : List Nat) : Option N :=
  match rebalGo th path root with
  | none => none
  | some (r, call) => if call then rebalRoot th r else some r

/-- the path of the materialised node with page id `pg` (the key of `Bucket.nodes`) -/
def findMat (pg : Nat) : Nat → N → Option (List Nat)
  | 0, _ => none
  | fuel+1, n =>
    if n.hd.mat ∧ n.hd.pgid = pg then some [] else
    if !n.hd.mat then none else          -- children of a page are pages
    match n with
    | .leaf _ _ => none
    | .branch _ kids =>
      (List.range kids.length).findSome? (fun i =>
        match kids[i]? with
        | some (_, c) => (findMat pg fuel c).map (i :: ·)
        | none => none)

/-- `Bucket.rebalance()` with the node map visited in the order `order` (page ids); an id
    that is no longer in the map is skipped (Go does not produce deleted map entries) -/
def rebalanceAll (th fuel : Nat) : N → List Nat → Option N
  | t, [] => some t
  | t, pg :: rest =>
    match findMat pg fuel t with
    | none => rebalanceAll th fuel t rest
    | some path =>
      match rebalanceAt th t path with
      | none => none
      | some t' => rebalanceAll th fuel t' rest

/-! ### spill -/

/-- `node.put(oldKey, newKey, nil, pgid, 0)` on a branch: replace the inode whose key is
    `oldKey`, else insert at the lower bound of `oldKey` -/
def branchPut (kids : List (Bytes × N)) (oldKey newKey : Bytes) (c : N) : List (Bytes × N) :=
  let i := lowerBound (kids.map (·.1)) oldKey
  if (kids[i]?.map (·.1)) = some oldKey then kids.set i (newKey, c)
  else kids.take i ++ (newKey, c) :: kids.drop i

/-- cut a list into consecutive pieces of the given lengths -/
def cut {α} : List Nat → List α → List (List α)
  | [], _ => []
  | n :: ns, l => l.take n :: cut ns (l.drop n)

/-- a written page: what the next transaction will read -/
def written : Hd := { pgid := 0, mat := false, unb := false, key := [] }

/-- `n.split(pageSize)` on the inodes, each piece written to its own new page -/
def splitNode (ps sth : Nat) (n : N) : List N :=
  let lens := (split ps sth n.count n.els).map (·.length)
  match n with
  | .leaf _ items => (cut lens items).map (fun p => N.leaf written p)
  | .branch _ kids => (cut lens kids).map (fun p => N.branch written p)

/-- insert the pieces of a spilled child into the parent's inodes: the first piece under the
    child's old key, the others (new nodes, `key == nil`) under their own first key -/
def putPieces (kids : List (Bytes × N)) (oldKey : Bytes) : List N → Option (List (Bytes × N))
  | [] => some kids
  | q :: rest =>
    if q.count = 0 then none else       -- `node.inodes[0]` would panic
    let key := if oldKey = [] then q.firstKey else oldKey
    putPieces (branchPut kids key q.firstKey q) [] rest

/-- `node.spill()`: the pieces this node is written as.  A page (not materialised) is not
    spilled: it stays as it is. -/
def spillN (ps sth : Nat) : Nat → N → Option (List N)
  | 0, _ => none
  | fuel+1, n =>
    if !n.hd.mat then some [n] else
    match n with
    | .leaf _ _ => some (splitNode ps sth n)
    | .branch h kids =>
      -- children first (only materialised ones are in `n.children`)
      let step (acc : Option (List (Bytes × N))) (sc : Bytes × N) : Option (List (Bytes × N)) :=
        match acc with
        | none => none
        | some ks =>
          if !sc.2.hd.mat then some ks else
          match spillN ps sth fuel sc.2 with
          | none => none
          | some pieces => putPieces ks sc.2.hd.key pieces
      match kids.foldl step (some kids) with
      | none => none
      | some kids' => some (splitNode ps sth (.branch h kids'))

/-- when the root split, a new root is created above the pieces, spilled, and so on -/
def growRoot (ps sth : Nat) : Nat → List N → Option N
  | 0, _ => none
  | _, [] => none
  | _, [p] => some p
  | fuel+1, pieces =>
    match putPieces [] [] pieces with
    | none => none
    | some kids => growRoot ps sth fuel (splitNode ps sth (.branch written kids))

/-- `Bucket.spill()` of the bucket's own nodes: `rootNode.spill()` then `rootNode.root()` -/
def spillRoot (ps sth fuel : Nat) (root : N) : Option N :=
  if !root.hd.mat then some root else
  match spillN ps sth fuel root with
  | none => none
  | some pieces => growRoot ps sth fuel pieces

/-! ### a whole transaction on the bucket -/

inductive Op
  | put (k v : Bytes)
  | del (k : Bytes)
deriving Repr, DecidableEq

def applyOp (fuel : Nat) (t : N) : Op → Option N
  | .put k v => putT fuel t k v
  | .del k => delT fuel t k

def applyOps (fuel : Nat) : N → List Op → Option N
  | t, [] => some t
  | t, o :: os => (applyOp fuel t o).bind (fun t' => applyOps fuel t' os)

/-- what `Tx.Commit` writes for the bucket: operations, `rebalance` in map order `order`,
    `spill`.  `sth = int(pageSize*clamp(FillPercent))`, `rth = int(pageSize*FillPercent)/2`. -/
def commit (ps sth rth fuel : Nat) (t : N) (ops : List Op) (order : List Nat) : Option N :=
  (applyOps fuel t ops).bind (fun t1 => (rebalanceAll rth fuel t1 order).bind (spillRoot ps sth fuel))

/-! ### the tree as a sorted association list -/

mutual
def flatten : N → List Item
  | .leaf _ items => items
  | .branch _ kids => flattenKids kids
def flattenKids : List (Bytes × N) → List Item
  | [] => []
  | (_, c) :: r => flatten c ++ flattenKids r
end

mutual
def depth : N → Nat
  | .leaf _ _ => 1
  | .branch _ kids => 1 + depthKids kids
def depthKids : List (Bytes × N) → Nat
  | [] => 0
  | (_, c) :: r => max (depth c) (depthKids r)
end

end Bolt.BTree
