/-
The invariant of a COMMITTED bucket tree (what a transaction reads from the file) as a
decidable check — the `btree` engine evaluates it on every tree the real code commits — and
the sorted-list specification of `Put`/`Delete` that the tree has to implement.
-/
import Bolt.Model.BTree
namespace Bolt.BTree
open Bolt Bolt.Node

def sortedKeys : List Bytes → Bool
  | a :: b :: r => Bytes.lt a b && sortedKeys (b :: r)
  | _ => true

mutual
/-- local well-formedness of a committed tree: pages only (nothing materialised), keys strictly
    ascending inside every node and never empty, every separator equals the first key of its
    child, all leaves at the same depth, no empty node below the root, every branch has at
    least two children -/
def committedN : Bool → N → Bool
  | root, .leaf h items =>
    !h.mat && !h.unb && (root || !items.isEmpty) &&
    sortedKeys (items.map (·.key)) && items.all (fun i => !i.key.isEmpty)
  | _, .branch h kids =>
    !h.mat && !h.unb && decide (2 ≤ kids.length) && sortedKeys (kids.map (·.1)) &&
    committedKids kids ((kids.head?.map (fun p => depth p.2)).getD 0)
def committedKids : List (Bytes × N) → Nat → Bool
  | [], _ => true
  | (s, c) :: r, d => (s == c.firstKey) && (depth c == d) && committedN false c && committedKids r d
end

/-- a committed tree: locally well-formed and its keys ascend across the whole tree -/
def Committed (t : N) : Prop := committedN true t = true ∧ sortedKeys ((flatten t).map (·.key)) = true

instance (t : N) : Decidable (Committed t) := by unfold Committed; exact inferInstance

mutual
/-- page ids of all nodes (distinct in a real file: C07) -/
def pgids : N → List Nat
  | .leaf h _ => [h.pgid]
  | .branch h kids => h.pgid :: pgidsKids kids
def pgidsKids : List (Bytes × N) → List Nat
  | [] => []
  | (_, c) :: r => pgids c ++ pgidsKids r
end

/-! ### the specification: a sorted association list -/

def insSorted (it : Item) : List Item → List Item
  | [] => [it]
  | x :: r =>
    if it.key == x.key then it :: r
    else if Bytes.lt it.key x.key then it :: x :: r
    else x :: insSorted it r

def isBucketAt (l : List Item) (k : Bytes) : Bool := (l.find? (fun i => i.key == k)).any (fun i => i.flags % 2 == 1)

/-- `Bucket.Put`: refused (unchanged) over a nested bucket; else insert-or-replace -/
def specPut (l : List Item) (k v : Bytes) : List Item :=
  if isBucketAt l k then l else insSorted { key := k, val := v, flags := 0 } l

/-- `Bucket.Delete`: refused over a nested bucket; a missing key is a no-op -/
def specDel (l : List Item) (k : Bytes) : List Item :=
  if isBucketAt l k then l else l.filter (fun i => !(i.key == k))

def specOp (l : List Item) : Op → List Item
  | .put k v => specPut l k v
  | .del k => specDel l k

def specOps (l : List Item) (ops : List Op) : List Item := ops.foldl specOp l

/-- the keys a transaction passes to `Put` are non-empty (`ErrKeyRequired` otherwise) -/
def Op.ok : Op → Prop
  | .put k _ => k ≠ []
  | .del _ => True

/-- page ids of the nodes present in `Bucket.nodes` -/
def matPgids : Nat → N → List Nat
  | 0, _ => []
  | fuel+1, n =>
    if !n.hd.mat then [] else
    match n with
    | .leaf h _ => [h.pgid]
    | .branch h kids => h.pgid :: (kids.map (fun p => matPgids fuel p.2)).flatten

end Bolt.BTree

namespace Bolt.BTree
open Bolt Bolt.Node

/-! ### the invariant of the tree INSIDE a write transaction (after any number of Put/Delete
calls and between two iterations of the `Bucket.rebalance` loop).  Decidable, so that the
driver evaluates it on every tree the model passes through while following a real run. -/

def geLo (lo : Option Bytes) (k : Bytes) : Bool := match lo with | none => true | some l => !Bytes.lt k l
def ltHi (hi : Option Bytes) (k : Bytes) : Bool := match hi with | none => true | some h => Bytes.lt k h

mutual
/-- `inTxN root parentMat lo hi n`: every key below `n` lies in `[lo, hi)`. -/
def inTxN : Bool → Bool → Option Bytes → Option Bytes → N → Bool
  | root, pmat, lo, hi, .leaf h items =>
    (!h.unb || h.mat) && (!h.mat || pmat) &&
    (root || !items.isEmpty || (h.mat && h.unb)) &&
    sortedKeys (items.map (·.key)) &&
    items.all (fun i => !i.key.isEmpty && geLo lo i.key && ltHi hi i.key)
  | _, pmat, lo, hi, .branch h kids =>
    (!h.unb || h.mat) && (!h.mat || pmat) &&
    decide (2 ≤ kids.length) && sortedKeys (kids.map (·.1)) &&
    kids.all (fun p => !p.1.isEmpty && geLo lo p.1 && ltHi hi p.1) &&
    inTxKids h.mat lo hi kids ((kids.head?.map (fun p => depth p.2)).getD 0)
/-- the first child inherits the lower bound of its parent; every other child starts at its
    separator; each child ends at the next separator -/
def inTxKids : Bool → Option Bytes → Option Bytes → List (Bytes × N) → Nat → Bool
  | _, _, _, [], _ => true
  | pmat, lo, hi, (s, c) :: r, d =>
    (s == (if c.hd.mat then c.hd.key else c.firstKey)) && (depth c == d) &&
    inTxN false pmat lo ((r.head?.map (·.1)).orElse (fun _ => hi)) c &&
    inTxKids pmat (r.head?.map (·.1)) hi r d
end

/-- the in-transaction invariant of a bucket's tree -/
def InTx (t : N) : Prop := inTxN true true none none t = true

instance (t : N) : Decidable (InTx t) := by unfold InTx; exact inferInstance

end Bolt.BTree

namespace Bolt.BTree

mutual
/-- some node still has `unbalanced` set -/
def anyUnb : N → Bool
  | .leaf h _ => h.unb
  | .branch h kids => h.unb || anyUnbKids kids
def anyUnbKids : List (Bytes × N) → Bool
  | [] => false
  | (_, c) :: r => anyUnb c || anyUnbKids r
end

end Bolt.BTree

namespace Bolt.BTree

/-! ### the invariant of the REBALANCE phase.  `inTxN` lets the first child of a node inherit
the node's lower bound (a `Put` of a key below every separator descends into child 0).  That is
not preserved when `rebalance` merges a node into its LEFT sibling: the node's first child
moves into the middle of the merged inodes, where its keys have to be ≥ its own separator.
During `Bucket.rebalance` no `Put` happens any more, and the trees that `Put`/`Delete` produce
from a committed tree satisfy the stronger `rebN`: below a node that HAS a lower bound every
child — the first one too — starts at its own separator.  (Found by the proof attempt:
`rebalanceAt` does not preserve `InTx` on a tree that `InTx` admits but no transaction
produces.) -/
mutual
def rebN : Bool → Bool → Option Bytes → Option Bytes → N → Bool
  | root, pmat, lo, hi, .leaf h items =>
    (!h.unb || h.mat) && (!h.mat || pmat) &&
    (root || !items.isEmpty || (h.mat && h.unb)) &&
    sortedKeys (items.map (·.key)) &&
    items.all (fun i => !i.key.isEmpty && geLo lo i.key && ltHi hi i.key)
  | _, pmat, lo, hi, .branch h kids =>
    (!h.unb || h.mat) && (!h.mat || pmat) &&
    decide (2 ≤ kids.length) && sortedKeys (kids.map (·.1)) &&
    kids.all (fun p => !p.1.isEmpty && geLo lo p.1 && ltHi hi p.1) &&
    rebKids h.mat lo hi kids ((kids.head?.map (fun p => depth p.2)).getD 0)
def rebKids : Bool → Option Bytes → Option Bytes → List (Bytes × N) → Nat → Bool
  | _, _, _, [], _ => true
  | pmat, lo, hi, (s, c) :: r, d =>
    (s == (if c.hd.mat then c.hd.key else c.firstKey)) && (depth c == d) &&
    rebN false pmat (lo.map (fun _ => s)) ((r.head?.map (·.1)).orElse (fun _ => hi)) c &&
    rebKids pmat (r.head?.map (·.1)) hi r d
end

/-- the invariant between two iterations of the `Bucket.rebalance` loop -/
def InTxR (t : N) : Prop := rebN true true none none t = true

instance (t : N) : Decidable (InTxR t) := by unfold InTxR; exact inferInstance

end Bolt.BTree

namespace Bolt.BTree

/-! ### separators untouched since the tree was read: the first separator of a node that has a
lower bound is that bound.  True of committed trees, kept by `Put`/`Delete` (they never change a
separator); with `InTx` it gives `InTxR` (`Lemmas/BTreeReb`: `inTxR_of_inTx_tight`). -/
mutual
def tightN : Option Bytes → N → Bool
  | _, .leaf _ _ => true
  | lo, .branch _ kids =>
    (match lo with | none => true | some l => kids.head?.map (·.1) == some l) && tightKids lo kids
def tightKids : Option Bytes → List (Bytes × N) → Bool
  | _, [] => true
  | lo, (_, c) :: r => tightN lo c && tightKids (r.head?.map (·.1)) r
end

end Bolt.BTree
