/-
L4 — the lock discipline of the database entry points (`db.go`, `tx.go`).

Four locks: `rwlock` (one writer), `metalock` (meta page / reader registration),
`mmaplock` (RWMutex: readers hold it shared for their whole life, `DB.mmap` and `Close`
take it exclusively), `statlock`.  Each goroutine runs one of the *programs* below — the
lock/unlock sequences of `beginTx … removeTx`, `beginRWTx … Commit/Rollback … tx.close`
(with or without a remap and the `writeMeta` critical section), their early-error paths,
`Close` and `Stats` — transcribed from the source; `Props/GenC03.lean` proves that the
lock operations extracted from the current source are the ones transcribed here.
Goroutine scheduling is arbitrary interleaving of enabled actions.
-/
namespace Bolt.Locks

inductive Act
  | lockRw | unlockRw
  | lockMeta | unlockMeta
  | lockStat | unlockStat
  | rlockMmap | runlockMmap
  | lockMmap | unlockMmap
  | setRwtx | clearRwtx          -- db.rwtx = t / nil (inside the writer's critical sections)
deriving Repr, DecidableEq

structure St where
  progs : List (List Act)        -- remaining program of every goroutine
  rw : Option Nat                -- holder of rwlock
  mt : Option Nat                -- holder of metalock
  stat : Option Nat
  mmapW : Option Nat             -- exclusive holder of mmaplock
  mmapR : List Nat               -- shared holders of mmaplock
  rwtx : Option Nat              -- db.rwtx
deriving Repr, DecidableEq

/-- a read transaction: `beginTx`, body, `removeTx` -/
def reader : List Act :=
  [.lockMeta, .rlockMmap, .unlockMeta, .lockStat, .unlockStat,
   .runlockMmap, .lockMeta, .unlockMeta, .lockStat, .unlockStat]
/-- `beginTx` failing its opened/mapping check -/
def readerFail : List Act := [.lockMeta, .rlockMmap, .runlockMmap, .unlockMeta]
/-- a write transaction that commits without remapping: `beginRWTx`, `writeMeta`, `tx.close` -/
def writerCommit : List Act :=
  [.lockRw, .lockMeta, .setRwtx, .unlockMeta, .lockMeta, .unlockMeta, .clearRwtx, .unlockRw, .lockStat, .unlockStat]
/-- … with a remap (`DB.mmap`) during allocation -/
def writerCommitRemap : List Act :=
  [.lockRw, .lockMeta, .setRwtx, .unlockMeta, .lockMmap, .unlockMmap, .lockMeta, .unlockMeta,
   .clearRwtx, .unlockRw, .lockStat, .unlockStat]
/-- rollback, or a commit failing before `writeMeta` (`tx.rollback()` then `tx.close()`) -/
def writerRollback : List Act :=
  [.lockRw, .lockMeta, .setRwtx, .unlockMeta, .clearRwtx, .unlockRw, .lockStat, .unlockStat]
/-- a commit failing after a remap -/
def writerRollbackRemap : List Act :=
  [.lockRw, .lockMeta, .setRwtx, .unlockMeta, .lockMmap, .unlockMmap, .clearRwtx, .unlockRw, .lockStat, .unlockStat]
/-- `beginRWTx` failing its opened/mapping check (deferred `metalock.Unlock`) -/
def writerFail : List Act := [.lockRw, .lockMeta, .unlockRw, .unlockMeta]
/-- `DB.Close` (deferred unlocks run in reverse order) -/
def closeDb : List Act := [.lockRw, .lockMeta, .lockMmap, .unlockMmap, .unlockMeta, .unlockRw]
/-- `DB.Stats` -/
def stats : List Act := [.lockStat, .unlockStat]

def programs : List (List Act) :=
  [reader, readerFail, writerCommit, writerCommitRemap, writerRollback, writerRollbackRemap, writerFail, closeDb, stats]

/-- can goroutine `i` perform `a` now? -/
def enabled (s : St) (i : Nat) : Act → Bool
  | .lockRw => s.rw.isNone
  | .unlockRw => s.rw == some i
  | .lockMeta => s.mt.isNone
  | .unlockMeta => s.mt == some i
  | .lockStat => s.stat.isNone
  | .unlockStat => s.stat == some i
  | .rlockMmap => s.mmapW.isNone
  | .runlockMmap => s.mmapR.contains i
  | .lockMmap => s.mmapW.isNone && s.mmapR.isEmpty
  | .unlockMmap => s.mmapW == some i
  | .setRwtx => true
  | .clearRwtx => true

def apply (s : St) (i : Nat) : Act → St
  | .lockRw => { s with rw := some i }
  | .unlockRw => { s with rw := none }
  | .lockMeta => { s with mt := some i }
  | .unlockMeta => { s with mt := none }
  | .lockStat => { s with stat := some i }
  | .unlockStat => { s with stat := none }
  | .rlockMmap => { s with mmapR := i :: s.mmapR }
  | .runlockMmap => { s with mmapR := s.mmapR.erase i }
  | .lockMmap => { s with mmapW := some i }
  | .unlockMmap => { s with mmapW := none }
  | .setRwtx => { s with rwtx := some i }
  | .clearRwtx => { s with rwtx := none }

/-- goroutine `i` takes one step -/
def step (s : St) (i : Nat) : Option St :=
  match s.progs[i]? with
  | some (a :: rest) => if enabled s i a then some { apply s i a with progs := s.progs.set i rest } else none
  | _ => none

inductive Reach (s0 : St) : St → Prop
  | refl : Reach s0 s0
  | step {s s' : St} (i : Nat) : Reach s0 s → step s i = some s' → Reach s0 s'

/-- initial state: all locks free, every goroutine about to run one of the programs -/
def start (ps : List (List Act)) : St :=
  { progs := ps, rw := none, mt := none, stat := none, mmapW := none, mmapR := [], rwtx := none }

end Bolt.Locks
