/-
L0 — the independent version-2 reader: decodes a whole database file from its
bytes using only the published layout (`Spec/PublishedV2.lean`): meta selection,
B+tree walk with bounds/cycle guards, inline buckets, overflow spans, freelist
page with the 0xFFFF count convention.  Core-only, executable, total (fuel).
-/
import Bolt.Model.Meta
import Bolt.Spec.NestedMap
namespace Bolt

structure PageHdr where
  id : Nat
  flags : Nat
  count : Nat
  overflow : Nat
deriving Repr, DecidableEq, Inhabited

/-- page header at byte offset `base` -/
def pageHdrAt (f : File) (base : Nat) : PageHdr :=
  { id := f.u64 base, flags := f.u16 (base+8), count := f.u16 (base+10), overflow := f.u32 (base+12) }

structure LeafElem where
  flags : Nat
  key : Bytes
  val : Bytes
deriving Repr, DecidableEq, Inhabited

structure BranchElem where
  key : Bytes
  pgid : Nat
deriving Repr, DecidableEq, Inhabited

/-- leaf element `i` of the page at `base`; `limit` = first byte after the page's span.
    `none` when the element header or its key/value bytes lie outside the page. -/
def leafElemAt (f : File) (base limit i : Nat) : Option LeafElem :=
  let e := base + V2.pageHeaderSize + V2.elemSize * i
  if e + V2.elemSize > limit then none else
  let flags := f.u32 e
  let pos := f.u32 (e+4)
  let ks := f.u32 (e+8)
  let vs := f.u32 (e+12)
  if e + pos + ks + vs > limit then none else
  some { flags := flags, key := f.read (e+pos) ks, val := f.read (e+pos+ks) vs }

def branchElemAt (f : File) (base limit i : Nat) : Option BranchElem :=
  let e := base + V2.pageHeaderSize + V2.elemSize * i
  if e + V2.elemSize > limit then none else
  let pos := f.u32 e
  let ks := f.u32 (e+4)
  let pg := f.u64 (e+8)
  if e + pos + ks > limit then none else
  some { key := f.read (e+pos) ks, pgid := pg }

def allSome : List (Option α) → Option (List α)
  | [] => some []
  | none :: _ => none
  | some x :: r => (allSome r).map (x :: ·)

def leafElems (f : File) (base limit count : Nat) : Option (List LeafElem) :=
  allSome ((List.range count).map (leafElemAt f base limit))

def branchElems (f : File) (base limit count : Nat) : Option (List BranchElem) :=
  allSome ((List.range count).map (branchElemAt f base limit))

/-- What the decoder reports about the physical structure. -/
structure Phys where
  pages : List (Nat × Nat × Nat)   -- (page id, overflow, flags) of every tree page visited, in visit order
  errors : List String
deriving Repr, Inhabited

def Phys.empty : Phys := { pages := [], errors := [] }
def Phys.err (p : Phys) (e : String) : Phys := { p with errors := p.errors ++ [e] }
def Phys.page (p : Phys) (id ovf fl : Nat) : Phys := { p with pages := p.pages ++ [(id, ovf, fl)] }

def bytesLt : Bytes → Bytes → Bool
  | [], [] => false
  | [], _ :: _ => true
  | _ :: _, [] => false
  | a :: as, b :: bs => if a < b then true else if b < a then false else bytesLt as bs

def keysAscending : List Bytes → Bool
  | [] => true
  | [_] => true
  | a :: b :: r => bytesLt a b && keysAscending (b :: r)

mutual
/-- Decode the subtree rooted at page `pg`: returns the key/value entries in order. -/
def decodeTree (f : File) (ps hwm : Nat) : Nat → Nat → Phys → (List (Bytes × SVal) × Phys)
  | 0, pg, ph => ([], ph.err s!"page {pg}: tree too deep or cyclic")
  | fuel+1, pg, ph =>
    if pg < 2 ∨ pg ≥ hwm then ([], ph.err s!"page {pg}: out of range [2,{hwm})") else
    let base := pg * ps
    let h := pageHdrAt f base
    let limit := base + (h.overflow + 1) * ps
    let ph := if h.id ≠ pg then ph.err s!"page {pg}: header id {h.id}" else ph
    let ph := if pg + h.overflow ≥ hwm then ph.err s!"page {pg}: overflow {h.overflow} beyond high-water mark" else ph
    let ph := ph.page pg h.overflow h.flags
    if h.flags = V2.leafPageFlag then
      match leafElems f base limit h.count with
      | none => ([], ph.err s!"page {pg}: leaf element outside the page")
      | some es =>
        let ph := if keysAscending (es.map (·.key)) then ph else ph.err s!"page {pg}: leaf keys not ascending"
        let ph := if es.any (fun e => e.key.isEmpty) then ph.err s!"page {pg}: empty key" else ph
        decodeLeafItems f ps hwm fuel es ph
    else if h.flags = V2.branchPageFlag then
      match branchElems f base limit h.count with
      | none => ([], ph.err s!"page {pg}: branch element outside the page")
      | some es =>
        let ph := if keysAscending (es.map (·.key)) then ph else ph.err s!"page {pg}: branch keys not ascending"
        let ph := if es.isEmpty then ph.err s!"page {pg}: empty branch" else ph
        decodeKids f ps hwm fuel es ph
    else ([], ph.err s!"page {pg}: invalid type flags {h.flags}")
termination_by fuel => (fuel, 0)

/-- children of a branch page, in order; checks every child's first key ≥ the separator -/
def decodeKids (f : File) (ps hwm : Nat) : Nat → List BranchElem → Phys → (List (Bytes × SVal) × Phys)
  | _, [], ph => ([], ph)
  | fuel, e :: rest, ph =>
    let (a, ph) := decodeTree f ps hwm fuel e.pgid ph
    let ph := match a with
      | (k, _) :: _ => if bytesLt k e.key then ph.err s!"page {e.pgid}: first key below the parent separator" else ph
      | [] => ph
    -- every key of this child is below the next separator
    let ph := match rest with
      | nxt :: _ => if a.any (fun kv => !bytesLt kv.1 nxt.key) then ph.err s!"page {e.pgid}: key not below the next separator of the parent" else ph
      | [] => ph
    let (b, ph) := decodeKids f ps hwm fuel rest ph
    (a ++ b, ph)
termination_by fuel es => (fuel, es.length + 1)

/-- leaf items: plain values, or nested buckets (inline page after the 16-byte header
    when root = 0, else a subtree) -/
def decodeLeafItems (f : File) (ps hwm : Nat) : Nat → List LeafElem → Phys → (List (Bytes × SVal) × Phys)
  | _, [], ph => ([], ph)
  | fuel, e :: rest, ph =>
    let (item, ph) :=
      if e.flags % 2 = 1 then   -- bucketLeafFlag
        if e.val.length < V2.bucketHeaderSize then ((e.key, SVal.bkt 0 []), ph.err "bucket value shorter than its header") else
        let root := getLE (e.val.take 8)
        let seq := getLE ((e.val.drop 8).take 8)
        if root = 0 then
          -- inline bucket: a leaf page image follows the header inside the value
          let g : File := { size := e.val.length, get := fun i => e.val.getD i 0 }
          let h := pageHdrAt g V2.bucketHeaderSize
          if h.flags ≠ V2.leafPageFlag then ((e.key, SVal.bkt seq []), ph.err "inline bucket page is not a leaf") else
          match leafElems g V2.bucketHeaderSize e.val.length h.count with
          | none => ((e.key, SVal.bkt seq []), ph.err "inline bucket element outside its value")
          | some es =>
            let ph := if keysAscending (es.map (·.key)) then ph else ph.err "inline bucket keys not ascending"
            let ph := if es.any (fun x => x.flags % 2 = 1) then ph.err "inline bucket holds a nested bucket" else ph
            ((e.key, SVal.bkt seq (es.map (fun x => (x.key, SVal.val x.val)))), ph)
        else
          let (ents, ph) := decodeTree f ps hwm fuel root ph
          ((e.key, SVal.bkt seq ents), ph)
      else ((e.key, SVal.val e.val), ph)
    let (more, ph) := decodeLeafItems f ps hwm fuel rest ph
    (item :: more, ph)
termination_by fuel es => (fuel, es.length + 1)
end

/-- The freelist page: ids listed (0xFFFF convention), its overflow. -/
def decodeFreelist (f : File) (ps pg : Nat) : Except String (List Nat × Nat) :=
  let base := pg * ps
  let h := pageHdrAt f base
  if h.flags ≠ V2.freelistPageFlag then .error s!"page {pg}: not a freelist page (flags {h.flags})" else
  let (idx, count) := if h.count = 0xFFFF then (1, f.u64 (base + 16)) else (0, h.count)
  if 16 + 8 * (idx + count) > (h.overflow + 1) * ps then .error s!"page {pg}: freelist ids exceed the page span" else
  .ok ((List.range count).map (fun i => f.u64 (base + 16 + 8 * (idx + i))), h.overflow)

/-- Everything the independent reader extracts from a file at the meta struct `moff`. -/
structure Decoded where
  pageSize : Nat
  mt : Meta
  content : SVal                       -- the root bucket as a nested map
  treePages : List (Nat × Nat × Nat)   -- (id, overflow, flags)
  freelistPage : Option (Nat × Nat)    -- (id, overflow) when persisted
  freeIds : List Nat                   -- ids listed on the freelist page
  errors : List String
deriving Inhabited

def decodeAt (f : File) (ps moff : Nat) : Decoded :=
  let m := metaAt f moff
  let (ents, ph) := decodeTree f ps m.pgid 64 m.root Phys.empty
  let (flp, ids, errs) :=
    if m.freelist = V2.pgidNoFreelist then (none, [], ph.errors)
    else if m.freelist < 2 ∨ m.freelist ≥ m.pgid then (none, [], ph.errors ++ [s!"freelist page {m.freelist} out of range"])
    else match decodeFreelist f ps m.freelist with
      | .ok (ids, ovf) => (some (m.freelist, ovf), ids, ph.errors)
      | .error e => (none, [], ph.errors ++ [e])
  { pageSize := ps, mt := m, content := SVal.bkt m.seq ents, treePages := ph.pages,
    freelistPage := flp, freeIds := ids, errors := errs }

/-- Open the file the way `Open` does (page size, meta choice), then decode. -/
def decodeFile (f : File) (osPageSize : Nat) : Except String Decoded :=
  match openMeta f osPageSize with
  | .error _ => .error "open: no valid meta"
  | .ok (ps, moff) => .ok (decodeAt f ps moff)

/-! ### accounting (C07): every page below the high-water mark is exactly one of
    meta, freelist page, reachable once, or listed free once -/

def spanOf (p : Nat × Nat) : List Nat := (List.range (p.2 + 1)).map (p.1 + ·)

def countOcc (l : List Nat) (x : Nat) : Nat := (l.filter (· == x)).length

structure Accounting where
  leaked : List Nat        -- neither reachable nor free
  doubleRef : List Nat     -- reachable more than once (incl. overlap with the freelist page)
  freeAndUsed : List Nat   -- listed free and reachable
  doubleFree : List Nat
  freeOutOfRange : List Nat
deriving Repr, Inhabited

/-- `extraFree`: ids to treat as free when the freelist is not persisted (the caller passes
    the complement, making `leaked` vacuous there, or the in-memory free+pending ids). -/
def accounting (d : Decoded) : Accounting :=
  let used : List Nat := (d.treePages.flatMap (fun p => spanOf (p.1, p.2.1))) ++
                         (match d.freelistPage with | some p => spanOf p | none => [])
  let all := (List.range (d.mt.pgid - 2)).map (· + 2)
  { leaked := if d.freelistPage.isSome then all.filter (fun q => !used.contains q && !d.freeIds.contains q) else [],
    doubleRef := all.filter (fun q => countOcc used q > 1),
    freeAndUsed := d.freeIds.filter (fun q => used.contains q),
    doubleFree := d.freeIds.filter (fun q => countOcc d.freeIds q > 1),
    freeOutOfRange := d.freeIds.filter (fun q => q < 2 ∨ q ≥ d.mt.pgid) }

def Accounting.ok (a : Accounting) : Bool :=
  a.leaked.isEmpty && a.doubleRef.isEmpty && a.freeAndUsed.isEmpty && a.doubleFree.isEmpty && a.freeOutOfRange.isEmpty

end Bolt
