/-
L2 — the verdict logic of `Tx.check` (`tx_check.go`): double-freed ids, the reachability /
multiple-reference / reachable-freed / invalid-type pass over every page visited by the
bucket walk (`verifyPageReachable`, every id of the page's span), the unreachable-unfreed
sweep, and the key-order walk (abstracted to its error count).  The set of visited pages is
an input (it is what `forEachPage` over every bucket yields; the Lean decoder computes the
same list from the file bytes).
-/
namespace Bolt.Check

structure PageInfo where
  id : Nat
  ovf : Nat
  kind : Nat          -- page flags: 1 branch, 2 leaf, anything else is invalid in a tree
deriving Repr, DecidableEq

structure CheckIn where
  hwm : Nat
  visited : List PageInfo      -- in visit order; a page referenced twice appears twice
  freelistSpan : List Nat      -- ids of the freelist page's span ([] when not persisted)
  freeMem : List Nat           -- `Copyall` of the in-memory list (free ∪ pending)
  freeDisk : List Nat          -- ids on the persisted freelist page ([] when not persisted)
  keyErrs : Nat                -- violations found by `recursivelyCheckPageKeyOrder`
deriving Repr

inductive Err
  | alreadyFreed (id : Nat)
  | outOfBounds (id : Nat)
  | multipleRefs (id : Nat)
  | reachableFreed (id : Nat)
  | invalidType (id : Nat)
  | unreachableUnfreed (id : Nat)
  | keyOrder
deriving Repr, DecidableEq

def span (p : PageInfo) : List Nat := (List.range (p.ovf + 1)).map (p.id + ·)

/-- ids that occur again later in the list (one error per repeated occurrence) -/
def dups : List Nat → List Nat
  | [] => []
  | x :: r => (if r.contains x then [x] else []) ++ dups r

/-- `verifyPageReachable` for one page, threading the `reachable` set -/
def visitPage (hwm : Nat) (freed : List Nat) (reach : List Nat) (p : PageInfo) : List Nat × List Err :=
  let oob := if p.id > hwm then [Err.outOfBounds p.id] else []
  let multi := (span p).filter (fun id => reach.contains id) |>.map Err.multipleRefs
  let rf := (span p).filter (fun id => freed.contains id) |>.map Err.reachableFreed
  let ty := if rf.isEmpty ∧ p.kind ≠ 1 ∧ p.kind ≠ 2 then [Err.invalidType p.id] else []
  (reach ++ span p, oob ++ multi ++ rf ++ ty)

def visitAll (hwm : Nat) (freed : List Nat) : List PageInfo → List Nat → List Nat × List Err
  | [], reach => (reach, [])
  | p :: rest, reach =>
    let (r1, e1) := visitPage hwm freed reach p
    let (r2, e2) := visitAll hwm freed rest r1
    (r2, e1 ++ e2)

/-- `Tx.check` -/
def check (d : CheckIn) : List Err :=
  let e1 := (dups d.freeMem).map Err.alreadyFreed ++ (dups d.freeDisk).map Err.alreadyFreed
  let reach0 := [0, 1] ++ d.freelistSpan
  let (reach, e2) := visitAll d.hwm d.freeMem d.visited reach0
  let e3 := (List.range d.hwm).filter (fun i => !reach.contains i && !d.freeMem.contains i) |>.map Err.unreachableUnfreed
  let e4 := if d.keyErrs > 0 then [Err.keyOrder] else []
  e1 ++ e2 ++ e3 ++ e4

/-- the pinned tree's `verifyPageReachable` looked up only the head page id in the free set (F9) -/
def visitPagePinned (hwm : Nat) (freed : List Nat) (reach : List Nat) (p : PageInfo) : List Nat × List Err :=
  let oob := if p.id > hwm then [Err.outOfBounds p.id] else []
  let multi := (span p).filter (fun id => reach.contains id) |>.map Err.multipleRefs
  let rf := if freed.contains p.id then [Err.reachableFreed p.id] else []
  let ty := if rf.isEmpty ∧ p.kind ≠ 1 ∧ p.kind ≠ 2 then [Err.invalidType p.id] else []
  (reach ++ span p, oob ++ multi ++ rf ++ ty)

end Bolt.Check
