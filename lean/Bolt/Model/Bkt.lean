/-
L2 — a bucket with its nested buckets inside a write transaction (`bucket.go`): the cache of
opened sub-buckets (`Bucket.buckets`), `Bucket.Bucket`, `CreateBucket`, `DeleteBucket`,
`Put`/`Delete`, `SetSequence`/`NextSequence`, and at commit `Bucket.rebalance` and
`Bucket.spill`: a sub-bucket that fits is written INLINE into its parent's leaf element
(header + serialised root leaf), any other one is spilled like a tree and its header stored;
the parent's element is rewritten only when the child has a materialised root node.

Each bucket's own B+tree is `BTree.N` with the operations of `Model/BTree`.  The value of a
nested-bucket element is opaque except for its LENGTH (it decides node sizes, hence splits):
16 bytes header, plus the serialised root leaf when the bucket is inline.  What an unopened
nested bucket holds is looked up in `orig`, the bucket tree as it was when the transaction began
(its element cannot have changed: creating a bucket opens it, deleting one removes the element).
-/
import Bolt.Model.BTreeInv
namespace Bolt.Bkt
open Bolt Bolt.BTree Bolt.Node

/-- `root` = `InBucket.root` (0 = inline), `seq` = `InBucket.sequence`, `tree` = the bucket's own
    node tree, `opened` = `Bucket.buckets` -/
inductive Bk where
  | mk (root : Nat) (seq : Nat) (tree : N) (opened : List (Bytes × Bk))
deriving Repr, Inhabited

def Bk.root : Bk → Nat | .mk r _ _ _ => r
def Bk.seq : Bk → Nat | .mk _ s _ _ => s
def Bk.tree : Bk → N | .mk _ _ t _ => t
def Bk.opened : Bk → List (Bytes × Bk) | .mk _ _ _ o => o

def Bk.setTree (t : N) : Bk → Bk | .mk r s _ o => .mk r s t o
def Bk.setOpened (o : List (Bytes × Bk)) : Bk → Bk | .mk r s t _ => .mk r s t o
def Bk.setSeq (s : Nat) : Bk → Bk | .mk r _ t o => .mk r s t o
def Bk.setRoot (r : Nat) : Bk → Bk | .mk _ s t o => .mk r s t o

def lookupBk (name : Bytes) (l : List (Bytes × Bk)) : Option Bk := (l.find? (fun p => p.1 == name)).map (·.2)

/-- the bucket at `path` below `b`, through `opened` links -/
def bkAt : List Bytes → Bk → Option Bk
  | [], b => some b
  | n :: rest, b => (lookupBk n b.opened).bind (bkAt rest)

/-- replace the bucket at `path` -/
def modifyBk (f : Bk → Option Bk) : List Bytes → Bk → Option Bk
  | [], b => f b
  | n :: rest, b =>
    match lookupBk n b.opened with
    | none => none
    | some c =>
      (modifyBk f rest c).map (fun c' => b.setOpened (b.opened.map (fun p => if p.1 == n then (p.1, c') else p)))

def zeros (n : Nat) : Bytes := List.replicate n 0

/-- the fuel the driver runs with (tree descents and bucket nesting) -/
def fuel : Nat := 64

/-- `node.put(k, k, v, 0, flags)` on a leaf (the general form of `BTree.leafPut`) -/
def leafPutF (k v : Bytes) (flags : Nat) : N → Option N
  | .leaf h items =>
    let i := lowerBound (items.map (·.key)) k
    let it : Item := { key := k, val := v, flags := flags }
    if (items[i]?.map (·.key)) = some k then some (.leaf h (items.set i it))
    else some (.leaf h (items.take i ++ it :: items.drop i))
  | .branch _ _ => none

/-- a freshly opened bucket knows no sub-bucket yet -/
def closeAll : Bk → Bk | .mk r s t _ => .mk r s t []

/-- `b.Bucket(name)` for the bucket `b` that sits at `path` (cache hit, or open from the
    element; `none` = the Go call returns nil) -/
def openAt (fu : Nat) (orig : Bk) (path : List Bytes) (name : Bytes) (b : Bk) : Option Bk :=
  match lookupBk name b.opened with
  | some _ => some b
  | none =>
    match seekItem name fu b.tree with
    | some it =>
      if it.key = name ∧ it.flags % 2 = 1 then
        (bkAt (path ++ [name]) orig).map (fun c => b.setOpened (b.opened ++ [(name, closeAll c)]))
      else none
    | none => none

/-- the value `Bucket.write()` produces for a new, empty inline bucket: header + empty leaf page -/
def newBucketVal : Bytes := zeros 32

def emptyInline : Bk := .mk 0 0 (.leaf { pgid := 0, mat := false, unb := false, key := [] } []) []

/-- `b.CreateBucket(name)`; `none` = refused (exists / incompatible value / empty name) -/
def createAt (fu : Nat) (name : Bytes) (b : Bk) : Option Bk :=
  if name = [] then none else
  match seekItem name fu b.tree with
  | some it => if it.key = name then none else go
  | none => go
where go : Option Bk :=
  (modifyAt (leafPutF name newBucketVal 1) (searchPath name fu b.tree) b.tree).map (fun t =>
    (b.setTree t).setOpened (b.opened.filter (fun p => !(p.1 == name)) ++ [(name, emptyInline)]))

/-- `b.DeleteBucket(name)`; `none` = refused (missing / not a bucket) -/
def deleteAt (fu : Nat) (name : Bytes) (b : Bk) : Option Bk :=
  match seekItem name fu b.tree with
  | some it =>
    if it.key = name ∧ it.flags % 2 = 1 then
      (modifyAt (leafDel name) (searchPath name fu b.tree) b.tree).map (fun t =>
        (b.setTree t).setOpened (b.opened.filter (fun p => !(p.1 == name))))
    else none
  | none => none

def putAt (fu : Nat) (k v : Bytes) (b : Bk) : Option Bk := (putT fu b.tree k v).map b.setTree
def delAt (fu : Nat) (k : Bytes) (b : Bk) : Option Bk := (delT fu b.tree k).map b.setTree

/-- `SetSequence` / `NextSequence`: the root node is materialised so that the bucket is written -/
def setSeqAt (s : Nat) (b : Bk) : Option Bk := some ((b.setTree (materialize b.tree)).setSeq s)

/-- `NextSequence`: like `SetSequence` with the incremented counter -/
def nextSeqAt (b : Bk) : Option Bk := setSeqAt ((b.seq + 1) % 2^64) b   -- `uint64` counter

/-- `Bucket.Get(k)`: `none` for a missing key and for a nested bucket; sees the transaction's own
    uncommitted writes (materialised nodes) -/
def getAt (fu : Nat) (k : Bytes) (b : Bk) : Option Bytes :=
  match seekItem k fu b.tree with
  | some it => if it.key = k ∧ it.flags % 2 = 0 then some it.val else none
  | none => none

/-- every nested bucket of `b`, at every depth, is in the cache (`opened`) -/
def fullyOpened : Nat → Bk → Bool
  | 0, _ => false
  | f+1, .mk _ _ t o =>
    ((flatten t).filterMap (fun i => if i.flags % 2 = 1 then some i.key else none)).all (fun n =>
      match lookupBk n o with
      | some c => fullyOpened f c
      | none => false)

/-- `src.MoveBucket(k, dst)` for opened buckets at the paths `src`, `dst`.  `none` = refused
    (missing / not a bucket / same bucket / key exists in the destination / destination inside the
    moved bucket) — or outside the model's domain: the model covers the move of a bucket that is
    opened together with everything nested in it (its cache entry is handed over to the
    destination); the move of an unopened bucket (its raw element value is copied) is covered by
    the API-level correspondence (`apiprog`) only. -/
def moveAt (fu : Nat) (src : List Bytes) (k : Bytes) (dst : List Bytes) (cur : Bk) : Option Bk :=
  match bkAt src cur, bkAt dst cur with
  | some sb, some db =>
    match seekItem k fu sb.tree with
    | some it =>
      if it.key = k ∧ it.flags % 2 = 1 then
        if src = dst then none else
        if (match seekItem k fu db.tree with | some dit => dit.key == k | none => false) then none else
        if isPrefixOf (src ++ [k]) dst then none else
        match lookupBk k sb.opened with
        | none => none
        | some c =>
          if !fullyOpened fu c then none else
          (modifyBk (fun b => (modifyAt (leafDel k) (searchPath k fu b.tree) b.tree).map (fun t =>
              (b.setTree t).setOpened (b.opened.filter (fun p => !(p.1 == k))))) src cur).bind (fun cur1 =>
            modifyBk (fun b => (modifyAt (leafPutF k it.val 1) (searchPath k fu b.tree) b.tree).map (fun t =>
              (b.setTree t).setOpened (b.opened.filter (fun p => !(p.1 == k)) ++ [(k, c)]))) dst cur1)
      else none
    | none => none
  | _, _ => none

/-! ### commit -/

/-- `Bucket.rebalance()`: own nodes (in map order `order`), then every opened sub-bucket -/
def rebalanceBk (th fu : Nat) (order : List Nat) : Nat → Bk → Option Bk
  | 0, _ => none
  | f+1, .mk r s t o =>
    match rebalanceAll th fu t order with
    | none => none
    | some t' =>
      let step (acc : Option (List (Bytes × Bk))) (p : Bytes × Bk) : Option (List (Bytes × Bk)) :=
        match acc with
        | none => none
        | some l => (rebalanceBk th fu order f p.2).map (fun c => l ++ [(p.1, c)])
      (o.foldl step (some [])).map (fun o' => .mk r s t' o')

/-- `Bucket.inlineable()` -/
def inlineableBk (ps : Nat) (b : Bk) : Bool :=
  match b.tree with
  | .leaf h items => h.mat && inlineable ps (items.map (fun i => ((i.key.length, i.val.length), i.flags % 2 == 1)))
  | .branch _ _ => false

/-- the bucket as an inline bucket: root page 0, its root leaf serialised into the parent's element -/
def asInline : Bk → Bk
  | .mk _ s (.leaf _ items) o => .mk 0 s (.leaf written items) o
  | b => b

/-- marker for "a page id the commit allocated" -/
def newPage : Nat := 1

/-- `Bucket.spill()`.  Returns the bucket as written and whether `rootNode != nil` held before
    the bucket's own nodes were spilled (the caller rewrites the parent's element only then). -/
def spillBk (ps sth fu : Nat) : Nat → Bk → Option (Bk × Bool)
  | 0, _ => none
  | f+1, .mk r s t o =>
    -- sub-buckets first; each one updates its element in this bucket's tree
    let step (acc : Option (N × List (Bytes × Bk))) (p : Bytes × Bk) : Option (N × List (Bytes × Bk)) :=
      match acc with
      | none => none
      | some (t, done) =>
        let name := p.1
        let child := p.2
        let r : Option (Bk × Bool × Nat) :=
          if inlineableBk ps child then
            -- child.free(); value = child.write(): header + the serialised root leaf
            some (asInline child, true, 16 + child.tree.size)
          else
            (spillBk ps sth fu f child).map (fun (c, had) => (c, had, 16))
        match r with
        | none => none
        | some (c, hadRoot, vlen) =>
          if !hadRoot then some (t, done ++ [(name, c)]) else
          -- c.seek(name) must land on the bucket's own element
          match seekItem name fu t with
          | some it =>
            if it.key = name ∧ it.flags % 2 = 1 then
              (modifyAt (leafPutF name (zeros vlen) 1) (searchPath name fu t) t).map (fun t' => (t', done ++ [(name, c)]))
            else none
          | none => none
    match o.foldl step (some (t, [])) with
    | none => none
    | some (t1, o') =>
      if !t1.hd.mat then some (.mk r s t1 o', false) else
      (spillRoot ps sth fu t1).map (fun t2 => (.mk newPage s t2 o', true))

/-- the whole transaction on the bucket: `Bucket.rebalance` then `Bucket.spill`; the top bucket
    itself is a sub-bucket of the transaction's root bucket, so it too is written inline when
    it fits -/
def commitBk (ps sth rth fu : Nat) (order : List Nat) (b : Bk) : Option Bk :=
  (rebalanceBk rth fu order fu b).bind (fun b1 =>
    if inlineableBk ps b1 then some (asInline b1)
    else (spillBk ps sth fu fu b1).map (·.1))

/-- the same for the transaction's ROOT bucket (`tx.root`): it is never inline; `Tx.Commit` calls
    `tx.root.rebalance()` and `tx.root.spill()` and stores the new root page in the meta -/
def commitRoot (ps sth rth fu : Nat) (order : List Nat) (b : Bk) : Option Bk :=
  (rebalanceBk rth fu order fu b).bind (fun b1 => (spillBk ps sth fu fu b1).map (·.1))

/-! ### what the next transaction reads: every nested bucket, opened or not -/

/-- `full orig path b`: the bucket at `path` with EVERY nested bucket attached: the opened ones
    as the transaction left them, the others as they were in `orig` -/
def full (orig : Bk) : Nat → List Bytes → Bk → Bk
  | 0, _, b => b
  | f+1, path, .mk r s t o =>
    let names := (flatten t).filterMap (fun i => if i.flags % 2 = 1 then some i.key else none)
    let kids := names.filterMap (fun n =>
      match lookupBk n o with
      | some c => some (n, full orig f (path ++ [n]) c)
      | none => (bkAt (path ++ [n]) orig).map (fun c => (n, c)))
    .mk r s t kids

end Bolt.Bkt
