/-
L2 — the pure functions of the B+tree node layer (`node.go`, `bucket.go`): node size,
`sizeLessThan`, `splitIndex`, `splitTwo`/`split`, sorted `put`/`del`, `Bucket.inlineable`.
Elements are abstracted to (key size, value size) where only sizes matter.  Tied to the Go
functions by the `nodeops` engine through the verif export hooks (same inputs, same outputs).
-/
import Bolt.Spec.NestedMap
namespace Bolt.Node

abbrev El := Nat × Nat      -- (len key, len value)

def elSize (e : El) : Nat := 16 + e.1 + e.2

/-- `node.size()` (leaf and branch elements are both 16 bytes) -/
def nodeSize (l : List El) : Nat := 16 + (l.map elSize).sum

/-- `node.sizeLessThan(v)`: early-exit scan -/
def sizeLessThanAux (v : Nat) : Nat → List El → Bool
  | _, [] => true
  | sz, e :: r => let sz' := sz + elSize e; if sz' ≥ v then false else sizeLessThanAux v sz' r

def sizeLessThan (v : Nat) (l : List El) : Bool := sizeLessThanAux v 16 l

/-- the loop of `node.splitIndex(threshold)`: `i` runs over `0 .. len-3`; returns the index at
    which it breaks, or the last `i` visited -/
def splitIndexAux (threshold len : Nat) : Nat → Nat → Nat → List El → Nat
  | _, _, index, [] => index
  | i, sz, index, e :: r =>
    if i + 2 < len then
      if i ≥ 2 ∧ sz + elSize e > threshold then i
      else splitIndexAux threshold len (i+1) (sz + elSize e) i r
    else index

def splitIndex (threshold : Nat) (l : List El) : Nat := splitIndexAux threshold l.length 0 16 0 l

/-- `node.split(pageSize)`: repeated `splitTwo`; `threshold = int(pageSize * fillPercent)` -/
def split (pageSize threshold : Nat) : Nat → List El → List (List El)
  | 0, l => [l]
  | fuel+1, l =>
    if l.length ≤ 4 ∨ sizeLessThan pageSize l then [l]
    else
      let k := splitIndex threshold l
      l.take k :: split pageSize threshold fuel (l.drop k)

/-- `Bucket.inlineable()` for a materialised leaf root: no nested bucket and the running size
    never exceeds `pageSize / 4` -/
def inlineableAux (maxSz : Nat) : Nat → List (El × Bool) → Bool
  | _, [] => true
  | sz, (e, isBucket) :: r =>
    let sz' := sz + elSize e
    if isBucket then false else if sz' > maxSz then false else inlineableAux maxSz sz' r

def inlineable (pageSize : Nat) (l : List (El × Bool)) : Bool := inlineableAux (pageSize / 4) 16 l

/-! ### sorted put / del (`node.put`, `node.del` with `sort.Search`) -/

def lowerBound (keys : List Bytes) (k : Bytes) : Nat := (keys.takeWhile (fun x => Bytes.lt x k)).length

/-- `node.put(k, k, …)`: replace at the lower bound if equal, else insert there -/
def put (keys : List Bytes) (k : Bytes) : List Bytes :=
  let i := lowerBound keys k
  if keys[i]? = some k then keys else keys.take i ++ k :: keys.drop i

/-- `node.del(k)` -/
def del (keys : List Bytes) (k : Bytes) : List Bytes :=
  let i := lowerBound keys k
  if keys[i]? = some k then keys.take i ++ keys.drop (i+1) else keys

end Bolt.Node
