/-
L2 — cursor navigation (`cursor.go`) over a B+tree whose nodes may be on-disk pages
or materialised nodes (the distinction is irrelevant to navigation: `elemRef` only uses
`isLeaf`, `count` and the child at an index).  Leaves may be EMPTY (what deletes earlier
in the same write transaction leave behind before rebalance).

Transcribed: `first`, `Last`, `next`, `prev` (with the repaired empty-page handling),
`seek`/`search`/`nsearch`, `goToFirstElementOnTheStack`, `last`, `keyValue`.
The stack is a list of frames, TOP FIRST (Go: `c.stack[len-1]` is the head here).
Loops take fuel; the theorems quantify over any fuel ≥ an explicit bound.
-/
import Bolt.Spec.NestedMap
namespace Bolt.Cur

/-- one leaf element: key, value, flags (bit 0 = nested bucket) -/
structure Item where
  key : Bytes
  val : Bytes
  flags : Nat
deriving Repr, DecidableEq, Inhabited

inductive Tree where
  | leaf (items : List Item)
  | branch (kids : List (Bytes × Tree))   -- (separator key, child)
deriving Repr, Inhabited

def Tree.count : Tree → Nat
  | .leaf items => items.length
  | .branch kids => kids.length

def Tree.isLeaf : Tree → Bool
  | .leaf _ => true
  | .branch _ => false

def Tree.child (t : Tree) (i : Int) : Option Tree :=
  match t with
  | .leaf _ => none
  | .branch kids => if i < 0 then none else (kids[i.toNat]?).map (·.2)

structure Frame where
  node : Tree
  index : Int
deriving Repr, Inhabited

abbrev Stack := List Frame   -- top first

/-- `keyValue()`: the element under the cursor, or none. -/
def keyValue (st : Stack) : Option Item :=
  match st with
  | [] => none
  | f :: _ =>
    match f.node with
    | .leaf items =>
      if items.length = 0 ∨ f.index ≥ items.length ∨ f.index < 0 then none else items[f.index.toNat]?
    | .branch _ => none

/-- `goToFirstElementOnTheStack`: descend through the child at the top frame's index,
    pushing frames with index 0, until a leaf is on top. -/
def goToFirst : Nat → Stack → Stack
  | 0, st => st
  | fuel+1, st =>
    match st with
    | [] => []
    | f :: rest =>
      if f.node.isLeaf then st else
      match f.node.child f.index with
      | none => st
      | some c => goToFirst fuel ({ node := c, index := 0 } :: f :: rest)

/-- `last()`: descend through the child at the top frame's index, pushing frames with
    index `count-1`, until a leaf is on top. -/
def goToLast : Nat → Stack → Stack
  | 0, st => st
  | fuel+1, st =>
    match st with
    | [] => []
    | f :: rest =>
      if f.node.isLeaf then st else
      match f.node.child f.index with
      | none => st
      | some c => goToLast fuel ({ node := c, index := (c.count : Int) - 1 } :: f :: rest)

/-- pop frames until one can move right; `none` = at the end (stack untouched by caller) -/
def advance : Stack → Option Stack
  | [] => none
  | f :: rest => if f.index < (f.node.count : Int) - 1 then some ({ f with index := f.index + 1 } :: rest) else advance rest

/-- pop frames until one can move left -/
def retreat : Stack → Option Stack
  | [] => none
  | f :: rest => if f.index > 0 then some ({ f with index := f.index - 1 } :: rest) else retreat rest

def topCount (st : Stack) : Nat := match st with | [] => 0 | f :: _ => f.node.count

/-- `next()`; `d` = fuel for descents (tree depth), `fuel` = bound on skipped empty leaves. -/
def next (d : Nat) : Nat → Stack → Stack × Option Item
  | 0, st => (st, none)
  | fuel+1, st =>
    match advance st with
    | none => (st, none)
    | some st1 =>
      let st2 := goToFirst d st1
      if topCount st2 = 0 then next d fuel st2 else (st2, keyValue st2)

/-- `nextSkipping()`: `next` that also reports whether it stepped over an empty page -/
def nextS (d : Nat) : Nat → Bool → Stack → Stack × Option Item × Bool
  | 0, sk, st => (st, none, sk)
  | fuel+1, sk, st =>
    match advance st with
    | none => (st, none, sk)
    | some st1 =>
      let st2 := goToFirst d st1
      if topCount st2 = 0 then nextS d fuel true st2 else (st2, keyValue st2, sk)

/-- `first()` -/
def first (d fuel : Nat) (root : Tree) : Stack × Option Item :=
  let st := goToFirst d [{ node := root, index := 0 }]
  if topCount st = 0 then
    let r := next d fuel st
    (r.1, r.2)
  else (st, keyValue st)

/-- the backwards step shared by `prev()` (repaired: skips empty pages like `next`) -/
def stepBack (d : Nat) : Nat → Stack → Option Stack
  | 0, _ => none
  | fuel+1, st =>
    match retreat st with
    | none => none
    | some st1 =>
      let st2 := goToLast d st1
      if topCount st2 = 0 then stepBack d fuel st2 else some st2

/-- where the stack is left when `prev` walks off the beginning: in the Go code the frames
    were popped/moved while searching, then `c.first()` repositions on the first element -/
def prev (d fuel : Nat) (root : Tree) (st : Stack) : Stack × Option Item :=
  match stepBack d fuel st with
  | some st' => (st', keyValue st')
  | none => if st.isEmpty then (st, none) else ((first d fuel root).1, none)

/-- `Cursor.Last()` -/
def last (d fuel : Nat) (root : Tree) : Stack × Option Item :=
  let st := goToLast d [{ node := root, index := (root.count : Int) - 1 }]
  if topCount st = 0 then prev d fuel root st else (st, keyValue st)

/-- `Cursor.Next()` (repaired, F11): running off the end across pages emptied earlier in the
    transaction leaves the cursor on the last element (`c.Last()`), as when nothing was skipped -/
def nextPub (d fuel : Nat) (root : Tree) (st : Stack) : Stack × Option Item :=
  match nextS d fuel false st with
  | (st', some it, _) => (st', some it)
  | (st', none, skipped) => if skipped then ((last d fuel root).1, none) else (st', none)

/-- index of the first element whose key is ≥ `k` (`sort.Search`) -/
def lowerBound (keys : List Bytes) (k : Bytes) : Nat := (keys.takeWhile (fun x => Bytes.lt x k)).length

/-- `search`: leaf: `nsearch`; branch: `searchNode/searchPage` (step back one unless exact). -/
def search (k : Bytes) : Nat → Tree → Stack → Stack
  | 0, _, st => st
  | fuel+1, t, st =>
    match t with
    | .leaf items => { node := t, index := lowerBound (items.map (·.key)) k } :: st
    | .branch kids =>
      let i := lowerBound (kids.map (·.1)) k
      let exact := (kids[i]?).any (fun p => p.1 == k)
      let idx := if !exact ∧ i > 0 then i - 1 else i
      match kids[idx]? with
      | none => { node := t, index := idx } :: st
      | some c => search k fuel c.2 ({ node := t, index := idx } :: st)

/-- `Cursor.Seek()` -/
def seek (d fuel : Nat) (root : Tree) (k : Bytes) : Stack × Option Item :=
  let st := search k d root []
  match st with
  | [] => (st, none)
  | f :: _ => if f.index ≥ f.node.count then next d fuel st else (st, keyValue st)

/-! ### the tree as a sorted list -/

mutual
def flatten : Tree → List Item
  | .leaf items => items
  | .branch kids => flattenKids kids
def flattenKids : List (Bytes × Tree) → List Item
  | [] => []
  | (_, c) :: r => flatten c ++ flattenKids r
end

mutual
def depth : Tree → Nat
  | .leaf _ => 1
  | .branch kids => 1 + depthKids kids
def depthKids : List (Bytes × Tree) → Nat
  | [] => 0
  | (_, c) :: r => max (depth c) (depthKids r)
end

mutual
def size : Tree → Nat
  | .leaf _ => 1
  | .branch kids => 1 + sizeKids kids
def sizeKids : List (Bytes × Tree) → Nat
  | [] => 0
  | (_, c) :: r => size c + sizeKids r
end

/-- what the public API shows for an element: nested buckets have a nil value -/
def Item.view (i : Item) : Bytes × Option Bytes := (i.key, if i.flags % 2 = 1 then none else some i.val)

end Bolt.Cur
