/-
L1 — the free-page allocator (`internal/freelist/{shared,array,hashmap}.go`).

Hand-written model, tied to the Go code by the allocator-only correspondence
engine (`vh flprog`) and by the allocator trace of every DB-level engine.

Representation choices (see DESIGN §4 L1):
* Go maps become association lists; map iteration order is never observable
  (every result is sorted / merged) except in `hashMap.Allocate`, where the chosen
  span start is an explicit *choice* argument checked for legality.
* `txPending.ids/alloctx` (parallel slices, swap-removal) become one list of pairs.
* The hashmap backend's three indexes (`freemaps`, `forwardMap`, `backwardMap`) and
  `freePagesCount` are redundant views of one set of maximal spans; the model keeps
  the span list `(start, size)` sorted by start.
* `cache` (fast lookup of free ∪ pending ids) is derived (`FL.freed`).
* Transaction ids are `Nat` below `2^64`; the three places where the Go code does
  unsigned arithmetic (`minid-1`, `tid-1`, `tid+1`) are guarded (`> 0`) or use `inc64`.
-/
namespace Bolt.FL

abbrev Pgid := Nat
abbrev Txid := Nat

def maxU64 : Nat := 2^64 - 1
def inc64 (x : Nat) : Nat := if x = maxU64 then 0 else x + 1

inductive Kind | array | hashmap
deriving Repr, DecidableEq

structure TxPending where
  ids : List (Pgid × Txid)        -- (page id, txid that allocated it or 0)
  lastReleaseBegin : Txid
deriving Repr, DecidableEq

structure FL where
  kind : Kind
  ids : List Pgid                 -- array backend: all free ids, sorted
  spans : List (Pgid × Nat)       -- hashmap backend: maximal free spans (start, size), sorted by start
  readers : List Txid             -- readonlyTXIDs
  allocs : List (Pgid × Txid)     -- allocs map
  pending : List (Txid × TxPending)
deriving Repr, DecidableEq

def empty (k : Kind) : FL := { kind := k, ids := [], spans := [], readers := [], allocs := [], pending := [] }

/-! ### sorted-list helpers -/

def insertSorted (x : Nat) : List Nat → List Nat
  | [] => [x]
  | y :: ys => if x ≤ y then x :: y :: ys else y :: insertSorted x ys

def sortNat (l : List Nat) : List Nat := l.foldr insertSorted []

/-- merge of two sorted lists (`common.Mergepgids`) -/
def mergeSorted : List Nat → List Nat → List Nat
  | [], b => b
  | a, [] => a
  | x :: a, y :: b => if x ≤ y then x :: mergeSorted a (y :: b) else y :: mergeSorted (x :: a) b
termination_by a b => a.length + b.length

def isSorted : List Nat → Bool
  | [] => true
  | [_] => true
  | x :: y :: r => x ≤ y && isSorted (y :: r)

/-! ### hashmap backend: spans -/

def expandSpan (s : Pgid × Nat) : List Pgid := (List.range s.2).map (s.1 + ·)

def spanIds (spans : List (Pgid × Nat)) : List Pgid := spans.flatMap expandSpan

/-- `hashMap.Init` on a sorted id list: group maximal runs of consecutive ids. -/
def spansOfSorted : List Pgid → List (Pgid × Nat)
  | [] => []
  | x :: xs => go x 1 xs
where
  go (start : Pgid) (size : Nat) : List Pgid → List (Pgid × Nat)
    | [] => [(start, size)]
    | y :: ys => if y = start + size then go start (size+1) ys else (start, size) :: go y 1 ys

def insertSpan (s : Pgid × Nat) : List (Pgid × Nat) → List (Pgid × Nat)
  | [] => [s]
  | t :: ts => if s.1 ≤ t.1 then s :: t :: ts else t :: insertSpan s ts

/-- `mergeWithExistingSpan(start, end)`: merge the run with a span ending at
    `start-1` (backwardMap) and a span starting at `end+1` (forwardMap). -/
def mergeWithExisting (spans : List (Pgid × Nat)) (start stop : Pgid) : List (Pgid × Nat) :=
  let prev := spans.find? (fun s => s.1 + s.2 = start)       -- span whose last id is start-1
  let next := spans.find? (fun s => s.1 = stop + 1)
  let spans1 := match prev with
    | some p => spans.filter (fun s => s.1 ≠ p.1)
    | none => spans
  let spans2 := match next with
    | some q => spans1.filter (fun s => s.1 ≠ q.1)
    | none => spans1
  let newStart := match prev with | some p => p.1 | none => start
  let newSize := (stop - start + 1) + (match prev with | some p => p.2 | none => 0)
                                    + (match next with | some q => q.2 | none => 0)
  insertSpan (newStart, newSize) spans2

/-- runs of consecutive ids in a sorted list, as (start, end) -/
def runsOfSorted : List Pgid → List (Pgid × Pgid)
  | [] => []
  | x :: xs => go x x xs
where
  go (start stop : Pgid) : List Pgid → List (Pgid × Pgid)
    | [] => [(start, stop)]
    | y :: ys => if y = stop + 1 then go start y ys else (start, stop) :: go y y ys

def hmMergeSpans (spans : List (Pgid × Nat)) (ids : List Pgid) : List (Pgid × Nat) :=
  (runsOfSorted (sortNat ids)).foldl (fun sp r => mergeWithExisting sp r.1 r.2) spans

/-- Is `choice` a start the Go code may return from `hashMap.Allocate(n)`?
    Exact-size spans are preferred; otherwise any span of size ≥ n. -/
def hmChoiceLegal (spans : List (Pgid × Nat)) (n : Nat) (choice : Pgid) : Bool :=
  match spans.find? (fun s => s.1 = choice) with
  | none => false
  | some s =>
    if spans.any (fun t => t.2 = n) then s.2 = n else s.2 ≥ n

def hmHasFit (spans : List (Pgid × Nat)) (n : Nat) : Bool := spans.any (fun t => t.2 ≥ n)

/-! ### backend-generic views -/

def FL.freeIds (f : FL) : List Pgid :=
  match f.kind with
  | .array => f.ids
  | .hashmap => spanIds f.spans

def FL.pendingIds (f : FL) : List Pgid := f.pending.flatMap (fun p => p.2.ids.map (·.1))

def FL.freeCount (f : FL) : Nat := f.freeIds.length
def FL.pendingCount (f : FL) : Nat := f.pendingIds.length
def FL.count (f : FL) : Nat := f.freeCount + f.pendingCount

/-- `Freed(id)`: membership in the cache = free ∪ pending. -/
def FL.freed (f : FL) (id : Pgid) : Bool := f.freeIds.contains id || f.pendingIds.contains id

/-- `Init(ids)` (ids sorted; the hashmap backend panics otherwise → `none`). -/
def FL.init (f : FL) (ids : List Pgid) : Option FL :=
  match f.kind with
  | .array => some { f with ids := ids }
  | .hashmap => if isSorted ids then some { f with spans := spansOfSorted ids } else none

def FL.mergeSpans (f : FL) (ids : List Pgid) : FL :=
  match f.kind with
  | .array => { f with ids := mergeSorted f.ids (sortNat ids) }
  | .hashmap => if ids.isEmpty then f else { f with spans := hmMergeSpans f.spans ids }

/-! ### Allocate -/

/-- The first-fit scan of `array.Allocate`: returns `(initial, index i of the last id
    of the run)`; `none` = no run of `n` consecutive ids. `error` = the panic on an id ≤ 1. -/
def arrayScan (n : Nat) : List Pgid → (initial previd : Pgid) → (i : Nat) → Except Unit (Option (Pgid × Nat))
  | [], _, _, _ => .ok none
  | id :: rest, initial, previd, i =>
    if id ≤ 1 then .error () else
    let initial' := if previd = 0 ∨ id - previd ≠ 1 then id else initial
    if (id - initial') + 1 = n then .ok (some (initial', i))
    else arrayScan n rest initial' id (i+1)

def setAlloc (allocs : List (Pgid × Txid)) (id : Pgid) (tx : Txid) : List (Pgid × Txid) :=
  (id, tx) :: allocs.filter (fun a => a.1 ≠ id)

/-- `Allocate(txid, n)`; for the hashmap backend `choice` is the id the
    implementation returned (0 = none). Result: `(new state, returned id)`;
    `none` = the implementation's answer is not one the code can give / panic. -/
def FL.allocate (f : FL) (txid : Txid) (n : Nat) (choice : Pgid) : Option (FL × Pgid) :=
  match f.kind with
  | .array =>
    if f.ids.isEmpty then some (f, 0) else
    match arrayScan n f.ids 0 0 0 with
    | .error _ => none
    | .ok none => some (f, 0)
    | .ok (some (initial, i)) =>
      some ({ f with ids := f.ids.take (i + 1 - n) ++ f.ids.drop (i + 1),
                     allocs := setAlloc f.allocs initial txid }, initial)
  | .hashmap =>
    if n = 0 then (if choice = 0 then some (f, 0) else none) else
    if choice = 0 then (if hmHasFit f.spans n then none else some (f, 0)) else
    if hmChoiceLegal f.spans n choice then
      match f.spans.find? (fun s => s.1 = choice) with
      | none => none
      | some s =>
        let rest := f.spans.filter (fun t => t.1 ≠ choice)
        let spans' := if s.2 > n then insertSpan (choice + n, s.2 - n) rest else rest
        some ({ f with spans := spans', allocs := setAlloc f.allocs choice txid }, choice)
    else none

/-! ### Free / Rollback -/

def lookupAlloc (allocs : List (Pgid × Txid)) (id : Pgid) : Option Txid :=
  (allocs.find? (fun a => a.1 = id)).map (·.2)

def addPending (pending : List (Txid × TxPending)) (txid : Txid) (new : List (Pgid × Txid)) :
    List (Txid × TxPending) :=
  match pending.find? (fun p => p.1 = txid) with
  | some _ => pending.map (fun p => if p.1 = txid then (p.1, { p.2 with ids := p.2.ids ++ new }) else p)
  | none => pending ++ [(txid, { ids := new, lastReleaseBegin := 0 })]

/-- `Free(txid, page id, overflow)`; `none` = panic (page ≤ 1, or some id already free/pending). -/
def FL.free (f : FL) (txid : Txid) (id : Pgid) (overflow : Nat) : Option FL :=
  if id ≤ 1 then none else
  let run := (List.range (overflow + 1)).map (id + ·)
  if run.any f.freed then none else
  let atx := (lookupAlloc f.allocs id).getD 0
  some { f with allocs := f.allocs.filter (fun a => a.1 ≠ id),
                pending := addPending f.pending txid (run.map (fun q => (q, atx))) }

/-- `Rollback(txid)`; `none` = the panic "freed page was allocated by the same transaction". -/
def FL.rollback (f : FL) (txid : Txid) : Option FL :=
  match f.pending.find? (fun p => p.1 = txid) with
  | none => some f
  | some (_, txp) =>
    if txp.ids.any (fun q => q.2 ≠ 0 ∧ q.2 = txid) then none else
    let restored := txp.ids.foldl (fun al q => if q.2 = 0 then al else setAlloc al q.1 q.2) f.allocs
    some { f with pending := f.pending.filter (fun p => p.1 ≠ txid),
                  allocs := restored.filter (fun a => a.2 ≠ txid) }

/-! ### readers and release -/

def FL.addReader (f : FL) (t : Txid) : FL := { f with readers := f.readers ++ [t] }

/-- removes the first occurrence (the Go code swaps the last element in; order is
    irrelevant because `ReleasePendingPages` sorts) -/
def FL.removeReader (f : FL) (t : Txid) : FL := { f with readers := f.readers.erase t }

/-- `release(txid)`: everything pending for transactions `≤ txid` becomes free. -/
def FL.release (f : FL) (txid : Txid) : FL :=
  let moved := (f.pending.filter (fun p => p.1 ≤ txid)).flatMap (fun p => p.2.ids.map (·.1))
  ({ f with pending := f.pending.filter (fun p => ¬ p.1 ≤ txid) }).mergeSpans moved

/-- `releaseRange(begin, end)`. -/
def FL.releaseRange (f : FL) (b e : Txid) : FL :=
  if b > e then f else
  let hit (p : Txid × TxPending) : Bool := b ≤ p.1 ∧ p.1 ≤ e ∧ p.2.lastReleaseBegin ≠ b
  let sel (q : Pgid × Txid) : Bool := b ≤ q.2 ∧ q.2 ≤ e
  let moved := (f.pending.filter hit).flatMap (fun p => (p.2.ids.filter sel).map (·.1))
  let pending' := f.pending.filterMap (fun p =>
      if hit p then
        let rest := p.2.ids.filter (fun q => !sel q)
        if rest.isEmpty then none else some (p.1, { ids := rest, lastReleaseBegin := b })
      else some p)
  ({ f with pending := pending' }).mergeSpans moved

/-- `ReleasePendingPages()`. -/
def FL.releasePending (f : FL) : FL :=
  let rs := sortNat f.readers
  let f := { f with readers := rs }
  let minid := match rs with | [] => maxU64 | r :: _ => r
  let f := if minid > 0 then f.release (minid - 1) else f
  let (f, minid) := rs.foldl (fun (acc : FL × Txid) tid =>
      ((if tid > 0 then acc.1.releaseRange acc.2 (tid - 1) else acc.1), inc64 tid)) (f, minid)
  f.releaseRange minid maxU64

/-! ### serialisation -/

/-- `Copyall`: free ids merged with the sorted pending ids. -/
def FL.copyall (f : FL) : List Pgid := mergeSorted f.freeIds (sortNat f.pendingIds)

/-- Abstract content of the freelist page written by `Write`: header count and the
    uint64 array that follows the header. -/
def FL.write (f : FL) : Nat × List Nat :=
  let l := f.count
  if l = 0 then (0, [])
  else if l < 0xFFFF then (l, f.copyall)
  else (0xFFFF, l :: f.copyall)

/-- `FreelistPageIds` on such a page. -/
def pageIds (count : Nat) (arr : List Nat) : List Pgid :=
  if count = 0xFFFF then
    match arr with
    | [] => []
    | c :: rest => rest.take c
  else arr.take count

/-- `Read(page)`: ids copied, sorted, `Init`. -/
def FL.read (f : FL) (count : Nat) (arr : List Nat) : Option FL :=
  f.init (sortNat (pageIds count arr))

/-- `NoSyncReload(ids)`: drop currently pending ids, `Init`. -/
def FL.noSyncReload (f : FL) (ids : List Pgid) : Option FL :=
  f.init (ids.filter (fun id => !f.pendingIds.contains id))

/-- `Reload(page)` = `Read` then `NoSyncReload(freePageIds)`. -/
def FL.reload (f : FL) (count : Nat) (arr : List Nat) : Option FL :=
  (f.read count arr).bind (fun g => g.noSyncReload g.freeIds)

/-- `EstimatedWritePageSize`. -/
def FL.estimatedWritePageSize (f : FL) : Nat :=
  let n := f.count
  16 + 8 * (if n ≥ 0xFFFF then n + 1 else n)

end Bolt.FL
