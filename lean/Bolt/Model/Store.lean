/-
L3 — the transaction / version / disk protocol (`tx.go`, `db.go`), at the level of
page *sets*: which pages each committed version references, which pages a write
transaction frees, allocates and writes, when readers pin versions, when the
allocator may recycle pages, and what is durable when.  The allocator is the L1
model `Bolt.FL` itself (not an abstraction of it).

The step function is driven by the events the hooks observe on the real code
(`beginR/endR/beginW/alloc/free/commit/rollback/failedCommit`); its guards are the
facts the harness checks on every real trace (trace inclusion).  Page contents are
ghost *stamps* (the txid that wrote the page), enough to state "unchanged".
-/
import Bolt.Model.Freelist
namespace Bolt.Store
open Bolt.FL

/-- A committed version: the pages it references (tree pages with their overflow
    spans and the freelist page span) each with the stamp of the transaction that
    wrote it; its high-water mark. -/
structure Version where
  txid : Nat
  hwm : Nat
  content : List (Pgid × Nat)
deriving Repr, DecidableEq, Inhabited

def Version.used (v : Version) : List Pgid := v.content.map (·.1)

/-- the open write transaction -/
structure W where
  txid : Nat
  hwm : Nat                   -- tx.meta.pgid
  allocated : List Pgid       -- every page id allocated so far (runs expanded)
  freed : List Pgid           -- every page id passed to Free so far (runs expanded)
deriving Repr, DecidableEq, Inhabited

structure St where
  cur : Version               -- newest committed version (meta slot txid % 2)
  old : Option Version        -- what the other meta slot still describes
  readers : List Version      -- open read transactions (their versions)
  fl : FL
  w : Option W
  disk : List (Pgid × Nat)    -- in-file stamp of every page ever written (latest first)
deriving Repr

def run (id n : Nat) : List Pgid := (List.range n).map (id + ·)

def diskGet (d : List (Pgid × Nat)) (p : Pgid) : Option Nat := (d.find? (·.1 == p)).map (·.2)

/-- the stamp a version records for a page it references -/
def stampOf (v : Version) (p : Pgid) : Option Nat := (v.content.find? (·.1 == p)).map (·.2)

inductive Ev
  | beginR                                  -- DB.beginTx: pins `cur`
  | endR (txid : Nat)                       -- Tx.Rollback of a reader at that version
  | beginW                                  -- DB.beginRWTx: ReleasePendingPages
  | alloc (n : Nat) (choice : Pgid)         -- Tx.allocate(n); `choice` = what freelist.Allocate returned (0: from the high-water mark)
  | free (id : Pgid) (ovf : Nat)            -- freelist.Free(page)
  | commit                                  -- successful Commit: data pages written + synced, meta written + synced
  | rollback                                -- Tx.Rollback of the writer (before Commit: nothing allocated)
  | failedCommit                            -- Commit failed before the meta write: rollback() + freelist reload
  | reopen (k : Kind)                       -- Close + Open (no transaction open), possibly with the other freelist backend
deriving Repr, DecidableEq

/-- `db.allocate`: from the free list, else from the high-water mark. -/
def allocStep (s : St) (w : W) (n choice : Nat) : Option St :=
  match s.fl.allocate w.txid n choice with
  | none => none
  | some (fl', id) =>
    if id ≠ 0 then some { s with fl := fl', w := some { w with allocated := w.allocated ++ run id n } }
    else some { s with fl := fl', w := some { w with hwm := w.hwm + n, allocated := w.allocated ++ run w.hwm n } }

/-- the version a successful commit publishes: inherited pages keep their stamps,
    allocated pages carry this transaction's stamp -/
def newVersion (cur : Version) (w : W) : Version :=
  { txid := w.txid, hwm := w.hwm,
    content := cur.content.filter (fun pc => !w.freed.contains pc.1) ++ w.allocated.map (fun p => (p, w.txid)) }

def step (s : St) : Ev → Option St
  | .beginR => some { s with readers := s.cur :: s.readers, fl := s.fl.addReader s.cur.txid }
  | .endR t =>
    match s.readers.find? (fun v => v.txid == t) with
    | none => none
    | some v => some { s with readers := s.readers.erase v, fl := s.fl.removeReader t }
  | .beginW =>
    if s.w.isSome then none else
    some { s with fl := s.fl.releasePending,
                  w := some { txid := s.cur.txid + 1, hwm := s.cur.hwm, allocated := [], freed := [] } }
  | .alloc n choice =>
    match s.w with
    | none => none
    | some w => if n = 0 then none else allocStep s w n choice
  | .free id ovf =>
    match s.w with
    | none => none
    | some w =>
      -- the code frees only pages of the version it started from, each at most once, and a
      -- freed run (page + overflow) is always one page image written by one transaction
      if (run id (ovf+1)).all (fun p => s.cur.used.contains p && !w.freed.contains p &&
            (stampOf s.cur p == stampOf s.cur id)) then
        match s.fl.free w.txid id ovf with
        | none => none
        | some fl' => some { s with fl := fl', w := some { w with freed := w.freed ++ run id (ovf+1) } }
      else none
  | .commit =>
    match s.w with
    | none => none
    | some w =>
      let nv := newVersion s.cur w
      some { s with cur := nv, old := some s.cur, w := none,
                    disk := w.allocated.map (fun p => (p, w.txid)) ++ s.disk }
  | .rollback =>
    match s.w with
    | none => none
    | some w =>
      if w.allocated ≠ [] then none else
      match s.fl.rollback w.txid with
      | none => none
      | some fl' => some { s with fl := fl', w := none }
  | .failedCommit =>
    match s.w with
    | none => none
    | some w =>
      -- rollback(): Rollback(txid), then the free ids are reloaded from the committed
      -- state: everything below cur.hwm that cur does not use and that is not pending.
      -- Data pages already written carry this transaction's stamp (they were free).
      match s.fl.rollback w.txid with
      | none => none
      | some fl1 =>
        match fl1.noSyncReload ((List.range s.cur.hwm).filter (fun p => 2 ≤ p ∧ !s.cur.used.contains p)) with
        | none => none
        | some fl2 => some { s with fl := fl2, w := none,
                                    disk := w.allocated.map (fun p => (p, w.txid)) ++ s.disk }
  | .reopen _ => none   -- handled by `stepAll`

/-- the free ids a (re)opened database starts with: everything below the high-water mark
    that the newest version does not reference (read from the freelist page, or rebuilt by
    scanning when it is not persisted — C13 `scan_eq_persisted` says these coincide) -/
def freshFree (v : Version) : List Pgid := (List.range v.hwm).filter (fun p => 2 ≤ p ∧ !v.used.contains p)

def stepReopen (s : St) (k : Kind) : Option St :=
  if s.w.isSome ∨ s.readers ≠ [] then none else
  match (FL.empty k).init (freshFree s.cur) with
  | none => none
  | some fl => some { s with fl := fl }

def stepAll (s : St) : Ev → Option St
  | .reopen k => stepReopen s k
  | e => step s e

def runEvs : St → List Ev → Option St
  | s, [] => some s
  | s, e :: es => (stepAll s e).bind (fun s' => runEvs s' es)

/-- a freshly initialised database (`DB.init`): meta 0/1, freelist page 2, root leaf 3 -/
def init (k : Kind) : St :=
  { cur := { txid := 1, hwm := 4, content := [(2, 0), (3, 0)] },
    old := some { txid := 0, hwm := 4, content := [(2, 0), (3, 0)] },
    readers := [], fl := FL.empty k, w := none, disk := [(2, 0), (3, 0)] }

/-! ### what a reader / the newest version can see -/

/-- the file holds exactly the version's pages (every used page still carries its stamp) -/
def Intact (disk : List (Pgid × Nat)) (v : Version) : Prop :=
  ∀ pc ∈ v.content, diskGet disk pc.1 = some pc.2

/-! ### crash semantics of one commit (C01)

The commit I/O program is: data pages (= `w.allocated`) ; fdatasync ; meta page into
slot `txid % 2` ; fdatasync.  A crash persists an arbitrary subset of the writes issued
since the last completed sync. -/

inductive CrashPoint
  | duringData (persisted : List Pgid)      -- before the first sync completed: any subset of the data pages
  | duringMeta (metaPersisted : Bool)       -- data synced; the meta write did or did not reach the disk intact
                                            -- (a torn meta fails its checksum and counts as not persisted: L0 `torn_meta`)
  | afterCommit
deriving Repr

/-- the durable file after a crash at `cp` while committing `w` on top of `s` -/
def crashDisk (s : St) (w : W) : CrashPoint → List (Pgid × Nat)
  | .duringData ps => (w.allocated.filter (fun p => ps.contains p)).map (fun p => (p, w.txid)) ++ s.disk
  | .duringMeta _ => w.allocated.map (fun p => (p, w.txid)) ++ s.disk
  | .afterCommit => w.allocated.map (fun p => (p, w.txid)) ++ s.disk

/-- which version `Open` presents after that crash: the valid meta with the highest txid -/
def recovered (s : St) (w : W) : CrashPoint → Version
  | .duringData _ => s.cur
  | .duringMeta false => s.cur
  | .duringMeta true => newVersion s.cur w
  | .afterCommit => newVersion s.cur w

end Bolt.Store
