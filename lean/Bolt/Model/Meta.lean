/-
L0 — meta pages: validation (`Meta.Validate`), selection (`DB.meta`),
page-size detection (`DB.getPageSize*`) and the meta part of `Open`/`DB.mmap`.
All functions read a `File` (byte function), so they run on real file bytes in
the driver and are quantified over every file in the theorems.
-/
import Bolt.Model.Fnv
import Bolt.Spec.PublishedV2
namespace Bolt

structure Meta where
  magic : Nat
  version : Nat
  pageSize : Nat
  flags : Nat
  root : Nat
  seq : Nat
  freelist : Nat
  pgid : Nat
  txid : Nat
  checksum : Nat
deriving Repr, DecidableEq, Inhabited

/-- Decode the meta struct whose first byte is at `off` (= page offset + 16). -/
def metaAt (f : File) (off : Nat) : Meta :=
  { magic := f.u32 off, version := f.u32 (off+4), pageSize := f.u32 (off+8), flags := f.u32 (off+12),
    root := f.u64 (off+16), seq := f.u64 (off+24), freelist := f.u64 (off+32), pgid := f.u64 (off+40),
    txid := f.u64 (off+48), checksum := f.u64 (off+56) }

/-- `Meta.Sum64`: FNV-1a over the first 56 bytes of the struct. -/
def metaSum (f : File) (off : Nat) : Nat := (fnv1a64 (f.read off V2.metaChecksumLen)).toNat

/-- `Meta.Validate() == nil`. -/
def metaValid (f : File) (off : Nat) : Bool :=
  f.u32 off == V2.magic && f.u32 (off+4) == V2.version && f.u64 (off+56) == metaSum f off

/-- Serialise a meta struct (64 bytes), checksum field as given. -/
def encodeMetaRaw (m : Meta) : Bytes :=
  putLE 4 m.magic ++ putLE 4 m.version ++ putLE 4 m.pageSize ++ putLE 4 m.flags ++
  putLE 8 m.root ++ putLE 8 m.seq ++ putLE 8 m.freelist ++ putLE 8 m.pgid ++ putLE 8 m.txid ++
  putLE 8 m.checksum

/-- `Meta.Write`: checksum recomputed over the first 56 bytes. -/
def encodeMeta (m : Meta) : Bytes :=
  let body := (encodeMetaRaw m).take V2.metaChecksumLen
  body ++ putLE 8 (fnv1a64 body).toNat

/-- Which of two meta structs `DB.meta()` returns: the valid one with the higher
    txid, else the other valid one, else none (the Go code panics; `DB.mmap`
    guarantees it is unreachable by rejecting two invalid metas). -/
def pickMeta (f : File) (off0 off1 : Nat) : Option Nat :=
  let a := if f.u64 (off1+48) > f.u64 (off0+48) then off1 else off0
  let b := if f.u64 (off1+48) > f.u64 (off0+48) then off0 else off1
  if metaValid f a then some a else if metaValid f b then some b else none

/-- `getPageSizeFromFirstMeta`: needs a full 4096-byte read at offset 0. -/
def pageSizeFromFirst (f : File) : Option Nat :=
  if 4096 ≤ f.size ∧ metaValid f 16 then some (f.u32 (16+8)) else none

/-- `getPageSizeFromSecondMeta`: probes offsets `1024 <<< i`, `i = 0..14`, while
    `pos < fileSize - 1024` (Go int64 arithmetic: `fileSize - 1024` may be negative). -/
def pageSizeFromSecondAux (f : File) : Nat → Nat → Option Nat
  | 0, _ => none
  | fuel+1, i =>
    let pos := 1024 <<< i
    if pos + 1024 < f.size then
      if metaValid f (pos + 16) then some (f.u32 (pos + 16 + 8))
      else pageSizeFromSecondAux f fuel (i+1)
    else none

def pageSizeFromSecond (f : File) : Option Nat := pageSizeFromSecondAux f 15 0

inductive OpenErr | invalid | tooSmall | bothInvalid
deriving Repr, DecidableEq

/-- `getPageSize`: `osPageSize` is the fallback the code uses when at least one meta
    location was readable but neither validated. -/
def getPageSize (f : File) (osPageSize : Nat) : Except OpenErr Nat :=
  match pageSizeFromFirst f with
  | some ps => .ok ps
  | none =>
    match pageSizeFromSecond f with
    | some ps => .ok ps
    | none =>
      if 4096 ≤ f.size ∨ 2048 < f.size then .ok osPageSize else .error .invalid

/-- The meta-related part of `Open` on an existing (non-empty) file: page size,
    `fileSize() ≥ 2 pages`, at least one valid meta, then `DB.meta()`.
    Returns the page size and the offset of the chosen meta struct. -/
def openMeta (f : File) (osPageSize : Nat) : Except OpenErr (Nat × Nat) :=
  match getPageSize f osPageSize with
  | .error e => .error e
  | .ok ps =>
    if f.size < ps * 2 then .error .tooSmall
    else if !metaValid f 16 && !metaValid f (ps + 16) then .error .bothInvalid
    else match pickMeta f 16 (ps + 16) with
      | some off => .ok (ps, off)
      | none => .error .bothInvalid

end Bolt
