/-
L0 — little-endian integers over byte lists and byte-addressed files.
Core Lean only (this file is linked into the `boltmodel` executable).
-/
namespace Bolt

abbrev Bytes := List UInt8

/-- `n` bytes of `v`, least significant first (amd64 layout of Go's uintN fields). -/
def putLE : Nat → Nat → Bytes
  | 0, _ => []
  | n+1, v => UInt8.ofNat (v % 256) :: putLE n (v / 256)

/-- Little-endian value of a byte list. -/
def getLE : Bytes → Nat
  | [] => 0
  | b :: bs => b.toNat + 256 * getLE bs

@[simp] theorem putLE_length (n v : Nat) : (putLE n v).length = n := by
  induction n generalizing v with
  | zero => rfl
  | succ n ih => simp [putLE, ih]

theorem getLE_putLE (n v : Nat) : getLE (putLE n v) = v % 256 ^ n := by
  induction n generalizing v with
  | zero => simp [putLE, getLE, Nat.mod_one]
  | succ n ih =>
    simp only [putLE, getLE, ih]
    have h1 : (UInt8.ofNat (v % 256)).toNat = v % 256 := by
      simp [UInt8.toNat_ofNat']
    rw [h1, Nat.pow_succ, Nat.mul_comm (256 ^ n) 256, Nat.mod_mul]

theorem getLE_putLE_of_lt {n v : Nat} (h : v < 256 ^ n) : getLE (putLE n v) = v := by
  rw [getLE_putLE, Nat.mod_eq_of_lt h]

theorem getLE_lt (bs : Bytes) : getLE bs < 256 ^ bs.length := by
  induction bs with
  | nil => simp [getLE]
  | cons b bs ih =>
    simp only [getLE, List.length_cons, Nat.pow_succ]
    have := b.toNat_lt
    omega

/-- `getLE` is injective on lists of equal length. -/
theorem getLE_inj : ∀ (a b : Bytes), a.length = b.length → getLE a = getLE b → a = b
  | [], [], _, _ => rfl
  | [], _ :: _, h, _ => by simp at h
  | _ :: _, [], h, _ => by simp at h
  | x :: a, y :: b, hl, hv => by
    simp only [getLE] at hv
    have hx := x.toNat_lt
    have hy := y.toNat_lt
    have h1 : x.toNat = y.toNat := by omega
    have h2 : getLE a = getLE b := by omega
    have := getLE_inj a b (by simpa using hl) h2
    have hxy : x = y := UInt8.toNat_inj.mp h1
    rw [this, hxy]

/-- A file (or read buffer) as a total byte function plus a size; reads beyond
    `size` yield 0, which is what Go's zero-initialised read buffers contain after a
    short read. -/
structure File where
  size : Nat
  get  : Nat → UInt8

/-- `n` bytes starting at `off`. -/
def File.read (f : File) (off n : Nat) : Bytes :=
  (List.range n).map (fun j => f.get (off + j))

@[simp] theorem File.read_length (f : File) (off n : Nat) : (f.read off n).length = n := by
  simp [File.read]

/-- Overwrite one byte. -/
def File.set (f : File) (pos : Nat) (v : UInt8) : File :=
  { f with get := fun i => if i = pos then v else f.get i }

def File.u16 (f : File) (off : Nat) : Nat := getLE (f.read off 2)
def File.u32 (f : File) (off : Nat) : Nat := getLE (f.read off 4)
def File.u64 (f : File) (off : Nat) : Nat := getLE (f.read off 8)

end Bolt
