/-
L2 — `Compact` / `walk` / `walkBucket` (`compact.go`) over the nested-map view.
The destination is built through the same API functions the Go code calls
(`CreateBucket`, `SetSequence`, `Put`); the transaction boundaries chosen by
`txMaxSize` are commits of the destination (content-neutral by C03/C04) and are modelled
as the `commits` counter threaded through the walk, so that the theorem quantifies over
every limit including limits that split inside a nested bucket.
-/
import Bolt.Spec.NestedMap
namespace Bolt.Compact

structure Acc where
  dst : SVal            -- destination content so far
  size : Nat            -- bytes written in the current destination transaction
  commits : Nat         -- destination transactions committed so far
  err : Option ApiErr   -- first API error (the Go code returns it and stops)
deriving Inhabited

/-- the callback of `Compact`: size accounting / commit, then create-bucket+sequence or put -/
def visit (limit : Nat) (a : Acc) (path : List Bytes) (k : Bytes) (v : Option Bytes) (seq : Nat) : Acc :=
  if a.err.isSome then a else
  let sz := k.length + (match v with | some x => x.length | none => 0)
  let (size, commits) := if a.size + sz > limit ∧ limit ≠ 0 then (0, a.commits + 1) else (a.size, a.commits)
  let size := size + sz
  match v with
  | none =>
    match apiCreateBucket a.dst path k false with
    | .error e => { a with err := some e }
    | .ok d1 =>
      match apiSetSequence d1 (path ++ [k]) seq with
      | .error e => { a with err := some e }
      | .ok d2 => { dst := d2, size := size, commits := commits, err := none }
  | some x =>
    match apiPut a.dst path k x with
    | .error e => { a with err := some e }
    | .ok d1 => { dst := d1, size := size, commits := commits, err := none }

mutual
/-- `walkBucket` on a nested bucket `k` at `path`: visit it, then its entries in key order -/
def walkBucket (limit : Nat) (path : List Bytes) (k : Bytes) (seq : Nat) (ents : Ents) (a : Acc) : Acc :=
  walkEnts limit (path ++ [k]) ents (visit limit a path k none seq)
/-- the `ForEach` loop over a bucket's entries -/
def walkEnts (limit : Nat) (path : List Bytes) : Ents → Acc → Acc
  | [], a => a
  | (k, .val v) :: rest, a => walkEnts limit path rest (visit limit a path k (some v) 0)
  | (k, .bkt s e) :: rest, a => walkEnts limit path rest (walkBucket limit path k s e a)
end

/-- `Compact(dst, src, txMaxSize)` into an empty destination -/
def compact (limit : Nat) (src : SVal) : Acc :=
  match src with
  | .bkt _ ents => walkEnts limit [] ents { dst := .bkt 0 [], size := 0, commits := 0, err := none }
  | .val _ => { dst := .bkt 0 [], size := 0, commits := 0, err := none }

/-! ### the destination calls, transaction by transaction

`compact` above threads the destination CONTENT; the functions below produce the CALLS `Compact`
makes on the destination, grouped by destination transaction, so that they can be replayed —
through the real API by the harness, through the bucket-tree model by `C15Bkt`. -/

/-- a call `Compact` makes on the destination; paths are relative to the root bucket -/
inductive DstCall
  | put (path : List Bytes) (k v : Bytes)
  | createBucket (path : List Bytes) (k : Bytes)
  | setSequence (path : List Bytes) (n : Nat)
deriving Repr, DecidableEq

mutual
/-- all calls, in the order `walk` makes them -/
def dstCalls (path : List Bytes) : Ents → List DstCall
  | [] => []
  | (k, .val v) :: rest => .put path k v :: dstCalls path rest
  | (k, .bkt s e) :: rest =>
    .createBucket path k :: .setSequence (path ++ [k]) s :: (dstCalls (path ++ [k]) e ++ dstCalls path rest)
end

structure TxAcc where
  size : Nat                   -- bytes in the current destination transaction
  done : List (List DstCall)   -- committed transactions, oldest first
  cur : List DstCall           -- calls of the current transaction

/-- the callback's size accounting: commit first when the limit would be exceeded -/
def txVisit (limit : Nat) (a : TxAcc) (sz : Nat) (cs : List DstCall) : TxAcc :=
  if a.size + sz > limit ∧ limit ≠ 0 then { size := sz, done := a.done ++ [a.cur], cur := cs }
  else { size := a.size + sz, done := a.done, cur := a.cur ++ cs }

mutual
def txEnts (limit : Nat) (path : List Bytes) : Ents → TxAcc → TxAcc
  | [], a => a
  | (k, .val v) :: rest, a => txEnts limit path rest (txVisit limit a (k.length + v.length) [.put path k v])
  | (k, .bkt s e) :: rest, a =>
    txEnts limit path rest
      (txEnts limit (path ++ [k]) e (txVisit limit a k.length [.createBucket path k, .setSequence (path ++ [k]) s]))
end

/-- the destination transactions of `Compact` (the last one is committed at the end) -/
def compactTxs (limit : Nat) (ents : Ents) : List (List DstCall) :=
  let a := txEnts limit [] ents { size := 0, done := [], cur := [] }
  a.done ++ [a.cur]

end Bolt.Compact
