/-
L0 — FNV-1a, 64 bit (hash/fnv.New64a as used by Meta.Sum64).
-/
import Bolt.Model.Bytes
namespace Bolt

def fnvOffset : BitVec 64 := 14695981039346656037#64
def fnvPrime  : BitVec 64 := 1099511628211#64
/-- Multiplicative inverse of the FNV prime modulo 2^64. -/
def fnvPrimeInv : BitVec 64 := 14886173955864302971#64

def fnvStep (h : BitVec 64) (b : UInt8) : BitVec 64 :=
  (h ^^^ (b.toBitVec.setWidth 64)) * fnvPrime

def fnvFrom (h : BitVec 64) (bs : Bytes) : BitVec 64 := bs.foldl fnvStep h

def fnv1a64 (bs : Bytes) : BitVec 64 := fnvFrom fnvOffset bs

theorem fnvPrime_inv : fnvPrime * fnvPrimeInv = 1#64 := by decide

theorem mul_fnvPrime_inj {a b : BitVec 64} (h : a * fnvPrime = b * fnvPrime) : a = b := by
  have h2 : a * fnvPrime * fnvPrimeInv = b * fnvPrime * fnvPrimeInv := by rw [h]
  rw [BitVec.mul_assoc, BitVec.mul_assoc, fnvPrime_inv] at h2
  simpa using h2

theorem xor_right_cancel' {a b c : BitVec 64} (h : a ^^^ c = b ^^^ c) : a = b := by
  have : (a ^^^ c) ^^^ c = (b ^^^ c) ^^^ c := by rw [h]
  simpa [BitVec.xor_assoc] using this

theorem xor_left_cancel' {a b c : BitVec 64} (h : c ^^^ a = c ^^^ b) : a = b := by
  have : c ^^^ (c ^^^ a) = c ^^^ (c ^^^ b) := by rw [h]
  simpa [← BitVec.xor_assoc] using this

theorem fnvStep_inj_state {h1 h2 : BitVec 64} {b : UInt8}
    (h : fnvStep h1 b = fnvStep h2 b) : h1 = h2 :=
  xor_right_cancel' (mul_fnvPrime_inj h)

theorem setWidth64_inj {x y : BitVec 8} (h : x.setWidth 64 = y.setWidth 64) : x = y := by
  have := congrArg (fun v : BitVec 64 => v.setWidth 8) h
  simpa using this

theorem fnvStep_inj_byte {h : BitVec 64} {b1 b2 : UInt8}
    (hs : fnvStep h b1 = fnvStep h b2) : b1 = b2 := by
  have := setWidth64_inj (xor_left_cancel' (mul_fnvPrime_inj hs))
  exact UInt8.toBitVec_inj.mp this

theorem fnvFrom_inj_state (bs : Bytes) {h1 h2 : BitVec 64}
    (h : fnvFrom h1 bs = fnvFrom h2 bs) : h1 = h2 := by
  induction bs generalizing h1 h2 with
  | nil => simpa [fnvFrom] using h
  | cons b bs ih =>
    simp only [fnvFrom, List.foldl_cons] at h
    exact fnvStep_inj_state (ih h)

theorem fnvFrom_append (h : BitVec 64) (a b : Bytes) :
    fnvFrom h (a ++ b) = fnvFrom (fnvFrom h a) b := by
  simp [fnvFrom, List.foldl_append]

/-- Two inputs that differ in exactly one byte never collide. -/
theorem fnv_single_byte (pre suf : Bytes) (x y : UInt8) (hxy : x ≠ y) :
    fnv1a64 (pre ++ x :: suf) ≠ fnv1a64 (pre ++ y :: suf) := by
  intro h
  simp only [fnv1a64, fnvFrom_append] at h
  have h' : fnvFrom (fnvStep (fnvFrom fnvOffset pre) x) suf
          = fnvFrom (fnvStep (fnvFrom fnvOffset pre) y) suf := by
    simpa [fnvFrom] using h
  exact hxy (fnvStep_inj_byte (fnvFrom_inj_state suf h'))

end Bolt
