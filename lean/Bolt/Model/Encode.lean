/-
L0 — page writers (`node.write` / `WriteInodeToPage`, `freelist.Write`, `Meta.Write`, the
inline-bucket value of `Bucket.write`) as byte lists, to be read back by the independent
decoder of `Model/Format.lean`.  Core-only.
-/
import Bolt.Model.Format
namespace Bolt.Enc

/-- page header: id u64, flags u16, count u16, overflow u32 -/
def header (id flags count overflow : Nat) : Bytes :=
  putLE 8 id ++ putLE 2 flags ++ putLE 2 count ++ putLE 4 overflow

/-- `WriteInodeToPage` for a leaf: element headers (flags, pos, ksize, vsize) followed by the
    key/value bytes in order; `pos` is relative to the element header itself -/
def leafElemHeaders : Nat → Nat → List LeafElem → Bytes
  | _, _, [] => []
  | i, dataOff, e :: rest =>
    -- element i sits at 16 + 16*i; its data at dataOff
    putLE 4 e.flags ++ putLE 4 (dataOff - (16 + 16 * i)) ++ putLE 4 e.key.length ++ putLE 4 e.val.length ++
    leafElemHeaders (i+1) (dataOff + e.key.length + e.val.length) rest

def leafData : List LeafElem → Bytes
  | [] => []
  | e :: rest => e.key ++ e.val ++ leafData rest

/-- a leaf page image (unpadded): header, element headers, data -/
def leafPage (id overflow : Nat) (es : List LeafElem) : Bytes :=
  header id V2.leafPageFlag es.length overflow ++ leafElemHeaders 0 (16 + 16 * es.length) es ++ leafData es

def branchElemHeaders : Nat → Nat → List BranchElem → Bytes
  | _, _, [] => []
  | i, dataOff, e :: rest =>
    putLE 4 (dataOff - (16 + 16 * i)) ++ putLE 4 e.key.length ++ putLE 8 e.pgid ++
    branchElemHeaders (i+1) (dataOff + e.key.length) rest

def branchData : List BranchElem → Bytes
  | [] => []
  | e :: rest => e.key ++ branchData rest

def branchPage (id overflow : Nat) (es : List BranchElem) : Bytes :=
  header id V2.branchPageFlag es.length overflow ++ branchElemHeaders 0 (16 + 16 * es.length) es ++ branchData es

/-- `freelist.Write`: count, or 0xFFFF followed by the real count as first array element -/
def freelistPage (id overflow : Nat) (ids : List Nat) : Bytes :=
  if ids.length < 0xFFFF then
    header id V2.freelistPageFlag ids.length overflow ++ ids.flatMap (putLE 8)
  else
    header id V2.freelistPageFlag 0xFFFF overflow ++ putLE 8 ids.length ++ ids.flatMap (putLE 8)

/-- a byte list as a `File` (reads beyond the end yield 0) -/
def fileOf (bs : Bytes) : File := { size := bs.length, get := fun i => bs.getD i 0 }

/-- sizes within the format's field widths and the page span -/
def LeafOK (es : List LeafElem) (span : Nat) : Prop :=
  es.length < 0xFFFF ∧ (∀ e ∈ es, e.flags < 2^32 ∧ e.key.length < 2^32 ∧ e.val.length < 2^32) ∧
  16 + 16 * es.length + (leafData es).length ≤ span ∧ span < 2^32

def BranchOK (es : List BranchElem) (span : Nat) : Prop :=
  es.length < 0xFFFF ∧ (∀ e ∈ es, e.key.length < 2^32 ∧ e.pgid < 2^64) ∧
  16 + 16 * es.length + (branchData es).length ≤ span ∧ span < 2^32

end Bolt.Enc
