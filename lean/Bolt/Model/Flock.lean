/-
L4 — advisory file locks as `Open`/`Close` use them (`bolt_unix.go`): `flock(2)` with
LOCK_NB and LOCK_EX (read-write open) or LOCK_SH (read-only open), per open file
description; `Close` of a read-write database unlocks explicitly, closing the descriptor
releases the lock in either mode.  The semantics of flock(2) below is a DEFINITION (trusted
base); `Props/GenC17.lean` ties the flags and `exclusive = !readOnly` to the source.
-/
namespace Bolt.Flock

inductive Mode | ex | sh
deriving Repr, DecidableEq

/-- holders of a lock on one file: (open file description, mode) -/
abbrev LockSt := List (Nat × Mode)

/-- `flock(fd, LOCK_NB | mode)`: granted iff compatible with every other holder -/
def tryLock (s : LockSt) (id : Nat) (m : Mode) : Option LockSt :=
  let others := s.filter (fun h => h.1 ≠ id)
  match m with
  | .ex => if others.isEmpty then some ((id, .ex) :: others) else none
  | .sh => if others.all (fun h => h.2 == .sh) then some ((id, .sh) :: others) else none

/-- `flock(fd, LOCK_UN)` / closing the descriptor -/
def unlock (s : LockSt) (id : Nat) : LockSt := s.filter (fun h => h.1 ≠ id)

/-- `Open(path, readOnly)` with a fresh descriptor `id`: `flock(db, !readOnly, timeout)`;
    with a timeout the call retries until the deadline and then returns ErrTimeout — the
    outcome is that of the last attempt. -/
def openDb (s : LockSt) (id : Nat) (readOnly : Bool) : Option LockSt :=
  tryLock s id (if readOnly then .sh else .ex)

def closeDb (s : LockSt) (id : Nat) : LockSt := unlock s id

end Bolt.Flock
